(* C32 — specification: what the property text says, stated over the history of operations only.

   The specification knows nothing of rings, indices, windows or pushed flags.  Its state is
     - the end of the retained history H (NewBucketRing starts it at now + 2*interval, every rollover adds interval),
     - the log of accepted flows,
     - the time intervals already handed to the sink.
   Buckets are the half-open intervals [b, b+interval) with b = H (mod interval); the retained history is
   [H - n*interval, H).

   1. A flow is accepted iff its start time lies in the retained history, and it is counted in the one bucket
      whose interval contains its start time.
   2. A query over [gte, lt) returns, per key (List) or per policy (Statistics), the sums of the accepted flows that
      are still retained and whose bucket lies in the range.  When a bound falls strictly inside a bucket the
      store cannot split that bucket; the specification then accepts either rounding of that bound to a bucket
      boundary (so for bucket-aligned ranges the answer is exact).  0 means unbounded.
   3. Every collection handed to the sink covers an interval disjoint from every interval handed over before
      (each window at most once) and contains exactly the accepted flows whose start lies in that interval
      (nothing left out, nothing twice).  The emission must terminate. *)
From Coq Require Import List ZArith NArith Arith Bool.
From Verif.C32 Require Import Model.
Import ListNotations.
Open Scope Z_scope.

Record sstate := { s_eoh : Z; s_log : list flow; s_emitted : list (Z * Z) }.

Section Spec.
Variable n : nat.
Variable interval : Z.

Definition s_boh (s : sstate) : Z := s_eoh s - interval * Z.of_nat n.

(* start of the bucket containing t *)
Definition bstart (s : sstate) (t : Z) : Z := t - Z.modulo (t - s_eoh s) interval.

Definition retained (s : sstate) (f : flow) : bool := s_boh s <=? f_start f.

(* group flows by a key, summing counts and keeping the earliest bucket start / latest bucket end *)
Definition group_step (s : sstate) (kf : N -> N) (acc : list (N * (cnt * Z * Z))) (f : flow) :=
  let bs := bstart s (f_start f) in
  let be := bs + interval in
  aupdate (kf (f_key f))
          (fun o => match o with
                    | None => (f_cnt f, bs, be)
                    | Some (c, s0, e0) => (cadd c (f_cnt f), Z.min s0 bs, Z.max e0 be)
                    end) acc.
Definition group (s : sstate) (kf : N -> N) (fs : list flow) : list (N * (cnt * Z * Z)) :=
  sort_by fst (fold_left (group_step s kf) fs []).

Definition as_aflows (g : list (N * (cnt * Z * Z))) : list aflow :=
  map (fun x => let '(k, (c, s0, e0)) := x in {| a_key := k; a_cnt := c; a_start := s0; a_end := e0 |}) g.
Definition as_stats (g : list (N * (cnt * Z * Z))) : list (N * cnt) :=
  map (fun x => let '(k, (c, _, _)) := x in (k, c)) g.

(* the admissible readings of a range [gte, lt) at bucket granularity: predicates on a bucket [bs, be) *)
Definition left_readings (gte : Z) : list (Z -> Z -> bool) :=
  if gte =? 0 then [fun _ _ => true]
  else [fun bs _ => gte <=? bs; fun _ be => gte <? be].
Definition right_readings (s : sstate) (lt : Z) : list (Z -> Z -> bool) :=
  if lt =? 0 then [fun _ _ => true; fun _ be => be <=? s_eoh s - interval]
  else [fun _ be => be <=? lt; fun bs _ => bs <? lt].

Definition in_reading (s : sstate) (L R : Z -> Z -> bool) (f : flow) : bool :=
  let bs := bstart s (f_start f) in
  retained s f && L bs (bs + interval) && R bs (bs + interval).

Definition out_of_domain (gte lt : Z) : bool := negb (gte =? 0) && negb (lt =? 0) && (lt <=? gte).

Definition ok_list (s : sstate) (gte lt : Z) (obs : list aflow) : bool :=
  out_of_domain gte lt ||
  existsb (fun L => existsb (fun R =>
     list_eqb aflow_eqb (as_aflows (group s (fun k => k) (filter (in_reading s L R) (s_log s)))) obs)
     (right_readings s lt)) (left_readings gte).

Definition in_history (s : sstate) (t : Z) : bool := (s_boh s <=? t) && (t <? s_eoh s).

Definition ok_stats (s : sstate) (gte lt : Z) (obs : option (list (N * cnt))) : bool :=
  out_of_domain gte lt ||
  match obs with
  | None => (negb (gte =? 0) && negb (in_history s gte)) || (negb (lt =? 0) && negb (in_history s lt))
  | Some st =>
      existsb (fun L => existsb (fun R =>
        list_eqb pc_eqb (as_stats (group s pol_of (filter (in_reading s L R) (s_log s)))) st)
        (right_readings s lt)) (left_readings gte)
  end.

(* one collection handed to the sink *)
Definition ok_collection (s : sstate) (c : ocoll) : bool :=
  let '(cs, ce, fl) := c in
  (cs <? ce)
  && forallb (fun ab => (ce <=? fst ab) || (snd ab <=? cs)) (s_emitted s)
  && negb (Nat.eqb (length fl) 0)
  && list_eqb aflow_eqb
       (as_aflows (group s (fun k => k) (filter (fun f => (cs <=? f_start f) && (f_start f <? ce)) (s_log s)))) fl.

Fixpoint ok_collections (s : sstate) (cs : list ocoll) : bool * sstate :=
  match cs with
  | [] => (true, s)
  | c :: cs' =>
      let ok := ok_collection s c in
      let '(a, b, _) := c in
      let s' := {| s_eoh := s_eoh s; s_log := s_log s; s_emitted := (a, b) :: s_emitted s |} in
      let '(ok', s'') := ok_collections s' cs' in
      (ok && ok', s'')
  end.

Definition ok_add (s : sstate) (f : flow) (obs : option Z) : bool :=
  match obs with
  | None => negb (in_history s (f_start f))
  | Some b => in_history s (f_start f) && (b =? bstart s (f_start f))
              && (b <=? f_start f) && (f_start f <? b + interval)
  end.

Definition s_roll (s : sstate) : sstate :=
  {| s_eoh := s_eoh s + interval; s_log := s_log s; s_emitted := s_emitted s |}.

Fixpoint ok_trace_from (s : sstate) (ops : list op) (outs : list out) : bool :=
  match ops, outs with
  | [], [] => true
  | o :: ops', x :: outs' =>
      match o, x with
      | OpAdd f, OAdd b =>
          ok_add s f b
          && ok_trace_from (match b with
                            | Some _ => {| s_eoh := s_eoh s; s_log := s_log s ++ [f]; s_emitted := s_emitted s |}
                            | None => s end) ops' outs'
      | OpRollover false, OEmitted [] => ok_trace_from (s_roll s) ops' outs'
      | OpRollover true, OEmitted cs =>
          let '(ok, s') := ok_collections (s_roll s) cs in ok && ok_trace_from s' ops' outs'
      | OpEmit, OEmitted cs =>
          let '(ok, s') := ok_collections s cs in ok && ok_trace_from s' ops' outs'
      | OpList gte lt, OList l => ok_list s gte lt l && ok_trace_from s ops' outs'
      | OpStats gte lt, OStats st => ok_stats s gte lt st && ok_trace_from s ops' outs'
      | _, _ => false      (* includes ODiverge: emission must terminate *)
      end
  | _, _ => false
  end.
End Spec.

Definition ok_trace (n : nat) (interval now : Z) (ops : list op) (outs : list out) : bool :=
  ok_trace_from n interval {| s_eoh := now + 2 * interval; s_log := []; s_emitted := [] |} ops outs.

(* one correspondence case, as written by the Go driver *)
Record case := { c_n : nat; c_interval : Z; c_now : Z; c_push : nat; c_agg : nat; c_fix_walk : bool; c_fix_agg : bool;
                 c_ops : list op; c_outs : list out }.

Definition check_case (c : case) : bool * bool :=
  (list_eqb out_eqb (run (new_ring (c_n c) (c_interval c) (c_now c) (c_push c) (c_agg c) (c_fix_walk c) (c_fix_agg c)) (c_ops c)) (c_outs c),
   ok_trace (c_n c) (c_interval c) (c_now c) (c_ops c) (c_outs c)).
