(* C32 — the diachronic-flow invariant: every key's Windows are tied to the log of accepted flows; preserved by
   AddFlow (win_add), Rollover (roll_key / win_roll) and emission; what Aggregate therefore returns. *)
From Coq Require Import List ZArith NArith Arith Bool Lia Sorting.Sorted.
From Verif.C32 Require Import Model Spec Proofs Walk Conserve.
Import ListNotations.
Open Scope Z_scope.

Definition wlt (a b : window) : Prop := w_start a < w_start b.
Definition wsorted (ws : list window) : Prop := StronglySorted wlt ws.

Definition upd (w : window) (c : cnt) : window := {| w_start := w_start w; w_end := w_end w; w_cnt := cadd (w_cnt w) c |}.
Definition mkw (s e : Z) (c : cnt) : window := {| w_start := s; w_end := e; w_cnt := c |}.

(* ---- win_add ---- *)
Lemma win_add_in0 : forall ws s e c w', In w' (win_add ws s e c) -> w_start w' = s \/ In w' ws.
Proof.
  induction ws as [|w tl IH]; simpl; intros s e c w' H.
  - destruct H as [<-|[]]. left. reflexivity.
  - destruct (s <=? w_start w); [destruct (w_start w =? s) eqn:E|].
    + destruct H as [<-|H]; [left; apply Z.eqb_eq in E; exact E|right; right; exact H].
    + destruct H as [<-|H]; [left; reflexivity|right; exact H].
    + destruct H as [<-|H]; [right; left; reflexivity|]. apply IH in H. destruct H; [left|right; right]; assumption.
Qed.

Lemma sorted_head_lt : forall w tl x, wsorted (w :: tl) -> In x tl -> w_start w < w_start x.
Proof. intros w tl x H Hx. inversion H; subst. rewrite Forall_forall in H3. apply H3. assumption. Qed.

Lemma win_add_sorted : forall ws s e c, wsorted ws -> wsorted (win_add ws s e c).
Proof.
  induction ws as [|w tl IH]; simpl; intros s e c H.
  - constructor; constructor.
  - inversion H; subst. destruct (Z.leb_spec s (w_start w)); [destruct (Z.eqb_spec (w_start w) s)|].
    + constructor; [assumption|]. eapply Forall_impl; [|exact H3]. intros a Ha. exact Ha.
    + constructor; [assumption|]. constructor; [unfold wlt; simpl; lia|].
      eapply Forall_impl; [|exact H3]. unfold wlt. simpl. intros; lia.
    + constructor; [apply IH; assumption|]. rewrite Forall_forall. intros x Hx.
      apply win_add_in0 in Hx. destruct Hx as [Hx|Hx]; [unfold wlt; lia|].
      rewrite Forall_forall in H3. apply H3. assumption.
Qed.

(* where an element of win_add comes from *)
Lemma win_add_in : forall ws s e c w', wsorted ws -> In w' (win_add ws s e c) ->
  (In w' ws /\ w_start w' <> s)
  \/ (exists w, In w ws /\ w_start w = s /\ w' = upd w c)
  \/ ((forall w, In w ws -> w_start w <> s) /\ w' = mkw s e c).
Proof.
  induction ws as [|w tl IH]; simpl; intros s e c w' Hs H.
  - destruct H as [<-|[]]. right. right. split; [intros w []|reflexivity].
  - inversion Hs; subst. rewrite Forall_forall in H3.
    destruct (Z.leb_spec s (w_start w)); [destruct (Z.eqb_spec (w_start w) s)|].
    + destruct H as [<-|H].
      * right. left. exists w. split; [left; reflexivity|]. split; [assumption|reflexivity].
      * left. split; [right; assumption|]. specialize (H3 w' H). unfold wlt in H3. lia.
    + destruct H as [<-|H].
      * right. right. split; [|reflexivity]. intros x [<-|Hx]; [assumption|]. specialize (H3 x Hx). unfold wlt in H3. lia.
      * left. split; [assumption|]. destruct H as [<-|H]; [assumption|]. specialize (H3 w' H). unfold wlt in H3. lia.
    + destruct H as [<-|H]; [left; split; [left; reflexivity|lia]|].
      destruct (IH s e c w' H2 H) as [[A B]|[(x & A & B & C)|[A B]]].
      * left. split; [right; assumption|assumption].
      * right. left. exists x. split; [right; assumption|]. split; assumption.
      * right. right. split; [|assumption]. intros x [<-|Hx]; [lia|apply A; assumption].
Qed.

(* what stays and what appears *)
Lemma win_add_keeps : forall ws s e c w, In w ws -> w_start w <> s -> In w (win_add ws s e c).
Proof.
  induction ws as [|w0 tl IH]; simpl; intros s e c w H Hne; [contradiction|].
  destruct (s <=? w_start w0); [destruct (Z.eqb_spec (w_start w0) s)|].
  - destruct H as [<-|H]; [congruence|right; assumption].
  - right. assumption.
  - destruct H as [<-|H]; [left; reflexivity|right; apply IH; assumption].
Qed.

Lemma win_add_has : forall ws s e c, exists w', In w' (win_add ws s e c) /\ w_start w' = s.
Proof.
  induction ws as [|w0 tl IH]; simpl; intros s e c.
  - eexists. split; [left; reflexivity|reflexivity].
  - destruct (s <=? w_start w0); [destruct (Z.eqb_spec (w_start w0) s)|].
    + eexists. split; [left; reflexivity|assumption].
    + eexists. split; [left; reflexivity|reflexivity].
    + destruct (IH s e c) as (w' & A & B). exists w'. split; [right; assumption|assumption].
Qed.

(* ---- win_roll ---- *)
Lemma win_roll_in : forall i ws L, wsorted ws -> (forall w, In w ws -> w_end w = w_start w + i) ->
  forall w, In w (win_roll ws L) <-> In w ws /\ L < w_end w.
Proof.
  induction ws as [|w0 tl IH]; simpl; intros L Hs He w; [tauto|].
  inversion Hs; subst. rewrite Forall_forall in H2.
  destruct (Z.ltb_spec L (w_end w0)).
  - simpl. split; [|tauto]. intros [<-|Hw]; [split; [left; reflexivity|assumption]|].
    split; [right; assumption|]. specialize (H2 w Hw). unfold wlt in H2.
    rewrite (He w0) in H by (left; reflexivity). rewrite (He w) by (right; assumption). lia.
  - rewrite IH by (auto; intros; apply He; right; assumption). split; [tauto|].
    intros [[<-|Hw] Hl]; [lia|tauto].
Qed.

Lemma win_roll_sorted : forall ws L, wsorted ws -> wsorted (win_roll ws L).
Proof.
  induction ws as [|w0 tl IH]; simpl; intros L Hs; [constructor|].
  destruct (L <? w_end w0); [assumption|]. inversion Hs; subst. apply IH. assumption.
Qed.

Lemma win_roll_idem : forall ws L, win_roll (win_roll ws L) L = win_roll ws L.
Proof.
  induction ws as [|w0 tl IH]; simpl; intros L; [reflexivity|].
  destruct (L <? w_end w0) eqn:E; [simpl; rewrite E; reflexivity|apply IH].
Qed.

(* ---- the invariant ---- *)
Definition dget (d : list (N * list window)) (k : N) : list window :=
  match alookup k d with Some ws => ws | None => [] end.
Definition dws (r : ring) (k : N) : list window := dget (r_dia r) k.

(* flow f has key k and starts inside window w *)
Definition tin (k : N) (w : window) (f : flow) : bool :=
  N.eqb (f_key f) k && ((w_start w <=? f_start f) && (f_start f <? w_end w)).

Definition wslot (r : ring) (w : window) : Prop :=
  exists j, (j < nb r)%nat /\ w_start w = b_start (bk r j) /\ w_end w = b_end (bk r j).
Definition wok (r : ring) (log : list flow) (k : N) (w : window) : Prop :=
  wslot r w /\ Some (w_cnt w) = sem (tin k w) log.

Definition dinv (r : ring) (log : list flow) : Prop :=
  NoDup (map fst (r_dia r))
  /\ forall k, wsorted (dws r k)
       /\ (forall w, In w (dws r k) -> wok r log k w)
       /\ (forall j, (j < nb r)%nat -> existsb (kin r k j) log = true ->
             exists w, In w (dws r k) /\ w_start w = b_start (bk r j)).

Lemma slot_start_inj : forall r j1 j2, ring_ok r -> (j1 < nb r)%nat -> (j2 < nb r)%nat ->
  b_start (bk r j1) = b_start (bk r j2) -> j1 = j2.
Proof.
  intros r j1 j2 Hok H1 H2 E. pose proof Hok as (Hn & Hh & Hi & _).
  destruct (slot_is_sub r j1 Hok H1) as (y1 & Hy1 & <-). destruct (slot_is_sub r j2 Hok H2) as (y2 & Hy2 & <-).
  rewrite (proj1 (slot_times r y1 Hok Hy1)), (proj1 (slot_times r y2 Hok Hy2)) in E.
  assert (y1 = y2) by nia. subst. reflexivity.
Qed.

Lemma tin_kin : forall r k w j f, w_start w = b_start (bk r j) -> w_end w = b_end (bk r j) -> tin k w f = kin r k j f.
Proof. intros r k w j f A B. unfold tin, kin, inb, in_bucket. rewrite A, B. reflexivity. Qed.

Lemma add_flow_dia : forall r f r' b, add_flow r f = (r', Some b) ->
  exists idx, find_bucket r (f_start f) = Some idx /\ b = b_start (bk r idx)
    /\ r_dia r' = aupdate (f_key f)
         (fun o => win_add (match o with Some ws => ws | None => [] end) (b_start (bk r idx)) (b_end (bk r idx)) (f_cnt f)) (r_dia r).
Proof.
  intros r f r' b E. unfold add_flow in E. destruct (find_bucket r (f_start f)) as [idx|]; [|discriminate].
  cbv zeta in E. injection E as <- <-. exists idx. repeat split; reflexivity.
Qed.

Lemma add_flow_dinv : forall r f log, ring_ok r -> dinv r log ->
  dinv (fst (add_flow r f)) (match snd (add_flow r f) with Some _ => log ++ [f] | None => log end).
Proof.
  intros r f log Hok (D1 & D). destruct (add_flow r f) as [r' ob] eqn:E.
  pose proof (add_flow_counted_once r f r' ob Hok E) as H. cbn [fst snd].
  destruct ob as [b|]; [|destruct H as [_ ->]; split; assumption].
  destruct H as (Hr & idx & Hidx & Hb & Hrange & Huniq & Hbk1 & Hbk2 & _).
  destruct (add_flow_dia r f r' b E) as (idx' & Ef & Hb' & Hdia).
  assert (idx' = idx).
  { destruct (find_bucket_spec r (f_start f) Hok) as [Hfb _]. destruct (Hfb Hr) as (i0 & E0 & Hl0 & _ & Hr0 & _).
    rewrite Ef in E0. injection E0 as <-. apply Huniq; assumption. }
  subst idx'. clear Hb'.
  pose proof (add_flow_frame r f) as F. rewrite E in F. cbn [fst] in F. destruct F as (Fnb & Fhd & Fiv & Fse).
  assert (Hend : b_end (bk r idx) = b + r_interval r).
  { destruct (find_bucket_spec r (f_start f) Hok) as [Hfb _]. destruct (Hfb Hr) as (i0 & E0 & _ & _ & _ & He0 & _).
    rewrite Ef in E0. injection E0 as <-. rewrite He0, Hb. reflexivity. }
  assert (Hfin : in_bucket (bk r idx) (f_start f) = true) by (apply in_bucket_iff; rewrite Hend, <- Hb; lia).
  assert (Hslot' : forall w, wslot r w -> wslot r' w).
  { intros w (j & Hj & A & B). exists j. rewrite Fnb, (proj1 (Fse j)), (proj2 (Fse j)). auto. }
  assert (Hkin' : forall k j g, kin r' k j g = kin r k j g).
  { intros. unfold kin, inb, in_bucket. rewrite (proj1 (Fse j)), (proj2 (Fse j)). reflexivity. }
  assert (Hdws : forall k, dws r' k = if N.eqb k (f_key f) then win_add (dws r k) b (b_end (bk r idx)) (f_cnt f) else dws r k).
  { intros k. unfold dws, dget. rewrite Hdia, alookup_aupdate, <- Hb.
    destruct (N.eqb_spec k (f_key f)) as [->|]; reflexivity. }
  (* a flow of the log other than f never moves; f itself lies in slot idx only *)
  assert (Hf_slot : forall j, (j < nb r)%nat -> in_bucket (bk r j) (f_start f) = true -> j = idx).
  { intros j Hj X. apply Huniq; [assumption|apply in_bucket_iff; assumption]. }
  split; [rewrite Hdia; apply aupdate_nodup; assumption|].
  intros k. destruct (D k) as (S2 & S3 & S4). rewrite Hdws.
  destruct (N.eqb_spec k (f_key f)) as [->|Hk].
  - split; [apply win_add_sorted; assumption|]. split.
    + intros w' Hw'. destruct (win_add_in _ _ _ _ _ S2 Hw') as [[A B]|[(w & A & B & ->)|[A ->]]].
      * destruct (S3 w' A) as [(j & Hj & Ws & We) Hc]. split; [apply Hslot'; exists j; auto|].
        rewrite sem_snoc. rewrite (tin_kin r _ w' j f Ws We). unfold kin, inb.
        destruct (in_bucket (bk r j) (f_start f)) eqn:X.
        { exfalso. apply Hf_slot in X; [|assumption]. subst j. congruence. }
        rewrite andb_false_r. assumption.
      * destruct (S3 w A) as [(j & Hj & Ws & We) Hc].
        assert (j = idx) by (apply (slot_start_inj r); auto; congruence). subst j.
        split; [apply Hslot'; exists idx; auto|].
        rewrite sem_snoc. change (tin (f_key f) (upd w (f_cnt f))) with (tin (f_key f) w).
        rewrite (tin_kin r _ w idx f Ws We). unfold kin, inb. rewrite Hfin, N.eqb_refl. cbn [andb].
        rewrite <- Hc. reflexivity.
      * split; [apply Hslot'; exists idx; cbn [mkw w_start w_end]; auto|].
        rewrite sem_snoc. rewrite (tin_kin r _ (mkw b (b_end (bk r idx)) (f_cnt f)) idx f) by (cbn [mkw w_start w_end]; auto).
        unfold kin at 1, inb. rewrite Hfin, N.eqb_refl. cbn [andb mkw w_cnt].
        assert (X : existsb (tin (f_key f) (mkw b (b_end (bk r idx)) (f_cnt f))) log = false).
        { destruct (existsb _ log) eqn:X; [|reflexivity]. exfalso.
          rewrite (existsb_ext_in _ (kin r (f_key f) idx)) in X by (intros; apply tin_kin; cbn [mkw w_start w_end]; auto).
          destruct (S4 idx Hidx X) as (w & Hw & Hws). apply (A w Hw). congruence. }
        unfold sem. rewrite X. reflexivity.
    + intros j Hj Hex. rewrite Fnb in Hj. rewrite (proj1 (Fse j)).
      destruct (Z.eq_dec (b_start (bk r j)) b) as [Eb|Eb].
      * destruct (win_add_has (dws r (f_key f)) b (b_end (bk r idx)) (f_cnt f)) as (w' & A & B). exists w'. split; [assumption|congruence].
      * rewrite (existsb_ext_in _ (kin r (f_key f) j)) in Hex by (intros; apply Hkin').
        rewrite existsb_app in Hex. simpl in Hex. rewrite orb_false_r in Hex. apply orb_true_iff in Hex.
        destruct Hex as [Hex|Hex].
        -- destruct (S4 j Hj Hex) as (w & Hw & Hws). exists w. split; [|assumption]. apply win_add_keeps; [assumption|congruence].
        -- exfalso. unfold kin, inb in Hex. apply andb_true_iff in Hex. destruct Hex as [_ Hex].
           apply Hf_slot in Hex; [|assumption]. subst j. congruence.
  - split; [assumption|]. split.
    + intros w Hw. destruct (S3 w Hw) as [Hsl Hc]. split; [apply Hslot'; assumption|].
      rewrite sem_snoc. unfold tin at 1. destruct (N.eqb_spec (f_key f) k); [congruence|]. cbn [andb]. assumption.
    + intros j Hj Hex. rewrite Fnb in Hj. rewrite (proj1 (Fse j)).
      rewrite (existsb_ext_in _ (kin r k j)) in Hex by (intros; apply Hkin').
      rewrite existsb_app in Hex. simpl in Hex. rewrite orb_false_r in Hex. apply orb_true_iff in Hex.
      destruct Hex as [Hex|Hex]; [apply S4; assumption|].
      unfold kin in Hex. destruct (N.eqb_spec (f_key f) k); [congruence|discriminate].
Qed.

(* ---- Rollover ---- *)
Lemma alookup_aremove : forall A k k' (l : list (N * A)), NoDup (map fst l) ->
  alookup k' (aremove k l) = if N.eqb k' k then None else alookup k' l.
Proof.
  induction l as [|[k0 v] tl IH]; simpl; intros Hnd.
  - destruct (N.eqb k' k); reflexivity.
  - inversion Hnd; subst. destruct (N.eqb_spec k k0) as [->|Hne].
    + destruct (N.eqb_spec k' k0) as [->|]; [apply alookup_notin; assumption|reflexivity].
    + simpl. rewrite IH by assumption. destruct (N.eqb_spec k' k0) as [->|]; [|reflexivity].
      destruct (N.eqb_spec k0 k); [congruence|reflexivity].
Qed.

Lemma aremove_keys_incl : forall A k (l : list (N * A)) x, In x (map fst (aremove k l)) -> In x (map fst l).
Proof.
  induction l as [|[k0 v] tl IH]; simpl; intros x H; [assumption|].
  destruct (N.eqb k k0); [right; assumption|]. simpl in H. destruct H; [left; assumption|right; apply IH; assumption].
Qed.

Lemma aremove_nodup : forall A k (l : list (N * A)), NoDup (map fst l) -> NoDup (map fst (aremove k l)).
Proof.
  induction l as [|[k0 v] tl IH]; simpl; intros Hnd; [constructor|]. inversion Hnd; subst.
  destruct (N.eqb k k0); [assumption|]. simpl. constructor; [|apply IH; assumption].
  intro X. apply aremove_keys_incl in X. tauto.
Qed.

Lemma roll_key_spec : forall L d k0, NoDup (map fst d) ->
  NoDup (map fst (roll_key L d k0))
  /\ forall k, dget (roll_key L d k0) k = if N.eqb k k0 then win_roll (dget d k0) L else dget d k.
Proof.
  intros L d k0 Hnd. unfold roll_key, dget. destruct (alookup k0 d) as [ws|] eqn:E.
  - destruct (win_roll ws L) as [|w tl] eqn:Ew.
    + split; [apply aremove_nodup; assumption|]. intros k. rewrite alookup_aremove by assumption.
      destruct (N.eqb_spec k k0); reflexivity.
    + split; [apply aupdate_nodup; assumption|]. intros k. rewrite alookup_aupdate.
      destruct (N.eqb_spec k k0); reflexivity.
  - split; [assumption|]. intros k. destruct (N.eqb_spec k k0) as [->|]; [rewrite E; reflexivity|reflexivity].
Qed.

Lemma roll_fold_spec : forall L old d, NoDup (map fst d) ->
  NoDup (map fst (fold_left (roll_key L) old d))
  /\ forall k, dget (fold_left (roll_key L) old d) k = if existsb (N.eqb k) old then win_roll (dget d k) L else dget d k.
Proof.
  induction old as [|k0 tl IH]; intros d Hnd; simpl; [split; [assumption|reflexivity]|].
  destruct (roll_key_spec L d k0 Hnd) as [N1 G1]. destruct (IH _ N1) as [N2 G2]. split; [assumption|].
  intros k. rewrite G2, G1. destruct (N.eqb_spec k k0) as [->|]; simpl.
  - destruct (existsb (N.eqb k0) tl); [apply win_roll_idem|reflexivity].
  - reflexivity.
Qed.

Lemma win_roll_all : forall ws L, (forall w, In w ws -> L < w_end w) -> win_roll ws L = ws.
Proof.
  intros [|w tl] L H; simpl; [reflexivity|]. destruct (Z.ltb_spec L (w_end w)); [reflexivity|].
  specialize (H w (or_introl eq_refl)). lia.
Qed.

Lemma rollover_dia : forall r, r_dia (rollover_core r)
  = fold_left (roll_key (boh (rollover_core r))) (b_keys (bk r (next_idx r (r_head r)))) (r_dia r).
Proof. reflexivity. Qed.

Lemma oldest_slot : forall r, ring_ok r ->
  next_idx r (r_head r) = sub r (nb r - 1) /\ b_start (bk r (next_idx r (r_head r))) = boh r
  /\ b_end (bk r (next_idx r (r_head r))) = boh r + r_interval r.
Proof.
  intros r Hok. pose proof Hok as (Hn & Hh & Hi & _). pose proof (ring_ok_boh r Hok) as Hboh.
  assert (E : next_idx r (r_head r) = sub r (nb r - 1)).
  { unfold next_idx, sub. rewrite idx_add1_spec, idx_sub_spec by lia. nbash. }
  split; [exact E|]. rewrite E. destruct (slot_times r (nb r - 1) Hok ltac:(lia)) as [-> ->].
  rewrite Hboh. replace (Z.of_nat (nb r - 1)) with (Z.of_nat (nb r) - 1) by lia. lia.
Qed.

Lemma slot_end_gt : forall r j, ring_ok r -> (j < nb r)%nat -> j <> next_idx r (r_head r) ->
  boh r + r_interval r < b_end (bk r j) /\ b_end (bk r j) = b_start (bk r j) + r_interval r.
Proof.
  intros r j Hok Hj Hne. pose proof Hok as (Hn & Hh & Hi & _). pose proof (ring_ok_boh r Hok) as Hboh.
  destruct (oldest_slot r Hok) as (E & _). destruct (slot_is_sub r j Hok Hj) as (y & Hy & <-).
  assert (y <> (nb r - 1)%nat) by (intro; subst y; congruence).
  destruct (slot_times r y Hok Hy) as [-> ->]. rewrite Hboh. nia.
Qed.

Lemma slot_len : forall r j, ring_ok r -> (j < nb r)%nat -> b_end (bk r j) = b_start (bk r j) + r_interval r.
Proof.
  intros r j Hok Hj. destruct (slot_is_sub r j Hok Hj) as (y & Hy & <-).
  destruct (slot_times r y Hok Hy) as [-> ->]. lia.
Qed.

Lemma rollover_dinv : forall r log, ring_ok r -> Forall (fun f => f_start f < eoh r) log -> kinv r log ->
  dinv r log -> dinv (rollover_core r) log.
Proof.
  intros r log Hok C K (D1 & D). pose proof Hok as (Hn & Hh & Hi & _).
  pose proof (rollover_ok r Hok) as Hok'. pose proof (ring_ok_boh r Hok) as Hboh. pose proof (ring_ok_boh _ Hok') as Hboh'.
  rewrite rollover_core_nb, rollover_eoh in Hboh' by assumption.
  change (r_interval (rollover_core r)) with (r_interval r) in Hboh'.
  set (h' := next_idx r (r_head r)) in *. set (L := boh (rollover_core r)) in *.
  assert (HL : L = boh r + r_interval r) by lia.
  destruct (oldest_slot r Hok) as (Eh & Hs' & He'). fold h' in Eh, Hs', He'.
  assert (Hh' : (h' < nb r)%nat) by (rewrite Eh; apply sub_lt; assumption).
  destruct (roll_fold_spec L (b_keys (bk r h')) (r_dia r) D1) as [N2 G2].
  (* uniformly: the windows of every key are rolled *)
  assert (Hdws : forall k, dws (rollover_core r) k = win_roll (dws r k) L).
  { intros k. unfold dws. rewrite rollover_dia. fold h'. fold L. rewrite G2.
    destruct (existsb (N.eqb k) (b_keys (bk r h'))) eqn:Ex; [reflexivity|].
    symmetry. apply win_roll_all. intros w Hw. destruct (D k) as (_ & S3 & _).
    destruct (S3 w Hw) as [(j & Hj & Ws & We) Hc].
    destruct (Nat.eq_dec j h') as [->|Hne].
    - exfalso. unfold sem in Hc. destruct (existsb (tin k w) log) eqn:X; [|discriminate].
      rewrite (existsb_ext_in _ (kin r k h')) in X by (intros; apply tin_kin; assumption).
      apply (K h' Hh' k) in X.
      assert (existsb (N.eqb k) (b_keys (bk r h')) = true) by (apply existsb_exists; exists k; split; [assumption|apply N.eqb_refl]).
      congruence.
    - rewrite We, HL. apply slot_end_gt; assumption. }
  assert (Hbk : forall j, j <> h' -> bk (rollover_core r) j = bk r j).
  { intros j Hne. rewrite rollover_bk by assumption. fold h'. destruct (Nat.eqb_spec j h'); [congruence|reflexivity]. }
  split; [rewrite rollover_dia; fold h'; fold L; assumption|].
  intros k. destruct (D k) as (S2 & S3 & S4). rewrite Hdws.
  assert (Hlen : forall w, In w (dws r k) -> w_end w = w_start w + r_interval r).
  { intros w Hw. destruct (S3 w Hw) as [(j & Hj & Ws & We) _]. rewrite Ws, We. apply slot_len; assumption. }
  split; [apply win_roll_sorted; assumption|]. split.
  - intros w Hw. apply (win_roll_in (r_interval r)) in Hw; auto. destruct Hw as [Hw Hl].
    destruct (S3 w Hw) as [(j & Hj & Ws & We) Hc]. split; [|assumption].
    assert (j <> h') by (intro; subst j; lia).
    exists j. rewrite rollover_core_nb, Hbk by assumption. auto.
  - intros j Hj Hex. rewrite rollover_core_nb in Hj.
    destruct (Nat.eq_dec j h') as [->|Hne].
    + exfalso. apply existsb_exists in Hex. destruct Hex as (f & Hf & Hex).
      unfold kin, inb in Hex. rewrite rollover_bk in Hex by assumption. fold h' in Hex. rewrite Nat.eqb_refl in Hex.
      rewrite Forall_forall in C. specialize (C f Hf). unfold in_bucket in Hex. cbn [empty_bucket b_start b_end] in Hex.
      apply andb_true_iff in Hex. destruct Hex as [_ Hex]. apply andb_true_iff in Hex. destruct Hex as [Hex _].
      apply Z.leb_le in Hex. lia.
    + rewrite Hbk by assumption.
      rewrite (existsb_ext_in _ (kin r k j)) in Hex by (intros; unfold kin, inb; rewrite Hbk by assumption; reflexivity).
      destruct (S4 j Hj Hex) as (w & Hw & Hws). exists w. split; [|assumption].
      apply (win_roll_in (r_interval r)); auto. split; [assumption|].
      destruct (S3 w Hw) as [(j' & Hj' & Ws & We) _].
      assert (j' = j) by (apply (slot_start_inj r); auto; congruence). subst j'.
      rewrite We, HL. apply slot_end_gt; assumption.
Qed.

Lemma emit_dinv : forall r r' sent log, ring_ok r -> cfg_ok r -> dinv r log -> emit r = Some (r', sent) -> dinv r' log.
Proof.
  intros r r' sent log Hok Hcfg (D1 & D) E.
  destruct (emit_spec r Hok Hcfg) as (m & r'' & sent' & E' & _ & _ & Hnb & Hhd & _ & Hdia & _ & _ & _ & _ & Hbk).
  rewrite E in E'. injection E' as <- <-.
  assert (Hse : forall j, (j < nb r)%nat -> b_start (bk r' j) = b_start (bk r j) /\ b_end (bk r' j) = b_end (bk r j)).
  { intros j Hj. rewrite Hbk by assumption. destruct (existsb _ sent); split; reflexivity. }
  split; [rewrite Hdia; assumption|]. intros k. destruct (D k) as (S2 & S3 & S4).
  unfold dws in *. rewrite Hdia. split; [assumption|]. split.
  - intros w Hw. destruct (S3 w Hw) as [(j & Hj & Ws & We) Hc]. split; [|assumption].
    exists j. rewrite Hnb. destruct (Hse j Hj) as [-> ->]. auto.
  - intros j Hj Hex. rewrite Hnb in Hj. destruct (Hse j Hj) as [A B]. rewrite A.
    apply S4; [assumption|].
    rewrite (existsb_ext_in _ (kin r' k j)); [assumption|]. intros. unfold kin, inb, in_bucket. rewrite A, B. reflexivity.
Qed.

Lemma new_ring_dinv : forall n interval now p k fw fa, (2 <= n)%nat -> dinv (new_ring n interval now p k fw fa) [].
Proof.
  intros n interval now p k fw fa Hn. unfold new_ring. set (r0 := {| r_buckets := _ |}).
  assert (Hnb : nb r0 = n).
  { unfold nb, r0. simpl. destruct n as [|n']; [lia|]. simpl. rewrite repeat_length. reflexivity. }
  assert (G : forall m, (forall j, b_keys (bk (Nat.iter m rollover_core r0) j) = [])
                        /\ nb (Nat.iter m rollover_core r0) = n /\ (r_head (Nat.iter m rollover_core r0) < n)%nat
                        /\ r_dia (Nat.iter m rollover_core r0) = []).
  { induction m.
    - simpl. split; [|split; [assumption|split; [simpl; lia|reflexivity]]].
      intros j. unfold bk, r0. cbn [r_buckets]. destruct n as [|n']; [lia|]. simpl.
      destruct j; [reflexivity|]. destruct (Nat.lt_ge_cases j (length (repeat (empty_bucket 0 0) n'))).
      + assert (X : In (nth j (repeat (empty_bucket 0 0) n') (empty_bucket 0 0)) (repeat (empty_bucket 0 0) n')) by (apply nth_In; assumption).
        apply repeat_spec in X. rewrite X. reflexivity.
      + rewrite nth_overflow by assumption. reflexivity.
    - destruct IHm as (A & B & C & D).
      change (Nat.iter (S m) rollover_core r0) with (rollover_core (Nat.iter m rollover_core r0)).
      split; [|split; [|split]].
      + intros j. rewrite rollover_bk by lia. destruct (Nat.eqb j _); [reflexivity|apply A].
      + rewrite rollover_core_nb. assumption.
      + rewrite rollover_core_head. unfold next_idx, idx_add. rewrite B. apply Nat.mod_upper_bound. lia.
      + rewrite rollover_dia, A, D. reflexivity. }
  destruct (G n) as (_ & _ & _ & D). split; [rewrite D; constructor|].
  intros q. unfold dws, dget. rewrite D. simpl. split; [constructor|]. split; [intros w []|intros j _ X; discriminate].
Qed.

Lemma step_dinv : forall r em log o, winv r em -> sinv r log -> kinv r log -> dinv r log ->
  dinv (fst (step r o)) (log_step r log o).
Proof.
  intros r em log o (Hok & Hcfg & Hp) Hs K Dv. destruct o as [f|[|]| |gte lt|gte lt]; cbn [log_step].
  - assert (E1 : fst (step r (OpAdd f)) = fst (add_flow r f)) by (simpl; destruct (add_flow r f); reflexivity).
    rewrite E1. apply add_flow_dinv; assumption.
  - pose proof (rollover_dinv r log Hok (proj1 Hs) K Dv) as H1.
    destruct (emit_winv _ _ (rollover_winv r em (conj Hok (conj Hcfg Hp)))) as (r2 & sent & E & _).
    cbn [step]. rewrite E. cbn [fst].
    apply (emit_dinv (rollover_core r) r2 sent log);
      [apply rollover_ok; assumption | apply (cfg_ok_same r); auto; apply rollover_core_nb | assumption | assumption].
  - simpl. apply rollover_dinv; [assumption|apply Hs|assumption|assumption].
  - destruct (emit_winv _ _ (conj Hok (conj Hcfg Hp))) as (r2 & sent & E & _).
    cbn [step]. rewrite E. cbn [fst]. apply (emit_dinv r r2 sent log); assumption.
  - assumption.
  - assumption.
Qed.

(* the whole invariant, over every history *)
Definition ginv (r : ring) (em : list (Z * Z)) (log : list flow) : Prop :=
  winv r em /\ sinv r log /\ kinv r log /\ dinv r log.

Lemma step_ginv : forall r em log o, ginv r em log ->
  ginv (fst (step r o)) (em ++ out_intervals (snd (step r o))) (log_step r log o).
Proof.
  intros r em log o (Hw & Hs & K & Dv). split; [apply step_winv; assumption|].
  split; [eapply step_sinv; eauto|]. split; [eapply step_kinv; eauto|eapply step_dinv; eauto].
Qed.

Lemma run_ginv : forall ops r em log, ginv r em log -> exists em', ginv (run_state r ops) em' (run_log r log ops).
Proof.
  induction ops as [|o ops IH]; intros r em log H; simpl; [eauto|]. eapply IH. apply step_ginv. exact H.
Qed.

Lemma new_ring_ginv : forall n interval now p k fa,
  (1 <= k)%nat -> (p + k + 2 <= n)%nat -> 0 < interval -> ginv (new_ring n interval now p k true fa) [] [].
Proof.
  intros. split; [apply new_ring_winv; assumption|]. split; [apply new_ring_sinv; lia|].
  split; [apply new_ring_kinv; lia|apply new_ring_dinv; lia].
Qed.

(* ---- Aggregate ---- *)
Definition inner (gte lt s e : Z) : bool := t_ge gte s && t_le lt e.
(* flow f has key k and lies in a retained bucket [s, e) with (gte = 0 \/ gte <= s) /\ (lt = 0 \/ e <= lt) *)
Definition lsel (r : ring) (gte lt : Z) (k : N) (f : flow) : bool :=
  N.eqb (f_key f) k
  && existsb (fun j => inb r j f && inner gte lt (b_start (bk r j)) (b_end (bk r j))) (seq 0 (nb r)).

Lemma agg_fold : forall wl a0,
  a_cnt (fold_left agg_step wl a0) = cadd (a_cnt a0) (win_total wl) /\ a_key (fold_left agg_step wl a0) = a_key a0.
Proof.
  induction wl as [|w tl IH]; intros a0; simpl.
  - rewrite cadd_zero_r. auto.
  - destruct (IH (agg_step a0 w)) as [A B]. rewrite A, B. simpl. rewrite cadd_assoc. auto.
Qed.

Lemma sorted_filter : forall (p : window -> bool) ws, wsorted ws -> wsorted (filter p ws).
Proof.
  induction ws as [|w tl IH]; simpl; intros H; [constructor|]. inversion H; subst.
  destruct (p w); [|apply IH; assumption]. constructor; [apply IH; assumption|].
  rewrite Forall_forall in *. intros x Hx. apply filter_In in Hx. apply H3. tauto.
Qed.

Lemma sem_cnt : forall P log c, Some c = sem P log -> c = sumf P log /\ existsb P log = true.
Proof. intros P log c H. unfold sem in H. destruct (existsb P log); [injection H as ->; auto|discriminate]. Qed.

(* the counts of a sorted list of slot windows add up to the sum over the log of the flows inside any of them *)
Lemma windows_total : forall r log k wl, ring_ok r -> wsorted wl -> (forall w, In w wl -> wok r log k w) ->
  win_total wl = sumf (fun f => existsb (fun w => tin k w f) wl) log.
Proof.
  intros r log k wl Hok. induction wl as [|w tl IH]; intros Hs Hw; simpl.
  - symmetry. apply sumf_none. apply existsb_false_forall. intros; reflexivity.
  - inversion Hs; subst. rewrite IH by (auto; intros; apply Hw; right; assumption).
    destruct (Hw w (or_introl eq_refl)) as [(j & Hj & Ws & We) Hc]. apply sem_cnt in Hc. destruct Hc as [-> _].
    symmetry. apply sumf_or. intros f Hf A B. apply existsb_exists in B. destruct B as (w' & Hw' & B).
    destruct (Hw w' (or_intror Hw')) as [(j' & Hj' & Ws' & We') _].
    rewrite (tin_kin r k w j f Ws We) in A. rewrite (tin_kin r k w' j' f Ws' We') in B.
    unfold kin in A, B. apply andb_true_iff in A. apply andb_true_iff in B.
    assert (j = j') by (apply (slot_unique r j j' (f_start f)); tauto). subst j'.
    rewrite Forall_forall in H2. specialize (H2 w' Hw'). unfold wlt in H2. lia.
Qed.

Lemma in_seq0 : forall j n, In j (seq 0 n) <-> (j < n)%nat.
Proof. intros. rewrite in_seq. lia. Qed.

(* which log entries lie in the windows GetWindows selects *)
Lemma selected_windows : forall r log k gte lt f, ring_ok r -> dinv r log -> In f log ->
  existsb (fun w => tin k w f) (get_windows (dws r k) gte lt) = lsel r gte lt k f.
Proof.
  intros r log k gte lt f Hok (_ & D) Hf. destruct (D k) as (S2 & S3 & S4).
  apply eq_true_iff_eq. unfold lsel, get_windows. rewrite existsb_exists, andb_true_iff, existsb_exists. split.
  - intros (w & Hw & Ht). apply filter_In in Hw. destruct Hw as [Hw Hin].
    destruct (S3 w Hw) as [(j & Hj & Ws & We) _]. rewrite (tin_kin r k w j f Ws We) in Ht.
    unfold kin in Ht. apply andb_true_iff in Ht. destruct Ht as [A B]. split; [assumption|].
    exists j. split; [apply in_seq0; assumption|]. rewrite B. unfold inner. rewrite <- Ws, <- We. assumption.
  - intros (A & j & Hj & B). apply in_seq0 in Hj. apply andb_true_iff in B. destruct B as [B Hin].
    assert (Hex : existsb (kin r k j) log = true).
    { apply existsb_exists. exists f. split; [assumption|]. unfold kin. rewrite A, B. reflexivity. }
    destruct (S4 j Hj Hex) as (w & Hw & Ws).
    destruct (S3 w Hw) as [(j' & Hj' & Ws' & We') _].
    assert (j' = j) by (apply (slot_start_inj r); auto; congruence). subst j'.
    exists w. split.
    + apply filter_In. split; [assumption|]. unfold inner in Hin. rewrite Ws', We'. assumption.
    + rewrite (tin_kin r k w j f Ws' We'). unfold kin. rewrite A, B. reflexivity.
Qed.

(* Aggregate(gte, lt) on the windows of key k (repaired variant): present iff some accepted flow of k lies in a retained
   bucket wholly inside the range, and then its counts are the sum of exactly those flows *)
Lemma aggregate_sums : forall r log k gte lt, ring_ok r -> dinv r log ->
  match dia_aggregate true k (dws r k) gte lt with
  | Some a => a_key a = k /\ a_cnt a = sumf (lsel r gte lt k) log /\ existsb (lsel r gte lt k) log = true
              /\ a = aggregate_windows k (get_windows (dws r k) gte lt) /\ get_windows (dws r k) gte lt <> []
  | None => existsb (lsel r gte lt k) log = false
  end.
Proof.
  intros r log k gte lt Hok Dv. pose proof Dv as (_ & D). destruct (D k) as (S2 & S3 & S4).
  pose proof Hok as (_ & _ & Hi & _).
  assert (Hwl : forall w, In w (get_windows (dws r k) gte lt) -> wok r log k w).
  { intros w Hw. apply filter_In in Hw. apply S3. tauto. }
  unfold dia_aggregate. destruct (get_windows (dws r k) gte lt) as [|w0 tl] eqn:Ewl.
  - assert (X : existsb (lsel r gte lt k) log = false).
    { apply existsb_false_forall. intros f Hf. rewrite <- (selected_windows r log k gte lt f Hok Dv Hf), Ewl. reflexivity. }
    destruct (dia_within (dws r k) gte lt); assumption.
  - assert (Hwin : dia_within (dws r k) gte lt = true).
    { unfold dia_within. apply existsb_exists. exists w0.
      assert (Hw0 : In w0 (get_windows (dws r k) gte lt)) by (rewrite Ewl; left; reflexivity).
      apply filter_In in Hw0. destruct Hw0 as [Hw0 Hin]. split; [assumption|].
      apply andb_true_iff in Hin. destruct Hin as [A B]. rewrite A. cbn [andb].
      destruct (S3 w0 Hw0) as [(j & Hj & Ws & We) _]. pose proof (slot_len r j Hok Hj) as Hl.
      unfold t_le in B. unfold t_lt. apply orb_true_iff in B. apply orb_true_iff. destruct B as [B|B]; [left; assumption|right].
      apply Z.leb_le in B. apply Z.ltb_lt. lia. }
    rewrite Hwin. rewrite <- Ewl in *.
    unfold aggregate_windows. destruct (agg_fold (get_windows (dws r k) gte lt) {| a_key := k; a_cnt := czero; a_start := 0; a_end := 0 |}) as [A B].
    split; [rewrite B; reflexivity|]. split; [|split; [|split; [reflexivity|rewrite Ewl; discriminate]]].
    + rewrite A. cbn [a_cnt]. rewrite cadd_zero_l.
      rewrite (windows_total r log k) by (auto; apply sorted_filter; assumption).
      apply sumf_ext. intros f Hf. apply (selected_windows r log); assumption.
    + assert (Hw0 : In w0 (get_windows (dws r k) gte lt)) by (rewrite Ewl; left; reflexivity).
      destruct (Hwl w0 Hw0) as [_ Hc]. apply sem_cnt in Hc. destruct Hc as [_ Hc].
      apply existsb_exists in Hc. destruct Hc as (f & Hf & Ht). apply existsb_exists. exists f. split; [assumption|].
      rewrite <- (selected_windows r log k gte lt f Hok Dv Hf). apply existsb_exists. exists w0. auto.
Qed.

(* ---- List ---- *)
Lemma insert_by_in : forall A (key : A -> N) x l y, In y (insert_by key x l) <-> y = x \/ In y l.
Proof.
  induction l as [|z tl IH]; simpl; intros y; [intuition|].
  destruct (N.leb (key x) (key z)); simpl; [intuition|]. rewrite IH. intuition.
Qed.

Lemma sort_by_in : forall A (key : A -> N) l y, In y (sort_by key l) <-> In y l.
Proof.
  induction l as [|z tl IH]; simpl; intros y; [tauto|]. rewrite insert_by_in, IH. intuition.
Qed.

Definition gsel (r : ring) (gte lt : Z) (k : N) : list aflow :=
  match alookup k (r_dia r) with
  | Some ws => match dia_aggregate (r_fix_agg r) k ws gte lt with Some a => [a] | None => [] end
  | None => []
  end.

Lemma gsel_dws : forall r gte lt k, r_fix_agg r = true ->
  gsel r gte lt k = match dia_aggregate true k (dws r k) gte lt with Some a => [a] | None => [] end.
Proof.
  intros r gte lt k Hf. unfold gsel, dws, dget. rewrite Hf. destruct (alookup k (r_dia r)); reflexivity.
Qed.

Lemma flow_set_in : forall r gte lt k,
  In k (flow_set r gte lt) <-> exists b, In b (r_buckets r) /\ t_ge gte (b_start b) && t_le lt (b_start b) = true /\ In k (b_keys b).
Proof.
  intros r gte lt k. unfold flow_set.
  assert (G : forall bs acc, In k (fold_left (fun acc b => if t_ge gte (b_start b) && t_le lt (b_start b) then set_union acc (b_keys b) else acc) bs acc)
            <-> In k acc \/ exists b, In b bs /\ t_ge gte (b_start b) && t_le lt (b_start b) = true /\ In k (b_keys b)).
  { induction bs as [|b tl IH]; intros acc; simpl.
    - split; [auto|intros [|(b & [] & _)]; assumption].
    - rewrite IH. destruct (t_ge gte (b_start b) && t_le lt (b_start b)) eqn:E.
      + rewrite set_union_in. split.
        * intros [[H|H]|(b' & Hb & X)].
          -- left; assumption.
          -- right. exists b. split; [left; reflexivity|]. split; assumption.
          -- right. exists b'. split; [right; assumption|assumption].
        * intros [H|(b' & [<-|Hb] & X & Y)].
          -- left; left; assumption.
          -- left; right; assumption.
          -- right. exists b'. auto.
      + split.
        * intros [H|(b' & Hb & X)]; [left; assumption|right; exists b'; split; [right; assumption|assumption]].
        * intros [H|(b' & [<-|Hb] & X & Y)]; [left; assumption|congruence|right; exists b'; auto]. }
  rewrite G. simpl. split; [intros [[]|]; assumption|auto].
Qed.

(* List(gte, lt) on the default time index, in a state satisfying the invariant (repaired variant):
   one entry per key k that has an accepted flow in a retained bucket [s, e) with (gte = 0 \/ gte <= s) /\ (lt = 0 \/ e <= lt)
   - a bucket counts iff it lies wholly inside the range, 0 = unbounded - and the entry's counts are the sum of exactly
   those flows. *)
Lemma list_sums : forall r log gte lt, ring_ok r -> kinv r log -> dinv r log -> r_fix_agg r = true ->
  (forall a, In a (list_flows r gte lt) ->
     a_cnt a = sumf (lsel r gte lt (a_key a)) log /\ existsb (lsel r gte lt (a_key a)) log = true)
  /\ (forall k, existsb (lsel r gte lt k) log = true -> exists a, In a (list_flows r gte lt) /\ a_key a = k).
Proof.
  intros r log gte lt Hok K Dv Hfa. pose proof Hok as (_ & _ & Hi & _).
  change (list_flows r gte lt) with (sort_by a_key (flat_map (gsel r gte lt) (flow_set r gte lt))).
  split.
  - intros a Ha. apply sort_by_in in Ha. apply in_flat_map in Ha. destruct Ha as (k & Hk & Ha).
    rewrite gsel_dws in Ha by assumption. pose proof (aggregate_sums r log k gte lt Hok Dv) as H.
    destruct (dia_aggregate true k (dws r k) gte lt) as [a'|]; [|destruct Ha].
    destruct Ha as [<-|[]]. destruct H as (-> & A & B & _). auto.
  - intros k Hex. pose proof (aggregate_sums r log k gte lt Hok Dv) as H.
    destruct (dia_aggregate true k (dws r k) gte lt) as [a|] eqn:Ea; [|congruence].
    exists a. split; [|apply H]. apply sort_by_in. apply in_flat_map. exists k. split; [|rewrite gsel_dws, Ea by assumption; left; reflexivity].
    apply existsb_exists in Hex. destruct Hex as (f & Hf & Hex). unfold lsel in Hex.
    apply andb_true_iff in Hex. destruct Hex as [A B]. apply existsb_exists in B. destruct B as (j & Hj & B).
    apply in_seq0 in Hj. apply andb_true_iff in B. destruct B as [B Hin].
    apply flow_set_in. exists (bk r j). split; [apply nth_In; exact Hj|]. split.
    + unfold inner in Hin. apply andb_true_iff in Hin. destruct Hin as [C D]. rewrite C. cbn [andb].
      pose proof (slot_len r j Hok Hj) as Hl. unfold t_le in *. apply orb_true_iff in D. apply orb_true_iff.
      destruct D as [D|D]; [left; assumption|right]. apply Z.leb_le in D. apply Z.leb_le. lia.
    + apply (K j Hj k). apply existsb_exists. exists f. split; [assumption|]. unfold kin. rewrite A, B. reflexivity.
Qed.

(* ---- the collection built for a window ---- *)
Definition csel (c : collection) (k : N) (f : flow) : bool :=
  N.eqb (f_key f) k && ((c_start c <=? f_start f) && (f_start f <? c_end c)).

Lemma lsel_window : forall r x k f, ring_ok r -> (x + r_agg r < nb r)%nat -> f_start f < eoh r -> 0 < boh r ->
  lsel r (c_start (W r x)) (c_end (W r x)) k f = csel (W r x) k f.
Proof.
  intros r x k f Hok Hx Hf Hpos. pose proof Hok as (Hn & Hh & Hi & _). pose proof (ring_ok_boh r Hok) as Hboh.
  assert (Hs : c_start (W r x) = b_start (bk r (sub r (x + r_agg r))) /\ c_end (W r x) = b_start (bk r (sub r x))) by (split; reflexivity).
  destruct Hs as [Es Ee]. unfold lsel, csel. f_equal. rewrite Es, Ee.
  rewrite <- (slots_range r x (r_agg r) f Hok Hx Hf).
  destruct (slot_times r (x + r_agg r) Hok Hx) as [S1 _]. destruct (slot_times r x Hok ltac:(lia)) as [S2 _].
  assert (Hst : b_start (bk r (sub r (x + r_agg r))) =? 0 = false) by (apply Z.eqb_neq; rewrite S1; nia).
  assert (Hen : b_start (bk r (sub r x)) =? 0 = false) by (apply Z.eqb_neq; rewrite S2; nia).
  apply eq_true_iff_eq. rewrite !existsb_exists. split.
  - intros (j & Hj & B). apply in_seq0 in Hj. apply andb_true_iff in B. destruct B as [B Hin].
    destruct (slot_is_sub r j Hok Hj) as (y & Hy & <-). exists (sub r y). split; [|assumption].
    apply in_map. apply in_backs. unfold inner, t_ge, t_le in Hin. rewrite Hst, Hen in Hin. cbn [orb] in Hin.
    apply andb_true_iff in Hin. destruct Hin as [C D]. apply Z.leb_le in C. apply Z.leb_le in D.
    destruct (slot_times r y Hok Hy) as [S3 E3]. rewrite S1, S3 in C. rewrite S2, E3 in D. nia.
  - intros (j & Hj & B). apply in_map_iff in Hj. destruct Hj as (y & <- & Hy). apply in_backs in Hy.
    exists (sub r y). split; [apply in_seq0; apply sub_lt; assumption|]. rewrite B. cbn [andb].
    unfold inner, t_ge, t_le. rewrite Hst, Hen. cbn [orb].
    destruct (slot_times r y Hok ltac:(lia)) as [S3 E3]. rewrite S1, S2, S3, E3.
    apply andb_true_iff. split; apply Z.leb_le; nia.
Qed.

(* counts half of emit_complete: the collection built for window W x holds one flow per key that has an accepted flow
   starting inside [c_start, c_end), with counts = the sum of exactly those flows - nothing left out, nothing extra *)
Lemma window_flows : forall r log x, ring_ok r -> Forall (fun f => f_start f < eoh r) log -> kinv r log -> dinv r log ->
  r_fix_agg r = true -> 0 < boh r -> (x + r_agg r < nb r)%nat ->
  (forall a, In a (c_flows (W r x)) ->
     a_cnt a = sumf (csel (W r x) (a_key a)) log /\ existsb (csel (W r x) (a_key a)) log = true)
  /\ (forall k, existsb (csel (W r x) k) log = true -> exists a, In a (c_flows (W r x)) /\ a_key a = k).
Proof.
  intros r log x Hok C K Dv Hfa Hpos Hx.
  set (keys := fold_left (fun acc i => set_union acc (b_keys (bk r i))) (c_buckets (W r x)) []).
  assert (Ecf : c_flows (W r x) = sort_by a_key (flat_map (gsel r (c_start (W r x)) (c_end (W r x))) keys)) by reflexivity.
  assert (Hsel : forall k f, In f log -> lsel r (c_start (W r x)) (c_end (W r x)) k f = csel (W r x) k f).
  { intros k f Hf. apply lsel_window; auto. rewrite Forall_forall in C. apply C. assumption. }
  rewrite Ecf. split.
  - intros a Ha. apply sort_by_in in Ha. apply in_flat_map in Ha. destruct Ha as (k & Hk & Ha).
    rewrite gsel_dws in Ha by assumption.
    pose proof (aggregate_sums r log k (c_start (W r x)) (c_end (W r x)) Hok Dv) as H.
    destruct (dia_aggregate true k (dws r k) _ _) as [a'|]; [|destruct Ha].
    destruct Ha as [<-|[]]. destruct H as (-> & A & B & _).
    rewrite A, <- B. split; [apply sumf_ext|apply existsb_ext_in]; intros f Hf; [|symmetry]; apply Hsel; assumption.
  - intros k Hex. pose proof (aggregate_sums r log k (c_start (W r x)) (c_end (W r x)) Hok Dv) as H.
    assert (Hex' : existsb (lsel r (c_start (W r x)) (c_end (W r x)) k) log = true).
    { rewrite <- Hex. apply existsb_ext_in. intros; apply Hsel; assumption. }
    destruct (dia_aggregate true k (dws r k) _ _) as [a|] eqn:Ea; [|congruence].
    exists a. split; [|apply H]. apply sort_by_in. apply in_flat_map. exists k.
    split; [|rewrite gsel_dws, Ea by assumption; left; reflexivity].
    apply (window_keys_complete r log x k Hok K C Hx). exact Hex.
Qed.

(* ---- all histories ---- *)
Lemma emit_fix_agg : forall r r' sent, emit r = Some (r', sent) -> r_fix_agg r' = r_fix_agg r.
Proof.
  intros r r' sent E. unfold emit in E. destruct (emit_walk r (emit_fuel r) _ _ []); [|discriminate].
  injection E as <- _. reflexivity.
Qed.

Lemma step_fix_agg : forall r o, r_fix_agg (fst (step r o)) = r_fix_agg r.
Proof.
  intros r o. destruct o as [f|[|]| |gte lt|gte lt]; simpl; try reflexivity.
  - destruct (add_flow_fields r f) as (_ & _ & _ & _ & _ & _ & A). destruct (add_flow r f); exact A.
  - destruct (emit (rollover_core r)) as [[r2 sent]|] eqn:E; simpl; [|reflexivity].
    rewrite (emit_fix_agg _ _ _ E). reflexivity.
  - destruct (emit r) as [[r2 sent]|] eqn:E; simpl; [|reflexivity]. apply (emit_fix_agg _ _ _ E).
Qed.

Lemma run_fix_agg : forall ops r, r_fix_agg (run_state r ops) = r_fix_agg r.
Proof. induction ops; intros r; simpl; [reflexivity|]. rewrite IHops. apply step_fix_agg. Qed.

Lemma frame_boh : forall r r', ring_ok r -> ring_ok r' -> same_frame r r' -> boh r' = boh r.
Proof.
  intros r r' Hok Hok' (A & B & C & D). rewrite (ring_ok_boh r Hok), (ring_ok_boh r' Hok'), A, C.
  unfold eoh. rewrite B, (proj2 (D _)). reflexivity.
Qed.

Lemma step_boh_ge : forall r o, ring_ok r -> boh r <= boh (fst (step r o)).
Proof.
  intros r o Hok. pose proof (step_ok r o Hok) as Hok'. pose proof Hok as (Hn & Hh & Hi & _).
  assert (Hroll : boh r <= boh (rollover_core r)).
  { rewrite (ring_ok_boh r Hok), (ring_ok_boh _ (rollover_ok r Hok)), rollover_core_nb, rollover_eoh by assumption.
    change (r_interval (rollover_core r)) with (r_interval r). lia. }
  destruct o as [f|[|]| |gte lt|gte lt]; simpl in *.
  - pose proof (add_flow_frame r f) as F. destruct (add_flow r f) as [r1 b]. simpl in *.
    rewrite (frame_boh r r1); auto. lia.
  - destruct (emit (rollover_core r)) as [[r2 sent]|] eqn:E; simpl in *; [|assumption].
    rewrite (frame_boh (rollover_core r) r2); auto. { apply rollover_ok; assumption. } eapply emit_frame; eauto.
  - assumption.
  - destruct (emit r) as [[r2 sent]|] eqn:E; simpl in *; [|lia].
    rewrite (frame_boh r r2); auto; [lia|]. eapply emit_frame; eauto.
  - lia.
  - lia.
Qed.

Lemma run_boh_ge : forall ops r, ring_ok r -> boh r <= boh (run_state r ops).
Proof.
  induction ops; intros r Hok; simpl; [lia|].
  pose proof (step_boh_ge r a Hok). pose proof (IHops _ (step_ok r a Hok)). lia.
Qed.

Lemma new_ring_boh : forall n interval now p k fw fa, (2 <= n)%nat -> 0 < interval ->
  boh (new_ring n interval now p k fw fa) = now + 2 * interval - Z.of_nat n * interval.
Proof.
  intros n interval now p k fw fa Hn Hi.
  assert (Hok : ring_ok (new_ring n interval now p k fw fa)) by (apply new_ring_ok; assumption).
  rewrite (ring_ok_boh _ Hok).
  (* end of history and size of the fresh ring *)
  unfold new_ring in *. set (r0 := {| r_buckets := _ |}) in *.
  assert (Hnb : nb r0 = n).
  { unfold nb, r0. simpl. destruct n as [|n']; [lia|]. simpl. rewrite repeat_length. reflexivity. }
  assert (G : forall m, nb (Nat.iter m rollover_core r0) = n /\ (r_head (Nat.iter m rollover_core r0) < n)%nat
              /\ r_interval (Nat.iter m rollover_core r0) = interval
              /\ eoh (Nat.iter m rollover_core r0) = now + interval - interval * Z.of_nat n + interval + Z.of_nat m * interval).
  { induction m.
    - simpl. split; [assumption|]. split; [simpl; lia|]. split; [reflexivity|].
      unfold eoh, bk, r0. cbn [r_buckets r_head]. destruct n; [lia|]. cbn [repeat nth empty_bucket b_end]. lia.
    - destruct IHm as (A & B & C & D).
      change (Nat.iter (S m) rollover_core r0) with (rollover_core (Nat.iter m rollover_core r0)).
      rewrite rollover_core_nb, rollover_eoh, rollover_core_head by lia. split; [assumption|]. split.
      + unfold next_idx, idx_add. rewrite A. apply Nat.mod_upper_bound. lia.
      + split; [exact C|]. rewrite D, C. lia. }
  destruct (G n) as (A & _ & C & D). rewrite A, C, D. lia.
Qed.

Lemma new_ring_fix_agg : forall n interval now p k fw fa, r_fix_agg (new_ring n interval now p k fw fa) = fa.
Proof.
  intros. unfold new_ring. set (r0 := {| r_buckets := _ |}).
  assert (G : forall m, r_fix_agg (Nat.iter m rollover_core r0) = fa) by (induction m; [reflexivity|exact IHm]).
  apply G.
Qed.

Lemma reach_ginv : forall n interval now p k fa ops, (1 <= k)%nat -> (p + k + 2 <= n)%nat -> 0 < interval ->
  let r0 := new_ring n interval now p k true fa in
  exists em, ginv (run_state r0 ops) em (run_log r0 [] ops).
Proof. intros. apply (run_ginv ops r0 [] []). apply new_ring_ginv; assumption. Qed.

Lemma list_all_histories : forall n interval now p k ops gte lt,
  (1 <= k)%nat -> (p + k + 2 <= n)%nat -> 0 < interval ->
  let r0 := new_ring n interval now p k true true in
  let r := run_state r0 ops in
  let log := run_log r0 [] ops in
  (forall a, In a (list_flows r gte lt) ->
     a_cnt a = sumf (lsel r gte lt (a_key a)) log /\ existsb (lsel r gte lt (a_key a)) log = true)
  /\ (forall key, existsb (lsel r gte lt key) log = true -> exists a, In a (list_flows r gte lt) /\ a_key a = key).
Proof.
  intros n interval now p k ops gte lt Hk Hc Hi r0 r log.
  destruct (reach_ginv n interval now p k true ops Hk Hc Hi) as (em & (Hok & _) & _ & K & Dv).
  apply list_sums; auto. unfold r, r0. rewrite run_fix_agg. apply new_ring_fix_agg.
Qed.

Lemma window_flows_all_histories : forall n interval now p k ops x,
  (1 <= k)%nat -> (p + k + 2 <= n)%nat -> 0 < interval -> Z.of_nat n * interval < now + 2 * interval ->
  let r0 := new_ring n interval now p k true true in
  let r := run_state r0 ops in
  let log := run_log r0 [] ops in
  (x + r_agg r < nb r)%nat ->
  (forall a, In a (c_flows (W r x)) ->
     a_cnt a = sumf (csel (W r x) (a_key a)) log /\ existsb (csel (W r x) (a_key a)) log = true)
  /\ (forall key, existsb (csel (W r x) key) log = true -> exists a, In a (c_flows (W r x)) /\ a_key a = key).
Proof.
  intros n interval now p k ops x Hk Hc Hi Hpos r0 r log Hx.
  destruct (reach_ginv n interval now p k true ops Hk Hc Hi) as (em & (Hok & _) & (C & _) & K & Dv).
  apply window_flows; auto.
  - unfold r, r0. rewrite run_fix_agg. apply new_ring_fix_agg.
  - assert (Hok0 : ring_ok r0) by (apply new_ring_ok; lia).
    pose proof (run_boh_ge ops r0 Hok0). unfold r0 in H at 1. rewrite new_ring_boh in H by lia. unfold r. lia.
Qed.
