(* C32 — c32_model_meets_spec: the oracle of Spec.v accepts every run of the (repaired) model. *)
From Coq Require Import List ZArith NArith Arith Bool Lia Sorting.Sorted.
From Verif.C32 Require Import Model Spec Proofs Walk Conserve Dia Meets.
Import ListNotations.
Open Scope Z_scope.

(* ---- the specification's bucket start is the slot's start ---- *)
Lemma bstart_slot : forall r j t, ring_ok r -> (j < nb r)%nat -> in_bucket (bk r j) t = true ->
  t - (t - eoh r) mod r_interval r = b_start (bk r j).
Proof.
  intros r j t Hok Hj Hin. pose proof Hok as (_ & _ & Hi & _). apply in_bucket_iff in Hin.
  destruct (slot_is_sub r j Hok Hj) as (y & Hy & <-). destruct (slot_times r y Hok Hy) as [S E].
  rewrite S, E in Hin. rewrite S.
  assert (X : (t - eoh r) mod r_interval r = t - (eoh r - (Z.of_nat y + 1) * r_interval r)).
  { symmetry. apply (Z.mod_unique _ _ (- (Z.of_nat y + 1))); [left; lia|lia]. }
  rewrite X. lia.
Qed.

(* ---- "field specification" of an aggregated flow w.r.t. a set of selected log entries ---- *)
Definition fspec (sel : flow -> bool) (bsf : flow -> Z) (i : Z) (log : list flow) (a : aflow) : Prop :=
  a_cnt a = sumf sel log
  /\ (forall f, In f log -> sel f = true -> a_start a <= bsf f /\ bsf f + i <= a_end a)
  /\ (exists f, In f log /\ sel f = true /\ bsf f = a_start a)
  /\ (exists f, In f log /\ sel f = true /\ bsf f + i = a_end a).

Lemma fspec_unique : forall sel bsf i log a b, fspec sel bsf i log a -> fspec sel bsf i log b -> a_key a = a_key b -> a = b.
Proof.
  unfold fspec. intros sel bsf i log [ka ca sa ea] [kb cb sb eb] (A1 & A2 & (f1 & F1 & G1 & H1) & (f2 & F2 & G2 & H2))
    (B1 & B2 & (g1 & I1 & J1 & K1) & (g2 & I2 & J2 & K2)) E. simpl in *. subst kb.
  destruct (A2 g1 I1 J1), (B2 f1 F1 G1), (A2 g2 I2 J2), (B2 f2 F2 G2).
  assert (Es : sa = sb) by lia. assert (Ee : ea = eb) by lia. rewrite Es, Ee, A1, B1. reflexivity.
Qed.

Lemma fspec_ext : forall sel sel' bsf i log a, (forall f, In f log -> sel f = sel' f) -> fspec sel bsf i log a -> fspec sel' bsf i log a.
Proof.
  unfold fspec. intros sel sel' bsf i log a H (A1 & A2 & (f1 & F1 & G1 & H1) & (f2 & F2 & G2 & H2)). split; [|split; [|split]].
  - rewrite A1. apply sumf_ext. assumption.
  - intros f Hf Hs. apply A2; auto. rewrite H; assumption.
  - exists f1. rewrite <- H; auto.
  - exists f2. rewrite <- H; auto.
Qed.

(* ---- Spec.group, fully ---- *)
Definition gfold (i : Z) (s : sstate) (kf : N -> N) (fs : list flow) := fold_left (group_step i s kf) fs [].

Lemma gfold_snoc : forall i s kf fs f, gfold i s kf (fs ++ [f]) = group_step i s kf (gfold i s kf fs) f.
Proof. intros. unfold gfold. rewrite fold_left_app. reflexivity. Qed.

Definition gsel_k (kf : N -> N) (k : N) (f : flow) : bool := N.eqb (kf (f_key f)) k.

Lemma gfold_spec : forall i s kf fs,
  NoDup (map fst (gfold i s kf fs))
  /\ forall k, match alookup k (gfold i s kf fs) with
               | None => existsb (gsel_k kf k) fs = false
               | Some (c, s0, e0) =>
                   fspec (gsel_k kf k) (fun f => bstart i s (f_start f)) i fs {| a_key := k; a_cnt := c; a_start := s0; a_end := e0 |}
               end.
Proof.
  intros i s kf fs. induction fs as [|f fs IH] using rev_ind.
  - split; [constructor|]. intros k. reflexivity.
  - destruct IH as [N1 L1]. rewrite gfold_snoc. split; [unfold group_step; apply aupdate_nodup; assumption|].
    intros k. unfold group_step. rewrite alookup_aupdate. specialize (L1 k).
    destruct (N.eqb_spec k (kf (f_key f))) as [->|Hne].
    + set (k := kf (f_key f)) in *. set (bs := bstart i s (f_start f)).
      assert (Hf : gsel_k kf k f = true) by (unfold gsel_k, k; apply N.eqb_refl).
      destruct (alookup k (gfold i s kf fs)) as [[[c0 s0] e0]|].
      * destruct L1 as (A1 & A2 & (f1 & F1 & G1 & H1) & (f2 & F2 & G2 & H2)). cbn [a_cnt a_start a_end] in *.
        split; [|split; [|split]]; cbn [a_cnt a_start a_end].
        -- rewrite sumf_app. simpl. rewrite Hf, cadd_zero_r, A1. reflexivity.
        -- intros g Hg Hs. apply in_app_or in Hg. destruct Hg as [Hg|[<-|[]]].
           ++ destruct (A2 g Hg Hs). lia.
           ++ fold bs. lia.
        -- destruct (Z.min_spec s0 bs) as [[_ ->]|[_ ->]].
           ++ exists f1. split; [apply in_or_app; left; assumption|auto].
           ++ exists f. split; [apply in_or_app; right; left; reflexivity|auto].
        -- destruct (Z.max_spec e0 (bs + i)) as [[_ ->]|[_ ->]].
           ++ exists f. split; [apply in_or_app; right; left; reflexivity|auto].
           ++ exists f2. split; [apply in_or_app; left; assumption|auto].
      * split; [|split; [|split]]; cbn [a_cnt a_start a_end].
        -- rewrite sumf_app. simpl. rewrite Hf, cadd_zero_r, (sumf_none _ fs L1), cadd_zero_l. reflexivity.
        -- intros g Hg Hs. apply in_app_or in Hg. destruct Hg as [Hg|[<-|[]]]; [|fold bs; lia].
           exfalso. assert (existsb (gsel_k kf k) fs = true) by (apply existsb_exists; eauto). congruence.
        -- exists f. split; [apply in_or_app; right; left; reflexivity|auto].
        -- exists f. split; [apply in_or_app; right; left; reflexivity|auto].
    + assert (Hf : gsel_k kf k f = false) by (unfold gsel_k; apply N.eqb_neq; congruence).
      destruct (alookup k (gfold i s kf fs)) as [[[c0 s0] e0]|].
      * destruct L1 as (A1 & A2 & (f1 & F1 & G1 & H1) & (f2 & F2 & G2 & H2)). cbn [a_cnt a_start a_end] in *.
        split; [|split; [|split]]; cbn [a_cnt a_start a_end].
        -- rewrite sumf_app. simpl. rewrite Hf, cadd_zero_r. assumption.
        -- intros g Hg Hs. apply in_app_or in Hg. destruct Hg as [Hg|[<-|[]]]; [apply A2; assumption|congruence].
        -- exists f1. split; [apply in_or_app; left; assumption|auto].
        -- exists f2. split; [apply in_or_app; left; assumption|auto].
      * rewrite existsb_app. simpl. rewrite L1, Hf. reflexivity.
Qed.

(* ---- AggregateWindows: StartTime / EndTime ---- *)
Definition abounds (wl : list window) (a : aflow) : Prop :=
  0 < a_start a /\ 0 < a_end a
  /\ (forall w, In w wl -> a_start a <= w_start w /\ w_end w <= a_end a)
  /\ (exists w, In w wl /\ w_start w = a_start a) /\ (exists w, In w wl /\ w_end w = a_end a).

Lemma agg_bounds : forall k wl, (forall w, In w wl -> 0 < w_start w /\ 0 < w_end w) -> wl <> [] ->
  abounds wl (aggregate_windows k wl).
Proof.
  intros k wl. induction wl as [|w wl IH] using rev_ind; intros Hpos Hne; [congruence|].
  assert (Ea : aggregate_windows k (wl ++ [w]) = agg_step (aggregate_windows k wl) w).
  { unfold aggregate_windows. rewrite fold_left_app. reflexivity. }
  assert (Hpos' : forall x, In x wl -> 0 < w_start x /\ 0 < w_end x) by (intros; apply Hpos; apply in_or_app; left; assumption).
  destruct (Hpos w ltac:(apply in_or_app; right; left; reflexivity)) as [Pw1 Pw2].
  rewrite Ea. unfold abounds, agg_step. cbn [a_start a_end].
  destruct wl as [|w1 wl1].
  - cbn. repeat split; auto; try lia.
    + destruct H as [<-|[]]. lia.
    + destruct H as [<-|[]]. lia.
    + exists w. auto.
    + exists w. auto.
  - destruct (IH Hpos' ltac:(discriminate)) as (P1 & P2 & B & (ws & Hws & Es) & (we & Hwe & Ee)).
    set (a0 := aggregate_windows k (w1 :: wl1)) in *.
    replace (a_start a0 =? 0) with false by (symmetry; apply Z.eqb_neq; lia).
    replace (a_end a0 =? 0) with false by (symmetry; apply Z.eqb_neq; lia). cbn [orb].
    destruct (Z.ltb_spec (w_start w) (a_start a0)); destruct (Z.ltb_spec (a_end a0) (w_end w)).
    all: split; [lia|]; split; [lia|]; split; [|split].
    all: try (intros x Hx; apply in_app_or in Hx; destruct Hx as [Hx|[<-|[]]]; [destruct (B x Hx); lia|lia]).
    all: try (exists w; split; [apply in_or_app; right; left; reflexivity|reflexivity]).
    all: try (exists ws; split; [apply in_or_app; left; assumption|assumption]).
    all: try (exists we; split; [apply in_or_app; left; assumption|assumption]).
Qed.

Definition bsf (r : ring) (f : flow) : Z := f_start f - (f_start f - eoh r) mod r_interval r.

Lemma slot_start_ge_boh : forall r j, ring_ok r -> (j < nb r)%nat -> boh r <= b_start (bk r j).
Proof.
  intros r j Hok Hj. pose proof Hok as (_ & _ & Hi & _). rewrite (ring_ok_boh r Hok).
  destruct (slot_is_sub r j Hok Hj) as (y & Hy & <-). rewrite (proj1 (slot_times r y Hok Hy)). nia.
Qed.

Lemma tin_bsf : forall r log k w f, ring_ok r -> wok r log k w -> tin k w f = true ->
  bsf r f = w_start w /\ w_end w = w_start w + r_interval r /\ boh r <= w_start w.
Proof.
  intros r log k w f Hok [(j & Hj & Ws & We) _] Ht. rewrite (tin_kin r k w j f Ws We) in Ht.
  unfold kin, inb in Ht. apply andb_true_iff in Ht. destruct Ht as [_ Ht].
  split; [unfold bsf; rewrite Ws; apply bstart_slot; assumption|]. split.
  - rewrite Ws, We. apply slot_len; assumption.
  - rewrite Ws. apply slot_start_ge_boh; assumption.
Qed.

(* the flow Aggregate returns satisfies the field specification w.r.t. the log entries lsel selects *)
Lemma aggregate_fspec : forall r log k gte lt a, ring_ok r -> dinv r log -> 0 < boh r ->
  dia_aggregate true k (dws r k) gte lt = Some a ->
  a_key a = k /\ fspec (lsel r gte lt k) (bsf r) (r_interval r) log a.
Proof.
  intros r log k gte lt a Hok Dv Hpos E. pose proof Hok as (_ & _ & Hi & _).
  pose proof (aggregate_sums r log k gte lt Hok Dv) as H. rewrite E in H.
  destruct H as (Hk & Hc & Hex & Ha & Hne). split; [assumption|].
  pose proof Dv as (_ & D). destruct (D k) as (S2 & S3 & S4).
  set (wl := get_windows (dws r k) gte lt) in *.
  assert (Hwl : forall w, In w wl -> wok r log k w) by (intros w Hw; apply filter_In in Hw; apply S3; tauto).
  assert (Hposw : forall w, In w wl -> 0 < w_start w /\ 0 < w_end w).
  { intros w Hw. destruct (Hwl w Hw) as [(j & Hj & Ws & We) _].
    pose proof (slot_start_ge_boh r j Hok Hj). pose proof (slot_len r j Hok Hj). lia. }
  pose proof (agg_bounds k wl Hposw Hne) as (P1 & P2 & B & (ws & Hws & Es) & (we & Hwe & Ee)). rewrite <- Ha in *.
  assert (Hflow : forall w, In w wl -> exists f, In f log /\ lsel r gte lt k f = true /\ tin k w f = true).
  { intros w Hw. destruct (Hwl w Hw) as [_ Hs]. apply sem_cnt in Hs. destruct Hs as [_ Hs].
    apply existsb_exists in Hs. destruct Hs as (f & Hf & Ht). exists f. split; [assumption|]. split; [|assumption].
    rewrite <- (selected_windows r log k gte lt f Hok Dv Hf). apply existsb_exists. exists w. auto. }
  split; [assumption|]. split; [|split].
  - intros f Hf Hs. rewrite <- (selected_windows r log k gte lt f Hok Dv Hf) in Hs.
    apply existsb_exists in Hs. destruct Hs as (w & Hw & Ht).
    destruct (tin_bsf r log k w f Hok (Hwl w Hw) Ht) as (A1 & A2 & _). destruct (B w Hw). lia.
  - destruct (Hflow ws Hws) as (f & Hf & Hs & Ht). exists f. split; [assumption|]. split; [assumption|].
    destruct (tin_bsf r log k ws f Hok (Hwl ws Hws) Ht) as (A1 & _). lia.
  - destruct (Hflow we Hwe) as (f & Hf & Hs & Ht). exists f. split; [assumption|]. split; [assumption|].
    destruct (tin_bsf r log k we f Hok (Hwl we Hwe) Ht) as (A1 & A2 & _). lia.
Qed.

(* ---- lists sorted by a key ---- *)
Section Keyed.
Variable A : Type.
Variable key : A -> N.
Definition kltk (a b : A) : Prop := (key a < key b)%N.

Lemma sorted_in_ext : forall l1 l2, StronglySorted kltk l1 -> StronglySorted kltk l2 ->
  (forall x, In x l1 <-> In x l2) -> l1 = l2.
Proof.
  induction l1 as [|a t1 IH]; intros l2 S1 S2 H.
  - destruct l2 as [|b t2]; [reflexivity|]. destruct (proj2 (H b) (or_introl eq_refl)).
  - destruct l2 as [|b t2]; [destruct (proj1 (H a) (or_introl eq_refl))|].
    inversion S1; subst. inversion S2; subst. rewrite Forall_forall in H3, H5.
    assert (a = b).
    { destruct (proj1 (H a) (or_introl eq_refl)) as [E|Ha]; [auto|].
      destruct (proj2 (H b) (or_introl eq_refl)) as [E|Hb]; [auto|].
      specialize (H3 b Hb). specialize (H5 a Ha). unfold kltk in *. lia. }
    subst b. f_equal. apply IH; auto. intros x. split; intros Hx.
    + destruct (proj1 (H x) (or_intror Hx)) as [E|]; [|assumption]. subst x. specialize (H3 a Hx). unfold kltk in H3. lia.
    + destruct (proj2 (H x) (or_intror Hx)) as [E|]; [|assumption]. subst x. specialize (H5 a Hx). unfold kltk in H5. lia.
Qed.

Lemma insert_by_sorted_k : forall x l, StronglySorted kltk l -> ~ In (key x) (map key l) -> StronglySorted kltk (insert_by key x l).
Proof.
  intros x. induction l as [|y tl IH]; intros S Hn; simpl; [constructor; constructor|].
  inversion S; subst. simpl in Hn. assert (key y <> key x) by tauto. destruct (N.leb_spec (key x) (key y)).
  - constructor; [assumption|]. constructor; [unfold kltk; lia|].
    rewrite Forall_forall in *. intros z Hz. specialize (H2 z Hz). unfold kltk in *. lia.
  - constructor; [apply IH; [assumption|tauto]|].
    rewrite Forall_forall in *. intros z Hz. apply insert_by_in in Hz. destruct Hz as [->|Hz]; [unfold kltk; lia|apply H2; assumption].
Qed.

Lemma sort_by_sorted_k : forall l, NoDup (map key l) -> StronglySorted kltk (sort_by key l).
Proof.
  induction l as [|x tl IH]; simpl; intros Hnd; [constructor|]. inversion Hnd; subst.
  apply insert_by_sorted_k; [apply IH; assumption|].
  intro X. apply H1. apply in_map_iff in X. destruct X as (z & E & Hz). apply sort_by_in in Hz.
  rewrite <- E. apply in_map. assumption.
Qed.
End Keyed.

Lemma alookup_in : forall A k (v : A) l, alookup k l = Some v -> In (k, v) l.
Proof.
  induction l as [|[k0 v0] tl IH]; simpl; intros H; [discriminate|].
  destruct (N.eqb_spec k k0) as [->|]; [injection H as ->; left; reflexivity|right; auto].
Qed.

Lemma in_alookup : forall A k (v : A) l, NoDup (map fst l) -> In (k, v) l -> alookup k l = Some v.
Proof.
  induction l as [|[k0 v0] tl IH]; simpl; intros Hnd H; [destruct H|]. inversion Hnd; subst.
  destruct H as [E|H]; [injection E as -> ->; rewrite N.eqb_refl; reflexivity|].
  destruct (N.eqb_spec k k0) as [->|]; [|auto]. exfalso. apply H2. apply in_map_iff. exists (k0, v). auto.
Qed.

Definition toA (x : N * (cnt * Z * Z)) : aflow :=
  let '(k, (c, s0, e0)) := x in {| a_key := k; a_cnt := c; a_start := s0; a_end := e0 |}.

Lemma as_aflows_map : forall g, as_aflows g = map toA g.
Proof. reflexivity. Qed.

Lemma sorted_map_toA : forall g, StronglySorted klt g -> StronglySorted (kltk aflow a_key) (map toA g).
Proof.
  induction g as [|[k [[c s0] e0]] tl IH]; intros S; simpl; [constructor|]. inversion S; subst.
  constructor; [apply IH; assumption|]. rewrite Forall_forall in *. intros y Hy. apply in_map_iff in Hy.
  destruct Hy as ([k' [[c' s'] e']] & <- & Hx). specialize (H2 _ Hx). exact H2.
Qed.

Lemma sumf_filter : forall P Q l, sumf Q (filter P l) = sumf (fun f => P f && Q f) l.
Proof. induction l; simpl; [reflexivity|]. destruct (P a); simpl; rewrite IHl; reflexivity. Qed.

Lemma fspec_filter : forall P sel b i log a, fspec sel b i (filter P log) a -> fspec (fun f => P f && sel f) b i log a.
Proof.
  unfold fspec. intros P sel b i log a (A1 & A2 & (f1 & F1 & G1 & H1) & (f2 & F2 & G2 & H2)).
  apply filter_In in F1. apply filter_In in F2. split; [|split; [|split]].
  - rewrite A1. apply sumf_filter.
  - intros f Hf Hs. apply andb_true_iff in Hs. apply A2; [apply filter_In|]; tauto.
  - exists f1. destruct F1 as [X Y]. rewrite Y, G1. auto.
  - exists f2. destruct F2 as [X Y]. rewrite Y, G2. auto.
Qed.

Lemma fspec_ext2 : forall sel sel' b b' i log a, (forall f, In f log -> sel f = sel' f) ->
  (forall f, In f log -> sel f = true -> b f = b' f) -> fspec sel b i log a -> fspec sel' b' i log a.
Proof.
  unfold fspec. intros sel sel' b b' i log a H Hb (A1 & A2 & (f1 & F1 & G1 & H1) & (f2 & F2 & G2 & H2)). split; [|split; [|split]].
  - rewrite A1. apply sumf_ext. assumption.
  - intros f Hf Hs. rewrite <- H in Hs by assumption. rewrite <- Hb by assumption. apply A2; auto.
  - exists f1. rewrite <- H, <- Hb; auto.
  - exists f2. rewrite <- H, <- Hb; auto.
Qed.

Lemma fspec_exists : forall sel b i log a, fspec sel b i log a -> existsb sel log = true.
Proof. unfold fspec. intros sel b i log a (_ & _ & (f & Hf & Hs & _) & _). apply existsb_exists. eauto. Qed.

(* the oracle's list for a set of selected flows equals the model's list, provided the model's per-key entries
   satisfy the field specification for the same selection *)
Lemma aflow_lists_eq : forall i (s : sstate) (P : flow -> bool) log (selm : N -> flow -> bool) (bm : flow -> Z)
    (g : N -> list aflow) (keys : list N),
  NoDup keys ->
  (forall k, g k = [] \/ exists a, g k = [a]) ->
  (forall k a, In a (g k) -> a_key a = k /\ fspec (selm k) bm i log a) ->
  (forall k, existsb (selm k) log = true -> In k keys /\ g k <> []) ->
  (forall k f, In f log -> P f && N.eqb (f_key f) k = selm k f) ->
  (forall k f, In f log -> selm k f = true -> bstart i s (f_start f) = bm f) ->
  as_aflows (group i s (fun k => k) (filter P log)) = sort_by a_key (flat_map g keys).
Proof.
  intros i s P log selm bm g keys Hnd Hg Hga Hcomp Hsel Hb.
  destruct (gfold_spec i s (fun k => k) (filter P log)) as [N1 L1]. fold (gfold i s (fun k : N => k) (filter P log)) in *.
  set (G := gfold i s (fun k : N => k) (filter P log)) in *.
  assert (HspecA : forall k c s0 e0, alookup k G = Some (c, s0, e0) ->
            fspec (selm k) bm i log {| a_key := k; a_cnt := c; a_start := s0; a_end := e0 |}).
  { intros k c s0 e0 E. specialize (L1 k). rewrite E in L1. apply fspec_filter in L1.
    eapply fspec_ext2; [| |exact L1].
    - intros f Hf. unfold gsel_k. apply Hsel. assumption.
    - intros f Hf Hs. cbv beta. apply (Hb k); [assumption|]. rewrite <- Hsel by assumption. exact Hs. }
  apply (sorted_in_ext aflow a_key).
  - rewrite as_aflows_map. apply sorted_map_toA. unfold group. apply sort_by_sorted. assumption.
  - apply sort_by_sorted_k.
    (* distinct keys on the model side *)
    clear - Hnd Hg Hga. induction keys as [|k tl IH]; simpl; [constructor|]. inversion Hnd; subst.
    rewrite map_app. destruct (Hg k) as [->|(a & E)]; [simpl; apply IH; assumption|].
    rewrite E. simpl. constructor; [|apply IH; assumption].
    destruct (Hga k a) as [Ek _]; [rewrite E; left; reflexivity|]. rewrite Ek.
    intro X. apply in_map_iff in X. destruct X as (b & Eb & Hb). apply in_flat_map in Hb. destruct Hb as (k' & Hk' & Hb).
    destruct (Hga k' b Hb) as [Ek' _]. congruence.
  - intros a. rewrite as_aflows_map, sort_by_in, in_map_iff, in_flat_map. split.
    + intros ([k [[c s0] e0]] & <- & Hx). unfold group in Hx. apply sort_by_in in Hx.
      apply in_alookup in Hx; [|assumption]. pose proof (HspecA k c s0 e0 Hx) as Hf.
      destruct (Hcomp k (fspec_exists _ _ _ _ _ Hf)) as [Hk Hne]. exists k. split; [assumption|].
      destruct (Hg k) as [E|(b & E)]; [congruence|]. rewrite E. left.
      destruct (Hga k b) as [Ek Hfb]; [rewrite E; left; reflexivity|].
      apply (fspec_unique (selm k) bm i log); auto.
    + intros (k & Hk & Ha). destruct (Hga k a Ha) as [Ek Hf].
      assert (Hex : existsb (gsel_k (fun k => k) k) (filter P log) = true).
      { pose proof (fspec_exists _ _ _ _ _ Hf) as X. apply existsb_exists in X. destruct X as (f & Hfl & Hs).
        rewrite <- Hsel in Hs by assumption. apply andb_true_iff in Hs. apply existsb_exists. exists f.
        split; [apply filter_In; tauto|unfold gsel_k; tauto]. }
      specialize (L1 k). destruct (alookup k G) as [[[c s0] e0]|] eqn:E; [|congruence].
      exists (k, (c, s0, e0)). split.
      * symmetry. apply (fspec_unique (selm k) bm i log); auto. apply HspecA. assumption.
      * unfold group. apply sort_by_in. apply alookup_in. assumption.
Qed.

(* ---- instances ---- *)
Lemma set_add_nodup : forall k l, NoDup l -> NoDup (set_add k l).
Proof.
  intros k l H. unfold set_add. destruct (existsb (N.eqb k) l) eqn:E; [assumption|].
  apply NoDup_snoc; [assumption|]. intro X.
  assert (existsb (N.eqb k) l = true) by (apply existsb_exists; exists k; split; [assumption|apply N.eqb_refl]). congruence.
Qed.
Lemma set_union_nodup : forall b a, NoDup a -> NoDup (set_union a b).
Proof. unfold set_union. induction b; intros a0 H; simpl; [assumption|]. apply IHb. apply set_add_nodup. assumption. Qed.

Lemma flow_set_nodup : forall r gte lt, NoDup (flow_set r gte lt).
Proof.
  intros. unfold flow_set. generalize (@NoDup_nil N). generalize (@nil N) as acc.
  induction (r_buckets r) as [|b tl IH]; intros acc H; simpl; [assumption|].
  apply IH. destruct (_ && _); [apply set_union_nodup|]; assumption.
Qed.

Lemma window_keys_nodup : forall r idxs, NoDup (fold_left (fun acc i => set_union acc (b_keys (bk r i))) idxs []).
Proof.
  intros r idxs. generalize (@NoDup_nil N). generalize (@nil N) as acc.
  induction idxs as [|j tl IH]; intros acc H; simpl; [assumption|]. apply IH. apply set_union_nodup. assumption.
Qed.

Lemma gsel_shape : forall r gte lt k, gsel r gte lt k = [] \/ exists a, gsel r gte lt k = [a].
Proof.
  intros. unfold gsel. destruct (alookup k (r_dia r)); [|left; reflexivity].
  destruct (dia_aggregate _ _ _ _ _); [right; eauto|left; reflexivity].
Qed.

Lemma gsel_fspec : forall r log gte lt k a, ring_ok r -> dinv r log -> 0 < boh r -> r_fix_agg r = true ->
  In a (gsel r gte lt k) -> a_key a = k /\ fspec (lsel r gte lt k) (bsf r) (r_interval r) log a.
Proof.
  intros r log gte lt k a Hok Dv Hpos Hfa Ha. rewrite gsel_dws in Ha by assumption.
  destruct (dia_aggregate true k (dws r k) gte lt) as [a'|] eqn:E; [|destruct Ha]. destruct Ha as [<-|[]].
  apply (aggregate_fspec r log k gte lt); assumption.
Qed.

Lemma existsb_false_forall_nat : forall (P : nat -> bool) l, (forall j, In j l -> P j = false) -> existsb P l = false.
Proof. induction l; simpl; intros H; [reflexivity|]. rewrite (H a) by (left; reflexivity). apply IHl. intros; apply H; right; assumption. Qed.

(* what lsel is, in terms of the flow's own bucket *)
Lemma lsel_char : forall r gte lt k f, ring_ok r -> f_start f < eoh r ->
  lsel r gte lt k f = N.eqb (f_key f) k && ((boh r <=? f_start f) && inner gte lt (bsf r f) (bsf r f + r_interval r)).
Proof.
  intros r gte lt k f Hok Hlt. unfold lsel. f_equal.
  destruct (Z.leb_spec (boh r) (f_start f)) as [Hge|Hsmall]; cbn [andb].
  - destruct (find_bucket_spec r (f_start f) Hok) as [Hin _]. destruct (Hin (conj Hge Hlt)) as (j & _ & Hj & _ & Hr & _).
    assert (Hb : in_bucket (bk r j) (f_start f) = true) by (apply in_bucket_iff; assumption).
    pose proof (bstart_slot r j (f_start f) Hok Hj Hb) as Es. fold (bsf r f) in Es.
    pose proof (slot_len r j Hok Hj) as El.
    apply eq_true_iff_eq. rewrite existsb_exists. split.
    + intros (j' & Hj' & X). apply in_seq0 in Hj'. apply andb_true_iff in X. destruct X as [X Y].
      assert (j' = j) by (apply (slot_unique r j' j (f_start f)); auto). subst j'. rewrite Es, <- El. exact Y.
    + intros Y. exists j. split; [apply in_seq0; assumption|]. unfold inb. rewrite Hb. cbn [andb]. rewrite Es, <- El in Y. exact Y.
  - apply existsb_false_forall_nat. intros j Hj. apply in_seq0 in Hj. unfold inb.
    destruct (in_bucket (bk r j) (f_start f)) eqn:X; [|reflexivity]. exfalso. apply in_bucket_iff in X.
    pose proof (slot_start_ge_boh r j Hok Hj). lia.
Qed.

(* the state the oracle carries, as seen from the model state *)
Definition srel (r : ring) (em : list (Z * Z)) (log : list flow) (s : sstate) : Prop :=
  s_eoh s = eoh r /\ s_log s = log /\ (forall ab, In ab (s_emitted s) <-> In ab em).

Record facts (r : ring) (em : list (Z * Z)) (log : list flow) : Prop := {
  f_g : ginv r em log; f_fa : r_fix_agg r = true; f_pos : 0 < boh r }.

Lemma list_meets : forall r em log s gte lt (L R : Z -> Z -> bool), facts r em log -> srel r em log s ->
  (forall bs be, L bs be = t_ge gte bs) -> (forall bs be, R bs be = t_le lt be) ->
  as_aflows (group (r_interval r) s (fun k => k) (filter (in_reading (nb r) (r_interval r) s L R) (s_log s)))
  = list_flows r gte lt.
Proof.
  intros r em log s gte lt L R [((Hok & _) & (C & _) & K & Dv) Hfa Hpos] (Es & El & _) HL HR. rewrite El.
  rewrite Forall_forall in C. pose proof (ring_ok_boh r Hok) as Hboh.
  change (list_flows r gte lt) with (sort_by a_key (flat_map (gsel r gte lt) (flow_set r gte lt))).
  apply (aflow_lists_eq (r_interval r) s _ log (lsel r gte lt) (bsf r)).
  - apply flow_set_nodup.
  - apply gsel_shape.
  - intros k a Ha. apply (gsel_fspec r log gte lt k a Hok Dv Hpos Hfa Ha).
  - intros k Hex. destruct (list_sums r log gte lt Hok K Dv Hfa) as [_ H2]. destruct (H2 k Hex) as (a & Ha & Ek).
    change (list_flows r gte lt) with (sort_by a_key (flat_map (gsel r gte lt) (flow_set r gte lt))) in Ha.
    apply sort_by_in in Ha. apply in_flat_map in Ha. destruct Ha as (k' & Hk' & Ha).
    destruct (gsel_fspec r log gte lt k' a Hok Dv Hpos Hfa Ha) as [Ek' _].
    assert (E' : k' = k) by congruence. rewrite E' in *. split; [exact Hk'|]. intro X. rewrite X in Ha. destruct Ha.
  - intros k f Hf. rewrite (lsel_char r gte lt k f Hok (C f Hf)).
    unfold in_reading, retained, s_boh, bstart. rewrite Es, HL, HR.
    replace (eoh r - r_interval r * Z.of_nat (nb r)) with (boh r) by lia. fold (bsf r f). unfold inner.
    destruct (N.eqb (f_key f) k), (boh r <=? f_start f), (t_ge gte (bsf r f)), (t_le lt (bsf r f + r_interval r)); reflexivity.
  - intros k f Hf _. unfold bstart, bsf. rewrite Es. reflexivity.
Qed.

Lemma coll_meets : forall r em log s x, facts r em log -> s_eoh s = eoh r -> s_log s = log -> (x + r_agg r < nb r)%nat ->
  as_aflows (group (r_interval r) s (fun k => k)
     (filter (fun f => (c_start (W r x) <=? f_start f) && (f_start f <? c_end (W r x))) (s_log s)))
  = c_flows (W r x).
Proof.
  intros r em log s x [((Hok & _) & (C & _) & K & Dv) Hfa Hpos] Es El Hx. rewrite El.
  pose proof C as C'. rewrite Forall_forall in C.
  set (keys := fold_left (fun acc i => set_union acc (b_keys (bk r i))) (c_buckets (W r x)) []).
  assert (Ecf : c_flows (W r x) = sort_by a_key (flat_map (gsel r (c_start (W r x)) (c_end (W r x))) keys)) by reflexivity.
  rewrite Ecf.
  assert (Hsel : forall k f, In f log -> lsel r (c_start (W r x)) (c_end (W r x)) k f = csel (W r x) k f)
    by (intros; apply lsel_window; auto).
  apply (aflow_lists_eq (r_interval r) s _ log (csel (W r x)) (bsf r)).
  - apply window_keys_nodup.
  - apply gsel_shape.
  - intros k a Ha. destruct (gsel_fspec r log _ _ k a Hok Dv Hpos Hfa Ha) as [Ek Hf]. split; [assumption|].
    eapply fspec_ext; [|exact Hf]. intros; apply Hsel; assumption.
  - intros k Hex. destruct (window_flows r log x Hok C' K Dv Hfa Hpos Hx) as [_ H2]. destruct (H2 k Hex) as (a & Ha & Ek).
    rewrite Ecf in Ha. apply sort_by_in in Ha. apply in_flat_map in Ha. destruct Ha as (k' & Hk' & Ha).
    destruct (gsel_fspec r log _ _ k' a Hok Dv Hpos Hfa Ha) as [Ek' _].
    assert (E' : k' = k) by congruence. rewrite E' in *. split; [exact Hk'|]. intro X. rewrite X in Ha. destruct Ha.
  - intros k f Hf. unfold csel. rewrite andb_comm. reflexivity.
  - intros k f Hf _. unfold bstart, bsf. rewrite Es. reflexivity.
Qed.

(* ---- Statistics ---- *)
Lemma stats_merge_nodup : forall st acc, NoDup (map fst acc) -> NoDup (map fst (stats_merge acc st)).
Proof.
  unfold stats_merge. induction st as [|[k v] tl IH]; intros acc H; simpl; [assumption|].
  apply IH. unfold stats_add. apply aupdate_nodup. assumption.
Qed.

Lemma statistics_sorted : forall r gte lt st, statistics r gte lt = Some st -> StronglySorted klt st.
Proof.
  intros r gte lt st E. unfold statistics in E.
  destruct (if gte =? 0 then _ else _); [|discriminate]. destruct (if lt =? 0 then _ else _); [|discriminate].
  injection E as <-. apply sort_by_sorted.
  generalize (@NoDup_nil N). change (@nil N) with (map fst (@nil (N * cnt))). generalize (@nil (N * cnt)) as acc.
  induction (iter_idx (nb r) (nb r) n n0) as [|j tl IH]; intros acc H; simpl; [assumption|].
  apply IH. apply stats_merge_nodup. assumption.
Qed.

Definition toS (x : N * (cnt * Z * Z)) : N * cnt := let '(k, (c, _, _)) := x in (k, c).

Lemma as_stats_map : forall g, as_stats g = map toS g. Proof. reflexivity. Qed.

Lemma sorted_map_toS : forall g, StronglySorted klt g -> StronglySorted klt (map toS g).
Proof.
  induction g as [|[k [[c s0] e0]] tl IH]; intros S; simpl; [constructor|]. inversion S; subst.
  constructor; [apply IH; assumption|]. rewrite Forall_forall in *. intros y Hy. apply in_map_iff in Hy.
  destruct Hy as ([k' [[c' s'] e']] & <- & Hx). specialize (H2 _ Hx). exact H2.
Qed.

Lemma alookup_toS : forall q g, alookup q (map toS g) = cntof (alookup q g).
Proof.
  induction g as [|[k [[c s0] e0]] tl IH]; simpl; [reflexivity|]. destruct (N.eqb q k); [reflexivity|assumption].
Qed.

Lemma sem_filter : forall P Q l, sem Q (filter P l) = sem (fun f => P f && Q f) l.
Proof.
  intros. unfold sem. rewrite sumf_filter.
  assert (E : existsb Q (filter P l) = existsb (fun f => P f && Q f) l).
  { induction l; simpl; [reflexivity|]. destruct (P a); simpl; rewrite IHl; reflexivity. }
  rewrite E. reflexivity.
Qed.

Lemma stats_meets : forall r em log s gte lt, facts r em log -> srel r em log s ->
  ok_stats (nb r) (r_interval r) s gte lt (statistics r gte lt) = true.
Proof.
  intros r em log s gte lt [((Hok & _) & Hs & K & Dv) Hfa Hpos] (Es & El & _).
  pose proof Hok as (Hn & Hh & Hi & _). pose proof (ring_ok_boh r Hok) as Hboh.
  unfold ok_stats. destruct (out_of_domain gte lt) eqn:Eo; [reflexivity|]. cbn [orb].
  assert (Hsboh : s_boh (nb r) (r_interval r) s = boh r) by (unfold s_boh; rewrite Es; lia).
  destruct (statistics r gte lt) as [st|] eqn:E.
  - destruct (statistics_sums r log gte lt st Hok Hs E) as (ys & ye & Hys & Hye & Hg & Hl & Hsum).
    destruct (slot_times r ys Hok Hys) as [Sys Eys]. destruct (slot_times r ye Hok Hye) as [Sye Eye].
    assert (Hle : (ye <= ys)%nat).
    { destruct (Z.eqb_spec gte 0); [lia|]. destruct (Z.eqb_spec lt 0); [lia|].
      unfold out_of_domain in Eo. destruct (Z.eqb_spec gte 0); [lia|]. destruct (Z.eqb_spec lt 0); [lia|].
      cbn [negb andb] in Eo. apply Z.leb_gt in Eo. rewrite Sys, Eys in Hg. rewrite Sye, Eye in Hl.
      destruct (le_lt_dec ye ys); [assumption|exfalso; nia]. }
    specialize (Hsum Hle).
    set (L := if gte =? 0 then (fun _ _ : Z => true) else (fun _ be : Z => gte <? be)).
    set (R := if lt =? 0 then (fun _ be : Z => be <=? s_eoh s - r_interval r) else (fun _ be : Z => be <=? lt)).
    apply existsb_exists. exists L. split; [unfold left_readings, L; destruct (gte =? 0); simpl; auto|].
    apply existsb_exists. exists R. split; [unfold right_readings, R; destruct (lt =? 0); simpl; auto|].
    assert (Eq : as_stats (group (r_interval r) s pol_of (filter (in_reading (nb r) (r_interval r) s L R) (s_log s))) = st).
    { apply sorted_lookup_ext.
      - rewrite as_stats_map. apply sorted_map_toS. apply group_sums.
      - eapply statistics_sorted; eauto.
      - intros q. rewrite as_stats_map, alookup_toS. rewrite (proj2 (group_sums _ _ _ _)), sem_filter, Hsum, El.
        apply sem_ext. intros f Hf. f_equal.
        destruct Hs as [C _]. rewrite Forall_forall in C. specialize (C f Hf).
        unfold in_reading, retained. rewrite Hsboh. unfold bstart. rewrite Es. fold (bsf r f).
        destruct (Z.leb_spec (boh r) (f_start f)) as [Hge|Hsm]; cbn [andb].
        + destruct (find_bucket_spec r (f_start f) Hok) as [Hin _]. destruct (Hin (conj Hge C)) as (j & _ & Hj & _ & Hr & _).
          assert (Hb : in_bucket (bk r j) (f_start f) = true) by (apply in_bucket_iff; assumption).
          pose proof (bstart_slot r j (f_start f) Hok Hj Hb) as Ebs. fold (bsf r f) in Ebs.
          destruct (slot_is_sub r j Hok Hj) as (y & Hy & <-). destruct (slot_times r y Hok Hy) as [Sy Ey].
          rewrite Sy, Ey in Hr. rewrite Ebs, Sy, Sys, Sye.
          assert (EL : L (eoh r - (Z.of_nat y + 1) * r_interval r) (eoh r - (Z.of_nat y + 1) * r_interval r + r_interval r)
                       = (eoh r - (Z.of_nat ys + 1) * r_interval r <=? f_start f)).
          { unfold L. destruct (Z.eqb_spec gte 0).
            - subst ys. symmetry. apply Z.leb_le. nia.
            - rewrite Sys, Eys in Hg. destruct (le_lt_dec y ys).
              + transitivity true; [apply Z.ltb_lt; nia|symmetry; apply Z.leb_le; nia].
              + transitivity false; [apply Z.ltb_ge; nia|symmetry; apply Z.leb_gt; nia]. }
          assert (ER : R (eoh r - (Z.of_nat y + 1) * r_interval r) (eoh r - (Z.of_nat y + 1) * r_interval r + r_interval r)
                       = (f_start f <? eoh r - (Z.of_nat ye + 1) * r_interval r)).
          { unfold R. rewrite Es. destruct (Z.eqb_spec lt 0).
            - subst ye. destruct y.
              + transitivity false; [apply Z.leb_gt; nia|symmetry; apply Z.ltb_ge; nia].
              + transitivity true; [apply Z.leb_le; nia|symmetry; apply Z.ltb_lt; nia].
            - rewrite Sye, Eye in Hl. destruct (le_lt_dec y ye).
              + transitivity false; [apply Z.leb_gt; nia|symmetry; apply Z.ltb_ge; nia].
              + transitivity true; [apply Z.leb_le; nia|symmetry; apply Z.ltb_lt; nia]. }
          rewrite EL, ER. reflexivity.
        + symmetry. rewrite Sys. destruct (Z.leb_spec (eoh r - (Z.of_nat ys + 1) * r_interval r) (f_start f)); [exfalso; nia|reflexivity]. }
    rewrite Eq. clear. induction st as [|[k c] tl IH]; simpl; [reflexivity|].
    unfold pc_eqb, cnt_eqb. simpl. rewrite N.eqb_refl, !Z.eqb_refl. exact IH.
  - unfold statistics in E. unfold in_history. rewrite Hsboh, Es.
    destruct (find_bucket_spec r gte Hok) as [Hing _]. destruct (find_bucket_spec r lt Hok) as [Hinl _].
    apply orb_true_iff. destruct (Z.eqb_spec gte 0) as [Eg|Eg].
    + right. destruct (Z.eqb_spec lt 0) as [El0|El0]; [discriminate|]. cbn [negb andb].
      destruct (find_bucket r lt) eqn:F; [discriminate|].
      apply negb_true_iff. apply andb_false_iff.
      destruct (Z.leb_spec (boh r) lt); [|left; reflexivity]. destruct (Z.ltb_spec lt (eoh r)); [|right; reflexivity].
      destruct (Hinl (conj H H0)) as (idx & X & _). congruence.
    + destruct (find_bucket r gte) eqn:F.
      * right. destruct (Z.eqb_spec lt 0) as [El0|El0]; [discriminate|]. cbn [negb andb].
        destruct (find_bucket r lt) eqn:F2; [discriminate|].
        apply negb_true_iff. apply andb_false_iff.
        destruct (Z.leb_spec (boh r) lt); [|left; reflexivity]. destruct (Z.ltb_spec lt (eoh r)); [|right; reflexivity].
        destruct (Hinl (conj H H0)) as (idx & X & _). congruence.
      * left. cbn [negb andb]. apply negb_true_iff. apply andb_false_iff.
        destruct (Z.leb_spec (boh r) gte); [|left; reflexivity]. destruct (Z.ltb_spec gte (eoh r)); [|right; reflexivity].
        destruct (Hing (conj H H0)) as (idx & X & _). congruence.
Qed.

(* ---- the whole trace ---- *)
Lemma aflow_eqb_refl : forall a, aflow_eqb a a = true.
Proof. intros [k [c1 c2] s0 e0]. unfold aflow_eqb, cnt_eqb. simpl. rewrite N.eqb_refl, !Z.eqb_refl. reflexivity. Qed.
Lemma list_eqb_aflow_refl : forall l, list_eqb aflow_eqb l l = true.
Proof. induction l; simpl; [reflexivity|]. rewrite aflow_eqb_refl. assumption. Qed.

Lemma facts_step : forall r em log o, facts r em log ->
  facts (fst (step r o)) (em ++ out_intervals (snd (step r o))) (log_step r log o).
Proof.
  intros r em log o [G Hfa Hpos]. split.
  - apply step_ginv. assumption.
  - rewrite step_fix_agg. assumption.
  - destruct G as ((Hok & _) & _). pose proof (step_boh_ge r o Hok). lia.
Qed.

Lemma ok_collections_cons : forall i s a b fl cs,
  ok_collections i s ((a, b, fl) :: cs) =
  (let '(ok', s'') := ok_collections i {| s_eoh := s_eoh s; s_log := s_log s; s_emitted := (a, b) :: s_emitted s |} cs in
   (ok_collection i s (a, b, fl) && ok', s'')).
Proof. reflexivity. Qed.

Lemma ok_colls : forall r em0 log cs s emc,
  facts r em0 log -> s_eoh s = eoh r -> s_log s = log -> (forall ab, In ab (s_emitted s) <-> In ab emc) ->
  (forall c, In c cs -> exists x, c = W r x /\ (x + r_agg r < nb r)%nat /\ c_flows c <> []) ->
  pdisj (emc ++ map ival cs) ->
  exists s', ok_collections (r_interval r) s (map obs_coll cs) = (true, s')
    /\ s_eoh s' = eoh r /\ s_log s' = log /\ (forall ab, In ab (s_emitted s') <-> In ab (emc ++ map ival cs)).
Proof.
  intros r em0 log. induction cs as [|c cs IH]; intros s emc F Es El Hem Hcs Hpd.
  - exists s. simpl. rewrite app_nil_r. auto.
  - destruct (Hcs c (or_introl eq_refl)) as (x & Ec & Hx & Hne).
    pose proof F as [((Hok & (Hk & _) & _) & _) _ _]. pose proof Hok as (_ & _ & Hi & _).
    set (s1 := {| s_eoh := s_eoh s; s_log := s_log s; s_emitted := (c_start c, c_end c) :: s_emitted s |}).
    simpl in Hpd. change (ival c :: map ival cs) with ([ival c] ++ map ival cs) in Hpd. rewrite app_assoc in Hpd.
    destruct (IH s1 (emc ++ [ival c]) F Es El) as (s' & E' & A & B & D).
    { intros ab. simpl. rewrite in_app_iff, Hem. simpl. unfold ival. intuition. }
    { intros c' Hc'. apply Hcs. right. assumption. }
    { assumption. }
    exists s'. split; [|split; [assumption|split; [assumption|]]].
    + change (map obs_coll (c :: cs)) with ((c_start c, c_end c, c_flows c) :: map obs_coll cs).
      rewrite ok_collections_cons. fold s1. rewrite E'.
      assert (Hok1 : ok_collection (r_interval r) s (c_start c, c_end c, c_flows c) = true).
      { unfold ok_collection. apply andb_true_iff. split; [apply andb_true_iff; split; [apply andb_true_iff; split|]|].
        - pose proof (ival_W r x Hok Hx) as Iv. rewrite <- Ec in Iv. unfold ival, ivalW in Iv. injection Iv as -> ->.
          apply Z.ltb_lt. rewrite Nat2Z.inj_add. assert (1 <= Z.of_nat (r_agg r)) by lia. nia.
        - apply forallb_forall. intros ab Hab. apply Hem in Hab.
          apply pdisj_app in Hpd. destruct Hpd as (Hp1 & _ & _). apply pdisj_app in Hp1. destruct Hp1 as (_ & _ & Hp1).
          specialize (Hp1 ab (ival c) Hab (or_introl eq_refl)). unfold disj, ival in Hp1. cbn [fst snd] in Hp1.
          apply orb_true_iff. destruct Hp1; [right|left]; apply Z.leb_le; assumption.
        - destruct (c_flows c); [congruence|reflexivity].
        - rewrite Ec. rewrite (coll_meets r em0 log s x F Es El Hx). apply list_eqb_aflow_refl. }
      rewrite Hok1. reflexivity.
    + intros ab. rewrite D. rewrite <- app_assoc. reflexivity.
Qed.

Lemma emit_meets : forall r em log s, facts r em log -> srel r em log s ->
  exists r2 sent s', emit r = Some (r2, sent)
    /\ ok_collections (r_interval r) s (map obs_coll sent) = (true, s')
    /\ srel r2 (em ++ map ival sent) log s'.
Proof.
  intros r em log s F (Es & El & Hem). pose proof F as [((Hok & Hcfg & Hp) & _) _ _].
  destruct (emit_spec r Hok Hcfg) as (m & r2 & sent & E & Hsent & Hxs & Hnb & Hhd & _ & _ & _ & _ & _ & _ & Hbk).
  pose proof (emit_pinv r em r2 sent Hok Hcfg Hp E) as (Hpd & _).
  destruct (ok_colls r em log sent s em F Es El Hem) as (s' & E' & A & B & D); auto.
  - intros c Hc. rewrite Hsent in Hc. apply filter_In in Hc. destruct Hc as [Hc Hne].
    apply in_rev in Hc. apply in_map_iff in Hc. destruct Hc as (x & <- & Hx). exists x. split; [reflexivity|].
    split; [apply Hxs; assumption|]. destruct (c_flows (W r x)); [discriminate|discriminate].
  - exists r2, sent, s'. split; [assumption|]. split; [assumption|]. split; [|split; assumption].
    rewrite A. pose proof Hok as (Hn & Hh & _). unfold eoh. rewrite Hhd, Hbk by lia. destruct (existsb _ sent); reflexivity.
Qed.

Lemma step_dims : forall r o, nb (fst (step r o)) = nb r /\ r_interval (fst (step r o)) = r_interval r.
Proof.
  intros r o. destruct o as [f|[|]| |gte lt|gte lt]; simpl; auto.
  - destruct (add_flow_fields r f) as (A & _ & B & _). destruct (add_flow r f); auto.
  - destruct (emit (rollover_core r)) as [[r2 sent]|] eqn:E; simpl; [|split; [apply rollover_core_nb|reflexivity]].
    destruct (emit_frame _ _ _ E) as (A & _ & B & _). rewrite A, B. split; [apply rollover_core_nb|reflexivity].
  - split; [apply rollover_core_nb|reflexivity].
  - destruct (emit r) as [[r2 sent]|] eqn:E; simpl; auto. destruct (emit_frame _ _ _ E) as (A & _ & B & _). auto.
Qed.

Lemma srel_eoh : forall r r' em log s, srel r em log s -> eoh r' = eoh r -> srel r' em log s.
Proof. intros r r' em log s (A & B & C) E. split; [congruence|auto]. Qed.

Lemma run_meets : forall ops r em log s, facts r em log -> srel r em log s ->
  ok_trace_from (nb r) (r_interval r) s ops (run r ops) = true.
Proof.
  induction ops as [|o ops IH]; intros r em log s F S; [reflexivity|].
  rewrite run_cons. pose proof (facts_step r em log o F) as F'. destruct (step_dims r o) as [Dn Di].
  pose proof F as [((Hok & Hcfg & Hp) & _) _ _]. pose proof Hok as (Hn & Hh & Hi & _).
  destruct S as (Es & El & Hem).
  destruct o as [f|[|]| |gte lt|gte lt].
  - (* AddFlow *)
    assert (E1 : fst (step r (OpAdd f)) = fst (add_flow r f)) by (simpl; destruct (add_flow r f); reflexivity).
    assert (E2 : snd (step r (OpAdd f)) = OAdd (snd (add_flow r f))) by (simpl; destruct (add_flow r f); reflexivity).
    rewrite E2. cbn [ok_trace_from].
    assert (Hadd : ok_add (nb r) (r_interval r) s f (snd (add_flow r f)) = true).
    { pose proof (add_meets_spec r f (s_log s) (s_emitted s) Hok) as X. destruct s as [e l m]. simpl in Es. subst e. exact X. }
    rewrite Hadd. cbn [andb]. rewrite <- Dn, <- Di.
    assert (Heoh : eoh (fst (step r (OpAdd f))) = eoh r).
    { rewrite E1. pose proof (add_flow_frame r f) as (_ & B2 & _ & B4). unfold eoh. rewrite B2. apply B4. }
    rewrite E2 in F'. cbn [out_intervals] in F'. rewrite app_nil_r in F'. cbn [log_step] in F'.
    eapply IH; [exact F'|]. destruct (snd (add_flow r f)); split; cbn [s_eoh s_log s_emitted]; try congruence; split; try congruence; assumption.
  - (* Rollover with sink *)
    assert (F1 : facts (rollover_core r) em log).
    { pose proof (facts_step r em log (OpRollover false) F) as X. simpl in X. rewrite app_nil_r in X. exact X. }
    assert (S1 : srel (rollover_core r) em log (s_roll (r_interval r) s)).
    { split; [cbn [s_roll s_eoh]; rewrite rollover_eoh by assumption; lia|split; assumption]. }
    destruct (emit_meets _ _ _ _ F1 S1) as (r2 & sent & s' & E & Eok & S2).
    cbn [step] in *. rewrite E in *. cbn [fst snd] in *. cbn [ok_trace_from].
    change (r_interval (rollover_core r)) with (r_interval r) in Eok.
    rewrite Eok. cbn [andb]. rewrite <- Dn, <- Di. rewrite out_intervals_sent in F'. eapply IH; eassumption.
  - (* Rollover(nil) *)
    cbn [step fst snd ok_trace_from] in *. rewrite app_nil_r in F'. rewrite <- Dn, <- Di. eapply IH; [exact F'|].
    rewrite Di. split; [cbn [s_roll s_eoh]; rewrite rollover_eoh by assumption; lia|split; assumption].
  - (* sink attach *)
    destruct (emit_meets r em log s F (conj Es (conj El Hem))) as (r2 & sent & s' & E & Eok & S2).
    cbn [step] in *. rewrite E in *. cbn [fst snd] in *. cbn [ok_trace_from].
    rewrite Eok. cbn [andb]. rewrite <- Dn, <- Di. rewrite out_intervals_sent in F'. eapply IH; eassumption.
  - (* List *)
    cbn [step fst snd ok_trace_from] in *. rewrite app_nil_r in F'.
    assert (Hl : ok_list (nb r) (r_interval r) s gte lt (list_flows r gte lt) = true).
    { unfold ok_list. apply orb_true_iff. right.
      set (L := if gte =? 0 then (fun _ _ : Z => true) else (fun bs _ : Z => gte <=? bs)).
      set (R := if lt =? 0 then (fun _ _ : Z => true) else (fun _ be : Z => be <=? lt)).
      apply existsb_exists. exists L. split; [unfold left_readings, L; destruct (gte =? 0); simpl; auto|].
      apply existsb_exists. exists R. split; [unfold right_readings, R; destruct (lt =? 0); simpl; auto|].
      rewrite (list_meets r em log s gte lt L R F (conj Es (conj El Hem))).
      - apply list_eqb_aflow_refl.
      - intros bs be. unfold L, t_ge. destruct (gte =? 0); reflexivity.
      - intros bs be. unfold R, t_le. destruct (lt =? 0); reflexivity. }
    rewrite Hl. cbn [andb]. eapply IH; [exact F'|split; [assumption|split; assumption]].
  - (* Statistics *)
    cbn [step fst snd ok_trace_from] in *. rewrite app_nil_r in F'.
    rewrite (stats_meets r em log s gte lt F (conj Es (conj El Hem))). cbn [andb].
    eapply IH; [exact F'|split; [assumption|split; assumption]].
Qed.

(* c32_model_meets_spec *)
Lemma model_meets_spec : forall n interval now p k ops,
  (1 <= k)%nat -> (p + k + 2 <= n)%nat -> 0 < interval -> Z.of_nat n * interval < now + 2 * interval ->
  ok_trace n interval now ops (run (new_ring n interval now p k true true) ops) = true.
Proof.
  intros n interval now p k ops Hk Hc Hi Hpos. unfold ok_trace.
  set (r0 := new_ring n interval now p k true true).
  assert (Hok : ring_ok r0) by (apply new_ring_ok; lia).
  assert (Hb : boh r0 = now + 2 * interval - Z.of_nat n * interval) by (apply new_ring_boh; lia).
  assert (F : facts r0 [] []).
  { split; [apply new_ring_ginv; assumption|apply new_ring_fix_agg|lia]. }
  assert (Hnb : nb r0 = n /\ r_interval r0 = interval /\ eoh r0 = now + 2 * interval).
  { pose proof (ring_ok_boh r0 Hok) as X.
    assert (A : nb r0 = n /\ r_interval r0 = interval).
    { unfold r0, new_ring. set (q := {| r_buckets := _ |}).
      assert (Hq : nb q = n) by (unfold nb, q; simpl; destruct n as [|n']; [lia|]; simpl; rewrite repeat_length; reflexivity).
      assert (G : forall m, nb (Nat.iter m rollover_core q) = n /\ r_interval (Nat.iter m rollover_core q) = interval).
      { induction m; [split; [assumption|reflexivity]|]. destruct IHm.
        change (Nat.iter (S m) rollover_core q) with (rollover_core (Nat.iter m rollover_core q)).
        rewrite rollover_core_nb. split; assumption. }
      apply G. }
    destruct A as [A1 A2]. rewrite A1, A2, Hb in X. split; [exact A1|split; [exact A2|]]. clear - X. set (m := Z.of_nat n * interval) in *. lia. }
  destruct Hnb as (A1 & A2 & A3).
  pose proof (run_meets ops r0 [] [] {| s_eoh := now + 2 * interval; s_log := []; s_emitted := [] |} F) as X.
  rewrite A1, A2 in X. apply X. split; [simpl; symmetry; exact A3|split; [reflexivity|intros; simpl; tauto]].
Qed.
