(* C32 — property theorems only.  Each is closed by `exact <lemma>` and followed by Print Assumptions. *)
From Coq Require Import List ZArith NArith Arith Bool.
From Verif.C32 Require Import Model Spec Proofs.
Import ListNotations.
Open Scope Z_scope.

(* A flow dated at or after the end of the retained history is rejected. *)
Theorem c32_future_rejected : forall r t, eoh r <= t -> find_bucket r t = None.
Proof. exact find_bucket_future_rejected. Qed.
Print Assumptions c32_future_rejected.
