(* C32 — property theorems only.  Each is closed by `exact <lemma>` and followed by Print Assumptions.
   (Refutations / examples are closed by vm_compute on a concrete witness.) *)
From Coq Require Import List ZArith NArith Arith Bool.
From Coq Require Import Sorting.Sorted.
From Verif.C32 Require Import Model Spec Proofs Walk Conserve Dia Meets Full.
Import ListNotations.
Open Scope Z_scope.

Definition fl (k : N) (t p b : Z) : flow := {| f_key := k; f_start := t; f_cnt := (p, b) |}.

(* Ring consistency, for EVERY configuration with >= 2 buckets and a positive interval and EVERY interleaving of
   ingest / rollover (with or without sink) / sink attach / List / Statistics, in either variant of the code:
   the slot m steps behind the head holds exactly the interval [H-(m+1)*interval, H-m*interval), H = end of history.
   (ring_ok is Proofs.cons_upto over all slots.) *)
Theorem c32_ring_consistent : forall n interval now p k fw fa ops,
  (2 <= n)%nat -> 0 < interval -> ring_ok (run_state (new_ring n interval now p k fw fa) ops).
Proof. exact reachable_ok. Qed.
Print Assumptions c32_ring_consistent.

(* findBucket's index arithmetic over Z: in a consistent ring a start time inside the retained history [boh, eoh)
   is sent by the division alone (never the fallback scan) to a slot whose interval contains it, that slot is the
   ONLY slot whose interval contains it, its interval is one `interval` long and aligned with the end of history;
   late flows older than the history and future-dated flows at/after the end of history are rejected. *)
Theorem c32_one_bucket : forall r t, ring_ok r ->
  (boh r <= t < eoh r ->
     exists idx, find_bucket r t = Some idx /\ (idx < nb r)%nat
       /\ idx = idx_sub (nb r) (r_head r) (Z.to_nat ((eoh r - 1 - t) / r_interval r))
       /\ b_start (bk r idx) <= t < b_end (bk r idx)
       /\ b_end (bk r idx) = b_start (bk r idx) + r_interval r
       /\ (b_start (bk r idx) - eoh r) mod r_interval r = 0
       /\ forall j, (j < nb r)%nat -> b_start (bk r j) <= t < b_end (bk r j) -> j = idx)
  /\ (~ (boh r <= t < eoh r) -> find_bucket r t = None).
Proof. exact find_bucket_spec. Qed.
Print Assumptions c32_one_bucket.

Theorem c32_history_span : forall r, ring_ok r -> boh r = eoh r - Z.of_nat (nb r) * r_interval r.
Proof. exact ring_ok_boh. Qed.
Print Assumptions c32_history_span.

(* Every accepted flow is counted exactly once: its counts are added to the statistics of the one bucket containing
   its start time and to the key's diachronic windows, every other bucket is unchanged; a rejected flow changes
   nothing at all. *)
Theorem c32_counted_once : forall r f r' ob, ring_ok r -> add_flow r f = (r', ob) ->
  match ob with
  | None => ~ (boh r <= f_start f < eoh r) /\ r' = r
  | Some b =>
      boh r <= f_start f < eoh r /\
      exists idx, (idx < nb r)%nat /\ b = b_start (bk r idx) /\ b <= f_start f < b + r_interval r
        /\ (forall j, (j < nb r)%nat -> b_start (bk r j) <= f_start f < b_end (bk r j) -> j = idx)
        /\ bk r' idx = bucket_add f (bk r idx)
        /\ (forall j, j <> idx -> bk r' j = bk r j)
        /\ ring_total r' = cadd (ring_total r) (f_cnt f)
        /\ dia_total (r_dia r') = cadd (dia_total (r_dia r)) (f_cnt f)
  end.
Proof. exact add_flow_counted_once. Qed.
Print Assumptions c32_counted_once.

Theorem c32_future_rejected : forall r t, eoh r <= t -> find_bucket r t = None.
Proof. exact find_bucket_future_rejected. Qed.
Print Assumptions c32_future_rejected.

(* ---- the repaired code (fixes 2c43ef2 + 3086c2e in /repo; model variant fix_walk = true) ---- *)

(* Termination of the emission walk, by the distance-from-head measure: in every consistent ring whose configuration
   satisfies 1 <= bucketsToAggregate and pushAfter + bucketsToAggregate + 2 <= numBuckets the walk stops within the
   model's fuel; the end of each window is d steps behind the head, d grows by bucketsToAggregate per window and the
   walk stops at the latest when d + bucketsToAggregate reaches numBuckets (Walk.emit_walk_shape). *)
Theorem c32_emit_terminates : forall r, ring_ok r -> cfg_ok r -> emit r <> None.
Proof. exact emit_terminates. Qed.
Print Assumptions c32_emit_terminates.

(* Every bucket interval goes to the sink at most once, and the emission never diverges: for EVERY valid configuration
   and EVERY interleaving of ingest / rollover (with or without sink) / sink attach / List / Statistics, the time
   intervals of all collections handed to the sink over the whole history are pairwise disjoint.
   Invariant (Walk.pinv): the intervals handed over so far are pairwise disjoint, each bucketsToAggregate*interval long
   and ending at or before the emission horizon eoh-(pushAfter+2)*interval, and a retained slot is pushed iff its start
   lies in one of them; the walk argument shows a window whose start slot is unpushed overlaps none of them. *)
Theorem c32_emit_at_most_once : forall n interval now p k fa ops,
  (1 <= k)%nat -> (p + k + 2 <= n)%nat -> 0 < interval ->
  pdisj (emitted_intervals (run (new_ring n interval now p k true fa) ops))
  /\ ~ In ODiverge (run (new_ring n interval now p k true fa) ops).
Proof. exact at_most_once_all_histories. Qed.
Print Assumptions c32_emit_at_most_once.

(* Statistics = sums of the accepted flows in range that are still retained, for EVERY valid configuration and EVERY
   history; `run_log` is the log of the flows the history accepted.  Rounding rule, exactly: with
     lo = start of the bucket containing gte   (gte = 0: the beginning of history, ys = n-1 steps behind the head)
     hi = start of the bucket containing lt    (lt  = 0: the start of the head bucket, eoh - interval)
   i.e. BOTH bounds rounded DOWN to a bucket boundary, the answer for policy q is the sum over the accepted flows f of
   that policy with lo <= f_start f < hi (None when there is no such flow); so bucket-aligned ranges are exact.  Flows
   that have left the history are < boh <= lo and do not count.  (ye <= ys says lo <= hi, i.e. not the wrapped
   iteration goldmane excludes by validating gte < lt; an error result means a non-zero bound is outside the history:
   c32_one_bucket.)
   Invariant (Conserve.sinv): every accepted start time is < eoh, and every slot's statistics map has distinct keys and
   maps policy q to the sum of the logged flows of q whose start lies in the slot's interval. *)
Theorem c32_query_sums_statistics : forall n interval now p k fa ops gte lt res,
  (1 <= k)%nat -> (p + k + 2 <= n)%nat -> 0 < interval ->
  let r0 := new_ring n interval now p k true fa in
  let r := run_state r0 ops in
  let log := run_log r0 [] ops in
  statistics r gte lt = Some res ->
  exists ys ye, (ys < nb r)%nat /\ (ye < nb r)%nat
    /\ (if gte =? 0 then ys = (nb r - 1)%nat else b_start (bk r (sub r ys)) <= gte < b_end (bk r (sub r ys)))
    /\ (if lt =? 0 then ye = 0%nat else b_start (bk r (sub r ye)) <= lt < b_end (bk r (sub r ye)))
    /\ ((ye <= ys)%nat -> forall q,
          alookup q res = sem (fun f => (b_start (bk r (sub r ys)) <=? f_start f) && (f_start f <? b_start (bk r (sub r ye)))
                                        && N.eqb (pol_of (f_key f)) q) log).
Proof. exact statistics_all_histories. Qed.
Print Assumptions c32_query_sums_statistics.

(* The diachronic-flow invariant (Dia.dinv r log), for every key k with ws = its Windows in r_dia ([] if absent):
     NoDup (map fst (r_dia r));  ws strictly sorted by w_start;  every w in ws has the start and end of a retained
     slot and Some (w_cnt w) = sem (flows of k starting inside w) log (so no empty window);  every retained slot holding
     a logged flow of k has a window with that start.
   It holds, together with ring consistency, the pushed-flag invariant (Walk.pinv), the statistics invariant
   (Conserve.sinv) and the key-set invariant (Conserve.kinv), in EVERY state reachable by any interleaving of
   ingest / rollover (with or without sink) / sink attach / List / Statistics (Dia.ginv; win_add and win_roll/roll_key
   are the two non-trivial preservation proofs, the latter uses kinv to see that keys not in the expired bucket have no
   expired window). *)
Theorem c32_invariant : forall n interval now p k fa ops,
  (1 <= k)%nat -> (p + k + 2 <= n)%nat -> 0 < interval ->
  let r0 := new_ring n interval now p k true fa in
  exists em, ginv (run_state r0 ops) em (run_log r0 [] ops).
Proof. exact reach_ginv. Qed.
Print Assumptions c32_invariant.

(* List half of c32_query_sums.  Rounding rule, exactly (Dia.lsel): a retained bucket [s, e) counts iff
   (gte = 0 \/ gte <= s) /\ (lt = 0 \/ e <= lt) - it lies wholly inside the range, 0 = unbounded; a bucket-aligned
   range is therefore answered exactly.  List(gte, lt) has one entry for key k iff some accepted flow of k starts in a
   retained bucket that counts, and the entry's counts are the sum of exactly those accepted flows. *)
Theorem c32_query_sums_list : forall n interval now p k ops gte lt,
  (1 <= k)%nat -> (p + k + 2 <= n)%nat -> 0 < interval ->
  let r0 := new_ring n interval now p k true true in
  let r := run_state r0 ops in
  let log := run_log r0 [] ops in
  (forall a, In a (list_flows r gte lt) ->
     a_cnt a = sumf (lsel r gte lt (a_key a)) log /\ existsb (lsel r gte lt (a_key a)) log = true)
  /\ (forall key, existsb (lsel r gte lt key) log = true -> exists a, In a (list_flows r gte lt) /\ a_key a = key).
Proof. exact list_all_histories. Qed.
Print Assumptions c32_query_sums_list.

(* c32_emit_complete: in every reachable state (ring created with its whole history after the epoch, so that no bucket
   boundary is the "unbounded" value 0), the collection built for any window W x of the emission walk - and by
   c32_emit_shape every collection handed to the sink IS such a W x of the state at emission time - holds exactly one
   flow per key that has an accepted flow starting in [c_start, c_end), with counts = the sum of exactly those accepted
   flows: no accepted flow in an emitted window is left out, none is counted twice, nothing foreign is added. *)
Theorem c32_emit_complete : forall n interval now p k ops x,
  (1 <= k)%nat -> (p + k + 2 <= n)%nat -> 0 < interval -> Z.of_nat n * interval < now + 2 * interval ->
  let r0 := new_ring n interval now p k true true in
  let r := run_state r0 ops in
  let log := run_log r0 [] ops in
  (x + r_agg r < nb r)%nat ->
  (forall a, In a (c_flows (W r x)) ->
     a_cnt a = sumf (csel (W r x) (a_key a)) log /\ existsb (csel (W r x) (a_key a)) log = true)
  /\ (forall key, existsb (csel (W r x) key) log = true -> exists a, In a (c_flows (W r x)) /\ a_key a = key).
Proof. exact window_flows_all_histories. Qed.
Print Assumptions c32_emit_complete.

(* the gathering step alone (used by c32_emit_complete): the key set collected for W x is exactly the set of keys of
   the accepted flows starting inside the window *)
Theorem c32_emit_complete_keys : forall n interval now p k fa ops x key,
  (1 <= k)%nat -> (p + k + 2 <= n)%nat -> 0 < interval ->
  let r0 := new_ring n interval now p k true fa in
  let r := run_state r0 ops in
  let log := run_log r0 [] ops in
  (x + r_agg r < nb r)%nat ->
  (In key (fold_left (fun acc i => set_union acc (b_keys (bk r i))) (c_buckets (W r x)) [])
   <-> existsb (fun f => N.eqb (f_key f) key && ((c_start (W r x) <=? f_start f) && (f_start f <? c_end (W r x)))) log = true).
Proof. exact window_keys_all_histories. Qed.
Print Assumptions c32_emit_complete_keys.

(* What an emission is, exactly (used by the two theorems above): it terminates; the walk visits the windows W x for
   x = pushAfter+1, pushAfter+1+k, ... while the window's start slot is unpushed and the window stays short of the
   head; the non-empty ones are handed over oldest first; exactly their slots become pushed; nothing else changes. *)
Theorem c32_emit_shape : forall r, ring_ok r -> cfg_ok r ->
  exists m r' sent,
    let xs := seqk (r_agg r) (S (r_push_after r)) m in
    emit r = Some (r', sent)
    /\ sent = filter (fun c => negb (Nat.eqb (length (c_flows c)) 0)) (rev (map (W r) xs))
    /\ (forall x, In x xs -> (S (r_push_after r) <= x)%nat /\ (x + r_agg r < nb r)%nat
          /\ b_pushed (bk r (sub r (x + r_agg r))) = false
          /\ (x = S (r_push_after r) \/ exists x', In x' xs /\ x = (x' + r_agg r)%nat))
    /\ nb r' = nb r /\ r_head r' = r_head r /\ r_interval r' = r_interval r /\ r_dia r' = r_dia r
    /\ r_agg r' = r_agg r /\ r_push_after r' = r_push_after r /\ r_fix_walk r' = r_fix_walk r /\ r_fix_agg r' = r_fix_agg r
    /\ forall j, (j < nb r)%nat ->
         bk r' j = if existsb (fun c => existsb (Nat.eqb j) (c_buckets c)) sent then set_pushed (bk r j) else bk r j.
Proof. exact emit_spec. Qed.
Print Assumptions c32_emit_shape.

(* c32_model_meets_spec: the specification oracle of Spec.v (the one the correspondence run applies to the real
   implementation's outputs) accepts EVERY run of the repaired model: every valid configuration whose initial history
   lies after the epoch (no bucket boundary is the "unbounded" value 0) and every interleaving of AddFlow (incl. late,
   future-dated, rejected), Rollover with and without sink, sink attach, List and Statistics with arbitrary bounds.
   Clause by clause: acceptance and bucket of every flow; every List / Statistics answer equals the oracle's own grouping
   of the retained accepted flows under one of its admissible roundings (List: bucket wholly inside; Statistics: both
   bounds rounded down; errors exactly when a bound is outside the history); every collection handed to the sink is
   non-empty, disjoint from everything handed over before, and equal - keys, counts, StartTime, EndTime - to the oracle's
   grouping of the accepted flows starting in its interval; the emission terminates.
   Proof: Full.v - the invariant c32_invariant, the field specification of aggregated flows (sum / earliest bucket
   start / latest bucket end, Full.fspec) met both by AggregateWindows and by Spec.group, and extensionality of
   key-sorted lists. *)
Theorem c32_model_meets_spec : forall n interval now p k ops,
  (1 <= k)%nat -> (p + k + 2 <= n)%nat -> 0 < interval -> Z.of_nat n * interval < now + 2 * interval ->
  ok_trace n interval now ops (run (new_ring n interval now p k true true) ops) = true.
Proof. exact model_meets_spec. Qed.
Print Assumptions c32_model_meets_spec.

(* "Each window emitted exactly once" splits into: at most once (c32_emit_at_most_once), nothing left out / nothing
   twice inside an emitted window at emission time (c32_emit_complete, and the oracle clause of c32_model_meets_spec),
   and "every accepted flow behind the emission horizon is eventually emitted".  The last part is FALSE of the code
   (also after the two repairs): a late flow that lands in a still-unpushed bucket OLDER than an already pushed window is
   accepted (no warning: the bucket is not marked pushed) but never reaches the sink, because the backward walk stops at
   the first pushed window start.  Witness: 8 buckets of 10 s, pushAfter 0, bucketsToAggregate 1; the flow at 985 is
   emitted in [980,990); the late flow at 975 is accepted into the unpushed bucket [970,980) and is in no collection
   during the 8 rollovers it stays in the history (the only interval ever handed over is [980,990)).  Rollovers with
   no ingestion change nothing in this: empty windows are walked over and never marked.  The property text only
   requires "at most once", so this is recorded as a limit of the code, not as a violation. *)
Theorem c32_every_accepted_flow_emitted_refuted :
  let ops := [OpAdd (fl 1 985 1 1); OpEmit; OpAdd (fl 2 975 7 7);
              OpRollover true; OpRollover true; OpRollover true; OpRollover true;
              OpRollover true; OpRollover true; OpRollover true; OpRollover true; OpList 0 0] in
  let outs := run (new_ring 8 10 1000 0 1 true true) ops in
  nth 2 outs ODiverge = OAdd (Some 970)
  /\ emitted_intervals outs = [(980, 990)]
  /\ nth 11 outs ODiverge = OList []
  /\ ok_trace 8 10 1000 ops outs = true.
Proof. vm_compute. repeat split; reflexivity. Qed.
Print Assumptions c32_every_accepted_flow_emitted_refuted.

(* ---- the property is FALSE of the code as found (variant fw = fa = false); witnesses replayed on the real code ---- *)

(* "each window of buckets is emitted at most once" fails: 7 buckets of 10 s, pushAfter 0, bucketsToAggregate 2
   (a configuration valid_cfg accepts), one flow, first sink attach: the bucket [980,990) is handed over twice. *)
Theorem c32_emit_at_most_once_refuted :
  valid_cfg 7 10 0 2 = true /\
  run (new_ring 7 10 1000 0 2 false false) [OpAdd (fl 1 985 1 1); OpEmit]
  = [OAdd (Some 980);
     OEmitted [(970, 990, [{| a_key := 1; a_cnt := (1, 1); a_start := 980; a_end := 990 |}]);
               (980, 1000, [{| a_key := 1; a_cnt := (1, 1); a_start := 980; a_end := 990 |}])]].
Proof. vm_compute. split; reflexivity. Qed.
Print Assumptions c32_emit_at_most_once_refuted.

(* the emission walk does not terminate (model: fuel exhausted after 2n+4 windows; Go: endless loop that appends):
   10 buckets, pushAfter 1, bucketsToAggregate 2 *)
Theorem c32_emit_terminates_refuted :
  valid_cfg 10 15 1 2 = true /\
  run (new_ring 10 15 1700052810 1 2 false false) [OpAdd (fl 0 1700052822 8 1419); OpEmit] = [OAdd (Some 1700052810); ODiverge].
Proof. vm_compute. split; reflexivity. Qed.
Print Assumptions c32_emit_terminates_refuted.

(* "query results equal the sums of the accepted flows in that range" fails for a range ending inside a bucket:
   the one accepted flow is reported with no counts and StartTime 0 - neither reading of the range gives that. *)
Theorem c32_query_sums_refuted :
  let ops := [OpAdd (fl 3 1700068919 5 749); OpList 1700068800 1700068913] in
  let outs := run (new_ring 9 60 1700068800 5 2 false false) ops in
  outs = [OAdd (Some 1700068860); OList [{| a_key := 3; a_cnt := (0, 0); a_start := 0; a_end := 0 |}]]
  /\ ok_trace 9 60 1700068800 ops outs = false.
Proof. vm_compute. split; reflexivity. Qed.
Print Assumptions c32_query_sums_refuted.

(* With the two repairs (fixes/C32-*.patch; variant fw = fa = true) the same three histories satisfy the specification. *)
Example c32_repaired_examples :
  ok_trace 7 10 1000 [OpAdd (fl 1 985 1 1); OpEmit] (run (new_ring 7 10 1000 0 2 true true) [OpAdd (fl 1 985 1 1); OpEmit]) = true
  /\ ok_trace 10 15 1700052810 [OpAdd (fl 0 1700052822 8 1419); OpEmit]
       (run (new_ring 10 15 1700052810 1 2 true true) [OpAdd (fl 0 1700052822 8 1419); OpEmit]) = true
  /\ ok_trace 9 60 1700068800 [OpAdd (fl 3 1700068919 5 749); OpList 1700068800 1700068913]
       (run (new_ring 9 60 1700068800 5 2 true true) [OpAdd (fl 3 1700068919 5 749); OpList 1700068800 1700068913]) = true.
Proof. vm_compute. repeat split; reflexivity. Qed.

(* Non-vacuity: a reachable, consistent ring with late, future and rejected flows, rollovers and an emission. *)
Example c32_example :
  let ops := [OpAdd (fl 1 1005 3 30); OpAdd (fl 2 975 1 10); OpAdd (fl 1 1020 1 1); OpAdd (fl 1 949 1 1); OpEmit;
              OpRollover true; OpList 0 0; OpStats 960 1010] in
  let outs := run (new_ring 8 10 1000 2 2 false false) ops in
  ok_trace 8 10 1000 ops outs = true /\
  outs = [OAdd (Some 1000); OAdd (Some 970); OAdd None; OAdd (Some 940);
          OEmitted [(940, 960, [{| a_key := 1; a_cnt := (1, 1); a_start := 940; a_end := 950 |}]);
                    (960, 980, [{| a_key := 2; a_cnt := (1, 10); a_start := 970; a_end := 980 |}])];
          OEmitted [];
          OList [{| a_key := 1; a_cnt := (3, 30); a_start := 1000; a_end := 1010 |};
                 {| a_key := 2; a_cnt := (1, 10); a_start := 970; a_end := 980 |}];
          OStats (Some [(1%N, (3, 30)); (2%N, (1, 10))])].
Proof. vm_compute. split; reflexivity. Qed.
