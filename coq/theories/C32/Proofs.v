(* C32 — proofs about the model (see Props.v for the statements that matter). *)
From Coq Require Import List ZArith NArith Arith Bool Lia.
From Verif.C32 Require Import Model Spec.
Import ListNotations.
Open Scope Z_scope.

Lemma find_bucket_future_rejected : forall r t, eoh r <= t -> find_bucket r t = None.
Proof.
  intros r t H. unfold find_bucket, eoh in *.
  destruct (b_end (bk r (r_head r)) <=? t) eqn:E; [reflexivity|].
  apply Z.leb_gt in E. lia.
Qed.

(* ---------- ring index arithmetic ---------- *)
Lemma idx_sub_spec : forall n h m, (0 < n)%nat -> (h < n)%nat -> (m <= n)%nat ->
  idx_sub n h m = if (m <=? h)%nat then (h - m)%nat else (h + n - m)%nat.
Proof.
  intros n h m Hn Hh Hm. unfold idx_sub.
  destruct (m <=? h)%nat eqn:E.
  - apply Nat.leb_le in E.
    replace (h + n - m)%nat with ((h - m) + 1 * n)%nat by lia.
    rewrite Nat.mod_add by lia. apply Nat.mod_small. lia.
  - apply Nat.leb_gt in E. apply Nat.mod_small. lia.
Qed.

Lemma idx_add1_spec : forall n h, (0 < n)%nat -> (h < n)%nat ->
  idx_add n h 1 = if (h + 1 =? n)%nat then 0%nat else (h + 1)%nat.
Proof.
  intros n h Hn Hh. unfold idx_add.
  destruct (h + 1 =? n)%nat eqn:E.
  - apply Nat.eqb_eq in E. rewrite E. apply Nat.mod_same. lia.
  - apply Nat.eqb_neq in E. apply Nat.mod_small. lia.
Qed.

Lemma idx_sub_lt : forall n h m, (0 < n)%nat -> (idx_sub n h m < n)%nat.
Proof. intros. unfold idx_sub. apply Nat.mod_upper_bound. lia. Qed.

(* ---------- update_nth ---------- *)
Lemma update_nth_length : forall A (f : A -> A) l i, length (update_nth i f l) = length l.
Proof. induction l; destruct i; simpl; auto. Qed.

Lemma nth_update_nth_same : forall A (f : A -> A) d l i, (i < length l)%nat -> nth i (update_nth i f l) d = f (nth i l d).
Proof. induction l; intros i H; simpl in *; [lia|]. destruct i; simpl; auto. apply IHl. lia. Qed.

Lemma nth_update_nth_other : forall A (f : A -> A) d l i j, i <> j -> nth j (update_nth i f l) d = nth j l d.
Proof.
  induction l; intros i j H; simpl; [destruct i; reflexivity|].
  destruct i, j; simpl; auto; try congruence.
Qed.

(* ---------- ring consistency ---------- *)
(* the `j` newest slots (counting back from the head) hold consecutive intervals ending at the end of history *)
Definition cons_upto (j : nat) (r : ring) : Prop :=
  (2 <= nb r)%nat /\ (r_head r < nb r)%nat /\ 0 < r_interval r /\
  forall m, (m < j)%nat -> (m < nb r)%nat ->
    b_start (bk r (idx_sub (nb r) (r_head r) m)) = eoh r - (Z.of_nat m + 1) * r_interval r /\
    b_end (bk r (idx_sub (nb r) (r_head r) m)) = eoh r - Z.of_nat m * r_interval r.

Definition ring_ok (r : ring) : Prop := cons_upto (nb r) r.

Lemma nb_with_buckets : forall r bs, nb (with_buckets r bs) = length bs. Proof. reflexivity. Qed.

Lemma rollover_core_nb : forall r, nb (rollover_core r) = nb r.
Proof. intros. unfold rollover_core, nb. simpl. apply update_nth_length. Qed.

Lemma rollover_core_buckets : forall r,
  r_buckets (rollover_core r) =
  update_nth (next_idx r (r_head r)) (fun _ => empty_bucket (eoh r) (eoh r + r_interval r)) (r_buckets r).
Proof. reflexivity. Qed.

Lemma rollover_core_head : forall r, r_head (rollover_core r) = next_idx r (r_head r).
Proof. reflexivity. Qed.
Lemma rollover_core_interval : forall r, r_interval (rollover_core r) = r_interval r.
Proof. reflexivity. Qed.

Lemma rollover_cons : forall j r, (1 <= j)%nat -> cons_upto j r -> cons_upto (S j) (rollover_core r).
Proof.
  intros j r Hj (Hn & Hh & Hi & Hc).
  set (n := nb r) in *.
  assert (Hnb : nb (rollover_core r) = n) by apply rollover_core_nb.
  set (h' := next_idx r (r_head r)).
  assert (Hh' : (h' < n)%nat) by (unfold h', next_idx, idx_add; apply Nat.mod_upper_bound; fold n; lia).
  assert (Hbk : forall i, bk (rollover_core r) i =
            if Nat.eqb i h' then empty_bucket (eoh r) (eoh r + r_interval r) else bk r i).
  { intro i. unfold bk. rewrite rollover_core_buckets. fold h'.
    destruct (Nat.eqb i h') eqn:E.
    - apply Nat.eqb_eq in E. subst i. rewrite nth_update_nth_same; [reflexivity|]. exact Hh'.
    - apply Nat.eqb_neq in E. apply nth_update_nth_other. congruence. }
  assert (Heoh : eoh (rollover_core r) = eoh r + r_interval r).
  { unfold eoh at 1. rewrite rollover_core_head. fold h'. rewrite Hbk, Nat.eqb_refl. reflexivity. }
  unfold cons_upto. rewrite Hnb, rollover_core_head, rollover_core_interval. fold h'.
  repeat split; try assumption.
  - rewrite Heoh. destruct m as [|m'].
    + rewrite idx_sub_spec by lia. cbn [Nat.leb]. rewrite Nat.sub_0_r, Hbk, Nat.eqb_refl. cbn [b_start b_end empty_bucket]. lia.
    + assert (Hm' : (m' < j)%nat) by lia. assert (Hm'n : (m' < n)%nat) by lia.
      destruct (Hc m' Hm' Hm'n) as [Hs _].
      assert (Hidx : idx_sub n h' (S m') = idx_sub n (r_head r) m' /\ idx_sub n h' (S m') <> h').
      { unfold h', next_idx. fold n. rewrite idx_add1_spec by lia.
        rewrite (idx_sub_spec n (r_head r) m') by lia.
        destruct (r_head r + 1 =? n)%nat eqn:E1.
        - apply Nat.eqb_eq in E1. rewrite idx_sub_spec by lia.
          destruct (S m' <=? 0)%nat eqn:E2; [apply Nat.leb_le in E2; lia|].
          destruct (m' <=? r_head r)%nat eqn:E3; [apply Nat.leb_le in E3|apply Nat.leb_gt in E3]; lia.
        - apply Nat.eqb_neq in E1. rewrite idx_sub_spec by lia.
          destruct (S m' <=? r_head r + 1)%nat eqn:E2; [apply Nat.leb_le in E2|apply Nat.leb_gt in E2];
          (destruct (m' <=? r_head r)%nat eqn:E3; [apply Nat.leb_le in E3|apply Nat.leb_gt in E3]); lia. }
      destruct Hidx as [Hidx Hne]. rewrite Hbk.
      destruct (Nat.eqb (idx_sub n h' (S m')) h') eqn:E; [apply Nat.eqb_eq in E; congruence|].
      rewrite Hidx, Hs. lia.
  - rewrite Heoh. destruct m as [|m'].
    + rewrite idx_sub_spec by lia. cbn [Nat.leb]. rewrite Nat.sub_0_r, Hbk, Nat.eqb_refl. cbn [b_start b_end empty_bucket]. lia.
    + assert (Hm' : (m' < j)%nat) by lia. assert (Hm'n : (m' < n)%nat) by lia.
      destruct (Hc m' Hm' Hm'n) as [_ He].
      assert (Hidx : idx_sub n h' (S m') = idx_sub n (r_head r) m' /\ idx_sub n h' (S m') <> h').
      { unfold h', next_idx. fold n. rewrite idx_add1_spec by lia.
        rewrite (idx_sub_spec n (r_head r) m') by lia.
        destruct (r_head r + 1 =? n)%nat eqn:E1.
        - apply Nat.eqb_eq in E1. rewrite idx_sub_spec by lia.
          destruct (S m' <=? 0)%nat eqn:E2; [apply Nat.leb_le in E2; lia|].
          destruct (m' <=? r_head r)%nat eqn:E3; [apply Nat.leb_le in E3|apply Nat.leb_gt in E3]; lia.
        - apply Nat.eqb_neq in E1. rewrite idx_sub_spec by lia.
          destruct (S m' <=? r_head r + 1)%nat eqn:E2; [apply Nat.leb_le in E2|apply Nat.leb_gt in E2];
          (destruct (m' <=? r_head r)%nat eqn:E3; [apply Nat.leb_le in E3|apply Nat.leb_gt in E3]); lia. }
      destruct Hidx as [Hidx Hne]. rewrite Hbk.
      destruct (Nat.eqb (idx_sub n h' (S m')) h') eqn:E; [apply Nat.eqb_eq in E; congruence|].
      rewrite Hidx, He. lia.
Qed.

Lemma cons_upto_weaken : forall j j' r, (j' <= j)%nat -> cons_upto j r -> cons_upto j' r.
Proof. intros j j' r H (A & B & C & D). repeat split; auto; intros; apply D; lia. Qed.

Lemma rollover_ok : forall r, ring_ok r -> ring_ok (rollover_core r).
Proof.
  intros r H. unfold ring_ok in *. rewrite rollover_core_nb.
  apply cons_upto_weaken with (j := S (nb r)); [lia|].
  apply rollover_cons; [destruct H; lia|assumption].
Qed.

(* operations that keep head, interval and every slot's interval keep consistency *)
Definition same_frame (r r' : ring) : Prop :=
  nb r' = nb r /\ r_head r' = r_head r /\ r_interval r' = r_interval r /\
  forall i, b_start (bk r' i) = b_start (bk r i) /\ b_end (bk r' i) = b_end (bk r i).

Lemma same_frame_refl : forall r, same_frame r r.
Proof. intros. repeat split; auto. Qed.

Lemma same_frame_trans : forall a b c, same_frame a b -> same_frame b c -> same_frame a c.
Proof.
  intros a b c (A1 & A2 & A3 & A4) (B1 & B2 & B3 & B4). repeat split; try congruence.
  - rewrite (proj1 (B4 i)). apply A4.
  - rewrite (proj2 (B4 i)). apply A4.
Qed.

Lemma same_frame_cons : forall j r r', same_frame r r' -> cons_upto j r -> cons_upto j r'.
Proof.
  intros j r r' (A & B & C & D) (H1 & H2 & H3 & H4).
  assert (E : eoh r' = eoh r) by (unfold eoh; rewrite B; apply D).
  unfold cons_upto. rewrite A, B, C, E. split; [auto|]. split; [auto|]. split; [auto|]. intros m Hm Hmn. split.
  - rewrite (proj1 (D _)). apply H4; auto.
  - rewrite (proj2 (D _)). apply H4; auto.
Qed.

Lemma same_frame_update : forall r i f,
  (forall b, b_start (f b) = b_start b /\ b_end (f b) = b_end b) ->
  same_frame r (with_buckets r (update_nth i f (r_buckets r))).
Proof.
  intros r i f Hf. unfold same_frame. rewrite nb_with_buckets, update_nth_length. repeat split; auto.
  - unfold bk. simpl. destruct (Nat.eq_dec i i0) as [->|Hne].
    + destruct (Nat.lt_ge_cases i0 (length (r_buckets r))).
      * rewrite nth_update_nth_same by assumption. apply Hf.
      * rewrite !nth_overflow; auto. rewrite update_nth_length. assumption.
    + rewrite nth_update_nth_other by assumption. reflexivity.
  - unfold bk. simpl. destruct (Nat.eq_dec i i0) as [->|Hne].
    + destruct (Nat.lt_ge_cases i0 (length (r_buckets r))).
      * rewrite nth_update_nth_same by assumption. apply Hf.
      * rewrite !nth_overflow; auto. rewrite update_nth_length. assumption.
    + rewrite nth_update_nth_other by assumption. reflexivity.
Qed.

Lemma same_frame_with_dia : forall r d, same_frame r (with_dia r d).
Proof. intros. repeat split; auto. Qed.

Lemma add_flow_frame : forall r f, same_frame r (fst (add_flow r f)).
Proof.
  intros r f. unfold add_flow. destruct (find_bucket r (f_start f)); simpl; [|apply same_frame_refl].
  eapply same_frame_trans; [apply (same_frame_with_dia r)|].
  match goal with |- same_frame (with_dia r ?d) _ =>
    apply (same_frame_update (with_dia r d) n (bucket_add f)) end.
  intros b. split; reflexivity.
Qed.

Definition set_pushed (b : bucket) : bucket :=
  {| b_start := b_start b; b_end := b_end b; b_pushed := true; b_keys := b_keys b; b_stats := b_stats b |}.

Lemma mark_pushed_frame : forall idxs r, same_frame r (with_buckets r (mark_pushed (r_buckets r) idxs)).
Proof.
  intros idxs r. unfold mark_pushed.
  assert (G : forall idxs bs, same_frame (with_buckets r bs)
            (with_buckets r (fold_left (fun bs i => update_nth i set_pushed bs) idxs bs))).
  { induction idxs0 as [|i tl IH]; intros bs; simpl; [apply same_frame_refl|].
    eapply same_frame_trans; [|apply IH].
    apply (same_frame_update (with_buckets r bs) i set_pushed). intros b; split; reflexivity. }
  specialize (G idxs (r_buckets r)).
  assert (E : with_buckets r (r_buckets r) = r) by (destruct r; reflexivity).
  rewrite E in G. exact G.
Qed.

Lemma emit_frame : forall r r' sent, emit r = Some (r', sent) -> same_frame r r'.
Proof.
  intros r r' sent H. unfold emit in H.
  destruct (emit_walk r (emit_fuel r) _ _ []) as [cols|]; [|discriminate].
  injection H as <- _.
  set (sent0 := filter _ (rev cols)). clearbody sent0.
  assert (G : forall cs bs, same_frame (with_buckets r bs)
            (with_buckets r (fold_left (fun bs c => mark_pushed bs (c_buckets c)) cs bs))).
  { induction cs as [|c tl IH]; intros bs; simpl; [apply same_frame_refl|].
    eapply same_frame_trans; [|apply IH].
    apply (mark_pushed_frame (c_buckets c) (with_buckets r bs)). }
  specialize (G sent0 (r_buckets r)).
  assert (E : with_buckets r (r_buckets r) = r) by (destruct r; reflexivity).
  rewrite E in G. exact G.
Qed.

Lemma step_ok : forall r o, ring_ok r -> ring_ok (fst (step r o)).
Proof.
  intros r o H. destruct o as [f|[|]| |gte lt|gte lt]; simpl.
  - pose proof (add_flow_frame r f) as F. destruct (add_flow r f) as [r' b]. simpl in *.
    unfold ring_ok. rewrite (proj1 F). eapply same_frame_cons; eauto.
  - pose proof (rollover_ok r H) as H1.
    destruct (emit (rollover_core r)) as [[r2 sent]|] eqn:E; simpl; [|assumption].
    pose proof (emit_frame _ _ _ E) as F. unfold ring_ok. rewrite (proj1 F). eapply same_frame_cons; eauto.
  - apply rollover_ok; assumption.
  - destruct (emit r) as [[r2 sent]|] eqn:E; simpl; [|assumption].
    pose proof (emit_frame _ _ _ E) as F. unfold ring_ok. rewrite (proj1 F). eapply same_frame_cons; eauto.
  - assumption.
  - assumption.
Qed.

Lemma run_state_ok : forall ops r, ring_ok r -> ring_ok (run_state r ops).
Proof. induction ops; intros r H; simpl; [assumption|]. apply IHops. apply step_ok. assumption. Qed.

Lemma iter_rollover_cons : forall k r, cons_upto 1 r -> cons_upto (S k) (Nat.iter k rollover_core r) /\ nb (Nat.iter k rollover_core r) = nb r.
Proof.
  induction k; intros r H; simpl; [split; [assumption|reflexivity]|].
  destruct (IHk r H) as [A B]. split.
  - apply rollover_cons; [lia|assumption].
  - rewrite rollover_core_nb. assumption.
Qed.

Lemma new_ring_ok : forall n interval now p k fw fa,
  (2 <= n)%nat -> 0 < interval -> ring_ok (new_ring n interval now p k fw fa).
Proof.
  intros n interval now p k fw fa Hn Hi. unfold new_ring.
  set (oldest := now + interval - interval * Z.of_nat n).
  set (r0 := {| r_buckets := _ |}).
  assert (Hnb : nb r0 = n).
  { unfold nb, r0. simpl. destruct n as [|n']; [lia|]. simpl. rewrite repeat_length. reflexivity. }
  assert (H0 : cons_upto 1 r0).
  { unfold cons_upto. rewrite Hnb. repeat split; try (simpl; lia).
    - assert (m = 0%nat) by lia. subst m. change (r_head r0) with 0%nat. rewrite idx_sub_spec by lia.
      cbn [Nat.leb Nat.sub]. unfold eoh, bk, r0. cbn [r_buckets r_head r_interval].
      destruct n; [lia|]. cbn [repeat nth empty_bucket b_start b_end]. lia.
    - assert (m = 0%nat) by lia. subst m. change (r_head r0) with 0%nat. rewrite idx_sub_spec by lia.
      cbn [Nat.leb Nat.sub]. unfold eoh, bk, r0. cbn [r_buckets r_head r_interval].
      destruct n; [lia|]. cbn [repeat nth empty_bucket b_start b_end]. lia. }
  destruct (iter_rollover_cons n r0 H0) as [A B].
  unfold ring_ok. rewrite B, Hnb. apply cons_upto_weaken with (j := S n); [lia|assumption].
Qed.

Lemma reachable_ok : forall n interval now p k fw fa ops,
  (2 <= n)%nat -> 0 < interval -> ring_ok (run_state (new_ring n interval now p k fw fa) ops).
Proof. intros. apply run_state_ok. apply new_ring_ok; assumption. Qed.

(* ---------- findBucket ---------- *)
Lemma ring_ok_boh : forall r, ring_ok r -> boh r = eoh r - Z.of_nat (nb r) * r_interval r.
Proof.
  intros r (Hn & Hh & Hi & Hc). unfold boh.
  assert (E : next_idx r (r_head r) = idx_sub (nb r) (r_head r) (nb r - 1)).
  { unfold next_idx. rewrite idx_add1_spec, idx_sub_spec by lia.
    destruct (r_head r + 1 =? nb r)%nat eqn:E1; [apply Nat.eqb_eq in E1|apply Nat.eqb_neq in E1];
    (destruct (nb r - 1 <=? r_head r)%nat eqn:E2; [apply Nat.leb_le in E2|apply Nat.leb_gt in E2]); lia. }
  rewrite E. rewrite (proj1 (Hc (nb r - 1)%nat ltac:(lia) ltac:(lia))).
  replace (Z.of_nat (nb r - 1) + 1) with (Z.of_nat (nb r)) by lia. reflexivity.
Qed.

Lemma in_bucket_iff : forall b t, in_bucket b t = true <-> b_start b <= t < b_end b.
Proof. intros. unfold in_bucket. rewrite andb_true_iff, Z.leb_le, Z.ltb_lt. tauto. Qed.

(* every slot is `m` steps behind the head for exactly one m < n *)
Lemma idx_is_back : forall n h i, (0 < n)%nat -> (h < n)%nat -> (i < n)%nat ->
  exists m, (m < n)%nat /\ idx_sub n h m = i.
Proof.
  intros n h i Hn Hh Hi. destruct (Nat.le_gt_cases i h).
  - exists (h - i)%nat. split; [lia|]. rewrite idx_sub_spec by lia.
    destruct (h - i <=? h)%nat eqn:E; [apply Nat.leb_le in E|apply Nat.leb_gt in E]; lia.
  - exists (h + n - i)%nat. split; [lia|]. rewrite idx_sub_spec by lia.
    destruct (h + n - i <=? h)%nat eqn:E; [apply Nat.leb_le in E|apply Nat.leb_gt in E]; lia.
Qed.

Lemma idx_sub_inj : forall n h m1 m2, (0 < n)%nat -> (h < n)%nat -> (m1 < n)%nat -> (m2 < n)%nat ->
  idx_sub n h m1 = idx_sub n h m2 -> m1 = m2.
Proof.
  intros n h m1 m2 Hn Hh H1 H2. rewrite !idx_sub_spec by lia.
  destruct (m1 <=? h)%nat eqn:E1; [apply Nat.leb_le in E1|apply Nat.leb_gt in E1];
  (destruct (m2 <=? h)%nat eqn:E2; [apply Nat.leb_le in E2|apply Nat.leb_gt in E2]); lia.
Qed.

(* The arithmetic of findBucket: in a consistent ring a time inside the retained history is sent, by the
   division alone (the fallback scan is never reached), to the one slot whose interval contains it. *)
Lemma find_bucket_spec : forall r t, ring_ok r ->
  (boh r <= t < eoh r ->
     exists idx, find_bucket r t = Some idx /\ (idx < nb r)%nat
       /\ idx = idx_sub (nb r) (r_head r) (Z.to_nat ((eoh r - 1 - t) / r_interval r))
       /\ b_start (bk r idx) <= t < b_end (bk r idx)
       /\ b_end (bk r idx) = b_start (bk r idx) + r_interval r
       /\ (b_start (bk r idx) - eoh r) mod r_interval r = 0
       /\ forall j, (j < nb r)%nat -> b_start (bk r j) <= t < b_end (bk r j) -> j = idx)
  /\ (~ (boh r <= t < eoh r) -> find_bucket r t = None).
Proof.
  intros r t Hok. pose proof (ring_ok_boh r Hok) as Hboh.
  destruct Hok as (Hn & Hh & Hi & Hc). split.
  - intros [Hlo Hhi]. unfold find_bucket. fold (eoh r).
    destruct ((eoh r <=? t) || (t <? boh r)) eqn:E.
    { apply orb_true_iff in E. rewrite Z.leb_le, Z.ltb_lt in E. lia. }
    rewrite Z.quot_div_nonneg by lia.
    set (q := (eoh r - 1 - t) / r_interval r).
    assert (Hq : 0 <= q) by (apply Z.div_pos; lia).
    pose proof (Z.mul_div_le (eoh r - 1 - t) (r_interval r) Hi) as Hq1. fold q in Hq1.
    pose proof (Z.mul_succ_div_gt (eoh r - 1 - t) (r_interval r) Hi) as Hq2. fold q in Hq2.
    assert (Hqn : q < Z.of_nat (nb r)) by nia.
    set (m := Z.to_nat q). assert (Hm : (m < nb r)%nat) by lia.
    assert (Hmq : Z.of_nat m = q) by lia.
    destruct (Hc m Hm Hm) as [Hs He]. rewrite Hmq in Hs, He.
    set (idx := idx_sub (nb r) (r_head r) m) in *.
    assert (Hin : b_start (bk r idx) <= t < b_end (bk r idx)) by nia.
    rewrite (proj2 (in_bucket_iff _ _) Hin).
    exists idx. split; [reflexivity|]. split; [apply idx_sub_lt; lia|]. split; [reflexivity|].
    split; [assumption|]. split; [lia|]. split.
    + rewrite Hs. replace (eoh r - (q + 1) * r_interval r - eoh r) with ((- (q + 1)) * r_interval r) by lia.
      apply Z.mod_mul. lia.
    + intros j Hj Hjt. destruct (idx_is_back (nb r) (r_head r) j ltac:(lia) Hh Hj) as (m2 & Hm2 & <-).
      destruct (Hc m2 Hm2 Hm2) as [Hs2 He2]. rewrite Hs2, He2 in Hjt.
      assert (Z.of_nat m2 = q) by nia. assert (m2 = m) by lia. subst m2. reflexivity.
  - intros Hout. unfold find_bucket. fold (eoh r).
    destruct ((eoh r <=? t) || (t <? boh r)) eqn:E; [reflexivity|].
    apply orb_false_iff in E. rewrite Z.leb_gt, Z.ltb_ge in E. lia.
Qed.

(* ---------- conservation at ingestion ---------- *)
Definition stats_total (st : list (N * cnt)) : cnt := fold_right (fun pc acc => cadd (snd pc) acc) czero st.
Definition win_total (ws : list window) : cnt := fold_right (fun w acc => cadd (w_cnt w) acc) czero ws.
Definition dia_total (d : list (N * list window)) : cnt := fold_right (fun kw acc => cadd (win_total (snd kw)) acc) czero d.
Definition ring_total (r : ring) : cnt := fold_right (fun b acc => cadd (stats_total (b_stats b)) acc) czero (r_buckets r).

Lemma cadd_assoc : forall a b c, cadd (cadd a b) c = cadd a (cadd b c).
Proof. intros [a1 a2] [b1 b2] [c1 c2]. unfold cadd. simpl. f_equal; lia. Qed.
Lemma cadd_comm : forall a b, cadd a b = cadd b a.
Proof. intros [a1 a2] [b1 b2]. unfold cadd. simpl. f_equal; lia. Qed.
Lemma cadd_zero_l : forall a, cadd czero a = a.
Proof. intros [a1 a2]. reflexivity. Qed.

Lemma stats_add_total : forall p c st, stats_total (stats_add p c st) = cadd (stats_total st) c.
Proof.
  intros p c st. unfold stats_add. induction st as [|[k v] tl IH]; simpl.
  - apply cadd_comm.
  - destruct (N.eqb p k); simpl.
    + rewrite !cadd_assoc. f_equal. apply cadd_comm.
    + rewrite IH. rewrite cadd_assoc. reflexivity.
Qed.

Lemma win_add_total : forall ws s e c, win_total (win_add ws s e c) = cadd (win_total ws) c.
Proof.
  induction ws as [|w tl IH]; intros s e c; simpl.
  - apply cadd_comm.
  - destruct (s <=? w_start w); [destruct (w_start w =? s)|]; simpl.
    + rewrite !cadd_assoc. f_equal. apply cadd_comm.
    + apply cadd_comm.
    + rewrite IH, cadd_assoc. reflexivity.
Qed.

Lemma dia_update_total : forall k s e c d,
  dia_total (aupdate k (fun o => win_add (match o with Some ws => ws | None => [] end) s e c) d) = cadd (dia_total d) c.
Proof.
  intros k s e c d. induction d as [|[k' ws] tl IH]; simpl.
  - destruct c as [c1 c2]. unfold cadd, czero. simpl. f_equal; lia.
  - destruct (N.eqb k k'); simpl.
    + rewrite win_add_total. rewrite !cadd_assoc. f_equal. apply cadd_comm.
    + rewrite IH, cadd_assoc. reflexivity.
Qed.

Lemma update_nth_total : forall (f : bucket -> bucket) c l i, (i < length l)%nat ->
  stats_total (b_stats (f (nth i l (empty_bucket 0 0)))) = cadd (stats_total (b_stats (nth i l (empty_bucket 0 0)))) c ->
  fold_right (fun b acc => cadd (stats_total (b_stats b)) acc) czero (update_nth i f l)
  = cadd (fold_right (fun b acc => cadd (stats_total (b_stats b)) acc) czero l) c.
Proof.
  induction l as [|x tl IH]; intros i Hi Hf; simpl in *; [lia|].
  destruct i; simpl in *.
  - rewrite Hf. rewrite !cadd_assoc. f_equal. apply cadd_comm.
  - rewrite IH by (auto; lia). rewrite cadd_assoc. reflexivity.
Qed.

(* An accepted flow is added, once, to the statistics of the one bucket whose interval contains its start time and to
   that bucket's window of the key's DiachronicFlow; every other bucket is untouched; a rejected flow changes nothing. *)
Lemma add_flow_counted_once : forall r f r' ob, ring_ok r -> add_flow r f = (r', ob) ->
  match ob with
  | None => ~ (boh r <= f_start f < eoh r) /\ r' = r
  | Some b =>
      boh r <= f_start f < eoh r /\
      exists idx, (idx < nb r)%nat /\ b = b_start (bk r idx) /\ b <= f_start f < b + r_interval r
        /\ (forall j, (j < nb r)%nat -> b_start (bk r j) <= f_start f < b_end (bk r j) -> j = idx)
        /\ bk r' idx = bucket_add f (bk r idx)
        /\ (forall j, j <> idx -> bk r' j = bk r j)
        /\ ring_total r' = cadd (ring_total r) (f_cnt f)
        /\ dia_total (r_dia r') = cadd (dia_total (r_dia r)) (f_cnt f)
  end.
Proof.
  intros r f r' ob Hok H. destruct (find_bucket_spec r (f_start f) Hok) as [Hin Hout].
  unfold add_flow in H.
  destruct (find_bucket r (f_start f)) as [idx|] eqn:E.
  - cbv zeta in H. injection H as <- <-.
    assert (Hr : boh r <= f_start f < eoh r).
    { destruct (Z_le_dec (boh r) (f_start f)) as [A|A]; [destruct (Z_lt_dec (f_start f) (eoh r)) as [B|B]; [lia|]|].
      - assert (X : Some idx = None) by (apply Hout; lia). discriminate.
      - assert (X : Some idx = None) by (apply Hout; lia). discriminate. }
    split; [assumption|].
    destruct (Hin Hr) as (idx' & E' & Hlt & _ & Hrange & Hend & _ & Huniq). injection E' as <-.
    exists idx. split; [assumption|]. split; [reflexivity|]. split; [lia|]. split; [assumption|].
    split; [|split; [|split]].
    + unfold bk. simpl. rewrite nth_update_nth_same by assumption. reflexivity.
    + intros j Hj. unfold bk. simpl. apply nth_update_nth_other. congruence.
    + unfold ring_total. simpl. apply update_nth_total; [assumption|].
      simpl. apply stats_add_total.
    + simpl. apply dia_update_total.
  - injection H as <- <-. split; [|reflexivity].
    intro Hr. destruct (Hin Hr) as (idx' & E' & _). discriminate.
Qed.

(* the model's answer to AddFlow satisfies the specification's acceptance rule (Spec.ok_add) in every consistent ring *)
Lemma add_meets_spec : forall r f log em, ring_ok r ->
  ok_add (nb r) (r_interval r) {| s_eoh := eoh r; s_log := log; s_emitted := em |} f (snd (add_flow r f)) = true.
Proof.
  intros r f log em Hok. pose proof (ring_ok_boh r Hok) as Hboh.
  destruct (add_flow r f) as [r' ob] eqn:E. pose proof (add_flow_counted_once r f r' ob Hok E) as H.
  assert (Hi : 0 < r_interval r) by (destruct Hok as (_ & _ & Hi & _); exact Hi).
  simpl. unfold ok_add, in_history, s_boh, bstart. simpl.
  destruct ob as [b|].
  - destruct H as (Hr & idx & Hlt & Hb & Hrange & Huniq0 & _).
    pose proof (find_bucket_spec r (f_start f) Hok) as [Hin _]. destruct (Hin Hr) as (idx' & _ & Hlt' & _ & Hr' & _ & Hmod & _).
    assert (idx' = idx) by (apply Huniq0; assumption).
    subst idx'. rewrite <- Hb in *.
    assert (Hm : (f_start f - eoh r) mod r_interval r = f_start f - b).
    { replace (f_start f - eoh r) with ((f_start f - b) + (b - eoh r)) by lia.
      rewrite Z.add_mod by lia. rewrite Hmod, Z.add_0_r, Z.mod_mod by lia. apply Z.mod_small. lia. }
    rewrite Hm. rewrite !andb_true_iff, !Z.leb_le, !Z.ltb_lt, Z.eqb_eq. lia.
  - destruct H as [Hn _]. rewrite negb_true_iff, andb_false_iff, Z.leb_gt, Z.ltb_ge. lia.
Qed.
