(* C32 — proofs about the model (see Props.v for the statements that matter). *)
From Coq Require Import List ZArith NArith Arith Bool Lia.
From Verif.C32 Require Import Model Spec.
Import ListNotations.
Open Scope Z_scope.

Lemma find_bucket_future_rejected : forall r t, eoh r <= t -> find_bucket r t = None.
Proof.
  intros r t H. unfold find_bucket, eoh in *.
  destruct (b_end (bk r (r_head r)) <=? t) eqn:E; [reflexivity|].
  apply Z.leb_gt in E. lia.
Qed.
