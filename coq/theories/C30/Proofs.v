(* C30 — proofs. *)
From Coq Require Import List NArith Bool Arith Lia.
From Verif.Common Require Import Packet PolicyRef.
From Verif.C30 Require Import Model Spec.
Import ListNotations.
Open Scope N_scope.

Lemma split_list_nonempty : forall A (size : nat) (l : list A), split_list size l <> [].
Proof.
  intros A size l. destruct l as [|a l]; simpl; [discriminate|].
  discriminate.
Qed.
