(* C30 — executable model of felix/dataplane/windows/policysets/policysets.go
   (protoRuleToHnsRules, protoRulesToHnsRules, convertPolicyToRules, AddOrReplacePolicySet,
   GetPolicySetRules) and of felix/iputils.IntersectCIDRs.  Definitions only.

   Input rules are PolicyRef.rule records (the fields of felix/proto Rule that reach a packet filter),
   IP sets are lists of members as the Windows IP-set cache stores them.  Set ids and policy-set ids are
   numbers (the driver interns the strings). *)
From Coq Require Import List NArith Bool Arith.
From Verif.Common Require Import Packet PolicyRef.
Import ListNotations.
Open Scope N_scope.

(* ------------------------------------------------------------------ HNS ACL rules *)
Inductive hact := HAllow | HBlock | HPass.           (* hns.Allow, hns.Block, policysets.ActionPass *)
Inductive hdir := HIn | HOut.

Definition hact_eqb (a b : hact) : bool :=
  match a, b with HAllow, HAllow | HBlock, HBlock | HPass, HPass => true | _, _ => false end.
Definition hdir_eqb (a b : hdir) : bool :=
  match a, b with HIn, HIn | HOut, HOut => true | _, _ => false end.

Definition PROTO_ANY : N := 256.

Record hrule := mkH {
  h_prio : N;
  h_dir : hdir;
  h_act : hact;
  h_proto : N;                       (* 256 = any *)
  h_laddrs : list cidr;              (* LocalAddresses  ("" = [] = any) *)
  h_raddrs : list cidr;              (* RemoteAddresses *)
  h_lports : list port_range;        (* LocalPorts *)
  h_rports : list port_range         (* RemotePorts *)
}.

Definition with_prio (h : hrule) (p : N) : hrule :=
  mkH p (h_dir h) (h_act h) (h_proto h) (h_laddrs h) (h_raddrs h) (h_lports h) (h_rports h).

Definition BASE_PRIO : N := 1000.     (* PolicyRuleBasePriority *)
Definition U16 : N := 65536.

(* ------------------------------------------------------------------ IP sets as the cache holds them *)
Inductive setcontent :=
| SetNets (members : list cidr)                      (* "10.0.0.1", "10.0.0.0/24" *)
| SetIPPorts (members : list (cidr * N * N)).        (* "<ip>,<proto>:<port>" : address, protocol number, port *)
Definition setstore := list (N * setcontent).

Fixpoint lookup_set (st : setstore) (id : N) : option setcontent :=
  match st with
  | [] => None
  | (k, c) :: rest => if N.eqb k id then Some c else lookup_set rest id
  end.

(* GetIPSetMembers returns nil for an unknown set AND for a set without members *)
Definition set_is_empty (c : setcontent) : bool :=
  match c with SetNets [] | SetIPPorts [] => true | _ => false end.

(* getIPSetAddresses: the members of all the listed sets appended; None = ErrMissingIPSet.
   (A net set queried as ip,port set or vice versa cannot happen: the calc graph types the ids.) *)
Fixpoint get_net_members (st : setstore) (ids : list N) : option (list cidr) :=
  match ids with
  | [] => Some []
  | id :: rest =>
      match lookup_set st id with
      | Some (SetNets (m :: ms)) =>
          match get_net_members st rest with Some r => Some ((m :: ms) ++ r) | None => None end
      | _ => None
      end
  end.
Fixpoint get_ipport_members (st : setstore) (ids : list N) : option (list (cidr * N * N)) :=
  match ids with
  | [] => Some []
  | id :: rest =>
      match lookup_set st id with
      | Some (SetIPPorts (m :: ms)) =>
          match get_ipport_members st rest with Some r => Some ((m :: ms) ++ r) | None => None end
      | _ => None
      end
  end.

(* ------------------------------------------------------------------ iputils.IntersectCIDRs *)
(* ip.MustParseCIDROrIP masks the host bits *)
Definition norm_cidr (c : cidr) : cidr :=
  let sh := addr_width (cidr_ver c) - cidr_len c in
  {| cidr_ver := cidr_ver c; cidr_addr := N.shiftl (N.shiftr (cidr_addr c) sh) sh; cidr_len := cidr_len c |}.

(* one pair of the double loop, on parsed CIDRs *)
Definition isect1 (a b : cidr) : option cidr :=
  if negb (ipver_eqb (cidr_ver a) (cidr_ver b)) then None
  else if N.eqb (cidr_len a) (cidr_len b) then
    (if N.eqb (cidr_addr a) (cidr_addr b) then Some a else None)
  else if N.ltb (cidr_len a) (cidr_len b) then
    (if in_cidr a (cidr_ver b) (cidr_addr b) then Some b else None)
  else
    (if in_cidr b (cidr_ver a) (cidr_addr a) then Some a else None).

Definition opt_list {A} (o : option A) : list A := match o with Some a => [a] | None => [] end.

(* set.Set[ip.CIDR]: no duplicates *)
Fixpoint dedup (l : list cidr) : list cidr :=
  match l with
  | [] => []
  | c :: rest => if existsb (cidr_eqb c) rest then dedup rest else c :: dedup rest
  end.

(* sort.Strings over the textual form "a.b.c.d/len" (IPv4; the Windows dataplane is IPv4 only) *)
Definition dec3 (n : N) : list N :=
  if N.ltb n 10 then [48 + n]
  else if N.ltb n 100 then [48 + n / 10; 48 + n mod 10]
  else [48 + n / 100; 48 + (n / 10) mod 10; 48 + n mod 10].
Definition cidr_text (c : cidr) : list N :=
  let a := cidr_addr c in
  dec3 (N.shiftr a 24 mod 256) ++ [46] ++ dec3 (N.shiftr a 16 mod 256) ++ [46]
  ++ dec3 (N.shiftr a 8 mod 256) ++ [46] ++ dec3 (a mod 256) ++ [47] ++ dec3 (cidr_len c).
Fixpoint bytes_leb (a b : list N) : bool :=
  match a, b with
  | [], _ => true
  | _ :: _, [] => false
  | x :: a', y :: b' => if N.ltb x y then true else if N.ltb y x then false else bytes_leb a' b'
  end.
Fixpoint insert_text (c : cidr) (l : list cidr) : list cidr :=
  match l with
  | [] => [c]
  | d :: rest => if bytes_leb (cidr_text c) (cidr_text d) then c :: d :: rest else d :: insert_text c rest
  end.
Definition sort_text (l : list cidr) : list cidr := fold_right insert_text [] l.

Definition intersect_pairs (xs ys : list cidr) : list cidr :=
  flat_map (fun a => flat_map (fun b => opt_list (isect1 (norm_cidr a) (norm_cidr b))) ys) xs.
Definition intersect_cidrs (xs ys : list cidr) : list cidr :=
  sort_text (dedup (intersect_pairs xs ys)).

(* ------------------------------------------------------------------ helpers of protoRuleToHnsRules *)
Inductive conv_err := ErrNotSupported | ErrRuleIsNoOp | ErrMissingIPSet.
Inductive conv_res := ConvErr (e : conv_err) | ConvOk (rules : list hrule).

(* ruleHasNegativeMatches *)
Definition rule_has_negative_matches (r : rule) : bool :=
  negb (is_nil (r_not_src_nets r)) || negb (is_nil (r_not_dst_nets r))
  || negb (is_nil (r_not_src_ports r)) || negb (is_nil (r_not_dst_ports r))
  || negb (is_nil (r_not_src_ipsets r)) || negb (is_nil (r_not_dst_ipsets r))
  || negb (is_nil (r_not_src_named_ports r)) || negb (is_nil (r_not_dst_named_ports r))
  || match r_not_proto r with Some _ => true | None => false end
  || match r_not_icmp r with Some _ => true | None => false end.

(* filterNets for ipVersion 4: (filtered, filteredAll) *)
Definition is_v4 (c : cidr) : bool := ipver_eqb (cidr_ver c) V4.
Definition filter_nets (nets : list cidr) : list cidr * bool :=
  match nets with
  | [] => ([], false)
  | _ => let f := filter is_v4 nets in (f, is_nil f)
  end.

(* SplitIPList / SplitPortList: chunks of `size`, one empty chunk for the empty list *)
Fixpoint chunks_fuel {A} (fuel size : nat) (l : list A) : list (list A) :=
  match fuel with
  | O => []
  | S f => match l with
           | [] => []
           | _ => firstn size l :: chunks_fuel f size (skipn size l)
           end
  end.
Definition split_list {A} (size : nat) (l : list A) : list (list A) :=
  match l with
  | [] => [[]]
  | _ => chunks_fuel (length l) size l
  end.

(* the DstIpPortSetIds consolidation: one group per distinct (protocol, port) in order of first appearance *)
Fixpoint group_add (a : cidr) (pr po : N) (groups : list (N * N * list cidr)) : list (N * N * list cidr) :=
  match groups with
  | [] => [(pr, po, [a])]
  | (pr', po', addrs) :: rest =>
      if N.eqb pr pr' && N.eqb po po' then (pr', po', addrs ++ [a]) :: rest
      else (pr', po', addrs) :: group_add a pr po rest
  end.
Definition group_members (ms : list (cidr * N * N)) : list (N * N * list cidr) :=
  fold_left (fun g m => group_add (fst (fst m)) (snd (fst m)) (snd m) g) ms [].

Definition dir_of (inbound : bool) : hdir := if inbound then HIn else HOut.

(* addresses of one side: the rule's CIDRs, the IP sets, or their intersection *)
Definition side_addresses (st : setstore) (nets : list cidr) (ids : list N) : conv_res + list cidr :=
  match ids with
  | [] => inr nets
  | _ =>
      match get_net_members st ids with
      | None => inl (ConvErr ErrMissingIPSet)
      | Some members =>
          match nets with
          | [] => inr members
          | _ => match intersect_cidrs nets members with
                 | [] => inl (ConvErr ErrRuleIsNoOp)
                 | l => inr l
                 end
          end
      end
  end.

(* protoRuleToHnsRules *)
Definition rule_to_hns (st : setstore) (inbound : bool) (chunk : nat) (r : rule) : conv_res :=
  match r_ipver r with
  | Some V6 => ConvErr ErrNotSupported
  | _ =>
  if rule_has_negative_matches r then ConvErr ErrNotSupported else
  match r_icmp r with Some _ => ConvErr ErrNotSupported | None =>
  if negb (is_nil (r_src_named_ports r)) || negb (is_nil (r_dst_named_ports r)) then ConvErr ErrNotSupported else
  let '(src_nets, all1) := filter_nets (r_src_nets r) in
  if all1 then ConvErr ErrRuleIsNoOp else
  (* NotSrcNet / NotDstNet are empty here *)
  let '(dst_nets, all2) := filter_nets (r_dst_nets r) in
  if all2 then ConvErr ErrRuleIsNoOp else
  match (match r_action r with
         | Allow => Some HAllow | Deny => Some HBlock | Pass => Some HPass | Log => None end) with
  | None => ConvErr ErrNotSupported
  | Some act =>
  let dir := dir_of inbound in
  match r_dst_ipport_sets r with
  | _ :: _ =>
      match get_ipport_members st (r_dst_ipport_sets r) with
      | None => ConvErr ErrMissingIPSet
      | Some ms =>
          ConvOk (map (fun g => mkH BASE_PRIO dir act (fst (fst g)) [] (snd g) [] [(snd (fst g), snd (fst g))])
                      (group_members ms))
      end
  | [] =>
  let proto := match r_proto r with Some n => n mod U16 | None => PROTO_ANY end in
  match side_addresses st src_nets (r_src_ipsets r) with
  | inl e => e
  | inr src_addrs =>
  match side_addresses st dst_nets (r_dst_ipsets r) with
  | inl e => e
  | inr dst_addrs =>
  let laddrs := if inbound then dst_addrs else src_addrs in
  let raddrs := if inbound then src_addrs else dst_addrs in
  let lports := if inbound then r_dst_ports r else r_src_ports r in
  let rports := if inbound then r_src_ports r else r_dst_ports r in
  ConvOk
    (flat_map (fun la =>
       flat_map (fun lp =>
         flat_map (fun ra =>
           map (fun rp => mkH BASE_PRIO dir act proto la ra lp rp)
               (split_list chunk rports))
           (split_list chunk raddrs))
         (split_list chunk lports))
       (split_list chunk laddrs))
  end end end end end end.

(* protoRulesToHnsRules: every error skips the rule *)
Definition rules_to_hns (st : setstore) (inbound : bool) (chunk : nat) (rs : list rule) : list hrule :=
  flat_map (fun r => match rule_to_hns st inbound chunk r with ConvOk l => l | ConvErr _ => [] end) rs.

(* A policy or profile as Felix receives it: inbound and outbound rules. *)
Record polset := { ps_in : list rule; ps_out : list rule }.

(* convertPolicyToRules / AddOrReplacePolicySet: the members of a policy set *)
Definition convert_policy (st : setstore) (chunk : nat) (p : polset) : list hrule :=
  rules_to_hns st true chunk (ps_in p) ++ rules_to_hns st false chunk (ps_out p).

(* GetPolicySetRules, without static rules.  State of the loop: current priority (uint16), action of the
   last rule emitted.  An unknown set id stops the loop (`break`). *)
Fixpoint emit_members (dir : hdir) (ms : list hrule) (prio : N) (last : option hact)
  : list hrule * N * option hact :=
  match ms with
  | [] => ([], prio, last)
  | m :: rest =>
      if negb (hdir_eqb (h_dir m) dir) then emit_members dir rest prio last
      else
        let prio' := match last with
                     | Some a => if hact_eqb a (h_act m) then prio else (prio + 1) mod U16
                     | None => prio
                     end in
        let '(out, p2, l2) := emit_members dir rest prio' (Some (h_act m)) in
        (with_prio m prio' :: out, p2, l2)
  end.

(* the tier's set ids, looked up in policySetIdToPolicySet: None = unknown id *)
Fixpoint emit_sets (dir : hdir) (sets : list (option (list hrule))) (prio : N) (last : option hact) : list hrule * N :=
  match sets with
  | [] => ([], prio)
  | None :: _ => ([], prio)
  | Some ms :: rest =>
      let '(out, p2, l2) := emit_members dir ms prio last in
      let '(out2, p3) := emit_sets dir rest p2 l2 in
      (out ++ out2, p3)
  end.

Definition get_policy_set_rules (sets : list (option (list hrule))) (inbound end_of_tier_drop : bool) : list hrule :=
  let dir := dir_of inbound in
  let '(out, prio) := emit_sets dir sets BASE_PRIO None in
  out ++ [mkH ((prio + 1) mod U16) dir (if end_of_tier_drop then HBlock else HPass) PROTO_ANY [] [] [] []].

(* One tier (or the profile list) end to end: every policy set the policy manager was told about is added
   under its own id (AddOrReplacePolicySet), then the tier's ids are asked for in order.  `present = false`
   stands for an id the policy manager never added (staged policies never reach AddOrReplacePolicySet). *)
Definition tier_sets (st : setstore) (chunk : nat) (pols : list (bool * polset)) : list (option (list hrule)) :=
  map (fun bp : bool * polset => if fst bp then Some (convert_policy st chunk (snd bp)) else None) pols.

Definition tier_hns (st : setstore) (chunk : nat) (pols : list (bool * polset)) (inbound eot_drop : bool) : list hrule :=
  get_policy_set_rules (tier_sets st chunk pols) inbound eot_drop.

Definition CHUNK : nat := 4000.       (* ipPortsPerRule in protoRulesToHnsRules *)
