(* C30 — endpoint level, part C: the per-tier lists, the reference composition, the final list. *)
From Coq Require Import List NArith Bool Arith Lia.
From Verif.Common Require Import Packet PolicyRef.
From Verif.C30 Require Import Model Spec ProofsCidr ProofsRule ProofsTier EndModel EndSpec EndProofsA EndProofsB WfProofs.
Import ListNotations.
Open Scope N_scope.
Arguments N.modulo : simpl never.
Arguments N.add : simpl never.
Arguments intersect_cidrs : simpl never.

(* ------------------------------------------------------------------ one GetPolicySetRules list *)
Lemma strip_forall : forall (P : hrule -> Prop) a b, map strip a = map strip b ->
  Forall (fun h => P (strip h)) b -> Forall (fun h => P (strip h)) a.
Proof.
  induction a as [|x a IH]; intros [|y b] H Hb; try discriminate; [constructor|].
  cbn [map] in H. assert (Hxy : strip x = strip y) by congruence. assert (Hab : map strip a = map strip b) by congruence.
  inversion Hb; subst. constructor; [rewrite Hxy; assumption|]. eapply IH; eassumption.
Qed.

Definition eot_act (eot : bool) : hact := if eot then HBlock else HPass.

Lemma tier_first_act_gen : forall st chunk pols inbound eot p,
  wf_sets st = true -> (chunk <> 0)%nat ->
  forallb (fun bp : bool * polset => fst bp) pols = true ->
  N.of_nat (count_rules (tier_sets st chunk pols)) < 64000 ->
  forallb (fun bp : bool * polset => forallb (supported_rule inbound) (dir_rules inbound (snd bp))) pols = true ->
  packet_ok p = true ->
  first_act inbound p (tier_hns st chunk pols inbound eot)
  = act_of_verdict (policies_verdict (sets_sem st) (map (mkpol inbound) pols) p) (Some (eot_act eot))
  /\ Forall (fun h => h_dir h = dir_of inbound) (tier_hns st chunk pols inbound eot).
Proof.
  intros st chunk pols inbound eot p Hwf Hc Hpres Hcount Hsup Hp.
  unfold tier_hns, get_policy_set_rules.
  rewrite (tier_sets_all st chunk pols Hpres) in *. rewrite count_rules_all in Hcount.
  set (lists := map (fun bp : bool * polset => convert_policy st chunk (snd bp)) pols) in *.
  rewrite emit_sets_all.
  destruct (emit_members (dir_of inbound) (concat lists) BASE_PRIO None) as [[out p2] l2] eqn:E.
  assert (Hb : BASE_PRIO + N.of_nat (length (concat lists)) < U16) by (unfold BASE_PRIO, U16; lia).
  destruct (emit_members_spec _ _ _ _ _ _ _ E Hb) as (I1 & I2 & I3 & I4 & _ & I6).
  fold (eot_rule ((p2 + 1) mod U16) inbound eot).
  split.
  - rewrite (first_act_strip inbound p _ (filter (dirb (dir_of inbound)) (concat lists) ++ [eot_rule ((p2 + 1) mod U16) inbound eot])).
    2:{ rewrite !map_app, I6. reflexivity. }
    rewrite filter_concat. unfold lists. rewrite map_map.
    rewrite (map_ext _ (fun bp : bool * polset => rules_to_hns st inbound chunk (dir_rules inbound (snd bp))))
      by (intros; apply filter_dir_convert).
    rewrite (policies_first_act st inbound chunk p _ pols Hwf Hc Hp Hsup).
    unfold first_act at 1. cbn [find]. rewrite eot_matches. reflexivity.
  - apply Forall_app. split.
    + apply (strip_forall (fun h => h_dir h = dir_of inbound) out (filter (dirb (dir_of inbound)) (concat lists)) I6).
      apply Forall_forall. intros h Hh. apply filter_In in Hh as [_ Hh]. unfold dirb in Hh.
      cbn. destruct (h_dir h), (dir_of inbound); simpl in Hh; congruence.
    + constructor; [reflexivity|constructor].
Qed.

(* ------------------------------------------------------------------ policies without Pass *)
Lemma policy_verdict_no_pass : forall s rs p,
  existsb (fun r => match r_action r with Pass => true | _ => false end) rs = false -> policy_verdict s rs p <> VPass.
Proof.
  induction rs as [|r rs IH]; intros p H; cbn [policy_verdict]; [discriminate|].
  cbn [existsb] in H. apply orb_false_iff in H as [H1 H2].
  destruct (rule_matches s r p); [|apply IH; exact H2].
  destruct (r_action r); try discriminate; [apply IH; exact H2].
Qed.

Lemma policies_verdict_no_pass : forall s inbound pols p,
  existsb (fun bp : bool * polset => has_pass inbound (snd bp)) pols = false ->
  policies_verdict s (map (mkpol inbound) pols) p <> VPass.
Proof.
  induction pols as [|bp pols IH]; intros p H; cbn [map policies_verdict]; [discriminate|].
  cbn [existsb] in H. apply orb_false_iff in H as [H1 H2].
  change (pol_rules (mkpol inbound bp)) with (dir_rules inbound (snd bp)).
  pose proof (policy_verdict_no_pass s (dir_rules inbound (snd bp)) p H1) as Hn.
  destruct (policy_verdict s (dir_rules inbound (snd bp)) p); try discriminate; try congruence. apply IH. exact H2.
Qed.

(* profiles without Pass rules: first decision, else deny *)
Lemma profiles_verdict_no_pass : forall s inbound (profiles : list polset) p,
  existsb (has_pass inbound) profiles = false ->
  profiles_verdict s (map (dir_rules inbound) profiles) p
  = match policies_verdict s (map (mkpol inbound) (map (fun ps => (true, ps)) profiles)) p with
    | VAllow => VAllow | _ => VDeny end.
Proof.
  induction profiles as [|ps profiles IH]; intros p H; [reflexivity|].
  cbn [existsb] in H. apply orb_false_iff in H as [H1 H2].
  cbn [map profiles_verdict policies_verdict]. change (pol_rules (mkpol inbound (true, ps))) with (dir_rules inbound ps).
  pose proof (policy_verdict_no_pass s (dir_rules inbound ps) p H1) as Hn.
  destruct (policy_verdict s (dir_rules inbound ps) p); try reflexivity; try congruence. apply IH. exact H2.
Qed.

(* ------------------------------------------------------------------ the reference, by live tiers *)
Fixpoint seq_ref (acts : list hact) (fallback : hact) : hact :=
  match acts with
  | [] => fallback
  | a :: rest => match a with HPass => seq_ref rest fallback | _ => a end
  end.

Definition tier_act (st : setstore) (inbound : bool) (p : packet) (t : tierspec) : hact :=
  expected st (tier_pols inbound t) inbound (negb (ts_default_pass t)) p.

Definition profiles_act (st : setstore) (inbound : bool) (profiles : list polset) (p : packet) : hact :=
  match profiles_verdict (sets_sem st) (map (dir_rules inbound) profiles) p with VAllow => HAllow | _ => HBlock end.

Lemma enforced_nil_verdict : forall s t p, t_policies t = [] -> tier_verdict s t p = VPass.
Proof. intros s t p H. unfold tier_verdict. rewrite H. reflexivity. Qed.

Lemma ep_expected_live : forall st tiers profiles inbound p,
  ep_expected st tiers profiles inbound p
  = seq_ref (map (tier_act st inbound p) (live_tiers inbound tiers)) (profiles_act st inbound profiles p).
Proof.
  intros st tiers profiles inbound p. unfold ep_expected, profiles_act, ref_tiers, live_tiers.
  induction tiers as [|t tiers IH]; [reflexivity|].
  cbn [map endpoint_verdict filter].
  destruct (tier_pols inbound t) as [|bp0 pols0] eqn:Ep.
  - cbn [is_nil negb]. rewrite enforced_nil_verdict by reflexivity. exact IH.
  - assert (Ht : tier_act st inbound p t
                = hact_of_verdict (tier_verdict (sets_sem st) (ref_tier (bp0 :: pols0) inbound (negb (ts_default_pass t))) p)
                                  (negb (ts_default_pass t)))
      by (unfold tier_act, expected; rewrite Ep; reflexivity).
    cbn [is_nil negb map seq_ref]. rewrite Ht.
    destruct (tier_verdict (sets_sem st) (ref_tier (bp0 :: pols0) inbound (negb (ts_default_pass t))) p) eqn:Ev;
      cbn [hact_of_verdict].
    + reflexivity.
    + reflexivity.
    + exact IH.
    + (* VNoMatch is never the verdict of a tier *)
      exfalso. unfold tier_verdict in Ev.
      destruct (enforced (t_policies (ref_tier (bp0 :: pols0) inbound (negb (ts_default_pass t))))); [discriminate|].
      destruct (policies_verdict (sets_sem st) (p0 :: l) p); try discriminate.
      destruct (t_default (ref_tier (bp0 :: pols0) inbound (negb (ts_default_pass t)))); discriminate.
Qed.

(* ------------------------------------------------------------------ sequences of acts *)
Lemma seq_tiers_app_last : forall acts aL, aL <> HPass ->
  seq_tiers (map Some (acts ++ [aL])) = Some (seq_ref acts aL).
Proof.
  induction acts as [|a acts IH]; intros aL H.
  - cbn. destruct aL; try reflexivity. congruence.
  - specialize (IH aL H). cbn [app map]. destruct (acts ++ [aL]) as [|b l] eqn:E; [destruct acts; discriminate|].
    cbn [map] in *. change (seq_tiers (Some a :: Some b :: map Some l)) with (after_pass (Some a) (seq_tiers (Some b :: map Some l))).
    rewrite IH. cbn [seq_ref after_pass]. destruct a; reflexivity.
Qed.

Lemma seq_ref_app_closed : forall acts aL fb, aL <> HPass -> seq_ref (acts ++ [aL]) fb = seq_ref acts aL.
Proof.
  induction acts as [|a acts IH]; intros aL fb H; cbn [app seq_ref].
  - destruct aL; try reflexivity. congruence.
  - destruct a; try reflexivity. apply IH. exact H.
Qed.

(* ------------------------------------------------------------------ one direction of one endpoint *)
Lemma expected_eq : forall st pols inbound eot p, pols <> [] ->
  forallb (fun bp : bool * polset => fst bp) pols = true ->
  Some (expected st pols inbound eot p)
  = act_of_verdict (policies_verdict (sets_sem st) (map (mkpol inbound) pols) p) (Some (eot_act eot)).
Proof.
  intros st pols inbound eot p Hne Hpres. unfold expected, tier_verdict, ref_tier. cbn [t_policies t_default].
  change (map (fun bp : bool * polset => {| pol_staged := negb (fst bp); pol_rules := dir_rules inbound (snd bp) |}) pols)
    with (map (mkpol inbound) pols).
  rewrite (enforced_all inbound pols Hpres).
  destruct pols as [|bp0 pols0]; [congruence|]. cbn [map].
  change (mkpol inbound bp0 :: map (mkpol inbound) pols0) with (map (mkpol inbound) (bp0 :: pols0)).
  destruct (policies_verdict (sets_sem st) (map (mkpol inbound) (bp0 :: pols0)) p); destruct eot; reflexivity.
Qed.

Lemma forallb_flat_map_in : forall A B (f : B -> bool) (g : A -> list B) l x,
  forallb f (flat_map g l) = true -> In x l -> forallb f (g x) = true.
Proof.
  induction l as [|a l IH]; intros x H Hin; [contradiction|]. cbn [flat_map] in H. rewrite forallb_app in H.
  apply andb_true_iff in H as [H1 H2]. destruct Hin as [<-|Hin]; auto.
Qed.

Lemma wf_hb_wf_h : forall h, wf_hb h = true -> wf_h h.
Proof. intros h H. apply andb_true_iff in H as [H1 H2]. split; apply wf_cidr4_ok4; assumption. Qed.

Lemma act_of_verdict_some : forall v a, act_of_verdict v (Some a) <> None.
Proof. destruct v; discriminate. Qed.

Lemma dir_flat : forall st chunk tiers profiles inbound p,
  ep_domain st chunk tiers profiles inbound = true -> lists_wf st chunk tiers profiles inbound = true ->
  packet_ok p = true ->
  exists flat, flatten_tiers true (dir_lists st chunk tiers profiles inbound) = Some flat
               /\ wf_list inbound flat
               /\ first_act inbound p flat = Some (ep_expected st tiers profiles inbound p).
Proof.
  intros st chunk tiers profiles inbound p Hd Hlw Hp.
  unfold ep_domain in Hd.
  apply andb_true_iff in Hd as [Hd Hclosed]. apply andb_true_iff in Hd as [Hd Hprofpass].
  apply andb_true_iff in Hd as [Hd Hpres]. apply andb_true_iff in Hd as [Hd Hsmall].
  apply andb_true_iff in Hd as [Hd Hrules]. apply andb_true_iff in Hd as [Hwf Hchunk].
  assert (Hc : (chunk <> 0)%nat) by (intros ->; discriminate Hchunk).
  apply negb_true_iff in Hprofpass.
  unfold rules_ok in Hrules. apply andb_true_iff in Hrules as [Hrt Hrp].
  unfold lists_small in Hsmall. apply andb_true_iff in Hsmall as [Hst Hsp].
  set (live := live_tiers inbound tiers) in *.
  set (tl := fun t => tier_hns st chunk (tier_pols inbound t) inbound (negb (ts_default_pass t))).
  set (P := tier_hns st chunk (map (fun ps => (true, ps)) profiles) inbound true).
  (* facts about one live tier *)
  assert (Hlive : forall t, In t live ->
            first_act inbound p (tl t) = Some (tier_act st inbound p t)
            /\ Forall (fun h => h_dir h = dir_of inbound) (tl t)).
  { intros t Ht. unfold live, live_tiers in Ht. apply filter_In in Ht as [Hin Hne].
    assert (Hne' : tier_pols inbound t <> []) by (destruct (tier_pols inbound t); [discriminate|discriminate]).
    assert (Hpr : forallb (fun bp : bool * polset => fst bp) (tier_pols inbound t) = true)
      by (apply (forallb_flat_map_in _ _ _ (tier_pols inbound) tiers t Hpres Hin)).
    assert (Hsu : forallb (fun bp : bool * polset => forallb (supported_rule inbound) (dir_rules inbound (snd bp))) (tier_pols inbound t) = true)
      by (apply (forallb_flat_map_in _ _ _ (tier_pols inbound) tiers t Hrt Hin)).
    rewrite forallb_forall in Hst. pose proof (Hst t Hin) as Hct. apply N.ltb_lt in Hct.
    destruct (tier_first_act_gen st chunk (tier_pols inbound t) inbound (negb (ts_default_pass t)) p Hwf Hc Hpr Hct Hsu Hp) as [Hf Hdir].
    split; [|exact Hdir]. unfold tl. rewrite Hf. symmetry. unfold tier_act. apply expected_eq; assumption. }
  (* the profile list *)
  assert (HP : first_act inbound p P = Some (profiles_act st inbound profiles p)
               /\ Forall (fun h => h_dir h = dir_of inbound) P /\ profiles_act st inbound profiles p <> HPass).
  { assert (Hpr : forallb (fun bp : bool * polset => fst bp) (map (fun ps => (true, ps)) profiles) = true)
      by (rewrite forallb_forall; intros bp Hb; apply in_map_iff in Hb as [ps [<- _]]; reflexivity).
    assert (Hsu : forallb (fun bp : bool * polset => forallb (supported_rule inbound) (dir_rules inbound (snd bp)))
                          (map (fun ps => (true, ps)) profiles) = true).
    { rewrite forallb_forall in *. intros bp Hb. apply in_map_iff in Hb as [ps [<- Hps]]. apply Hrp. exact Hps. }
    apply N.ltb_lt in Hsp.
    destruct (tier_first_act_gen st chunk (map (fun ps => (true, ps)) profiles) inbound true p Hwf Hc Hpr Hsp Hsu Hp) as [Hf Hdir].
    unfold profiles_act. rewrite (profiles_verdict_no_pass _ inbound profiles p Hprofpass).
    assert (Hnp : policies_verdict (sets_sem st) (map (mkpol inbound) (map (fun ps => (true, ps)) profiles)) p <> VPass).
    { apply policies_verdict_no_pass. rewrite existsb_map'. exact Hprofpass. }
    split; [|split; [exact Hdir|]].
    - unfold P. rewrite Hf.
      destruct (policies_verdict (sets_sem st) (map (mkpol inbound) (map (fun ps => (true, ps)) profiles)) p); try reflexivity; congruence.
    - destruct (policies_verdict (sets_sem st) (map (mkpol inbound) (map (fun ps => (true, ps)) profiles)) p); discriminate. }
  destruct HP as [HPf [HPd HPn]].
  (* wf of every list, from the checked guard and the directions *)
  assert (Hwl : forall l, In l (dir_lists st chunk tiers profiles inbound) ->
                  Forall (fun h => h_dir h = dir_of inbound) l -> wf_list inbound l).
  { intros l Hl Hdir. unfold lists_wf in Hlw. rewrite forallb_forall in Hlw. specialize (Hlw l Hl).
    rewrite forallb_forall in Hlw. unfold wf_list. rewrite Forall_forall in *. intros h Hh. split; [apply Hdir; exact Hh|].
    apply wf_hb_wf_h. apply Hlw. exact Hh. }
  rewrite ep_expected_live. fold live.
  unfold dir_lists in *. fold live in Hwl |- *. fold tl in Hwl |- *. fold P in Hwl |- *.
  assert (Enil : is_nil (map tl live) = is_nil live) by (destruct live; reflexivity).
  rewrite Enil in *.
  destruct (is_nil live || negb (existsb ts_is_default live)) eqn:Eapp.
  - (* profiles appended *)
    destruct (flatten_tiers_sem inbound p (map tl live ++ [P])) as [flat [Ef [Wf Ff]]].
    + destruct (map tl live); discriminate.
    + apply Forall_forall. intros l Hl. apply Hwl; [exact Hl|]. apply in_app_or in Hl as [Hl|[<-|[]]]; [|exact HPd].
      apply in_map_iff in Hl as [t [<- Ht]]. apply Hlive. exact Ht.
    + apply Forall_forall. intros l Hl. apply in_app_or in Hl as [Hl|[<-|[]]]; [|rewrite HPf; discriminate].
      apply in_map_iff in Hl as [t [<- Ht]]. rewrite (proj1 (Hlive t Ht)). discriminate.
    + exists flat. split; [exact Ef|]. split; [exact Wf|]. rewrite Ff.
      rewrite map_app, map_map. cbn [map]. rewrite HPf.
      rewrite (map_ext_in _ (fun t => Some (tier_act st inbound p t))) by (intros t Ht; apply Hlive; exact Ht).
      rewrite <- (map_map (tier_act st inbound p) Some).
      change [Some (profiles_act st inbound profiles p)] with (map Some [profiles_act st inbound profiles p]).
      rewrite <- map_app. apply seq_tiers_app_last. exact HPn.
  - (* the default tier applies: the last live tier is closed *)
    apply orb_false_iff in Eapp as [Enl Edef].
    unfold last_tier_closed in Hclosed. fold live in Hclosed. rewrite Enl, Edef in Hclosed. cbn [orb] in Hclosed.
    assert (Hne : live <> []) by (destruct live; [discriminate|discriminate]).
    destruct (exists_last Hne) as [live' [tL Elive]].
    rewrite Elive in Hclosed. rewrite last_last in Hclosed.
    apply andb_true_iff in Hclosed as [Hdp Hnopass]. apply negb_true_iff in Hdp, Hnopass.
    assert (HtL : In tL live) by (rewrite Elive; apply in_or_app; right; left; reflexivity).
    assert (HaL : tier_act st inbound p tL <> HPass).
    { intros Heq. unfold tier_act in Heq.
      unfold live, live_tiers in HtL. apply filter_In in HtL as [Hin Hnn].
      assert (Hne2 : tier_pols inbound tL <> []) by (destruct (tier_pols inbound tL); [discriminate Hnn|discriminate]).
      pose proof (forallb_flat_map_in _ _ _ (tier_pols inbound) tiers tL Hpres Hin) as Hpr.
      pose proof (policies_verdict_no_pass (sets_sem st) inbound (tier_pols inbound tL) p Hnopass) as Hn.
      pose proof (expected_eq st _ inbound (negb (ts_default_pass tL)) p Hne2 Hpr) as He.
      rewrite Heq, Hdp in He. cbn [negb eot_act] in He.
      destruct (policies_verdict (sets_sem st) (map (mkpol inbound) (tier_pols inbound tL)) p); try discriminate He; congruence. }
    destruct (flatten_tiers_sem inbound p (map tl live)) as [flat [Ef [Wf Ff]]].
    + destruct live; [congruence|discriminate].
    + apply Forall_forall. intros l Hl. apply Hwl; [exact Hl|].
      apply in_map_iff in Hl as [t [<- Ht]]. apply Hlive. exact Ht.
    + apply Forall_forall. intros l Hl. apply in_map_iff in Hl as [t [<- Ht]]. rewrite (proj1 (Hlive t Ht)). discriminate.
    + exists flat. split; [exact Ef|]. split; [exact Wf|]. rewrite Ff, map_map.
      rewrite (map_ext_in _ (fun t => Some (tier_act st inbound p t))) by (intros t Ht; apply Hlive; exact Ht).
      rewrite <- (map_map (tier_act st inbound p) Some). rewrite Elive, map_app. cbn [map].
      rewrite seq_tiers_app_last by exact HaL. f_equal. symmetry. apply seq_ref_app_closed. exact HaL.
Qed.

(* ------------------------------------------------------------------ lists_wf follows from the domain *)
Lemma supported_nets : forall inbound r, supported_rule inbound r = true ->
  forallb wf_cidr4 (r_src_nets r) = true /\ forallb wf_cidr4 (r_dst_nets r) = true.
Proof.
  intros inbound r H. unfold supported_rule, supported_criteria in H.
  apply andb_true_iff in H as [H _]. apply andb_true_iff in H as [H _].
  apply andb_true_iff in H as [H _]. apply andb_true_iff in H as [H Hd]. apply andb_true_iff in H as [_ Hs]. split; assumption.
Qed.

Lemma rules_to_hns_wf : forall st b chunk inbound rs, wf_sets st = true ->
  forallb (supported_rule inbound) rs = true -> Forall (fun h => wf_hb h = true) (rules_to_hns st b chunk rs).
Proof.
  intros st b chunk inbound rs Hwf Hs. unfold rules_to_hns. apply Forall_forall. intros h Hh.
  apply in_flat_map in Hh as [r [Hr Hh]]. rewrite forallb_forall in Hs. destruct (supported_nets inbound r (Hs r Hr)) as [H1 H2].
  destruct (rule_to_hns st b chunk r) as [e|l] eqn:E; [contradiction|].
  pose proof (rule_to_hns_wf st b chunk r l Hwf H1 H2 E) as Hl. rewrite Forall_forall in Hl. auto.
Qed.

Lemma tier_hns_wfb : forall st chunk pols inbound eot,
  wf_sets st = true ->
  forallb (fun bp : bool * polset => fst bp) pols = true ->
  N.of_nat (count_rules (tier_sets st chunk pols)) < 64000 ->
  forallb (fun bp : bool * polset => forallb (supported_rule inbound) (dir_rules inbound (snd bp))) pols = true ->
  forallb wf_hb (tier_hns st chunk pols inbound eot) = true.
Proof.
  intros st chunk pols inbound eot Hwf Hpres Hcount Hsup.
  unfold tier_hns, get_policy_set_rules.
  rewrite (tier_sets_all st chunk pols Hpres) in *. rewrite count_rules_all in Hcount.
  set (lists := map (fun bp : bool * polset => convert_policy st chunk (snd bp)) pols) in *.
  rewrite emit_sets_all.
  destruct (emit_members (dir_of inbound) (concat lists) BASE_PRIO None) as [[out p2] l2] eqn:E.
  assert (Hb : BASE_PRIO + N.of_nat (length (concat lists)) < U16) by (unfold BASE_PRIO, U16; lia).
  destruct (emit_members_spec _ _ _ _ _ _ _ E Hb) as (_ & _ & _ & _ & _ & I6).
  rewrite forallb_app. apply andb_true_iff. split; [|reflexivity].
  apply forallb_forall. apply Forall_forall.
  apply (strip_forall (fun h => wf_hb h = true) out (filter (dirb (dir_of inbound)) (concat lists)) I6).
  rewrite filter_concat. unfold lists. rewrite map_map.
  rewrite (map_ext _ (fun bp : bool * polset => rules_to_hns st inbound chunk (dir_rules inbound (snd bp))))
    by (intros; apply filter_dir_convert).
  apply Forall_forall. intros h Hh. apply in_concat in Hh as [l [Hl Hh]]. apply in_map_iff in Hl as [bp [<- Hbp]].
  rewrite forallb_forall in Hsup.
  pose proof (rules_to_hns_wf st inbound chunk inbound _ Hwf (Hsup bp Hbp)) as Hw. rewrite Forall_forall in Hw.
  change (wf_hb (strip h)) with (wf_hb h). auto.
Qed.

Lemma lists_wf_from_domain : forall st chunk tiers profiles inbound,
  ep_domain st chunk tiers profiles inbound = true -> lists_wf st chunk tiers profiles inbound = true.
Proof.
  intros st chunk tiers profiles inbound Hd. unfold ep_domain in Hd.
  apply andb_true_iff in Hd as [Hd _]. apply andb_true_iff in Hd as [Hd _].
  apply andb_true_iff in Hd as [Hd Hpres]. apply andb_true_iff in Hd as [Hd Hsmall].
  apply andb_true_iff in Hd as [Hd Hrules]. apply andb_true_iff in Hd as [Hwf _].
  unfold rules_ok in Hrules. apply andb_true_iff in Hrules as [Hrt Hrp].
  unfold lists_small in Hsmall. apply andb_true_iff in Hsmall as [Hst Hsp].
  assert (HT : forall t, In t (live_tiers inbound tiers) ->
            forallb wf_hb (tier_hns st chunk (tier_pols inbound t) inbound (negb (ts_default_pass t))) = true).
  { intros t Ht. unfold live_tiers in Ht. apply filter_In in Ht as [Hin _].
    rewrite forallb_forall in Hst. pose proof (Hst t Hin) as Hct. apply N.ltb_lt in Hct.
    apply tier_hns_wfb; auto.
    - apply (forallb_flat_map_in _ _ _ (tier_pols inbound) tiers t Hpres Hin).
    - apply (forallb_flat_map_in _ _ _ (tier_pols inbound) tiers t Hrt Hin). }
  assert (HPf : forallb wf_hb (tier_hns st chunk (map (fun ps => (true, ps)) profiles) inbound true) = true).
  { apply N.ltb_lt in Hsp. apply tier_hns_wfb; auto.
    - rewrite forallb_forall. intros bp Hb. apply in_map_iff in Hb as [ps [<- _]]. reflexivity.
    - rewrite forallb_forall in *. intros bp Hb. apply in_map_iff in Hb as [ps [<- Hps]]. apply Hrp. exact Hps. }
  unfold lists_wf, dir_lists.
  destruct (is_nil _ || negb _).
  - rewrite forallb_app. apply andb_true_iff. split; [|cbn [forallb]; rewrite HPf; reflexivity].
    apply forallb_forall. intros l Hl. apply in_map_iff in Hl as [t [<- Ht]]. apply HT. exact Ht.
  - apply forallb_forall. intros l Hl. apply in_map_iff in Hl as [t [<- Ht]]. apply HT. exact Ht.
Qed.

(* ------------------------------------------------------------------ the final list *)
Lemma hns_gives_filter_eq : forall l l' inbound p a,
  filter (fun h => hmatch inbound h p) l = filter (fun h => hmatch inbound h p) l' ->
  hns_gives l inbound p a = hns_gives l' inbound p a.
Proof. intros. unfold hns_gives, winners. rewrite H. reflexivity. Qed.

Lemma switch_rules_app : forall a b, switch_rules (a ++ b) = switch_rules a ++ switch_rules b.
Proof. intros. unfold switch_rules. rewrite filter_app, map_app. reflexivity. Qed.
Lemma host_rules_app : forall a b, host_rules (a ++ b) = host_rules a ++ host_rules b.
Proof. intros. unfold host_rules. rewrite filter_app, map_app. reflexivity. Qed.
Lemma switch_rules_tagged : forall l, switch_rules (map (fun h => (RSwitch, h)) l) = l.
Proof. induction l; [reflexivity|]. unfold switch_rules in *. cbn. f_equal. exact IHl. Qed.
Lemma host_rules_tagged : forall l, host_rules (map (fun h => (RSwitch, h)) l) = [].
Proof. induction l; [reflexivity|]. unfold host_rules in *. cbn. exact IHl. Qed.

Lemma filter_other_dir : forall inbound p l, Forall (fun h => h_dir h = dir_of (negb inbound)) l ->
  filter (fun h => hmatch inbound h p) l = [].
Proof.
  intros inbound p l H. apply filter_none. eapply Forall_impl; [|exact H]. intros h Hh. rewrite hmatch_eq, Hh.
  destruct inbound; reflexivity.
Qed.

Lemma wf_list_dir : forall inbound l, wf_list inbound l -> Forall (fun h => h_dir h = dir_of inbound) l.
Proof. intros inbound l H. eapply Forall_impl; [|exact H]. intros h [? _]. assumption. Qed.

Lemma strip_dir_forall : forall d a b, map strip a = map strip b ->
  Forall (fun h => h_dir h = d) b -> Forall (fun h => h_dir h = d) a.
Proof. intros d a b H Hb. apply (strip_forall (fun h => h_dir h = d) a b H). exact Hb. Qed.

(* first-match verdict of the re-prioritised flat list, evaluated by priority *)
Lemma rewritten_gives : forall inbound p flat a, wf_list inbound flat ->
  BASE_PRIO + N.of_nat (length flat) < U16 -> first_act inbound p flat = Some a ->
  hns_gives (rewrite_priorities MAX_PRIO flat) inbound p a = true
  /\ Forall (fun h => h_dir h = dir_of inbound) (rewrite_priorities MAX_PRIO flat).
Proof.
  intros inbound p flat a Hw Hb Hf.
  destruct (rewrite_priorities_spec inbound MAX_PRIO flat Hw Hb) as [H1 [H2 H3]].
  assert (Hpw : pw (rewrite_priorities MAX_PRIO flat)).
  { destruct (Nat.leb (length flat) 1) eqn:E; [|apply H2; reflexivity].
    rewrite (H1 eq_refl). destruct flat as [|x [|y l]]; [exact I|split; [constructor|exact I]|discriminate E]. }
  split.
  - rewrite <- (first_act_strip inbound p _ _ H3) in Hf. unfold first_act in Hf.
    destruct (find (fun h => hmatch inbound h p) (rewrite_priorities MAX_PRIO flat)) as [h|] eqn:Ef; [|discriminate].
    cbn in Hf. injection Hf as <-. apply first_match_wins; assumption.
  - apply (strip_dir_forall _ _ _ H3). apply wf_list_dir. exact Hw.
Qed.

Lemma host_layer_allows : forall inbound nhp p,
  hns_gives [snd (host_rule true nhp); snd (host_rule false nhp)] inbound p HAllow = true.
Proof.
  intros [] [] p; unfold hns_gives, winners, host_rule; cbn [snd filter];
    rewrite !hmatch_eq; cbn; reflexivity.
Qed.

Lemma length_final_ge : forall l x, (length l <= length (map (fun h : hrule => (RSwitch, h)) l ++ [x]))%nat.
Proof. intros. rewrite app_length, map_length. lia. Qed.

Lemma renumber_all_length : forall l q, length (renumber_all l q) = length l.
Proof. induction l; intros; cbn [renumber_all length]; [reflexivity|]. rewrite IHl. reflexivity. Qed.
Lemma renumber_groups_length : forall l q a, length (renumber_groups l q a) = length l.
Proof. induction l; intros; cbn [renumber_groups length]; [reflexivity|]. rewrite IHl. reflexivity. Qed.
Lemma rewrite_priorities_length : forall limit l, length (rewrite_priorities limit l) = length l.
Proof.
  intros limit l. destruct l as [|h [|h2 l]]; [reflexivity|reflexivity|]. rewrite rewrite_priorities_cons2.
  destruct (N.ltb _ _); cbn [length]; [rewrite renumber_all_length|rewrite renumber_groups_length]; reflexivity.
Qed.

Theorem endpoint_same_verdict : forall st chunk tiers profiles host nhp final inbound p,
  ep_domain st chunk tiers profiles true = true -> ep_domain st chunk tiers profiles false = true ->
  endpoint_rules true st chunk tiers profiles host nhp = Some final ->
  fits_prio final = true -> ep_packet_ok host inbound p = true ->
  ep_gives final inbound p (ep_expected st tiers profiles inbound p) = true.
Proof.
  intros st chunk tiers profiles host nhp final inbound p Di Do Hfin Hfit Hpk.
  pose proof (lists_wf_from_domain _ _ _ _ _ Di) as Wi. pose proof (lists_wf_from_domain _ _ _ _ _ Do) as Wo.
  unfold ep_packet_ok in Hpk. apply andb_true_iff in Hpk as [Hp Hnode].
  destruct (dir_flat st chunk tiers profiles true p Di Wi Hp) as [fi [Efi [Wfi Ffi]]].
  destruct (dir_flat st chunk tiers profiles false p Do Wo Hp) as [fo [Efo [Wfo Ffo]]].
  unfold endpoint_rules, dir_final in Hfin. rewrite Efi, Efo in Hfin. injection Hfin as <-.
  unfold fits_prio in Hfit. apply N.ltb_lt in Hfit.
  rewrite !app_length, !map_length, !rewrite_priorities_length in Hfit.
  assert (Bi : BASE_PRIO + N.of_nat (length fi) < U16) by (unfold BASE_PRIO, U16; lia).
  assert (Bo : BASE_PRIO + N.of_nat (length fo) < U16) by (unfold BASE_PRIO, U16; lia).
  destruct (rewritten_gives true p fi _ Wfi Bi Ffi) as [Gi Dri].
  destruct (rewritten_gives false p fo _ Wfo Bo Ffo) as [Go Dro].
  set (ri := rewrite_priorities MAX_PRIO fi) in *. set (ro := rewrite_priorities MAX_PRIO fo) in *.
  unfold ep_gives. apply andb_true_iff. split.
  - (* switch layer *)
    rewrite !switch_rules_app, !switch_rules_tagged.
    assert (Hn : filter (fun h => hmatch inbound h p) (switch_rules (node_rule host)) = []).
    { unfold node_rule. destruct host as [|c host]; [reflexivity|]. unfold switch_rules. cbn [filter is_switch fst map snd].
      rewrite hmatch_eq. cbn [h_dir h_proto h_laddrs h_raddrs h_lports h_rports].
      unfold not_from_node in Hnode. destruct inbound; [|reflexivity]. cbn [negb orb] in Hnode.
      apply negb_true_iff in Hnode. cbn [dir_of hdir_eqb andb]. unfold field_ok at 2. cbn [is_nil orb rem_addr].
      change (existsb (fun c0 => in4 c0 (pk_src p)) (c :: host)) with (existsb (fun c0 => in_cidr c0 V4 (pk_src p)) (c :: host)).
      rewrite Hnode. rewrite !andb_false_r. reflexivity. }
    assert (Hh : forall b, switch_rules [host_rule b nhp] = []) by reflexivity.
    rewrite !Hh, !app_nil_r.
    destruct inbound.
    + rewrite (hns_gives_filter_eq _ ri true p); [exact Gi|].
      rewrite !filter_app, Hn, (filter_other_dir true p ro Dro), app_nil_r. reflexivity.
    + rewrite (hns_gives_filter_eq _ ro false p); [exact Go|].
      rewrite !filter_app, Hn, (filter_other_dir false p ri Dri). reflexivity.
  - (* host layer *)
    rewrite !host_rules_app, !host_rules_tagged.
    assert (Hnh : host_rules (node_rule host) = []) by (unfold node_rule; destruct host; reflexivity).
    rewrite Hnh. cbn [app]. apply host_layer_allows.
Qed.
