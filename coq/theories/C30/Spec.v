(* C30 — specification: how HNS evaluates an ACL list, what the policy means (Common/PolicyRef.v), the
   domain of "supported" rules, and the boolean oracle applied to the IMPLEMENTATION's rule lists. *)
From Coq Require Import List NArith Bool Arith.
From Verif.Common Require Import Packet PolicyRef.
From Verif.C30 Require Import Model.
Import ListNotations.
Open Scope N_scope.

(* ------------------------------------------------------------------ meaning of the IP-set cache *)
(* A net set contains an address when one of its member CIDRs does; an ip,port set contains
   (address, protocol, port) when it has that member. *)
Definition sets_sem (st : setstore) : ipsets :=
  fun id m =>
    match lookup_set st id, m with
    | Some (SetNets cs), MemIP a => existsb (fun c => in_cidr c V4 a) cs
    | Some (SetIPPorts ms), MemIPPort a pr po =>
        existsb (fun e => in_cidr (fst (fst e)) V4 a && N.eqb (snd (fst e)) pr && N.eqb (snd e) po) ms
    | _, _ => false
    end.

(* ------------------------------------------------------------------ HNS ACL evaluation *)
(* An endpoint ACL is evaluated per direction.  Inbound: local = destination, remote = source.
   Outbound: local = source, remote = destination.  An empty address/port field matches anything,
   protocol 256 matches any protocol. *)
Definition addrs_ok (cs : list cidr) (a : N) : bool := is_nil cs || existsb (fun c => in_cidr c V4 a) cs.
Definition hports_ok (rs : list port_range) (p : N) : bool := is_nil rs || in_ranges rs p.

Definition hmatch (inbound : bool) (h : hrule) (p : packet) : bool :=
  let '(la, lp, ra, rp) := if inbound then (pk_dst p, pk_dport p, pk_src p, pk_sport p)
                           else (pk_src p, pk_sport p, pk_dst p, pk_dport p) in
  hdir_eqb (h_dir h) (dir_of inbound)
  && (N.eqb (h_proto h) PROTO_ANY || N.eqb (h_proto h) (pk_proto p))
  && addrs_ok (h_laddrs h) la && addrs_ok (h_raddrs h) ra
  && hports_ok (h_lports h) lp && hports_ok (h_rports h) rp.

(* the lowest priority number among the matching rules *)
Definition min_prio (rules : list hrule) : option N :=
  fold_right (fun h acc => match acc with None => Some (h_prio h) | Some m => Some (N.min (h_prio h) m) end) None rules.

(* The rules that can win: matching, with the lowest priority number.  HNS's own tie-break among them is
   not relied upon. *)
Definition winners (rules : list hrule) (inbound : bool) (p : packet) : list hrule :=
  let ms := filter (fun h => hmatch inbound h p) rules in
  match min_prio ms with
  | None => []
  | Some m => filter (fun h => N.eqb (h_prio h) m) ms
  end.

(* "evaluating by priority gives verdict a": some rule can win and every rule that can win has action a *)
Definition hns_gives (rules : list hrule) (inbound : bool) (p : packet) (a : hact) : bool :=
  let w := winners rules inbound p in
  negb (is_nil w) && forallb (fun h => hact_eqb (h_act h) a) w.

(* a deterministic evaluator: first winner in list order *)
Definition hns_eval (rules : list hrule) (inbound : bool) (p : packet) : option hact :=
  match winners rules inbound p with [] => None | h :: _ => Some (h_act h) end.

(* ------------------------------------------------------------------ the policy side *)
Definition dir_rules (inbound : bool) (ps : polset) : list rule := if inbound then ps_in ps else ps_out ps.

Definition ref_tier (pols : list (bool * polset)) (inbound eot_drop : bool) : tier :=
  {| t_policies := map (fun bp : bool * polset => {| pol_staged := negb (fst bp); pol_rules := dir_rules inbound (snd bp) |}) pols;
     t_default := if eot_drop then DefaultDeny else DefaultPass |}.

Definition hact_of_verdict (v : verdict) (eot_drop : bool) : hact :=
  match v with
  | VAllow => HAllow | VDeny => HBlock | VPass => HPass
  | VNoMatch => if eot_drop then HBlock else HPass
  end.

(* what PolicyRef says about one tier (or the profile list, with eot_drop = true) *)
Definition expected (st : setstore) (pols : list (bool * polset)) (inbound eot_drop : bool) (p : packet) : hact :=
  hact_of_verdict (tier_verdict (sets_sem st) (ref_tier pols inbound eot_drop) p) eot_drop.

(* ------------------------------------------------------------------ the domain *)
(* Rules that use only criteria the Windows dataplane supports.  `Log` is in the domain: skipping a log rule
   is what the reference semantics does.  A services rule (dst_ip_port_set_ids) must carry nothing else and
   is an egress rule; at most one IP-set id per side. *)
Definition le1 {A} (l : list A) : bool := match l with [] | [_] => true | _ => false end.
Definition wf_cidr4 (c : cidr) : bool := negb (is_v4 c) || N.leb (cidr_len c) 32.

(* every criterion used is one the Windows dataplane supports (oracle domain) *)
Definition supported_criteria (r : rule) : bool :=
  negb (rule_has_negative_matches r)
  && match r_icmp r with None => true | Some _ => false end
  && is_nil (r_src_named_ports r) && is_nil (r_dst_named_ports r)
  && le1 (r_src_ipsets r) && le1 (r_dst_ipsets r) && le1 (r_dst_ipport_sets r)
  && forallb wf_cidr4 (r_src_nets r) && forallb wf_cidr4 (r_dst_nets r)
  && match r_proto r with Some n => N.ltb n 256 | None => true end.
(* a services rule is an egress rule *)
Definition services_egress_only (inbound : bool) (r : rule) : bool :=
  is_nil (r_dst_ipport_sets r) || negb inbound.
(* ... and, as policysets.go assumes ("DstIpPortSetIds are mutually exclusive with other fields"), carries nothing else *)
Definition services_alone (r : rule) : bool :=
  is_nil (r_dst_ipport_sets r)
  || (match r_proto r with None => true | Some _ => false end
      && is_nil (r_src_nets r) && is_nil (r_dst_nets r) && is_nil (r_src_ports r) && is_nil (r_dst_ports r)
      && is_nil (r_src_ipsets r) && is_nil (r_dst_ipsets r)).
Definition supported_rule (inbound : bool) (r : rule) : bool :=
  supported_criteria r && services_egress_only inbound r && services_alone r.
(* what the oracle is applied to: the API does allow protocol / source criteria beside destination services *)
Definition oracle_rule (inbound : bool) (r : rule) : bool :=
  supported_criteria r && services_egress_only inbound r
  && (is_nil (r_dst_ipport_sets r) || (is_nil (r_dst_nets r) && is_nil (r_dst_ports r) && is_nil (r_dst_ipsets r))).

Definition wf_setcontent (c : setcontent) : bool :=
  match c with
  | SetNets cs => forallb (fun c => is_v4 c && N.leb (cidr_len c) 32) cs
  | SetIPPorts ms => forallb (fun e => is_v4 (fst (fst e)) && N.eqb (cidr_len (fst (fst e))) 32
                                       && N.ltb (snd (fst e)) 256) ms
  end.
Definition wf_sets (st : setstore) : bool := forallb (fun e => wf_setcontent (snd e)) st.

(* the number of rules stays far below the uint16 priority range *)
Definition count_rules (l : list (option (list hrule))) : nat :=
  fold_right (fun o n => match o with Some ms => (length ms + n)%nat | None => n end) O l.

Definition sets_domain (st : setstore) (chunk : nat) (pols : list (bool * polset)) : bool :=
  wf_sets st && negb (Nat.eqb chunk 0)
  && negb (is_nil pols) && forallb (fun bp : bool * polset => fst bp) pols
  && N.ltb (N.of_nat (count_rules (tier_sets st chunk pols))) 64000.
(* domain of the theorem: supported rules, at least one policy, and every policy of the tier is known to the
   policy manager (endpoint_mgr.go asks for a tier only when it has policies) *)
Definition in_domain (st : setstore) (chunk : nat) (pols : list (bool * polset)) (inbound : bool) : bool :=
  sets_domain st chunk pols
  && forallb (fun bp : bool * polset => forallb (supported_rule inbound) (dir_rules inbound (snd bp))) pols.
(* domain of the oracle: wider.  Services rules may carry a protocol and source criteria, and the tier may name
   policies the policy manager never added: endpoint_mgr.go passes every policy id of the tier to GetPolicySetRules,
   including staged policies, which policy_mgr.go never adds (the reference semantics ignores staged policies). *)
Definition in_oracle_domain (st : setstore) (chunk : nat) (pols : list (bool * polset)) (inbound : bool) : bool :=
  wf_sets st && negb (Nat.eqb chunk 0)
  && N.ltb (N.of_nat (count_rules (tier_sets st chunk pols))) 64000
  && forallb (fun bp : bool * polset => forallb (oracle_rule inbound) (dir_rules inbound (snd bp))) pols.

Definition packet_ok (p : packet) : bool :=
  ipver_eqb (pk_ver p) V4 && N.ltb (pk_src p) (2 ^ 32) && N.ltb (pk_dst p) (2 ^ 32).

(* ------------------------------------------------------------------ oracle on implementation output *)
Definition ok_rules (st : setstore) (pols : list (bool * polset)) (inbound eot_drop : bool)
           (impl : list hrule) (pkts : list packet) : bool :=
  forallb (fun p => negb (packet_ok p) || hns_gives impl inbound p (expected st pols inbound eot_drop p)) pkts.

(* structural comparison *)
Definition cidrs_eqb (a b : list cidr) : bool :=
  Nat.eqb (length a) (length b) && forallb (fun xy => cidr_eqb (fst xy) (snd xy)) (combine a b).
Definition ranges_eqb (a b : list port_range) : bool :=
  Nat.eqb (length a) (length b)
  && forallb (fun xy => N.eqb (fst (fst xy)) (fst (snd xy)) && N.eqb (snd (fst xy)) (snd (snd xy))) (combine a b).
Definition hrule_eqb (a b : hrule) : bool :=
  N.eqb (h_prio a) (h_prio b) && hdir_eqb (h_dir a) (h_dir b) && hact_eqb (h_act a) (h_act b)
  && N.eqb (h_proto a) (h_proto b)
  && cidrs_eqb (h_laddrs a) (h_laddrs b) && cidrs_eqb (h_raddrs a) (h_raddrs b)
  && ranges_eqb (h_lports a) (h_lports b) && ranges_eqb (h_rports a) (h_rports b).
Definition hrules_eqb (a b : list hrule) : bool :=
  Nat.eqb (length a) (length b) && forallb (fun xy => hrule_eqb (fst xy) (snd xy)) (combine a b).

(* the implementation keeps the address text: compare CIDRs after masking host bits *)
Definition canon_rule (h : hrule) : hrule :=
  mkH (h_prio h) (h_dir h) (h_act h) (h_proto h) (map norm_cidr (h_laddrs h)) (map norm_cidr (h_raddrs h))
      (h_lports h) (h_rports h).

(* ------------------------------------------------------------------ short constructors for the driver *)
Definition C4 (a l : N) : cidr := {| cidr_ver := V4; cidr_addr := a; cidr_len := l |}.
Definition C6 (a l : N) : cidr := {| cidr_ver := V6; cidr_addr := a; cidr_len := l |}.
Definition PK (proto src dst sport dport : N) : packet :=
  {| pk_ver := V4; pk_proto := proto; pk_src := src; pk_dst := dst; pk_sport := sport; pk_dport := dport;
     pk_icmp_type := 0; pk_icmp_code := 0; pk_in := []; pk_out := []; pk_ct := CtNew; pk_mark := 0 |}.
(* a rule with positive, supported criteria only *)
Definition RS (a : action) (v : option ipver) (pr : option N) (sn : list cidr) (sp : list port_range)
           (dn : list cidr) (dp : list port_range) (ss ds ips : list N) : rule :=
  {| r_action := a; r_ipver := v; r_proto := pr; r_src_nets := sn; r_src_ports := sp; r_src_named_ports := [];
     r_dst_nets := dn; r_dst_ports := dp; r_dst_named_ports := []; r_icmp := None;
     r_src_ipsets := ss; r_dst_ipsets := ds; r_dst_ipport_sets := ips;
     r_not_proto := None; r_not_src_nets := []; r_not_src_ports := []; r_not_dst_nets := []; r_not_dst_ports := [];
     r_not_icmp := None; r_not_src_ipsets := []; r_not_dst_ipsets := [];
     r_not_src_named_ports := []; r_not_dst_named_ports := [] |}.
Definition PS (i o : list rule) : polset := {| ps_in := i; ps_out := o |}.

(* ------------------------------------------------------------------ correspondence cases *)
Record case := mkCase {
  c_sets : setstore;
  c_chunk : N;                         (* chunk size (4000 in protoRulesToHnsRules) *)
  c_pols : list (bool * polset);       (* present?, rules *)
  c_inbound : bool;
  c_eot_drop : bool;
  c_impl : list hrule;                 (* GetPolicySetRules output of the implementation *)
  c_pkts : list packet
}.

Definition check_case (c : case) : bool * bool :=
  (hrules_eqb (map canon_rule (tier_hns (c_sets c) (N.to_nat (c_chunk c)) (c_pols c) (c_inbound c) (c_eot_drop c)))
              (map canon_rule (c_impl c)),
   negb (in_oracle_domain (c_sets c) (N.to_nat (c_chunk c)) (c_pols c) (c_inbound c))
   || ok_rules (c_sets c) (c_pols c) (c_inbound c) (c_eot_drop c) (c_impl c) (c_pkts c)).

(* rule-level cases: protoRuleToHnsRules called directly with a small chunk size *)
Inductive impl_res := IErr (e : conv_err) | IOk (rules : list hrule).
Record rcase := mkRCase {
  rc_sets : setstore; rc_chunk : N; rc_rule : rule; rc_inbound : bool;
  rc_impl : impl_res; rc_pkts : list packet
}.
Definition conv_err_eqb (a b : conv_err) : bool :=
  match a, b with
  | ErrNotSupported, ErrNotSupported | ErrRuleIsNoOp, ErrRuleIsNoOp | ErrMissingIPSet, ErrMissingIPSet => true
  | _, _ => false
  end.
(* oracle for one rule: some produced HNS rule matches  <->  the policy rule matches (errors = no rules) *)
Definition impl_rules (i : impl_res) : list hrule := match i with IOk l => l | IErr _ => [] end.
Definition rule_in_domain (st : setstore) (chunk : nat) (inbound : bool) (r : rule) : bool :=
  wf_sets st && negb (Nat.eqb chunk 0) && oracle_rule inbound r
  && match r_action r with Log => false | _ => true end.
Definition check_rcase (c : rcase) : bool * bool :=
  (match rule_to_hns (rc_sets c) (rc_inbound c) (N.to_nat (rc_chunk c)) (rc_rule c), rc_impl c with
   | ConvErr e, IErr e' => conv_err_eqb e e'
   | ConvOk l, IOk l' => hrules_eqb (map canon_rule l) (map canon_rule l')
   | _, _ => false
   end,
   negb (rule_in_domain (rc_sets c) (N.to_nat (rc_chunk c)) (rc_inbound c) (rc_rule c))
   || forallb (fun p => negb (packet_ok p)
                        || Bool.eqb (existsb (fun h => hmatch (rc_inbound c) h p) (impl_rules (rc_impl c)))
                                    (rule_matches (sets_sem (rc_sets c)) (rc_rule c) p))
              (rc_pkts c)).

(* one checker for both kinds of case *)
Inductive anycase := TierCase (c : case) | RuleCase (c : rcase).
Definition check_any (c : anycase) : bool * bool :=
  match c with TierCase c => check_case c | RuleCase c => check_rcase c end.
