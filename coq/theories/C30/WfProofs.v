(* C30 — every CIDR in the rules GetPolicySetRules hands out is well formed (length <= 32), given well-formed inputs. *)
From Coq Require Import List NArith Bool Arith Lia.
From Verif.Common Require Import Packet PolicyRef.
From Verif.C30 Require Import Model Spec ProofsCidr ProofsRule ProofsTier EndModel EndSpec EndProofsA.
Import ListNotations.
Open Scope N_scope.
Arguments intersect_cidrs : simpl never.
Arguments N.modulo : simpl never.
Arguments N.add : simpl never.

Notation F := (forallb wf_cidr4).

Lemma ok4_wf_cidr4 : forall c, ok4 c -> wf_cidr4 c = true.
Proof.
  intros c H. unfold wf_cidr4, is_v4. destruct (ipver_eqb (cidr_ver c) V4) eqn:E; [|reflexivity].
  apply ipver_eqb_eq in E. cbn. apply N.leb_le. apply H. exact E.
Qed.
Lemma Forall_ok4_F : forall l, Forall ok4 l -> F l = true.
Proof. intros l H. apply forallb_forall. rewrite Forall_forall in H. intros c Hc. apply ok4_wf_cidr4. auto. Qed.

Lemma F_filter : forall f l, F l = true -> F (filter f l) = true.
Proof. intros f l H. rewrite forallb_forall in *. intros c Hc. apply filter_In in Hc. apply H. tauto. Qed.

Lemma filter_nets_F : forall nets f a, filter_nets nets = (f, a) -> F nets = true -> F f = true.
Proof.
  intros nets f a H Hn. unfold filter_nets in H. destruct nets as [|c nets]; [injection H as <- _; reflexivity|].
  cbv zeta in H. injection H as <- _. change (F (filter is_v4 (c :: nets)) = true). apply F_filter. exact Hn.
Qed.

Lemma get_net_members_F : forall st ids ms, wf_sets st = true -> get_net_members st ids = Some ms -> F ms = true.
Proof.
  intros st ids. induction ids as [|id ids IH]; intros ms Hwf H; cbn [get_net_members] in H; [injection H as <-; reflexivity|].
  destruct (lookup_set st id) as [[[|m cs]|?]|] eqn:El; try discriminate.
  destruct (get_net_members st ids) as [r|]; [|discriminate]. injection H as <-.
  change (F ((m :: cs) ++ r) = true). rewrite forallb_app. rewrite (IH r Hwf eq_refl), andb_true_r.
  apply Forall_ok4_F. apply wf_nets_ok4. eapply lookup_wf; eassumption.
Qed.

Lemma side_addresses_F : forall st nets ids l, wf_sets st = true -> F nets = true ->
  side_addresses st nets ids = inr l -> F l = true.
Proof.
  intros st nets ids l Hwf Hn H. unfold side_addresses in H. destruct ids as [|id ids]; [injection H as <-; exact Hn|].
  destruct (get_net_members st (id :: ids)) as [ms|] eqn:Em; [|discriminate].
  pose proof (get_net_members_F _ _ _ Hwf Em) as Hm.
  destruct nets as [|c nets]; [injection H as <-; exact Hm|].
  destruct (intersect_cidrs (c :: nets) ms) as [|i il] eqn:Ei; [discriminate|]. injection H as <-. rewrite <- Ei.
  apply Forall_ok4_F. apply intersect_cidrs_ok4; apply wf_cidr4_ok4; assumption.
Qed.

Lemma in_firstn : forall A n (l : list A) x, In x (firstn n l) -> In x l.
Proof. induction n; intros l x H; [contradiction|]. destruct l; [contradiction|]. destruct H as [<-|H]; [left; reflexivity|right; auto]. Qed.
Lemma in_skipn : forall A n (l : list A) x, In x (skipn n l) -> In x l.
Proof. induction n; intros l x H; [exact H|]. destruct l; [contradiction|]. right. auto. Qed.

Lemma chunks_fuel_sub : forall A fuel n (l c : list A) x, In c (chunks_fuel fuel n l) -> In x c -> In x l.
Proof.
  induction fuel as [|f IH]; intros n l c x Hc Hx; [contradiction|]. cbn [chunks_fuel] in Hc.
  destruct l as [|a l]; [contradiction|]. destruct Hc as [<-|Hc].
  - eapply in_firstn; eassumption.
  - eapply in_skipn. eapply IH; eassumption.
Qed.
Lemma split_list_sub : forall A n (l c : list A) x, In c (split_list n l) -> In x c -> In x l.
Proof.
  intros A n l c x Hc Hx. unfold split_list in Hc. destruct l as [|a l].
  - destruct Hc as [<-|[]]. contradiction.
  - eapply chunks_fuel_sub; eassumption.
Qed.
Lemma split_list_F : forall n l c, F l = true -> In c (split_list n l) -> F c = true.
Proof. intros n l c H Hc. rewrite forallb_forall in *. intros x Hx. apply H. eapply split_list_sub; eassumption. Qed.

Lemma cross_F : forall prio dir act proto (n : nat) la ra (lp rp : list port_range), F la = true -> F ra = true ->
  Forall (fun h => wf_hb h = true)
    (flat_map (fun a => flat_map (fun b => flat_map (fun c =>
        map (fun d => mkH prio dir act proto a c b d) (split_list n rp)) (split_list n ra)) (split_list n lp)) (split_list n la)).
Proof.
  intros. apply Forall_forall. intros h Hh.
  apply in_flat_map in Hh as [a [Ha Hh]]. apply in_flat_map in Hh as [b [_ Hh]].
  apply in_flat_map in Hh as [c [Hc Hh]]. apply in_map_iff in Hh as [d [<- _]].
  unfold wf_hb. cbn [h_laddrs h_raddrs]. rewrite (split_list_F n la a), (split_list_F n ra c); auto.
Qed.

(* the services consolidation keeps the member addresses *)
Lemma group_add_F : forall a pa pb g, wf_cidr4 a = true -> Forall (fun e : N * N * list cidr => F (snd e) = true) g ->
  Forall (fun e : N * N * list cidr => F (snd e) = true) (group_add a pa pb g).
Proof.
  induction g as [|[[pr po] addrs] g IH]; intros Ha H; cbn [group_add].
  - constructor; [cbn; rewrite Ha; reflexivity|constructor].
  - inversion H; subst. destruct (N.eqb pa pr && N.eqb pb po).
    + constructor; [|assumption]. cbn [snd] in *. rewrite forallb_app, H2. cbn. rewrite Ha. reflexivity.
    + constructor; [assumption|]. apply IH; assumption.
Qed.
Lemma group_members_F : forall ms, Forall (fun m : cidr * N * N => wf_cidr4 (fst (fst m)) = true) ms ->
  Forall (fun e : N * N * list cidr => F (snd e) = true) (group_members ms).
Proof.
  intros ms H. unfold group_members.
  assert (G : forall ms g, Forall (fun m : cidr * N * N => wf_cidr4 (fst (fst m)) = true) ms ->
              Forall (fun e : N * N * list cidr => F (snd e) = true) g ->
              Forall (fun e : N * N * list cidr => F (snd e) = true)
                     (fold_left (fun g m => group_add (fst (fst m)) (snd (fst m)) (snd m) g) ms g)).
  { clear. induction ms as [|m ms IH]; intros g Hm Hg; cbn [fold_left]; [exact Hg|].
    inversion Hm; subst. apply IH; [assumption|]. apply group_add_F; assumption. }
  apply G; [exact H|constructor].
Qed.

Lemma get_ipport_members_wf : forall st ids ms, wf_sets st = true -> get_ipport_members st ids = Some ms ->
  Forall (fun m : cidr * N * N => wf_cidr4 (fst (fst m)) = true) ms.
Proof.
  intros st ids. induction ids as [|id ids IH]; intros ms Hwf H; cbn [get_ipport_members] in H; [injection H as <-; constructor|].
  destruct (lookup_set st id) as [[?|[|m cs]]|] eqn:El; try discriminate.
  destruct (get_ipport_members st ids) as [r|]; [|discriminate]. injection H as <-.
  change (Forall (fun m0 : cidr * N * N => wf_cidr4 (fst (fst m0)) = true) ((m :: cs) ++ r)).
  apply Forall_app. split; [|apply IH; auto].
  pose proof (lookup_wf _ _ _ Hwf El) as Hw. cbn [wf_setcontent] in Hw. rewrite forallb_forall in Hw.
  apply Forall_forall. intros e He. specialize (Hw e He).
  apply andb_true_iff in Hw as [Hw _]. apply andb_true_iff in Hw as [Hv Hl]. unfold wf_cidr4. rewrite Hv. cbn.
  apply N.eqb_eq in Hl. rewrite Hl. reflexivity.
Qed.

Lemma rule_to_hns_wf : forall st b chunk r l, wf_sets st = true ->
  F (r_src_nets r) = true -> F (r_dst_nets r) = true ->
  rule_to_hns st b chunk r = ConvOk l -> Forall (fun h => wf_hb h = true) l.
Proof.
  intros st b chunk r l Hwf Hs Hd H. unfold rule_to_hns in H.
  repeat match type of H with
         | context [match ?x with _ => _ end] => destruct x eqn:?; try discriminate H
         end.
  all: try (match goal with Hs : side_addresses _ _ _ = inl ?c |- _ =>
                  apply side_addresses_inl in Hs as [k Hk]; subst; discriminate end).
  all: injection H as <-.
  all: repeat match goal with Hf : filter_nets _ = (_, _) |- _ => apply filter_nets_F in Hf; [|assumption] end.
  all: repeat match goal with Hsa : side_addresses ?s ?n _ = inr _, Hn : F ?n = true, Hw : wf_sets ?s = true |- _ =>
                apply (side_addresses_F s n _ _ Hw Hn) in Hsa end.
  all: try (apply cross_F; assumption).
  all: match goal with Hg : get_ipport_members ?s _ = Some _, Hw : wf_sets ?s = true |- _ =>
         apply (get_ipport_members_wf _ _ _ Hw) in Hg; apply group_members_F in Hg end.
  all: apply Forall_forall; intros hh Hh; apply in_map_iff in Hh as [g [<- Hg']];
       match goal with Hg : Forall _ (group_members _) |- _ => rewrite Forall_forall in Hg; specialize (Hg g Hg') end;
       unfold wf_hb; cbn [h_laddrs h_raddrs forallb andb]; assumption.
Qed.
