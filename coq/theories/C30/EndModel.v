(* C30 — endpoint level: executable model of felix/dataplane/windows/flattener.go (flattenTiers, combineRules,
   combinePorts, combineCIDRs, rewritePriorities) and of the rule assembly in endpoint_mgr.go
   (CompleteDeferredWork: one GetPolicySetRules list per tier with policies, the profiles, flattening, priorities,
   host rules, node->endpoint rule).  Definitions only.

   `fixed` selects combinePorts as it is in the tree (false) or with fixes/C30-combine-ports-empty-and-last-port.patch
   (true); the driver probes the tree. *)
From Coq Require Import List NArith Bool Arith.
From Verif.Common Require Import Packet PolicyRef.
From Verif.C30 Require Import Model.
Import ListNotations.
Open Scope N_scope.

(* ------------------------------------------------------------------ combineCIDRs / combinePorts *)
(* None = ErrRuleIsNoOp *)
Definition combine_cidrs (xs ys : list cidr) : option (list cidr) :=
  match xs, ys with
  | [], _ => Some ys
  | _, [] => Some xs
  | _, _ => match intersect_cidrs xs ys with [] => None | l => Some l end
  end.

Inductive pres := PNoOp | PPanic | POk (l : list port_range).

Definition max_port (l : list port_range) : N := fold_right (fun r m => N.max (snd r) m) 0 l.

(* the ports common to two lists, as the non-empty pairwise intersections (the implementation prints the maximal
   runs of the same set; the correspondence compares the canonical form) *)
Definition range_meet (x y : port_range) : list port_range :=
  let lo := N.max (fst x) (fst y) in let hi := N.min (snd x) (snd y) in
  if N.leb lo hi then [(lo, hi)] else [].
Definition pair_ranges (a b : list port_range) : list port_range :=
  flat_map (fun x => flat_map (fun y => range_meet x y) b) a.

(* Unfixed tree: `aBitset.Len() == 0` never holds (Len is the capacity, at least 19), so an empty intersection
   yields "" = any port; the bitset of `as` has capacity max(19, largest port of as + 1) and NextClear past the
   capacity is invalid, so a run of the intersection that ends at the largest port of `as` (>= 18) panics. *)
Definition combine_ports (fixed : bool) (a b : list port_range) : pres :=
  match a, b with
  | [], _ => POk b
  | _, [] => POk a
  | _, _ =>
      let l := pair_ranges a b in
      if fixed then match l with [] => PNoOp | _ => POk l end
      else if N.leb 18 (max_port a) && in_ranges b (max_port a) then PPanic else POk l
  end.

(* ------------------------------------------------------------------ combineRules *)
Inductive cres := CNil | CPanic | CRule (h : hrule).

Definition combine_rules (fixed : bool) (r1 r2 : hrule) : cres :=
  let proto :=
    if negb (N.eqb (h_proto r1) PROTO_ANY) then
      (if N.eqb (h_proto r2) PROTO_ANY then Some (h_proto r1)
       else if negb (N.eqb (h_proto r1) (h_proto r2)) then None else Some (h_proto r2))
    else Some (h_proto r2) in
  match proto with
  | None => CNil
  | Some pr =>
    match combine_cidrs (h_laddrs r1) (h_laddrs r2) with
    | None => CNil
    | Some la =>
      match combine_cidrs (h_raddrs r1) (h_raddrs r2) with
      | None => CNil
      | Some ra =>
        match combine_ports fixed (h_lports r1) (h_lports r2) with
        | PNoOp => CNil | PPanic => CPanic
        | POk lp =>
          match combine_ports fixed (h_rports r1) (h_rports r2) with
          | PNoOp => CNil | PPanic => CPanic
          | POk rp => CRule (mkH (h_prio r2) (h_dir r2) (h_act r2) pr la ra lp rp)
          end
        end
      end
    end
  end.

(* appendCombinedRules; None = panic *)
Fixpoint append_combined (fixed : bool) (second : list hrule) (r : hrule) : option (list hrule) :=
  match second with
  | [] => Some []
  | r2 :: rest =>
      match combine_rules fixed r r2 with
      | CPanic => None
      | CNil => append_combined fixed rest r
      | CRule h => match append_combined fixed rest r with Some l => Some (h :: l) | None => None end
      end
  end.

Definition is_pass (h : hrule) : bool := hact_eqb (h_act h) HPass.

(* the loop over the old first tier *)
Fixpoint combine_tier (fixed : bool) (first second : list hrule) : option (list hrule) :=
  match first with
  | [] => Some []
  | r :: rest =>
      if is_pass r then
        match append_combined fixed second r with
        | None => None
        | Some l => match combine_tier fixed rest second with Some l' => Some (l ++ l') | None => None end
        end
      else match combine_tier fixed rest second with Some l' => Some (r :: l') | None => None end
  end.

(* flattenTiersRecurse with the current first tier as accumulator *)
Fixpoint flatten_acc (fixed : bool) (first : list hrule) (rest : list (list hrule)) : option (list hrule) :=
  match rest with
  | [] => Some first
  | second :: rest' =>
      if negb (existsb is_pass first) then Some first
      else match combine_tier fixed first second with
           | None => None
           | Some nf => flatten_acc fixed nf rest'
           end
  end.

Definition pass_to_block (h : hrule) : hrule :=
  if is_pass h then mkH (h_prio h) (h_dir h) HBlock (h_proto h) (h_laddrs h) (h_raddrs h) (h_lports h) (h_rports h) else h.

Fixpoint block_last (tiers : list (list hrule)) : list (list hrule) :=
  match tiers with
  | [] => []
  | [t] => [map pass_to_block t]
  | t :: rest => t :: block_last rest
  end.

(* flattenTiers; None = panic (also for no tiers: "Ran out of rules") *)
Definition flatten_tiers (fixed : bool) (tiers : list (list hrule)) : option (list hrule) :=
  match block_last tiers with
  | [] => None
  | t :: rest => flatten_acc fixed t rest
  end.

(* ------------------------------------------------------------------ rewritePriorities *)
Fixpoint renumber_all (l : list hrule) (prio : N) : list hrule :=
  match l with
  | [] => []
  | h :: rest => let p := (prio + 1) mod U16 in with_prio h p :: renumber_all rest p
  end.
Fixpoint renumber_groups (l : list hrule) (prio : N) (last : hact) : list hrule :=
  match l with
  | [] => []
  | h :: rest =>
      let p := if hact_eqb last (h_act h) then prio else (prio + 1) mod U16 in
      with_prio h p :: renumber_groups rest p (h_act h)
  end.
Definition rewrite_priorities (limit : N) (l : list hrule) : list hrule :=
  match l with
  | [] => []
  | [h] => [h]
  | h :: rest =>
      if N.ltb (N.of_nat (length l)) ((limit + U16 - BASE_PRIO) mod U16)
      then with_prio h BASE_PRIO :: renumber_all rest BASE_PRIO
      else with_prio h BASE_PRIO :: renumber_groups rest BASE_PRIO (h_act h)
  end.
Definition MAX_PRIO : N := 65000.      (* PolicyRuleMaxPriority *)

(* ------------------------------------------------------------------ endpoint_mgr.go: the rule list of one endpoint *)
(* A policy of a tier as the WorkloadEndpoint names it: present = the policy manager was told about it
   (false for staged policies), and whether the tier lists it for ingress / egress. *)
Record tpol := mkTP { tp_present : bool; tp_in : bool; tp_out : bool; tp_rules : polset }.
Record tierspec := mkTS { ts_is_default : bool;        (* t.Name == "default" *)
                          ts_default_pass : bool;      (* t.DefaultAction == "Pass" *)
                          ts_pols : list tpol }.

Definition listed (inbound : bool) (q : tpol) : bool := if inbound then tp_in q else tp_out q.
Definition tier_pols (inbound : bool) (t : tierspec) : list (bool * polset) :=
  map (fun q => (tp_present q, tp_rules q)) (filter (listed inbound) (ts_pols t)).

(* the tiers that have policies in this direction *)
Definition live_tiers (inbound : bool) (tiers : list tierspec) : list tierspec :=
  filter (fun t => negb (is_nil (tier_pols inbound t))) tiers.

Definition dir_lists (st : setstore) (chunk : nat) (tiers : list tierspec) (profiles : list polset) (inbound : bool)
  : list (list hrule) :=
  let live := live_tiers inbound tiers in
  let lists := map (fun t => tier_hns st chunk (tier_pols inbound t) inbound (negb (ts_default_pass t))) live in
  if is_nil lists || negb (existsb ts_is_default live)
  then lists ++ [tier_hns st chunk (map (fun ps => (true, ps)) profiles) inbound true]
  else lists.

Inductive rtype := RSwitch | RHost.

Definition host_rule (inbound no_host_prio : bool) : rtype * hrule :=
  (RHost, mkH (if no_host_prio then 0 else 100) (dir_of inbound) HAllow PROTO_ANY [] [] [] []).

Definition HOST_TO_EP_PRIO : N := 900.
Definition node_rule (host_addrs : list cidr) : list (rtype * hrule) :=
  match host_addrs with
  | [] => []
  | _ => [(RSwitch, mkH HOST_TO_EP_PRIO HIn HAllow PROTO_ANY [] host_addrs [] [])]
  end.

Definition dir_final (fixed : bool) (st : setstore) (chunk : nat) (tiers : list tierspec) (profiles : list polset)
           (inbound no_host_prio : bool) : option (list (rtype * hrule)) :=
  match flatten_tiers fixed (dir_lists st chunk tiers profiles inbound) with
  | None => None
  | Some flat => Some (map (fun h => (RSwitch, h)) (rewrite_priorities MAX_PRIO flat) ++ [host_rule inbound no_host_prio])
  end.

(* None = Felix panics *)
Definition endpoint_rules (fixed : bool) (st : setstore) (chunk : nat) (tiers : list tierspec) (profiles : list polset)
           (host_addrs : list cidr) (no_host_prio : bool) : option (list (rtype * hrule)) :=
  match dir_final fixed st chunk tiers profiles true no_host_prio with
  | None => None
  | Some fin =>
      match dir_final fixed st chunk tiers profiles false no_host_prio with
      | None => None
      | Some fout => Some (node_rule host_addrs ++ fin ++ fout)
      end
  end.
