(* C30 — the oracles accept every run of the model (inside the theorem domains). *)
From Coq Require Import List NArith Bool Arith Lia.
From Verif.Common Require Import Packet PolicyRef.
From Verif.C30 Require Import Model Spec ProofsCidr ProofsRule ProofsTier EndModel EndSpec EndProofsA EndProofsB EndProofsC.
Import ListNotations.
Open Scope N_scope.

Lemma tier_model_meets_spec : forall st chunk pols inbound eot pkts,
  in_domain st chunk pols inbound = true ->
  ok_rules st pols inbound eot (tier_hns st chunk pols inbound eot) pkts = true.
Proof.
  intros st chunk pols inbound eot pkts Hd. unfold ok_rules. apply forallb_forall. intros p _.
  destruct (packet_ok p) eqn:Hp; [|reflexivity]. cbn [negb orb]. apply tier_same_verdict; assumption.
Qed.

Lemma endpoint_model_meets_spec : forall st chunk tiers profiles host nhp final pin pout,
  ep_domain st chunk tiers profiles true = true -> ep_domain st chunk tiers profiles false = true ->
  endpoint_rules true st chunk tiers profiles host nhp = Some final -> fits_prio final = true ->
  ok_endpoint st tiers profiles host (Some final) pin pout = true.
Proof.
  intros st chunk tiers profiles host nhp final pin pout Di Do Hf Hfit. unfold ok_endpoint.
  apply andb_true_iff. split; apply forallb_forall; intros p _.
  - destruct (ep_packet_ok host true p) eqn:Hp; [|reflexivity]. cbn [negb orb].
    eapply endpoint_same_verdict; eassumption.
  - destruct (ep_packet_ok host false p) eqn:Hp; [|reflexivity]. cbn [negb orb].
    eapply endpoint_same_verdict; eassumption.
Qed.
