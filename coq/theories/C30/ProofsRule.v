(* C30 — one policy rule against the HNS rules protoRuleToHnsRules makes from it. *)
From Coq Require Import List NArith Bool Arith Lia.
From Verif.Common Require Import Packet PolicyRef.
From Verif.C30 Require Import Model Spec ProofsCidr.
Import ListNotations.
Open Scope N_scope.
Arguments N.sub : simpl never.
Arguments N.shiftr : simpl never.
Arguments N.shiftl : simpl never.
Arguments cidr_text : simpl never.
Arguments bytes_leb : simpl never.
Arguments intersect_cidrs : simpl never.
Arguments N.modulo : simpl never.

(* ------------------------------------------------------------------ generic list facts *)
Lemma existsb_map' : forall A B (g : A -> B) (f : B -> bool) l, existsb f (map g l) = existsb (fun x => f (g x)) l.
Proof. induction l; simpl; [reflexivity|]. rewrite IHl. reflexivity. Qed.
Lemma existsb_const_and : forall A (f : A -> bool) b l, existsb (fun x => f x && b) l = existsb f l && b.
Proof. induction l; simpl; [reflexivity|]. rewrite IHl. destruct (f a), b, (existsb f l); reflexivity. Qed.
Lemma existsb_concat : forall A (g : A -> bool) ls, existsb g (concat ls) = existsb (fun c => existsb g c) ls.
Proof. induction ls; simpl; [reflexivity|]. rewrite existsb_app, IHls. reflexivity. Qed.

Lemma skipn_length_le : forall A n (l : list A), (length (skipn n l) <= length l - n)%nat.
Proof. intros. rewrite skipn_length. lia. Qed.

Lemma chunks_fuel_ok : forall A (n : nat), (n <> 0)%nat -> forall fuel (l : list A), (length l <= fuel)%nat ->
  concat (chunks_fuel fuel n l) = l /\ Forall (fun c => c <> []) (chunks_fuel fuel n l).
Proof.
  intros A n Hn. induction fuel as [|f IH]; intros l Hl.
  - destruct l; simpl in *; [split; [reflexivity|constructor]|exfalso; lia].
  - destruct l as [|a l]; [split; [reflexivity|constructor]|].
    cbn [chunks_fuel].
    destruct (IH (skipn n (a :: l))) as [Hc Hf].
    { pose proof (skipn_length_le A n (a :: l)) as Hs. change (length (a :: l)) with (S (length l)) in *. lia. }
    split.
    + cbn [concat]. rewrite Hc. apply firstn_skipn.
    + constructor; [|exact Hf]. destruct n; [lia|]. simpl. discriminate.
Qed.

(* a field that matches anything when empty *)
Definition field_ok {A} (g : A -> bool) (l : list A) : bool := is_nil l || existsb g l.

Lemma split_list_field : forall A (g : A -> bool) (n : nat) (l : list A), (n <> 0)%nat ->
  existsb (field_ok g) (split_list n l) = field_ok g l.
Proof.
  intros A g n l Hn. destruct l as [|a l]; [reflexivity|].
  unfold split_list. destruct (chunks_fuel_ok A n Hn (length (a :: l)) (a :: l) (le_n _)) as [Hc Hf].
  set (cs := chunks_fuel (length (a :: l)) n (a :: l)) in *.
  transitivity (existsb (fun c => existsb g c) cs).
  - apply existsb_ext'. intros c Hc'. rewrite Forall_forall in Hf. specialize (Hf c Hc').
    unfold field_ok. destruct c; [congruence|reflexivity].
  - rewrite <- existsb_concat, Hc. reflexivity.
Qed.

(* ------------------------------------------------------------------ hmatch, unfolded *)
Definition loc_addr (inbound : bool) (p : packet) := if inbound then pk_dst p else pk_src p.
Definition rem_addr (inbound : bool) (p : packet) := if inbound then pk_src p else pk_dst p.
Definition loc_port (inbound : bool) (p : packet) := if inbound then pk_dport p else pk_sport p.
Definition rem_port (inbound : bool) (p : packet) := if inbound then pk_sport p else pk_dport p.

Definition proto_ok (pr : N) (p : packet) : bool := N.eqb pr PROTO_ANY || N.eqb pr (pk_proto p).

Lemma hmatch_eq : forall inbound h p,
  hmatch inbound h p =
  hdir_eqb (h_dir h) (dir_of inbound) && proto_ok (h_proto h) p
  && field_ok (fun c => in4 c (loc_addr inbound p)) (h_laddrs h)
  && field_ok (fun c => in4 c (rem_addr inbound p)) (h_raddrs h)
  && field_ok (fun r => in_range r (loc_port inbound p)) (h_lports h)
  && field_ok (fun r => in_range r (rem_port inbound p)) (h_rports h).
Proof. intros [] h p; reflexivity. Qed.

Lemma hdir_eqb_refl : forall d, hdir_eqb d d = true. Proof. destruct d; reflexivity. Qed.

(* the cross product of the four chunk lists *)
Lemma cross_product_sem : forall inbound p prio act proto (n : nat) la ra lp rp, (n <> 0)%nat ->
  existsb (fun h => hmatch inbound h p)
    (flat_map (fun a =>
       flat_map (fun b =>
         flat_map (fun c =>
           map (fun d => mkH prio (dir_of inbound) act proto a c b d) (split_list n rp))
           (split_list n ra))
         (split_list n lp))
       (split_list n la))
  = proto_ok proto p
    && field_ok (fun c => in4 c (loc_addr inbound p)) la
    && field_ok (fun c => in4 c (rem_addr inbound p)) ra
    && field_ok (fun r => in_range r (loc_port inbound p)) lp
    && field_ok (fun r => in_range r (rem_port inbound p)) rp.
Proof.
  intros inbound p prio act proto n la ra lp rp Hn.
  rewrite <- (split_list_field _ _ n la Hn), <- (split_list_field _ _ n ra Hn),
          <- (split_list_field _ _ n lp Hn), <- (split_list_field _ _ n rp Hn).
  set (LA := split_list n la). set (RA := split_list n ra). set (LP := split_list n lp). set (RP := split_list n rp).
  set (A := field_ok (fun c => in4 c (loc_addr inbound p))).
  set (B := field_ok (fun c => in4 c (rem_addr inbound p))).
  set (C := field_ok (fun r => in_range r (loc_port inbound p))).
  set (D := field_ok (fun r => in_range r (rem_port inbound p))).
  set (P := proto_ok proto p).
  assert (H3 : forall a b c, existsb (fun h => hmatch inbound h p)
                 (map (fun d => mkH prio (dir_of inbound) act proto a c b d) RP)
               = (P && A a && B c && C b) && existsb D RP).
  { intros. rewrite existsb_map'.
    transitivity (existsb (fun d => (P && A a && B c && C b) && D d) RP); [|apply existsb_and_const].
    apply existsb_ext'. intros d _. rewrite hmatch_eq. cbn [h_dir h_proto h_laddrs h_raddrs h_lports h_rports].
    rewrite hdir_eqb_refl. reflexivity. }
  assert (H2 : forall a b, existsb (fun h => hmatch inbound h p)
                 (flat_map (fun c => map (fun d => mkH prio (dir_of inbound) act proto a c b d) RP) RA)
               = existsb B RA && (P && A a && C b && existsb D RP)).
  { intros. rewrite existsb_flat_map.
    transitivity (existsb (fun c => B c && (P && A a && C b && existsb D RP)) RA); [|apply existsb_const_and].
    apply existsb_ext'. intros c _. rewrite H3.
    destruct P, (A a), (B c), (C b), (existsb D RP); reflexivity. }
  assert (H1 : forall a, existsb (fun h => hmatch inbound h p)
                 (flat_map (fun b => flat_map (fun c => map (fun d => mkH prio (dir_of inbound) act proto a c b d) RP) RA) LP)
               = existsb C LP && (P && A a && existsb B RA && existsb D RP)).
  { intros. rewrite existsb_flat_map.
    transitivity (existsb (fun b => C b && (P && A a && existsb B RA && existsb D RP)) LP); [|apply existsb_const_and].
    apply existsb_ext'. intros b _. rewrite H2.
    destruct P, (A a), (existsb B RA), (C b), (existsb D RP); reflexivity. }
  rewrite existsb_flat_map.
  transitivity (existsb (fun a => A a && (P && existsb C LP && existsb B RA && existsb D RP)) LA).
  - apply existsb_ext'. intros a _. rewrite H1.
    destruct P, (A a), (existsb C LP), (existsb B RA), (existsb D RP); reflexivity.
  - rewrite existsb_const_and.
    destruct P, (existsb A LA), (existsb C LP), (existsb B RA), (existsb D RP); reflexivity.
Qed.

(* ------------------------------------------------------------------ filterNets *)
Lemma in4_not_v4 : forall c x, is_v4 c = false -> in4 c x = false.
Proof. intros c x H. rewrite in4_def. unfold is_v4 in H. rewrite H. reflexivity. Qed.

Lemma existsb_filter_v4 : forall x l, existsb (fun c => in4 c x) (filter is_v4 l) = existsb (fun c => in4 c x) l.
Proof.
  induction l as [|c l IH]; simpl; [reflexivity|].
  destruct (is_v4 c) eqn:E; simpl; rewrite IH; [reflexivity|]. rewrite in4_not_v4 by exact E. reflexivity.
Qed.

Lemma wf_cidr4_ok4 : forall l, forallb wf_cidr4 l = true -> Forall ok4 l.
Proof.
  intros l H. rewrite forallb_forall in H. apply Forall_forall. intros c Hc Hv. specialize (H c Hc).
  unfold wf_cidr4, is_v4 in H. rewrite Hv in H. simpl in H. apply N.leb_le. exact H.
Qed.

Lemma filter_nets_sem : forall nets f all x, filter_nets nets = (f, all) -> forallb wf_cidr4 nets = true ->
  (all = true -> field_has_version nets V4 = false)
  /\ (all = false -> field_has_version nets V4 = true
                     /\ nets_ok nets V4 x = field_ok (fun c => in4 c x) f /\ Forall ok4 f).
Proof.
  intros nets f all x H Hwf. unfold filter_nets in H. destruct nets as [|c nets].
  - inversion H; subst. split; [discriminate|]. intros _. repeat split; constructor.
  - cbv zeta in H. set (l := c :: nets) in *.
    assert (Hl : is_nil l = false) by reflexivity. clearbody l. injection H as <- <-.
    assert (Hv : existsb (fun c => ipver_eqb (cidr_ver c) V4) l = negb (is_nil (filter is_v4 l))).
    { clear. induction l as [|d l IH]; simpl; [reflexivity|].
      unfold is_v4 at 1. destruct (ipver_eqb (cidr_ver d) V4); simpl; [reflexivity|exact IH]. }
    split; intro Ha.
    + unfold field_has_version. rewrite Hl, Hv, Ha. reflexivity.
    + unfold field_has_version, nets_ok. rewrite Hl, Hv, Ha. simpl.
      split; [reflexivity|]. split.
      * unfold field_ok. rewrite Ha. simpl. symmetry. apply existsb_filter_v4.
      * apply wf_cidr4_ok4 in Hwf. apply Forall_forall. intros d Hd. apply filter_In in Hd.
        rewrite Forall_forall in Hwf. apply Hwf. tauto.
Qed.

(* ------------------------------------------------------------------ IP sets *)
Lemma lookup_wf : forall st id c, wf_sets st = true -> lookup_set st id = Some c -> wf_setcontent c = true.
Proof.
  induction st as [|[k c'] st IH]; simpl; intros id c Hwf H; [discriminate|].
  apply andb_true_iff in Hwf. destruct Hwf as [H1 H2]. destruct (N.eqb k id).
  - inversion H; subst. exact H1.
  - eapply IH; eauto.
Qed.

Lemma wf_nets_ok4 : forall cs, wf_setcontent (SetNets cs) = true -> Forall ok4 cs.
Proof.
  intros cs H. simpl in H. rewrite forallb_forall in H. apply Forall_forall. intros c Hc _.
  specialize (H c Hc). apply andb_true_iff in H. apply N.leb_le. tauto.
Qed.

Definition set_has (st : setstore) (ids : list N) (x : N) : bool := forallb (fun id => sets_sem st id (MemIP x)) ids.

(* addresses of one side: the rule's CIDRs and at most one IP set *)
Lemma side_sem : forall st nets ids x, wf_sets st = true -> Forall ok4 nets -> le1 ids = true ->
  match side_addresses st nets ids with
  | inl (ConvErr _) => field_ok (fun c => in4 c x) nets && set_has st ids x = false
  | inl (ConvOk _) => False
  | inr l => field_ok (fun c => in4 c x) l = field_ok (fun c => in4 c x) nets && set_has st ids x
  end.
Proof.
  intros st nets ids x Hwf Hn Hle. unfold side_addresses, set_has.
  destruct ids as [|id [|id2 ids]]; [simpl; rewrite andb_true_r; reflexivity| |discriminate].
  cbn [get_net_members forallb]. rewrite andb_true_r. unfold sets_sem.
  destruct (lookup_set st id) as [[cs|ms]|] eqn:El; try (apply andb_false_r).
  destruct cs as [|m cs]; [apply andb_false_r|].
  rewrite app_nil_r.
  pose proof (wf_nets_ok4 _ (lookup_wf _ _ _ Hwf El)) as Hok.
  set (mem := m :: cs) in *.
  change (existsb (fun c => in_cidr c V4 x) mem) with (existsb (fun c => in4 c x) mem).
  destruct nets as [|n0 nets].
  - unfold field_ok. reflexivity.
  - set (ns := n0 :: nets) in *.
    pose proof (intersect_cidrs_sem ns mem x Hn Hok) as Hi.
    destruct (intersect_cidrs ns mem) as [|i0 il] eqn:Ei.
    + simpl in Hi. unfold field_ok. change (is_nil ns) with false. simpl. symmetry. exact Hi.
    + unfold field_ok. change (is_nil ns) with false. change (is_nil (i0 :: il)) with false. simpl orb.
      exact Hi.
Qed.

(* ------------------------------------------------------------------ the services consolidation *)
Definition gmatch (x pr po : N) (g : N * N * list cidr) : bool :=
  N.eqb (fst (fst g)) pr && N.eqb (snd (fst g)) po && existsb (fun c => in4 c x) (snd g).
Definition mmatch (x pr po : N) (m : cidr * N * N) : bool :=
  in4 (fst (fst m)) x && N.eqb (snd (fst m)) pr && N.eqb (snd m) po.

Lemma group_add_sem : forall x pr po a pa pb g,
  existsb (gmatch x pr po) (group_add a pa pb g) = existsb (gmatch x pr po) g || mmatch x pr po (a, pa, pb).
Proof.
  induction g as [|[[pr' po'] addrs] g IH]; cbn [group_add existsb].
  - unfold gmatch, mmatch; simpl. destruct (in4 a x), (N.eqb pa pr), (N.eqb pb po); reflexivity.
  - destruct (N.eqb pa pr' && N.eqb pb po') eqn:E; cbn [existsb].
    + apply andb_true_iff in E. destruct E as [E1 E2]. apply N.eqb_eq in E1, E2. subst pr' po'.
      unfold gmatch at 1 3, mmatch. cbn [fst snd]. rewrite existsb_app. simpl.
      destruct (N.eqb pa pr), (N.eqb pb po), (existsb (fun c => in4 c x) addrs), (in4 a x), (existsb (gmatch x pr po) g); reflexivity.
    + rewrite IH. rewrite orb_assoc. reflexivity.
Qed.

Lemma group_add_nonempty : forall a pa pb g, Forall (fun e : N * N * list cidr => snd e <> []) g ->
  Forall (fun e : N * N * list cidr => snd e <> []) (group_add a pa pb g).
Proof.
  induction g as [|[[pr' po'] addrs] g IH]; intros H; cbn [group_add].
  - constructor; [discriminate|constructor].
  - inversion H; subst. destruct (N.eqb pa pr' && N.eqb pb po').
    + constructor; [|assumption]. simpl. destruct addrs; discriminate.
    + constructor; [assumption|]. apply IH. assumption.
Qed.

Lemma group_members_sem_gen : forall x pr po ms g,
  existsb (gmatch x pr po) (fold_left (fun g m => group_add (fst (fst m)) (snd (fst m)) (snd m) g) ms g)
  = existsb (gmatch x pr po) g || existsb (mmatch x pr po) ms.
Proof.
  induction ms as [|[[a pa] pb] ms IH]; intros g; cbn [fold_left existsb]; [rewrite orb_false_r; reflexivity|].
  rewrite IH. cbn [fst snd]. rewrite group_add_sem. rewrite orb_assoc. reflexivity.
Qed.
Lemma group_members_nonempty_gen : forall ms g, Forall (fun e : N * N * list cidr => snd e <> []) g ->
  Forall (fun e : N * N * list cidr => snd e <> [])
         (fold_left (fun g m => group_add (fst (fst m)) (snd (fst m)) (snd m) g) ms g).
Proof.
  induction ms as [|m ms IH]; intros g H; cbn [fold_left]; [exact H|]. apply IH. apply group_add_nonempty. exact H.
Qed.

Lemma in_range_single : forall po x, in_range (po, po) x = N.eqb po x.
Proof.
  intros. unfold in_range; simpl. destruct (N.eqb po x) eqn:E.
  - apply N.eqb_eq in E. subst. rewrite N.leb_refl. reflexivity.
  - apply N.eqb_neq in E. destruct (N.leb po x) eqn:E1, (N.leb x po) eqn:E2; try reflexivity.
    apply N.leb_le in E1, E2. exfalso. apply E. lia.
Qed.

(* the HNS rules of a services rule (outbound) match exactly the members of the ip,port sets *)
Lemma services_rules_sem : forall p act ms,
  Forall (fun m : cidr * N * N => snd (fst m) < 256) ms ->
  existsb (fun h => hmatch false h p)
    (map (fun g : N * N * list cidr => mkH BASE_PRIO HOut act (fst (fst g)) [] (snd g) [] [(snd (fst g), snd (fst g))])
         (group_members ms))
  = existsb (mmatch (pk_dst p) (pk_proto p) (pk_dport p)) ms.
Proof.
  intros p act ms Hlt. rewrite existsb_map'. unfold group_members.
  pose proof (group_members_sem_gen (pk_dst p) (pk_proto p) (pk_dport p) ms []) as Hs. simpl in Hs.
  rewrite <- Hs.
  pose proof (group_members_nonempty_gen ms [] (Forall_nil _)) as Hne.
  assert (Hpr : Forall (fun e : N * N * list cidr => fst (fst e) < 256)
                  (fold_left (fun g m => group_add (fst (fst m)) (snd (fst m)) (snd m) g) ms [])).
  { assert (G : forall ms g, Forall (fun m : cidr * N * N => snd (fst m) < 256) ms ->
                Forall (fun e : N * N * list cidr => fst (fst e) < 256) g ->
                Forall (fun e : N * N * list cidr => fst (fst e) < 256)
                  (fold_left (fun g m => group_add (fst (fst m)) (snd (fst m)) (snd m) g) ms g)).
    { clear. induction ms as [|[[a pa] pb] ms IH]; intros g Hm Hg; cbn [fold_left]; [exact Hg|].
      inversion Hm; subst. apply IH; [assumption|]. cbn [fst snd] in *.
      clear -Hg H1. induction g as [|[[pr' po'] addrs] g IHg]; cbn [group_add].
      - constructor; [exact H1|constructor].
      - inversion Hg; subst. destruct (N.eqb pa pr' && N.eqb pb po'); constructor; auto. }
    apply G; [exact Hlt|constructor]. }
  apply existsb_ext'. intros [[pr po] addrs] Hin.
  rewrite Forall_forall in Hne, Hpr. specialize (Hne _ Hin). specialize (Hpr _ Hin). cbn [fst snd] in *.
  rewrite hmatch_eq. cbn [h_dir h_proto h_laddrs h_raddrs h_lports h_rports dir_of hdir_eqb fst snd].
  unfold gmatch, proto_ok, field_ok, rem_addr, rem_port. cbn [fst snd is_nil existsb orb andb].
  destruct addrs as [|a0 addrs]; [congruence|]. cbn [is_nil orb].
  rewrite in_range_single, orb_false_r.
  assert (E : N.eqb pr PROTO_ANY = false) by (apply N.eqb_neq; unfold PROTO_ANY; lia).
  rewrite E. cbn [orb]. rewrite andb_true_r.
  destruct (N.eqb pr (pk_proto p)), (N.eqb po (pk_dport p)), (existsb (fun c => in4 c (pk_dst p)) (a0 :: addrs)); reflexivity.
Qed.

(* ------------------------------------------------------------------ the rule lemma *)
From Coq Require Import Btauto.

Definition act_of (r : rule) : option hact :=
  match r_action r with Allow => Some HAllow | Deny => Some HBlock | Pass => Some HPass | Log => None end.
Definition good_rules (inbound : bool) (a : hact) (l : list hrule) : Prop :=
  Forall (fun h => h_act h = a /\ h_dir h = dir_of inbound) l.

Lemma rule_matches_pos : forall s act ver pr sn sp dn dp ss ds ips p, pk_ver p = V4 ->
  rule_matches s (RS act ver pr sn sp dn dp ss ds ips) p =
  (opt_ok ver (ipver_eqb V4) && field_has_version sn V4 && field_has_version dn V4)
  && opt_ok pr (N.eqb (pk_proto p)) && nets_ok sn V4 (pk_src p) && nets_ok dn V4 (pk_dst p)
  && field_ok (fun r => in_range r (pk_sport p)) sp && field_ok (fun r => in_range r (pk_dport p)) dp
  && forallb (fun id => s id (MemIP (pk_src p))) ss && forallb (fun id => s id (MemIP (pk_dst p))) ds
  && forallb (fun id => s id (MemIPPort (pk_dst p) (pk_proto p) (pk_dport p))) ips.
Proof.
  intros. unfold rule_matches, RS, rule_version_ok, ports_ok, ports_hit, field_ok, in_ranges, src_member, dst_member,
    dst_port_member, src_port_member.
  cbn [r_action r_ipver r_proto r_src_nets r_src_ports r_src_named_ports r_dst_nets r_dst_ports r_dst_named_ports r_icmp
       r_src_ipsets r_dst_ipsets r_dst_ipport_sets r_not_proto r_not_src_nets r_not_src_ports r_not_dst_nets
       r_not_dst_ports r_not_icmp r_not_src_ipsets r_not_dst_ipsets r_not_src_named_ports r_not_dst_named_ports
       opt_ok existsb is_nil negb field_has_version].
  rewrite H. cbn [is_nil orb existsb negb andb]. rewrite ?andb_true_r, ?orb_false_r. reflexivity.
Qed.

Lemma packet_ok_v4 : forall p, packet_ok p = true -> pk_ver p = V4.
Proof. intros p H. unfold packet_ok in H. apply andb_true_iff in H as [H _]. apply andb_true_iff in H as [H _].
  apply ipver_eqb_eq. exact H. Qed.

Lemma good_rules_cross : forall inbound prio act proto (n : nat) la ra lp rp,
  good_rules inbound act
    (flat_map (fun a =>
       flat_map (fun b =>
         flat_map (fun c =>
           map (fun d => mkH prio (dir_of inbound) act proto a c b d) (split_list n rp))
           (split_list n ra))
         (split_list n lp))
       (split_list n la)).
Proof.
  intros. unfold good_rules. apply Forall_forall. intros h Hh.
  apply in_flat_map in Hh as [a [_ Hh]]. apply in_flat_map in Hh as [b [_ Hh]].
  apply in_flat_map in Hh as [c [_ Hh]]. apply in_map_iff in Hh as [d [<- _]]. split; reflexivity.
Qed.

Lemma set_has_sem_nil : forall st x, set_has st [] x = true. Proof. reflexivity. Qed.

Lemma rule_sem : forall st inbound chunk r p,
  wf_sets st = true -> (chunk <> 0)%nat -> supported_rule inbound r = true -> packet_ok p = true ->
  match rule_to_hns st inbound chunk r with
  | ConvOk l => existsb (fun h => hmatch inbound h p) l = rule_matches (sets_sem st) r p
                /\ exists a, act_of r = Some a /\ good_rules inbound a l
  | ConvErr _ => rule_matches (sets_sem st) r p = false \/ r_action r = Log
  end.
Proof.
  intros st inbound chunk r p Hwf Hchunk Hs Hp.
  pose proof (packet_ok_v4 p Hp) as Hv.
  destruct r as [act ver pr sn sp snp dn dp dnp icmp ss ds ips npr nsn nsp ndn ndp nicmp nss nds nsnp ndnp].
  unfold supported_rule, supported_criteria, services_egress_only, services_alone, rule_has_negative_matches in Hs.
  cbn [r_action r_ipver r_proto r_src_nets r_src_ports r_src_named_ports r_dst_nets r_dst_ports r_dst_named_ports r_icmp
       r_src_ipsets r_dst_ipsets r_dst_ipport_sets r_not_proto r_not_src_nets r_not_src_ports r_not_dst_nets
       r_not_dst_ports r_not_icmp r_not_src_ipsets r_not_dst_ipsets r_not_src_named_ports r_not_dst_named_ports] in Hs.
  apply andb_true_iff in Hs as [Hs Halone]. apply andb_true_iff in Hs as [Hc Hegress].
  apply andb_true_iff in Hc as [Hc Hproto]. apply andb_true_iff in Hc as [Hc Hwfd]. apply andb_true_iff in Hc as [Hc Hwfs].
  apply andb_true_iff in Hc as [Hc Hips]. apply andb_true_iff in Hc as [Hc Hds]. apply andb_true_iff in Hc as [Hc Hss].
  apply andb_true_iff in Hc as [Hc Hdnp]. apply andb_true_iff in Hc as [Hc Hsnp]. apply andb_true_iff in Hc as [Hneg Hicmp].
  destruct nsn; [|discriminate Hneg]. destruct ndn; [|discriminate Hneg]. destruct nsp; [|discriminate Hneg].
  destruct ndp; [|discriminate Hneg]. destruct nss; [|discriminate Hneg]. destruct nds; [|discriminate Hneg].
  destruct nsnp; [|discriminate Hneg]. destruct ndnp; [|discriminate Hneg]. destruct npr; [discriminate Hneg|].
  destruct nicmp; [discriminate Hneg|]. destruct icmp; [discriminate Hicmp|].
  destruct snp; [|discriminate Hsnp]. destruct dnp; [|discriminate Hdnp]. clear Hneg Hicmp Hsnp Hdnp.
  match goal with |- context [rule_to_hns _ _ _ ?R] => change R with (RS act ver pr sn sp dn dp ss ds ips) end.
  rewrite (rule_matches_pos (sets_sem st) act ver pr sn sp dn dp ss ds ips p Hv).
  unfold rule_to_hns, RS, rule_has_negative_matches.
  cbn [r_action r_ipver r_proto r_src_nets r_src_ports r_src_named_ports r_dst_nets r_dst_ports r_dst_named_ports r_icmp
       r_src_ipsets r_dst_ipsets r_dst_ipport_sets r_not_proto r_not_src_nets r_not_src_ports r_not_dst_nets
       r_not_dst_ports r_not_icmp r_not_src_ipsets r_not_dst_ipsets r_not_src_named_ports r_not_dst_named_ports
       is_nil negb orb].
  (* ip version *)
  assert (Hver : (exists v6, ver = Some V6 /\ v6 = tt) \/ (ver <> Some V6 /\ opt_ok ver (ipver_eqb V4) = true)).
  { destruct ver as [[|]|]; [right|left; exists tt|right]; split; try reflexivity; discriminate. }
  destruct Hver as [[_ [-> _]]|[Hver Hverok]]; [left; reflexivity|].
  assert (Hgo : forall X, match ver with Some V6 => ConvErr ErrNotSupported | _ => X end = X).
  { intros. destruct ver as [[|]|]; try reflexivity. congruence. }
  rewrite Hgo. clear Hgo. rewrite Hverok.
  (* CIDR filtering *)
  destruct (filter_nets sn) as [f1 all1] eqn:E1.
  destruct (filter_nets_sem sn f1 all1 (pk_src p) E1 Hwfs) as [Ht1 Hf1].
  destruct all1; [left; rewrite (Ht1 eq_refl); reflexivity|]. destruct (Hf1 eq_refl) as [Hfv1 [Hn1 Hok1]]. clear Ht1 Hf1.
  destruct (filter_nets dn) as [f2 all2] eqn:E2.
  destruct (filter_nets_sem dn f2 all2 (pk_dst p) E2 Hwfd) as [Ht2 Hf2].
  destruct all2; [left; rewrite (Ht2 eq_refl); rewrite !andb_false_r; reflexivity|].
  destruct (Hf2 eq_refl) as [Hfv2 [Hn2 Hok2]]. clear Ht2 Hf2.
  rewrite Hfv1, Hfv2, Hn1, Hn2. cbn [andb].
  (* action *)
  assert (Hact : (act = Log /\ act_of (RS act ver pr sn sp dn dp ss ds ips) = None)
                 \/ exists a, match act with Allow => Some HAllow | Deny => Some HBlock | Pass => Some HPass | Log => None end = Some a
                              /\ act_of (RS act ver pr sn sp dn dp ss ds ips) = Some a).
  { destruct act; [right; eexists; split; reflexivity|right; eexists; split; reflexivity|right; eexists; split; reflexivity|left; split; reflexivity]. }
  destruct Hact as [[-> _]|[a [Ea Eact]]]; [right; reflexivity|].
  rewrite Ea.
  destruct ips as [|ip ips].
  - (* ordinary rule *)
    cbn [forallb]. rewrite andb_true_r.
    pose proof (side_sem st f1 ss (pk_src p) Hwf Hok1 Hss) as S1.
    destruct (side_addresses st f1 ss) as [[e1|l1]|srcs]; [| contradiction |].
    { left. fold (set_has st ss (pk_src p)).
      destruct (field_ok (fun c => in4 c (pk_src p)) f1), (set_has st ss (pk_src p)); try discriminate S1;
        rewrite ?andb_false_r; reflexivity. }
    pose proof (side_sem st f2 ds (pk_dst p) Hwf Hok2 Hds) as S2.
    destruct (side_addresses st f2 ds) as [[e2|l2]|dsts]; [| contradiction |].
    { left. fold (set_has st ds (pk_dst p)).
      destruct (field_ok (fun c => in4 c (pk_dst p)) f2), (set_has st ds (pk_dst p)); try discriminate S2;
        rewrite ?andb_false_r; reflexivity. }
    split.
    2:{ exists a. split; [exact Eact|]. apply good_rules_cross. }
    rewrite cross_product_sem by exact Hchunk.
    fold (set_has st ss (pk_src p)). fold (set_has st ds (pk_dst p)).
    assert (Hpr : proto_ok (match pr with Some n => n mod U16 | None => PROTO_ANY end) p = opt_ok pr (N.eqb (pk_proto p))).
    { destruct pr as [n|]; [|reflexivity]. cbn [opt_ok]. apply N.ltb_lt in Hproto.
      rewrite N.mod_small by (unfold U16; lia). unfold proto_ok.
      assert (E : N.eqb n PROTO_ANY = false) by (apply N.eqb_neq; unfold PROTO_ANY; lia).
      rewrite E. cbn [orb]. apply N.eqb_sym. }
    rewrite Hpr.
    destruct inbound; unfold loc_addr, rem_addr, loc_port, rem_port; rewrite S1, S2; btauto.
  - (* services rule *)
    destruct ips; [|discriminate Hips]. destruct inbound; [discriminate Hegress|]. cbn [negb orb is_nil] in Halone.
    apply andb_true_iff in Halone as [Halone Hds0]. apply andb_true_iff in Halone as [Halone Hss0].
    apply andb_true_iff in Halone as [Halone Hdp0]. apply andb_true_iff in Halone as [Halone Hsp0].
    apply andb_true_iff in Halone as [Halone Hdn0]. apply andb_true_iff in Halone as [Hpr0 Hsn0].
    destruct pr; [discriminate Hpr0|]. destruct sn; [|discriminate Hsn0]. destruct dn; [|discriminate Hdn0].
    destruct sp; [|discriminate Hsp0]. destruct dp; [|discriminate Hdp0]. destruct ss; [|discriminate Hss0].
    destruct ds; [|discriminate Hds0].
    unfold filter_nets in E1, E2. injection E1 as <-. injection E2 as <-.
    cbn [get_ipport_members forallb opt_ok nets_ok field_ok is_nil orb andb]. unfold sets_sem.
    destruct (lookup_set st ip) as [[cs|ms]|] eqn:El; try (left; reflexivity).
    destruct ms as [|m ms]; [left; reflexivity|].
    rewrite app_nil_r. split.
    2:{ exists a. split; [exact Eact|]. unfold good_rules. apply Forall_forall. intros h Hh.
        apply in_map_iff in Hh as [g [<- _]]. split; reflexivity. }
    pose proof (lookup_wf _ _ _ Hwf El) as Hw. cbn [wf_setcontent] in Hw.
    rewrite services_rules_sem.
    + rewrite andb_true_r. apply existsb_ext'. intros [[c pr'] po'] _. unfold mmatch. cbn [fst snd]. reflexivity.
    + rewrite forallb_forall in Hw. apply Forall_forall. intros e He. specialize (Hw e He).
      apply andb_true_iff in Hw as [_ Hw]. apply N.ltb_lt. exact Hw.
Qed.
