(* C30 — rendering histories: a rendering is a pure function of the current policies, IP sets and the layout. *)
From Coq Require Import List NArith Bool Arith Lia.
From Verif.Common Require Import Packet PolicyRef.
From Verif.C30 Require Import Model Spec ProofsCidr ProofsRule ProofsTier EndModel EndSpec HistModel HistSpec HistProofs RenderModel RenderSpec.
Import ListNotations.
Open Scope N_scope.

Lemma endpoint_rules_assemble : forall fixed st chunk tiers profiles host nhp,
  endpoint_rules fixed st chunk tiers profiles host nhp
  = assemble fixed (dir_lists st chunk tiers profiles true) (dir_lists st chunk tiers profiles false) host nhp.
Proof. reflexivity. Qed.

Lemma current_pols_cur : forall s ids, current_pols s ids = map (cur s) ids.
Proof. reflexivity. Qed.

Lemma filter_map_comm : forall A B (g : A -> B) (f : B -> bool) l, filter f (map g l) = map g (filter (fun x => f (g x)) l).
Proof. induction l as [|a l IH]; [reflexivity|]. cbn [map filter]. destruct (f (g a)); cbn [map]; rewrite IH; reflexivity. Qed.

Lemma tier_pols_resolve : forall s t inbound, tier_pols inbound (resolve_tier s t) = current_pols s (it_ids inbound t).
Proof.
  intros s t inbound. unfold tier_pols, resolve_tier. cbn [ts_pols]. rewrite filter_app, map_app, current_pols_cur.
  rewrite !filter_map_comm, !map_map.
  destruct inbound; cbn [listed tp_in tp_out it_ids tp_present tp_rules].
  - rewrite (filter_all _ (fun _ => true)) by (apply Forall_forall; reflexivity).
    rewrite (filter_none _ (fun _ => false)) by (apply Forall_forall; reflexivity).
    cbn [map]. rewrite app_nil_r. apply map_ext. intros id. destruct (cur s id); reflexivity.
  - rewrite (filter_none _ (fun _ => false)) by (apply Forall_forall; reflexivity).
    rewrite (filter_all _ (fun _ => true)) by (apply Forall_forall; reflexivity).
    cbn [map app]. apply map_ext. intros id. destruct (cur s id); reflexivity.
Qed.

Lemma is_nil_map : forall A B (g : A -> B) l, is_nil (map g l) = is_nil l.
Proof. destruct l; reflexivity. Qed.

Lemma dir_lists_ids_fresh : forall chunk h L inbound,
  profiles_present (run_history chunk h) L = true ->
  dir_lists_ids (run_history chunk h) L inbound
  = dir_lists (snd (run_history chunk h)) chunk (map (resolve_tier (run_history chunk h)) (l_tiers L))
              (resolve_profiles (run_history chunk h) L) inbound.
Proof.
  intros chunk h L inbound Hp. set (s := run_history chunk h) in *.
  unfold dir_lists_ids, dir_lists, live_tiers.
  rewrite filter_map_comm.
  assert (Ef : filter (fun x => negb (is_nil (tier_pols inbound (resolve_tier s x)))) (l_tiers L)
               = filter (fun t => negb (is_nil (it_ids inbound t))) (l_tiers L)).
  { apply filter_ext. intros t. rewrite tier_pols_resolve, current_pols_cur, is_nil_map. reflexivity. }
  rewrite Ef. set (live := filter (fun t => negb (is_nil (it_ids inbound t))) (l_tiers L)).
  rewrite !map_map.
  assert (El : map (fun t => observe s (it_ids inbound t) inbound (negb (it_default_pass t))) live
               = map (fun x => tier_hns (snd s) chunk (tier_pols inbound (resolve_tier s x)) inbound
                                        (negb (ts_default_pass (resolve_tier s x)))) live).
  { apply map_ext. intros t. rewrite tier_pols_resolve. unfold s. rewrite observe_fresh. reflexivity. }
  rewrite El.
  assert (Ed : existsb ts_is_default (map (resolve_tier s) live) = existsb it_is_default live)
    by (rewrite existsb_map'; reflexivity).
  rewrite Ed.
  assert (EP : observe s (l_profiles L) inbound true
               = tier_hns (snd s) chunk (map (fun ps => (true, ps)) (resolve_profiles s L)) inbound true).
  { unfold s. rewrite observe_fresh. fold s. f_equal. unfold resolve_profiles. rewrite current_pols_cur, map_map.
    apply map_ext_in. intros id Hid. unfold profiles_present in Hp. rewrite forallb_forall in Hp. specialize (Hp id Hid).
    destruct (cur s id) as [b ps]. cbn in *. subst b. reflexivity. }
  rewrite EP. reflexivity.
Qed.

(* one rendering after any history = the endpoint's rules computed from scratch for the current policies and sets *)
Theorem render_fresh : forall fixed chunk h L host nhp,
  profiles_present (run_history chunk h) L = true ->
  render fixed (run_history chunk h) L host nhp
  = endpoint_rules fixed (snd (run_history chunk h)) chunk (map (resolve_tier (run_history chunk h)) (l_tiers L))
                   (resolve_profiles (run_history chunk h) L) host nhp.
Proof.
  intros. rewrite endpoint_rules_assemble. unfold render. rewrite !dir_lists_ids_fresh by assumption. reflexivity.
Qed.

(* renderings do not influence one another: the result of a rendering is determined by the policy-set and IP-set
   operations before it, whatever was rendered in between *)
Theorem render_independent : forall fixed chunk host nhp ops1 L s,
  run_r fixed chunk host nhp s (ops1 ++ [RRender L])
  = run_r fixed chunk host nhp s ops1 ++ [render fixed (fold_left (step chunk) (hops_of ops1) s) L host nhp].
Proof.
  intros fixed chunk host nhp ops1 L. induction ops1 as [|o ops1 IH]; intros s; [reflexivity|].
  destruct o as [o|L']; cbn [app run_r hops_of fold_left].
  - apply IH.
  - rewrite IH. reflexivity.
Qed.
