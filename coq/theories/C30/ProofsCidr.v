(* C30 — CIDR facts: containment between nested prefixes, normalisation, IntersectCIDRs. *)
From Coq Require Import List NArith Bool Arith Lia.
From Verif.Common Require Import Packet PolicyRef.
From Verif.C30 Require Import Model Spec.
Import ListNotations.
Open Scope N_scope.
Arguments N.sub : simpl never.
Arguments N.shiftr : simpl never.
Arguments N.shiftl : simpl never.
Arguments cidr_text : simpl never.
Arguments bytes_leb : simpl never.

Lemma ipver_eqb_eq : forall a b, ipver_eqb a b = true <-> a = b.
Proof. destruct a, b; simpl; split; intro H; try reflexivity; try discriminate. Qed.

Lemma cidr_eqb_eq : forall c d, cidr_eqb c d = true <-> c = d.
Proof.
  intros [v a l] [v' a' l']; unfold cidr_eqb; simpl.
  rewrite !andb_true_iff, !N.eqb_eq, ipver_eqb_eq. split.
  - intros [[-> ->] ->]; reflexivity.
  - intros H; inversion H; auto.
Qed.

(* membership in a V4 CIDR *)
Definition in4 (c : cidr) (x : N) : bool := in_cidr c V4 x.

Lemma in4_def : forall c x, in4 c x = (ipver_eqb (cidr_ver c) V4 &&
   N.eqb (N.shiftr x (32 - cidr_len c)) (N.shiftr (cidr_addr c) (32 - cidr_len c))).
Proof. reflexivity. Qed.

(* the key fact: below a longer prefix b that contains x, membership of x in a shorter prefix a is decided by b's address *)
Lemma in4_nested : forall a b x,
  cidr_len a <= cidr_len b -> cidr_len b <= 32 -> cidr_ver b = V4 ->
  in4 b x = true -> in4 a x = in4 a (cidr_addr b).
Proof.
  intros a b x Hab Hb Hvb H. rewrite in4_def in H. rewrite Hvb in H. simpl in H.
  apply N.eqb_eq in H. rewrite !in4_def.
  assert (E : 32 - cidr_len a = (32 - cidr_len b) + (cidr_len b - cidr_len a)) by lia.
  rewrite E. rewrite <- !N.shiftr_shiftr. rewrite H. reflexivity.
Qed.

Lemma shiftr_shiftl_shiftr : forall a s, N.shiftr (N.shiftl (N.shiftr a s) s) s = N.shiftr a s.
Proof.
  intros. rewrite N.shiftr_shiftl_l by lia. rewrite N.sub_diag. apply N.shiftl_0_r.
Qed.

Lemma in4_norm : forall c x, in4 (norm_cidr c) x = in4 c x.
Proof.
  intros [v a l] x. rewrite !in4_def. unfold norm_cidr; simpl.
  destruct v; simpl; [|reflexivity].
  rewrite shiftr_shiftl_shiftr. reflexivity.
Qed.

Definition normal (c : cidr) : Prop := norm_cidr c = c.
Lemma norm_normal : forall c, normal (norm_cidr c).
Proof.
  intros [v a l]. unfold normal, norm_cidr; simpl. f_equal.
  rewrite shiftr_shiftl_shiftr. reflexivity.
Qed.

(* two normalised prefixes of the same length with different addresses are disjoint *)
Lemma in4_same_len_disjoint : forall a b x,
  normal a -> normal b -> cidr_ver a = V4 -> cidr_ver b = V4 -> cidr_len a = cidr_len b ->
  cidr_addr a <> cidr_addr b -> in4 a x && in4 b x = false.
Proof.
  intros a b x Na Nb Va Vb Hl Hne.
  destruct (in4 a x) eqn:Ea; [|reflexivity]. destruct (in4 b x) eqn:Eb; [|reflexivity].
  exfalso. apply Hne.
  rewrite in4_def in Ea, Eb. rewrite Va in Ea. rewrite Vb in Eb. simpl in Ea, Eb.
  apply N.eqb_eq in Ea, Eb. rewrite Hl in Ea. rewrite Ea in Eb.
  unfold normal, norm_cidr in Na, Nb.
  destruct a as [va aa la], b as [vb ab lb]; simpl in *. subst.
  inversion Na as [Ha]. inversion Nb as [Hb]. rewrite <- Ha, <- Hb. simpl. rewrite Eb. reflexivity.
Qed.

Definition ok4 (c : cidr) : Prop := cidr_ver c = V4 -> cidr_len c <= 32.

Lemma norm_ver : forall c, cidr_ver (norm_cidr c) = cidr_ver c. Proof. reflexivity. Qed.
Lemma norm_len : forall c, cidr_len (norm_cidr c) = cidr_len c. Proof. reflexivity. Qed.

(* one pair of IntersectCIDRs' double loop *)
Lemma isect1_sem : forall a b x, normal a -> normal b -> ok4 a -> ok4 b ->
  existsb (fun c => in4 c x) (opt_list (isect1 a b)) = in4 a x && in4 b x.
Proof.
  intros a b x Na Nb Oa Ob. unfold isect1.
  destruct (ipver_eqb (cidr_ver a) (cidr_ver b)) eqn:Ev; simpl.
  2:{ rewrite !in4_def. destruct (cidr_ver a), (cidr_ver b); simpl in *; try discriminate; try reflexivity.
      rewrite andb_false_r. reflexivity. }
  apply ipver_eqb_eq in Ev.
  destruct (cidr_ver a) eqn:Va.
  2:{ (* both V6: nothing is a member *)
      assert (Fa : in4 a x = false) by (rewrite in4_def, Va; reflexivity).
      assert (Fb : forall y, in4 b y = false) by (intro; rewrite in4_def, <- Ev; reflexivity).
      rewrite Fa. simpl.
      destruct (N.eqb (cidr_len a) (cidr_len b)).
      - destruct (N.eqb (cidr_addr a) (cidr_addr b)); simpl; [rewrite Fa|]; reflexivity.
      - destruct (N.ltb (cidr_len a) (cidr_len b)).
        + destruct (in_cidr a (cidr_ver b) (cidr_addr b)); simpl; [rewrite Fb|]; reflexivity.
        + destruct (in_cidr b V6 (cidr_addr a)); simpl; [rewrite Fa|]; reflexivity. }
  symmetry in Ev. specialize (Oa Va). specialize (Ob Ev).
  destruct (N.eqb (cidr_len a) (cidr_len b)) eqn:El.
  - apply N.eqb_eq in El.
    destruct (N.eqb (cidr_addr a) (cidr_addr b)) eqn:Ea; simpl.
    + apply N.eqb_eq in Ea. rewrite orb_false_r.
      assert (in4 b x = in4 a x) by (rewrite !in4_def, Va, Ev, El, Ea; reflexivity).
      rewrite H. destruct (in4 a x); reflexivity.
    + apply N.eqb_neq in Ea. symmetry. apply in4_same_len_disjoint; auto.
  - apply N.eqb_neq in El.
    destruct (N.ltb (cidr_len a) (cidr_len b)) eqn:Elt.
    + apply N.ltb_lt in Elt. rewrite Ev.
      change (in_cidr a V4 (cidr_addr b)) with (in4 a (cidr_addr b)).
      destruct (in4 b x) eqn:Eb.
      * rewrite (in4_nested a b x) by (auto; lia).
        destruct (in4 a (cidr_addr b)); simpl; [rewrite Eb|]; reflexivity.
      * rewrite andb_false_r. destruct (in4 a (cidr_addr b)); simpl; [rewrite Eb|]; reflexivity.
    + apply N.ltb_ge in Elt.
      change (in_cidr b V4 (cidr_addr a)) with (in4 b (cidr_addr a)).
      destruct (in4 a x) eqn:Ea.
      * rewrite (in4_nested b a x) by (auto; lia).
        destruct (in4 b (cidr_addr a)); simpl; [rewrite Ea|]; reflexivity.
      * simpl. destruct (in4 b (cidr_addr a)); simpl; [rewrite Ea|]; reflexivity.
Qed.

Lemma existsb_flat_map : forall A B (f : A -> list B) (g : B -> bool) l,
  existsb g (flat_map f l) = existsb (fun a => existsb g (f a)) l.
Proof. induction l; simpl; [reflexivity|]. rewrite existsb_app, IHl. reflexivity. Qed.

Lemma existsb_ext' : forall A (f g : A -> bool) l, (forall x, In x l -> f x = g x) -> existsb f l = existsb g l.
Proof. induction l; simpl; intros; [reflexivity|]. rewrite H by auto. rewrite IHl; auto. Qed.

Lemma existsb_and_const : forall A (f : A -> bool) b l, existsb (fun x => b && f x) l = b && existsb f l.
Proof. induction l; simpl; [destruct b; reflexivity|]. rewrite IHl. destruct b; reflexivity. Qed.

Lemma ok4_norm : forall c, ok4 c -> ok4 (norm_cidr c).
Proof. intros c H. unfold ok4 in *. rewrite norm_ver, norm_len. exact H. Qed.

Lemma intersect_pairs_sem : forall xs ys x,
  Forall ok4 xs -> Forall ok4 ys ->
  existsb (fun c => in4 c x) (intersect_pairs xs ys) = existsb (fun c => in4 c x) xs && existsb (fun c => in4 c x) ys.
Proof.
  intros xs ys x Hx Hy. unfold intersect_pairs. rewrite existsb_flat_map.
  induction Hx as [|a xs Ha Hxs IH]; simpl; [reflexivity|].
  rewrite IH. rewrite existsb_flat_map.
  assert (E : existsb (fun b => existsb (fun c => in4 c x) (opt_list (isect1 (norm_cidr a) (norm_cidr b)))) ys
              = in4 a x && existsb (fun c => in4 c x) ys).
  { rewrite <- existsb_and_const. apply existsb_ext'. intros b Hb.
    rewrite isect1_sem; auto using norm_normal, ok4_norm.
    - rewrite !in4_norm. reflexivity.
    - apply ok4_norm. rewrite Forall_forall in Hy. auto. }
  rewrite E. destruct (in4 a x), (existsb (fun c => in4 c x) ys), (existsb (fun c => in4 c x) xs); reflexivity.
Qed.

Lemma existsb_dedup : forall f l, existsb f (dedup l) = existsb f l.
Proof.
  induction l as [|c l IH]; simpl; [reflexivity|].
  destruct (existsb (cidr_eqb c) l) eqn:E; simpl; rewrite IH; [|reflexivity].
  apply existsb_exists in E. destruct E as [d [Hd Hcd]]. apply cidr_eqb_eq in Hcd. subst d.
  destruct (f c) eqn:Ef; [|reflexivity]. simpl. apply existsb_exists. eauto.
Qed.

Lemma existsb_insert_text : forall f c l, existsb f (insert_text c l) = f c || existsb f l.
Proof.
  induction l as [|d l IH]; cbn [insert_text existsb]; [reflexivity|].
  destruct (bytes_leb (cidr_text c) (cidr_text d)); cbn [existsb]; [reflexivity|].
  rewrite IH. destruct (f c), (f d); reflexivity.
Qed.
Lemma existsb_sort_text : forall f l, existsb f (sort_text l) = existsb f l.
Proof.
  unfold sort_text. induction l as [|c l IH]; simpl; [reflexivity|].
  rewrite existsb_insert_text, IH. reflexivity.
Qed.

(* iputils.IntersectCIDRs: an address is in some output CIDR iff it is in some CIDR of each input list *)
Theorem intersect_cidrs_sem : forall xs ys x,
  Forall ok4 xs -> Forall ok4 ys ->
  existsb (fun c => in4 c x) (intersect_cidrs xs ys) = existsb (fun c => in4 c x) xs && existsb (fun c => in4 c x) ys.
Proof.
  intros. unfold intersect_cidrs. rewrite existsb_sort_text, existsb_dedup. apply intersect_pairs_sem; auto.
Qed.
