(* C30 — endpoint level specification: evaluation of the final ACL list of an endpoint, the reference verdict
   (PolicyRef.endpoint_verdict: tiers in order, Pass moves on, then the profiles), domains, oracle, cases. *)
From Coq Require Import List NArith Bool Arith.
From Verif.Common Require Import Packet PolicyRef.
From Verif.C30 Require Import Model Spec EndModel HistModel HistSpec.
Import ListNotations.
Open Scope N_scope.

(* ------------------------------------------------------------------ evaluation of the final list *)
(* Switch rules are enforced in the virtual switch, Host rules in the host firewall: a connection is allowed when
   both layers allow it.  Each layer: lowest priority number among the matching rules of the direction. *)
Definition is_switch (e : rtype * hrule) : bool := match fst e with RSwitch => true | RHost => false end.
Definition switch_rules (l : list (rtype * hrule)) : list hrule := map snd (filter is_switch l).
Definition host_rules (l : list (rtype * hrule)) : list hrule := map snd (filter (fun e => negb (is_switch e)) l).

Definition ep_gives (final : list (rtype * hrule)) (inbound : bool) (p : packet) (a : hact) : bool :=
  hns_gives (switch_rules final) inbound p a && hns_gives (host_rules final) inbound p HAllow.

(* ------------------------------------------------------------------ the reference *)
Definition ref_tiers (tiers : list tierspec) (inbound : bool) : list tier :=
  map (fun t => ref_tier (tier_pols inbound t) inbound (negb (ts_default_pass t))) tiers.

Definition ep_expected (st : setstore) (tiers : list tierspec) (profiles : list polset) (inbound : bool) (p : packet) : hact :=
  match endpoint_verdict (sets_sem st) (ref_tiers tiers inbound) (map (dir_rules inbound) profiles) p with
  | VAllow => HAllow
  | _ => HBlock
  end.

(* ------------------------------------------------------------------ domains *)
Definition all_pols (inbound : bool) (tiers : list tierspec) : list (bool * polset) :=
  flat_map (tier_pols inbound) tiers.

Definition rules_ok (f : bool -> rule -> bool) (inbound : bool) (tiers : list tierspec) (profiles : list polset) : bool :=
  forallb (fun bp : bool * polset => forallb (f inbound) (dir_rules inbound (snd bp))) (all_pols inbound tiers)
  && forallb (fun ps => forallb (f inbound) (dir_rules inbound ps)) profiles.

Definition lists_small (st : setstore) (chunk : nat) (tiers : list tierspec) (profiles : list polset) (inbound : bool) : bool :=
  forallb (fun t => N.ltb (N.of_nat (count_rules (tier_sets st chunk (tier_pols inbound t)))) 64000) tiers
  && N.ltb (N.of_nat (count_rules (tier_sets st chunk (map (fun ps => (true, ps)) profiles)))) 64000.

(* the node->endpoint rule allows everything that comes from the node's own addresses, whatever the policy says *)
Definition not_from_node (host_addrs : list cidr) (inbound : bool) (p : packet) : bool :=
  negb inbound || negb (existsb (fun c => in_cidr c V4 (pk_src p)) host_addrs).

Definition ep_packet_ok (host_addrs : list cidr) (inbound : bool) (p : packet) : bool :=
  packet_ok p && not_from_node host_addrs inbound p.

(* oracle domain: supported criteria (services rules may carry protocol / source criteria), any tier layout *)
Definition ep_oracle_domain (st : setstore) (chunk : nat) (tiers : list tierspec) (profiles : list polset) (inbound : bool) : bool :=
  wf_sets st && negb (Nat.eqb chunk 0) && rules_ok oracle_rule inbound tiers profiles
  && lists_small st chunk tiers profiles inbound.

(* theorem domain, in addition:
   - every policy named by a tier is known to the policy manager (no staged policy);
   - a Pass cannot leave the last rule list: endpoint_mgr.go appends the profiles only when the default tier has no
     policy for the direction, and flattenTiers turns Pass in the last list into Block.  So: no Pass rule in the
     profiles; and when the default tier applies, the last live tier has no Pass rule and does not default to Pass. *)
Definition has_pass (inbound : bool) (ps : polset) : bool :=
  existsb (fun r => match r_action r with Pass => true | _ => false end) (dir_rules inbound ps).

Definition last_tier_closed (inbound : bool) (tiers : list tierspec) : bool :=
  let live := live_tiers inbound tiers in
  if is_nil live || negb (existsb ts_is_default live) then true
  else match last live (mkTS false false []) with
       | t => negb (ts_default_pass t) && negb (existsb (fun bp : bool * polset => has_pass inbound (snd bp)) (tier_pols inbound t))
       end.

Definition ep_domain (st : setstore) (chunk : nat) (tiers : list tierspec) (profiles : list polset) (inbound : bool) : bool :=
  wf_sets st && negb (Nat.eqb chunk 0) && rules_ok supported_rule inbound tiers profiles
  && lists_small st chunk tiers profiles inbound
  && forallb (fun bp : bool * polset => fst bp) (all_pols inbound tiers)
  && negb (existsb (has_pass inbound) profiles)
  && last_tier_closed inbound tiers.

(* the flattened list fits the uint16 priorities *)
Definition fits_prio (final : list (rtype * hrule)) : bool := N.ltb (N.of_nat (length final)) 64000.

(* ------------------------------------------------------------------ oracle *)
Definition ok_endpoint (st : setstore) (tiers : list tierspec) (profiles : list polset) (host_addrs : list cidr)
           (impl : option (list (rtype * hrule))) (pin pout : list packet) : bool :=
  match impl with
  | None => false          (* Felix panicked while rendering the endpoint *)
  | Some final =>
      forallb (fun p => negb (ep_packet_ok host_addrs true p) || ep_gives final true p (ep_expected st tiers profiles true p)) pin
      && forallb (fun p => negb (ep_packet_ok host_addrs false p) || ep_gives final false p (ep_expected st tiers profiles false p)) pout
  end.

(* ------------------------------------------------------------------ comparison (canonical port lists) *)
Fixpoint insert_range (r : port_range) (l : list port_range) : list port_range :=
  match l with
  | [] => [r]
  | x :: rest => if N.leb (fst r) (fst x) then r :: x :: rest else x :: insert_range r rest
  end.
Fixpoint merge_sorted (cur : port_range) (l : list port_range) : list port_range :=
  match l with
  | [] => [cur]
  | x :: rest => if N.leb (fst x) (snd cur + 1) then merge_sorted (fst cur, N.max (snd cur) (snd x)) rest
                 else cur :: merge_sorted x rest
  end.
Definition canon_ports (l : list port_range) : list port_range :=
  match fold_right insert_range [] l with [] => [] | x :: rest => merge_sorted x rest end.
Definition canon_rule2 (h : hrule) : hrule :=
  mkH (h_prio h) (h_dir h) (h_act h) (h_proto h) (map norm_cidr (h_laddrs h)) (map norm_cidr (h_raddrs h))
      (canon_ports (h_lports h)) (canon_ports (h_rports h)).
Definition rtype_eqb (a b : rtype) : bool := match a, b with RSwitch, RSwitch | RHost, RHost => true | _, _ => false end.
Definition finals_eqb (a b : list (rtype * hrule)) : bool :=
  Nat.eqb (length a) (length b)
  && forallb (fun xy : (rtype * hrule) * (rtype * hrule) =>
                rtype_eqb (fst (fst xy)) (fst (snd xy)) && hrule_eqb (canon_rule2 (snd (fst xy))) (canon_rule2 (snd (snd xy))))
             (combine a b).
Definition opt_finals_eqb (a b : option (list (rtype * hrule))) : bool :=
  match a, b with None, None => true | Some x, Some y => finals_eqb x y | _, _ => false end.

(* ------------------------------------------------------------------ cases *)
Record ecase := mkECase {
  e_sets : setstore; e_chunk : N; e_tiers : list tierspec; e_profiles : list polset;
  e_host : list cidr; e_nohostprio : bool; e_fixed : bool;
  e_impl : option (list (rtype * hrule));            (* None = panic *)
  e_pin : list packet; e_pout : list packet
}.
Definition check_ecase (c : ecase) : bool * bool :=
  (opt_finals_eqb (endpoint_rules (e_fixed c) (e_sets c) (N.to_nat (e_chunk c)) (e_tiers c) (e_profiles c) (e_host c) (e_nohostprio c))
                  (e_impl c),
   negb (ep_oracle_domain (e_sets c) (N.to_nat (e_chunk c)) (e_tiers c) (e_profiles c) true
         && ep_oracle_domain (e_sets c) (N.to_nat (e_chunk c)) (e_tiers c) (e_profiles c) false)
   || ok_endpoint (e_sets c) (e_tiers c) (e_profiles c) (e_host c) (e_impl c) (e_pin c) (e_pout c)).

(* rewritePriorities on its own (small limits reach the grouped branch) *)
Record pcase := mkPCase { p_limit : N; p_in : list hrule; p_impl : list hrule }.
Fixpoint prio_chain (l : list hrule) : bool :=
  match l with
  | x :: ((y :: _) as rest) =>
      (N.ltb (h_prio x) (h_prio y) || (N.eqb (h_prio x) (h_prio y) && hact_eqb (h_act x) (h_act y))) && prio_chain rest
  | _ => true
  end.
Definition check_pcase (c : pcase) : bool * bool :=
  (hrules_eqb (rewrite_priorities (p_limit c) (p_in c)) (p_impl c),
   Nat.leb (length (p_impl c)) 1 || prio_chain (p_impl c)).

Inductive anycase2 := Old (c : anycase) | EpCase (c : ecase) | PrioCase (c : pcase) | HistCase (c : hcase).
Definition check_all (c : anycase2) : bool * bool :=
  match c with Old c => check_any c | EpCase c => check_ecase c | PrioCase c => check_pcase c | HistCase c => check_hcase c end.

(* every CIDR of the per-tier lists is well formed (length <= 32).  Implied by wf inputs (wf_cidr4 / wf_sets: the
   lists only hold input CIDRs, set members and IntersectCIDRs outputs); checked rather than derived. *)
Definition wf_hb (h : hrule) : bool := forallb wf_cidr4 (h_laddrs h) && forallb wf_cidr4 (h_raddrs h).
Definition lists_wf (st : setstore) (chunk : nat) (tiers : list tierspec) (profiles : list polset) (inbound : bool) : bool :=
  forallb (forallb wf_hb) (dir_lists st chunk tiers profiles inbound).
