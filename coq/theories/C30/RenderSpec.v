(* C30 — rendering histories: cases.  Every rendering must equal the model's and evaluate to PolicyRef.endpoint_verdict
   for the policies and IP sets as they are at that moment, whatever was rendered before. *)
From Coq Require Import List NArith Bool Arith.
From Verif.Common Require Import Packet PolicyRef.
From Verif.C30 Require Import Model Spec EndModel EndSpec HistModel HistSpec RenderModel.
Import ListNotations.
Open Scope N_scope.

Record rhcase := mkRHCase {
  rh_chunk : N; rh_fixed : bool; rh_host : list cidr; rh_nhp : bool;
  rh_ops : list rop;
  rh_obs : list (option (list (rtype * hrule)));     (* one per RRender, None = panic *)
  rh_pin : list packet; rh_pout : list packet
}.

Fixpoint check_renders (fixed : bool) (chunk : nat) (host : list cidr) (nhp : bool) (pin pout : list packet)
         (s : hstate) (ops : list rop) (obs : list (option (list (rtype * hrule)))) : bool * bool :=
  match ops with
  | [] => (match obs with [] => true | _ => false end, true)
  | ROp o :: r => check_renders fixed chunk host nhp pin pout (step chunk s o) r obs
  | RRender L :: r =>
      match obs with
      | [] => (false, true)
      | impl :: obs' =>
          let tiers := map (resolve_tier s) (l_tiers L) in
          let profs := resolve_profiles s L in
          let agree := opt_finals_eqb (render fixed s L host nhp) impl in
          let ok := negb (profiles_present s L
                          && ep_oracle_domain (snd s) chunk tiers profs true && ep_oracle_domain (snd s) chunk tiers profs false)
                    || ok_endpoint (snd s) tiers profs host impl pin pout in
          let '(a, b) := check_renders fixed chunk host nhp pin pout s r obs' in
          (agree && a, ok && b)
      end
  end.

Definition check_rhcase (c : rhcase) : bool * bool :=
  check_renders (rh_fixed c) (N.to_nat (rh_chunk c)) (rh_host c) (rh_nhp c) (rh_pin c) (rh_pout c) ([], []) (rh_ops c) (rh_obs c).

Inductive anycase3 := Prev (c : anycase2) | RenderCase (c : rhcase).
Definition check_top (c : anycase3) : bool * bool :=
  match c with Prev c => check_all c | RenderCase c => check_rhcase c end.
