(* C30 — histories: oracle and cases.  At every step the rules returned by GetPolicySetRules must evaluate to the
   PolicyRef verdict for the CURRENT policies and the CURRENT IP-set contents. *)
From Coq Require Import List NArith Bool Arith.
From Verif.Common Require Import Packet PolicyRef.
From Verif.C30 Require Import Model Spec HistModel.
Import ListNotations.
Open Scope N_scope.

(* comparison up to the order of an address list (the real cache returns members in Go map order) *)
Definition cidr_key (c : cidr) : N := cidr_addr c * 256 + cidr_len c.
Fixpoint insert_cidr (c : cidr) (l : list cidr) : list cidr :=
  match l with
  | [] => [c]
  | d :: rest => if N.leb (cidr_key c) (cidr_key d) then c :: d :: rest else d :: insert_cidr c rest
  end.
Definition sort_cidrs (l : list cidr) : list cidr := fold_right insert_cidr [] l.
Definition canon_rule3 (h : hrule) : hrule :=
  mkH (h_prio h) (h_dir h) (h_act h) (h_proto h) (sort_cidrs (map norm_cidr (h_laddrs h))) (sort_cidrs (map norm_cidr (h_raddrs h)))
      (h_lports h) (h_rports h).

Record hcase := mkHCase {
  hc_chunk : N; hc_ids : list N; hc_inbound : bool; hc_eot : bool;
  hc_ops : list hop;
  hc_obs : list (list hrule);          (* GetPolicySetRules of the implementation after each op *)
  hc_pkts : list packet
}.

(* (model agrees, oracle accepts) accumulated over the steps *)
Fixpoint check_steps (chunk : nat) (ids : list N) (inbound eot : bool) (pkts : list packet)
         (s : hstate) (ops : list hop) (obs : list (list hrule)) : bool * bool :=
  match ops, obs with
  | [], [] => (true, true)
  | o :: ops', impl :: obs' =>
      let s' := step chunk s o in
      let pols := current_pols s' ids in
      let agree := hrules_eqb (map canon_rule3 (observe s' ids inbound eot)) (map canon_rule3 impl) in
      (* only when every policy of the tier is known to the policy sets (an unknown id stops GetPolicySetRules) *)
      let ok := negb (forallb (fun bp : bool * polset => fst bp) pols && in_oracle_domain (snd s') chunk pols inbound)
                || ok_rules (snd s') pols inbound eot impl pkts in
      let '(a, b) := check_steps chunk ids inbound eot pkts s' ops' obs' in
      (agree && a, ok && b)
  | _, _ => (false, true)
  end.

Definition check_hcase (c : hcase) : bool * bool :=
  check_steps (N.to_nat (hc_chunk c)) (hc_ids c) (hc_inbound c) (hc_eot c) (hc_pkts c) ([], []) (hc_ops c) (hc_obs c).
