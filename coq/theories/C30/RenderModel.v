(* C30 — rendering histories: several endpoints / tier layouts rendered one after the other from ONE PolicySets
   (endpoint_mgr.go: per tier GetPolicySetRules over the cached members, flattenTiers, rewritePriorities), interleaved
   with policy-set and IP-set operations.  In the code GetPolicySetRules hands out COPIES of the cached rules, so
   flattenTiers' in-place pass->Block and rewritePriorities' in-place priorities never reach the cache: in the model a
   rendering reads the state and does not change it.  Definitions only. *)
From Coq Require Import List NArith Bool Arith.
From Verif.Common Require Import Packet PolicyRef.
From Verif.C30 Require Import Model EndModel HistModel.
Import ListNotations.
Open Scope N_scope.

(* a tier as the WorkloadEndpoint names it: policy-set ids per direction *)
Record idtier := mkIT { it_is_default : bool; it_default_pass : bool; it_in : list N; it_out : list N }.
Record layout := mkL { l_tiers : list idtier; l_profiles : list N }.

Definition it_ids (inbound : bool) (t : idtier) : list N := if inbound then it_in t else it_out t.

(* endpoint_mgr.go, one direction: the per-tier lists read from the policy-set cache *)
Definition dir_lists_ids (s : hstate) (L : layout) (inbound : bool) : list (list hrule) :=
  let live := filter (fun t => negb (is_nil (it_ids inbound t))) (l_tiers L) in
  let lists := map (fun t => observe s (it_ids inbound t) inbound (negb (it_default_pass t))) live in
  if is_nil lists || negb (existsb it_is_default live)
  then lists ++ [observe s (l_profiles L) inbound true]
  else lists.

Definition dir_assemble (fixed : bool) (lists : list (list hrule)) (inbound no_host_prio : bool) : option (list (rtype * hrule)) :=
  match flatten_tiers fixed lists with
  | None => None
  | Some flat => Some (map (fun h => (RSwitch, h)) (rewrite_priorities MAX_PRIO flat) ++ [host_rule inbound no_host_prio])
  end.
Definition assemble (fixed : bool) (lin lout : list (list hrule)) (host_addrs : list cidr) (no_host_prio : bool)
  : option (list (rtype * hrule)) :=
  match dir_assemble fixed lin true no_host_prio with
  | None => None
  | Some fin => match dir_assemble fixed lout false no_host_prio with
                | None => None
                | Some fout => Some (node_rule host_addrs ++ fin ++ fout)
                end
  end.

(* one rendering: reads the state, returns the endpoint's rule list (None = panic) *)
Definition render (fixed : bool) (s : hstate) (L : layout) (host_addrs : list cidr) (no_host_prio : bool)
  : option (list (rtype * hrule)) :=
  assemble fixed (dir_lists_ids s L true) (dir_lists_ids s L false) host_addrs no_host_prio.

(* the current policy behind an id *)
Definition cur (s : hstate) (id : N) : bool * polset :=
  match pstore_get (fst s) id with Some e => (true, pe_ps e) | None => (false, {| ps_in := []; ps_out := [] |}) end.

(* the layout with the ids replaced by the policies they stand for now *)
Definition resolve_tier (s : hstate) (t : idtier) : tierspec :=
  mkTS (it_is_default t) (it_default_pass t)
       (map (fun id => mkTP (fst (cur s id)) true false (snd (cur s id))) (it_in t)
        ++ map (fun id => mkTP (fst (cur s id)) false true (snd (cur s id))) (it_out t)).
Definition resolve_profiles (s : hstate) (L : layout) : list polset := map (fun id => snd (cur s id)) (l_profiles L).
Definition profiles_present (s : hstate) (L : layout) : bool := forallb (fun id => fst (cur s id)) (l_profiles L).

(* histories with renderings *)
Inductive rop := ROp (o : hop) | RRender (L : layout).
Fixpoint hops_of (ops : list rop) : list hop :=
  match ops with [] => [] | ROp o :: r => o :: hops_of r | RRender _ :: r => hops_of r end.

Fixpoint run_r (fixed : bool) (chunk : nat) (host_addrs : list cidr) (nhp : bool) (s : hstate) (ops : list rop)
  : list (option (list (rtype * hrule))) :=
  match ops with
  | [] => []
  | ROp o :: r => run_r fixed chunk host_addrs nhp (step chunk s o) r
  | RRender L :: r => render fixed s L host_addrs nhp :: run_r fixed chunk host_addrs nhp s r
  end.
