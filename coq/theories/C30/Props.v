(* C30 — property theorems only.  Each is closed by `exact <lemma>` and followed by Print Assumptions. *)
From Coq Require Import List NArith Bool Arith Permutation.
From Verif.Common Require Import Packet PolicyRef.
From Verif.C30 Require Import Model Spec ProofsCidr ProofsRule ProofsTier EndModel EndSpec EndProofsA EndProofsB EndProofsC HistModel HistSpec HistProofs RenderModel RenderSpec RenderProofs MeetsSpec.
Import ListNotations.
Open Scope N_scope.

(* MAIN.  For every IP-set store, chunk size, tier (or profile list) of policies in the domain (Spec.in_domain:
   supported criteria only, at most one IP-set id per side, services rules on their own and egress only, every
   policy known to the policy manager, < 64000 rules), direction, end-of-tier action and IPv4 connection:
   evaluating the HNS ACL rules produced by AddOrReplacePolicySet + GetPolicySetRules by priority — some rule can
   win and EVERY matching rule of the lowest priority number has that action — gives exactly the verdict of the
   reference semantics (Common/PolicyRef.tier_verdict over Spec.sets_sem): Allow / Block / pass, with the tier's
   default at the end.  Chunking of address and port lists (any chunk size > 0), CIDR/IP-set intersection through
   IntersectCIDRs, the services (ip,port set) short-circuit, skipped log / IPv6 / no-op / missing-set rules and the
   uint16 priority arithmetic are all inside the statement. *)
Theorem c30_same_verdict : forall st chunk pols inbound eot_drop p,
  in_domain st chunk pols inbound = true -> packet_ok p = true ->
  hns_gives (tier_hns st chunk pols inbound eot_drop) inbound p (expected st pols inbound eot_drop p) = true.
Proof. intros. apply tier_same_verdict; assumption. Qed.
Print Assumptions c30_same_verdict.

(* Rules that share a priority share their action, so HNS's own tie-break cannot matter ... *)
Theorem c30_same_priority_same_action : forall st chunk pols inbound eot_drop x y,
  in_domain st chunk pols inbound = true ->
  In x (tier_hns st chunk pols inbound eot_drop) -> In y (tier_hns st chunk pols inbound eot_drop) ->
  h_prio x = h_prio y -> h_act x = h_act y.
Proof.
  intros st chunk pols inbound eot x y Hd. apply pw_same_prio.
  apply (tier_same_verdict st chunk pols inbound eot (PK 0 0 0 0 0) Hd eq_refl).
Qed.
Print Assumptions c30_same_priority_same_action.

(* ... and the rule list may be handed to HNS in any order: the verdict by priority is the same. *)
Theorem c30_same_action_reorder_safe : forall st chunk pols inbound eot_drop p rules',
  in_domain st chunk pols inbound = true -> packet_ok p = true ->
  Permutation (tier_hns st chunk pols inbound eot_drop) rules' ->
  hns_gives rules' inbound p (expected st pols inbound eot_drop p) = true.
Proof.
  intros st chunk pols inbound eot p rules' Hd Hp Hperm.
  rewrite (hns_gives_perm _ _ inbound p _ Hperm). apply tier_same_verdict; assumption.
Qed.
Print Assumptions c30_same_action_reorder_safe.

(* One rule: some HNS rule made from it matches a connection iff the policy rule does (errors = no rules),
   for every chunk size; the produced rules carry the rule's action and direction. *)
Theorem c30_rule_exact : forall st inbound chunk r p,
  wf_sets st = true -> (chunk <> 0)%nat -> supported_rule inbound r = true -> packet_ok p = true ->
  match rule_to_hns st inbound chunk r with
  | ConvOk l => existsb (fun h => hmatch inbound h p) l = rule_matches (sets_sem st) r p
                /\ exists a, act_of r = Some a /\ good_rules inbound a l
  | ConvErr _ => rule_matches (sets_sem st) r p = false \/ r_action r = Log
  end.
Proof. exact rule_sem. Qed.
Print Assumptions c30_rule_exact.

(* Splitting a list into chunks and taking the cross product of the chunks is the original rule. *)
Theorem c30_chunk_cross_product : forall inbound p prio act proto (n : nat) la ra lp rp, (n <> 0)%nat ->
  existsb (fun h => hmatch inbound h p)
    (flat_map (fun a => flat_map (fun b => flat_map (fun c =>
        map (fun d => mkH prio (dir_of inbound) act proto a c b d) (split_list n rp))
        (split_list n ra)) (split_list n lp)) (split_list n la))
  = hmatch inbound (mkH prio (dir_of inbound) act proto la ra lp rp) p.
Proof.
  intros. rewrite cross_product_sem by assumption. rewrite hmatch_eq. cbn [h_dir h_proto h_laddrs h_raddrs h_lports h_rports].
  rewrite hdir_eqb_refl. reflexivity.
Qed.
Print Assumptions c30_chunk_cross_product.

(* iputils.IntersectCIDRs: an address lies in some output CIDR iff it lies in a CIDR of each input list. *)
Theorem c30_intersect_cidrs : forall xs ys x, Forall ok4 xs -> Forall ok4 ys ->
  existsb (fun c => in_cidr c V4 x) (intersect_cidrs xs ys)
  = existsb (fun c => in_cidr c V4 x) xs && existsb (fun c => in_cidr c V4 x) ys.
Proof. exact intersect_cidrs_sem. Qed.
Print Assumptions c30_intersect_cidrs.

(* FINDING (model witness, replayed on the real code by the kind:rule-services-plus stream): outside the domain guard
   `services_alone` the short-circuit drops the rule's other criteria.  An egress rule
   {Deny, protocol UDP, destination services s} with s = {10.1.0.1 tcp/80} blocks the TCP connection to 10.1.0.1:80
   although the rule (protocol UDP) does not match it. *)
Theorem c30_services_with_protocol_refuted : exists st r p,
  oracle_rule false r = true /\ packet_ok p = true /\
  rule_matches (sets_sem st) r p = false /\
  match rule_to_hns st false CHUNK r with ConvOk l => existsb (fun h => hmatch false h p) l = true | ConvErr _ => False end.
Proof.
  exists [(10, SetIPPorts [(C4 167837697 32, 6, 80)])], (RS Deny None (Some 17) [] [] [] [] [] [] [10]),
         (PK 6 167772161 167837697 40000 80).
  vm_compute. repeat split; reflexivity.
Qed.
Print Assumptions c30_services_with_protocol_refuted.

(* ENDPOINT LEVEL.  The rule list endpoint_mgr.go applies to an HNS endpoint: one GetPolicySetRules list per tier that
   has policies for the direction, the profiles when the default tier has none, flattenTiers (combineRules /
   combineCIDRs / combinePorts), rewritePriorities, the host rules and the node->endpoint rule, both directions in
   one list.  With the repaired combinePorts (fixed = true, fixes/C30-combine-ports-empty-and-last-port.patch), for
   every policy set in EndSpec.ep_domain for both directions (supported criteria, no staged policy, no Pass that
   could leave the last rule list) and every IPv4 connection of either direction that does not come from one of the
   node's own addresses: the switch rules evaluated by priority give exactly PolicyRef.endpoint_verdict (tiers in
   order, Pass moves on, tier defaults, then the profiles, else deny) and the host layer allows.
   (That every CIDR of the per-tier lists is well formed is derived from the input guards: lists_wf_from_domain.) *)
Theorem c30_endpoint_same_verdict : forall st chunk tiers profiles host nhp final inbound p,
  ep_domain st chunk tiers profiles true = true -> ep_domain st chunk tiers profiles false = true ->
  endpoint_rules true st chunk tiers profiles host nhp = Some final ->
  fits_prio final = true -> ep_packet_ok host inbound p = true ->
  ep_gives final inbound p (ep_expected st tiers profiles inbound p) = true.
Proof. exact endpoint_same_verdict. Qed.
Print Assumptions c30_endpoint_same_verdict.

(* flattenTiers is sequential composition: the first match of the flattened list is the first match of the first
   tier, and on Pass that of the following tiers; Pass in the last tier blocks.  (Every tier ends in a catch-all.) *)
Theorem c30_flatten_is_sequential : forall inbound p tiers,
  tiers <> [] -> Forall (wf_list inbound) tiers -> Forall (fun t => first_act inbound p t <> None) tiers ->
  exists flat, flatten_tiers true tiers = Some flat /\ wf_list inbound flat
               /\ first_act inbound p flat = seq_tiers (map (first_act inbound p) tiers).
Proof. exact flatten_tiers_sem. Qed.
Print Assumptions c30_flatten_is_sequential.

(* combineRules is conjunction (or no rule when the conjunction is empty), and never panics once repaired *)
Theorem c30_combine_rules_conjunction : forall inbound p r1 r2,
  h_dir r1 = dir_of inbound -> h_dir r2 = dir_of inbound -> wf_h r1 -> wf_h r2 ->
  match combine_rules true r1 r2 with
  | CNil => hmatch inbound r1 p && hmatch inbound r2 p = false
  | CPanic => False
  | CRule h => hmatch inbound h p = hmatch inbound r1 p && hmatch inbound r2 p
               /\ h_act h = h_act r2 /\ h_dir h = dir_of inbound /\ wf_h h
  end.
Proof. exact combine_rules_sem. Qed.
Print Assumptions c30_combine_rules_conjunction.

(* rewritePriorities (both branches: always increment / one priority per run of equal actions) keeps the list order
   as priority order and changes nothing else *)
Theorem c30_rewrite_priorities_order : forall inbound limit l, wf_list inbound l ->
  BASE_PRIO + N.of_nat (length l) < U16 ->
  (Nat.leb (length l) 1 = true -> rewrite_priorities limit l = l)
  /\ (Nat.leb (length l) 1 = false -> pw (rewrite_priorities limit l))
  /\ map strip (rewrite_priorities limit l) = map strip l.
Proof. exact rewrite_priorities_spec. Qed.
Print Assumptions c30_rewrite_priorities_order.

(* FINDING: combinePorts as it is in the tree.  (a) `aBitset.Len() == 0` never holds, so a Pass rule for tcp/80 in
   front of a tier allowing tcp/443 flattens to "allow tcp, any port": the connection to port 80 is allowed where the
   policy denies it.  (b) with tcp/80 in both rules Felix panics ("bitset said no end of range"). *)
Definition ex_t_pass80 : tierspec := mkTS false false [mkTP true true true (PS [RS Pass None (Some 6) [] [] [] [(80, 80)] [] [] []] [])].
Definition ex_t_allow (port : N) : tierspec :=
  mkTS true false [mkTP true true true (PS [RS Allow None (Some 6) [] [] [] [(port, port)] [] [] []] [])].
Definition gives_of (o : option (list (rtype * hrule))) (p : packet) (a : hact) : bool :=
  match o with Some final => ep_gives final true p a | None => false end.
Theorem c30_combine_ports_unfixed_refuted :
  (ep_domain [] CHUNK [ex_t_pass80; ex_t_allow 443] [] true = true
   /\ ep_expected [] [ex_t_pass80; ex_t_allow 443] [] true (PK 6 1 2 40000 80) = HBlock
   /\ gives_of (endpoint_rules false [] CHUNK [ex_t_pass80; ex_t_allow 443] [] [] true) (PK 6 1 2 40000 80) HAllow = true)
  /\ endpoint_rules false [] CHUNK [ex_t_pass80; ex_t_allow 80] [] [] true = None
  /\ gives_of (endpoint_rules true [] CHUNK [ex_t_pass80; ex_t_allow 80] [] [] true) (PK 6 1 2 40000 80) HAllow = true.
Proof. Time vm_compute. repeat split; reflexivity. Time Qed.
Print Assumptions c30_combine_ports_unfixed_refuted.

(* FINDING: a Pass that leaves the last rule list becomes Block.  (a) profile [Pass] followed by profile [Allow]:
   the reference moves on to the second profile and allows; (b) default tier [Pass] with profile [Allow]: the
   reference falls through to the profiles; Windows blocks in both cases (also with the repaired combinePorts). *)
Definition ex_prof_pass : polset := PS [RS Pass None None [] [] [] [] [] [] []] [].
Definition ex_prof_allow : polset := PS [RS Allow None None [] [] [] [] [] [] []] [].
Definition ex_default_pass : tierspec := mkTS true false [mkTP true true true ex_prof_pass].
Theorem c30_pass_leaves_last_list_refuted :
  (ep_expected [] [] [ex_prof_pass; ex_prof_allow] true (PK 6 1 2 3 4) = HAllow
   /\ gives_of (endpoint_rules true [] CHUNK [] [ex_prof_pass; ex_prof_allow] [] true) (PK 6 1 2 3 4) HBlock = true)
  /\ (ep_expected [] [ex_default_pass] [ex_prof_allow] true (PK 6 1 2 3 4) = HAllow
      /\ gives_of (endpoint_rules true [] CHUNK [ex_default_pass] [ex_prof_allow] [] true) (PK 6 1 2 3 4) HBlock = true).
Proof. Time vm_compute. repeat split; reflexivity. Time Qed.
Print Assumptions c30_pass_leaves_last_list_refuted.

(* HISTORIES.  Model: the PolicySets store with the IP-set ids each policy set records (getReferencedIpSetIds: every
   rule, rendered or not), ProcessIpSetUpdate re-rendering the policy sets that recorded the changed set, and the
   Windows IP-set cache (AddOrReplaceIPSet / RemoveIPSet / AddMembers / RemoveMembers, each followed by the callback).
   After ANY history of policy-set and IP-set operations, in any order, the cached rules of every policy set are the
   rules computed fresh from its current policy and the current IP-set contents ... *)
Theorem c30_history_independent : forall chunk h id e,
  pstore_get (fst (run_history chunk h)) id = Some e ->
  pe_members e = convert_policy (snd (run_history chunk h)) chunk (pe_ps e).
Proof. exact history_independent. Qed.
Print Assumptions c30_history_independent.

(* ... so GetPolicySetRules after the history is what a fresh PolicySets would return for the current policies and
   sets, and (with c30_same_verdict) evaluates to the PolicyRef verdict for the CURRENT state at every point. *)
Theorem c30_history_rules_fresh : forall chunk h ids inbound eot,
  observe (run_history chunk h) ids inbound eot
  = tier_hns (snd (run_history chunk h)) chunk (current_pols (run_history chunk h) ids) inbound eot.
Proof. exact observe_fresh. Qed.
Print Assumptions c30_history_rules_fresh.

Theorem c30_history_same_verdict : forall chunk h ids inbound eot p,
  in_domain (snd (run_history chunk h)) chunk (current_pols (run_history chunk h) ids) inbound = true ->
  packet_ok p = true ->
  hns_gives (observe (run_history chunk h) ids inbound eot) inbound p
            (expected (snd (run_history chunk h)) (current_pols (run_history chunk h) ids) inbound eot p) = true.
Proof. exact history_same_verdict. Qed.
Print Assumptions c30_history_same_verdict.

(* RENDERING HISTORIES.  One PolicySets serves many renderings (endpoints with different tier layouts).  A rendering
   after any history of policy-set / IP-set operations is the endpoint's rule list computed from scratch for the
   CURRENT policies, IP sets and that layout (a pure function of them) ... *)
Theorem c30_rendering_pure : forall fixed chunk h L host nhp,
  profiles_present (run_history chunk h) L = true ->
  render fixed (run_history chunk h) L host nhp
  = endpoint_rules fixed (snd (run_history chunk h)) chunk (map (resolve_tier (run_history chunk h)) (l_tiers L))
                   (resolve_profiles (run_history chunk h) L) host nhp.
Proof. exact render_fresh. Qed.
Print Assumptions c30_rendering_pure.

(* ... and it does not depend on what was rendered before: only on the operations that precede it. *)
Theorem c30_rendering_independent : forall fixed chunk host nhp ops1 L s,
  run_r fixed chunk host nhp s (ops1 ++ [RRender L])
  = run_r fixed chunk host nhp s ops1 ++ [render fixed (fold_left (step chunk) (hops_of ops1) s) L host nhp].
Proof. exact render_independent. Qed.
Print Assumptions c30_rendering_independent.

(* The oracles of the correspondence accept every run of the model inside the theorem domains. *)
Theorem c30_model_meets_spec : forall st chunk pols inbound eot pkts,
  in_domain st chunk pols inbound = true ->
  ok_rules st pols inbound eot (tier_hns st chunk pols inbound eot) pkts = true.
Proof. exact tier_model_meets_spec. Qed.
Print Assumptions c30_model_meets_spec.

Theorem c30_endpoint_model_meets_spec : forall st chunk tiers profiles host nhp final pin pout,
  ep_domain st chunk tiers profiles true = true -> ep_domain st chunk tiers profiles false = true ->
  endpoint_rules true st chunk tiers profiles host nhp = Some final -> fits_prio final = true ->
  ok_endpoint st tiers profiles host (Some final) pin pout = true.
Proof. exact endpoint_model_meets_spec. Qed.
Print Assumptions c30_endpoint_model_meets_spec.

(* Non-vacuity: the policy arrives while its IP set is empty (rule skipped), then the set gains a member. *)
Example c30_example_history :
  let h := [HSetReplace 1 []; HAddPolicy 0 (PS [RS Allow None None [] [] [] [] [1] [] []] []); HSetAdd 1 [C4 167772165 32]] in
  map (fun n => map (fun r => (h_prio r, h_act r, h_raddrs r)) (observe (run_history CHUNK (firstn n h)) [0] true true)) [2%nat; 3%nat]
  = [[(1001, HBlock, [])]; [(1000, HAllow, [C4 167772165 32]); (1001, HBlock, [])]].
Proof. vm_compute. reflexivity. Qed.

(* Non-vacuity at endpoint level: two tiers (the first passes tcp/80-90 on to the default tier, which allows 85-443)
   and a profile; in the domain for both directions, the flattened list combines the port lists. *)
Definition ex_ep_tiers : list tierspec :=
  [mkTS false true [mkTP true true true (PS [RS Pass None (Some 6) [C4 167772160 8] [] [] [(80, 90)] [] [] []; RS Deny None (Some 17) [] [] [] [] [] [] []]
                                            [RS Allow None None [] [] [] [] [] [] []])];
   mkTS true false [mkTP true true false (PS [RS Allow None (Some 6) [C4 167772160 16] [] [] [(85, 443)] [] [] []] [])]].
Example c30_example_endpoint :
  ep_domain ex_sets CHUNK ex_ep_tiers [PS [] []] true = true /\ ep_domain ex_sets CHUNK ex_ep_tiers [PS [] []] false = true
  /\ lists_wf ex_sets CHUNK ex_ep_tiers [PS [] []] true = true /\ lists_wf ex_sets CHUNK ex_ep_tiers [PS [] []] false = true
  /\ option_map (fun f => map (fun e => (h_prio (snd e), h_act (snd e), h_lports (snd e))) (filter (fun e => hdir_eqb (h_dir (snd e)) HIn) f))
                 (endpoint_rules true ex_sets CHUNK ex_ep_tiers [PS [] []] [] true)
     = Some [(1000, HAllow, [(85, 90)]); (1001, HBlock, [(80, 90)]); (1002, HBlock, []); (1003, HAllow, [(85, 443)]);
             (1004, HBlock, []); (0, HAllow, [])]
  /\ map (ep_expected ex_sets ex_ep_tiers [PS [] []] true) [PK 6 167772161 5 1 85; PK 6 167772161 5 1 80; PK 17 1 5 1 1; PK 1 1 5 0 0]
     = [HAllow; HBlock; HBlock; HBlock].
Proof. Time vm_compute. Time (repeat split; reflexivity). Time Qed.

(* Non-vacuity: a two-policy inbound tier with a CIDR+IP-set intersection, three port entries, chunk size 2
   (so the first rule is split), a services rule on the egress side, and priority bumps. *)
Example c30_example_domain :
  in_domain ex_sets 2 ex_pols true = true /\ in_domain ex_sets 2 ex_pols false = true.
Proof. vm_compute. split; reflexivity. Qed.
Example c30_example_rules :
  map (fun h => (h_prio h, h_act h, length (h_raddrs h), h_lports h)) (tier_hns ex_sets 2 ex_pols true true)
  = [(1000, HAllow, 2%nat, [(80, 80); (443, 443)]); (1000, HAllow, 2%nat, [(8080, 8090)]);
     (1001, HBlock, 0%nat, []); (1002, HAllow, 0%nat, [(53, 53)]); (1003, HBlock, 0%nat, [])].
Proof. vm_compute. reflexivity. Qed.
Example c30_example_verdicts :
  map (fun p => expected ex_sets ex_pols true true p)
      [PK 6 167772161 5 1000 8085; PK 6 167772500 5 1000 80; PK 17 9 5 53 53; PK 6 167772999 5 1 80]
  = [HAllow; HAllow; HBlock; HBlock]
  /\ expected ex_sets ex_pols false false (PK 6 1 167837953 5 80) = HPass.
Proof. vm_compute. split; reflexivity. Qed.
