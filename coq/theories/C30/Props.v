(* C30 — property theorems only.  Each is closed by `exact <lemma>` and followed by Print Assumptions. *)
From Coq Require Import List NArith Bool Arith Permutation.
From Verif.Common Require Import Packet PolicyRef.
From Verif.C30 Require Import Model Spec ProofsCidr ProofsRule ProofsTier.
Import ListNotations.
Open Scope N_scope.

(* MAIN.  For every IP-set store, chunk size, tier (or profile list) of policies in the domain (Spec.in_domain:
   supported criteria only, at most one IP-set id per side, services rules on their own and egress only, every
   policy known to the policy manager, < 64000 rules), direction, end-of-tier action and IPv4 connection:
   evaluating the HNS ACL rules produced by AddOrReplacePolicySet + GetPolicySetRules by priority — some rule can
   win and EVERY matching rule of the lowest priority number has that action — gives exactly the verdict of the
   reference semantics (Common/PolicyRef.tier_verdict over Spec.sets_sem): Allow / Block / pass, with the tier's
   default at the end.  Chunking of address and port lists (any chunk size > 0), CIDR/IP-set intersection through
   IntersectCIDRs, the services (ip,port set) short-circuit, skipped log / IPv6 / no-op / missing-set rules and the
   uint16 priority arithmetic are all inside the statement. *)
Theorem c30_same_verdict : forall st chunk pols inbound eot_drop p,
  in_domain st chunk pols inbound = true -> packet_ok p = true ->
  hns_gives (tier_hns st chunk pols inbound eot_drop) inbound p (expected st pols inbound eot_drop p) = true.
Proof. intros. apply tier_same_verdict; assumption. Qed.
Print Assumptions c30_same_verdict.

(* Rules that share a priority share their action, so HNS's own tie-break cannot matter ... *)
Theorem c30_same_priority_same_action : forall st chunk pols inbound eot_drop x y,
  in_domain st chunk pols inbound = true ->
  In x (tier_hns st chunk pols inbound eot_drop) -> In y (tier_hns st chunk pols inbound eot_drop) ->
  h_prio x = h_prio y -> h_act x = h_act y.
Proof.
  intros st chunk pols inbound eot x y Hd. apply pw_same_prio.
  apply (tier_same_verdict st chunk pols inbound eot (PK 0 0 0 0 0) Hd eq_refl).
Qed.
Print Assumptions c30_same_priority_same_action.

(* ... and the rule list may be handed to HNS in any order: the verdict by priority is the same. *)
Theorem c30_same_action_reorder_safe : forall st chunk pols inbound eot_drop p rules',
  in_domain st chunk pols inbound = true -> packet_ok p = true ->
  Permutation (tier_hns st chunk pols inbound eot_drop) rules' ->
  hns_gives rules' inbound p (expected st pols inbound eot_drop p) = true.
Proof.
  intros st chunk pols inbound eot p rules' Hd Hp Hperm.
  rewrite (hns_gives_perm _ _ inbound p _ Hperm). apply tier_same_verdict; assumption.
Qed.
Print Assumptions c30_same_action_reorder_safe.

(* One rule: some HNS rule made from it matches a connection iff the policy rule does (errors = no rules),
   for every chunk size; the produced rules carry the rule's action and direction. *)
Theorem c30_rule_exact : forall st inbound chunk r p,
  wf_sets st = true -> (chunk <> 0)%nat -> supported_rule inbound r = true -> packet_ok p = true ->
  match rule_to_hns st inbound chunk r with
  | ConvOk l => existsb (fun h => hmatch inbound h p) l = rule_matches (sets_sem st) r p
                /\ exists a, act_of r = Some a /\ good_rules inbound a l
  | ConvErr _ => rule_matches (sets_sem st) r p = false \/ r_action r = Log
  end.
Proof. exact rule_sem. Qed.
Print Assumptions c30_rule_exact.

(* Splitting a list into chunks and taking the cross product of the chunks is the original rule. *)
Theorem c30_chunk_cross_product : forall inbound p prio act proto (n : nat) la ra lp rp, (n <> 0)%nat ->
  existsb (fun h => hmatch inbound h p)
    (flat_map (fun a => flat_map (fun b => flat_map (fun c =>
        map (fun d => mkH prio (dir_of inbound) act proto a c b d) (split_list n rp))
        (split_list n ra)) (split_list n lp)) (split_list n la))
  = hmatch inbound (mkH prio (dir_of inbound) act proto la ra lp rp) p.
Proof.
  intros. rewrite cross_product_sem by assumption. rewrite hmatch_eq. cbn [h_dir h_proto h_laddrs h_raddrs h_lports h_rports].
  rewrite hdir_eqb_refl. reflexivity.
Qed.
Print Assumptions c30_chunk_cross_product.

(* iputils.IntersectCIDRs: an address lies in some output CIDR iff it lies in a CIDR of each input list. *)
Theorem c30_intersect_cidrs : forall xs ys x, Forall ok4 xs -> Forall ok4 ys ->
  existsb (fun c => in_cidr c V4 x) (intersect_cidrs xs ys)
  = existsb (fun c => in_cidr c V4 x) xs && existsb (fun c => in_cidr c V4 x) ys.
Proof. exact intersect_cidrs_sem. Qed.
Print Assumptions c30_intersect_cidrs.

(* FINDING (model witness, replayed on the real code by the kind:rule-services-plus stream): outside the domain guard
   `services_alone` the short-circuit drops the rule's other criteria.  An egress rule
   {Deny, protocol UDP, destination services s} with s = {10.1.0.1 tcp/80} blocks the TCP connection to 10.1.0.1:80
   although the rule (protocol UDP) does not match it. *)
Theorem c30_services_with_protocol_refuted : exists st r p,
  oracle_rule false r = true /\ packet_ok p = true /\
  rule_matches (sets_sem st) r p = false /\
  match rule_to_hns st false CHUNK r with ConvOk l => existsb (fun h => hmatch false h p) l = true | ConvErr _ => False end.
Proof.
  exists [(10, SetIPPorts [(C4 167837697 32, 6, 80)])], (RS Deny None (Some 17) [] [] [] [] [] [] [10]),
         (PK 6 167772161 167837697 40000 80).
  vm_compute. repeat split; reflexivity.
Qed.
Print Assumptions c30_services_with_protocol_refuted.

(* Non-vacuity: a two-policy inbound tier with a CIDR+IP-set intersection, three port entries, chunk size 2
   (so the first rule is split), a services rule on the egress side, and priority bumps. *)
Example c30_example_domain :
  in_domain ex_sets 2 ex_pols true = true /\ in_domain ex_sets 2 ex_pols false = true.
Proof. vm_compute. split; reflexivity. Qed.
Example c30_example_rules :
  map (fun h => (h_prio h, h_act h, length (h_raddrs h), h_lports h)) (tier_hns ex_sets 2 ex_pols true true)
  = [(1000, HAllow, 2%nat, [(80, 80); (443, 443)]); (1000, HAllow, 2%nat, [(8080, 8090)]);
     (1001, HBlock, 0%nat, []); (1002, HAllow, 0%nat, [(53, 53)]); (1003, HBlock, 0%nat, [])].
Proof. vm_compute. reflexivity. Qed.
Example c30_example_verdicts :
  map (fun p => expected ex_sets ex_pols true true p)
      [PK 6 167772161 5 1000 8085; PK 6 167772500 5 1000 80; PK 17 9 5 53 53; PK 6 167772999 5 1 80]
  = [HAllow; HAllow; HBlock; HBlock]
  /\ expected ex_sets ex_pols false false (PK 6 1 167837953 5 80) = HPass.
Proof. vm_compute. split; reflexivity. Qed.
