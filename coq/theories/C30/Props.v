(* C30 — property theorems only. *)
From Coq Require Import List NArith Bool Arith.
From Verif.Common Require Import Packet PolicyRef.
From Verif.C30 Require Import Model Spec Proofs.
Import ListNotations.
Open Scope N_scope.

Theorem c30_split_never_empty : forall A (size : nat) (l : list A), split_list size l <> [].
Proof. exact split_list_nonempty. Qed.
Print Assumptions c30_split_never_empty.
