(* C30 — endpoint level, part A: combineCIDRs / combinePorts / combineRules mean conjunction (repaired combinePorts),
   and the per-tier rule lists are well formed. *)
From Coq Require Import List NArith Bool Arith Lia Btauto.
From Verif.Common Require Import Packet PolicyRef.
From Verif.C30 Require Import Model Spec ProofsCidr ProofsRule ProofsTier EndModel EndSpec.
Import ListNotations.
Open Scope N_scope.
Arguments N.sub : simpl never.
Arguments N.shiftr : simpl never.
Arguments N.shiftl : simpl never.
Arguments cidr_text : simpl never.
Arguments bytes_leb : simpl never.
Arguments intersect_cidrs : simpl never.
Arguments N.modulo : simpl never.
Arguments N.add : simpl never.

(* ------------------------------------------------------------------ membership through IntersectCIDRs *)
Lemma in_insert_text : forall x c l, In x (insert_text c l) -> x = c \/ In x l.
Proof.
  induction l as [|d l IH]; cbn [insert_text]; intros H.
  - destruct H as [<-|[]]. auto.
  - destruct (bytes_leb (cidr_text c) (cidr_text d)).
    + destruct H as [<-|H]; auto.
    + destruct H as [<-|H]; [right; left; reflexivity|]. destruct (IH H); auto. right. right. assumption.
Qed.
Lemma in_sort_text : forall x l, In x (sort_text l) -> In x l.
Proof.
  unfold sort_text. induction l as [|c l IH]; cbn [fold_right]; intros H; [exact H|].
  apply in_insert_text in H as [->|H]; [left; reflexivity|right; auto].
Qed.
Lemma in_dedup : forall x l, In x (dedup l) -> In x l.
Proof.
  induction l as [|c l IH]; cbn [dedup]; intros H; [exact H|].
  destruct (existsb (cidr_eqb c) l); [right; auto|]. destruct H as [<-|H]; [left; reflexivity|right; auto].
Qed.

Lemma isect1_ok4 : forall a b c, ok4 a -> ok4 b -> isect1 a b = Some c -> ok4 c.
Proof.
  intros a b c Ha Hb H. unfold isect1 in H.
  destruct (negb (ipver_eqb (cidr_ver a) (cidr_ver b))); [discriminate|].
  destruct (N.eqb (cidr_len a) (cidr_len b)).
  - destruct (N.eqb (cidr_addr a) (cidr_addr b)); [|discriminate]. injection H as <-. exact Ha.
  - destruct (N.ltb (cidr_len a) (cidr_len b)).
    + destruct (in_cidr a (cidr_ver b) (cidr_addr b)); [|discriminate]. injection H as <-. exact Hb.
    + destruct (in_cidr b (cidr_ver a) (cidr_addr a)); [|discriminate]. injection H as <-. exact Ha.
Qed.

Lemma intersect_cidrs_ok4 : forall xs ys, Forall ok4 xs -> Forall ok4 ys -> Forall ok4 (intersect_cidrs xs ys).
Proof.
  intros xs ys Hx Hy. apply Forall_forall. intros c Hc. unfold intersect_cidrs in Hc.
  apply in_sort_text, in_dedup in Hc. unfold intersect_pairs in Hc.
  apply in_flat_map in Hc as [a [Ha Hc]]. apply in_flat_map in Hc as [b [Hb Hc]].
  rewrite Forall_forall in Hx, Hy.
  destruct (isect1 (norm_cidr a) (norm_cidr b)) as [d|] eqn:E; [|contradiction].
  destruct Hc as [<-|[]]. eapply isect1_ok4; [| |exact E]; apply ok4_norm; auto.
Qed.

(* ------------------------------------------------------------------ combineCIDRs *)
Lemma combine_cidrs_sem : forall xs ys x, Forall ok4 xs -> Forall ok4 ys ->
  match combine_cidrs xs ys with
  | None => field_ok (fun c => in4 c x) xs && field_ok (fun c => in4 c x) ys = false
  | Some l => field_ok (fun c => in4 c x) l = field_ok (fun c => in4 c x) xs && field_ok (fun c => in4 c x) ys
              /\ Forall ok4 l
  end.
Proof.
  intros xs ys x Hx Hy. unfold combine_cidrs.
  destruct xs as [|a xs]; [split; [reflexivity|exact Hy]|].
  destruct ys as [|b ys]; [split; [rewrite andb_true_r; reflexivity|exact Hx]|].
  set (X := a :: xs) in *. set (Y := b :: ys) in *.
  pose proof (intersect_cidrs_sem X Y x Hx Hy) as Hs. pose proof (intersect_cidrs_ok4 X Y Hx Hy) as Ho.
  unfold field_ok. change (is_nil X) with false. change (is_nil Y) with false. cbn [orb].
  destruct (intersect_cidrs X Y) as [|i il].
  - symmetry. exact Hs.
  - split; [exact Hs|exact Ho].
Qed.

(* ------------------------------------------------------------------ combinePorts (repaired) *)
Lemma range_meet_sem : forall x y p,
  existsb (fun r => in_range r p) (range_meet x y) = in_range x p && in_range y p.
Proof.
  intros [a b] [c d] p. unfold range_meet, in_range. cbn [fst snd].
  destruct (N.leb (N.max a c) (N.min b d)) eqn:E; cbn [existsb fst snd].
  - rewrite orb_false_r. apply Bool.eq_iff_eq_true. rewrite !andb_true_iff, !N.leb_le. lia.
  - apply N.leb_gt in E. symmetry. apply Bool.not_true_iff_false. rewrite !andb_true_iff, !N.leb_le. lia.
Qed.

Lemma pair_ranges_sem : forall a b p,
  existsb (fun r => in_range r p) (pair_ranges a b)
  = existsb (fun r => in_range r p) a && existsb (fun r => in_range r p) b.
Proof.
  intros a b p. unfold pair_ranges. rewrite existsb_flat_map.
  transitivity (existsb (fun x => in_range x p && existsb (fun r => in_range r p) b) a).
  - apply existsb_ext'. intros x _. rewrite existsb_flat_map.
    rewrite <- existsb_and_const. apply existsb_ext'. intros y _. apply range_meet_sem.
  - apply existsb_const_and.
Qed.

Lemma combine_ports_sem : forall a b p,
  match combine_ports true a b with
  | PNoOp => field_ok (fun r => in_range r p) a && field_ok (fun r => in_range r p) b = false
  | PPanic => False
  | POk l => field_ok (fun r => in_range r p) l = field_ok (fun r => in_range r p) a && field_ok (fun r => in_range r p) b
  end.
Proof.
  intros a b p. unfold combine_ports.
  destruct a as [|x a]; [reflexivity|]. destruct b as [|y b]; [rewrite andb_true_r; reflexivity|].
  set (A := x :: a). set (B := y :: b). pose proof (pair_ranges_sem A B p) as Hs.
  unfold field_ok. change (is_nil A) with false. change (is_nil B) with false. cbn [orb].
  destruct (pair_ranges A B) as [|r l]; [symmetry; exact Hs|exact Hs].
Qed.

(* ------------------------------------------------------------------ combineRules *)
Definition wf_h (h : hrule) : Prop := Forall ok4 (h_laddrs h) /\ Forall ok4 (h_raddrs h).
Definition wf_list (inbound : bool) (l : list hrule) : Prop := Forall (fun h => h_dir h = dir_of inbound /\ wf_h h) l.

Lemma proto_combine : forall a b p,
  match (if negb (N.eqb a PROTO_ANY) then
           (if N.eqb b PROTO_ANY then Some a else if negb (N.eqb a b) then None else Some b)
         else Some b) with
  | None => proto_ok a p && proto_ok b p = false
  | Some c => proto_ok c p = proto_ok a p && proto_ok b p
  end.
Proof.
  intros a b p. unfold proto_ok.
  destruct (N.eqb a PROTO_ANY) eqn:Ea; cbn [negb].
  - reflexivity.
  - destruct (N.eqb b PROTO_ANY) eqn:Eb.
    + cbn [orb]. rewrite Ea. cbn. rewrite andb_true_r. reflexivity.
    + destruct (N.eqb a b) eqn:Eab; cbn [negb orb].
      * apply N.eqb_eq in Eab. subst b. rewrite Eb. cbn. destruct (N.eqb a (pk_proto p)); reflexivity.
      * destruct (N.eqb a (pk_proto p)) eqn:E1, (N.eqb b (pk_proto p)) eqn:E2; try reflexivity.
        apply N.eqb_eq in E1, E2. apply N.eqb_neq in Eab. congruence.
Qed.

Lemma combine_rules_sem : forall inbound p r1 r2,
  h_dir r1 = dir_of inbound -> h_dir r2 = dir_of inbound -> wf_h r1 -> wf_h r2 ->
  match combine_rules true r1 r2 with
  | CNil => hmatch inbound r1 p && hmatch inbound r2 p = false
  | CPanic => False
  | CRule h => hmatch inbound h p = hmatch inbound r1 p && hmatch inbound r2 p
               /\ h_act h = h_act r2 /\ h_dir h = dir_of inbound /\ wf_h h
  end.
Proof.
  intros inbound p r1 r2 D1 D2 [L1 R1] [L2 R2]. unfold combine_rules.
  rewrite !(hmatch_eq inbound r1), !(hmatch_eq inbound r2), D1, D2, hdir_eqb_refl. cbn [andb].
  pose proof (proto_combine (h_proto r1) (h_proto r2) p) as HP.
  destruct (if negb (N.eqb (h_proto r1) PROTO_ANY) then _ else _) as [pr|].
  2:{ destruct (proto_ok (h_proto r1) p), (proto_ok (h_proto r2) p); try discriminate HP; btauto. }
  pose proof (combine_cidrs_sem (h_laddrs r1) (h_laddrs r2) (loc_addr inbound p) L1 L2) as HL.
  destruct (combine_cidrs (h_laddrs r1) (h_laddrs r2)) as [la|].
  2:{ destruct (field_ok (fun c => in4 c (loc_addr inbound p)) (h_laddrs r1)),
               (field_ok (fun c => in4 c (loc_addr inbound p)) (h_laddrs r2)); try discriminate HL; btauto. }
  destruct HL as [HL HLok].
  pose proof (combine_cidrs_sem (h_raddrs r1) (h_raddrs r2) (rem_addr inbound p) R1 R2) as HR.
  destruct (combine_cidrs (h_raddrs r1) (h_raddrs r2)) as [ra|].
  2:{ destruct (field_ok (fun c => in4 c (rem_addr inbound p)) (h_raddrs r1)),
               (field_ok (fun c => in4 c (rem_addr inbound p)) (h_raddrs r2)); try discriminate HR; btauto. }
  destruct HR as [HR HRok].
  pose proof (combine_ports_sem (h_lports r1) (h_lports r2) (loc_port inbound p)) as HLP.
  destruct (combine_ports true (h_lports r1) (h_lports r2)) as [| |lp]; [|contradiction|].
  { destruct (field_ok (fun r => in_range r (loc_port inbound p)) (h_lports r1)),
             (field_ok (fun r => in_range r (loc_port inbound p)) (h_lports r2)); try discriminate HLP; btauto. }
  pose proof (combine_ports_sem (h_rports r1) (h_rports r2) (rem_port inbound p)) as HRP.
  destruct (combine_ports true (h_rports r1) (h_rports r2)) as [| |rp]; [|contradiction|].
  { destruct (field_ok (fun r => in_range r (rem_port inbound p)) (h_rports r1)),
             (field_ok (fun r => in_range r (rem_port inbound p)) (h_rports r2)); try discriminate HRP; btauto. }
  split; [|split; [reflexivity|split; [reflexivity|split; assumption]]].
  rewrite hmatch_eq. cbn [h_dir h_proto h_laddrs h_raddrs h_lports h_rports].
  rewrite hdir_eqb_refl, HP, HL, HR, HLP, HRP. cbn [andb]. btauto.
Qed.
