(* C30 — histories: the cached rules of every policy set are always the rules computed fresh from its current policy
   and the current IP sets. *)
From Coq Require Import List NArith Bool Arith Lia.
From Verif.Common Require Import Packet PolicyRef.
From Verif.C30 Require Import Model Spec ProofsCidr ProofsRule ProofsTier HistModel HistSpec.
Import ListNotations.
Open Scope N_scope.
Arguments intersect_cidrs : simpl never.
Arguments N.modulo : simpl never.

(* ------------------------------------------------------------------ the IP-set cache *)
Lemma lookup_set_del : forall st id id', lookup_set (set_del st id) id' = if N.eqb id id' then None else lookup_set st id'.
Proof.
  induction st as [|[k c] st IH]; intros id id'; cbn [set_del filter lookup_set fst].
  - destruct (N.eqb id id'); reflexivity.
  - fold (set_del st id). destruct (N.eqb k id) eqn:E; cbn [negb].
    + apply N.eqb_eq in E. subst k. rewrite IH. destruct (N.eqb id id'); reflexivity.
    + cbn [lookup_set]. rewrite IH. destruct (N.eqb k id') eqn:E2; [|reflexivity].
      apply N.eqb_eq in E2. subst k. rewrite N.eqb_sym, E. reflexivity.
Qed.

Lemma lookup_set_put : forall st id c id', lookup_set (set_put st id c) id' = if N.eqb id id' then Some c else lookup_set st id'.
Proof.
  intros. unfold set_put. cbn [lookup_set]. destruct (N.eqb id id') eqn:E; [reflexivity|]. rewrite lookup_set_del, E. reflexivity.
Qed.

(* ------------------------------------------------------------------ rendering reads only the referenced sets *)
Lemma get_net_members_ext : forall st st' ids, (forall id, In id ids -> lookup_set st id = lookup_set st' id) ->
  get_net_members st ids = get_net_members st' ids.
Proof.
  induction ids as [|id ids IH]; intros H; [reflexivity|]. cbn [get_net_members].
  rewrite <- (H id (or_introl eq_refl)), IH by (intros; apply H; right; assumption). reflexivity.
Qed.
Lemma get_ipport_members_ext : forall st st' ids, (forall id, In id ids -> lookup_set st id = lookup_set st' id) ->
  get_ipport_members st ids = get_ipport_members st' ids.
Proof.
  induction ids as [|id ids IH]; intros H; [reflexivity|]. cbn [get_ipport_members].
  rewrite <- (H id (or_introl eq_refl)), IH by (intros; apply H; right; assumption). reflexivity.
Qed.
Lemma side_addresses_ext : forall st st' nets ids, (forall id, In id ids -> lookup_set st id = lookup_set st' id) ->
  side_addresses st nets ids = side_addresses st' nets ids.
Proof. intros. unfold side_addresses. rewrite (get_net_members_ext st st' ids H). reflexivity. Qed.

Lemma rule_to_hns_frame : forall st st' b chunk r,
  (forall id, In id (rule_refs r) -> lookup_set st id = lookup_set st' id) ->
  rule_to_hns st b chunk r = rule_to_hns st' b chunk r.
Proof.
  intros st st' b chunk r H. unfold rule_refs in H.
  assert (E1 : forall nets, side_addresses st nets (r_src_ipsets r) = side_addresses st' nets (r_src_ipsets r))
    by (intros; apply side_addresses_ext; intros; apply H; apply in_or_app; left; assumption).
  assert (E2 : forall nets, side_addresses st nets (r_dst_ipsets r) = side_addresses st' nets (r_dst_ipsets r))
    by (intros; apply side_addresses_ext; intros; apply H; apply in_or_app; right; apply in_or_app; left; assumption).
  assert (E3 : get_ipport_members st (r_dst_ipport_sets r) = get_ipport_members st' (r_dst_ipport_sets r))
    by (apply get_ipport_members_ext; intros; apply H; apply in_or_app; right; apply in_or_app; right; assumption).
  unfold rule_to_hns. rewrite E3.
  destruct (filter_nets (r_src_nets r)) as [sn a1]. destruct (filter_nets (r_dst_nets r)) as [dn a2].
  rewrite (E1 sn), (E2 dn). reflexivity.
Qed.

Lemma rules_to_hns_frame : forall st st' b chunk rs,
  (forall id, In id (flat_map rule_refs rs) -> lookup_set st id = lookup_set st' id) ->
  rules_to_hns st b chunk rs = rules_to_hns st' b chunk rs.
Proof.
  intros st st' b chunk rs H. unfold rules_to_hns. induction rs as [|r rs IH]; [reflexivity|]. cbn [flat_map] in *.
  rewrite (rule_to_hns_frame st st' b chunk r) by (intros; apply H; apply in_or_app; left; assumption).
  rewrite IH by (intros; apply H; apply in_or_app; right; assumption). reflexivity.
Qed.

Lemma convert_policy_frame : forall st st' chunk ps,
  (forall id, In id (refs_of ps) -> lookup_set st id = lookup_set st' id) ->
  convert_policy st chunk ps = convert_policy st' chunk ps.
Proof.
  intros st st' chunk ps H. unfold convert_policy, refs_of in *. rewrite flat_map_app in H.
  rewrite (rules_to_hns_frame st st' true) by (intros; apply H; apply in_or_app; left; assumption).
  rewrite (rules_to_hns_frame st st' false) by (intros; apply H; apply in_or_app; right; assumption). reflexivity.
Qed.

(* ------------------------------------------------------------------ the invariant *)
Definition fresh (chunk : nat) (st : setstore) (ke : N * pentry) : Prop :=
  pe_refs (snd ke) = refs_of (pe_ps (snd ke)) /\ pe_members (snd ke) = convert_policy st chunk (pe_ps (snd ke)).
Definition Inv (chunk : nat) (s : hstate) : Prop := Forall (fresh chunk (snd s)) (fst s).

Lemma process_keeps_fresh : forall chunk st st' ps sid,
  (forall id, N.eqb sid id = false -> lookup_set st' id = lookup_set st id) ->
  Forall (fresh chunk st) ps -> Forall (fresh chunk st') (process_set_update st' chunk ps sid).
Proof.
  intros chunk st st' ps sid Hl H. unfold process_set_update. rewrite Forall_map. eapply Forall_impl; [|exact H].
  intros [k e] [Hr Hm]. cbn [fst snd] in *.
  destruct (existsb (N.eqb sid) (pe_refs e)) eqn:E.
  - split; reflexivity.
  - split; [exact Hr|]. cbn [snd]. rewrite Hm. apply convert_policy_frame. intros id Hid. symmetry. apply Hl.
    rewrite <- Hr in Hid. destruct (N.eqb sid id) eqn:E2; [|reflexivity].
    assert (existsb (N.eqb sid) (pe_refs e) = true) by (apply existsb_exists; eauto). congruence.
Qed.

Lemma step_inv : forall chunk s o, Inv chunk s -> Inv chunk (step chunk s o).
Proof.
  intros chunk [ps st] o H. unfold Inv in *. cbn [fst snd] in H.
  assert (Hput : forall sid c, Forall (fresh chunk (set_put st sid c)) (process_set_update (set_put st sid c) chunk ps sid)).
  { intros. eapply process_keeps_fresh; [|exact H]. intros id E. rewrite lookup_set_put, E. reflexivity. }
  destruct o; cbn [step fst snd].
  - constructor; [split; reflexivity|]. unfold pstore_del. apply Forall_forall. intros x Hx. apply filter_In in Hx as [Hx _].
    rewrite Forall_forall in H. auto.
  - unfold pstore_del. apply Forall_forall. intros x Hx. apply filter_In in Hx as [Hx _]. rewrite Forall_forall in H. auto.
  - apply Hput.
  - eapply process_keeps_fresh; [|exact H]. intros id E. rewrite lookup_set_del, E. reflexivity.
  - destruct members; [exact H|]. apply Hput.
  - destruct members; [exact H|]. apply Hput.
Qed.

Lemma run_inv : forall chunk h s, Inv chunk s -> Inv chunk (fold_left (step chunk) h s).
Proof. induction h as [|o h IH]; intros s H; [exact H|]. cbn [fold_left]. apply IH. apply step_inv. exact H. Qed.

Lemma pstore_get_in : forall s id e, pstore_get s id = Some e -> exists k, In (k, e) s.
Proof.
  induction s as [|[k e'] s IH]; intros id e H; [discriminate|]. cbn [pstore_get] in H.
  destruct (N.eqb k id); [injection H as <-; exists k; left; reflexivity|]. destruct (IH _ _ H) as [k' Hk]. exists k'. right. exact Hk.
Qed.

(* after ANY history the cached rules of a policy set are the rules computed fresh from its current policy and the
   current contents of the IP sets *)
Theorem history_independent : forall chunk h id e,
  pstore_get (fst (run_history chunk h)) id = Some e ->
  pe_members e = convert_policy (snd (run_history chunk h)) chunk (pe_ps e).
Proof.
  intros chunk h id e H. assert (HI : Inv chunk (run_history chunk h)) by (apply run_inv; constructor).
  destruct (pstore_get_in _ _ _ H) as [k Hk]. unfold Inv in HI. rewrite Forall_forall in HI.
  destruct (HI _ Hk) as [_ Hm]. exact Hm.
Qed.

(* hence GetPolicySetRules after the history = the rules rendered from scratch *)
Theorem observe_fresh : forall chunk h ids inbound eot,
  observe (run_history chunk h) ids inbound eot
  = tier_hns (snd (run_history chunk h)) chunk (current_pols (run_history chunk h) ids) inbound eot.
Proof.
  intros. unfold observe, tier_hns, tier_sets, current_pols. f_equal. rewrite map_map. apply map_ext. intros id.
  destruct (pstore_get (fst (run_history chunk h)) id) as [e|] eqn:E; [|reflexivity]. cbn [option_map fst snd].
  rewrite (history_independent chunk h id e E). reflexivity.
Qed.

Theorem history_same_verdict : forall chunk h ids inbound eot p,
  in_domain (snd (run_history chunk h)) chunk (current_pols (run_history chunk h) ids) inbound = true ->
  packet_ok p = true ->
  hns_gives (observe (run_history chunk h) ids inbound eot) inbound p
            (expected (snd (run_history chunk h)) (current_pols (run_history chunk h) ids) inbound eot p) = true.
Proof. intros. rewrite observe_fresh. apply tier_same_verdict; assumption. Qed.
