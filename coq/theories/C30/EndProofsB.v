(* C30 — endpoint level, part B: flattenTiers is sequential composition of the tiers (first match per tier, Pass
   moves on, Pass in the last tier blocks); rewritePriorities keeps the order. *)
From Coq Require Import List NArith Bool Arith Lia.
From Verif.Common Require Import Packet PolicyRef.
From Verif.C30 Require Import Model Spec ProofsCidr ProofsRule ProofsTier EndModel EndSpec EndProofsA.
Import ListNotations.
Open Scope N_scope.
Arguments N.modulo : simpl never.
Arguments N.add : simpl never.
Arguments intersect_cidrs : simpl never.

Lemma first_act_app : forall inbound p l l',
  first_act inbound p (l ++ l') = match first_act inbound p l with Some a => Some a | None => first_act inbound p l' end.
Proof.
  unfold first_act. induction l as [|h l IH]; intros l'; cbn [app find]; [reflexivity|].
  destruct (hmatch inbound h p); [reflexivity|apply IH].
Qed.
Lemma first_act_cons : forall inbound p h l,
  first_act inbound p (h :: l) = if hmatch inbound h p then Some (h_act h) else first_act inbound p l.
Proof. intros. unfold first_act. cbn [find]. destruct (hmatch inbound h p); reflexivity. Qed.

Lemma append_combined_sem : forall inbound p r second,
  h_dir r = dir_of inbound -> wf_h r -> wf_list inbound second ->
  exists l, append_combined true second r = Some l /\ wf_list inbound l
            /\ first_act inbound p l = if hmatch inbound r p then first_act inbound p second else None.
Proof.
  intros inbound p r second Dr Wr. induction second as [|r2 rest IH]; intros Hw.
  - exists []. split; [reflexivity|]. split; [constructor|]. destruct (hmatch inbound r p); reflexivity.
  - inversion Hw as [|? ? [D2 W2] Hw']; subst. destruct (IH Hw') as [l [El [Wl Fl]]].
    cbn [append_combined]. pose proof (combine_rules_sem inbound p r r2 Dr D2 Wr W2) as Hc.
    destruct (combine_rules true r r2) as [| |h]; [|contradiction|].
    + exists l. split; [exact El|]. split; [exact Wl|]. rewrite Fl, first_act_cons.
      destruct (hmatch inbound r p); [|reflexivity]. cbn [andb] in Hc. rewrite Hc. reflexivity.
    + destruct Hc as [Hm [Ha [Hd Hwf]]]. rewrite El. exists (h :: l). split; [reflexivity|].
      split; [constructor; [split; assumption|exact Wl]|].
      rewrite !first_act_cons, Hm, Fl, Ha. destruct (hmatch inbound r p); reflexivity.
Qed.

Definition after_pass (a : option hact) (next : option hact) : option hact :=
  match a with Some HPass => next | x => x end.

Lemma is_pass_act : forall h, is_pass h = true <-> h_act h = HPass.
Proof. intros h. unfold is_pass. destruct (h_act h); simpl; split; congruence. Qed.

Lemma combine_tier_sem : forall inbound p second first,
  wf_list inbound first -> wf_list inbound second -> first_act inbound p second <> None ->
  exists nf, combine_tier true first second = Some nf /\ wf_list inbound nf
             /\ first_act inbound p nf = after_pass (first_act inbound p first) (first_act inbound p second).
Proof.
  intros inbound p second first Hf Hs Hc. induction Hf as [|r rest [Dr Wr] Hrest IH].
  - exists []. repeat split; constructor.
  - destruct IH as [nf' [E' [W' F']]]. cbn [combine_tier]. rewrite E'.
    destruct (is_pass r) eqn:Ep.
    + destruct (append_combined_sem inbound p r second Dr Wr Hs) as [l [El [Wl Fl]]]. rewrite El.
      exists (l ++ nf'). split; [reflexivity|]. split; [apply Forall_app; split; assumption|].
      rewrite first_act_app, Fl, first_act_cons, F'. apply is_pass_act in Ep. rewrite Ep.
      destruct (hmatch inbound r p); [|reflexivity]. cbn [after_pass].
      destruct (first_act inbound p second); [reflexivity|congruence].
    + exists (r :: nf'). split; [reflexivity|]. split; [constructor; [split; assumption|exact W']|].
      rewrite !first_act_cons, F'. destruct (hmatch inbound r p); [|reflexivity].
      cbn [after_pass]. destruct (h_act r) eqn:Ea; try reflexivity.
      exfalso. apply is_pass_act in Ea. congruence.
Qed.

Fixpoint seq_rest (inbound : bool) (p : packet) (rest : list (list hrule)) : option hact :=
  match rest with
  | [] => Some HPass
  | t :: r => after_pass (first_act inbound p t) (seq_rest inbound p r)
  end.

Lemma first_act_pass_exists : forall inbound p l, first_act inbound p l = Some HPass -> existsb is_pass l = true.
Proof.
  induction l as [|h l IH]; intros H; [discriminate|]. rewrite first_act_cons in H. cbn [existsb].
  destruct (hmatch inbound h p).
  - injection H as H. apply is_pass_act in H. rewrite H. reflexivity.
  - rewrite (IH H). apply orb_true_r.
Qed.

Lemma flatten_acc_sem : forall inbound p rest first,
  wf_list inbound first -> Forall (wf_list inbound) rest -> Forall (fun t => first_act inbound p t <> None) rest ->
  exists flat, flatten_acc true first rest = Some flat /\ wf_list inbound flat
               /\ first_act inbound p flat = after_pass (first_act inbound p first) (seq_rest inbound p rest).
Proof.
  intros inbound p rest. induction rest as [|second rest IH]; intros first Hf Hw Hc.
  - exists first. split; [reflexivity|]. split; [exact Hf|]. cbn [seq_rest].
    destruct (first_act inbound p first) as [[]|]; reflexivity.
  - cbn [flatten_acc seq_rest]. inversion Hw; subst. inversion Hc; subst.
    destruct (existsb is_pass first) eqn:Ep; cbn [negb].
    + destruct (combine_tier_sem inbound p second first Hf H1 H3) as [nf [En [Wn Fn]]]. rewrite En.
      destruct (IH nf Wn H2 H4) as [flat [Ef [Wf Ff]]]. exists flat. split; [exact Ef|]. split; [exact Wf|].
      rewrite Ff, Fn. destruct (first_act inbound p first) as [[]|]; reflexivity.
    + exists first. split; [reflexivity|]. split; [exact Hf|].
      destruct (first_act inbound p first) as [[]|] eqn:E; try reflexivity.
      apply first_act_pass_exists in E. congruence.
Qed.

(* Pass in the last tier becomes Block *)
Definition block_act (a : option hact) : option hact := match a with Some HPass => Some HBlock | x => x end.

Lemma hmatch_pass_to_block : forall inbound h p, hmatch inbound (pass_to_block h) p = hmatch inbound h p.
Proof. intros. unfold pass_to_block. destruct (is_pass h); [|reflexivity]. rewrite !hmatch_eq. reflexivity. Qed.

Lemma first_act_blocked : forall inbound p t, first_act inbound p (map pass_to_block t) = block_act (first_act inbound p t).
Proof.
  induction t as [|h t IH]; [reflexivity|]. cbn [map]. rewrite !first_act_cons, hmatch_pass_to_block, IH.
  destruct (hmatch inbound h p); [|reflexivity]. unfold pass_to_block.
  destruct (is_pass h) eqn:E; cbn [block_act].
  - apply is_pass_act in E. rewrite E. reflexivity.
  - destruct (h_act h) eqn:Ea; try reflexivity. apply is_pass_act in Ea. congruence.
Qed.

Lemma wf_list_blocked : forall inbound t, wf_list inbound t -> wf_list inbound (map pass_to_block t).
Proof.
  intros inbound t H. unfold wf_list in *. rewrite Forall_map. eapply Forall_impl; [|exact H].
  intros h [D W]. unfold pass_to_block. destruct (is_pass h); split; assumption.
Qed.

(* the verdict of a sequence of tiers, by the per-tier first matches *)
Fixpoint seq_tiers (acts : list (option hact)) : option hact :=
  match acts with
  | [] => None
  | [a] => block_act a
  | a :: rest => after_pass a (seq_tiers rest)
  end.

Lemma block_last_props : forall inbound p tiers,
  Forall (wf_list inbound) tiers -> Forall (fun t => first_act inbound p t <> None) tiers ->
  Forall (wf_list inbound) (block_last tiers)
  /\ Forall (fun t => first_act inbound p t <> None) (block_last tiers)
  /\ (tiers <> [] -> block_last tiers <> [])
  /\ forall t rest, block_last tiers = t :: rest ->
       after_pass (first_act inbound p t) (seq_rest inbound p rest) = seq_tiers (map (first_act inbound p) tiers).
Proof.
  intros inbound p. induction tiers as [|t tiers IH]; intros Hw Hc.
  - repeat split; try constructor; try congruence. intros; discriminate.
  - inversion Hw; subst. inversion Hc; subst. destruct (IH H2 H4) as [I1 [I2 [I3 I4]]].
    destruct tiers as [|t2 tiers'].
    + cbn [block_last map seq_tiers]. repeat split.
      * constructor; [apply wf_list_blocked; assumption|constructor].
      * constructor; [|constructor]. rewrite first_act_blocked. destruct (first_act inbound p t) as [[]|]; cbn; congruence.
      * discriminate.
      * intros t0 rest [= <- <-]. cbn [seq_rest]. rewrite first_act_blocked.
        destruct (first_act inbound p t) as [[]|]; reflexivity.
    + change (block_last (t :: t2 :: tiers')) with (t :: block_last (t2 :: tiers')).
      remember (block_last (t2 :: tiers')) as bl eqn:Ebl in *.
      repeat split.
      * constructor; assumption.
      * constructor; assumption.
      * discriminate.
      * intros t0 rest Heq. injection Heq as <- <-.
        destruct bl as [|b brest]; [exfalso; apply I3; [discriminate|reflexivity]|].
        cbn [seq_rest]. rewrite (I4 b brest eq_refl).
        change (map (first_act inbound p) (t :: t2 :: tiers'))
          with (first_act inbound p t :: map (first_act inbound p) (t2 :: tiers')).
        cbn [map]. reflexivity.
Qed.

Theorem flatten_tiers_sem : forall inbound p tiers,
  tiers <> [] -> Forall (wf_list inbound) tiers -> Forall (fun t => first_act inbound p t <> None) tiers ->
  exists flat, flatten_tiers true tiers = Some flat /\ wf_list inbound flat
               /\ first_act inbound p flat = seq_tiers (map (first_act inbound p) tiers).
Proof.
  intros inbound p tiers Hne Hw Hc. destruct (block_last_props inbound p tiers Hw Hc) as [I1 [I2 [I3 I4]]].
  unfold flatten_tiers. destruct (block_last tiers) as [|t rest] eqn:E; [exfalso; apply I3; auto|].
  inversion I1; subst. inversion I2; subst.
  destruct (flatten_acc_sem inbound p rest t H1 H2 H4) as [flat [Ef [Wf Ff]]].
  exists flat. split; [exact Ef|]. split; [exact Wf|]. rewrite Ff. apply I4. reflexivity.
Qed.

(* ------------------------------------------------------------------ rewritePriorities *)
Lemma strip_with_prio : forall h q, strip (with_prio h q) = strip h. Proof. reflexivity. Qed.

Lemma renumber_all_spec : forall l prio, prio + N.of_nat (length l) < U16 ->
  Forall (fun h => prio < h_prio h) (renumber_all l prio) /\ pw (renumber_all l prio)
  /\ map strip (renumber_all l prio) = map strip l.
Proof.
  induction l as [|h l IH]; intros prio Hb; [repeat split; constructor|].
  change (length (h :: l)) with (S (length l)) in Hb. rewrite Nat2N.inj_succ in Hb.
  cbn [renumber_all]. rewrite (N.mod_small (prio + 1)) by lia.
  destruct (IH (prio + 1)) as [I1 [I2 I3]]; [lia|]. split; [|split].
  - constructor; [cbn; lia|]. eapply Forall_impl; [|exact I1]. cbn. intros; lia.
  - cbn [pw]. split; [|exact I2]. eapply Forall_impl; [|exact I1]. intros x Hx. split; cbn in *; lia.
  - cbn [map]. rewrite I3. reflexivity.
Qed.

Lemma renumber_groups_emit : forall dir l prio last, Forall (fun h => h_dir h = dir) l ->
  renumber_groups l prio last = fst (fst (emit_members dir l prio (Some last))).
Proof.
  induction l as [|h l IH]; intros prio last Hd; [reflexivity|]. inversion Hd; subst.
  cbn [renumber_groups emit_members]. rewrite hdir_eqb_refl. cbn [negb].
  rewrite (IH _ _ H2).
  destruct (emit_members (h_dir h) l _ (Some (h_act h))) as [[o q] l']. reflexivity.
Qed.

Lemma filter_dirb_all : forall dir l, Forall (fun h => h_dir h = dir) l -> filter (dirb dir) l = l.
Proof.
  intros. apply filter_all. eapply Forall_impl; [|exact H]. intros h Hh. unfold dirb. rewrite Hh. apply hdir_eqb_refl.
Qed.

Lemma rewrite_priorities_cons2 : forall limit h h2 l,
  rewrite_priorities limit (h :: h2 :: l) =
  if N.ltb (N.of_nat (length (h :: h2 :: l))) ((limit + U16 - BASE_PRIO) mod U16)
  then with_prio h BASE_PRIO :: renumber_all (h2 :: l) BASE_PRIO
  else with_prio h BASE_PRIO :: renumber_groups (h2 :: l) BASE_PRIO (h_act h).
Proof. reflexivity. Qed.

Theorem rewrite_priorities_spec : forall inbound limit l, wf_list inbound l ->
  BASE_PRIO + N.of_nat (length l) < U16 ->
  (Nat.leb (length l) 1 = true -> rewrite_priorities limit l = l)
  /\ (Nat.leb (length l) 1 = false -> pw (rewrite_priorities limit l))
  /\ map strip (rewrite_priorities limit l) = map strip l.
Proof.
  intros inbound limit l Hw Hb. destruct l as [|h [|h2 l]]; [repeat split; try discriminate|repeat split; discriminate|].
  split; [discriminate|]. rewrite rewrite_priorities_cons2.
  assert (Hd : Forall (fun x => h_dir x = dir_of inbound) (h2 :: l)).
  { inversion Hw; subst. eapply Forall_impl; [|exact H2]. intros x [? _]. assumption. }
  change (length (h :: h2 :: l)) with (S (length (h2 :: l))) in *. rewrite Nat2N.inj_succ in Hb.
  remember (h2 :: l) as rest eqn:Er. clear Er Hw.
  destruct (N.ltb (N.of_nat (S (length rest))) ((limit + U16 - BASE_PRIO) mod U16)).
  - destruct (renumber_all_spec rest BASE_PRIO) as [I1 [I2 I3]]; [lia|]. split.
    + intros _. cbn [pw]. split; [|exact I2]. eapply Forall_impl; [|exact I1]. intros x Hx. split; cbn in *; lia.
    + cbn [map]. rewrite I3. reflexivity.
  - rewrite (renumber_groups_emit (dir_of inbound) rest BASE_PRIO (h_act h) Hd).
    destruct (emit_members (dir_of inbound) rest BASE_PRIO (Some (h_act h))) as [[o q] l'] eqn:E.
    destruct (emit_members_spec _ _ _ _ _ _ _ E) as (I1 & I2 & I3 & I4 & I5 & I6); [lia|].
    cbn [fst]. split.
    + intros _. cbn [pw]. split; [|exact I4]. specialize (I5 _ eq_refl).
      rewrite Forall_forall in I3, I5. apply Forall_forall. intros x Hx. destruct (I3 x Hx) as [? ?].
      split; [cbn; lia|]. cbn. intros Heq. symmetry. apply (I5 x Hx). symmetry. exact Heq.
    + cbn [map]. rewrite I6, filter_dirb_all by exact Hd. reflexivity.
Qed.
