(* C30 — histories: executable model of the PolicySets bookkeeping over time (AddOrReplacePolicySet, RemovePolicySet,
   the IpSetIds each policy set records via getReferencedIpSetIds, ProcessIpSetUpdate = recompute every policy set
   that references the changed IP set) together with the Windows IP-set cache (felix/dataplane/windows/ipsets:
   AddOrReplaceIPSet, RemoveIPSet, AddMembers, RemoveMembers, each followed by the update callback, which the
   dataplane routes to PolicySets.ProcessIpSetUpdate).  Definitions only. *)
From Coq Require Import List NArith Bool Arith.
From Verif.Common Require Import Packet PolicyRef.
From Verif.C30 Require Import Model.
Import ListNotations.
Open Scope N_scope.

(* ------------------------------------------------------------------ the IP-set cache *)
Definition set_del (st : setstore) (id : N) : setstore := filter (fun e => negb (N.eqb (fst e) id)) st.
Definition set_put (st : setstore) (id : N) (c : setcontent) : setstore := (id, c) :: set_del st id.

Definition has_cidr (l : list cidr) (c : cidr) : bool := existsb (cidr_eqb c) l.
(* members are a set *)
Fixpoint add_members (cur new : list cidr) : list cidr :=
  match new with
  | [] => cur
  | c :: rest => if has_cidr cur c then add_members cur rest else add_members (cur ++ [c]) rest
  end.
Definition del_members (cur gone : list cidr) : list cidr := filter (fun c => negb (has_cidr gone c)) cur.

(* ------------------------------------------------------------------ policy sets *)
(* getReferencedIpSetIds *)
Definition rule_refs (r : rule) : list N := r_src_ipsets r ++ r_dst_ipsets r ++ r_dst_ipport_sets r.
Definition refs_of (ps : polset) : list N := flat_map rule_refs (ps_in ps ++ ps_out ps).

Record pentry := mkPE { pe_ps : polset; pe_members : list hrule; pe_refs : list N }.
Definition pstore := list (N * pentry).

Fixpoint pstore_get (s : pstore) (id : N) : option pentry :=
  match s with
  | [] => None
  | (k, e) :: rest => if N.eqb k id then Some e else pstore_get rest id
  end.
Definition pstore_del (s : pstore) (id : N) : pstore := filter (fun e => negb (N.eqb (fst e) id)) s.

(* AddOrReplacePolicySet: rules rendered with the IP sets as they are now *)
Definition render (st : setstore) (chunk : nat) (ps : polset) : pentry :=
  mkPE ps (convert_policy st chunk ps) (refs_of ps).
Definition add_policy (st : setstore) (chunk : nat) (s : pstore) (id : N) (ps : polset) : pstore :=
  (id, render st chunk ps) :: pstore_del s id.

(* ProcessIpSetUpdate: every policy set that recorded the IP set is rendered again *)
Definition process_set_update (st : setstore) (chunk : nat) (s : pstore) (sid : N) : pstore :=
  map (fun ke : N * pentry =>
         if existsb (N.eqb sid) (pe_refs (snd ke)) then (fst ke, render st chunk (pe_ps (snd ke))) else ke) s.

(* ------------------------------------------------------------------ histories *)
Inductive hop :=
| HAddPolicy (id : N) (ps : polset)
| HRemovePolicy (id : N)
| HSetReplace (sid : N) (members : list cidr)      (* AddOrReplaceIPSet *)
| HSetRemove (sid : N)                             (* RemoveIPSet *)
| HSetAdd (sid : N) (members : list cidr)          (* AddMembers (set exists) *)
| HSetDel (sid : N) (members : list cidr).         (* RemoveMembers (set exists) *)

Definition hstate := (pstore * setstore)%type.

Definition net_members (st : setstore) (sid : N) : list cidr :=
  match lookup_set st sid with Some (SetNets cs) => cs | _ => [] end.

Definition step (chunk : nat) (s : hstate) (o : hop) : hstate :=
  let '(ps, st) := s in
  match o with
  | HAddPolicy id p => (add_policy st chunk ps id p, st)
  | HRemovePolicy id => (pstore_del ps id, st)
  | HSetReplace sid ms => let st' := set_put st sid (SetNets (add_members [] ms)) in (process_set_update st' chunk ps sid, st')
  | HSetRemove sid => let st' := set_del st sid in (process_set_update st' chunk ps sid, st')
  | HSetAdd sid ms =>
      match ms with
      | [] => s
      | _ => let st' := set_put st sid (SetNets (add_members (net_members st sid) ms)) in (process_set_update st' chunk ps sid, st')
      end
  | HSetDel sid ms =>
      match ms with
      | [] => s
      | _ => let st' := set_put st sid (SetNets (del_members (net_members st sid) ms)) in (process_set_update st' chunk ps sid, st')
      end
  end.

Definition run_history (chunk : nat) (h : list hop) : hstate := fold_left (step chunk) h ([], []).

(* the observable: GetPolicySetRules for a list of policy-set ids *)
Definition observe (s : hstate) (ids : list N) (inbound eot_drop : bool) : list hrule :=
  get_policy_set_rules (map (fun id => option_map pe_members (pstore_get (fst s) id)) ids) inbound eot_drop.

(* the policies of those ids as they are now (absent = unknown to the policy sets) *)
Definition current_pols (s : hstate) (ids : list N) : list (bool * polset) :=
  map (fun id => match pstore_get (fst s) id with Some e => (true, pe_ps e) | None => (false, {| ps_in := []; ps_out := [] |}) end) ids.
