(* C30 — a tier: priorities assigned by GetPolicySetRules, evaluation by priority, the policy semantics. *)
From Coq Require Import List NArith Bool Arith Lia Permutation.
From Verif.Common Require Import Packet PolicyRef.
From Verif.C30 Require Import Model Spec ProofsCidr ProofsRule.
Import ListNotations.
Open Scope N_scope.
Arguments N.sub : simpl never.
Arguments N.shiftr : simpl never.
Arguments N.shiftl : simpl never.
Arguments cidr_text : simpl never.
Arguments bytes_leb : simpl never.
Arguments intersect_cidrs : simpl never.
Arguments N.modulo : simpl never.
Arguments N.add : simpl never.

Lemma side_addresses_inl : forall st nets ids e, side_addresses st nets ids = inl e -> exists k, e = ConvErr k.
Proof.
  intros st nets ids e H. unfold side_addresses in H.
  destruct ids; [discriminate|]. destruct (get_net_members st (n :: ids)); [|injection H as <-; eauto].
  destruct nets; [discriminate|]. destruct (intersect_cidrs (c :: nets) l); [injection H as <-; eauto|discriminate].
Qed.

(* every HNS rule made from a rule of direction b has that direction (no assumption on the rule) *)
Lemma rule_to_hns_dir : forall st b chunk r l,
  rule_to_hns st b chunk r = ConvOk l -> Forall (fun h => h_dir h = dir_of b) l.
Proof.
  intros st b chunk r l H. unfold rule_to_hns in H.
  repeat match type of H with
         | context [match ?x with _ => _ end] => destruct x eqn:?; try discriminate H
         end.
  all: try (match goal with Hs : side_addresses _ _ _ = inl ?c |- _ =>
                  apply side_addresses_inl in Hs as [k Hk]; subst; discriminate end).
  all: injection H as <-; apply Forall_forall; intros hh Hh.
  all: try (apply in_map_iff in Hh as [g [<- _]]; reflexivity).
  all: apply in_flat_map in Hh as [a1 [_ Hh]]; apply in_flat_map in Hh as [a2 [_ Hh]];
       apply in_flat_map in Hh as [a3 [_ Hh]]; apply in_map_iff in Hh as [a4 [<- _]]; reflexivity.
Qed.

Lemma rules_to_hns_dir : forall st b chunk rs, Forall (fun h => h_dir h = dir_of b) (rules_to_hns st b chunk rs).
Proof.
  intros. unfold rules_to_hns. apply Forall_forall. intros h Hh. apply in_flat_map in Hh as [r [_ Hh]].
  destruct (rule_to_hns st b chunk r) eqn:E; [contradiction|].
  apply rule_to_hns_dir in E. rewrite Forall_forall in E. auto.
Qed.

(* ------------------------------------------------------------------ evaluation by priority *)
Definition Rel (x y : hrule) : Prop := h_prio x <= h_prio y /\ (h_prio x = h_prio y -> h_act x = h_act y).
Fixpoint pw (l : list hrule) : Prop := match l with [] => True | x :: l' => Forall (Rel x) l' /\ pw l' end.

Lemma pw_filter : forall f l, pw l -> pw (filter f l).
Proof.
  induction l as [|a l IH]; simpl; auto. intros [H1 H2]. destruct (f a); simpl; auto. split; auto.
  apply Forall_forall. intros y Hy. apply filter_In in Hy. rewrite Forall_forall in H1. apply H1. tauto.
Qed.

Lemma min_prio_ge : forall b l m, Forall (fun y => b <= h_prio y) l -> min_prio l = Some m -> b <= m.
Proof.
  induction l as [|a l IH]; simpl; intros m H E; [discriminate|]. inversion H; subst.
  destruct (min_prio l) as [n|] eqn:En.
  - injection E as <-. specialize (IH n H3 eq_refl). lia.
  - injection E as <-. assumption.
Qed.

Lemma min_prio_head : forall x l, Forall (Rel x) l -> min_prio (x :: l) = Some (h_prio x).
Proof.
  intros x l H. simpl. destruct (min_prio l) as [n|] eqn:E; [|reflexivity]. f_equal. apply N.min_l.
  eapply min_prio_ge; [|exact E]. eapply Forall_impl; [|exact H]. intros y [Hy _]. exact Hy.
Qed.

Lemma find_filter : forall A (f : A -> bool) l h, find f l = Some h -> exists l', filter f l = h :: l'.
Proof.
  induction l as [|a l IH]; simpl; intros h H; [discriminate|]. destruct (f a) eqn:E; [|auto].
  injection H as ->. eauto.
Qed.

Lemma hact_eqb_refl : forall a, hact_eqb a a = true. Proof. destruct a; reflexivity. Qed.
Lemma hact_eqb_eq : forall a b, hact_eqb a b = true -> a = b. Proof. destruct a, b; simpl; congruence. Qed.

(* in a list whose priorities never decrease and where neighbours of equal priority share their action,
   the first matching rule decides, whatever HNS does among equal priorities *)
Lemma first_match_wins : forall rules inbound p h, pw rules ->
  find (fun h => hmatch inbound h p) rules = Some h -> hns_gives rules inbound p (h_act h) = true.
Proof.
  intros rules inbound p h Hpw Hf. unfold hns_gives, winners.
  apply find_filter in Hf as [ms' Hms].
  pose proof (pw_filter (fun h => hmatch inbound h p) _ Hpw) as Hp. rewrite Hms in *. destruct Hp as [HR _].
  rewrite (min_prio_head _ _ HR). cbn [filter]. rewrite N.eqb_refl. cbn [is_nil negb andb forallb].
  rewrite hact_eqb_refl. cbn [andb]. apply forallb_forall. intros y Hy. apply filter_In in Hy as [Hy1 Hy2].
  apply N.eqb_eq in Hy2. rewrite Forall_forall in HR. destruct (HR y Hy1) as [_ HA].
  rewrite <- (HA (eq_sym Hy2)). apply hact_eqb_refl.
Qed.

(* ------------------------------------------------------------------ GetPolicySetRules *)
Definition dirb (dir : hdir) (m : hrule) : bool := hdir_eqb (h_dir m) dir.
Definition strip (h : hrule) : hrule := with_prio h 0.

Lemma emit_members_spec : forall dir ms prio last out p2 l2,
  emit_members dir ms prio last = (out, p2, l2) -> prio + N.of_nat (length ms) < U16 ->
  prio <= p2 /\ p2 <= prio + N.of_nat (length ms)
  /\ Forall (fun h => prio <= h_prio h /\ h_prio h <= p2) out
  /\ pw out
  /\ (forall a, last = Some a -> Forall (fun h => h_prio h = prio -> h_act h = a) out)
  /\ map strip out = map strip (filter (dirb dir) ms).
Proof.
  induction ms as [|m ms IH]; intros prio last out p2 l2 H Hb.
  - simpl in H. injection H as <- <- <-. simpl. repeat split; try lia; constructor.
  - cbn [emit_members] in H. cbn [filter]. unfold dirb at 1.
    change (length (m :: ms)) with (S (length ms)) in *. rewrite Nat2N.inj_succ in *.
    destruct (hdir_eqb (h_dir m) dir) eqn:Ed; cbn [negb] in H.
    + set (prio' := match last with
                    | Some a => if hact_eqb a (h_act m) then prio else (prio + 1) mod U16
                    | None => prio end) in *.
      assert (Hc : (prio' = prio /\ (forall a, last = Some a -> a = h_act m))
                   \/ (prio' = prio + 1 /\ exists a, last = Some a /\ a <> h_act m)).
      { subst prio'. destruct last as [a|]; [|left; split; [reflexivity|discriminate]].
        destruct (hact_eqb a (h_act m)) eqn:Ea.
        - left. split; [reflexivity|]. intros a' [= <-]. apply hact_eqb_eq. exact Ea.
        - right. split; [apply N.mod_small; lia|]. exists a. split; [reflexivity|]. intros ->.
          rewrite hact_eqb_refl in Ea. discriminate. }
      clearbody prio'.
      destruct (emit_members dir ms prio' (Some (h_act m))) as [[o q] l'] eqn:E. injection H as <- <- <-.
      assert (Hb' : prio' + N.of_nat (length ms) < U16) by (destruct Hc as [[-> _]|[-> _]]; lia).
      destruct (IH _ _ _ _ _ E Hb') as (I1 & I2 & I3 & I4 & I5 & I6).
      assert (Hle : prio <= prio' /\ prio' <= prio + 1) by (destruct Hc as [[-> _]|[-> _]]; lia).
      split; [lia|]. split; [lia|]. split; [|split; [|split]].
      * constructor; [cbn; lia|]. eapply Forall_impl; [|exact I3]. cbn beta. intros h [? ?]. split; lia.
      * cbn [pw]. split; [|exact I4].
        specialize (I5 _ eq_refl). rewrite Forall_forall in I3, I5. apply Forall_forall. intros h Hh.
        destruct (I3 h Hh) as [? ?]. split; [cbn; lia|]. cbn. intros Heq. symmetry. apply (I5 h Hh). symmetry. exact Heq.
      * intros a Ha. constructor.
        -- cbn. intros Heq. destruct Hc as [[_ Hc]|[Hc _]]; [symmetry; apply Hc; exact Ha|lia].
        -- specialize (I5 _ eq_refl). rewrite Forall_forall in I3, I5. apply Forall_forall. intros h Hh Heq.
           destruct (I3 h Hh) as [? ?]. destruct Hc as [[Hc1 Hc2]|[Hc _]]; [|lia].
           rewrite (Hc2 a Ha). apply (I5 h Hh). lia.
      * cbn [map]. rewrite I6. reflexivity.
    + assert (Hb' : prio + N.of_nat (length ms) < U16) by lia.
      destruct (IH _ _ _ _ _ H Hb') as (I1 & I2 & I3 & I4 & I5 & I6).
      repeat split; try assumption; lia.
Qed.

Lemma emit_members_app : forall dir a b prio last,
  emit_members dir (a ++ b) prio last =
  let '(o1, p1, l1) := emit_members dir a prio last in
  let '(o2, p2, l2) := emit_members dir b p1 l1 in (o1 ++ o2, p2, l2).
Proof.
  induction a as [|m a IH]; intros b prio last.
  - simpl. destruct (emit_members dir b prio last) as [[? ?] ?]. reflexivity.
  - cbn [app emit_members]. destruct (negb (hdir_eqb (h_dir m) dir)); [apply IH|].
    rewrite IH.
    destruct (emit_members dir a _ (Some (h_act m))) as [[o1 p1] l1].
    destruct (emit_members dir b p1 l1) as [[o2 p2] l2]. reflexivity.
Qed.

Lemma emit_sets_all : forall dir lists prio last,
  emit_sets dir (map Some lists) prio last =
  let '(o, p, _) := emit_members dir (concat lists) prio last in (o, p).
Proof.
  induction lists as [|l lists IH]; intros prio last; [reflexivity|].
  cbn [map emit_sets concat]. rewrite emit_members_app.
  destruct (emit_members dir l prio last) as [[o1 p1] l1]. rewrite IH.
  destruct (emit_members dir (concat lists) p1 l1) as [[o2 p2] l2]. reflexivity.
Qed.

(* ------------------------------------------------------------------ first matching rule *)
Definition first_act (inbound : bool) (p : packet) (l : list hrule) : option hact :=
  option_map h_act (find (fun h => hmatch inbound h p) l).

Lemma hmatch_strip : forall inbound h p, hmatch inbound (strip h) p = hmatch inbound h p.
Proof. intros. rewrite !hmatch_eq. reflexivity. Qed.

Lemma first_act_strip : forall inbound p l1 l2, map strip l1 = map strip l2 -> first_act inbound p l1 = first_act inbound p l2.
Proof.
  unfold first_act. induction l1 as [|a l1 IH]; intros [|b l2] H; try discriminate; [reflexivity|].
  cbn [map] in H.
  assert (Hab : strip a = strip b) by congruence.
  assert (Hl : map strip l1 = map strip l2) by congruence.
  clear H. cbn [find].
  rewrite <- (hmatch_strip inbound a), <- (hmatch_strip inbound b), Hab.
  destruct (hmatch inbound (strip b) p).
  - cbn. f_equal. change (h_act a) with (h_act (strip a)). rewrite Hab. reflexivity.
  - apply IH. exact Hl.
Qed.

Lemma find_app_none : forall A (f : A -> bool) l X, existsb f l = false -> find f (l ++ X) = find f X.
Proof. induction l as [|a l IH]; simpl; intros X H; [reflexivity|]. destruct (f a); [discriminate|]. apply IH. exact H. Qed.
Lemma find_app_some : forall A (f : A -> bool) l X, existsb f l = true -> exists h, In h l /\ find f (l ++ X) = Some h.
Proof.
  induction l as [|a l IH]; simpl; intros X H; [discriminate|]. destruct (f a) eqn:E.
  - exists a. auto.
  - destruct (IH X H) as [h [? ?]]. exists h. auto.
Qed.

Definition act_of_verdict (v : verdict) (rest : option hact) : option hact :=
  match v with VAllow => Some HAllow | VDeny => Some HBlock | VPass => Some HPass | VNoMatch => rest end.

Lemma rules_first_act : forall st inbound chunk p rest rs,
  wf_sets st = true -> (chunk <> 0)%nat -> packet_ok p = true ->
  forallb (supported_rule inbound) rs = true ->
  first_act inbound p (rules_to_hns st inbound chunk rs ++ rest)
  = act_of_verdict (policy_verdict (sets_sem st) rs p) (first_act inbound p rest).
Proof.
  intros st inbound chunk p rest rs Hwf Hc Hp. induction rs as [|r rs IH]; intros Hs; [reflexivity|].
  cbn [forallb] in Hs. apply andb_true_iff in Hs as [Hr Hs]. specialize (IH Hs).
  unfold rules_to_hns in *. cbn [flat_map]. rewrite <- app_assoc.
  pose proof (rule_sem st inbound chunk r p Hwf Hc Hr Hp) as Hsem.
  cbn [policy_verdict].
  destruct (rule_to_hns st inbound chunk r) as [e|l].
  - cbn [app]. rewrite IH. destruct Hsem as [Hm|Hl]; [rewrite Hm; reflexivity|].
    rewrite Hl. destruct (rule_matches (sets_sem st) r p); reflexivity.
  - destruct Hsem as [Hm [a [Ha Hg]]]. rewrite <- Hm.
    destruct (existsb (fun h => hmatch inbound h p) l) eqn:Ee.
    + destruct (find_app_some _ _ l (flat_map (fun r0 => match rule_to_hns st inbound chunk r0 with
                                                     | ConvErr _ => [] | ConvOk l0 => l0 end) rs ++ rest) Ee) as [h [Hin Hf]].
      unfold first_act at 1. rewrite Hf. cbn [option_map].
      unfold good_rules in Hg. rewrite Forall_forall in Hg. destruct (Hg h Hin) as [Hact _]. rewrite Hact.
      unfold act_of in Ha. destruct (r_action r); try discriminate Ha; injection Ha as <-; reflexivity.
    + unfold first_act at 1. rewrite find_app_none by exact Ee. exact IH.
Qed.

(* ------------------------------------------------------------------ policies of a tier *)
Lemma filter_all : forall A (f : A -> bool) l, Forall (fun x => f x = true) l -> filter f l = l.
Proof. induction l; simpl; intros H; [reflexivity|]. inversion H; subst. rewrite H2, IHl; auto. Qed.
Lemma filter_none : forall A (f : A -> bool) l, Forall (fun x => f x = false) l -> filter f l = [].
Proof. induction l; simpl; intros H; [reflexivity|]. inversion H; subst. rewrite H2, IHl; auto. Qed.
Lemma filter_concat : forall A (f : A -> bool) ls, filter f (concat ls) = concat (map (filter f) ls).
Proof. induction ls; simpl; [reflexivity|]. rewrite filter_app, IHls. reflexivity. Qed.

Lemma filter_dir_convert : forall st chunk inbound ps,
  filter (dirb (dir_of inbound)) (convert_policy st chunk ps) = rules_to_hns st inbound chunk (dir_rules inbound ps).
Proof.
  intros. unfold convert_policy. rewrite filter_app.
  pose proof (rules_to_hns_dir st true chunk (ps_in ps)) as Hi.
  pose proof (rules_to_hns_dir st false chunk (ps_out ps)) as Ho.
  destruct inbound; cbn [dir_rules dir_of] in *.
  - rewrite filter_all, filter_none; [apply app_nil_r| |].
    + eapply Forall_impl; [|exact Ho]. intros h Hh. unfold dirb. rewrite Hh. reflexivity.
    + eapply Forall_impl; [|exact Hi]. intros h Hh. unfold dirb. rewrite Hh. reflexivity.
  - rewrite filter_none, filter_all; [reflexivity| |].
    + eapply Forall_impl; [|exact Ho]. intros h Hh. unfold dirb. rewrite Hh. reflexivity.
    + eapply Forall_impl; [|exact Hi]. intros h Hh. unfold dirb. rewrite Hh. reflexivity.
Qed.

Definition mkpol (inbound : bool) (bp : bool * polset) : policy :=
  {| pol_staged := negb (fst bp); pol_rules := dir_rules inbound (snd bp) |}.

Lemma policies_first_act : forall st inbound chunk p rest pols,
  wf_sets st = true -> (chunk <> 0)%nat -> packet_ok p = true ->
  forallb (fun bp : bool * polset => forallb (supported_rule inbound) (dir_rules inbound (snd bp))) pols = true ->
  first_act inbound p
    (concat (map (fun bp : bool * polset => rules_to_hns st inbound chunk (dir_rules inbound (snd bp))) pols) ++ rest)
  = act_of_verdict (policies_verdict (sets_sem st) (map (mkpol inbound) pols) p) (first_act inbound p rest).
Proof.
  intros st inbound chunk p rest pols Hwf Hc Hp. induction pols as [|bp pols IH]; intros Hs; [reflexivity|].
  cbn [forallb] in Hs. apply andb_true_iff in Hs as [H1 H2]. specialize (IH H2).
  cbn [map concat policies_verdict]. rewrite <- app_assoc.
  rewrite (rules_first_act st inbound chunk p _ _ Hwf Hc Hp H1). rewrite IH.
  change (pol_rules (mkpol inbound bp)) with (dir_rules inbound (snd bp)).
  destruct (policy_verdict (sets_sem st) (dir_rules inbound (snd bp)) p); reflexivity.
Qed.

Lemma count_rules_all : forall lists, count_rules (map Some lists) = length (concat lists).
Proof. induction lists; simpl; [reflexivity|]. rewrite app_length, IHlists. reflexivity. Qed.

Lemma tier_sets_all : forall st chunk pols, forallb (fun bp : bool * polset => fst bp) pols = true ->
  tier_sets st chunk pols = map Some (map (fun bp : bool * polset => convert_policy st chunk (snd bp)) pols).
Proof.
  intros st chunk pols H. unfold tier_sets. rewrite map_map. apply map_ext_in. intros bp Hin.
  rewrite forallb_forall in H. rewrite (H bp Hin). reflexivity.
Qed.

Lemma enforced_all : forall inbound pols, forallb (fun bp : bool * polset => fst bp) pols = true ->
  enforced (map (mkpol inbound) pols) = map (mkpol inbound) pols.
Proof.
  intros inbound pols H. unfold enforced. apply filter_all. apply Forall_forall. intros q Hq.
  apply in_map_iff in Hq as [bp [<- Hin]]. rewrite forallb_forall in H. unfold mkpol; cbn. rewrite (H bp Hin). reflexivity.
Qed.

Lemma pw_app_last : forall out e, pw out -> Forall (fun h => h_prio h < h_prio e) out -> pw (out ++ [e]).
Proof.
  induction out as [|x out IH]; intros e Hp Hlt; cbn [app pw]; [split; [constructor|exact I]|].
  destruct Hp as [H1 H2]. inversion Hlt; subst. split; [|apply IH; assumption].
  apply Forall_app. split; [exact H1|]. constructor; [|constructor]. split; lia.
Qed.

Definition eot_rule (prio : N) (inbound eot_drop : bool) : hrule :=
  mkH prio (dir_of inbound) (if eot_drop then HBlock else HPass) PROTO_ANY [] [] [] [].

Lemma eot_matches : forall prio inbound eot p, hmatch inbound (eot_rule prio inbound eot) p = true.
Proof. intros. rewrite hmatch_eq. cbn. rewrite hdir_eqb_refl. reflexivity. Qed.

(* the main statement, over policies_verdict *)
Lemma tier_same_verdict : forall st chunk pols inbound eot p,
  in_domain st chunk pols inbound = true -> packet_ok p = true ->
  hns_gives (tier_hns st chunk pols inbound eot) inbound p (expected st pols inbound eot p) = true
  /\ pw (tier_hns st chunk pols inbound eot).
Proof.
  intros st chunk pols inbound eot p Hd Hp.
  unfold in_domain, sets_domain in Hd.
  apply andb_true_iff in Hd as [Hd Hsup]. apply andb_true_iff in Hd as [Hd Hcount].
  apply andb_true_iff in Hd as [Hd Hpres]. apply andb_true_iff in Hd as [Hd Hne].
  apply andb_true_iff in Hd as [Hwf Hchunk].
  assert (Hc : (chunk <> 0)%nat) by (intros ->; discriminate Hchunk).
  unfold tier_hns, get_policy_set_rules.
  rewrite (tier_sets_all st chunk pols Hpres) in *. rewrite count_rules_all in Hcount.
  set (lists := map (fun bp : bool * polset => convert_policy st chunk (snd bp)) pols) in *.
  rewrite emit_sets_all.
  destruct (emit_members (dir_of inbound) (concat lists) BASE_PRIO None) as [[out p2] l2] eqn:E.
  apply N.ltb_lt in Hcount.
  assert (Hb : BASE_PRIO + N.of_nat (length (concat lists)) < U16) by (unfold BASE_PRIO, U16; lia).
  destruct (emit_members_spec _ _ _ _ _ _ _ E Hb) as (I1 & I2 & I3 & I4 & _ & I6).
  assert (Hmod : (p2 + 1) mod U16 = p2 + 1) by (apply N.mod_small; unfold BASE_PRIO, U16 in *; lia).
  rewrite Hmod. fold (eot_rule (p2 + 1) inbound eot).
  assert (Hpw : pw (out ++ [eot_rule (p2 + 1) inbound eot])).
  { apply pw_app_last; [exact I4|]. eapply Forall_impl; [|exact I3]. cbn. intros h [? ?]. lia. }
  split; [|exact Hpw].
  (* the first matching rule *)
  assert (Hfa : first_act inbound p (out ++ [eot_rule (p2 + 1) inbound eot]) = Some (expected st pols inbound eot p)).
  { rewrite (first_act_strip inbound p _ (filter (dirb (dir_of inbound)) (concat lists) ++ [eot_rule (p2 + 1) inbound eot])).
    2:{ rewrite !map_app, I6. reflexivity. }
    rewrite filter_concat. unfold lists. rewrite map_map.
    rewrite (map_ext _ (fun bp : bool * polset => rules_to_hns st inbound chunk (dir_rules inbound (snd bp))))
      by (intros; apply filter_dir_convert).
    rewrite (policies_first_act st inbound chunk p _ pols Hwf Hc Hp Hsup).
    unfold expected, tier_verdict, ref_tier. cbn [t_policies t_default].
    change (map (fun bp : bool * polset => {| pol_staged := negb (fst bp); pol_rules := dir_rules inbound (snd bp) |}) pols)
      with (map (mkpol inbound) pols).
    rewrite (enforced_all inbound pols Hpres).
    destruct pols as [|bp0 pols0]; [discriminate Hne|]. cbn [map].
    change (mkpol inbound bp0 :: map (mkpol inbound) pols0) with (map (mkpol inbound) (bp0 :: pols0)).
    unfold first_act at 1. cbn [find]. rewrite eot_matches. cbn [option_map eot_rule h_act].
    destruct (policies_verdict (sets_sem st) (map (mkpol inbound) (bp0 :: pols0)) p); destruct eot; reflexivity. }
  unfold first_act in Hfa.
  destruct (find (fun h => hmatch inbound h p) (out ++ [eot_rule (p2 + 1) inbound eot])) as [h|] eqn:Ef; [|discriminate].
  cbn in Hfa. injection Hfa as <-. apply first_match_wins; assumption.
Qed.

(* ------------------------------------------------------------------ rules of one priority share an action; order is irrelevant *)
Lemma pw_same_prio : forall l, pw l -> forall x y, In x l -> In y l -> h_prio x = h_prio y -> h_act x = h_act y.
Proof.
  induction l as [|a l IH]; intros Hp x y Hx Hy He; [contradiction|].
  destruct Hp as [H1 H2]. rewrite Forall_forall in H1.
  destruct Hx as [<-|Hx], Hy as [<-|Hy].
  - reflexivity.
  - apply (H1 y Hy). exact He.
  - symmetry. apply (H1 x Hx). symmetry. exact He.
  - apply IH; assumption.
Qed.

Lemma perm_filter : forall A (f : A -> bool) l l', Permutation l l' -> Permutation (filter f l) (filter f l').
Proof.
  induction 1; simpl.
  - constructor.
  - destruct (f x); [constructor|]; assumption.
  - destruct (f x), (f y); try apply Permutation_refl; constructor.
  - eapply Permutation_trans; eassumption.
Qed.

Lemma perm_min_prio : forall l l', Permutation l l' -> min_prio l = min_prio l'.
Proof.
  induction 1; simpl.
  - reflexivity.
  - rewrite IHPermutation. reflexivity.
  - destruct (min_prio l); f_equal; lia.
  - congruence.
Qed.

Lemma perm_forallb : forall A (f : A -> bool) l l', Permutation l l' -> forallb f l = forallb f l'.
Proof.
  induction 1; simpl.
  - reflexivity.
  - rewrite IHPermutation. reflexivity.
  - destruct (f x), (f y); reflexivity.
  - congruence.
Qed.
Lemma perm_is_nil : forall A (l l' : list A), Permutation l l' -> is_nil l = is_nil l'.
Proof.
  intros A l l' H. destruct l, l'; try reflexivity.
  - apply Permutation_nil in H. discriminate.
  - apply Permutation_sym, Permutation_nil in H. discriminate.
Qed.

Lemma hns_gives_perm : forall rules rules' inbound p a, Permutation rules rules' ->
  hns_gives rules' inbound p a = hns_gives rules inbound p a.
Proof.
  intros rules rules' inbound p a H. unfold hns_gives, winners.
  pose proof (perm_filter _ (fun h => hmatch inbound h p) _ _ H) as Hf.
  rewrite <- (perm_min_prio _ _ Hf).
  destruct (min_prio (filter (fun h => hmatch inbound h p) rules)) as [m|]; [|reflexivity].
  pose proof (perm_filter _ (fun h => N.eqb (h_prio h) m) _ _ Hf) as Hw.
  rewrite <- (perm_is_nil _ _ _ Hw), <- (perm_forallb _ _ _ _ Hw). reflexivity.
Qed.

(* ------------------------------------------------------------------ non-vacuity *)
Definition ex_sets : setstore :=
  [(1, SetNets [C4 167772161 32; C4 167772416 24]); (10, SetIPPorts [(C4 167837953 32, 6, 80); (C4 167837954 32, 17, 53)])].
Definition ex_pols : list (bool * polset) :=
  [(true, PS [RS Allow None (Some 6) [C4 167772160 16] [] [] [(80, 80); (443, 443); (8080, 8090)] [1] [] [];
              RS Deny None None [] [] [] [] [] [] []]
             [RS Pass None None [] [] [] [] [] [] [10]]);
   (true, PS [RS Allow None (Some 17) [] [] [] [(53, 53)] [] [] []] [])].
