(* C14 — typed constructors for the case terms printed by the Go driver (keeps elaboration of the cases files cheap). *)
From Coq Require Import List NArith ZArith.
From Verif.C14 Require Import Model Spec.
Definition K (p i : N) : key := (p, i).
Definition CE (k : key) (e : entry) : key * entry := (k, e).
Definition QE (k rk : key) (ts rts : Z) : key * qval := (k, (rk, ts, rts)).
