(* C14 — executable model of the BPF conntrack cleanup machinery.

   Userspace side (Go, tied to the code by the correspondence run):
     felix/bpf/conntrack/cleanup.go   entryDone / EntryExpired, LivenessScanner.Check (cached kernel time)
     felix/bpf/conntrack/scanner.go   Scanner.Scan verdict handling, handleNATEntries, updateCleanupMap,
                                      the end-of-scan loop over revNATKeyToFwdNATInfo
   Kernel side (C, modelled by hand, tied to the source only by a text hash, see props/C14.py):
     felix/bpf-gpl/conntrack_cleanup.c  process_ccq_entry            -> [clean]
     felix/bpf-gpl/conntrack.h          calico_ct_lookup refresh      -> [packet]
        line 786-787  now = bpf_ktime_get_ns(); v->last_seen = now;   (the entry that was hit, whatever its type)
        line 835      tracking_v->last_seen = now;   (NAT_FWD hit: the reverse entry as well, with the SAME `now`)
        line 813-819  NAT_FWD hit with no reverse entry: the forward entry is deleted (cali_ct_delete_elem(&k))
        a hit on the REVERSE key refreshes the reverse entry only (it has no pointer back to the forward entry).
        Entry creation (lines 157-160 and 322-325) stores last_seen = now, and so does every state change made by a
        packet: both are the step [DpSet].  tcp_recycled (lines 821-831, a SYN on a closed connection deletes both
        entries) and LRU eviction are [DpDel] steps.

   Definitions only; no proofs in this file. *)
From Coq Require Import List NArith ZArith Bool.
Import ListNotations.
Open Scope Z_scope.

(* ---------------------------------------------------------------- keys and maps *)

(* A conntrack key: (IP protocol number, everything else).  The all-zero key is the "dummy" key. *)
Definition key := (N * N)%type.
Definition dummy : key := (0%N, 0%N).
Definition proto (k : key) : N := fst k.
Definition key_eqb (a b : key) : bool := N.eqb (fst a) (fst b) && N.eqb (snd a) (snd b).

Fixpoint lookup {V : Type} (k : key) (m : list (key * V)) : option V :=
  match m with
  | [] => None
  | (k', v) :: m' => if key_eqb k k' then Some v else lookup k m'
  end.
Fixpoint remove {V : Type} (k : key) (m : list (key * V)) : list (key * V) :=
  match m with
  | [] => []
  | (k', v) :: m' => if key_eqb k k' then remove k m' else (k', v) :: remove k m'
  end.
Definition set {V : Type} (k : key) (v : V) (m : list (key * V)) : list (key * V) := (k, v) :: remove k m.

(* ---------------------------------------------------------------- conntrack entries *)

Inductive kind := KNormal | KFwd | KRev | KOther.
Definition kind_eqb (a b : kind) : bool :=
  match a, b with KNormal, KNormal | KFwd, KFwd | KRev, KRev | KOther, KOther => true | _, _ => false end.

(* per-direction TCP flags of struct calico_ct_leg that entryDone looks at *)
Record leg := mkLeg { l_syn : bool; l_ack : bool; l_fin : bool; l_rst : bool }.

Record entry := mkE {
  e_kind : kind;
  e_ls : Z;            (* last_seen, kernel nanoseconds *)
  e_rev : key;         (* nat_rev_key; meaningful for KFwd only *)
  e_dsr : bool;        (* FlagNATFwdDsr *)
  e_rstts : Z;         (* rst_seen: kernel time of the last RST, 0 = none (calico_ct_value.rst_seen) *)
  e_a : leg; e_b : leg }.

Definition with_ls (e : entry) (t : Z) : entry :=
  mkE (e_kind e) t (e_rev e) (e_dsr e) (e_rstts e) (e_a e) (e_b e).

Record timeouts := mkTm {
  t_syn : Z; t_est : Z; t_fins : Z; t_rst : Z; t_udp : Z; t_gen : Z; t_icmp : Z }.

(* cleanup.go entryDone.  Result: None = not done, Some r = done for reason r
   1 "RST seen", 2 "FINs seen", 3 RST with residual traffic, 4 established, 5 pre-established,
   6 ICMP, 7 UDP, 8 generic. *)
Definition established (e : entry) : bool :=
  l_syn (e_a e) && l_ack (e_a e) && l_syn (e_b e) && l_ack (e_b e).
Definition rst_seen (e : entry) : bool := l_rst (e_a e) || l_rst (e_b e).
Definition fins_seen (e : entry) : bool := l_fin (e_a e) && l_fin (e_b e).
Definition fins_seen_dsr (e : entry) : bool := l_fin (e_a e) || l_fin (e_b e).
(* entry.RSTSeen() != 0: only whether a RST time is recorded matters, never its value *)
Definition rst_ts_set (e : entry) : bool := negb (Z.eqb (e_rstts e) 0).

Definition sec : Z := 1000000000.

Definition entry_done (t : timeouts) (now : Z) (p : N) (e : entry) (finished_only : bool) : option N :=
  let age := now - e_ls e in
  if N.eqb p 6 then
    if rst_seen e && (age >? t_rst t) then Some 1%N
    else if ((e_dsr e && fins_seen_dsr e) || fins_seen e) && (finished_only || (age >? t_fins t)) then Some 2%N
    else if established e || e_dsr e then
      if rst_ts_set e && (age >? 120 * sec) then Some 3%N
      else if age >? t_est t then Some 4%N else None
    else if age >? t_syn t then Some 5%N else None
  else if N.eqb p 1 || N.eqb p 58 then (if age >? t_icmp t then Some 6%N else None)
  else if N.eqb p 17 then (if age >? t_udp t then Some 7%N else None)
  else (if age >? t_gen t then Some 8%N else None).

Definition expired (t : timeouts) (now : Z) (p : N) (e : entry) : bool :=
  match entry_done t now p e false with Some _ => true | None => false end.
(* EntryFinished: the connection is over from the applications' point of view (FINs seen counts at once) *)
Definition finished (t : timeouts) (now : Z) (p : N) (e : entry) : bool :=
  match entry_done t now p e true with Some _ => true | None => false end.

(* timeouts/timeouts.go: DefaultTimeouts, and GetTimeouts for a configuration map whose values have already been
   through time.ParseDuration (Some d = parsed, None = not a duration: the default stays; the "Auto" sysctl lookup
   is not modelled).  Fields: 0 TCPSynSent 1 TCPEstablished 2 TCPFinsSeen 3 TCPResetSeen 4 UDPTimeout
   5 GenericTimeout 6 ICMPTimeout; any other key (incl. CreationGracePeriod, unknown names) does not touch the table. *)
Definition default_timeouts : timeouts :=
  mkTm (20 * sec) (3600 * sec) (30 * sec) (40 * sec) (60 * sec) (600 * sec) (5 * sec).
Fixpoint cfg_lookup (f : N) (cfg : list (N * option Z)) : option Z :=
  match cfg with
  | [] => None
  | (f', v) :: r => if N.eqb f f' then (match v with Some d => Some d | None => cfg_lookup f r end) else cfg_lookup f r
  end.
Definition cfg_field (cfg : list (N * option Z)) (f : N) (d : Z) : Z :=
  match cfg_lookup f cfg with Some v => v | None => d end.
Definition get_timeouts (cfg : list (N * option Z)) : timeouts :=
  let d := default_timeouts in
  mkTm (cfg_field cfg 0 (t_syn d)) (cfg_field cfg 1 (t_est d)) (cfg_field cfg 2 (t_fins d)) (cfg_field cfg 3 (t_rst d))
       (cfg_field cfg 4 (t_udp d)) (cfg_field cfg 5 (t_gen d)) (cfg_field cfg 6 (t_icmp d)).

(* ---------------------------------------------------------------- state *)

(* cleanup-queue value: (rev_key, last_seen, rev_last_seen)  — struct cali_ccq_value *)
Definition qval := (key * Z * Z)%type.
Definition qv_key (v : qval) : key := fst (fst v).
Definition qv_ts (v : qval) : Z := snd (fst v).
Definition qv_rts (v : qval) : Z := snd v.

Record state := mkS {
  ct : list (key * entry);      (* the conntrack map *)
  q : list (key * qval);        (* the cleanup queue (userspace desired view written through to cali_ccq) *)
  info : list (key * qval);     (* Scanner.revNATKeyToFwdNATInfo:  rev key -> (fwd key | dummy, ts, rev ts) *)
  kclock : Z;                   (* bpf_ktime_get_ns *)
  gclock : Z;                   (* Go wall clock (timeshim.Now), nanoseconds *)
  cached : Z;                   (* LivenessScanner.cachedKTime *)
  lastgo : Z }.                 (* LivenessScanner.goTimeOfLastKTimeLookup *)

Definition set_ct (s : state) c := mkS c (q s) (info s) (kclock s) (gclock s) (cached s) (lastgo s).
Definition set_q (s : state) x := mkS (ct s) x (info s) (kclock s) (gclock s) (cached s) (lastgo s).
Definition set_info (s : state) x := mkS (ct s) (q s) x (kclock s) (gclock s) (cached s) (lastgo s).

(* ---------------------------------------------------------------- steps *)

Inductive step :=
| Tick (dk dg : N)            (* both clocks advance (by possibly different amounts) *)
| Packet (k : key)            (* a packet hits conntrack key k: last_seen refresh as in calico_ct_lookup *)
| DpSet (k : key) (e : entry) (* the dataplane creates / rewrites entry k (state change); last_seen := now *)
| DpDel (k : key)             (* the dataplane or the LRU removes k *)
| Judge (k : key)             (* one callback of Scanner.Scan's iteration, on key k *)
| Drain (rk : key)            (* one iteration of Scan's final loop over revNATKeyToFwdNATInfo *)
| QDrop (k : key)             (* a queue entry is discarded (Desired().DeleteAll(), failed write) *)
| Clean (k : key).            (* one process_ccq_entry callback of the kernel cleaner, on queue key k *)

(* conntrack.h calico_ct_lookup, the part that touches last_seen *)
Definition packet (k : key) (s : state) : state :=
  match lookup k (ct s) with
  | None => s
  | Some v =>
      let now := kclock s in
      match e_kind v with
      | KFwd =>
          match lookup (e_rev v) (ct s) with
          | None => set_ct s (remove k (ct s))
          | Some r =>
              (* v->last_seen = now; tracking_v->last_seen = now; (if both are one map slot the later write wins) *)
              set_ct s (set (e_rev v) (with_ls (if key_eqb (e_rev v) k then with_ls v now else r) now)
                            (set k (with_ls v now) (ct s)))
          end
      | _ => set_ct s (set k (with_ls v now) (ct s))
      end
  end.

Record conf := mkConf { cf_tm : timeouts; cf_fix : bool }.

(* LivenessScanner.Check: which kernel time is used, and the cache update *)
Definition refresh_needed (s : state) : bool := Z.eqb (cached s) 0 || (gclock s - lastgo s >? sec).
Definition now_used (s : state) : Z := if refresh_needed s then kclock s else cached s.
Definition refresh (s : state) : state :=
  if refresh_needed s then mkS (ct s) (q s) (info s) (kclock s) (gclock s) (kclock s) (gclock s) else s.

(* LivenessScanner.Check: None = ScanVerdictOK, Some ts = ScanVerdictDelete with timestamp ts *)
Definition liveness_verdict (tm : timeouts) (now : Z) (ctm : list (key * entry)) (k : key) (v : entry) : option Z :=
  match e_kind v with
  | KFwd =>
      match lookup (e_rev v) ctm with
      | None => Some (e_ls v)
      | Some r => if expired tm now (proto k) r then Some (e_ls r) else None
      end
  | KRev | KNormal => if expired tm now (proto k) v then Some (e_ls v) else None
  | KOther => None
  end.

(* Scanner.handleNATEntries.
   fx = false: the pinned code, which takes "forward timestamp = timestamp returned by the entry scanner" as proof
   that the reverse entry is missing.  fx = true: the code with fixes/C14-fwd-equal-timestamps.patch, which in that
   case also looks the reverse entry up.  The driver reports which of the two the tree under test is. *)
Definition handle_nat (fx : bool) (k : key) (v : entry) (rev_ts : Z) (s : state) : state :=
  let ts := e_ls v in
  match e_kind v with
  | KFwd =>
      let rk := e_rev v in
      if Z.eqb ts rev_ts && (negb fx || match lookup rk (ct s) with None => true | Some _ => false end)
      then set_q s (set k (dummy, ts, rev_ts) (q s))
      else match lookup rk (info s) with
           | None => set_info s (set rk (k, ts, rev_ts) (info s))
           | Some _ => set_q (set_info s (remove rk (info s))) (set k (rk, ts, rev_ts) (q s))
           end
  | KRev =>
      match lookup k (info s) with
      | Some iv => set_q (set_info s (remove k (info s))) (set (qv_key iv) (k, qv_ts iv, ts) (q s))
      | None => set_info s (set k (dummy, ts, 0) (info s))
      end
  | _ => s
  end.

(* one iteration callback of Scanner.Scan (bpfCleaner != nil, LivenessScanner the only entry scanner).
   A callback takes time: both clocks have advanced by (at least) one unit when it returns.  (Without this a
   dataplane write could carry the very timestamp the scanner has just read; the driver ticks the same way.) *)
Definition tick1 (s : state) : state :=
  mkS (ct s) (q s) (info s) (kclock s + 1) (gclock s + 1) (cached s) (lastgo s).

Definition judge (cf : conf) (k : key) (s : state) : state :=
  match lookup k (ct s) with
  | None => s
  | Some v =>
      let s1 := refresh s in
      tick1
      match liveness_verdict (cf_tm cf) (cached s1) (ct s1) k v with
      | None => s1
      | Some ts =>
          match e_kind v with
          | KNormal => set_q s1 (set k (dummy, ts, ts) (q s1))
          | _ => handle_nat (cf_fix cf) k v ts s1
          end
      end
  end.

(* one iteration of the loop `for k, v := range s.revNATKeyToFwdNATInfo` at the end of Scan *)
Definition drain (rk : key) (s : state) : state :=
  match lookup rk (info s) with
  | None => s
  | Some iv =>
      let s1 := set_info s (remove rk (info s)) in
      if key_eqb (qv_key iv) dummy
      then set_q s1 (set rk (qv_key iv, qv_ts iv, qv_rts iv) (q s1))
      else set_q s1 (set (qv_key iv) (rk, qv_ts iv, qv_rts iv) (q s1))
  end.

(* conntrack_cleanup.c process_ccq_entry, assumed atomic.  For an entry that is not NAT_FWD the 16 bytes that
   the C code memcmp()s with the queued reverse key are the first bytes of the A->B leg (byte/packet/sequence
   counters); the model assumes they never spell that key, i.e. a non-forward entry "does not match". *)
Definition clean (qk : key) (s : state) : state :=
  match lookup qk (q s) with
  | None => s
  | Some (rk, ts, rts) =>
      let s1 := set_q s (remove qk (q s)) in
      if N.eqb (proto rk) 0 then
        match lookup qk (ct s1) with
        | Some e => if Z.eqb (e_ls e) ts then set_ct s1 (remove qk (ct s1)) else s1
        | None => s1
        end
      else
        let pairdel :=
          match lookup rk (ct s1) with
          | Some r => if Z.eqb (e_ls r) rts then set_ct s1 (remove qk (remove rk (ct s1))) else s1
          | None => s1
          end in
        match lookup qk (ct s1) with
        | Some f => if kind_eqb (e_kind f) KFwd && key_eqb (e_rev f) rk then pairdel else s1
        | None => pairdel
        end
  end.

Definition do_step (tm : conf) (s : state) (x : step) : state :=
  match x with
  | Tick dk dg => mkS (ct s) (q s) (info s) (kclock s + Z.of_N dk) (gclock s + Z.of_N dg) (cached s) (lastgo s)
  | Packet k => packet k s
  | DpSet k e => set_ct s (set k (with_ls e (kclock s)) (ct s))
  | DpDel k => set_ct s (remove k (ct s))
  | Judge k => judge tm k s
  | Drain rk => drain rk s
  | QDrop k => set_q s (remove k (q s))
  | Clean k => clean k s
  end.

Definition run (tm : conf) (s : state) (tr : list step) : state := fold_left (do_step tm) tr s.

(* the whole final loop of Scan: every recorded reverse key once (the Go map order is irrelevant unless two
   records name the same queue key; single Drain steps in any order are covered by the theorems) *)
Definition drain_all (tm : conf) (s : state) : state := run tm s (map (fun kv => Drain (fst kv)) (info s)).
(* the kernel cleaner's pass over the queue *)
Definition clean_all (tm : conf) (s : state) : state := run tm s (map (fun kv => Clean (fst kv)) (q s)).

Definition init (c : list (key * entry)) (k0 g0 : Z) : state := mkS c [] [] k0 g0 0 0.
