(* C14 — liveness of a normal entry under ANY quiet schedule: whatever scanner callbacks (on any keys), turns of the
   final loop, cleaner callbacks and clock ticks are interleaved, as long as no dataplane step and no loss of queue
   entries occurs, once `Judge k` has been followed by `Clean k` the idle entry k is gone. *)
From Coq Require Import List NArith ZArith Bool Lia.
From Verif.C14 Require Import Model Spec Proofs Safety Liveness.
Import ListNotations.
Open Scope Z_scope.

Definition quiet (x : step) : Prop :=
  match x with Tick _ _ | Judge _ | Drain _ | Clean _ => True | _ => False end.

Section Gen.
Variable cf : conf.
Variable k : key.
Variable e : entry.
Hypothesis Hkind : e_kind e = KNormal.

Notation tm := (cf_tm cf).

(* no pairing record can make the scanner overwrite the queue slot of k *)
Definition P (s : state) : Prop :=
  lookup dummy (ct s) = None /\
  forall rk iv, lookup rk (info s) = Some iv -> qv_key iv <> k /\ (rk = k -> qv_key iv <> dummy).

Definition A (s : state) : Prop :=
  lookup k (ct s) = None \/
  (lookup k (ct s) = Some e /\ P s /\ expired tm (now_used s) (proto k) e = true /\ cached s <= kclock s).
Definition B (s : state) : Prop :=
  lookup k (ct s) = None \/
  (lookup k (ct s) = Some e /\ P s /\ lookup k (q s) = Some (dummy, e_ls e, e_ls e)).

Lemma refresh_needed_tick : forall s dk dg,
  refresh_needed s = true ->
  refresh_needed (mkS (ct s) (q s) (info s) (kclock s + Z.of_N dk) (gclock s + Z.of_N dg) (cached s) (lastgo s)) = true.
Proof.
  intros s dk dg. unfold refresh_needed. cbn [cached gclock lastgo]. rewrite !orb_true_iff, !Z.gtb_lt. intros [H|H]; auto. right. lia.
Qed.

(* what a callback on another key does to the queue slot of k and to the pairing records *)
Lemma judge_other : forall s j,
  lookup k (ct s) = Some e -> P s ->
  P (judge cf j s) /\ (j <> k -> lookup k (q (judge cf j s)) = lookup k (q s)).
Proof.
  intros s j Hk [Hd Hp].
  assert (Hct : ct (judge cf j s) = ct s) by apply judge_ct.
  unfold P. rewrite Hct. unfold judge.
  destruct (lookup j (ct s)) as [v|] eqn:Hv; [|split; auto].
  assert (Hjd : j <> dummy) by (intros ->; congruence).
  unfold tick1. cbn [q info].
  destruct (liveness_verdict tm (cached (refresh s)) (ct (refresh s)) j v) as [ts|] eqn:Hver;
    [|rewrite refresh_q, refresh_info; split; auto].
  destruct (e_kind v) eqn:Hkv.
  - cbn [q info set_q]. rewrite refresh_q, refresh_info. split; auto. intros Hne. rewrite lookup_set.
    assert (key_eqb k j = false) by (apply key_eqb_neq; auto). rewrite H. reflexivity.
  - assert (Hjk : j <> k) by (intros ->; congruence).
    assert (Ekj : key_eqb k j = false) by (apply key_eqb_neq; auto).
    unfold handle_nat. rewrite Hkv, refresh_ct, refresh_info, refresh_q.
    destruct (Z.eqb (e_ls v) ts && _).
    + cbn [q info set_q]. rewrite refresh_info. split; auto. intros _. rewrite lookup_set, Ekj. reflexivity.
    + destruct (lookup (e_rev v) (info s)) as [iv|] eqn:Hi; cbn [q info set_q set_info].
      * split; [split; auto|].
        -- intros rk iv' H. apply lookup_remove_some in H. auto.
        -- intros _. rewrite lookup_set, Ekj. reflexivity.
      * rewrite refresh_q. split; [split; auto|auto].
        intros rk iv' H. rewrite lookup_set in H. destruct (key_eqb rk (e_rev v)); auto.
        inversion H; subst iv'. cbn [qv_key fst]. split; auto.
  - assert (Hjk : j <> k) by (intros ->; congruence).
    unfold handle_nat. rewrite Hkv, refresh_info, refresh_q.
    destruct (lookup j (info s)) as [iv|] eqn:Hi; cbn [q info set_q set_info].
    + destruct (Hp _ _ Hi) as [Hne _]. split; [split; auto|].
      * intros rk iv' H. apply lookup_remove_some in H. auto.
      * intros _. rewrite lookup_set. assert (key_eqb k (qv_key iv) = false) by (apply key_eqb_neq; auto). rewrite H. reflexivity.
    + rewrite refresh_q. split; [split; auto|auto].
      intros rk iv' H. rewrite lookup_set in H. destruct (key_eqb rk j) eqn:E; auto.
      inversion H; subst iv'. cbn [qv_key fst]. apply key_eqb_eq in E. subst rk. split; [congruence|]. intros; contradiction.
  - unfold liveness_verdict in Hver. rewrite Hkv in Hver. discriminate.
Qed.

Lemma drain_other : forall s rk,
  lookup k (ct s) = Some e -> P s ->
  P (drain rk s) /\ lookup k (q (drain rk s)) = lookup k (q s).
Proof.
  intros s rk Hk [Hd Hp]. unfold P. rewrite drain_ct. unfold drain.
  destruct (lookup rk (info s)) as [iv|] eqn:Hi; [|split; auto].
  destruct (Hp _ _ Hi) as [H1 H2].
  assert (Hsub : forall rk' iv', lookup rk' (remove rk (info s)) = Some iv' -> qv_key iv' <> k /\ (rk' = k -> qv_key iv' <> dummy)).
  { intros rk' iv' H. apply lookup_remove_some in H. auto. }
  destruct (key_eqb (qv_key iv) dummy) eqn:Eo; cbn [q info set_q set_info]; (split; [split; auto|]); rewrite lookup_set.
  - apply key_eqb_eq in Eo. assert (key_eqb k rk = false) by (apply key_eqb_neq; intros <-; apply H2; auto). rewrite H. reflexivity.
  - assert (key_eqb k (qv_key iv) = false) by (apply key_eqb_neq; auto). rewrite H. reflexivity.
Qed.

Lemma clean_other : forall s j,
  lookup k (ct (clean j s)) = lookup k (ct s) \/ lookup k (ct (clean j s)) = None.
Proof.
  intros. unfold clean. destruct (lookup j (q s)) as [[[rk ts] rts]|]; [|left; reflexivity].
  destruct (N.eqb (proto rk) 0).
  - cbn [ct set_q]. destruct (lookup j (ct s)) as [e0|]; [|left; reflexivity].
    destruct (Z.eqb (e_ls e0) ts); [|left; reflexivity]. cbn [ct set_ct]. rewrite lookup_remove. destruct (key_eqb k j); auto.
  - assert (Hp : lookup k (ct (match lookup rk (ct s) with
                   | Some r => if Z.eqb (e_ls r) rts then set_ct (set_q s (remove j (q s))) (remove j (remove rk (ct s))) else set_q s (remove j (q s))
                   | None => set_q s (remove j (q s)) end)) = lookup k (ct s) \/
                 lookup k (ct (match lookup rk (ct s) with
                   | Some r => if Z.eqb (e_ls r) rts then set_ct (set_q s (remove j (q s))) (remove j (remove rk (ct s))) else set_q s (remove j (q s))
                   | None => set_q s (remove j (q s)) end)) = None).
    { destruct (lookup rk (ct s)) as [r|]; [|left; reflexivity].
      destruct (Z.eqb (e_ls r) rts); [|left; reflexivity]. cbn [ct set_ct]. rewrite !lookup_remove.
      destruct (key_eqb k j); auto. destruct (key_eqb k rk); auto. }
    cbn [ct set_q] in *. destruct (lookup j (ct s)) as [f|]; [|exact Hp].
    destruct (kind_eqb (e_kind f) KFwd && key_eqb (e_rev f) rk); [exact Hp|left; reflexivity].
Qed.

Lemma now_used_tick : forall s dk dg, cached s <= kclock s ->
  now_used s <= now_used (mkS (ct s) (q s) (info s) (kclock s + Z.of_N dk) (gclock s + Z.of_N dg) (cached s) (lastgo s)).
Proof.
  intros s dk dg Hc. pose proof (now_used_le s Hc) as Hn. unfold now_used at 2.
  destruct (refresh_needed (mkS _ _ _ _ _ _ _)) eqn:E; cbn [kclock cached].
  - lia.
  - unfold now_used. destruct (refresh_needed s) eqn:E2; [|lia].
    rewrite (refresh_needed_tick s dk dg E2) in E. discriminate.
Qed.

Lemma A_step : forall s x, quiet x -> A s -> A (do_step cf s x).
Proof.
  intros s x Hq [Hn|(Hk & HP & Hex & Hc)].
  - left. destruct (step_ct cf s x k) as [E|[E|(e' & E & E2)]]; try congruence.
    destruct x; cbn [quiet] in Hq; try contradiction; cbn [do_step] in *.
    + cbn [ct] in E. congruence.
    + rewrite judge_ct in *. congruence.
    + rewrite drain_ct in *. congruence.
    + destruct (clean_other s k0); congruence.
  - destruct x; cbn [quiet] in Hq; try contradiction; cbn [do_step].
    + right. cbn [ct]. split; auto. split; [exact HP|]. split; [|cbn [cached kclock]; lia].
      eapply expired_mono; [|exact Hex]. apply now_used_tick; auto.
    + right. rewrite judge_ct. split; auto. destruct (judge_other s k0 Hk HP) as [HP' _]. split; auto.
      destruct (now_used_judge cf s k0 Hc) as [Hn Hc']. split; auto. eapply expired_mono; eauto.
    + right. rewrite drain_ct. split; auto. destruct (drain_other s rk Hk HP) as [HP' _]. split; auto.
      unfold drain, now_used, refresh_needed in *.
      destruct (lookup rk (info s)) as [iv|]; auto. destruct (key_eqb (qv_key iv) dummy); cbn [cached gclock lastgo kclock set_q set_info]; auto.
    + destruct (clean_other s k0) as [E|E]; [right|left; auto]. rewrite E. split; auto.
      assert (Hsame : info (clean k0 s) = info s /\ cached (clean k0 s) = cached s /\ kclock (clean k0 s) = kclock s /\ gclock (clean k0 s) = gclock s /\ lastgo (clean k0 s) = lastgo s /\ (lookup dummy (ct s) = None -> lookup dummy (ct (clean k0 s)) = None)).
      { unfold clean. repeat match goal with
         | |- context [if ?c then _ else _] => destruct c
         | |- context [match ?x with _ => _ end] => destruct x
         end; cbn [info cached kclock gclock lastgo ct set_ct set_q]; repeat split; auto; intros Hd; rewrite ?lookup_remove;
         repeat match goal with |- context [if ?c then _ else _] => destruct c end; auto. }
      destruct Hsame as (S1 & S2 & S3 & S4 & S5 & S6). destruct HP as [Hd Hp].
      split; [split; [auto|rewrite S1; auto]|]. unfold now_used, refresh_needed. rewrite S2, S3, S4, S5. split; auto.
Qed.
Lemma clean_frame : forall s j,
  info (clean j s) = info s /\ (lookup dummy (ct s) = None -> lookup dummy (ct (clean j s)) = None) /\
  (j <> k -> lookup k (q (clean j s)) = lookup k (q s)).
Proof.
  intros. unfold clean.
  destruct (lookup j (q s)) as [[[rk ts] rts]|]; [|auto].
  assert (Hq : j <> k -> lookup k (remove j (q s)) = lookup k (q s)).
  { intros H. rewrite lookup_remove. assert (key_eqb k j = false) by (apply key_eqb_neq; auto). rewrite H0. reflexivity. }
  repeat match goal with
         | |- context [if ?c then _ else _] => destruct c
         | |- context [match ?x with _ => _ end] => destruct x
         end; cbn [info q ct set_ct set_q]; repeat split; auto; intros Hd; rewrite ?lookup_remove;
  repeat match goal with |- context [if ?c then _ else _] => destruct c end; auto.
Qed.

Lemma A_judge : forall s, A s -> B (do_step cf s (Judge k)).
Proof.
  intros s [Hn|(Hk & HP & Hex & Hc)]; cbn [do_step].
  - left. rewrite judge_ct. auto.
  - right. destruct (judge_normal cf s k e Hk Hkind Hex) as (Hc1 & Hq1 & Hi1).
    rewrite Hc1, Hq1. split; auto. split; [|rewrite lookup_set, key_eqb_refl; reflexivity].
    destruct (judge_other s k Hk HP) as [HP' _]. exact HP'.
Qed.

Lemma B_step : forall s x, quiet x -> B s -> B (do_step cf s x).
Proof.
  intros s x Hq [Hn|(Hk & HP & Hqk)].
  - left. destruct x; cbn [quiet] in Hq; try contradiction; cbn [do_step] in *.
    + cbn [ct]. auto.
    + rewrite judge_ct. auto.
    + rewrite drain_ct. auto.
    + destruct (clean_other s k0); congruence.
  - destruct x; cbn [quiet] in Hq; try contradiction; cbn [do_step].
    + right. cbn [ct q]. auto.
    + right. rewrite judge_ct. split; auto. destruct (judge_other s k0 Hk HP) as [HP' Hq']. split; auto.
      destruct (key_eqb k0 k) eqn:E.
      * apply key_eqb_eq in E. subst k0. unfold judge. rewrite Hk. unfold tick1, liveness_verdict. rewrite Hkind.
        destruct (expired tm (cached (refresh s)) (proto k) e); cbn [q set_q]; rewrite ?refresh_q; auto.
        rewrite lookup_set, key_eqb_refl. reflexivity.
      * apply key_eqb_neq in E. rewrite Hq'; auto.
    + right. rewrite drain_ct. split; auto. destruct (drain_other s rk Hk HP) as [HP' Hq']. split; auto. congruence.
    + destruct (key_eqb k0 k) eqn:E.
      * apply key_eqb_eq in E. subst k0. left.
        erewrite clean_alone with (e := e) (rk := dummy); [apply gone|exact Hqk|reflexivity|exact Hk|reflexivity].
      * apply key_eqb_neq in E. destruct (clean_other s k0) as [E2|E2]; [right|left; auto].
        destruct (clean_frame s k0) as (F1 & F2 & F3). destruct HP as [Hd Hp].
        rewrite E2, F3 by auto. split; auto. split; auto. split; auto. rewrite F1. auto.
Qed.

Lemma A_run : forall tr s, Forall quiet tr -> A s -> A (run cf s tr).
Proof.
  induction tr as [|x tr IH]; intros s Hq HA; [exact HA|]. inversion Hq; subst.
  change (run cf s (x :: tr)) with (run cf (do_step cf s x) tr). apply IH; auto. apply A_step; auto.
Qed.
Lemma B_run : forall tr s, Forall quiet tr -> B s -> B (run cf s tr).
Proof.
  induction tr as [|x tr IH]; intros s Hq HB; [exact HB|]. inversion Hq; subst.
  change (run cf s (x :: tr)) with (run cf (do_step cf s x) tr). apply IH; auto. apply B_step; auto.
Qed.

Theorem live_normal_any_schedule : forall s tr1 tr2,
  lookup k (ct s) = Some e ->
  expired tm (now_used s) (proto k) e = true ->
  cached s <= kclock s -> lookup dummy (ct s) = None -> info s = [] ->
  Forall quiet tr1 -> Forall quiet tr2 ->
  lookup k (ct (run cf s (tr1 ++ Judge k :: tr2 ++ [Clean k]))) = None.
Proof.
  intros s tr1 tr2 Hk Hex Hc Hd Hi Q1 Q2.
  assert (HA : A s).
  { right. split; auto. split; [|auto]. split; auto. intros rk iv H. rewrite Hi in H. simpl in H. discriminate. }
  rewrite run_app. change (run cf (run cf s tr1) (Judge k :: tr2 ++ [Clean k]))
    with (run cf (do_step cf (run cf s tr1) (Judge k)) (tr2 ++ [Clean k])).
  rewrite run_snoc.
  pose proof (B_run tr2 _ Q2 (A_judge _ (A_run tr1 s Q1 HA))) as HB.
  set (s2 := run cf (do_step cf (run cf s tr1) (Judge k)) tr2) in *.
  destruct HB as [Hn|(Hk2 & HP2 & Hq2)]; cbn [do_step].
  - destruct (clean_other s2 k); congruence.
  - erewrite clean_alone with (e := e) (rk := dummy); [apply gone|exact Hq2|reflexivity|exact Hk2|reflexivity].
Qed.

End Gen.
