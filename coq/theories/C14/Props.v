(* C14 — property theorems only.  Each is closed by `exact <lemma>` and followed by Print Assumptions.

   Reading guide.  `run cf s0 pre` is the state after the history `pre`, ANY list of steps
     Tick | Packet k | DpSet k e | DpDel k      (clock, dataplane: refresh / rewrite / evict)
     Judge k | Drain rk | QDrop k               (userspace scanner: one iteration callback / one turn of its final loop / lost queue entry)
     Clean k                                    (kernel cleaner: one process_ccq_entry callback)
   cf = (timeouts, which handleNATEntries: pinned or repaired).  The kernel steps Clean/Packet are hand models of C code. *)
From Coq Require Import List NArith ZArith Bool.
From Verif.C14 Require Import Model Spec Proofs TimeoutTable Safety SafetyCor Liveness LivenessGen FullScan MeetsSpec MeetsSpecC Witness.
Import ListNotations.
Open Scope Z_scope.

(* entryDone per TCP state / UDP / ICMP / generic = "idle longer than the smallest configured timeout that applies" *)
Theorem c14_timeout_table : forall t now p e,
  expired t now p e = idle_past_timeout t now p e.
Proof. exact expired_iff_idle. Qed.
Print Assumptions c14_timeout_table.

(* THE TABLE, STATE BY STATE.  An entry is judged expired ONLY IF its idle time  now - last_seen  exceeds the timeout of a
   rule that applies to its protocol and state (Spec.rule_applies / rule_timeout: RST seen, FINs seen, established or
   DSR with a recorded RST time -> fixed 120 s, established or DSR, pre-established, ICMP, UDP, generic), and the reason
   entryDone reports is such a rule ... *)
Theorem c14_expired_only_if_idle : forall t now p e,
  expired t now p e = true ->
  exists r, entry_done t now p e false = Some r /\ rule_applies p e r = true /\ now - e_ls e > rule_timeout t r.
Proof. exact expired_only_if_idle. Qed.
Print Assumptions c14_expired_only_if_idle.

(* ... and IF the idle time exceeds the timeout of any applicable rule the entry is judged expired. *)
Theorem c14_idle_past_a_rule_expires : forall t now p e r,
  rule_applies p e r = true -> now - e_ls e > rule_timeout t r -> expired t now p e = true.
Proof. exact idle_past_a_rule_expires. Qed.
Print Assumptions c14_idle_past_a_rule_expires.

(* Both functions, with their reasons: whatever EntryExpired (fin = false) / EntryFinished (fin = true) answers passes the
   oracle that the correspondence run applies to the real functions' answers (a reported reason is a rule that fires;
   "not done" only if no rule fires). *)
Theorem c14_entry_done_meets_spec : forall t now p e fin,
  ok_answer t now p e fin (entry_done t now p e fin) = true.
Proof. exact entry_done_ok. Qed.
Print Assumptions c14_entry_done_meets_spec.

(* The verdict is a function of the idle time alone: moving the clock and last_seen together changes nothing, and the
   VALUE of the recorded RST time (calico_ct_value.rst_seen) never matters, only whether one is recorded.  (The seeded
   change that measures the 120 s window from rst_seen breaks exactly this.) *)
Theorem c14_verdict_depends_on_idle_time_only : forall t now p e d fin,
  entry_done t (now + d) p (with_ls e (e_ls e + d)) fin = entry_done t now p e fin.
Proof. exact expired_shift. Qed.
Print Assumptions c14_verdict_depends_on_idle_time_only.

Theorem c14_rst_time_value_irrelevant : forall t now p e z z' fin,
  z <> 0 -> z' <> 0 -> entry_done t now p (with_rstts e z) fin = entry_done t now p (with_rstts e z') fin.
Proof. exact expired_rst_time_irrelevant. Qed.
Print Assumptions c14_rst_time_value_irrelevant.

(* EntryFinished = EntryExpired or "TCP in a FINs-seen state" (the comment on EntryExpired: if it returns true,
   EntryFinished would also return true). *)
Theorem c14_finished_iff : forall t now p e,
  finished t now p e = expired t now p e || rule_applies p e 2%N.
Proof. exact finished_iff. Qed.
Print Assumptions c14_finished_iff.

(* timeouts.GetTimeouts (values already through time.ParseDuration; "Auto" not modelled): the table carries exactly the
   configured durations and the defaults elsewhere; the defaults are non-negative. *)
Theorem c14_get_timeouts_meets_spec : forall cfg, ok_cfg cfg (get_timeouts cfg) = true.
Proof. exact get_timeouts_ok. Qed.
Print Assumptions c14_get_timeouts_meets_spec.
Theorem c14_default_timeouts_nonneg : tm_nonneg default_timeouts /\ get_timeouts [] = default_timeouts.
Proof. split; [exact default_nonneg|exact get_timeouts_empty]. Qed.
Print Assumptions c14_default_timeouts_nonneg.

(* SAFETY, all interleavings.  From a start state with empty queue and pairing table, timestamps not in the future and
   no all-zero key, after ANY history `pre` (dataplane rewrites never create the all-zero key): if the cleaner callback
   `Clean qk` deletes slot k holding e, then
     - there is an earlier scanner callback `Judge j` such that e was in slot k then, slot k held exactly e in every
       state from that callback up to now (no packet refreshed it, nothing rewrote or evicted it), and at that callback
       either k was judged (as itself, or as the reverse entry of forward entry j) idle longer than the timeout of its
       protocol and state by the TRUE kernel clock, or k is a NAT forward entry that was queued on its own
       (`alone_reason`: reverse entry absent | reverse key of protocol 0 | pinned code only: reverse entry present,
       same last_seen, idle past its timeout);  no assumption on the sign of the configured timeouts is needed;
     - or k is a NAT forward entry deleted in the same atomic step as its reverse entry, whose deletion is justified as above. *)
Theorem c14_safety : forall cf s0,
  q s0 = [] -> info s0 = [] -> lookup dummy (ct s0) = None -> cached s0 <= kclock s0 ->
  (forall k e, lookup k (ct s0) = Some e -> e_ls e <= kclock s0) ->
  forall pre qk k e,
  Forall wf_step pre ->
  lookup k (ct (run cf s0 pre)) = Some e ->
  lookup k (ct (do_step cf (run cf s0 pre) (Clean qk))) = None ->
  justified cf s0 pre k e
  \/ (k = qk /\ e_kind e = KFwd /\ e_rev e <> k /\
      exists r, lookup (e_rev e) (ct (run cf s0 pre)) = Some r /\
                lookup (e_rev e) (ct (do_step cf (run cf s0 pre) (Clean qk))) = None /\
                justified cf s0 pre (e_rev e) r).
Proof. exact safety. Qed.
Print Assumptions c14_safety.

(* The property as stated, for the entries that stand for a connection (normal and NAT reverse entries): such an entry
   is deleted only if a scanner callback judged it - as itself or as the reverse entry of forward entry j - idle longer
   than the timeout of its protocol and state (true kernel clock), and the slot is unchanged ever since. *)
Theorem c14_tracking_entry_safety : forall cf s0,
  q s0 = [] -> info s0 = [] -> lookup dummy (ct s0) = None -> cached s0 <= kclock s0 ->
  (forall k e, lookup k (ct s0) = Some e -> e_ls e <= kclock s0) ->
  forall pre qk k e,
  Forall wf_step pre ->
  lookup k (ct (run cf s0 pre)) = Some e -> e_kind e <> KFwd ->
  lookup k (ct (do_step cf (run cf s0 pre) (Clean qk))) = None ->
  exists a j b,
    pre = a ++ Judge j :: b /\
    lookup k (ct (run cf s0 a)) = Some e /\
    (j = k \/ exists f, lookup j (ct (run cf s0 a)) = Some f /\ e_kind f = KFwd /\ e_rev f = k) /\
    idle_past_timeout (cf_tm cf) (kclock (run cf s0 a)) (proto j) e = true /\
    unchanged cf (do_step cf (run cf s0 a) (Judge j)) b k e.
Proof. exact tracking_safety. Qed.
Print Assumptions c14_tracking_entry_safety.

(* "...and it has not carried traffic since that judgement", in terms of the trace: if slot k is unchanged through the
   steps b that follow the judgement, then b contains no packet step on k and no packet step on a forward entry whose
   reverse key is k (such a packet would have stored the clock in k's last_seen: conntrack.h 787 / 835). *)
Theorem c14_no_packet_since : forall cf s0,
  q s0 = [] -> info s0 = [] -> lookup dummy (ct s0) = None -> cached s0 <= kclock s0 ->
  (forall k e, lookup k (ct s0) = Some e -> e_ls e <= kclock s0) ->
  forall a j b k e,
  Forall wf_step a ->
  lookup k (ct (run cf s0 a)) = Some e -> lookup j (ct (run cf s0 a)) <> None ->
  unchanged cf (do_step cf (run cf s0 a) (Judge j)) b k e ->
  forall b1 p b2, b = b1 ++ Packet p :: b2 ->
    let s := run cf (do_step cf (run cf s0 a) (Judge j)) b1 in
    ~ (p = k \/ exists f, lookup p (ct s) = Some f /\ e_kind f = KFwd /\ e_rev f = k).
Proof. exact no_packet_since. Qed.
Print Assumptions c14_no_packet_since.

(* With fixes/C14-fwd-equal-timestamps.patch the only reasons left for queueing a forward entry alone are an absent
   reverse entry or a protocol-0 reverse key. *)
Theorem c14_fwd_alone_only_orphan_fixed : forall cf kf sj f,
  cf_fix cf = true -> alone_reason cf kf sj f -> lookup (e_rev f) (ct sj) = None \/ proto (e_rev f) = 0%N.
Proof. exact alone_reason_fixed. Qed.
Print Assumptions c14_fwd_alone_only_orphan_fixed.

(* "NAT pairs are deleted together or not at all" is FALSE for the pinned code: both entries of a UDP pair carry the
   same last_seen (last packet hit the forward key), both are judged idle, a reply packet refreshes the reverse entry
   before the cleaner runs; the cleaner deletes the forward entry and keeps the refreshed reverse entry. *)
Theorem c14_pair_split_pinned_refuted :
  let s := run pinned w_s0 w_trace in
  lookup kF (ct s) = None /\
  lookup kR (ct s) = Some (mkE KRev (5000 * sec + 2) dummy false 0 est est).
Proof. exact split_pinned. Qed.
Print Assumptions c14_pair_split_pinned_refuted.

(* the same schedule with the repaired handleNATEntries keeps both entries *)
Theorem c14_pair_kept_repaired :
  let s := run repaired w_s0 w_trace in
  lookup kF (ct s) <> None /\ lookup kR (ct s) <> None.
Proof. exact split_repaired. Qed.
Print Assumptions c14_pair_kept_repaired.

(* LIVENESS: an entry idle past its timeout by the kernel time the scanner reads (now_used: the cached value, or the
   clock if the cache is refreshed) is gone after one judge / clean round without packets. *)
Theorem c14_liveness_normal : forall cf s k e,
  lookup k (ct s) = Some e -> e_kind e = KNormal -> expired (cf_tm cf) (now_used s) (proto k) e = true ->
  lookup k (ct (run cf s [Judge k; Clean k])) = None.
Proof. exact live_normal. Qed.
Print Assumptions c14_liveness_normal.

(* The same for ANY quiet schedule: starting from a state between two scans (empty pairing table), whatever scanner
   callbacks on whatever keys, turns of the final loop, cleaner callbacks and clock ticks happen before, between and
   after (tr1, tr2: no dataplane step, no lost queue entry), once `Judge k` has been followed by `Clean k` the idle
   normal entry is gone. *)
Theorem c14_liveness_normal_any_schedule : forall cf k e, e_kind e = KNormal ->
  forall s tr1 tr2,
  lookup k (ct s) = Some e ->
  expired (cf_tm cf) (now_used s) (proto k) e = true ->
  cached s <= kclock s -> lookup dummy (ct s) = None -> info s = [] ->
  Forall quiet tr1 -> Forall quiet tr2 ->
  lookup k (ct (run cf s (tr1 ++ Judge k :: tr2 ++ [Clean k]))) = None.
Proof. exact live_normal_any_schedule. Qed.
Print Assumptions c14_liveness_normal_any_schedule.

Theorem c14_liveness_reverse_alone : forall cf s k e,
  lookup k (ct s) = Some e -> e_kind e = KRev -> expired (cf_tm cf) (now_used s) (proto k) e = true ->
  lookup k (info s) = None ->
  lookup k (ct (run cf s [Judge k; Drain k; Clean k])) = None.
Proof. exact live_rev_alone. Qed.
Print Assumptions c14_liveness_reverse_alone.

Theorem c14_liveness_pair_fwd_first : forall cf s kf kr f r,
  cached s <= kclock s ->
  lookup kf (ct s) = Some f -> e_kind f = KFwd -> e_rev f = kr ->
  lookup kr (ct s) = Some r -> e_kind r = KRev -> proto kr <> 0%N ->
  expired (cf_tm cf) (now_used s) (proto kf) r = true -> expired (cf_tm cf) (now_used s) (proto kr) r = true ->
  (e_ls f <> e_ls r \/ cf_fix cf = true) ->
  lookup kr (info s) = None ->
  let s' := run cf s [Judge kf; Judge kr; Clean kf] in
  lookup kf (ct s') = None /\ lookup kr (ct s') = None.
Proof. exact live_pair_fwd_first. Qed.
Print Assumptions c14_liveness_pair_fwd_first.

Theorem c14_liveness_pair_rev_first : forall cf s kf kr f r,
  cached s <= kclock s ->
  lookup kf (ct s) = Some f -> e_kind f = KFwd -> e_rev f = kr ->
  lookup kr (ct s) = Some r -> e_kind r = KRev -> proto kr <> 0%N ->
  expired (cf_tm cf) (now_used s) (proto kf) r = true -> expired (cf_tm cf) (now_used s) (proto kr) r = true ->
  (e_ls f <> e_ls r \/ cf_fix cf = true) ->
  lookup kr (info s) = None ->
  let s' := run cf s [Judge kr; Judge kf; Clean kf] in
  lookup kf (ct s') = None /\ lookup kr (ct s') = None.
Proof. exact live_pair_rev_first. Qed.
Print Assumptions c14_liveness_pair_rev_first.

(* WHOLE-TABLE LIVENESS.  Between two scans (`fresh`: pairing table and queue empty, no all-zero key, NAT reverse keys
   have a protocol), one complete round - every key of the table visited exactly once in ANY order, then the final
   loop reaching every pairing record in ANY order, then the cleaner reaching every queue entry in ANY order, with no
   dataplane step in between (`complete_round`) - removes every entry that was `deletable` when the scan started:
   normal and reverse entries idle past their timeout by the kernel time the scanner reads, and forward entries
   whose reverse entry is absent.  This includes reverse entries with any number of forward entries, in every visit
   order. *)
Theorem c14_full_scan_liveness : forall cf order dr cl s k e,
  fresh s -> complete_round cf order dr cl s ->
  lookup k (ct s) = Some e -> deletable cf (ct s) k e (now_used s) ->
  lookup k (ct (round cf order dr cl s)) = None.
Proof. exact full_scan_liveness. Qed.
Print Assumptions c14_full_scan_liveness.

(* the round the real Scan() + cleaner perform (final loop over the whole pairing table, cleaner pass over the whole
   queue) is such a round *)
Theorem c14_scan_round_is_complete : forall cf order s,
  NoDup order -> (forall x, lookup x (ct s) <> None -> In x order) ->
  scan_round cf order s =
    round cf order (map fst (info (run cf s (map Judge order)))) (map fst (q (drain_all cf (run cf s (map Judge order))))) s
  /\ complete_round cf order (map fst (info (run cf s (map Judge order))))
                    (map fst (q (drain_all cf (run cf s (map Judge order))))) s.
Proof. intros. split; [apply scan_round_is_round|apply scan_round_complete; auto]. Qed.
Print Assumptions c14_scan_round_is_complete.

(* a round leaves a fresh state behind and only ever removes entries *)
Theorem c14_round_fresh : forall cf order dr cl s,
  fresh s -> complete_round cf order dr cl s ->
  fresh (round cf order dr cl s) /\
  (forall x, lookup x (ct (round cf order dr cl s)) = lookup x (ct s) \/ lookup x (ct (round cf order dr cl s)) = None).
Proof. exact round_fresh. Qed.
Print Assumptions c14_round_fresh.

(* FORWARD ENTRIES: WITHIN TWO ROUNDS.  A forward entry whose reverse entry was deletable is gone after two complete
   rounds.  The first round removes the reverse entry (theorem above) and with it the forward entry that was queued
   together with it.  A forward entry that was NOT queued with it - it lost the single pairing record of the reverse
   entry to another forward entry of the same reverse entry, or (pinned code) carried the same timestamp and its own
   queue entry was not reached - is left as a forward entry without reverse entry; the second round removes it. *)
Theorem c14_fwd_within_two_rounds : forall cf o1 d1 c1 o2 d2 c2 s kf f r,
  fresh s ->
  lookup kf (ct s) = Some f -> e_kind f = KFwd ->
  lookup (e_rev f) (ct s) = Some r -> deletable cf (ct s) (e_rev f) r (now_used s) ->
  complete_round cf o1 d1 c1 s ->
  complete_round cf o2 d2 c2 (round cf o1 d1 c1 s) ->
  lookup kf (ct (round cf o2 d2 c2 (round cf o1 d1 c1 s))) = None.
Proof. exact fwd_two_rounds. Qed.
Print Assumptions c14_fwd_within_two_rounds.

(* ... and one round is really not enough: two forward entries of one reverse entry, visited before it (here the
   cleaner happens to reach the reverse entry's own queue entry first, so both forward entries wait for round two). *)
Theorem c14_shared_reverse_needs_two_rounds : forall cf, cf = pinned \/ cf = repaired ->
  let s1 := w_round cf [kF; kF2; kR] (init w_shared (5000 * sec) 0) in
  let s2 := w_round cf [kF2; kF] s1 in
  map fst (ct s1) = [kF; kF2] /\ ct s2 = [].
Proof. exact shared_reverse_two_rounds. Qed.
Print Assumptions c14_shared_reverse_needs_two_rounds.

(* MODEL MEETS SPEC, soundness half of the oracle.  Spec.ok_segs (the oracle evaluated on the REAL scanner's queues by the
   correspondence run) is the conjunction of a soundness half and a completeness half (ok_segs_halves).  For every
   start state between two scans, every clock and every list of scans made of clock ticks, packets, dataplane rewrites
   and evictions (never the all-zero key; forward entries never point at a protocol-0 key) and scanner callbacks (each
   key visited at most once per scan), the queues the model with the repaired handleNATEntries hands to the cleaner
   pass the soundness half: every queue entry is backed by a judgement the property allows. *)
Theorem c14_oracle_halves : forall t segs en sy obs,
  ok_segs t en sy segs obs = sound_segs t en segs obs && complete_segs t en sy segs obs.
Proof. exact ok_segs_halves. Qed.
Print Assumptions c14_oracle_halves.

Theorem c14_model_meets_spec_sound : forall t segs s,
  Start s ->
  Forall (fun seg => Forall seg_step seg /\ NoDup (judged seg)) segs ->
  sound_segs t (ct s, kclock s) segs (run_segs (mkConf t true) s segs) = true.
Proof. exact model_meets_spec_sound. Qed.
Print Assumptions c14_model_meets_spec_sound.

(* MODEL MEETS SPEC, completeness half: while all ticks so far moved the kernel clock and the Go clock together (the
   condition under which the oracle demands completeness at all), every entry that a scan visited, that nothing touched
   during that scan, and that was idle past its timeout by more than the second the cached kernel time may lag - and
   every forward entry whose reverse entry was absent when visited - is covered by the queue the model hands over. *)
Theorem c14_model_meets_spec_complete : forall t segs s sy,
  Start s -> (sy = true -> SyncInv s) ->
  Forall (fun seg => Forall seg_step seg /\ NoDup (judged seg)) segs ->
  complete_segs t (ct s, kclock s) sy segs (run_segs (mkConf t true) s segs) = true.
Proof. exact model_meets_spec_complete. Qed.
Print Assumptions c14_model_meets_spec_complete.

(* MODEL MEETS SPEC: the oracle `ok_segs` - exactly the term Spec.check_case evaluates on the real scanner's queues -
   accepts every run of the model (repaired handleNATEntries): any table without the all-zero key, timestamps not in the
   future, forward entries not pointing at protocol-0 keys, any non-negative clock, any list of scans made of ticks,
   packets, rewrites, evictions and scanner callbacks with each key visited at most once per scan. *)
Theorem c14_model_meets_spec : forall t ct0 k0 g0 segs,
  0 <= k0 -> lookup dummy ct0 = None -> (forall k e, lookup k ct0 = Some e -> e_ls e <= k0) -> WF ct0 ->
  Forall (fun seg => Forall seg_step seg /\ NoDup (judged seg)) segs ->
  ok_segs t (ct0, k0) true segs (run_segs (mkConf t true) (init ct0 k0 g0) segs) = true.
Proof. exact model_meets_spec. Qed.
Print Assumptions c14_model_meets_spec.

(* the judged idle time only grows with the clock (so a stale cached kernel time errs on the side of keeping) *)
Theorem c14_expired_monotone : forall t now now' p e,
  now <= now' -> expired t now p e = true -> expired t now' p e = true.
Proof. exact expired_mono. Qed.
Print Assumptions c14_expired_monotone.

(* Non-vacuity: the start state of the witness satisfies every hypothesis of c14_safety, and a quiet round (pinned or
   repaired) really deletes the idle pair and the idle TCP connection. *)
Example c14_example_hyps :
  tm_nonneg tm_default /\ q w_s0 = [] /\ info w_s0 = [] /\ lookup dummy (ct w_s0) = None /\ cached w_s0 <= kclock w_s0.
Proof. unfold tm_nonneg. vm_compute. repeat split; congruence. Qed.
Example c14_example_round : forall cf, cf = pinned \/ cf = repaired ->
  ct (run cf w_s0 [Judge kF; Judge kR; Judge kN; Drain kR; Clean kF; Clean kR; Clean kN]) = [].
Proof. exact quiet_round. Qed.
