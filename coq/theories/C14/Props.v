(* C14 — property theorems only. *)
From Coq Require Import List NArith ZArith Bool.
From Verif.C14 Require Import Model Spec Proofs.
Import ListNotations.
Open Scope Z_scope.

(* entryDone per TCP state / UDP / ICMP / generic = "idle longer than the smallest configured timeout that applies" *)
Theorem c14_timeout_table : forall t now p e,
  expired t now p e = idle_past_timeout t now p e.
Proof. exact expired_iff_idle. Qed.
Print Assumptions c14_timeout_table.
