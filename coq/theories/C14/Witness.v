(* C14 — concrete schedules: non-vacuity examples and the pair-split witness of the pinned handleNATEntries. *)
From Coq Require Import List NArith ZArith Bool.
From Verif.C14 Require Import Model Spec.
Import ListNotations.
Open Scope Z_scope.

Definition tm_default : timeouts := default_timeouts.
Definition est : leg := mkLeg true true false false.

Definition kR : key := (17%N, 1%N).
Definition kF : key := (17%N, 2%N).
Definition kN : key := (6%N, 3%N).
(* a UDP NAT pair whose last packet hit the forward key (both entries stamped 100 s, conntrack.h 787/835), and an
   established TCP connection idle for more than an hour *)
Definition w_ct : list (key * entry) :=
  [ (kR, mkE KRev (100 * sec) dummy false 0 est est);
    (kF, mkE KFwd (100 * sec) kR false 0 (mkLeg false false false false) (mkLeg false false false false));
    (kN, mkE KNormal (200 * sec) dummy false 0 est est) ].
Definition w_s0 : state := init w_ct (5000 * sec) 0.

(* scanner judges F then R (both idle for 4900 s > 60 s), final loop, a reply packet hits the reverse key, the
   cleaner runs *)
Definition w_trace : list step := [Judge kF; Judge kR; Drain kR; Packet kR; Clean kF; Clean kR].

Definition pinned : conf := mkConf tm_default false.
Definition repaired : conf := mkConf tm_default true.

Lemma split_pinned :
  let s := run pinned w_s0 w_trace in
  lookup kF (ct s) = None /\
  lookup kR (ct s) = Some (mkE KRev (5000 * sec + 2) dummy false 0 est est).
Proof. vm_compute. split; reflexivity. Qed.

Lemma split_repaired :
  let s := run repaired w_s0 w_trace in
  lookup kF (ct s) <> None /\ lookup kR (ct s) <> None.
Proof. vm_compute. split; discriminate. Qed.

(* without the packet both variants remove the pair, and the idle TCP connection goes after Judge; Clean *)
Lemma quiet_round :
  forall cf, cf = pinned \/ cf = repaired ->
  let s := run cf w_s0 [Judge kF; Judge kR; Judge kN; Drain kR; Clean kF; Clean kR; Clean kN] in
  ct s = [].
Proof. intros cf [-> | ->]; vm_compute; reflexivity. Qed.

(* two forward entries for one reverse entry: the one that loses the pairing record survives the first round (its
   reverse entry is deleted with the other forward entry) and is removed, as a forward entry without reverse entry,
   by the second *)
Definition kF2 : key := (17%N, 4%N).
Definition w_shared : list (key * entry) :=
  [ (kR, mkE KRev (100 * sec) dummy false 0 est est);
    (kF, mkE KFwd (90 * sec) kR false 0 (mkLeg false false false false) (mkLeg false false false false));
    (kF2, mkE KFwd (95 * sec) kR false 0 (mkLeg false false false false) (mkLeg false false false false)) ].
Definition w_round (cf : conf) (order : list key) (s : state) : state :=
  clean_all cf (drain_all cf (run cf s (map Judge order))).

Lemma shared_reverse_two_rounds : forall cf, cf = pinned \/ cf = repaired ->
  let s1 := w_round cf [kF; kF2; kR] (init w_shared (5000 * sec) 0) in
  let s2 := w_round cf [kF2; kF] s1 in
  map fst (ct s1) = [kF; kF2] /\ ct s2 = [].
Proof. intros cf [-> | ->]; vm_compute; split; reflexivity. Qed.
