(* C14 — readable corollaries of the safety theorem: tracking entries (normal / NAT reverse, i.e. the entries that stand
   for a connection), and "no packet step touched the entry or its pair since the judgement" in terms of the trace. *)
From Coq Require Import List NArith ZArith Bool Lia.
From Verif.C14 Require Import Model Spec Proofs Safety.
Import ListNotations.
Open Scope Z_scope.

(* a packet that hits k, or a forward entry whose reverse key is k, changes slot k (its last_seen becomes the clock) *)
Lemma packet_touches : forall s j k e,
  lookup k (ct s) = Some e -> e_ls e < kclock s ->
  (j = k \/ exists f, lookup j (ct s) = Some f /\ e_kind f = KFwd /\ e_rev f = k) ->
  lookup k (ct (packet j s)) <> Some e.
Proof.
  intros s j k e Hk Hlt Hj.
  assert (Hw : forall x, Some (with_ls x (kclock s)) <> Some e).
  { intros x H. inversion H. subst e. simpl in Hlt. lia. }
  unfold packet. destruct Hj as [->|(f & Hf & Hkf & Hrev)].
  - rewrite Hk. destruct (e_kind e) eqn:Hkind; cbn [ct set_ct]; rewrite ?lookup_set, ?key_eqb_refl; auto.
    destruct (lookup (e_rev e) (ct s)) as [r|] eqn:Hr; cbn [ct set_ct].
    + rewrite !lookup_set, key_eqb_refl. destruct (key_eqb k (e_rev e)); auto.
    + rewrite lookup_remove, key_eqb_refl. discriminate.
  - rewrite Hf, Hkf, Hrev, Hk. cbn [ct set_ct]. rewrite lookup_set, key_eqb_refl. auto.
Qed.

Section Cor.
Variable cf : conf.
Variable s0 : state.
Hypothesis H0q : q s0 = [].
Hypothesis H0i : info s0 = [].
Hypothesis H0d : lookup dummy (ct s0) = None.
Hypothesis H0c : cached s0 <= kclock s0.
Hypothesis H0l : forall k e, lookup k (ct s0) = Some e -> e_ls e <= kclock s0.

(* the statement of the property for the entries that stand for a connection *)
Theorem tracking_safety : forall pre qk k e,
  Forall wf_step pre ->
  lookup k (ct (run cf s0 pre)) = Some e -> e_kind e <> KFwd ->
  lookup k (ct (do_step cf (run cf s0 pre) (Clean qk))) = None ->
  exists a j b,
    pre = a ++ Judge j :: b /\
    lookup k (ct (run cf s0 a)) = Some e /\
    (j = k \/ exists f, lookup j (ct (run cf s0 a)) = Some f /\ e_kind f = KFwd /\ e_rev f = k) /\
    idle_past_timeout (cf_tm cf) (kclock (run cf s0 a)) (proto j) e = true /\
    unchanged cf (do_step cf (run cf s0 a) (Judge j)) b k e.
Proof.
  intros pre qk k e Hwf Hcur Hkind Hdel.
  destruct (safety cf s0 H0q H0i H0d H0c H0l pre qk k e Hwf Hcur Hdel) as [(a & j & b & Hp & Hl & Hun & [(Hj & Hidle & _)|(_ & Hk & _)])|(_ & Hk & _)];
    try contradiction.
  exists a, j, b. auto.
Qed.

(* ... and "it has not carried traffic since": between the judgement and the deletion the history contains no packet
   step on k, and no packet step on a forward entry whose reverse key is k *)
Theorem no_packet_since : forall a j b k e,
  Forall wf_step a ->
  lookup k (ct (run cf s0 a)) = Some e -> lookup j (ct (run cf s0 a)) <> None ->
  unchanged cf (do_step cf (run cf s0 a) (Judge j)) b k e ->
  forall b1 p b2, b = b1 ++ Packet p :: b2 ->
    let s := run cf (do_step cf (run cf s0 a) (Judge j)) b1 in
    ~ (p = k \/ exists f, lookup p (ct s) = Some f /\ e_kind f = KFwd /\ e_rev f = k).
Proof.
  intros a j b k e Hwf Hl Hj Hun b1 p b2 Hb s Hp.
  destruct (Inv_all cf s0 H0q H0i H0d H0c H0l a Hwf) as (_ & _ & _ & _ & Il).
  assert (Hs : lookup k (ct s) = Some e) by (apply (Hun b1 (Packet p :: b2)); auto).
  assert (Hs' : lookup k (ct (run cf (do_step cf (run cf s0 a) (Judge j)) (b1 ++ [Packet p]))) = Some e).
  { apply (Hun (b1 ++ [Packet p]) b2). rewrite <- app_assoc. exact Hb. }
  rewrite run_snoc in Hs'. fold s in Hs'. cbn [do_step] in Hs'.
  assert (Hlt : e_ls e < kclock s).
  { specialize (Il _ _ Hl).
    assert (kclock (run cf s0 a) + 1 <= kclock s).
    { unfold s. destruct (lookup j (ct (run cf s0 a))) as [v|] eqn:E; [|congruence].
      cbn [do_step]. rewrite <- (judge_kclock cf j _ v E).
      clear. generalize (judge cf j (run cf s0 a)). induction b1 as [|x b1 IH] using rev_ind; intros s1.
      - rewrite run_nil. lia.
      - rewrite run_snoc. pose proof (kclock_step cf (run cf s1 b1) x). specialize (IH s1). lia. }
    lia. }
  exact (packet_touches s p k e Hs Hlt Hp Hs').
Qed.

End Cor.
