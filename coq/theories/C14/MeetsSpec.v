(* C14 — the specification oracle accepts the model's own scans (soundness half).

   For every table, every clock, every list of scans made of clock ticks, packets, dataplane rewrites / evictions
   and scanner callbacks (each key visited at most once per scan) the queue the MODEL (repaired handleNATEntries)
   hands to the cleaner at the end of each scan passes the `sound_entry` test of Spec.v: every queue entry is backed
   by a judgement the property allows.  The completeness half of the oracle (`complete`) is not proved here. *)
From Coq Require Import List NArith ZArith Bool Lia.
From Verif.C14 Require Import Model Spec Proofs Safety Liveness FullScan.
Import ListNotations.
Open Scope Z_scope.

(* the two halves of Spec.ok_segs *)
Fixpoint sound_segs (t : timeouts) (en : env) (segs : list (list step)) (obs : list (list (key * qval))) : bool :=
  match segs, obs with
  | [], [] => true
  | seg :: segs', qu :: obs' =>
      let (pts, en') := judge_points seg en in
      forallb (sound_entry t pts) qu && sound_segs t en' segs' obs'
  | _, _ => false
  end.
Fixpoint complete_segs (t : timeouts) (en : env) (synced : bool) (segs : list (list step)) (obs : list (list (key * qval))) : bool :=
  match segs, obs with
  | [], [] => true
  | seg :: segs', qu :: obs' =>
      let (pts, en') := judge_points seg en in
      let synced' := synced && sync_ticks seg in
      (negb synced' || complete t (fst en) pts (fst en') qu) && complete_segs t en' synced' segs' obs'
  | _, _ => false
  end.
Lemma ok_segs_halves : forall t segs en sy obs,
  ok_segs t en sy segs obs = sound_segs t en segs obs && complete_segs t en sy segs obs.
Proof.
  induction segs as [|seg segs IH]; intros en sy [|qu obs]; simpl; auto.
  destruct (judge_points seg en) as [pts en']. rewrite IH.
  destruct (forallb (sound_entry t pts) qu); destruct (negb (sy && sync_ticks seg) || complete t (fst en) pts (fst en') qu);
    destruct (sound_segs t en' segs obs); simpl; auto.
Qed.

(* steps a scan segment is made of *)
Definition seg_step (x : step) : Prop :=
  match x with
  | Tick _ _ | Packet _ | DpDel _ | Judge _ => True
  | DpSet k e => k <> dummy /\ (e_kind e = KFwd -> proto (e_rev e) <> 0%N)
  | _ => False
  end.
Definition judged (l : list step) : list key :=
  flat_map (fun x => match x with Judge k => [k] | _ => [] end) l.

Definition WF (ctl : list (key * entry)) : Prop :=
  forall x f, lookup x ctl = Some f -> e_kind f = KFwd -> proto (e_rev f) <> 0%N.

Lemma packet_ct_env : forall k s, ct (packet k s) = ct (packet k (mkS (ct s) [] [] (kclock s) 0 0 0)).
Proof.
  intros. unfold packet. cbn [ct kclock].
  destruct (lookup k (ct s)) as [v|]; auto. destruct (e_kind v); auto.
  destruct (lookup (e_rev v) (ct s)); auto.
Qed.

Lemma WF_step : forall cf s x, seg_step x \/ (exists rk, x = Drain rk) -> WF (ct s) -> WF (ct (do_step cf s x)).
Proof.
  intros cf s x Hx H. destruct Hx as [Hx|[rk ->]]; [|cbn [do_step]; rewrite drain_ct; auto].
  destruct x; cbn [seg_step] in Hx; try contradiction; cbn [do_step ct set_ct]; auto.
  - unfold packet. destruct (lookup k (ct s)) as [v|] eqn:Hv; auto.
    assert (Hw : forall y t, e_kind (with_ls y t) = e_kind y /\ e_rev (with_ls y t) = e_rev y) by (intros; split; reflexivity).
    assert (One : WF (set k (with_ls v (kclock s)) (ct s))).
    { intros x f Hl. rewrite lookup_set in Hl. destruct (key_eqb x k); [inversion Hl; subst f; cbn; eauto|eauto]. }
    destruct (e_kind v) eqn:Hkv; cbn [ct set_ct]; auto.
    destruct (lookup (e_rev v) (ct s)) as [r|] eqn:Hr; cbn [ct set_ct].
    + intros x f Hl. rewrite lookup_set in Hl. destruct (key_eqb x (e_rev v)); [|eauto].
      inversion Hl; subst f. cbn. destruct (key_eqb (e_rev v) k); cbn; eauto.
    + intros x f Hl. apply lookup_remove_some in Hl. eauto.
  - destruct Hx as [_ Hx]. intros x f Hl. rewrite lookup_set in Hl. destruct (key_eqb x k); [inversion Hl; subst f; cbn; auto|eauto].
  - intros x f Hl. apply lookup_remove_some in Hl. eauto.
  - rewrite judge_ct. auto.
Qed.

(* the environment of Spec.judge_points is the (ct, kclock) projection of the model state *)
Lemma env_sim : forall cf s x, seg_step x ->
  match x with
  | Judge k => match lookup k (ct s) with Some _ => (ct s, kclock s + 1) | None => (ct s, kclock s) end
  | _ => env_step x (ct s, kclock s)
  end = (ct (do_step cf s x), kclock (do_step cf s x)).
Proof.
  intros cf s x Hx. destruct x; cbn [seg_step] in Hx; try contradiction; cbn [do_step env_step fst snd ct kclock set_ct]; auto.
  - rewrite <- packet_ct_env. f_equal. unfold packet. brk; reflexivity.
  - rewrite judge_ct. destruct (lookup k (ct s)) eqn:E.
    + erewrite judge_kclock by eauto. reflexivity.
    + unfold judge. rewrite E. reflexivity.
Qed.

Lemma judge_points_app : forall cf a s j b,
  Forall seg_step a ->
  In (j, (ct (run cf s a), kclock (run cf s a))) (fst (judge_points (a ++ Judge j :: b) (ct s, kclock s))).
Proof.
  induction a as [|x a IH]; intros s j b Ha.
  - rewrite run_nil. cbn [app judge_points]. destruct (judge_points b _). left. reflexivity.
  - inversion Ha; subst. change (run cf s (x :: a)) with (run cf (do_step cf s x) a).
    pose proof (env_sim cf s x H1) as E. specialize (IH (do_step cf s x) j b H2).
    cbn [app]. destruct x; cbn [seg_step] in H1; try contradiction; cbn [judge_points]; try (rewrite E; exact IH).
    cbn [fst snd]. revert E. destruct (lookup k (ct s)); intros E; rewrite E; destruct (judge_points (a ++ Judge j :: b) _); right; exact IH.
Qed.

Lemma judge_points_end : forall cf seg s, Forall seg_step seg ->
  snd (judge_points seg (ct s, kclock s)) = (ct (run cf s seg), kclock (run cf s seg)).
Proof.
  induction seg as [|x seg IH]; intros s Hs; [reflexivity|]. inversion Hs; subst.
  change (run cf s (x :: seg)) with (run cf (do_step cf s x) seg).
  pose proof (env_sim cf s x H1) as E. specialize (IH (do_step cf s x) H2).
  destruct x; cbn [seg_step] in H1; try contradiction; cbn [judge_points]; try (rewrite E; exact IH).
  cbn [fst snd]. revert E. destruct (lookup k (ct s)); intros E; rewrite E; destruct (judge_points seg _); exact IH.
Qed.

(* ---------------------------------------------------------------- queue bookkeeping *)

Definition uniq {V} (m : list (key * V)) : Prop := NoDup (map fst m).

Lemma remove_keys : forall {V} x k (m : list (key * V)), In x (map fst (remove k m)) -> In x (map fst m) /\ x <> k.
Proof.
  induction m as [|[k1 v] m IH]; simpl; intros H; [contradiction|].
  destruct (key_eqb k k1) eqn:E.
  - destruct (IH H). auto.
  - simpl in H. destruct H as [<-|H]; [split; auto; intros ->; rewrite key_eqb_refl in E; discriminate|]. destruct (IH H). auto.
Qed.
Lemma uniq_remove : forall {V} k (m : list (key * V)), uniq m -> uniq (remove k m).
Proof.
  unfold uniq. induction m as [|[k1 v] m IH]; simpl; intros H; auto. inversion H; subst.
  destruct (key_eqb k k1); auto. simpl. constructor; auto. intros Hin. apply remove_keys in Hin. tauto.
Qed.
Lemma uniq_set : forall {V} k (v : V) m, uniq m -> uniq (set k v m).
Proof.
  intros. unfold set, uniq. simpl. constructor; [|apply uniq_remove; auto]. intros Hin. apply remove_keys in Hin. tauto.
Qed.
Lemma uniq_lookup : forall {V} k (v : V) m, uniq m -> In (k, v) m -> lookup k m = Some v.
Proof.
  unfold uniq. induction m as [|[k1 v1] m IH]; simpl; intros H Hin; [contradiction|]. inversion H; subst.
  destruct Hin as [E|Hin].
  - inversion E; subst. rewrite key_eqb_refl. reflexivity.
  - destruct (key_eqb k k1) eqn:E; [|auto]. apply key_eqb_eq in E. subst k1. exfalso. apply H2.
    change k with (fst (k, v)). apply in_map. exact Hin.
Qed.
Lemma all_none_nil : forall {V} (m : list (key * V)), (forall x, lookup x m = None) -> m = [].
Proof. intros V [|[k v] m] H; auto. specialize (H k). simpl in H. rewrite key_eqb_refl in H. discriminate. Qed.

Section Seg.
Variable cf : conf.
Hypothesis Hfix : cf_fix cf = true.
Notation tm := (cf_tm cf).

Definition seg_or_drain (x : step) : Prop := seg_step x \/ exists rk, x = Drain rk.

Lemma seg_or_drain_wf : forall x, seg_or_drain x -> wf_step x.
Proof. intros x [H|[rk ->]]; [|exact I]. destruct x; cbn in *; tauto. Qed.

(* no queue key is the all-zero key; "visited, nothing paired yet" records belong to visited keys *)
Definition K (d : list key) (s : state) : Prop :=
  (forall qk v, lookup qk (q s) = Some v -> qk <> dummy) /\
  (forall rk iv, lookup rk (info s) = Some iv -> rk <> dummy /\ (qv_key iv = dummy -> In rk d)) /\
  uniq (q s).

Lemma K_step : forall d s x,
  seg_or_drain x -> lookup dummy (ct s) = None ->
  (forall j, x = Judge j -> ~ In j d) ->
  K d s -> K (judged [x] ++ d) (do_step cf s x).
Proof.
  intros d s x Hx Hd Hnd (Kq & Ki & Ku).
  destruct Hx as [Hx|[rk ->]].
  - destruct x; cbn [seg_step] in Hx; try contradiction; cbn [judged flat_map app do_step];
      try (split; [|split]; cbn [q info set_ct]; auto; fail).
    + unfold packet. split; [|split]; brk; cbn [q info set_ct]; auto.
    + (* Judge *)
      specialize (Hnd k eq_refl).
      destruct (lookup k (ct s)) as [v|] eqn:Hv.
      2: { assert (E : judge cf k s = s) by (unfold judge; rewrite Hv; reflexivity). rewrite E.
           split; auto. split; auto. intros rk iv H. destruct (Ki _ _ H). split; auto. intros; right; auto. }
      assert (Hkd : k <> dummy) by (intros ->; congruence).
      assert (Kim : forall rk iv, lookup rk (info s) = Some iv -> rk <> dummy /\ (qv_key iv = dummy -> In rk (k :: d))).
      { intros rk iv H. destruct (Ki _ _ H). split; auto. intros; right; auto. }
      assert (Qset : forall x y, x <> dummy -> (forall qk v0, lookup qk (set x y (q s)) = Some v0 -> qk <> dummy) /\ uniq (set x y (q s))).
      { intros x y Hxd. split; [|apply uniq_set; auto]. intros qk v0 H. rewrite lookup_set in H.
        destruct (key_eqb qk x) eqn:E; [apply key_eqb_eq in E; congruence|eauto]. }
      assert (Irem : forall x rk iv, lookup rk (remove x (info s)) = Some iv -> rk <> dummy /\ (qv_key iv = dummy -> In rk (k :: d))).
      { intros x rk iv H. apply lookup_remove_some in H. auto. }
      pose proof (judge_spec cf s k v Hv) as HS. cbv zeta in HS. unfold K.
      destruct (e_kind v).
      * destruct (expired _ _ _ v); destruct HS as [E1 E2]; rewrite E1, E2; [destruct (Qset k (dummy, e_ls v, e_ls v) Hkd)|]; auto.
      * destruct (lookup (e_rev v) (ct s)) as [r|] eqn:Hr.
        -- destruct (expired _ _ _ r); [|destruct HS as [E1 E2]; rewrite E1, E2; auto].
           destruct (Z.eqb (e_ls v) (e_ls r) && negb (cf_fix cf)).
           { destruct HS as [E1 E2]; rewrite E1, E2. destruct (Qset k (dummy, e_ls v, e_ls r) Hkd); auto. }
           destruct (lookup (e_rev v) (info s)) as [iv0|]; destruct HS as [E1 E2]; rewrite E1, E2.
           ++ destruct (Qset k (e_rev v, e_ls v, e_ls r) Hkd). split; auto. split; auto. apply Irem.
           ++ split; auto. split; auto. intros rk iv H. rewrite lookup_set in H. destruct (key_eqb rk (e_rev v)) eqn:E; [|auto].
              apply key_eqb_eq in E. subst rk. inversion H; subst iv. cbn [qv_key fst]. split; [intros E; rewrite E in Hr; congruence|]. intros; contradiction.
        -- destruct HS as [E1 E2]; rewrite E1, E2. destruct (Qset k (dummy, e_ls v, e_ls v) Hkd); auto.
      * destruct (expired _ _ _ v); [|destruct HS as [E1 E2]; rewrite E1, E2; auto].
        destruct (lookup k (info s)) as [iv|] eqn:Hi; destruct HS as [E1 E2]; rewrite E1, E2.
        -- destruct (Ki _ _ Hi) as [_ Hdm].
           assert (Ho : qv_key iv <> dummy) by (intros E; apply Hnd; auto).
           destruct (Qset (qv_key iv) (k, qv_ts iv, e_ls v) Ho). split; auto. split; auto. apply Irem.
        -- split; auto. split; auto. intros rk iv H. rewrite lookup_set in H. destruct (key_eqb rk k) eqn:E; [|auto].
           apply key_eqb_eq in E. subst rk. inversion H; subst iv. split; auto. intros; left; auto.
      * destruct HS as [E1 E2]; rewrite E1, E2; auto.
  - cbn [judged flat_map app do_step]. unfold drain. destruct (lookup rk (info s)) as [iv|] eqn:Hi; [|split; auto].
    destruct (Ki _ _ Hi) as [Hrk _].
    assert (Irem : forall rk' iv', lookup rk' (remove rk (info s)) = Some iv' -> rk' <> dummy /\ (qv_key iv' = dummy -> In rk' d)).
    { intros rk' iv' H. apply lookup_remove_some in H. auto. }
    unfold K. destruct (key_eqb (qv_key iv) dummy) eqn:E; cbn [q info set_q set_info]; (split; [|split; [exact Irem|apply uniq_set; auto]]);
      intros qk v0 H; rewrite lookup_set in H.
    + destruct (key_eqb qk rk) eqn:E2; [apply key_eqb_eq in E2; congruence|eauto].
    + apply key_eqb_neq in E. destruct (key_eqb qk (qv_key iv)) eqn:E2; [apply key_eqb_eq in E2; congruence|eauto].
Qed.

Lemma K_perm : forall d d' s, (forall y, In y d -> In y d') -> K d s -> K d' s.
Proof. intros d d' s H (A & B & C). split; auto. split; auto. intros rk iv Hl. destruct (B _ _ Hl). split; auto. Qed.

Lemma judged_app : forall a b, judged (a ++ b) = judged a ++ judged b.
Proof. intros. unfold judged. apply flat_map_app. Qed.
Lemma nodup_app_l : forall {A} (l l' : list A), NoDup (l ++ l') -> NoDup l.
Proof.
  induction l as [|x l IH]; simpl; intros l' H; [constructor|]. inversion H; subst. constructor; [|eapply IH; eauto].
  intros Hin. apply H2. apply in_or_app; auto.
Qed.

Definition Start (s : state) : Prop :=
  q s = [] /\ info s = [] /\ lookup dummy (ct s) = None /\ cached s <= kclock s /\
  (forall k e, lookup k (ct s) = Some e -> e_ls e <= kclock s) /\ WF (ct s).

Lemma KW_all : forall s0 a, Start s0 -> Forall seg_or_drain a -> NoDup (judged a) ->
  K (judged a) (run cf s0 a) /\ WF (ct (run cf s0 a)).
Proof.
  intros s0 a (S1 & S2 & S3 & S4 & S5 & S6). induction a as [|x a IH] using rev_ind; intros Ha Hnd.
  - rewrite run_nil. split; auto. split; [|split]; [rewrite S1|rewrite S2|rewrite S1; constructor]; intros ? ? H; discriminate.
  - apply Forall_app in Ha as [Ha Hx]. inversion Hx; subst. rewrite judged_app in Hnd.
    destruct (IH Ha (nodup_app_l _ _ Hnd)) as [HK HW]. rewrite run_snoc. split; [|apply WF_step; auto].
    assert (Hwf : Forall wf_step a) by (eapply Forall_impl; [apply seg_or_drain_wf|exact Ha]).
    destruct (Inv_all cf s0 S1 S2 S3 S4 S5 a Hwf) as (_ & _ & Hd & _).
    eapply K_perm; [|apply K_step; eauto].
    + intros y Hy. rewrite judged_app. apply in_app_or in Hy. apply in_or_app. tauto.
    + intros j ->. cbn [judged flat_map app] in Hnd. apply NoDup_remove_2 in Hnd. rewrite app_nil_r in Hnd. exact Hnd.
Qed.

Lemma app_judge_split : forall a j b seg dr,
  a ++ Judge j :: b = seg ++ dr -> Forall (fun x => exists rk, x = Drain rk) dr ->
  exists b', seg = a ++ Judge j :: b'.
Proof.
  induction a as [|x a IH]; intros j b seg dr H Hdr.
  - destruct seg as [|y seg]; simpl in H.
    + subst dr. inversion Hdr; subst. destruct H1 as [rk H1]. discriminate.
    + inversion H; subst. exists seg. reflexivity.
  - destruct seg as [|y seg]; simpl in H.
    + subst dr. rewrite Forall_forall in Hdr. destruct (Hdr (Judge j)) as [rk Hrk]; [|discriminate].
      right. apply in_or_app. right. left. reflexivity.
    + inversion H; subst. destruct (IH j b seg dr H2 Hdr) as [b' ->]. exists b'. reflexivity.
Qed.

Lemma judged_drains : forall l, judged (map Drain l) = [].
Proof. induction l; simpl; auto. Qed.

Lemma seg_sound : forall s seg, Start s -> Forall seg_step seg -> NoDup (judged seg) ->
  let s1 := drain_all cf (run cf s seg) in
  forallb (sound_entry tm (fst (judge_points seg (ct s, kclock s)))) (q s1) = true /\
  Start (set_q s1 []) /\ snd (judge_points seg (ct s, kclock s)) = (ct s1, kclock s1).
Proof.
  intros s seg HS Hseg Hnd. pose proof HS as (S1 & S2 & S3 & S4 & S5 & S6).
  set (dk := map fst (info (run cf s seg))).
  assert (Es1 : drain_all cf (run cf s seg) = run cf s (seg ++ map Drain dk)).
  { unfold drain_all, dk. rewrite run_app, map_map. reflexivity. }
  rewrite Es1. set (tr := seg ++ map Drain dk). cbv zeta.
  assert (Hdr : Forall (fun x => exists rk, x = Drain rk) (map Drain dk)).
  { apply Forall_forall. intros x Hx. apply in_map_iff in Hx as (rk & <- & _). eauto. }
  assert (Htr : Forall seg_or_drain tr).
  { apply Forall_app. split; [eapply Forall_impl; [|exact Hseg]; intros; left; auto|eapply Forall_impl; [|exact Hdr]; intros; right; auto]. }
  assert (Hjt : judged tr = judged seg) by (unfold tr; rewrite judged_app, judged_drains, app_nil_r; reflexivity).
  assert (Hndt : NoDup (judged tr)) by (rewrite Hjt; auto).
  destruct (KW_all s tr HS Htr Hndt) as [(Kq & Ki & Ku) HW].
  assert (Hwft : Forall wf_step tr) by (eapply Forall_impl; [apply seg_or_drain_wf|exact Htr]).
  destruct (Inv_all cf s S1 S2 S3 S4 S5 tr Hwft) as (Iq & Ii & Id & Ic & Il).
  (* facts at every visit of the scan *)
  assert (Pref : forall a j b', seg = a ++ Judge j :: b' ->
            Forall seg_step a /\ cached (run cf s a) <= kclock (run cf s a) /\ WF (ct (run cf s a))).
  { intros a j b' E. assert (Ha : Forall seg_step a) by (rewrite E in Hseg; apply Forall_app in Hseg; tauto).
    split; auto.
    assert (Ha2 : Forall seg_or_drain a) by (eapply Forall_impl; [|exact Ha]; intros; left; auto).
    assert (Hnda : NoDup (judged a)) by (rewrite E, judged_app in Hnd; eapply nodup_app_l; eauto).
    destruct (KW_all s a HS Ha2 Hnda) as [_ HWa].
    assert (Hwfa : Forall wf_step a) by (eapply Forall_impl; [apply seg_or_drain_wf|exact Ha2]).
    destruct (Inv_all cf s S1 S2 S3 S4 S5 a Hwfa) as (_ & _ & _ & Hca & _). auto. }
  split; [|split].
  - apply forallb_forall. intros [qk [[rk ts] rts]] Hin.
    pose proof (uniq_lookup _ _ _ Ku Hin) as Hl. pose proof (Kq _ _ Hl) as Hqd.
    destruct (Iq _ _ Hl) as [J1 J2]. unfold qv_key, qv_ts, qv_rts in J1, J2; cbn [fst snd] in J1, J2.
    unfold sound_entry. destruct (N.eqb (proto rk) 0) eqn:Hp.
    + apply N.eqb_eq in Hp. apply existsb_exists.
      destruct (J1 Hp Hqd) as [(a & j & b & e & Heq & Hle & Hts & (Hj & Htr1 & Hex) & _)|(a & j & b & e & Heq & Hle & Hts & (Hj & Hkf & Hreason) & _)];
        destruct (app_judge_split a j b seg _ (eq_sym Heq) Hdr) as [b' Eseg]; destruct (Pref a j b' Eseg) as (Ha & Hca & HWa);
        exists (j, (ct (run cf s a), kclock (run cf s a))); (split; [rewrite Eseg; apply judge_points_app; auto|]);
        subst j; cbv beta iota; rewrite key_eqb_refl, Hle, Hts, Z.eqb_refl; cbn [andb].
      * rewrite Htr1. rewrite <- expired_iff_idle. eapply expired_mono; [|exact Hex]. apply now_used_le; auto.
      * unfold is_tracking. rewrite Hkf.
        destruct Hreason as [H|[H|[H _]]]; [rewrite H; reflexivity| |congruence].
        exfalso. exact (HWa _ _ Hle Hkf H).
    + apply N.eqb_neq in Hp. apply existsb_exists.
      destruct (J2 Hp) as (a & j & b & e & Heq & Hle & Hts & (Hj & Hex) & _).
      destruct (app_judge_split a j b seg _ (eq_sym Heq) Hdr) as [b' Eseg]. destruct (Pref a j b' Eseg) as (Ha & Hca & HWa).
      exists (j, (ct (run cf s a), kclock (run cf s a))). split; [rewrite Eseg; apply judge_points_app; auto|].
      cbv beta iota. rewrite Hle, Hts, Z.eqb_refl. cbn [andb].
      assert (Hkey : key_eqb j qk || key_eqb j rk = true).
      { destruct Hj as [->|(-> & _)]; rewrite key_eqb_refl; [apply orb_true_r|reflexivity]. }
      rewrite Hkey. cbn [andb]. rewrite <- expired_iff_idle. eapply expired_mono; [|exact Hex]. apply now_used_le; auto.
  - destruct (drains_frame cf dk (run cf s seg) dummy) as (_ & B & C & D).
    assert (Einfo : info (run cf s tr) = []).
    { apply all_none_nil. intros x. unfold tr. rewrite run_app. destruct (drains_frame cf dk (run cf s seg) x) as (A & _). rewrite A.
      destruct (existsb (key_eqb x) dk) eqn:E; auto. destruct (lookup x (info (run cf s seg))) eqn:E2; auto.
      exfalso. apply (existsb_in _ _ E). apply lookup_in_keys. congruence. }
    split; [reflexivity|]. cbn [info ct cached kclock set_q]. auto 7.
  - rewrite (judge_points_end cf seg s Hseg). unfold tr. rewrite run_app.
    destruct (drains_frame cf dk (run cf s seg) dummy) as (_ & B & _ & D). rewrite B, D. reflexivity.
Qed.

End Seg.

(* ---------------------------------------------------------------- all scans of a run *)

Theorem model_meets_spec_sound : forall t segs s,
  Start s ->
  Forall (fun seg => Forall seg_step seg /\ NoDup (judged seg)) segs ->
  sound_segs t (ct s, kclock s) segs (run_segs (mkConf t true) s segs) = true.
Proof.
  intros t. induction segs as [|seg segs IH]; intros s HS Hsegs; [reflexivity|].
  inversion Hsegs as [|? ? [H1 H2] H3]; subst. cbn [run_segs sound_segs].
  destruct (seg_sound (mkConf t true) eq_refl s seg HS H1 H2) as (A & B & C). cbv zeta in A, B, C.
  destruct (judge_points seg (ct s, kclock s)) as [pts en'] eqn:Ejp. cbn [fst snd] in A, C. subst en'.
  cbn [cf_tm] in A. rewrite A. cbn [andb].
  set (s1 := drain_all (mkConf t true) (run (mkConf t true) s seg)) in *.
  change (ct s1, kclock s1) with (ct (set_q s1 []), kclock (set_q s1 [])). apply IH; auto.
Qed.
