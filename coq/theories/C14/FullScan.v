(* C14 — whole-table liveness.  A complete scan (every key of the table visited once, in ANY order), then the
   scanner's final loop, then one cleaner pass over the whole queue (drains and cleaner callbacks in ANY order), with no
   dataplane step in between, removes every entry that was deletable when the scan started: normal and reverse
   entries idle past their timeout, and forward entries whose reverse entry is missing.  A forward entry whose
   reverse entry was deletable is gone after at most two such rounds. *)
From Coq Require Import List NArith ZArith Bool Lia.
From Verif.C14 Require Import Model Spec Proofs Safety Liveness.
Import ListNotations.
Open Scope Z_scope.

Lemma key_dec : forall a b : key, a = b \/ a <> b.
Proof. intros. destruct (key_eqb a b) eqn:E; [left; apply key_eqb_eq; auto|right; apply key_eqb_neq; auto]. Qed.

Lemma lookup_set_ne : forall {V} k k' (v : V) m, k <> k' -> lookup k (set k' v m) = lookup k m.
Proof. intros. rewrite lookup_set. apply key_eqb_neq in H. rewrite H. reflexivity. Qed.
Lemma lookup_set_eq : forall {V} k (v : V) m, lookup k (set k v m) = Some v.
Proof. intros. rewrite lookup_set, key_eqb_refl. reflexivity. Qed.
Lemma lookup_remove_ne : forall {V} k k' (m : list (key * V)), k <> k' -> lookup k (remove k' m) = lookup k m.
Proof. intros. rewrite lookup_remove. apply key_eqb_neq in H. rewrite H. reflexivity. Qed.

(* what one scanner callback does to the queue and the pairing table, by kind and verdict *)
Lemma judge_spec : forall cf s j v, lookup j (ct s) = Some v ->
  let s' := judge cf j s in
  let now := now_used s in
  let same := q s' = q s /\ info s' = info s in
  match e_kind v with
  | KNormal => if expired (cf_tm cf) now (proto j) v
               then q s' = set j (dummy, e_ls v, e_ls v) (q s) /\ info s' = info s else same
  | KRev => if expired (cf_tm cf) now (proto j) v
            then match lookup j (info s) with
                 | Some iv => q s' = set (qv_key iv) (j, qv_ts iv, e_ls v) (q s) /\ info s' = remove j (info s)
                 | None => q s' = q s /\ info s' = set j (dummy, e_ls v, 0) (info s)
                 end
            else same
  | KFwd => match lookup (e_rev v) (ct s) with
            | None => q s' = set j (dummy, e_ls v, e_ls v) (q s) /\ info s' = info s
            | Some r =>
                if expired (cf_tm cf) now (proto j) r then
                  if Z.eqb (e_ls v) (e_ls r) && negb (cf_fix cf)
                  then q s' = set j (dummy, e_ls v, e_ls r) (q s) /\ info s' = info s
                  else match lookup (e_rev v) (info s) with
                       | None => q s' = q s /\ info s' = set (e_rev v) (j, e_ls v, e_ls r) (info s)
                       | Some _ => q s' = set j (e_rev v, e_ls v, e_ls r) (q s) /\ info s' = remove (e_rev v) (info s)
                       end
                else same
            end
  | KOther => same
  end.
Proof.
  intros cf s j v Hv. cbv zeta. unfold judge. rewrite Hv. unfold tick1, liveness_verdict.
  rewrite refresh_cached, refresh_ct. cbn [q info].
  destruct (e_kind v) eqn:Hk.
  - destruct (expired _ _ _ v); cbn [q info set_q]; rewrite refresh_q, refresh_info; auto.
  - destruct (lookup (e_rev v) (ct s)) as [r|] eqn:Hr.
    + destruct (expired _ _ _ r); [|rewrite refresh_q, refresh_info; auto].
      unfold handle_nat. rewrite Hk, refresh_ct, refresh_info, refresh_q, Hr. rewrite orb_false_r.
      destruct (Z.eqb (e_ls v) (e_ls r) && negb (cf_fix cf)); cbn [q info set_q set_info]; rewrite ?refresh_info; auto.
      destruct (lookup (e_rev v) (info s)) as [iv|]; cbn [q info set_q set_info]; rewrite ?refresh_q; auto.
    + unfold handle_nat. rewrite Hk, refresh_ct, refresh_info, refresh_q, Hr, Z.eqb_refl, orb_true_r.
      cbn [andb q info set_q]. rewrite refresh_info. auto.
  - destruct (expired _ _ _ v); [|rewrite refresh_q, refresh_info; auto].
    unfold handle_nat. rewrite Hk, refresh_info, refresh_q.
    destruct (lookup j (info s)) as [iv|]; cbn [q info set_q set_info]; rewrite ?refresh_q; auto.
  - rewrite refresh_q, refresh_info; auto.
Qed.

Section Full.
Variable cf : conf.
Variable c : list (key * entry).          (* the table; it does not change while the scanner works *)
Hypothesis Hd : lookup dummy c = None.
Hypothesis Hnat : forall x f, lookup x c = Some f -> e_kind f = KFwd -> proto (e_rev f) <> 0%N.
Variable k : key.
Variable e : entry.
Hypothesis Hk : lookup k c = Some e.
Variable t0 : Z.                           (* the kernel time the scanner reads when the scan starts *)

Definition deletable : Prop :=
  match e_kind e with
  | KNormal | KRev => expired (cf_tm cf) t0 (proto k) e = true
  | KFwd => lookup (e_rev e) c = None
  | KOther => False
  end.
Hypothesis HD : deletable.

(* every pairing record speaks about the table as it is, and about keys already visited *)
Definition InfoInv (done : list key) (inf : list (key * qval)) : Prop :=
  forall rk iv, lookup rk inf = Some iv ->
    (qv_key iv = dummy /\ In rk done /\ exists r, lookup rk c = Some r /\ e_kind r = KRev /\ qv_ts iv = e_ls r)
 \/ (qv_key iv <> dummy /\ In (qv_key iv) done /\
     exists f r, lookup (qv_key iv) c = Some f /\ e_kind f = KFwd /\ e_rev f = rk /\ lookup rk c = Some r /\ qv_rts iv = e_ls r).
Definition QDone (done : list key) (ql : list (key * qval)) : Prop :=
  forall qk v, lookup qk ql = Some v -> In qk done.

(* the queue holds an entry on whose strength the cleaner will delete k *)
Definition Cov (ql : list (key * qval)) (ctl : list (key * entry)) : Prop :=
  exists qk rk ts rts, lookup qk ql = Some (rk, ts, rts) /\
   ((proto rk = 0%N /\ qk = k /\ ts = e_ls e) \/
    (proto rk <> 0%N /\ rk = k /\ rts = e_ls e /\
      (lookup qk ctl = None \/ exists f, lookup qk ctl = Some f /\ e_kind f = KFwd /\ e_rev f = k))).
Definition Pend (s : state) : Prop := Cov (q s) (ct s) \/ (e_kind e = KRev /\ lookup k (info s) <> None).
Definition JInv (done : list key) (s : state) : Prop :=
  ct s = c /\ InfoInv done (info s) /\ QDone done (q s) /\ cached s <= kclock s.
Definition T (done : list key) (s : state) : Prop := t0 <= now_used s /\ (In k done -> Pend s).

Lemma info_mono : forall d j inf, InfoInv d inf -> InfoInv (j :: d) inf.
Proof.
  intros d j inf H rk iv Hl. destruct (H rk iv Hl) as [(A & B & C)|(A & B & C)]; [left|right]; (split; [auto|split; [right; auto|auto]]).
Qed.
Lemma info_remove : forall d x inf, InfoInv d inf -> InfoInv d (remove x inf).
Proof. intros d x inf H rk iv Hl. apply lookup_remove_some in Hl. auto. Qed.
Lemma qdone_mono : forall d j ql, QDone d ql -> QDone (j :: d) ql.
Proof. intros d j ql H qk v Hl. right. eauto. Qed.
Lemma qdone_set : forall d x v ql, QDone d ql -> In x d -> QDone d (set x v ql).
Proof.
  intros d x v ql H Hx qk v' Hl. rewrite lookup_set in Hl. destruct (key_eqb qk x) eqn:E; [apply key_eqb_eq in E; subst; auto|eauto].
Qed.
Lemma cov_set_fresh : forall d ql ctl x v, QDone d ql -> ~ In x d -> Cov ql ctl -> Cov (set x v ql) ctl.
Proof.
  intros d ql ctl x v HQ Hx (qk & rk & ts & rts & Hl & H). exists qk, rk, ts, rts. split; auto.
  rewrite lookup_set_ne; auto. intros ->. apply Hx. eauto.
Qed.

Lemma info_set : forall d x iv inf, InfoInv d inf ->
  ((qv_key iv = dummy /\ In x d /\ exists r, lookup x c = Some r /\ e_kind r = KRev /\ qv_ts iv = e_ls r)
   \/ (qv_key iv <> dummy /\ In (qv_key iv) d /\
       exists f r, lookup (qv_key iv) c = Some f /\ e_kind f = KFwd /\ e_rev f = x /\ lookup x c = Some r /\ qv_rts iv = e_ls r)) ->
  InfoInv d (set x iv inf).
Proof.
  intros d x iv inf H Hc rk iv' Hl. rewrite lookup_set in Hl. destruct (key_eqb rk x) eqn:E.
  - apply key_eqb_eq in E. subst rk. inversion Hl; subst iv'. exact Hc.
  - eauto.
Qed.

Lemma pend_info_set : forall (s s' : state) x iv,
  info s' = set x iv (info s) -> lookup k (info s) <> None -> lookup k (info s') <> None.
Proof.
  intros s s' x iv E H. rewrite E, lookup_set. destruct (key_eqb k x); congruence.
Qed.

Lemma judge_phase_step : forall done s j,
  JInv done s -> T done s -> ~ In j done ->
  JInv (j :: done) (judge cf j s) /\ T (j :: done) (judge cf j s).
Proof.
  intros done s j (Hc & Hi & Hq & Hcl) (Ht & HP) Hnd.
  destruct (now_used_judge cf s j Hcl) as [Hn Hcl'].
  assert (Hc' : ct (judge cf j s) = c) by (rewrite judge_ct; auto).
  destruct (lookup j c) as [v|] eqn:Hv.
  2: { assert (E : judge cf j s = s) by (unfold judge; rewrite Hc, Hv; reflexivity). rewrite E.
       split; [split; [auto|split; [apply info_mono; auto|split; [apply qdone_mono; auto|auto]]]|].
       split; auto. intros [->|H]; [congruence|auto]. }
  assert (Hjd : j <> dummy) by (intros ->; congruence).
  pose proof (judge_spec cf s j v) as HS. rewrite Hc in HS. specialize (HS Hv). cbv zeta in HS.
  set (s' := judge cf j s) in *.
  unfold JInv, T, Pend. rewrite Hc'.
  assert (HP' : In k done -> Cov (q s) c \/ (e_kind e = KRev /\ lookup k (info s) <> None)).
  { intros Hin. destruct (HP Hin) as [H|H]; [left; rewrite Hc in H; auto|right; auto]. }
  assert (Hexp : k = j -> e_kind e <> KFwd -> expired (cf_tm cf) (now_used s) (proto j) e = true).
  { intros <- A. unfold deletable in HD. destruct (e_kind e); try congruence; try contradiction; eapply expired_mono; eauto. }
  assert (Hve : k = j -> v = e) by (intros <-; congruence).
  assert (Hkd : In k (j :: done) -> k = j \/ (k <> j /\ In k done)).
  { intros [H|H]; [left; auto|]. destruct (key_dec k j); [left; auto|right; auto]. }
  (* the three simple shapes *)
  assert (Same : q s' = q s /\ info s' = info s -> k <> j ->
    (c = c /\ InfoInv (j :: done) (info s') /\ QDone (j :: done) (q s') /\ cached s' <= kclock s') /\
    (t0 <= now_used s' /\ (In k (j :: done) -> Cov (q s') c \/ (e_kind e = KRev /\ lookup k (info s') <> None)))).
  { intros [E1 E2] Hkj. rewrite E1, E2. split.
    - split; auto. split; [apply info_mono; auto|split; [apply qdone_mono; auto|auto]].
    - split; [lia|]. intros Hin. destruct (Hkd Hin) as [?|[_ H]]; [contradiction|auto]. }
  assert (Alone : forall rk ts rts, q s' = set j (rk, ts, rts) (q s) /\ info s' = info s ->
    (k = j -> proto rk = 0%N /\ ts = e_ls e) ->
    (c = c /\ InfoInv (j :: done) (info s') /\ QDone (j :: done) (q s') /\ cached s' <= kclock s') /\
    (t0 <= now_used s' /\ (In k (j :: done) -> Cov (q s') c \/ (e_kind e = KRev /\ lookup k (info s') <> None)))).
  { intros rk ts rts [E1 E2] Hself. rewrite E1, E2. split.
    - split; auto. split; [apply info_mono; auto|split; [|auto]].
      apply qdone_set; [apply qdone_mono; auto|left; auto].
    - split; [lia|]. intros Hin. destruct (Hkd Hin) as [Hkj|[Hkj Hin']].
      + left. destruct (Hself Hkj) as [A B]. exists j, rk, ts, rts. rewrite lookup_set_eq. split; auto.
      + destruct (HP' Hin') as [H|H]; [left; eapply cov_set_fresh; eauto|right; auto]. }
  destruct (e_kind v) eqn:Hkind.
  - (* normal *)
    destruct (expired (cf_tm cf) (now_used s) (proto j) v) eqn:Hex.
    + apply (Alone _ _ _ HS). intros Hkj. rewrite (Hve Hkj). auto.
    + destruct (key_dec k j) as [Hkj|Hne]; [|apply Same; auto].
      exfalso. pose proof (Hve Hkj) as ->. rewrite Hexp in Hex; congruence.
  - (* forward *)
    destruct (lookup (e_rev v) c) as [r|] eqn:Hr.
    2: { apply (Alone _ _ _ HS). intros Hkj. rewrite (Hve Hkj). auto. }
    assert (Hkj : k <> j).
    { intros Hkj. pose proof (Hve Hkj) as ->. unfold deletable in HD. rewrite Hkind in HD. congruence. }
    destruct (expired (cf_tm cf) (now_used s) (proto j) r) eqn:Hex; [|apply Same; auto].
    destruct (Z.eqb (e_ls v) (e_ls r) && negb (cf_fix cf)).
    { apply (Alone _ _ _ HS). intros; contradiction. }
    destruct (lookup (e_rev v) (info s)) as [iv0|] eqn:Hi0; destruct HS as [E1 E2]; rewrite E1, E2.
    + (* paired with the record of the reverse entry *)
      split.
      * split; auto. split; [apply info_remove, info_mono; auto|split; [|auto]].
        apply qdone_set; [apply qdone_mono; auto|left; auto].
      * split; [lia|]. intros Hin. destruct (Hkd Hin) as [?|[_ Hin']]; [contradiction|].
        destruct (HP' Hin') as [H|[H1 H2]]; [left; eapply cov_set_fresh; eauto|].
        destruct (key_dec (e_rev v) k) as [Hrk|Hrk].
        -- left. exists j, (e_rev v), (e_ls v), (e_ls r). rewrite lookup_set_eq. split; auto. right.
           split; [eapply Hnat; eauto|]. split; auto. split; [congruence|]. right. exists v. auto.
        -- right. split; auto. rewrite lookup_remove_ne; auto.
    + (* recorded, waiting for the reverse entry *)
      split.
      * split; auto. split; [|split; [apply qdone_mono; auto|auto]].
        apply info_set; [apply info_mono; auto|]. right. cbn [qv_key qv_rts fst snd]. split; auto. split; [left; auto|].
        exists v, r. auto.
      * split; [lia|]. intros Hin. destruct (Hkd Hin) as [?|[_ Hin']]; [contradiction|].
        destruct (HP' Hin') as [H|[H1 H2]]; [left; auto|right]. split; auto.
        rewrite lookup_set. destruct (key_eqb k (e_rev v)); congruence.
  - (* reverse *)
    destruct (expired (cf_tm cf) (now_used s) (proto j) v) eqn:Hex.
    2: { destruct (key_dec k j) as [Hkj|Hne]; [|apply Same; auto].
         exfalso. pose proof (Hve Hkj) as ->. rewrite Hexp in Hex; congruence. }
    destruct (lookup j (info s)) as [iv|] eqn:Hij; destruct HS as [E1 E2]; rewrite E1, E2.
    + destruct (Hi _ _ Hij) as [(_ & B & _)|(A & B & f & r & Hf & Hfk & Hfr & Hrr & Hts)]; [contradiction|].
      assert (r = v) by congruence. subst r.
      split.
      * split; auto. split; [apply info_remove, info_mono; auto|split; [|auto]].
        apply qdone_set; [apply qdone_mono; auto|right; auto].
      * split; [lia|]. intros Hin. destruct (Hkd Hin) as [Hkj|[Hkj Hin']].
        -- left. pose proof (Hve Hkj) as Hvev. exists (qv_key iv), j, (qv_ts iv), (e_ls v). rewrite lookup_set_eq. split; auto.
           right. split; [rewrite <- Hfr; eapply Hnat; eauto|]. split; [auto|]. split; [congruence|]. right. exists f. subst j. auto.
        -- destruct (HP' Hin') as [(qk & rk & ts & rts & Hl & Hcase)|[H1 H2]].
           ++ left. exists qk, rk, ts, rts. split; auto. rewrite lookup_set_ne; auto. intros ->.
              destruct Hcase as [(P1 & P2 & P3)|(P1 & P2 & P3 & [P4|(f' & P4 & P5 & P6)])].
              ** rewrite P2 in Hf. assert (Hfe : f = e) by congruence. subst f. unfold deletable in HD. rewrite Hfk in HD. congruence.
              ** congruence.
              ** assert (f' = f) by congruence. subst f'. congruence.
           ++ right. split; auto. rewrite lookup_remove_ne; auto.
    + split.
      * split; auto. split; [|split; [apply qdone_mono; auto|auto]].
        apply info_set; [apply info_mono; auto|]. left. cbn [qv_key qv_ts fst snd]. split; auto. split; [left; auto|]. exists v. auto.
      * split; [lia|]. intros Hin. destruct (Hkd Hin) as [Hkj|[Hkj Hin']].
        -- right. pose proof (Hve Hkj) as Hvev. split; [congruence|]. subst j. rewrite lookup_set_eq. discriminate.
        -- destruct (HP' Hin') as [H|[H1 H2]]; [left; auto|right]. split; auto. rewrite lookup_set_ne; auto.
  - (* unknown type *)
    destruct (key_dec k j) as [Hkj|Hne]; [|apply Same; auto].
    exfalso. pose proof (Hve Hkj) as ->. unfold deletable in HD. rewrite Hkind in HD. exact HD.
Qed.
(* the whole iteration *)
Lemma judge_phase : forall order done s,
  JInv done s -> T done s -> NoDup order -> (forall x, In x order -> ~ In x done) ->
  JInv (rev order ++ done) (run cf s (map Judge order)) /\ T (rev order ++ done) (run cf s (map Judge order)).
Proof.
  induction order as [|j order IH]; intros done s HJ HT Hnd Hdis; [auto|].
  inversion Hnd; subst. cbn [map]. change (run cf s (Judge j :: map Judge order)) with (run cf (judge cf j s) (map Judge order)).
  destruct (judge_phase_step done s j HJ HT (Hdis j (or_introl eq_refl))) as [HJ' HT'].
  cbn [rev]. rewrite <- app_assoc. cbn [app]. apply IH; auto.
  intros x Hx [->|H]; [contradiction|]. apply (Hdis x); [right; auto|auto].
Qed.

(* one turn of the final loop *)
Lemma drain_phase_step : forall done s rk,
  JInv done s -> In k done -> Pend s ->
  JInv done (drain rk s) /\ Pend (drain rk s) /\
  (forall x, lookup x (info (drain rk s)) = if key_eqb x rk then None else lookup x (info s)).
Proof.
  intros done s rk (Hc & Hi & Hq & Hcl) Hin HP. unfold JInv, Pend. rewrite drain_ct, Hc.
  assert (HP' : Cov (q s) c \/ (e_kind e = KRev /\ lookup k (info s) <> None)).
  { destruct HP as [H|H]; [left; rewrite Hc in H; auto|right; auto]. }
  unfold drain. destruct (lookup rk (info s)) as [iv|] eqn:Hl.
  2: { split; [auto|]. split; [auto|]. intros x. destruct (key_eqb x rk) eqn:E; auto. apply key_eqb_eq in E. subst; auto. }
  assert (Hinfo : forall x, lookup x (remove rk (info s)) = if key_eqb x rk then None else lookup x (info s)).
  { intros x. apply lookup_remove. }
  destruct (Hi _ _ Hl) as [(A & B & r & Hr & Hrk & Hts)|(A & B & f & r & Hf & Hfk & Hfr & Hr & Hts)].
  - (* the reverse entry rk was visited and nothing paired with it: queued on its own *)
    rewrite A, key_eqb_refl. cbn [ct q info kclock cached set_q set_info]. split; [|split; [|exact Hinfo]].
    + split; auto. split; [apply info_remove; auto|split; [apply qdone_set; auto|auto]].
    + destruct (key_dec rk k) as [Hrkk|Hrkk].
      * left. exists rk, dummy, (qv_ts iv), (qv_rts iv). rewrite lookup_set_eq. split; auto. left.
        split; auto. split; auto. rewrite Hrkk in Hr. congruence.
      * destruct HP' as [(qk & rk' & ts & rts & Hlq & Hcase)|[H1 H2]].
        -- left. exists qk, rk', ts, rts. split; auto. rewrite lookup_set_ne; auto. intros ->.
           destruct Hcase as [(P1 & P2 & P3)|(P1 & P2 & P3 & [P4|(f' & P4 & P5 & P6)])]; congruence.
        -- right. split; auto. rewrite Hinfo. assert (Ekr : key_eqb k rk = false) by (apply key_eqb_neq; congruence). rewrite Ekr; auto.
  - (* a forward entry recorded for rk: queued together with rk *)
    apply key_eqb_neq in A. rewrite A. apply key_eqb_neq in A.
    cbn [ct q info kclock cached set_q set_info]. split; [|split; [|exact Hinfo]].
    + split; auto. split; [apply info_remove; auto|split; [apply qdone_set; auto|auto]].
    + destruct (key_dec rk k) as [Hrkk|Hrkk].
      * left. exists (qv_key iv), rk, (qv_ts iv), (qv_rts iv). rewrite lookup_set_eq. split; auto. right.
        split; [rewrite <- Hfr; eapply Hnat; eauto|]. split; auto. split; [rewrite Hrkk in Hr; congruence|].
        right. exists f. rewrite <- Hrkk. auto.
      * destruct HP' as [(qk & rk' & ts & rts & Hlq & Hcase)|[H1 H2]].
        -- left. exists qk, rk', ts, rts. split; auto. rewrite lookup_set_ne; auto. intros ->.
           destruct Hcase as [(P1 & P2 & P3)|(P1 & P2 & P3 & [P4|(f' & P4 & P5 & P6)])].
           ++ rewrite P2 in Hf. assert (Hfe : f = e) by congruence. subst f. unfold deletable in HD. rewrite Hfk in HD. congruence.
           ++ congruence.
           ++ assert (f' = f) by congruence. subst f'. congruence.
        -- right. split; auto. rewrite Hinfo. assert (Ekr : key_eqb k rk = false) by (apply key_eqb_neq; congruence). rewrite Ekr; auto.
Qed.

Lemma drain_phase : forall dr done s,
  JInv done s -> In k done -> Pend s -> (lookup k (info s) <> None -> In k dr) ->
  let s' := run cf s (map Drain dr) in
  JInv done s' /\ Cov (q s') (ct s') /\
  (forall x, lookup x (info s') = if existsb (key_eqb x) dr then None else lookup x (info s)).
Proof.
  induction dr as [|rk dr IH]; intros done s HJ Hin HP Hcovk; cbn [map].
  - rewrite run_nil. split; auto. split; [|auto]. destruct HP as [H|[_ H]]; auto. exfalso. exact (Hcovk H).
  - change (run cf s (Drain rk :: map Drain dr)) with (run cf (drain rk s) (map Drain dr)).
    destruct (drain_phase_step done s rk HJ Hin HP) as (HJ' & HP' & Hinf).
    assert (Hc' : lookup k (info (drain rk s)) <> None -> In k dr).
    { rewrite Hinf. destruct (key_eqb k rk) eqn:E; [congruence|]. intros H. destruct (Hcovk H) as [->|H']; auto.
      rewrite key_eqb_refl in E. discriminate. }
    destruct (IH done (drain rk s) HJ' Hin HP' Hc') as (A & B & C). split; auto. split; auto.
    intros x. rewrite C, Hinf. cbn [existsb]. destruct (key_eqb x rk); [rewrite orb_true_l; destruct (existsb (key_eqb x) dr); auto|reflexivity].
Qed.

End Full.

(* ---------------------------------------------------------------- the cleaner's pass *)

Lemma clean_key : forall s j x,
  lookup x (ct (clean j s)) = lookup x (ct s) \/ lookup x (ct (clean j s)) = None.
Proof.
  intros. unfold clean. destruct (lookup j (q s)) as [[[rk ts] rts]|]; [|left; reflexivity].
  destruct (N.eqb (proto rk) 0).
  - cbn [ct set_q]. destruct (lookup j (ct s)) as [e0|]; [|left; reflexivity].
    destruct (Z.eqb (e_ls e0) ts); [|left; reflexivity]. cbn [ct set_ct]. rewrite lookup_remove. destruct (key_eqb x j); auto.
  - assert (Hp : forall s1 : state, ct s1 = ct s ->
       lookup x (ct (match lookup rk (ct s1) with
                     | Some r => if Z.eqb (e_ls r) rts then set_ct s1 (remove j (remove rk (ct s1))) else s1
                     | None => s1 end)) = lookup x (ct s) \/
       lookup x (ct (match lookup rk (ct s1) with
                     | Some r => if Z.eqb (e_ls r) rts then set_ct s1 (remove j (remove rk (ct s1))) else s1
                     | None => s1 end)) = None).
    { intros s1 E. destruct (lookup rk (ct s1)) as [r|]; [|left; congruence].
      destruct (Z.eqb (e_ls r) rts); [|left; congruence]. cbn [ct set_ct]. rewrite !lookup_remove, E.
      destruct (key_eqb x j); auto. destruct (key_eqb x rk); auto. }
    specialize (Hp (set_q s (remove j (q s))) eq_refl). cbn [ct set_q] in *.
    destruct (lookup j (ct s)) as [f|]; [|exact Hp].
    destruct (kind_eqb (e_kind f) KFwd && key_eqb (e_rev f) rk); [exact Hp|left; reflexivity].
Qed.

Lemma clean_q : forall s j x, lookup x (q (clean j s)) = if key_eqb x j then None else lookup x (q s).
Proof.
  intros. unfold clean. destruct (lookup j (q s)) as [[[rk ts] rts]|] eqn:Hq.
  - assert (E : lookup x (remove j (q s)) = if key_eqb x j then None else lookup x (q s)) by apply lookup_remove.
    repeat match goal with
           | |- context [if ?c then _ else _] => lazymatch c with key_eqb x j => fail | _ => destruct c end
           | |- context [match ?y with _ => _ end] => lazymatch y with key_eqb x j => fail | _ => destruct y end
           end; cbn [q set_q set_ct]; exact E.
  - destruct (key_eqb x j) eqn:E; auto. apply key_eqb_eq in E. subst. auto.
Qed.

Lemma clean_info : forall s j, info (clean j s) = info s /\ cached (clean j s) = cached s /\ kclock (clean j s) = kclock s.
Proof.
  intros. unfold clean.
  repeat match goal with
         | |- context [if ?c then _ else _] => destruct c
         | |- context [match ?y with _ => _ end] => destruct y
         end; cbn [info cached kclock set_q set_ct]; auto.
Qed.

Section CleanPhase.
Variable cf : conf.
Variable k : key.
Variable e : entry.

Lemma clean_phase : forall cl s,
  (lookup k (ct s) = None \/
   (lookup k (ct s) = Some e /\
    exists qk rk ts rts, In qk cl /\ lookup qk (q s) = Some (rk, ts, rts) /\
     ((proto rk = 0%N /\ qk = k /\ ts = e_ls e) \/
      (proto rk <> 0%N /\ rk = k /\ rts = e_ls e /\
        (lookup qk (ct s) = None \/ exists f, lookup qk (ct s) = Some f /\ e_kind f = KFwd /\ e_rev f = k))))) ->
  lookup k (ct (run cf s (map Clean cl))) = None.
Proof.
  induction cl as [|j cl IH]; intros s H; cbn [map].
  - rewrite run_nil. destruct H as [H|(_ & qk & rk & ts & rts & [] & _)]; auto.
  - change (run cf s (Clean j :: map Clean cl)) with (run cf (clean j s) (map Clean cl)). apply IH.
    destruct H as [H|(Hk & qk & rk & ts & rts & Hin & Hq & Hcase)].
    + left. destruct (clean_key s j k); congruence.
    + destruct (key_dec qk j) as [->|Hne].
      * left. unfold clean. rewrite Hq. destruct Hcase as [(P1 & P2 & P3)|(P1 & P2 & P3 & P4)].
        -- rewrite P1. cbn [N.eqb ct set_q]. subst j ts. rewrite Hk, Z.eqb_refl. cbn [ct set_ct]. apply gone.
        -- apply N.eqb_neq in P1. rewrite P1. cbn [ct set_q]. subst rk rts.
           assert (Hpd : lookup k (ct (match lookup k (ct s) with
                     | Some r => if Z.eqb (e_ls r) (e_ls e) then set_ct (set_q s (remove j (q s))) (remove j (remove k (ct s))) else set_q s (remove j (q s))
                     | None => set_q s (remove j (q s)) end)) = None).
           { rewrite Hk, Z.eqb_refl. cbn [ct set_ct]. rewrite lookup_remove. destruct (key_eqb k j); auto. apply gone. }
           destruct P4 as [P4|(f & P4 & P5 & P6)]; rewrite P4; [exact Hpd|].
           rewrite P5, P6, key_eqb_refl. cbn [kind_eqb andb]. exact Hpd.
      * destruct (clean_key s j k) as [E|E]; [right|left; auto]. rewrite E. split; auto.
        exists qk, rk, ts, rts. split; [destruct Hin; [congruence|auto]|]. split.
        -- rewrite clean_q. rewrite (proj2 (key_eqb_neq qk j)); auto.
        -- destruct Hcase as [?|(P1 & P2 & P3 & P4)]; [left; auto|right]. split; auto. split; auto. split; auto.
           destruct (clean_key s j qk) as [E2|E2]; rewrite E2; auto.
Qed.
End CleanPhase.

(* ---------------------------------------------------------------- one complete round *)

Definition round (cf : conf) (order dr cl : list key) (s : state) : state :=
  run cf (run cf (run cf s (map Judge order)) (map Drain dr)) (map Clean cl).

(* the state between two scans: empty pairing table and queue; no all-zero key; NAT reverse keys have a protocol *)
Definition fresh (s : state) : Prop :=
  (forall x, lookup x (info s) = None) /\ (forall x, lookup x (q s) = None) /\ cached s <= kclock s /\
  lookup dummy (ct s) = None /\
  (forall x f, lookup x (ct s) = Some f -> e_kind f = KFwd -> proto (e_rev f) <> 0%N).

(* every key of the table is visited exactly once; the final loop reaches every pairing record; the cleaner reaches
   every queue entry.  The three orders are arbitrary. *)
Definition complete_round (cf : conf) (order dr cl : list key) (s : state) : Prop :=
  NoDup order /\ (forall x, lookup x (ct s) <> None -> In x order) /\
  (forall x, lookup x (info (run cf s (map Judge order))) <> None -> In x dr) /\
  (forall x, lookup x (q (run cf (run cf s (map Judge order)) (map Drain dr))) <> None -> In x cl).

Theorem full_scan_liveness : forall cf order dr cl s k e,
  fresh s -> complete_round cf order dr cl s ->
  lookup k (ct s) = Some e -> deletable cf (ct s) k e (now_used s) ->
  lookup k (ct (round cf order dr cl s)) = None.
Proof.
  intros cf order dr cl s k e (Fi & Fq & Fc & Fd & Fn) (Hnd & Hcov & Hdr & Hcl) Hk HD. unfold round.
  assert (HJ0 : JInv (ct s) [] s).
  { split; auto. split; [intros rk iv H; rewrite Fi in H; discriminate|]. split; auto. intros qk v H. rewrite Fq in H. discriminate. }
  assert (HT0 : T k e (now_used s) [] s) by (split; [lia|intros []]).
  destruct (judge_phase cf (ct s) Fd Fn k e Hk (now_used s) HD order [] s HJ0 HT0 Hnd (fun _ _ H => H)) as [HJ1 HT1].
  set (s1 := run cf s (map Judge order)) in *.
  assert (Hin : In k (rev order ++ [])).
  { rewrite app_nil_r. apply in_rev. rewrite rev_involutive. apply Hcov. congruence. }
  destruct HT1 as [_ HP1]. specialize (HP1 Hin).
  destruct (drain_phase cf (ct s) Fd Fn k e Hk (now_used s) HD dr _ s1 HJ1 Hin HP1 (Hdr k)) as (HJ2 & HC2 & _).
  set (s2 := run cf s1 (map Drain dr)) in *.
  apply clean_phase with (e := e). right. destruct HJ2 as (Hc2 & _). split; [rewrite Hc2; auto|].
  destruct HC2 as (qk & rk & ts & rts & Hl & Hcase). exists qk, rk, ts, rts. split; [apply Hcl; congruence|]. auto.
Qed.

(* what a round leaves behind *)
Lemma judges_frame : forall cf order s, cached s <= kclock s ->
  ct (run cf s (map Judge order)) = ct s /\ cached (run cf s (map Judge order)) <= kclock (run cf s (map Judge order)).
Proof.
  induction order as [|j order IH]; intros s H; [auto|]. cbn [map].
  change (run cf s (Judge j :: map Judge order)) with (run cf (judge cf j s) (map Judge order)).
  destruct (now_used_judge cf s j H) as [_ H']. destruct (IH _ H') as [A B]. rewrite A, judge_ct. auto.
Qed.

Lemma drain_info : forall rk s x, lookup x (info (drain rk s)) = if key_eqb x rk then None else lookup x (info s).
Proof.
  intros. unfold drain. destruct (lookup rk (info s)) as [iv|] eqn:E.
  - destruct (key_eqb (qv_key iv) dummy); cbn [info set_q set_info]; apply lookup_remove.
  - destruct (key_eqb x rk) eqn:E2; auto. apply key_eqb_eq in E2. subst. auto.
Qed.
Lemma drain_frame : forall rk s, ct (drain rk s) = ct s /\ cached (drain rk s) = cached s /\ kclock (drain rk s) = kclock s.
Proof.
  intros. unfold drain. destruct (lookup rk (info s)) as [iv|]; auto. destruct (key_eqb (qv_key iv) dummy); cbn [ct cached kclock set_q set_info]; auto.
Qed.

Lemma drains_frame : forall cf dr s x,
  let s' := run cf s (map Drain dr) in
  lookup x (info s') = (if existsb (key_eqb x) dr then None else lookup x (info s)) /\
  ct s' = ct s /\ cached s' = cached s /\ kclock s' = kclock s.
Proof.
  induction dr as [|rk dr IH]; intros s x; cbn [map]; [rewrite run_nil; auto|].
  change (run cf s (Drain rk :: map Drain dr)) with (run cf (drain rk s) (map Drain dr)).
  destruct (IH (drain rk s) x) as (A & B & C & D). destruct (drain_frame rk s) as (B' & C' & D').
  cbv zeta. rewrite A, B, C, D, B', C', D', drain_info. cbn [existsb].
  split; auto. destruct (key_eqb x rk); [rewrite orb_true_l; destruct (existsb (key_eqb x) dr); auto|reflexivity].
Qed.

Lemma cleans_frame : forall cf cl s x,
  let s' := run cf s (map Clean cl) in
  lookup x (q s') = (if existsb (key_eqb x) cl then None else lookup x (q s)) /\
  info s' = info s /\ cached s' = cached s /\ kclock s' = kclock s /\
  (lookup x (ct s') = lookup x (ct s) \/ lookup x (ct s') = None).
Proof.
  induction cl as [|j cl IH]; intros s x; cbn [map]; [rewrite run_nil; auto 6|].
  change (run cf s (Clean j :: map Clean cl)) with (run cf (clean j s) (map Clean cl)).
  destruct (IH (clean j s) x) as (A & B & C & D & E). destruct (clean_info s j) as (B' & C' & D').
  cbv zeta. rewrite A, B, C, D, B', C', D', clean_q. cbn [existsb].
  split; [destruct (key_eqb x j); [rewrite orb_true_l; destruct (existsb (key_eqb x) cl); auto|reflexivity]|].
  split; auto. split; auto. split; auto.
  destruct (clean_key s j x) as [F|F]; destruct E as [E|E]; rewrite ?E, ?F; auto.
Qed.

Lemma existsb_in : forall x l, existsb (key_eqb x) l = false -> ~ In x l.
Proof.
  intros x l H Hin. assert (existsb (key_eqb x) l = true); [|congruence].
  apply existsb_exists. exists x. split; auto. apply key_eqb_refl.
Qed.

Lemma round_fresh : forall cf order dr cl s,
  fresh s -> complete_round cf order dr cl s ->
  fresh (round cf order dr cl s) /\
  (forall x, lookup x (ct (round cf order dr cl s)) = lookup x (ct s) \/ lookup x (ct (round cf order dr cl s)) = None).
Proof.
  intros cf order dr cl s (Fi & Fq & Fc & Fd & Fn) (Hnd & Hcov & Hdr & Hcl). unfold round.
  destruct (judges_frame cf order s Fc) as [J1 J2].
  set (s1 := run cf s (map Judge order)) in *.
  set (s2 := run cf s1 (map Drain dr)) in *.
  assert (Hct : forall x, lookup x (ct (run cf s2 (map Clean cl))) = lookup x (ct s) \/ lookup x (ct (run cf s2 (map Clean cl))) = None).
  { intros x. destruct (cleans_frame cf cl s2 x) as (_ & _ & _ & _ & E). destruct (drains_frame cf dr s1 x) as (_ & B & _).
    fold s2 in B. rewrite B, J1 in E. exact E. }
  split; [|exact Hct]. split; [|split; [|split; [|split]]].
  - intros x. destruct (cleans_frame cf cl s2 x) as (_ & B & _). rewrite B.
    destruct (drains_frame cf dr s1 x) as (A & _). fold s2 in A. rewrite A.
    destruct (existsb (key_eqb x) dr) eqn:E; auto. destruct (lookup x (info s1)) eqn:E2; auto.
    exfalso. apply (existsb_in _ _ E). apply Hdr. congruence.
  - intros x. destruct (cleans_frame cf cl s2 x) as (A & _). rewrite A.
    destruct (existsb (key_eqb x) cl) eqn:E; auto. destruct (lookup x (q s2)) eqn:E2; auto.
    exfalso. apply (existsb_in _ _ E). apply Hcl. congruence.
  - destruct (cleans_frame cf cl s2 dummy) as (_ & _ & C & D & _). destruct (drains_frame cf dr s1 dummy) as (_ & _ & C' & D').
    fold s2 in C', D'. rewrite C, D, C', D'. exact J2.
  - destruct (Hct dummy) as [E|E]; congruence.
  - intros x f Hl. destruct (Hct x) as [E|E]; rewrite E in Hl; [eauto|discriminate].
Qed.

(* A forward entry whose reverse entry was deletable is gone after two complete rounds (after the first the reverse
   entry is gone; a forward entry that was not deleted with it - it lost the pairing record to another forward entry
   of the same reverse entry, or had the same timestamp under the pinned code - is then a forward entry without
   reverse entry, which the second round removes). *)
Theorem fwd_two_rounds : forall cf o1 d1 c1 o2 d2 c2 s kf f r,
  fresh s ->
  lookup kf (ct s) = Some f -> e_kind f = KFwd ->
  lookup (e_rev f) (ct s) = Some r -> deletable cf (ct s) (e_rev f) r (now_used s) ->
  complete_round cf o1 d1 c1 s ->
  complete_round cf o2 d2 c2 (round cf o1 d1 c1 s) ->
  lookup kf (ct (round cf o2 d2 c2 (round cf o1 d1 c1 s))) = None.
Proof.
  intros cf o1 d1 c1 o2 d2 c2 s kf f r Hf Hkf Hfk Hr HD R1 R2.
  pose proof (full_scan_liveness cf o1 d1 c1 s (e_rev f) r Hf R1 Hr HD) as Hgone.
  destruct (round_fresh cf o1 d1 c1 s Hf R1) as [Hf1 Hsub].
  set (s1 := round cf o1 d1 c1 s) in *.
  destruct (Hsub kf) as [E|E].
  - apply full_scan_liveness with (e := f); auto; [congruence|].
    unfold deletable. rewrite Hfk. exact Hgone.
  - destruct (round_fresh cf o2 d2 c2 s1 Hf1 R2) as [_ Hsub2]. destruct (Hsub2 kf); congruence.
Qed.

(* the rounds the real code performs: final loop over the pairing table, cleaner pass over the queue *)
Lemma lookup_in_keys : forall {V} x (m : list (key * V)), lookup x m <> None -> In x (map fst m).
Proof.
  induction m as [|[k1 v] m IH]; simpl; intros H; [congruence|].
  destruct (key_eqb x k1) eqn:E; [left; symmetry; apply key_eqb_eq; auto|right; auto].
Qed.

Definition scan_round (cf : conf) (order : list key) (s : state) : state :=
  clean_all cf (drain_all cf (run cf s (map Judge order))).

Lemma scan_round_is_round : forall cf order s,
  scan_round cf order s =
  round cf order (map fst (info (run cf s (map Judge order))))
        (map fst (q (drain_all cf (run cf s (map Judge order))))) s.
Proof. intros. unfold scan_round, round, clean_all, drain_all. rewrite !map_map. reflexivity. Qed.

Lemma scan_round_complete : forall cf order s,
  NoDup order -> (forall x, lookup x (ct s) <> None -> In x order) ->
  complete_round cf order (map fst (info (run cf s (map Judge order))))
                 (map fst (q (drain_all cf (run cf s (map Judge order))))) s.
Proof.
  intros cf order s H1 H2. split; auto. split; auto. split.
  - intros x. apply lookup_in_keys.
  - intros x. unfold drain_all. rewrite map_map. apply lookup_in_keys.
Qed.
