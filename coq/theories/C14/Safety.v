(* C14 — safety: whatever the interleaving of scanner callbacks, cleaner callbacks, packets, dataplane rewrites,
   evictions and clock ticks, the kernel cleaner deletes an entry only on the strength of a judgement the
   property allows, and the entry is literally unchanged between that judgement and the deletion. *)
From Coq Require Import List NArith ZArith Bool Lia.
From Verif.C14 Require Import Model Spec Proofs.
Import ListNotations.
Open Scope Z_scope.

(* ---------------------------------------------------------------- keys, maps *)

Lemma key_eqb_eq : forall a b, key_eqb a b = true <-> a = b.
Proof.
  intros [a1 a2] [b1 b2]. unfold key_eqb; simpl. rewrite andb_true_iff, !N.eqb_eq.
  split; [intros [-> ->]; reflexivity | intros H; inversion H; auto].
Qed.
Lemma key_eqb_refl : forall a, key_eqb a a = true.
Proof. intros; apply key_eqb_eq; reflexivity. Qed.
Lemma key_eqb_neq : forall a b, key_eqb a b = false <-> a <> b.
Proof.
  intros. split.
  - intros H E. apply key_eqb_eq in E. congruence.
  - intros H. destruct (key_eqb a b) eqn:E; auto. apply key_eqb_eq in E. contradiction.
Qed.

Lemma lookup_remove : forall {V} k k' (m : list (key * V)),
  lookup k (remove k' m) = if key_eqb k k' then None else lookup k m.
Proof.
  induction m as [|[k1 v] m IH]; simpl.
  - destruct (key_eqb k k'); reflexivity.
  - destruct (key_eqb k' k1) eqn:E1.
    + rewrite IH. destruct (key_eqb k k') eqn:E2; auto. destruct (key_eqb k k1) eqn:E3; auto.
      apply key_eqb_eq in E1, E3. subst. rewrite key_eqb_refl in E2. discriminate.
    + simpl. destruct (key_eqb k k1) eqn:E3.
      * destruct (key_eqb k k') eqn:E2; auto. apply key_eqb_eq in E2, E3; subst. rewrite key_eqb_refl in E1; discriminate.
      * apply IH.
Qed.
Lemma lookup_set : forall {V} k k' (v : V) m,
  lookup k (set k' v m) = if key_eqb k k' then Some v else lookup k m.
Proof. intros. unfold set; simpl. destruct (key_eqb k k') eqn:E; auto. rewrite lookup_remove, E. auto. Qed.
Lemma lookup_remove_some : forall {V} k k' (m : list (key * V)) v,
  lookup k (remove k' m) = Some v -> lookup k m = Some v.
Proof. intros V k k' m v. rewrite lookup_remove. destruct (key_eqb k k'); congruence. Qed.

Lemma app_snoc_split : forall {A} (b b1 b2 : list A) x,
  b ++ [x] = b1 ++ b2 -> (b2 = [] /\ b1 = b ++ [x]) \/ exists b2', b2 = b2' ++ [x] /\ b = b1 ++ b2'.
Proof.
  intros A b b1 b2 x. destruct b2 as [|y b2] using rev_ind.
  - rewrite app_nil_r. intros; left; auto.
  - intros H. right. rewrite app_assoc in H. apply app_inj_tail in H as [H1 H2]. subst. exists b2; auto.
Qed.

Ltac psimpl := cbn [andb do_step ct q info kclock gclock cached lastgo set_ct set_q set_info tick1 qv_key qv_ts qv_rts fst snd].
Tactic Notation "psimpl" "in" hyp(H) := cbn [andb do_step ct q info kclock gclock cached lastgo set_ct set_q set_info tick1 qv_key qv_ts qv_rts fst snd] in H.
Tactic Notation "psimpl" "in" hyp(H) "," hyp(H2) := cbn [andb do_step ct q info kclock gclock cached lastgo set_ct set_q set_info tick1 qv_key qv_ts qv_rts fst snd] in H, H2.

(* ---------------------------------------------------------------- how steps touch the conntrack map and clocks *)

Lemma run_snoc : forall cf s l x, run cf s (l ++ [x]) = do_step cf (run cf s l) x.
Proof. intros. unfold run. rewrite fold_left_app. reflexivity. Qed.
Lemma run_nil : forall cf s, run cf s [] = s.
Proof. reflexivity. Qed.
Lemma run_app : forall cf s l1 l2, run cf s (l1 ++ l2) = run cf (run cf s l1) l2.
Proof. intros. unfold run. apply fold_left_app. Qed.

Ltac brk :=
  repeat match goal with
         | |- context [if ?c then _ else _] => destruct c
         | |- context [match ?x with _ => _ end] => destruct x
         end.

Lemma handle_nat_ct : forall fx k v ts s, ct (handle_nat fx k v ts s) = ct s.
Proof. intros. unfold handle_nat. brk; reflexivity. Qed.
Lemma handle_nat_kclock : forall fx k v ts s, kclock (handle_nat fx k v ts s) = kclock s.
Proof. intros. unfold handle_nat. brk; reflexivity. Qed.
Lemma handle_nat_cached : forall fx k v ts s, cached (handle_nat fx k v ts s) = cached s.
Proof. intros. unfold handle_nat. brk; reflexivity. Qed.
Lemma refresh_ct : forall s, ct (refresh s) = ct s.
Proof. intros. unfold refresh. brk; reflexivity. Qed.
Lemma refresh_q : forall s, q (refresh s) = q s.
Proof. intros. unfold refresh. brk; reflexivity. Qed.
Lemma refresh_info : forall s, info (refresh s) = info s.
Proof. intros. unfold refresh. brk; reflexivity. Qed.
Lemma refresh_kclock : forall s, kclock (refresh s) = kclock s.
Proof. intros. unfold refresh. brk; reflexivity. Qed.
Lemma refresh_cached : forall s, cached (refresh s) = now_used s.
Proof. intros. unfold refresh, now_used. brk; reflexivity. Qed.

Lemma judge_ct : forall cf k s, ct (judge cf k s) = ct s.
Proof.
  intros. unfold judge. destruct (lookup k (ct s)); auto. unfold tick1; psimpl.
  destruct (liveness_verdict _ _ _ _ _); [destruct (e_kind e)|]; psimpl; rewrite ?handle_nat_ct, ?refresh_ct; reflexivity.
Qed.
Lemma judge_kclock : forall cf k s v, lookup k (ct s) = Some v -> kclock (judge cf k s) = kclock s + 1.
Proof.
  intros. unfold judge. rewrite H. unfold tick1; psimpl.
  destruct (liveness_verdict _ _ _ _ _); [destruct (e_kind v)|]; psimpl; rewrite ?handle_nat_kclock, ?refresh_kclock; reflexivity.
Qed.
Lemma judge_cached : forall cf k s v, lookup k (ct s) = Some v -> cached (judge cf k s) = now_used s.
Proof.
  intros. unfold judge. rewrite H. unfold tick1; psimpl.
  destruct (liveness_verdict _ _ _ _ _); [destruct (e_kind v)|]; psimpl; rewrite ?handle_nat_cached, ?refresh_cached; reflexivity.
Qed.
Lemma drain_ct : forall k s, ct (drain k s) = ct s.
Proof. intros. unfold drain. brk; reflexivity. Qed.

Lemma kclock_step : forall cf s x, kclock s <= kclock (do_step cf s x).
Proof.
  intros. destruct x; psimpl; try lia.
  - unfold packet. brk; psimpl; lia.
  - destruct (lookup k (ct s)) eqn:E. erewrite judge_kclock by eauto. lia. unfold judge. rewrite E. lia.
  - unfold drain. brk; psimpl; lia.
  - unfold clean. brk; psimpl; lia.
Qed.

(* a step leaves a conntrack slot alone, empties it, or writes the current kernel time into its last_seen *)
Lemma step_ct : forall cf s x kt,
  lookup kt (ct (do_step cf s x)) = lookup kt (ct s) \/
  lookup kt (ct (do_step cf s x)) = None \/
  exists e', lookup kt (ct (do_step cf s x)) = Some e' /\ e_ls e' = kclock s.
Proof.
  intros. destruct x; psimpl.
  - left; reflexivity.
  - unfold packet. destruct (lookup k (ct s)) as [v|] eqn:Hv; [|left; reflexivity].
    assert (Hone : lookup kt (ct (set_ct s (set k (with_ls v (kclock s)) (ct s)))) = lookup kt (ct s) \/
                   lookup kt (ct (set_ct s (set k (with_ls v (kclock s)) (ct s)))) = None \/
                   exists e', lookup kt (ct (set_ct s (set k (with_ls v (kclock s)) (ct s)))) = Some e' /\ e_ls e' = kclock s).
    { psimpl. rewrite lookup_set. destruct (key_eqb kt k); [right; right; eexists; split; [reflexivity|reflexivity]|left; reflexivity]. }
    destruct (e_kind v); auto.
    destruct (lookup (e_rev v) (ct s)) as [r|] eqn:Hr.
    + psimpl. rewrite !lookup_set. destruct (key_eqb kt (e_rev v)).
      * right; right; eexists; split; [reflexivity|reflexivity].
      * destruct (key_eqb kt k); [right; right; eexists; split; [reflexivity|reflexivity]|left; reflexivity].
    + psimpl. rewrite lookup_remove. destruct (key_eqb kt k); auto.
  - rewrite lookup_set. destruct (key_eqb kt k); [right; right; eexists; split; [reflexivity|reflexivity]|left; reflexivity].
  - rewrite lookup_remove. destruct (key_eqb kt k); auto.
  - left. rewrite judge_ct. reflexivity.
  - left. rewrite drain_ct. reflexivity.
  - left; reflexivity.
  - unfold clean. destruct (lookup k (q s)) as [[[rk ts] rts]|]; [|left; reflexivity].
    destruct (N.eqb (proto rk) 0).
    + psimpl. destruct (lookup k (ct s)); [|left; reflexivity].
      destruct (Z.eqb (e_ls e) ts); [|left; reflexivity]. psimpl. rewrite lookup_remove. destruct (key_eqb kt k); auto.
    + assert (Hp : forall s1 : state, ct s1 = ct s ->
         let pd := match lookup rk (ct s1) with
                   | Some r => if Z.eqb (e_ls r) rts then set_ct s1 (remove k (remove rk (ct s1))) else s1
                   | None => s1 end in
         lookup kt (ct pd) = lookup kt (ct s) \/ lookup kt (ct pd) = None).
      { intros s1 E. psimpl. destruct (lookup rk (ct s1)); [|left; congruence].
        destruct (Z.eqb (e_ls e) rts); [|left; congruence]. psimpl. rewrite !lookup_remove, E.
        destruct (key_eqb kt k); auto. destruct (key_eqb kt rk); auto. }
      specialize (Hp (set_q s (remove k (q s))) eq_refl). psimpl in Hp. psimpl.
      destruct (lookup k (ct s)).
      * destruct (kind_eqb (e_kind e) KFwd && key_eqb (e_rev e) rk); [destruct Hp; auto|left; reflexivity].
      * destruct Hp; auto.
Qed.

Lemma expired_mono : forall t now now' p e, now <= now' -> expired t now p e = true -> expired t now' p e = true.
Proof.
  intros t now now' p e Hle. rewrite !expired_iff_idle. unfold idle_past_timeout.
  rewrite !Z.gtb_lt. lia.
Qed.

Lemma minl_nonneg : forall l d, 0 <= d -> Forall (fun x => 0 <= x) l -> 0 <= minl d l.
Proof. induction l; simpl; intros; auto. inversion H0; subst. apply Z.min_glb; auto. Qed.

Lemma spec_timeout_nonneg : forall t p e, tm_nonneg t -> 0 <= spec_timeout t p e.
Proof.
  intros t p e (H1 & H2 & H3 & H4 & H5 & H6 & H7). unfold spec_timeout, applicable, sec.
  destruct (N.eqb p 6); [|destruct (N.eqb p 1 || N.eqb p 58); [|destruct (N.eqb p 17)]]; simpl; try (apply Z.min_glb; lia).
  destruct (rst_seen e); destruct ((e_dsr e && fins_seen_dsr e) || fins_seen e);
    destruct (established e || e_dsr e); destruct (rst_ts_set e); simpl;
    repeat apply Z.min_glb; lia.
Qed.

Lemma expired_pos : forall t now p e, tm_nonneg t -> expired t now p e = true -> e_ls e < now.
Proof.
  intros t now p e Ht. rewrite expired_iff_idle. unfold idle_past_timeout. rewrite Z.gtb_lt.
  pose proof (spec_timeout_nonneg t p e Ht). lia.
Qed.

(* ---------------------------------------------------------------- history predicates *)

Definition wf_step (x : step) : Prop := match x with DpSet k _ => k <> dummy | _ => True end.

Section Safety.
Variable cf : conf.
Variable s0 : state.

Definition newer (s : state) (kt : key) (ts : Z) : Prop :=
  match lookup kt (ct s) with None => True | Some e => ts < e_ls e end.

(* slot kt holds exactly e in every state from s' through the steps b *)
Definition unchanged (s' : state) (b : list step) (kt : key) (e : entry) : Prop :=
  forall b1 b2, b = b1 ++ b2 -> lookup kt (ct (run cf s' b1)) = Some e.

(* "slot kt, holding e with last_seen ts, was looked at by the scanner callback Judge j at a moment when R held;
    since then the slot is unchanged, or it has been emptied / written with a later timestamp" *)
Definition Seen (R : key -> state -> entry -> Prop) (pre : list step) (kt : key) (ts : Z) : Prop :=
  exists a j b e, pre = a ++ Judge j :: b /\
    lookup kt (ct (run cf s0 a)) = Some e /\ e_ls e = ts /\ R j (run cf s0 a) e /\
    (unchanged (do_step cf (run cf s0 a) (Judge j)) b kt e \/ newer (run cf s0 pre) kt ts) /\
    ts < kclock (run cf s0 pre).

Lemma Seen_weaken : forall (R R' : key -> state -> entry -> Prop) pre kt ts,
  (forall j s e, R j s e -> R' j s e) -> Seen R pre kt ts -> Seen R' pre kt ts.
Proof. intros R R' pre kt ts H (a & j & b & e & H1 & H2 & H3 & H4 & H5). exists a, j, b, e. intuition. Qed.

Lemma Seen_step : forall R pre kt ts x, Seen R pre kt ts -> Seen R (pre ++ [x]) kt ts.
Proof.
  intros R pre kt ts x (a & j & b & e & -> & Hl & Hts & HR & Hun & Hlt).
  exists a, j, (b ++ [x]), e.
  assert (Epre : (a ++ Judge j :: b) ++ [x] = a ++ Judge j :: b ++ [x]) by (rewrite <- app_assoc; reflexivity).
  split; [exact Epre|]. split; [exact Hl|]. split; [exact Hts|]. split; [exact HR|].
  rewrite run_snoc.
  set (S := run cf s0 (a ++ Judge j :: b)) in *.
  assert (ES : S = run cf (do_step cf (run cf s0 a) (Judge j)) b).
  { unfold S. rewrite run_app. reflexivity. }
  pose proof (kclock_step cf S x) as Hk.
  split; [|lia].
  assert (Hnew : newer S kt ts -> newer (do_step cf S x) kt ts).
  { unfold newer. intros Hn. destruct (step_ct cf S x kt) as [E|[E|(e' & E & E2)]]; rewrite E; auto. rewrite E2. lia. }
  destruct Hun as [Hun|Hn]; [|right; auto].
  assert (Hcur : lookup kt (ct S) = Some e).
  { rewrite ES. apply (Hun b []). rewrite app_nil_r. reflexivity. }
  destruct (step_ct cf S x kt) as [E|[E|(e' & E & E2)]].
  - left. intros b1 b2 Hb. destruct (app_snoc_split _ _ _ _ Hb) as [[-> ->]|(b2' & -> & ->)].
    + rewrite run_snoc, <- ES, E. exact Hcur.
    + apply (Hun b1 b2'). reflexivity.
  - right. unfold newer. rewrite E. exact I.
  - right. unfold newer. rewrite E, E2. lia.
Qed.

Lemma Seen_new : forall (R : key -> state -> entry -> Prop) pre j kt e v,
  lookup kt (ct (run cf s0 pre)) = Some e -> lookup j (ct (run cf s0 pre)) = Some v ->
  e_ls e <= kclock (run cf s0 pre) -> R j (run cf s0 pre) e ->
  Seen R (pre ++ [Judge j]) kt (e_ls e).
Proof.
  intros R pre j kt e v Hl Hj Hle HR. exists pre, j, [], e.
  split; [reflexivity|]. split; [exact Hl|]. split; [reflexivity|]. split; [exact HR|].
  rewrite run_snoc. psimpl. split.
  - left. intros b1 b2 Hb. symmetry in Hb. apply app_eq_nil in Hb as [-> _]. rewrite run_nil. psimpl. rewrite judge_ct. exact Hl.
  - erewrite judge_kclock by eauto. lia.
Qed.

(* the three kinds of record *)
Definition Rtrack (kt : key) (j : key) (sj : state) (e : entry) : Prop :=
  (j = kt \/ exists f, lookup j (ct sj) = Some f /\ e_kind f = KFwd /\ e_rev f = kt) /\
  expired (cf_tm cf) (now_used sj) (proto j) e = true.
Definition Rfwd (kf rk : key) (j : key) (sj : state) (f : entry) : Prop :=
  j = kf /\ e_kind f = KFwd /\ e_rev f = rk.
(* why a forward entry may be queued on its own *)
Definition alone_reason (kf : key) (sj : state) (f : entry) : Prop :=
  lookup (e_rev f) (ct sj) = None \/ proto (e_rev f) = 0%N \/
  (cf_fix cf = false /\ exists r, lookup (e_rev f) (ct sj) = Some r /\ e_ls r = e_ls f /\
                                  expired (cf_tm cf) (now_used sj) (proto kf) r = true).
Definition Ralone (kf : key) (j : key) (sj : state) (f : entry) : Prop :=
  j = kf /\ e_kind f = KFwd /\ alone_reason kf sj f.

(* sharper records kept for the queue: judged as itself (a tracking entry), or judged for the queue key qk *)
Definition Rself (kt : key) (j : key) (sj : state) (e : entry) : Prop :=
  j = kt /\ is_tracking e = true /\ expired (cf_tm cf) (now_used sj) (proto j) e = true.
Definition Rpair (qk kt : key) (j : key) (sj : state) (e : entry) : Prop :=
  (j = kt \/ (j = qk /\ exists f, lookup j (ct sj) = Some f /\ e_kind f = KFwd /\ e_rev f = kt)) /\
  expired (cf_tm cf) (now_used sj) (proto j) e = true.
Definition TJ pre kt ts := Seen (Rtrack kt) pre kt ts.
Definition TS pre kt ts := Seen (Rself kt) pre kt ts.
Definition TP pre qk kt ts := Seen (Rpair qk kt) pre kt ts.
Definition FS pre kf ts rk := Seen (Rfwd kf rk) pre kf ts.
Definition FSA pre kf ts := Seen (Ralone kf) pre kf ts.

Definition Jq pre (qk : key) (qv : qval) : Prop :=
  (proto (qv_key qv) = 0%N -> qk <> dummy -> TS pre qk (qv_ts qv) \/ FSA pre qk (qv_ts qv)) /\
  (proto (qv_key qv) <> 0%N -> TP pre qk (qv_key qv) (qv_rts qv)).
Definition Ji pre (rk : key) (iv : qval) : Prop :=
  (qv_key iv = dummy -> TS pre rk (qv_ts iv)) /\
  (qv_key iv <> dummy -> FS pre (qv_key iv) (qv_ts iv) rk /\ TP pre (qv_key iv) rk (qv_rts iv)).

Lemma TS_TJ : forall pre kt ts, TS pre kt ts -> TJ pre kt ts.
Proof. intros pre kt ts. apply Seen_weaken. intros j s e (A & B & C). split; auto. Qed.
Lemma TP_TJ : forall pre qk kt ts, TP pre qk kt ts -> TJ pre kt ts.
Proof.
  intros pre qk kt ts. apply Seen_weaken. intros j s e ([A|(A & B)] & C); split; auto.
Qed.

Lemma Jq_step : forall pre qk qv x, Jq pre qk qv -> Jq (pre ++ [x]) qk qv.
Proof.
  intros pre qk qv x [H1 H2]. unfold TS, TP, FSA in *. split.
  - intros A B. destruct (H1 A B) as [H|H]; [left|right]; apply Seen_step; exact H.
  - intros A. apply Seen_step. exact (H2 A).
Qed.
Lemma Ji_step : forall pre rk iv x, Ji pre rk iv -> Ji (pre ++ [x]) rk iv.
Proof.
  intros pre rk iv x [H1 H2]. unfold TS, TP, FS in *. split.
  - intros A. apply Seen_step. exact (H1 A).
  - intros A. destruct (H2 A) as [B C]. split; apply Seen_step; assumption.
Qed.

Lemma FS_FSA : forall pre kf ts rk, proto rk = 0%N -> FS pre kf ts rk -> FSA pre kf ts.
Proof.
  intros pre kf ts rk Hp. apply Seen_weaken. intros j s e (A & B & C). split; auto. split; auto.
  right; left. rewrite C. exact Hp.
Qed.

Definition Inv (pre : list step) : Prop :=
  let s := run cf s0 pre in
  (forall qk qv, lookup qk (q s) = Some qv -> Jq pre qk qv) /\
  (forall rk iv, lookup rk (info s) = Some iv -> Ji pre rk iv) /\
  lookup dummy (ct s) = None /\
  cached s <= kclock s /\
  (forall k e, lookup k (ct s) = Some e -> e_ls e <= kclock s).

Lemma now_used_le : forall s, cached s <= kclock s -> now_used s <= kclock s.
Proof. intros. unfold now_used. destruct (refresh_needed s); lia. Qed.

Lemma proto_dummy : proto dummy = 0%N.
Proof. reflexivity. Qed.

Lemma Inv_step : forall pre x, Inv pre -> wf_step x -> Inv (pre ++ [x]).
Proof.
  intros pre x (Iq & Ii & Id & Ic & Il) Hwf. unfold Inv. rewrite run_snoc.
  set (s := run cf s0 pre) in *.
  (* the parts about the conntrack map and the clocks *)
  assert (Hd' : lookup dummy (ct (do_step cf s x)) = None).
  { destruct x; psimpl; auto.
    - unfold packet. destruct (lookup k (ct s)) as [v|] eqn:Hv; auto.
      assert (Hk : key_eqb dummy k = false) by (apply key_eqb_neq; intros <-; congruence).
      destruct (e_kind v); psimpl; rewrite ?lookup_set, ?Hk; auto.
      destruct (lookup (e_rev v) (ct s)) eqn:Hr; psimpl.
      + assert (Hk2 : key_eqb dummy (e_rev v) = false) by (apply key_eqb_neq; intros E; rewrite <- E in Hr; congruence).
        rewrite !lookup_set, Hk2, Hk. auto.
      + rewrite lookup_remove, Hk. auto.
    - rewrite lookup_set. assert (Hk : key_eqb dummy k = false) by (apply key_eqb_neq; intros <-; apply Hwf; reflexivity).
      rewrite Hk. auto.
    - rewrite lookup_remove. destruct (key_eqb dummy k); auto.
    - rewrite judge_ct; auto.
    - rewrite drain_ct; auto.
    - destruct (step_ct cf s (Clean k) dummy) as [E|[E|(e' & E & E2)]]; psimpl in E; try congruence.
      exfalso. clear - E Id. unfold clean in E. revert E. brk; psimpl; rewrite ?lookup_remove; brk; congruence. }
  assert (Hl' : forall k e, lookup k (ct (do_step cf s x)) = Some e -> e_ls e <= kclock (do_step cf s x)).
  { intros k e H. pose proof (kclock_step cf s x).
    destruct (step_ct cf s x k) as [E|[E|(e' & E & E2)]]; rewrite E in H; try discriminate.
    - specialize (Il _ _ H). lia.
    - inversion H; subst. lia. }
  assert (Hc' : cached (do_step cf s x) <= kclock (do_step cf s x)).
  { destruct x; psimpl; try lia.
    - unfold packet. brk; psimpl; lia.
    - destruct (lookup k (ct s)) eqn:E.
      + erewrite judge_cached, judge_kclock by eauto. pose proof (now_used_le s Ic). lia.
      + unfold judge. rewrite E. lia.
    - unfold drain. brk; psimpl; lia.
    - unfold clean. brk; psimpl; lia. }
  (* queue and pairing records that were there before remain justified *)
  assert (Pq : forall qk qv, lookup qk (q s) = Some qv -> Jq (pre ++ [x]) qk qv) by (intros; apply Jq_step; auto).
  assert (Pi : forall rk iv, lookup rk (info s) = Some iv -> Ji (pre ++ [x]) rk iv) by (intros; apply Ji_step; auto).
  split; [|split; [|split; [exact Hd'|split; [exact Hc'|exact Hl']]]].
  - (* queue *)
    destruct x; psimpl; auto.
    + unfold packet. intros qk qv. brk; psimpl; auto.
    + (* Judge *)
      intros qk qv. unfold judge. destruct (lookup k (ct s)) as [v|] eqn:Hv; auto.
      unfold tick1; psimpl.
      pose proof (Il _ _ Hv) as Hvle.
      destruct (liveness_verdict (cf_tm cf) (cached (refresh s)) (ct (refresh s)) k v) as [ts|] eqn:Hver;
        [|rewrite refresh_q; auto].
      rewrite refresh_cached, refresh_ct in Hver.
      unfold liveness_verdict in Hver.
      destruct (e_kind v) eqn:Hkind.
      * (* normal *)
        destruct (expired (cf_tm cf) (now_used s) (proto k) v) eqn:Hex; [|discriminate]. inversion Hver; subst ts.
        psimpl. rewrite refresh_q, lookup_set. destruct (key_eqb qk k) eqn:Ek; auto.
        apply key_eqb_eq in Ek; subst qk. intros H; inversion H; subst qv. split.
        -- intros _ _. left. eapply Seen_new; eauto. split; auto. split; auto. unfold is_tracking. rewrite Hkind. reflexivity.
        -- intros A. exfalso. apply A. reflexivity.
      * (* forward *)
        unfold handle_nat. rewrite Hkind, refresh_ct, refresh_info, refresh_q.
        assert (Hkd : k <> dummy) by (intros ->; congruence).
        destruct (lookup (e_rev v) (ct s)) as [r|] eqn:Hr.
        -- destruct (expired (cf_tm cf) (now_used s) (proto k) r) eqn:Hex; [|discriminate]. inversion Hver; subst ts.
           pose proof (Il _ _ Hr) as Hrle.
           assert (HTJ : TP (pre ++ [Judge k]) k (e_rev v) (e_ls r)).
           { eapply Seen_new; eauto. split; auto. right. split; auto. exists v. auto. }
           destruct (Z.eqb (e_ls v) (e_ls r) && (negb (cf_fix cf) || false)) eqn:Hcond.
           ++ psimpl. rewrite lookup_set. destruct (key_eqb qk k) eqn:Ek; auto.
              apply key_eqb_eq in Ek; subst qk. intros H; inversion H; subst qv. split.
              ** intros _ _. right. eapply Seen_new; eauto. split; auto. split; auto.
                 right; right. apply andb_true_iff in Hcond as [C1 C2]. apply Z.eqb_eq in C1.
                 rewrite orb_false_r in C2. apply negb_true_iff in C2. split; auto. exists r. auto.
              ** intros A. exfalso. apply A. reflexivity.
           ++ destruct (lookup (e_rev v) (info s)) as [iv0|]; psimpl; rewrite ?refresh_q; auto.
              rewrite lookup_set. destruct (key_eqb qk k) eqn:Ek; auto.
              apply key_eqb_eq in Ek; subst qk. intros H; inversion H; subst qv. split.
              ** intros A _. right. eapply Seen_new; eauto. split; auto. split; auto. right; left. exact A.
              ** intros _. exact HTJ.
        -- inversion Hver; subst ts. rewrite Z.eqb_refl. rewrite orb_true_r. psimpl.
           rewrite lookup_set. destruct (key_eqb qk k) eqn:Ek; auto.
           apply key_eqb_eq in Ek; subst qk. intros H; inversion H; subst qv. split.
           ++ intros _ _. right. eapply Seen_new; eauto. split; auto. split; auto. left. exact Hr.
           ++ intros A. exfalso. apply A. reflexivity.
      * (* reverse *)
        destruct (expired (cf_tm cf) (now_used s) (proto k) v) eqn:Hex; [|discriminate]. inversion Hver; subst ts.
        unfold handle_nat. rewrite Hkind, refresh_info, refresh_q.
        destruct (lookup k (info s)) as [[[other its] irts]|] eqn:Hi; psimpl; rewrite ?refresh_q; auto.
        unfold qv_key, qv_ts; psimpl. rewrite lookup_set. destruct (key_eqb qk other) eqn:Ek; auto.
        apply key_eqb_eq in Ek; subst qk. intros H; inversion H; subst qv. split.
        -- unfold qv_key, qv_ts; psimpl. intros A B. right.
           destruct (Pi _ _ Hi) as [_ P2]. destruct (P2 B) as [P3 _]. eapply FS_FSA; eauto.
        -- unfold qv_key, qv_rts; psimpl. intros _. eapply Seen_new; eauto. split; auto.
      * discriminate.
    + (* Drain *)
      intros qk qv. unfold drain. destruct (lookup rk (info s)) as [[[other its] irts]|] eqn:Hi; auto.
      unfold qv_key, qv_ts, qv_rts; psimpl. destruct (Pi _ _ Hi) as [P1 P2]. unfold qv_key, qv_ts, qv_rts in P1, P2; psimpl in P1, P2.
      destruct (key_eqb other dummy) eqn:Eo; psimpl; rewrite lookup_set.
      * apply key_eqb_eq in Eo. destruct (key_eqb qk rk) eqn:Ek; auto.
        apply key_eqb_eq in Ek; subst qk. intros H; inversion H; subst qv. split; unfold qv_key, qv_ts, qv_rts; psimpl.
        -- intros _ _. left. auto.
        -- intros A. exfalso. subst other. apply A. reflexivity.
      * apply key_eqb_neq in Eo. destruct (key_eqb qk other) eqn:Ek; auto.
        apply key_eqb_eq in Ek; subst qk. intros H; inversion H; subst qv. destruct (P2 Eo) as [P3 P4].
        split; unfold qv_key, qv_ts, qv_rts; psimpl.
        -- intros A _. right. eapply FS_FSA; eauto.
        -- intros _. exact P4.
    + intros qk qv H. apply lookup_remove_some in H. auto.
    + (* Clean *)
      intros qk qv. unfold clean. destruct (lookup k (q s)) as [[[rk ts] rts]|] eqn:Hq; auto.
      brk; psimpl; intros H0; apply lookup_remove_some in H0; auto.
  - (* pairing records *)
    destruct x; psimpl; auto.
    + unfold packet. intros rk iv. brk; psimpl; auto.
    + (* Judge *)
      intros rk iv. unfold judge. destruct (lookup k (ct s)) as [v|] eqn:Hv; auto.
      unfold tick1; psimpl.
      pose proof (Il _ _ Hv) as Hvle.
      destruct (liveness_verdict (cf_tm cf) (cached (refresh s)) (ct (refresh s)) k v) as [ts|] eqn:Hver;
        [|rewrite refresh_info; auto].
      rewrite refresh_cached, refresh_ct in Hver.
      unfold liveness_verdict in Hver.
      destruct (e_kind v) eqn:Hkind.
      * psimpl. rewrite refresh_info. auto.
      * unfold handle_nat. rewrite Hkind, refresh_ct, refresh_info, refresh_q.
        assert (Hkd : k <> dummy) by (intros ->; congruence).
        destruct (lookup (e_rev v) (ct s)) as [r|] eqn:Hr.
        -- destruct (expired (cf_tm cf) (now_used s) (proto k) r) eqn:Hex; [|discriminate]. inversion Hver; subst ts.
           pose proof (Il _ _ Hr) as Hrle.
           assert (HTJ : TP (pre ++ [Judge k]) k (e_rev v) (e_ls r)).
           { eapply Seen_new; eauto. split; auto. right. split; auto. exists v. auto. }
           destruct (Z.eqb (e_ls v) (e_ls r) && (negb (cf_fix cf) || false)); psimpl; rewrite ?refresh_info; auto.
           destruct (lookup (e_rev v) (info s)) eqn:Hi; psimpl.
           ++ intros H. apply lookup_remove_some in H. auto.
           ++ rewrite lookup_set. destruct (key_eqb rk (e_rev v)) eqn:Ek; auto.
              apply key_eqb_eq in Ek; subst rk. intros H; inversion H; subst iv. split; unfold qv_key, qv_ts, qv_rts; psimpl.
              ** intros A. contradiction.
              ** intros _. split; auto. eapply Seen_new; eauto. split; auto.
        -- inversion Hver; subst ts. rewrite Z.eqb_refl. rewrite orb_true_r. psimpl. rewrite ?refresh_info. auto.
      * destruct (expired (cf_tm cf) (now_used s) (proto k) v) eqn:Hex; [|discriminate]. inversion Hver; subst ts.
        unfold handle_nat. rewrite Hkind, refresh_info, refresh_q.
        destruct (lookup k (info s)) as [[[other its] irts]|] eqn:Hi; psimpl.
        -- intros H. apply lookup_remove_some in H. auto.
        -- rewrite lookup_set. destruct (key_eqb rk k) eqn:Ek; auto.
           apply key_eqb_eq in Ek; subst rk. intros H; inversion H; subst iv. split; unfold qv_key, qv_ts, qv_rts; psimpl.
           ++ intros _. eapply Seen_new; eauto. split; auto. split; auto. unfold is_tracking. rewrite Hkind. reflexivity.
           ++ intros A. exfalso. apply A. reflexivity.
      * discriminate.
    + (* Drain *)
      intros rk' iv. unfold drain. destruct (lookup rk (info s)) as [[[other its] irts]|] eqn:Hi; auto.
      unfold qv_key; psimpl. destruct (key_eqb other dummy); psimpl; intros H; apply lookup_remove_some in H; auto.
    + intros rk iv. unfold clean. brk; psimpl; auto.
Qed.

Hypothesis H0q : q s0 = [].
Hypothesis H0i : info s0 = [].
Hypothesis H0d : lookup dummy (ct s0) = None.
Hypothesis H0c : cached s0 <= kclock s0.
Hypothesis H0l : forall k e, lookup k (ct s0) = Some e -> e_ls e <= kclock s0.

Lemma Inv_all : forall pre, Forall wf_step pre -> Inv pre.
Proof.
  intros pre. induction pre as [|x pre IH] using rev_ind; intros Hwf.
  - unfold Inv. rewrite run_nil, H0q, H0i. split; [|split; [|split; [|split]]]; auto; intros ? ? HH; simpl in HH; discriminate.
  - apply Forall_app in Hwf as [H1 H2]. inversion H2; subst. apply Inv_step; auto.
Qed.

(* ---------------------------------------------------------------- the safety statement *)

(* what the cleaner's deletion of slot k (holding e) at the end of history pre rests on *)
Definition justified (pre : list step) (k : key) (e : entry) : Prop :=
  exists a j b,
    pre = a ++ Judge j :: b /\
    let sj := run cf s0 a in
    lookup k (ct sj) = Some e /\
    (* no packet, rewrite or eviction touched k between the judgement and now *)
    unchanged (do_step cf sj (Judge j)) b k e /\
    ( (* k was judged (directly, or as the reverse entry of the forward entry j) idle past its timeout *)
      ((j = k \/ exists f, lookup j (ct sj) = Some f /\ e_kind f = KFwd /\ e_rev f = k) /\
       idle_past_timeout (cf_tm cf) (kclock sj) (proto j) e = true /\
       expired (cf_tm cf) (now_used sj) (proto j) e = true)
      \/
      (* or k is a NAT forward entry that was queued on its own *)
      (j = k /\ e_kind e = KFwd /\ alone_reason k sj e) ).

Lemma Seen_not_newer : forall R pre kt ts e,
  Seen R pre kt ts -> lookup kt (ct (run cf s0 pre)) = Some e -> e_ls e = ts ->
  exists a j b, pre = a ++ Judge j :: b /\ lookup kt (ct (run cf s0 a)) = Some e /\
                R j (run cf s0 a) e /\ unchanged (do_step cf (run cf s0 a) (Judge j)) b kt e.
Proof.
  intros R pre kt ts e (a & j & b & e0 & Hp & Hl & Hts & HR & Hun & Hlt) Hcur Hls.
  destruct Hun as [Hun|Hn].
  - assert (lookup kt (ct (run cf s0 pre)) = Some e0).
    { rewrite Hp, run_app. psimpl. apply (Hun b []). rewrite app_nil_r; reflexivity. }
    assert (e0 = e) by congruence. subst e0. exists a, j, b. auto.
  - exfalso. unfold newer in Hn. rewrite Hcur in Hn. lia.
Qed.

Theorem safety : forall pre qk k e,
  Forall wf_step pre ->
  lookup k (ct (run cf s0 pre)) = Some e ->
  lookup k (ct (do_step cf (run cf s0 pre) (Clean qk))) = None ->
  justified pre k e
  \/ (* a forward entry deleted together with its reverse entry, in the same atomic step *)
     (k = qk /\ e_kind e = KFwd /\ e_rev e <> k /\
      exists r, lookup (e_rev e) (ct (run cf s0 pre)) = Some r /\
                lookup (e_rev e) (ct (do_step cf (run cf s0 pre) (Clean qk))) = None /\
                justified pre (e_rev e) r).
Proof.
  intros pre qk k e Hwf Hcur Hdel.
  destruct (Inv_all pre Hwf) as (Iq & Ii & Id & Ic & Il).
  set (s := run cf s0 pre) in *.
  assert (Hk : k <> dummy) by (intros ->; congruence).
  assert (TJ_just : forall kt r, TJ pre kt (e_ls r) -> lookup kt (ct s) = Some r -> justified pre kt r).
  { intros kt r HT Hr. destruct (Seen_not_newer _ _ _ _ _ HT Hr eq_refl) as (a & j & b & Hp & Hl & [HR1 HR2] & Hun).
    exists a, j, b. split; auto. split; auto. split; auto. left. split; auto. split; auto.
    rewrite <- expired_iff_idle. eapply expired_mono; [|exact HR2].
    apply now_used_le.
    assert (Forall wf_step a). { rewrite Hp in Hwf. apply Forall_app in Hwf. tauto. }
    destruct (Inv_all a H) as (_ & _ & _ & Hc & _). exact Hc. }
  psimpl in Hdel. unfold clean in Hdel.
  destruct (lookup qk (q s)) as [[[rk ts] rts]|] eqn:Hq; [|congruence].
  destruct (Iq _ _ Hq) as [J1 J2]. unfold qv_key, qv_ts, qv_rts in J1, J2; psimpl in J1, J2.
  destruct (N.eqb (proto rk) 0) eqn:Hp.
  - (* the dummy branch: qk deleted on its own timestamp *)
    apply N.eqb_eq in Hp. psimpl in Hdel.
    destruct (lookup qk (ct s)) as [eq|] eqn:Hqk; [|psimpl in Hdel; congruence].
    destruct (Z.eqb (e_ls eq) ts) eqn:Hts; [|psimpl in Hdel; congruence].
    psimpl in Hdel. rewrite lookup_remove in Hdel. destruct (key_eqb k qk) eqn:Ek; [|congruence].
    apply key_eqb_eq in Ek; subst qk. assert (eq = e) by congruence. subst eq. apply Z.eqb_eq in Hts. subst ts.
    left. destruct (J1 Hp Hk) as [HT|HF].
    + apply TJ_just; auto. apply TS_TJ; auto.
    + destruct (Seen_not_newer _ _ _ _ _ HF Hcur eq_refl) as (a & j & b & Hpre & Hl & (HR1 & HR2 & HR3) & Hun).
      exists a, j, b. split; [auto|]. split; [auto|]. split; [auto|]. right. auto.
  - (* the pair branch *)
    apply N.eqb_neq in Hp. specialize (J2 Hp).
    assert (Hpd : exists r, lookup rk (ct s) = Some r /\ e_ls r = rts /\ (k = rk \/ k = qk)).
    { psimpl in Hdel.
      destruct (lookup rk (ct s)) as [r|] eqn:Hr.
      - destruct (Z.eqb (e_ls r) rts) eqn:Hts.
        + exists r. split; auto. split; [apply Z.eqb_eq; auto|].
          destruct (key_eqb k rk) eqn:E1; [left; apply key_eqb_eq; auto|].
          destruct (key_eqb k qk) eqn:E2; [right; apply key_eqb_eq; auto|].
          exfalso. revert Hdel. brk; psimpl; rewrite ?lookup_remove, ?E1, ?E2; congruence.
        + exfalso. revert Hdel. brk; psimpl; congruence.
      - exfalso. revert Hdel. brk; psimpl; congruence. }
    destruct Hpd as (r & Hr & Hrts & Hwhich). subst rts.
    pose proof (TJ_just rk r (TP_TJ _ _ _ _ J2) Hr) as Jr.
    destruct (key_eqb k rk) eqn:E1.
    + apply key_eqb_eq in E1. subst k. assert (r = e) by congruence. subst r. left. exact Jr.
    + apply key_eqb_neq in E1. destruct Hwhich as [-> | ->]; [contradiction|].
      right. psimpl in Hdel. rewrite Hcur in Hdel.
      destruct (kind_eqb (e_kind e) KFwd && key_eqb (e_rev e) rk) eqn:Hm; [|psimpl in Hdel; congruence].
      apply andb_true_iff in Hm as [M1 M2]. apply key_eqb_eq in M2. subst rk.
      split; auto. split; [destruct (e_kind e); simpl in M1; congruence|]. split; [congruence|].
      exists r. split; auto. split; auto.
      psimpl. unfold clean. rewrite Hq.
      assert (Hp' : N.eqb (proto (e_rev e)) 0 = false) by (apply N.eqb_neq; auto).
      rewrite Hp'. psimpl. rewrite Hcur, M1, key_eqb_refl, Hr, Z.eqb_refl. psimpl. rewrite lookup_remove.
      destruct (key_eqb (e_rev e) qk); auto. rewrite lookup_remove, key_eqb_refl. reflexivity.
Qed.

End Safety.

(* With the repaired handleNATEntries a forward entry is queued on its own only if its reverse entry was absent when
   it was judged (or its reverse key has protocol 0, which the kernel cannot tell from the dummy key). *)
Lemma alone_reason_fixed : forall cf kf sj f,
  cf_fix cf = true -> alone_reason cf kf sj f -> lookup (e_rev f) (ct sj) = None \/ proto (e_rev f) = 0%N.
Proof. intros cf kf sj f Hfx [H|[H|[H _]]]; auto. congruence. Qed.
