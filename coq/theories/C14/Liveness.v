(* C14 — liveness: an entry that is idle past its timeout (by the kernel time the scanner reads) is gone after one
   judge / clean round in which no packet arrives.  Stated for the rounds the real Scan() + cleaner perform:
   a normal entry, a reverse entry on its own, a NAT pair visited in either order, and a pair with equal
   timestamps under the pinned code. *)
From Coq Require Import List NArith ZArith Bool Lia.
From Verif.C14 Require Import Model Spec Proofs Safety.
Import ListNotations.
Open Scope Z_scope.

Section Liveness.
Variable cf : conf.
Notation tm := (cf_tm cf).

(* ---- what one callback does, per kind *)

Lemma judge_normal : forall s k e,
  lookup k (ct s) = Some e -> e_kind e = KNormal -> expired tm (now_used s) (proto k) e = true ->
  ct (judge cf k s) = ct s /\ q (judge cf k s) = set k (dummy, e_ls e, e_ls e) (q s) /\ info (judge cf k s) = info s.
Proof.
  intros s k e Hl Hk Hex. split; [apply judge_ct|]. unfold judge. rewrite Hl. unfold tick1, liveness_verdict.
  rewrite refresh_cached, Hk, Hex. cbn [q info set_q]. rewrite refresh_q, refresh_info. auto.
Qed.

Lemma judge_rev : forall s k e,
  lookup k (ct s) = Some e -> e_kind e = KRev -> expired tm (now_used s) (proto k) e = true ->
  ct (judge cf k s) = ct s /\
  match lookup k (info s) with
  | None => q (judge cf k s) = q s /\ info (judge cf k s) = set k (dummy, e_ls e, 0) (info s)
  | Some iv => q (judge cf k s) = set (qv_key iv) (k, qv_ts iv, e_ls e) (q s) /\ info (judge cf k s) = remove k (info s)
  end.
Proof.
  intros s k e Hl Hk Hex. split; [apply judge_ct|]. unfold judge. rewrite Hl. unfold tick1, liveness_verdict.
  rewrite refresh_cached, Hk, Hex. unfold handle_nat. rewrite Hk, refresh_info.
  destruct (lookup k (info s)) as [iv|]; cbn [q info set_q set_info]; rewrite ?refresh_q, ?refresh_info; auto.
Qed.

(* a forward entry whose reverse entry exists, is idle past its timeout, and is recognised as present *)
Lemma judge_fwd : forall s k f r,
  lookup k (ct s) = Some f -> e_kind f = KFwd -> lookup (e_rev f) (ct s) = Some r ->
  expired tm (now_used s) (proto k) r = true ->
  (e_ls f <> e_ls r \/ cf_fix cf = true) ->
  ct (judge cf k s) = ct s /\
  match lookup (e_rev f) (info s) with
  | None => q (judge cf k s) = q s /\ info (judge cf k s) = set (e_rev f) (k, e_ls f, e_ls r) (info s)
  | Some _ => q (judge cf k s) = set k (e_rev f, e_ls f, e_ls r) (q s) /\ info (judge cf k s) = remove (e_rev f) (info s)
  end.
Proof.
  intros s k f r Hl Hk Hr Hex Hne. split; [apply judge_ct|]. unfold judge. rewrite Hl. unfold tick1, liveness_verdict.
  rewrite refresh_cached, refresh_ct, Hk, Hr, Hex. unfold handle_nat. rewrite Hk, refresh_ct, refresh_info, Hr.
  assert (Hc : Z.eqb (e_ls f) (e_ls r) && (negb (cf_fix cf) || false) = false).
  { destruct Hne as [H|H]; [apply Z.eqb_neq in H; rewrite H; reflexivity|rewrite H; simpl; apply andb_false_r]. }
  rewrite Hc. destruct (lookup (e_rev f) (info s)) as [iv|]; cbn [q info set_q set_info]; rewrite ?refresh_q, ?refresh_info; auto.
Qed.

(* pinned code, equal timestamps: the forward entry is queued on its own *)
Lemma judge_fwd_eq : forall s k f r,
  lookup k (ct s) = Some f -> e_kind f = KFwd -> lookup (e_rev f) (ct s) = Some r ->
  expired tm (now_used s) (proto k) r = true ->
  e_ls f = e_ls r -> cf_fix cf = false ->
  ct (judge cf k s) = ct s /\ q (judge cf k s) = set k (dummy, e_ls f, e_ls r) (q s) /\ info (judge cf k s) = info s.
Proof.
  intros s k f r Hl Hk Hr Hex He Hfx. split; [apply judge_ct|]. unfold judge. rewrite Hl. unfold tick1, liveness_verdict.
  rewrite refresh_cached, refresh_ct, Hk, Hr, Hex. unfold handle_nat. rewrite Hk, refresh_ct, Hr, Hfx, He, Z.eqb_refl.
  cbn [andb negb orb q info set_q]. rewrite refresh_q, refresh_info. auto.
Qed.

(* the scanner's time reading never goes back *)
Lemma now_used_judge : forall s k, cached s <= kclock s -> now_used s <= now_used (judge cf k s) /\ cached (judge cf k s) <= kclock (judge cf k s).
Proof.
  intros s k Hc. pose proof (now_used_le s Hc) as Hn. destruct (lookup k (ct s)) eqn:E.
  - unfold now_used at 2. rewrite (judge_cached _ _ _ _ E), (judge_kclock _ _ _ _ E).
    destruct (refresh_needed (judge cf k s)); lia.
  - unfold judge. rewrite E. lia.
Qed.

(* ---- what one cleaner callback does *)

Lemma clean_alone : forall s qk rk ts rts e,
  lookup qk (q s) = Some (rk, ts, rts) -> proto rk = 0%N -> lookup qk (ct s) = Some e -> e_ls e = ts ->
  ct (clean qk s) = remove qk (ct s).
Proof.
  intros s qk rk ts rts e Hq Hp Hl Hts. unfold clean. rewrite Hq, Hp. cbn [N.eqb ct set_q]. rewrite Hl, Hts, Z.eqb_refl. reflexivity.
Qed.

Lemma clean_pair : forall s qk rk ts rts f r,
  lookup qk (q s) = Some (rk, ts, rts) -> proto rk <> 0%N ->
  lookup qk (ct s) = Some f -> e_kind f = KFwd -> e_rev f = rk ->
  lookup rk (ct s) = Some r -> e_ls r = rts ->
  ct (clean qk s) = remove qk (remove rk (ct s)).
Proof.
  intros s qk rk ts rts f r Hq Hp Hl Hk Hrev Hr Hts. unfold clean. rewrite Hq.
  apply N.eqb_neq in Hp. rewrite Hp. cbn [ct set_q]. rewrite Hl, Hk, Hrev, key_eqb_refl, Hr, Hts, Z.eqb_refl. reflexivity.
Qed.

Lemma gone : forall {V} k (m : list (key * V)), lookup k (remove k m) = None.
Proof. intros. rewrite lookup_remove, key_eqb_refl. reflexivity. Qed.

(* ---- rounds *)

Theorem live_normal : forall s k e,
  lookup k (ct s) = Some e -> e_kind e = KNormal -> expired tm (now_used s) (proto k) e = true ->
  lookup k (ct (run cf s [Judge k; Clean k])) = None.
Proof.
  intros s k e Hl Hk Hex. cbn [run fold_left do_step].
  destruct (judge_normal s k e Hl Hk Hex) as (Hc & Hq & Hi).
  erewrite clean_alone with (e := e) (rk := dummy); [apply gone| | | |]; rewrite ?Hq, ?Hc, ?lookup_set, ?key_eqb_refl; auto.
Qed.

Theorem live_rev_alone : forall s k e,
  lookup k (ct s) = Some e -> e_kind e = KRev -> expired tm (now_used s) (proto k) e = true ->
  lookup k (info s) = None ->
  lookup k (ct (run cf s [Judge k; Drain k; Clean k])) = None.
Proof.
  intros s k e Hl Hk Hex Hi. cbn [run fold_left do_step].
  destruct (judge_rev s k e Hl Hk Hex) as (Hc & H). rewrite Hi in H. destruct H as (Hq & Hi').
  set (s1 := judge cf k s) in *.
  assert (Hd : ct (drain k s1) = ct s /\ lookup k (q (drain k s1)) = Some (dummy, e_ls e, 0)).
  { unfold drain. rewrite Hi', lookup_set, key_eqb_refl. cbn [qv_key qv_ts qv_rts fst snd]. rewrite key_eqb_refl.
    cbn [ct q set_q set_info]. rewrite lookup_set, key_eqb_refl. auto. }
  destruct Hd as (Hc2 & Hq2).
  erewrite clean_alone with (e := e); [apply gone|exact Hq2|reflexivity|rewrite Hc2; exact Hl|reflexivity].
Qed.

(* a NAT pair, forward entry visited first *)
Theorem live_pair_fwd_first : forall s kf kr f r,
  cached s <= kclock s ->
  lookup kf (ct s) = Some f -> e_kind f = KFwd -> e_rev f = kr ->
  lookup kr (ct s) = Some r -> e_kind r = KRev -> proto kr <> 0%N ->
  expired tm (now_used s) (proto kf) r = true -> expired tm (now_used s) (proto kr) r = true ->
  (e_ls f <> e_ls r \/ cf_fix cf = true) ->
  lookup kr (info s) = None ->
  let s' := run cf s [Judge kf; Judge kr; Clean kf] in
  lookup kf (ct s') = None /\ lookup kr (ct s') = None.
Proof.
  intros s kf kr f r Hcl Hf Hkf Hrev Hr Hkr Hp Hex1 Hex2 Hne Hi. cbn [run fold_left do_step].
  assert (Hr' : lookup (e_rev f) (ct s) = Some r) by (rewrite Hrev; auto).
  destruct (judge_fwd s kf f r Hf Hkf Hr' Hex1 Hne) as (Hc1 & H). rewrite Hrev, Hi in H. destruct H as (Hq1 & Hi1).
  set (s1 := judge cf kf s) in *.
  destruct (now_used_judge s kf Hcl) as (Hn1 & Hcl1). fold s1 in Hn1, Hcl1.
  assert (Hex2' : expired tm (now_used s1) (proto kr) r = true) by (eapply expired_mono; eauto).
  assert (Hr1 : lookup kr (ct s1) = Some r) by (rewrite Hc1; auto).
  destruct (judge_rev s1 kr r Hr1 Hkr Hex2') as (Hc2 & H). rewrite Hi1, lookup_set, key_eqb_refl in H.
  cbn [qv_key qv_ts fst snd] in H. destruct H as (Hq2 & _).
  set (s2 := judge cf kr s1) in *.
  assert (E : ct (clean kf s2) = remove kf (remove kr (ct s))).
  { rewrite <- Hc1, <- Hc2. eapply clean_pair with (f := f) (r := r); rewrite ?Hq2, ?Hc2, ?Hc1, ?lookup_set, ?key_eqb_refl; eauto. }
  rewrite E. split; [apply gone|]. rewrite lookup_remove. destruct (key_eqb kr kf); auto. apply gone.
Qed.

(* a NAT pair, reverse entry visited first *)
Theorem live_pair_rev_first : forall s kf kr f r,
  cached s <= kclock s ->
  lookup kf (ct s) = Some f -> e_kind f = KFwd -> e_rev f = kr ->
  lookup kr (ct s) = Some r -> e_kind r = KRev -> proto kr <> 0%N ->
  expired tm (now_used s) (proto kf) r = true -> expired tm (now_used s) (proto kr) r = true ->
  (e_ls f <> e_ls r \/ cf_fix cf = true) ->
  lookup kr (info s) = None ->
  let s' := run cf s [Judge kr; Judge kf; Clean kf] in
  lookup kf (ct s') = None /\ lookup kr (ct s') = None.
Proof.
  intros s kf kr f r Hcl Hf Hkf Hrev Hr Hkr Hp Hex1 Hex2 Hne Hi. cbn [run fold_left do_step].
  destruct (judge_rev s kr r Hr Hkr Hex2) as (Hc1 & H). rewrite Hi in H. destruct H as (Hq1 & Hi1).
  set (s1 := judge cf kr s) in *.
  destruct (now_used_judge s kr Hcl) as (Hn1 & Hcl1). fold s1 in Hn1, Hcl1.
  assert (Hex1' : expired tm (now_used s1) (proto kf) r = true) by (eapply expired_mono; eauto).
  assert (Hf1 : lookup kf (ct s1) = Some f) by (rewrite Hc1; auto).
  assert (Hr1 : lookup (e_rev f) (ct s1) = Some r) by (rewrite Hc1, Hrev; auto).
  destruct (judge_fwd s1 kf f r Hf1 Hkf Hr1 Hex1' Hne) as (Hc2 & H). rewrite Hrev, Hi1, lookup_set, key_eqb_refl in H.
  destruct H as (Hq2 & _).
  set (s2 := judge cf kf s1) in *.
  assert (E : ct (clean kf s2) = remove kf (remove kr (ct s))).
  { rewrite <- Hc1, <- Hc2. eapply clean_pair with (f := f) (r := r); rewrite ?Hq2, ?Hc2, ?Hc1, ?lookup_set, ?key_eqb_refl; eauto. }
  rewrite E. split; [apply gone|]. rewrite lookup_remove. destruct (key_eqb kr kf); auto. apply gone.
Qed.

End Liveness.
