(* C14 — proofs, part 1: the timeout table. *)
From Coq Require Import List NArith ZArith Bool Lia.
From Verif.C14 Require Import Model Spec.
Import ListNotations.
Open Scope Z_scope.

Lemma gtb_min : forall a x y, (a >? Z.min x y) = (a >? x) || (a >? y).
Proof.
  intros. rewrite !Z.gtb_ltb.
  destruct (Z.ltb_spec x a); destruct (Z.ltb_spec y a); destruct (Z.ltb_spec (Z.min x y) a); simpl; try reflexivity; lia.
Qed.

(* entryDone (not finishedOnly) says "done" exactly when the entry's idle time exceeds the smallest timeout that
   applies to its protocol and state *)
Lemma expired_iff_idle : forall t now p e,
  expired t now p e = idle_past_timeout t now p e.
Proof.
  intros. unfold expired, idle_past_timeout, spec_timeout, entry_done, applicable.
  set (age := now - e_ls e).
  destruct (N.eqb p 6).
  - destruct (rst_seen e); destruct ((e_dsr e && fins_seen_dsr e) || fins_seen e);
    destruct (established e || e_dsr e); destruct (rst_ts_set e); simpl;
    rewrite ?gtb_min;
    repeat match goal with |- context [?a >? ?b] => destruct (a >? b) eqn:? end; simpl; try reflexivity; try congruence.
  - destruct (N.eqb p 1 || N.eqb p 58); [|destruct (N.eqb p 17)]; simpl;
    rewrite ?gtb_min; match goal with |- context [?a >? ?b] => destruct (a >? b) end; reflexivity.
Qed.
