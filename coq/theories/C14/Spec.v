(* C14 — specification level.

   Property: a conntrack entry (or a NAT forward/reverse pair) is removed only if, when it was judged, it had been
   idle longer than the timeout for its protocol and state, and it has not carried traffic since; entries that
   stay idle past their timeout are eventually removed.

   This file states (1) the timeout table as a declarative "smallest applicable timeout", (2) the oracle that is
   evaluated on what the REAL userspace scanner wrote into the cleanup queue: every queue entry must be backed
   by a judgement the property allows (given what the kernel cleaner does with such an entry), and every entry
   that was idle past its timeout (with the one second of slack the cached kernel time may cost) must be queued. *)
From Coq Require Import List NArith ZArith Bool.
From Verif.C14 Require Import Model.
Import ListNotations.
Open Scope Z_scope.

(* ---------------------------------------------------------------- (1) timeout table *)

(* the timeouts that apply to an entry of protocol p in its current state *)
Definition applicable (t : timeouts) (p : N) (e : entry) : list Z :=
  if N.eqb p 6 then
    (if rst_seen e then [t_rst t] else []) ++
    (if (e_dsr e && fins_seen_dsr e) || fins_seen e then [t_fins t] else []) ++
    (if established e || e_dsr e
     then (if rst_ts_set e then [120 * sec] else []) ++ [t_est t]
     else [t_syn t])
  else if N.eqb p 1 || N.eqb p 58 then [t_icmp t]
  else if N.eqb p 17 then [t_udp t]
  else [t_gen t].

Fixpoint minl (d : Z) (l : list Z) : Z := match l with [] => d | x :: r => Z.min x (minl d r) end.
(* the applicable list is never empty; its last element serves as the default *)
Definition spec_timeout (t : timeouts) (p : N) (e : entry) : Z :=
  let l := applicable t p e in minl (last l 0) l.

Definition idle_past_timeout (t : timeouts) (now : Z) (p : N) (e : entry) : bool :=
  now - e_ls e >? spec_timeout t p e.

(* The table rule by rule (the "reason" entryDone reports).  A rule applies to a protocol/state; it fires when the idle
   time  now - last_seen  exceeds its timeout.
     1 TCP, RST seen on a leg                         TCPResetSeen
     2 TCP, FINs seen (both legs; one leg under DSR)  TCPFinsSeen
     3 TCP, established or DSR, a RST time recorded   fixed 120 s
     4 TCP, established or DSR                        TCPEstablished
     5 TCP, neither established nor DSR               TCPSynSent
     6 ICMP / ICMPv6                                  ICMPTimeout
     7 UDP                                            UDPTimeout
     8 any other protocol                             GenericTimeout *)
Definition rule_applies (p : N) (e : entry) (r : N) : bool :=
  let tcp := N.eqb p 6 in
  let icmp := N.eqb p 1 || N.eqb p 58 in
  let udp := N.eqb p 17 in
  match r with
  | 1%N => tcp && rst_seen e
  | 2%N => tcp && ((e_dsr e && fins_seen_dsr e) || fins_seen e)
  | 3%N => tcp && (established e || e_dsr e) && rst_ts_set e
  | 4%N => tcp && (established e || e_dsr e)
  | 5%N => tcp && negb (established e || e_dsr e)
  | 6%N => negb tcp && icmp
  | 7%N => negb tcp && negb icmp && udp
  | 8%N => negb tcp && negb icmp && negb udp
  | _ => false
  end.
Definition rule_timeout (t : timeouts) (r : N) : Z :=
  match r with
  | 1%N => t_rst t | 2%N => t_fins t | 3%N => 120 * sec | 4%N => t_est t | 5%N => t_syn t
  | 6%N => t_icmp t | 7%N => t_udp t | 8%N => t_gen t | _ => 0
  end.
Definition rules : list N := [1; 2; 3; 4; 5; 6; 7; 8]%N.
(* rule r fires; for EntryFinished the FINs-seen rule fires at once *)
Definition rule_fires (t : timeouts) (now : Z) (p : N) (e : entry) (fin : bool) (r : N) : bool :=
  rule_applies p e r && ((fin && N.eqb r 2) || (now - e_ls e >? rule_timeout t r)).
Definition spec_done (t : timeouts) (now : Z) (p : N) (e : entry) (fin : bool) : bool :=
  existsb (rule_fires t now p e fin) rules.
(* oracle for one observed answer of EntryExpired / EntryFinished: a reported reason must be a rule that fires;
   "not done" is only right if no rule fires *)
Definition ok_answer (t : timeouts) (now : Z) (p : N) (e : entry) (fin : bool) (o : option N) : bool :=
  match o with
  | Some r => rule_fires t now p e fin r
  | None => negb (spec_done t now p e fin)
  end.

Definition tm_nonneg (t : timeouts) : Prop :=
  0 <= t_syn t /\ 0 <= t_est t /\ 0 <= t_fins t /\ 0 <= t_rst t /\ 0 <= t_udp t /\ 0 <= t_gen t /\ 0 <= t_icmp t.

(* ---------------------------------------------------------------- (2) oracle on the queue written by userspace *)

(* environment = conntrack map and kernel clock; only dataplane steps and ticks change it *)
Definition env := (list (key * entry) * Z)%type.
Definition env_step (x : step) (en : env) : env :=
  match x with
  | Tick dk _ => (fst en, snd en + Z.of_N dk)
  | Packet k => (ct (packet k (mkS (fst en) [] [] (snd en) 0 0 0)), snd en)
  | DpSet k e => (set k (with_ls e (snd en)) (fst en), snd en)
  | DpDel k => (remove k (fst en), snd en)
  | _ => en
  end.

(* the environment seen by each iteration callback of one scan, and the environment at the end *)
Fixpoint judge_points (seg : list step) (en : env) : list (key * env) * env :=
  match seg with
  | [] => ([], en)
  | Judge k :: r =>
      (* a callback on a present key takes one clock unit (Model.tick1) *)
      let en1 := match lookup k (fst en) with Some _ => (fst en, snd en + 1) | None => en end in
      let (l, en') := judge_points r en1 in ((k, en) :: l, en')
  | x :: r => judge_points r (env_step x en)
  end.

Definition is_tracking (e : entry) : bool :=
  match e_kind e with KNormal | KRev => true | _ => false end.

(* A queue entry  qk -> (rk, ts, rts).
   rk.protocol = 0: the kernel deletes qk alone if its last_seen is still ts.  Allowed when, at a judgement of qk,
     qk held a tracking entry (normal / NAT reverse) with last_seen ts, idle past its timeout, or a NAT forward
     entry whose reverse entry did not exist.
   otherwise: the kernel deletes rk if its last_seen is still rts (and with it the forward entry qk).  Allowed when,
     at a judgement of qk or of rk, rk held an entry with last_seen rts that was idle past its timeout. *)
Definition sound_entry (t : timeouts) (pts : list (key * env)) (qe : key * qval) : bool :=
  let '(qk, (rk, ts, rts)) := qe in
  if N.eqb (proto rk) 0 then
    existsb (fun pt : key * env =>
      let '(k, (c, clk)) := pt in
      key_eqb k qk &&
      match lookup qk c with
      | Some e =>
          Z.eqb (e_ls e) ts &&
          (if is_tracking e then idle_past_timeout t clk (proto qk) e
           else match e_kind e with
                | KFwd => match lookup (e_rev e) c with None => true | Some _ => false end
                | _ => false
                end)
      | None => false
      end) pts
  else
    existsb (fun pt : key * env =>
      let '(k, (c, clk)) := pt in
      (key_eqb k qk || key_eqb k rk) &&
      match lookup rk c with
      | Some r => Z.eqb (e_ls r) rts && idle_past_timeout t clk (proto k) r
      | None => false
      end) pts.

(* is key kt (last_seen ls) covered by the queue, i.e. will the kernel cleaner look at it with that timestamp *)
Definition covered (qu : list (key * qval)) (kt : key) (ls : Z) : bool :=
  existsb (fun qe : key * qval =>
    let '(qk, (rk, ts, rts)) := qe in
    if N.eqb (proto rk) 0 then key_eqb qk kt && Z.eqb ts ls
    else key_eqb rk kt && Z.eqb rts ls) qu.

Definition sync_ticks (seg : list step) : bool :=
  forallb (fun x => match x with Tick dk dg => N.eqb dk dg | _ => true end) seg.

(* every entry that was visited by the scan, was not touched during the whole scan, and at its visit was idle
   past its timeout by more than the second the cached kernel time may lag, must be in the queue;
   likewise a forward entry whose reverse entry was missing when it was visited *)
Definition complete (t : timeouts) (c0 : list (key * entry)) (pts : list (key * env)) (cend : list (key * entry))
           (qu : list (key * qval)) : bool :=
  forallb (fun pt : key * env =>
    let '(k, (c, clk)) := pt in
    match lookup k c0, lookup k c, lookup k cend with
    | Some e0, Some e, Some e1 =>
        if negb (Z.eqb (e_ls e0) (e_ls e) && Z.eqb (e_ls e) (e_ls e1)) then true
        else if is_tracking e then
          negb (idle_past_timeout t (clk - sec) (proto k) e) || covered qu k (e_ls e)
        else match e_kind e with
             | KFwd => match lookup (e_rev e) c with
                       | None => covered qu k (e_ls e)
                       | Some _ => true
                       end
             | _ => true
             end
    | _, _, _ => true
    end) pts.

Fixpoint ok_segs (t : timeouts) (en : env) (synced : bool) (segs : list (list step)) (obs : list (list (key * qval))) : bool :=
  match segs, obs with
  | [], [] => true
  | seg :: segs', qu :: obs' =>
      let (pts, en') := judge_points seg en in
      let synced' := synced && sync_ticks seg in
      forallb (sound_entry t pts) qu
      && (negb synced' || complete t (fst en) pts (fst en') qu)
      && ok_segs t en' synced' segs' obs'
  | _, _ => false
  end.

(* ---------------------------------------------------------------- correspondence case *)

Record case := mkCase {
  c_tm : timeouts;
  c_fix : bool;                         (* which handleNATEntries the tree has (probed by the driver), see Model.handle_nat *)
  c_ct0 : list (key * entry);
  c_k0 : Z; c_g0 : Z;
  c_segs : list (list step);            (* per Scan(): ticks / dataplane steps / Judge k in the order they happened *)
  c_obs : list (list (key * qval)) }.   (* per Scan(): the cleanup queue found by the cleaner when it was run *)

Definition qval_eqb (a b : qval) : bool :=
  key_eqb (qv_key a) (qv_key b) && Z.eqb (qv_ts a) (qv_ts b) && Z.eqb (qv_rts a) (qv_rts b).
Definition qmap_eqb (a b : list (key * qval)) : bool :=
  Nat.eqb (length a) (length b) &&
  forallb (fun kv => match lookup (fst kv) b with Some v => qval_eqb (snd kv) v | None => false end) a.

(* the model's view of the same scans: run the steps, run the final loop, hand the queue to the cleaner
   (which, in the driver, only records it and empties it) *)
Fixpoint run_segs (t : conf) (s : state) (segs : list (list step)) : list (list (key * qval)) :=
  match segs with
  | [] => []
  | seg :: r => let s1 := drain_all t (run t s seg) in q s1 :: run_segs t (set_q s1 []) r
  end.

Fixpoint all2 {A B} (f : A -> B -> bool) (a : list A) (b : list B) : bool :=
  match a, b with [], [] => true | x :: a', y :: b' => f x y && all2 f a' b' | _, _ => false end.

Definition tm_eqb (a b : timeouts) : bool :=
  Z.eqb (t_syn a) (t_syn b) && Z.eqb (t_est a) (t_est b) && Z.eqb (t_fins a) (t_fins b) && Z.eqb (t_rst a) (t_rst b) &&
  Z.eqb (t_udp a) (t_udp b) && Z.eqb (t_gen a) (t_gen b) && Z.eqb (t_icmp a) (t_icmp b).
Definition tm_nonnegb (t : timeouts) : bool :=
  (0 <=? t_syn t) && (0 <=? t_est t) && (0 <=? t_fins t) && (0 <=? t_rst t) && (0 <=? t_udp t) && (0 <=? t_gen t) && (0 <=? t_icmp t).
Definition optN_eqb (a b : option N) : bool :=
  match a, b with Some x, Some y => N.eqb x y | None, None => true | _, _ => false end.

Definition check_case (c : case) : bool * bool :=
  (all2 qmap_eqb (run_segs (mkConf (c_tm c) (c_fix c)) (init (c_ct0 c) (c_k0 c) (c_g0 c)) (c_segs c)) (c_obs c),
   ok_segs (c_tm c) (c_ct0 c, c_k0 c) true (c_segs c) (c_obs c)).

(* the three kinds of correspondence case *)
Inductive anycase :=
| AScan (c : case)                                   (* scans of the real Scanner, see above *)
| ADone (t : timeouts) (now : Z) (p : N) (e : entry) (* direct calls: EntryExpired and EntryFinished, with the reasons *)
        (oe : option N) (ofin : option N)
| ACfg (cfg : list (N * option Z)) (got : timeouts). (* timeouts.GetTimeouts on a configuration map *)

(* a configuration is in the domain of the spec if each field is set at most once with a non-negative duration;
   then the table must carry exactly the configured values and the documented defaults elsewhere *)
Definition ok_cfg (cfg : list (N * option Z)) (got : timeouts) : bool :=
  let d := default_timeouts in
  let f (i : N) (g dv : Z) :=
    match filter (fun kv => N.eqb (fst kv) i) cfg with
    | [] => Z.eqb g dv
    | [(_, Some v)] => Z.eqb g v
    | [(_, None)] => Z.eqb g dv
    | _ => true
    end in
  f 0%N (t_syn got) (t_syn d) && f 1%N (t_est got) (t_est d) && f 2%N (t_fins got) (t_fins d) && f 3%N (t_rst got) (t_rst d) &&
  f 4%N (t_udp got) (t_udp d) && f 5%N (t_gen got) (t_gen d) && f 6%N (t_icmp got) (t_icmp d).

Definition check_any (a : anycase) : bool * bool :=
  match a with
  | AScan c => check_case c
  | ADone t now p e oe ofin =>
      (optN_eqb (entry_done t now p e false) oe && optN_eqb (entry_done t now p e true) ofin,
       ok_answer t now p e false oe && ok_answer t now p e true ofin)
  | ACfg cfg got => (tm_eqb (get_timeouts cfg) got, ok_cfg cfg got)
  end.
