(* C14 — the specification oracle accepts the model's own scans (completeness half): every entry that a scan visited,
   that nothing touched during the scan, and that was idle past its timeout by more than the second the cached kernel
   time may lag (or: every forward entry whose reverse entry was absent when visited) is covered by the queue the model
   hands to the cleaner. *)
From Coq Require Import List NArith ZArith Bool Lia.
From Verif.C14 Require Import Model Spec Proofs Safety Liveness FullScan MeetsSpec.
Import ListNotations.
Open Scope Z_scope.

(* ---------------------------------------------------------------- bookkeeping of queue keys and pairing records *)

Definition G (d : list key) (ql il : list (key * qval)) : Prop :=
  (forall qk v, lookup qk ql = Some v -> In qk d) /\
  (forall rk iv, lookup rk il = Some iv -> qv_key iv <> dummy ->
     In (qv_key iv) d /\ lookup (qv_key iv) ql = None /\ proto rk <> 0%N) /\
  (forall rk iv rk' iv', lookup rk il = Some iv -> lookup rk' il = Some iv' ->
     qv_key iv <> dummy -> qv_key iv' = qv_key iv -> rk' = rk) /\
  (forall rk iv, lookup rk il = Some iv -> qv_key iv = dummy -> In rk d /\ lookup rk ql = None) /\
  (forall rk iv rk' iv', lookup rk il = Some iv -> qv_key iv = dummy -> lookup rk' il = Some iv' ->
     qv_key iv' <> dummy -> qv_key iv' <> rk).

Lemma G_mono : forall d x ql il, G d ql il -> G (x :: d) ql il.
Proof.
  intros d x ql il (g1 & g2 & g2u & g3 & g4). split; [|split; [|split; [|split]]]; auto.
  - intros qk v H. right. eauto.
  - intros rk iv H Hn. destruct (g2 _ _ H Hn) as (A & B & C). split; [right; auto|auto].
  - intros rk iv H Hn. destruct (g3 _ _ H Hn). split; [right; auto|auto].
Qed.

Lemma G_qset : forall d x v ql il, G d ql il -> In x d ->
  (forall rk iv, lookup rk il = Some iv -> qv_key iv <> dummy -> qv_key iv <> x) ->
  (forall rk iv, lookup rk il = Some iv -> qv_key iv = dummy -> rk <> x) ->
  G d (set x v ql) il.
Proof.
  intros d x v ql il (g1 & g2 & g2u & g3 & g4) Hx H2 H3. split; [|split; [|split; [|split]]]; auto.
  - intros qk v' H. rewrite lookup_set in H. destruct (key_eqb qk x) eqn:E; [apply key_eqb_eq in E; subst; auto|eauto].
  - intros rk iv H Hn. destruct (g2 _ _ H Hn) as (A & B & C). split; auto. split; auto.
    rewrite lookup_set_ne; auto. eapply H2; eauto.
  - intros rk iv H Hn. destruct (g3 _ _ H Hn). split; auto. rewrite lookup_set_ne; auto. eapply H3; eauto.
Qed.

Lemma G_iremove : forall d x ql il, G d ql il -> G d ql (remove x il).
Proof.
  intros d x ql il (g1 & g2 & g2u & g3 & g4). split; [|split; [|split; [|split]]]; auto.
  - intros rk iv H. apply lookup_remove_some in H. eauto.
  - intros rk iv rk' iv' H H'. apply lookup_remove_some in H. apply lookup_remove_some in H'. eauto.
  - intros rk iv H. apply lookup_remove_some in H. eauto.
  - intros rk iv rk' iv' H Hn H'. apply lookup_remove_some in H. apply lookup_remove_some in H'. eauto.
Qed.

(* a visited key that is new to the bookkeeping gets a queue entry *)
Lemma G_fresh_q : forall d x v ql il, G d ql il -> ~ In x d -> G (x :: d) (set x v ql) il.
Proof.
  intros d x v ql il HG Hx. pose proof HG as (g1 & g2 & g2u & g3 & g4).
  apply G_qset; [apply G_mono; auto|left; auto| |].
  - intros rk iv H Hn E. destruct (g2 _ _ H Hn) as (A & _). congruence.
  - intros rk iv H Hn E. destruct (g3 _ _ H Hn) as (A & _). congruence.
Qed.

(* a pairing record is consumed: its forward key gets the queue entry *)
Lemma G_consume : forall d rk iv v ql il, G d ql il -> lookup rk il = Some iv -> qv_key iv <> dummy ->
  G d (set (qv_key iv) v ql) (remove rk il).
Proof.
  intros d rk iv v ql il HG Hl Hn. pose proof HG as (g1 & g2 & g2u & g3 & g4).
  destruct (g2 _ _ Hl Hn) as (A & B & C).
  apply G_qset; [apply G_iremove; auto|auto| |].
  - intros rk' iv' H Hn' E. rewrite lookup_remove in H. destruct (key_eqb rk' rk) eqn:E2; [discriminate|].
    apply key_eqb_neq in E2. apply E2. eapply (g2u rk iv rk' iv'); eauto.
  - intros rk' iv' H Hd E. apply lookup_remove_some in H. subst rk'. exact (g4 _ _ _ _ H Hd Hl Hn eq_refl).
Qed.

(* "visited, nothing paired yet" is recorded / drained; a forward entry is recorded *)
Lemma G_add_dummy : forall d x ts rts ql il, G d ql il -> ~ In x d -> lookup x il = None ->
  G (x :: d) ql (set x (dummy, ts, rts) il).
Proof.
  intros d x ts rts ql il (g1 & g2 & g2u & g3 & g4) Hx Hnone.
  assert (Hq : lookup x ql = None) by (destruct (lookup x ql) eqn:E; auto; exfalso; eauto).
  assert (L : forall rk iv, lookup rk (set x (dummy, ts, rts) il) = Some iv ->
            (rk = x /\ iv = (dummy, ts, rts)) \/ (rk <> x /\ lookup rk il = Some iv)).
  { intros rk iv H. rewrite lookup_set in H. destruct (key_eqb rk x) eqn:E.
    - apply key_eqb_eq in E. inversion H. auto.
    - apply key_eqb_neq in E. auto. }
  split; [|split; [|split; [|split]]].
  - intros qk v H. right. eauto.
  - intros rk iv H Hn. destruct (L _ _ H) as [[-> ->]|[_ H']]; [exfalso; apply Hn; reflexivity|].
    destruct (g2 _ _ H' Hn) as (A & B & C). split; [right; auto|auto].
  - intros rk iv rk' iv' H H' Hn E. destruct (L _ _ H) as [[-> ->]|[N1 H1]]; [exfalso; apply Hn; reflexivity|].
    destruct (L _ _ H') as [[-> ->]|[N2 H2]]; [exfalso; apply Hn; rewrite <- E; reflexivity|eauto].
  - intros rk iv H Hd. destruct (L _ _ H) as [[-> ->]|[_ H']]; [split; [left; auto|auto]|].
    destruct (g3 _ _ H' Hd). split; [right; auto|auto].
  - intros rk iv rk' iv' H Hd H' Hn. destruct (L _ _ H') as [[-> ->]|[N2 H2]]; [exfalso; apply Hn; reflexivity|].
    destruct (L _ _ H) as [[-> ->]|[N1 H1]]; [|eauto].
    destruct (g2 _ _ H2 Hn) as (A & _). intros E. apply Hx. congruence.
Qed.

Lemma G_add_store : forall d j rk ts rts ql il, G d ql il -> ~ In j d -> j <> dummy -> lookup rk il = None -> proto rk <> 0%N ->
  G (j :: d) ql (set rk (j, ts, rts) il).
Proof.
  intros d j rk ts rts ql il (g1 & g2 & g2u & g3 & g4) Hj Hjd Hnone Hp.
  assert (Hq : lookup j ql = None) by (destruct (lookup j ql) eqn:E; auto; exfalso; eauto).
  assert (L : forall rk0 iv, lookup rk0 (set rk (j, ts, rts) il) = Some iv ->
            (rk0 = rk /\ iv = (j, ts, rts)) \/ (rk0 <> rk /\ lookup rk0 il = Some iv)).
  { intros rk0 iv H. rewrite lookup_set in H. destruct (key_eqb rk0 rk) eqn:E.
    - apply key_eqb_eq in E. inversion H. auto.
    - apply key_eqb_neq in E. auto. }
  assert (Old : forall rk0 iv, lookup rk0 il = Some iv -> qv_key iv <> j).
  { intros rk0 iv H E. destruct (key_dec (qv_key iv) dummy) as [D|D]; [congruence|]. destruct (g2 _ _ H D) as (A & _). apply Hj. congruence. }
  split; [|split; [|split; [|split]]].
  - intros qk v H. right. eauto.
  - intros rk0 iv H Hn. destruct (L _ _ H) as [[-> ->]|[_ H']]; [cbn [qv_key fst]; split; [left; auto|auto]|].
    destruct (g2 _ _ H' Hn) as (A & B & C). split; [right; auto|auto].
  - intros rk0 iv rk' iv' H H' Hn E. destruct (L _ _ H) as [[-> ->]|[N1 H1]]; destruct (L _ _ H') as [[-> ->]|[N2 H2]]; auto.
    + exfalso. exact (Old _ _ H2 E).
    + exfalso. cbn [qv_key fst] in E. exact (Old _ _ H1 (eq_sym E)).
    + eauto.
  - intros rk0 iv H Hd. destruct (L _ _ H) as [[-> ->]|[_ H']]; [exfalso; cbn [qv_key fst] in Hd; congruence|].
    destruct (g3 _ _ H' Hd). split; [right; auto|auto].
  - intros rk0 iv rk' iv' H Hd H' Hn. destruct (L _ _ H) as [[-> ->]|[N1 H1]]; [exfalso; cbn [qv_key fst] in Hd; congruence|].
    destruct (L _ _ H') as [[-> ->]|[N2 H2]]; [|eauto].
    cbn [qv_key fst]. destruct (g3 _ _ H1 Hd) as (A & _). intros E. apply Hj. congruence.
Qed.

Lemma G_drain_dummy : forall d rk iv v ql il, G d ql il -> lookup rk il = Some iv -> qv_key iv = dummy ->
  G d (set rk v ql) (remove rk il).
Proof.
  intros d rk iv v ql il HG Hl Hd. pose proof HG as (g1 & g2 & g2u & g3 & g4). destruct (g3 _ _ Hl Hd) as (A & B).
  apply G_qset; [apply G_iremove; auto|auto| |].
  - intros rk' iv' H Hn. apply lookup_remove_some in H. eapply g4; eauto.
  - intros rk' iv' H _ E. subst rk'. rewrite lookup_remove, key_eqb_refl in H. discriminate.
Qed.

(* ---------------------------------------------------------------- the bookkeeping holds along every scan *)

Section C.
Variable cf : conf.
Notation tm := (cf_tm cf).

Lemma G_step : forall d s x,
  seg_or_drain x -> lookup dummy (ct s) = None -> WF (ct s) ->
  (forall j, x = Judge j -> ~ In j d) ->
  G d (q s) (info s) -> G (judged [x] ++ d) (q (do_step cf s x)) (info (do_step cf s x)).
Proof.
  intros d s x Hx Hd HW Hnd HG. destruct Hx as [Hx|[rk ->]].
  - destruct x; cbn [seg_step] in Hx; try contradiction; cbn [judged flat_map app do_step q info set_ct]; auto.
    + unfold packet. brk; cbn [q info set_ct]; auto.
    + specialize (Hnd k eq_refl). destruct (lookup k (ct s)) as [v|] eqn:Hv.
      2: { assert (E : judge cf k s = s) by (unfold judge; rewrite Hv; reflexivity). rewrite E. apply G_mono; auto. }
      assert (Hkd : k <> dummy) by (intros ->; congruence).
      pose proof (judge_spec cf s k v Hv) as HS. cbv zeta in HS.
      destruct (e_kind v) eqn:Hkind.
      * destruct (expired _ _ _ v); destruct HS as [E1 E2]; rewrite E1, E2; [apply G_fresh_q; auto|apply G_mono; auto].
      * destruct (lookup (e_rev v) (ct s)) as [r|] eqn:Hr.
        -- destruct (expired _ _ _ r); [|destruct HS as [E1 E2]; rewrite E1, E2; apply G_mono; auto].
           destruct (Z.eqb (e_ls v) (e_ls r) && negb (cf_fix cf)).
           { destruct HS as [E1 E2]; rewrite E1, E2. apply G_fresh_q; auto. }
           destruct (lookup (e_rev v) (info s)) as [iv0|] eqn:Hi; destruct HS as [E1 E2]; rewrite E1, E2.
           ++ apply G_fresh_q; auto. apply G_iremove; auto.
           ++ apply G_add_store; auto. eapply HW; eauto.
        -- destruct HS as [E1 E2]; rewrite E1, E2. apply G_fresh_q; auto.
      * destruct (expired _ _ _ v); [|destruct HS as [E1 E2]; rewrite E1, E2; apply G_mono; auto].
        destruct (lookup k (info s)) as [iv|] eqn:Hi; destruct HS as [E1 E2]; rewrite E1, E2.
        -- apply G_mono. destruct (key_dec (qv_key iv) dummy) as [D|D].
           ++ exfalso. destruct HG as (_ & _ & _ & g3 & _). destruct (g3 _ _ Hi D). contradiction.
           ++ apply G_consume; auto.
        -- apply G_add_dummy; auto.
      * destruct HS as [E1 E2]; rewrite E1, E2. apply G_mono; auto.
  - cbn [judged flat_map app do_step]. unfold drain. destruct (lookup rk (info s)) as [iv|] eqn:Hi; auto.
    destruct (key_eqb (qv_key iv) dummy) eqn:E; cbn [q info set_q set_info].
    + apply key_eqb_eq in E. eapply G_drain_dummy; eauto.
    + apply key_eqb_neq in E. apply G_consume; auto.
Qed.

Lemma G_perm : forall d d' ql il, (forall y, In y d -> In y d') -> G d ql il -> G d' ql il.
Proof.
  intros d d' ql il H (g1 & g2 & g2u & g3 & g4). split; [|split; [|split; [|split]]]; [| | exact g2u | | exact g4].
  - intros qk v Hl. eauto.
  - intros rk iv Hl Hn. destruct (g2 _ _ Hl Hn) as (A & B & C). auto.
  - intros rk iv Hl Hn. destruct (g3 _ _ Hl Hn). auto.
Qed.

Lemma G_all : forall s0 a, Start s0 -> Forall seg_or_drain a -> NoDup (judged a) ->
  G (judged a) (q (run cf s0 a)) (info (run cf s0 a)).
Proof.
  intros s0 a HS. pose proof HS as (S1 & S2 & S3 & S4 & S5 & S6). induction a as [|x a IH] using rev_ind; intros Ha Hnd.
  - rewrite run_nil, S1, S2. split; [|split; [|split; [|split]]]; intros; discriminate.
  - apply Forall_app in Ha as [Ha Hx]. inversion Hx; subst. rewrite judged_app in Hnd.
    pose proof (nodup_app_l _ _ Hnd) as Hnda. specialize (IH Ha Hnda). rewrite run_snoc.
    assert (Hwf : Forall wf_step a) by (eapply Forall_impl; [apply seg_or_drain_wf|exact Ha]).
    destruct (Inv_all cf s0 S1 S2 S3 S4 S5 a Hwf) as (_ & _ & Hd & _).
    destruct (KW_all cf s0 a HS Ha Hnda) as [_ HW].
    eapply G_perm; [|apply G_step; eauto].
    + intros y Hy. rewrite judged_app. apply in_app_or in Hy. apply in_or_app. tauto.
    + intros j ->. cbn [judged flat_map app] in Hnd. apply NoDup_remove_2 in Hnd. rewrite app_nil_r in Hnd. exact Hnd.
Qed.

(* ---- one visited entry *)
Variable k : key.
Variable e : entry.

Definition CovQ (ql : list (key * qval)) : Prop :=
  exists qk rk ts rts, lookup qk ql = Some (rk, ts, rts) /\
    ((proto rk = 0%N /\ qk = k /\ ts = e_ls e) \/ (proto rk <> 0%N /\ rk = k /\ rts = e_ls e)).
Definition PendC (s : state) : Prop :=
  CovQ (q s) \/ exists iv, lookup k (info s) = Some iv /\ qv_key iv = dummy /\ qv_ts iv = e_ls e.

Lemma covq_set : forall x v ql, CovQ ql -> lookup x ql = None -> CovQ (set x v ql).
Proof.
  intros x v ql (qk & rk & ts & rts & Hl & H) Hn. exists qk, rk, ts, rts. split; auto.
  rewrite lookup_set_ne; auto. intros ->. congruence.
Qed.

Lemma pend_step : forall d s x,
  seg_or_drain x -> lookup dummy (ct s) = None -> WF (ct s) ->
  (forall j, x = Judge j -> ~ In j d /\ j <> k) ->
  G d (q s) (info s) -> lookup k (ct s) = Some e ->
  PendC s -> PendC (do_step cf s x).
Proof.
  intros d s x Hx Hd HW Hnd HG Hk HP. pose proof HG as (g1 & g2 & g2u & g3 & g4).
  assert (Fresh : forall j, ~ In j d -> lookup j (q s) = None).
  { intros j Hj. destruct (lookup j (q s)) eqn:E; auto. exfalso. eauto. }
  destruct Hx as [Hx|[rk ->]].
  - destruct x; cbn [seg_step] in Hx; try contradiction; cbn [do_step]; unfold PendC; cbn [q info set_ct]; auto.
    + unfold packet. brk; cbn [q info set_ct]; auto.
    + destruct (Hnd k0 eq_refl) as [Hj Hjk]. rename k0 into j.
      destruct (lookup j (ct s)) as [v|] eqn:Hv.
      2: { assert (E : judge cf j s = s) by (unfold judge; rewrite Hv; reflexivity). rewrite E. exact HP. }
      pose proof (judge_spec cf s j v Hv) as HS. cbv zeta in HS.
      assert (Qj : forall y, q (judge cf j s) = set j y (q s) -> info (judge cf j s) = info s ->
                   CovQ (q (judge cf j s)) \/ exists iv, lookup k (info (judge cf j s)) = Some iv /\ qv_key iv = dummy /\ qv_ts iv = e_ls e).
      { intros y E1 E2. rewrite E1, E2. destruct HP as [H|H]; [left; apply covq_set; auto|right; auto]. }
      assert (Same : q (judge cf j s) = q s /\ info (judge cf j s) = info s ->
                   CovQ (q (judge cf j s)) \/ exists iv, lookup k (info (judge cf j s)) = Some iv /\ qv_key iv = dummy /\ qv_ts iv = e_ls e).
      { intros [E1 E2]. rewrite E1, E2. exact HP. }
      destruct (e_kind v) eqn:Hkind.
      * destruct (expired _ _ _ v); [destruct HS; eapply Qj; eauto|auto].
      * destruct (lookup (e_rev v) (ct s)) as [r|] eqn:Hr; [|destruct HS; eapply Qj; eauto].
        destruct (expired _ _ _ r); [|auto].
        destruct (Z.eqb (e_ls v) (e_ls r) && negb (cf_fix cf)); [destruct HS; eapply Qj; eauto|].
        destruct (lookup (e_rev v) (info s)) as [iv0|] eqn:Hi; destruct HS as [E1 E2]; rewrite E1, E2.
        -- destruct HP as [H|(iv & H1 & H2 & H3)]; [left; apply covq_set; auto|].
           destruct (key_dec (e_rev v) k) as [Hrk|Hrk].
           ++ left. exists j, (e_rev v), (e_ls v), (e_ls r). rewrite lookup_set_eq. split; auto. right.
              split; [eapply HW; eauto|]. split; auto. rewrite Hrk in Hr. congruence.
           ++ right. exists iv. rewrite lookup_remove_ne; auto.
        -- destruct HP as [H|(iv & H1 & H2 & H3)]; [left; auto|right]. exists iv. split; auto.
           rewrite lookup_set_ne; auto. intros E. rewrite <- E in Hi. congruence.
      * destruct (expired _ _ _ v); [|auto].
        destruct (lookup j (info s)) as [iv|] eqn:Hi; destruct HS as [E1 E2]; rewrite E1, E2.
        -- assert (D : qv_key iv <> dummy) by (intros D; destruct (g3 _ _ Hi D); contradiction).
           destruct (g2 _ _ Hi D) as (_ & B & _).
           destruct HP as [H|(iv' & H1 & H2 & H3)]; [left; apply covq_set; auto|right].
           exists iv'. rewrite lookup_remove_ne; auto.
        -- destruct HP as [H|(iv' & H1 & H2 & H3)]; [left; auto|right]. exists iv'. rewrite lookup_set_ne; auto.
      * auto.
  - cbn [do_step]. unfold drain. destruct (lookup rk (info s)) as [iv|] eqn:Hi; auto.
    unfold PendC. destruct (key_eqb (qv_key iv) dummy) eqn:E; cbn [q info set_q set_info].
    + apply key_eqb_eq in E. destruct (g3 _ _ Hi E) as (_ & B).
      destruct HP as [H|(iv' & H1 & H2 & H3)]; [left; apply covq_set; auto|].
      destruct (key_dec rk k) as [Hrk|Hrk].
      * left. subst rk. assert (iv' = iv) by congruence. subst iv'. exists k, (qv_key iv), (qv_ts iv), (qv_rts iv).
        rewrite lookup_set_eq. split; auto. left. rewrite E. auto.
      * right. exists iv'. rewrite lookup_remove_ne; auto.
    + apply key_eqb_neq in E. destruct (g2 _ _ Hi E) as (_ & B & _).
      destruct HP as [H|(iv' & H1 & H2 & H3)]; [left; apply covq_set; auto|right].
      exists iv'. rewrite lookup_remove_ne; auto. intros <-. congruence.
Qed.

(* the visit of k itself *)
Lemma pend_new : forall d s,
  lookup dummy (ct s) = None -> ~ In k d -> G d (q s) (info s) -> lookup k (ct s) = Some e ->
  ((is_tracking e = true /\ expired tm (now_used s) (proto k) e = true) \/
   (e_kind e = KFwd /\ lookup (e_rev e) (ct s) = None)) ->
  PendC (judge cf k s).
Proof.
  intros d s Hd Hkd (g1 & g2 & g2u & g3 & g4) Hk HV.
  pose proof (judge_spec cf s k e Hk) as HS. cbv zeta in HS. unfold PendC.
  assert (Self : forall rts, CovQ (set k (dummy, e_ls e, rts) (q s))).
  { intros rts. exists k, dummy, (e_ls e), rts. rewrite lookup_set_eq. split; auto. }
  destruct HV as [[Ht Hex]|[Hf Hr]].
  - unfold is_tracking in Ht. destruct (e_kind e) eqn:Hkind; try discriminate; rewrite Hex in HS.
    + destruct HS as [E1 E2]. rewrite E1. left. apply Self.
    + destruct (lookup k (info s)) as [iv|] eqn:Hi; destruct HS as [E1 E2]; rewrite E1, E2.
      * assert (D : qv_key iv <> dummy) by (intros D; destruct (g3 _ _ Hi D); contradiction).
        destruct (g2 _ _ Hi D) as (_ & _ & C). left. exists (qv_key iv), k, (qv_ts iv), (e_ls e). rewrite lookup_set_eq. split; auto.
      * right. exists (dummy, e_ls e, 0). rewrite lookup_set_eq. auto.
  - rewrite Hf, Hr in HS. destruct HS as [E1 E2]. rewrite E1. left. apply Self.
Qed.

(* the slot of k after its visit: untouched, or emptied / rewritten with a later timestamp - for good *)
Definition changed (s : state) : Prop :=
  match lookup k (ct s) with None => True | Some e' => e_ls e < e_ls e' end.

Lemma changed_step : forall s x, e_ls e < kclock s -> changed s -> changed (do_step cf s x).
Proof.
  intros s x Hlt Hc. unfold changed in *. destruct (step_ct cf s x k) as [E|[E|(e' & E & E2)]]; rewrite E; auto. rewrite E2. exact Hlt.
Qed.
Lemma changed_run : forall l s, e_ls e < kclock s -> changed s -> changed (run cf s l).
Proof.
  induction l as [|x l IH]; intros s Hlt Hc; [exact Hc|].
  change (run cf s (x :: l)) with (run cf (do_step cf s x) l). apply IH; [|apply changed_step; auto].
  pose proof (kclock_step cf s x). lia.
Qed.
Lemma status : forall l s, e_ls e < kclock s -> lookup k (ct s) = Some e ->
  unchanged cf s l k e \/ changed (run cf s l).
Proof.
  induction l as [|x l IH]; intros s Hlt Hk.
  - left. intros b1 b2 Hb. symmetry in Hb. apply app_eq_nil in Hb as [-> _]. exact Hk.
  - change (run cf s (x :: l)) with (run cf (do_step cf s x) l).
    assert (Hlt' : e_ls e < kclock (do_step cf s x)) by (pose proof (kclock_step cf s x); lia).
    destruct (step_ct cf s x k) as [E|[E|(e' & E & E2)]].
    + rewrite Hk in E. destruct (IH _ Hlt' E) as [H|H]; [left|right; auto].
      intros b1 b2 Hb. destruct b1 as [|y b1]; [exact Hk|]. injection Hb as Hxy Hl. subst y.
      change (run cf s (x :: b1)) with (run cf (do_step cf s x) b1). eapply H; eauto.
    + right. apply changed_run; auto. unfold changed. rewrite E. exact I.
    + right. apply changed_run; auto. unfold changed. rewrite E, E2. exact Hlt.
Qed.

Lemma lookup_in : forall {V} x (v : V) m, lookup x m = Some v -> In (x, v) m.
Proof.
  induction m as [|[k1 v1] m IH]; simpl; intros H; [discriminate|].
  destruct (key_eqb x k1) eqn:E; [apply key_eqb_eq in E; inversion H; subst; left; reflexivity|right; auto].
Qed.

Lemma point_complete : forall s a b e1,
  Start s -> Forall seg_step (a ++ Judge k :: b) -> NoDup (judged (a ++ Judge k :: b)) ->
  lookup k (ct (run cf s a)) = Some e ->
  ((is_tracking e = true /\ expired tm (now_used (run cf s a)) (proto k) e = true) \/
   (e_kind e = KFwd /\ lookup (e_rev e) (ct (run cf s a)) = None)) ->
  lookup k (ct (run cf s (a ++ Judge k :: b))) = Some e1 -> e_ls e1 = e_ls e ->
  covered (q (drain_all cf (run cf s (a ++ Judge k :: b)))) k (e_ls e) = true.
Proof.
  intros s a b e1 HS Hseg Hnd Hk HV Hend Hls. pose proof HS as (S1 & S2 & S3 & S4 & S5 & S6).
  set (seg := a ++ Judge k :: b) in *.
  set (dk := map fst (info (run cf s seg))).
  assert (Es1 : drain_all cf (run cf s seg) = run cf s (seg ++ map Drain dk)).
  { unfold drain_all, dk. rewrite run_app, map_map. reflexivity. }
  rewrite Es1. set (bs := b ++ map Drain dk).
  assert (Etr : seg ++ map Drain dk = a ++ Judge k :: bs) by (unfold seg, bs; rewrite <- app_assoc; reflexivity).
  rewrite Etr.
  assert (Htr : Forall seg_or_drain (a ++ Judge k :: bs)).
  { rewrite <- Etr. apply Forall_app. split; [eapply Forall_impl; [|exact Hseg]; intros; left; auto|].
    apply Forall_forall. intros x Hx. apply in_map_iff in Hx as (rk & <- & _). right. eauto. }
  assert (Hndt : NoDup (judged (a ++ Judge k :: bs))).
  { rewrite <- Etr, judged_app, judged_drains, app_nil_r. exact Hnd. }
  (* facts for every prefix of the history *)
  assert (Pref : forall p rest, a ++ Judge k :: bs = p ++ rest ->
            Forall seg_or_drain p /\ NoDup (judged p) /\ lookup dummy (ct (run cf s p)) = None /\
            WF (ct (run cf s p)) /\ G (judged p) (q (run cf s p)) (info (run cf s p)) /\
            (forall x ex, lookup x (ct (run cf s p)) = Some ex -> e_ls ex <= kclock (run cf s p))).
  { intros p rest E. rewrite E in Htr, Hndt. apply Forall_app in Htr as [Hp _]. rewrite judged_app in Hndt.
    pose proof (nodup_app_l _ _ Hndt) as Hnp. split; auto. split; auto.
    assert (Hwf : Forall wf_step p) by (eapply Forall_impl; [apply seg_or_drain_wf|exact Hp]).
    destruct (Inv_all cf s S1 S2 S3 S4 S5 p Hwf) as (_ & _ & Hd & _ & Hl).
    destruct (KW_all cf s p HS Hp Hnp) as [_ HW]. split; auto. split; auto. split; [apply G_all; auto|auto]. }
  destruct (Pref a (Judge k :: bs) eq_refl) as (Pa1 & Pa2 & Pa3 & Pa4 & Pa5 & Pa6).
  set (sj := run cf s a) in *. set (S0 := do_step cf sj (Judge k)).
  assert (Hlt : e_ls e < kclock S0).
  { unfold S0. cbn [do_step]. erewrite judge_kclock by eauto. specialize (Pa6 _ _ Hk). lia. }
  assert (Hk0 : lookup k (ct S0) = Some e) by (unfold S0; cbn [do_step]; rewrite judge_ct; auto).
  assert (Erun : forall l, run cf s (a ++ Judge k :: l) = run cf S0 l).
  { intros l. rewrite run_app. reflexivity. }
  assert (Hkin : ~ In k (judged a)).
  { rewrite judged_app in Hndt. cbn [judged flat_map app] in Hndt. apply NoDup_remove_2 in Hndt. intros H. apply Hndt. apply in_or_app; auto. }
  (* untouched until the end *)
  assert (Hun : unchanged cf S0 bs k e).
  { destruct (status bs S0 Hlt Hk0) as [H|H]; auto. exfalso. unfold changed in H. rewrite <- Erun, <- Etr in H.
    rewrite run_app in H. destruct (drains_frame cf dk (run cf s seg) k) as (_ & B & _). rewrite B, Hend in H. lia. }
  (* the cover, step by step *)
  assert (HP : forall b1 b2, bs = b1 ++ b2 -> PendC (run cf S0 b1)).
  { induction b1 as [|x b1 IH] using rev_ind; intros b2 Hb.
    - rewrite run_nil. unfold S0. cbn [do_step]. eapply pend_new; eauto.
    - rewrite <- app_assoc in Hb. cbn [app] in Hb. specialize (IH _ Hb). rewrite run_snoc.
      assert (Ep : a ++ Judge k :: bs = (a ++ Judge k :: b1) ++ x :: b2) by (rewrite Hb, <- app_assoc; reflexivity).
      destruct (Pref _ _ Ep) as (P1 & P2 & P3 & P4 & P5 & _). rewrite Erun in P3, P4, P5.
      assert (Ep2 : a ++ Judge k :: bs = ((a ++ Judge k :: b1) ++ [x]) ++ b2) by (rewrite Ep; rewrite <- (app_assoc (a ++ Judge k :: b1) [x] b2); reflexivity).
      destruct (Pref _ _ Ep2) as (Q1 & Q2 & _).
      apply Forall_app in Q1 as [_ Q1]. inversion Q1; subst.
      eapply pend_step; eauto.
      intros j ->. rewrite judged_app in Q2. cbn [judged flat_map app] in Q2. apply NoDup_remove_2 in Q2. rewrite app_nil_r in Q2.
      split; auto. intros ->. apply Q2. rewrite judged_app. apply in_or_app. right. left. reflexivity. }
  specialize (HP bs [] (eq_sym (app_nil_r bs))). rewrite <- Erun in HP.
  assert (Einfo : forall x, lookup x (info (run cf s (a ++ Judge k :: bs))) = None).
  { intros x. rewrite <- Etr, run_app. destruct (drains_frame cf dk (run cf s seg) x) as (A & _). rewrite A.
    destruct (existsb (key_eqb x) dk) eqn:E; auto. destruct (lookup x (info (run cf s seg))) eqn:E2; auto.
    exfalso. apply (existsb_in _ _ E). apply lookup_in_keys. congruence. }
  destruct HP as [(qk & rk & ts & rts & Hl & Hcase)|(iv & H1 & _)]; [|rewrite Einfo in H1; discriminate].
  unfold covered. apply existsb_exists. exists (qk, (rk, ts, rts)). split; [apply lookup_in; auto|].
  cbv beta iota. destruct Hcase as [(P1 & P2 & P3)|(P1 & P2 & P3)].
  - rewrite P1, P2, P3. cbn [N.eqb]. rewrite key_eqb_refl, Z.eqb_refl. reflexivity.
  - apply N.eqb_neq in P1. rewrite P1, P2, P3, key_eqb_refl, Z.eqb_refl. reflexivity.
Qed.
End C.

(* ---------------------------------------------------------------- the cached kernel time lags by at most a second *)

Definition SyncInv (s : state) : Prop := cached s = 0 \/ kclock s - cached s <= gclock s - lastgo s.

Lemma now_used_sync : forall s, SyncInv s -> kclock s - sec <= now_used s.
Proof.
  intros s H. unfold now_used, refresh_needed. destruct (Z.eqb (cached s) 0) eqn:E0; cbn [orb]; [unfold sec; lia|].
  destruct (gclock s - lastgo s >? sec) eqn:E1; [unfold sec; lia|].
  apply Z.eqb_neq in E0. rewrite Z.gtb_ltb in E1. apply Z.ltb_ge in E1. destruct H; lia.
Qed.

Lemma judge_times : forall cf j s v, lookup j (ct s) = Some v ->
  kclock (judge cf j s) = kclock s + 1 /\ gclock (judge cf j s) = gclock s + 1 /\
  cached (judge cf j s) = (if refresh_needed s then kclock s else cached s) /\
  lastgo (judge cf j s) = (if refresh_needed s then gclock s else lastgo s).
Proof.
  intros cf j s v H. unfold judge. rewrite H. unfold tick1. cbn [kclock gclock cached lastgo].
  assert (R : kclock (refresh s) = kclock s /\ gclock (refresh s) = gclock s /\
              cached (refresh s) = (if refresh_needed s then kclock s else cached s) /\
              lastgo (refresh s) = (if refresh_needed s then gclock s else lastgo s)).
  { unfold refresh. destruct (refresh_needed s); cbn; auto. }
  destruct R as (R1 & R2 & R3 & R4).
  destruct (liveness_verdict _ _ _ _ _); [destruct (e_kind v)|]; unfold handle_nat;
    repeat match goal with
           | |- context [if ?c then _ else _] => lazymatch c with refresh_needed _ => fail | _ => destruct c end
           | |- context [match ?y with _ => _ end] => lazymatch y with refresh_needed _ => fail | _ => destruct y end
           end; cbn [kclock gclock cached lastgo set_q set_info]; rewrite ?R1, ?R2, ?R3, ?R4; auto.
Qed.

Definition tick_synced (x : step) : bool := match x with Tick dk dg => N.eqb dk dg | _ => true end.

Lemma sync_step : forall cf s x, seg_or_drain x -> tick_synced x = true -> SyncInv s -> SyncInv (do_step cf s x).
Proof.
  intros cf s x Hx Hs H. destruct Hx as [Hx|[rk ->]].
  - destruct x; cbn [seg_step] in Hx; try contradiction; cbn [do_step]; unfold SyncInv in *; cbn [cached kclock gclock lastgo set_ct]; auto.
    + cbn [tick_synced] in Hs. apply N.eqb_eq in Hs. subst. destruct H; [left; auto|right; lia].
    + unfold packet. brk; cbn [cached kclock gclock lastgo set_ct]; auto.
    + destruct (lookup k (ct s)) as [v|] eqn:Hv; [|unfold judge; rewrite Hv; auto].
      destruct (judge_times cf k s v Hv) as (A & B & C & D). rewrite A, B, C, D.
      destruct (refresh_needed s) eqn:E; [right; lia|].
      unfold refresh_needed in E. apply orb_false_iff in E as [E _]. apply Z.eqb_neq in E. destruct H; [contradiction|right; lia].
  - cbn [do_step]. unfold drain, SyncInv in *. brk; cbn [cached kclock gclock lastgo set_q set_info]; auto.
Qed.

Lemma sync_run : forall cf a s, Forall seg_or_drain a -> forallb tick_synced a = true -> SyncInv s -> SyncInv (run cf s a).
Proof.
  induction a as [|x a IH]; intros s Ha Hs H; [exact H|]. inversion Ha; subst. cbn [forallb] in Hs. apply andb_true_iff in Hs as [Hs1 Hs2].
  change (run cf s (x :: a)) with (run cf (do_step cf s x) a). apply IH; auto. apply sync_step; auto.
Qed.

Lemma sync_ticks_eq : forall seg, sync_ticks seg = forallb tick_synced seg.
Proof. induction seg as [|x seg IH]; [reflexivity|]. unfold sync_ticks in *. cbn [forallb]. rewrite IH. destruct x; reflexivity. Qed.

(* every point of Spec.judge_points is a visit of the run *)
Lemma judge_points_inv : forall cf seg s pt, Forall seg_step seg ->
  In pt (fst (judge_points seg (ct s, kclock s))) ->
  exists a b, seg = a ++ Judge (fst pt) :: b /\ snd pt = (ct (run cf s a), kclock (run cf s a)).
Proof.
  induction seg as [|x seg IH]; intros s pt Hs Hin; [contradiction|]. inversion Hs; subst.
  pose proof (env_sim cf s x H1) as E.
  assert (Rec : In pt (fst (judge_points seg (ct (do_step cf s x), kclock (do_step cf s x)))) ->
          exists a b, x :: seg = a ++ Judge (fst pt) :: b /\ snd pt = (ct (run cf s a), kclock (run cf s a))).
  { intros H. destruct (IH _ _ H2 H) as (a & b & -> & Hp). exists (x :: a), b. split; auto. }
  destruct x; cbn [seg_step] in H1; try contradiction; cbn [judge_points] in Hin; try (rewrite E in Hin; auto; fail).
  cbn [fst snd] in Hin. revert E Hin. destruct (lookup k (ct s)); intros E Hin; rewrite E in Hin;
    destruct (judge_points seg _) as [l en'] eqn:Ejp; cbn [fst] in Hin, Rec; (destruct Hin as [<-|Hin]; [exists [], seg; auto|auto]).
Qed.

Section SegC.
Variable cf : conf.
Hypothesis Hfix : cf_fix cf = true.

Lemma seg_complete : forall s seg, Start s -> Forall seg_step seg -> NoDup (judged seg) ->
  SyncInv s -> sync_ticks seg = true ->
  complete (cf_tm cf) (ct s) (fst (judge_points seg (ct s, kclock s))) (ct (run cf s seg)) (q (drain_all cf (run cf s seg))) = true.
Proof.
  intros s seg HS Hseg Hnd Hsy Hst. unfold complete. apply forallb_forall. intros [k [c clk]] Hin.
  destruct (judge_points_inv cf seg s _ Hseg Hin) as (a & b & Eseg & Ept). cbn [fst snd] in Eseg, Ept. inversion Ept; subst c clk.
  destruct (lookup k (ct s)) as [e0|]; auto.
  destruct (lookup k (ct (run cf s a))) as [e|] eqn:Hk; auto.
  destruct (lookup k (ct (run cf s seg))) as [e1|] eqn:Hend; auto.
  destruct (Z.eqb (e_ls e0) (e_ls e) && Z.eqb (e_ls e) (e_ls e1)) eqn:Els; cbn [negb]; auto.
  apply andb_true_iff in Els as [_ Els]. apply Z.eqb_eq in Els.
  assert (Hsj : SyncInv (run cf s a)).
  { apply sync_run; auto.
    - rewrite Eseg in Hseg. apply Forall_app in Hseg as [Ha _]. eapply Forall_impl; [|exact Ha]. intros; left; auto.
    - rewrite sync_ticks_eq, Eseg, forallb_app in Hst. apply andb_true_iff in Hst. tauto. }
  rewrite Eseg in Hseg, Hnd, Hend.
  destruct (is_tracking e) eqn:Htr.
  - destruct (idle_past_timeout (cf_tm cf) (kclock (run cf s a) - sec) (proto k) e) eqn:Hidle; cbn [negb orb]; auto.
    rewrite Eseg. eapply point_complete; eauto. left. split; auto.
    rewrite <- expired_iff_idle in Hidle. eapply expired_mono; [|exact Hidle]. apply now_used_sync; auto.
  - destruct (e_kind e) eqn:Hkind; auto. destruct (lookup (e_rev e) (ct (run cf s a))) eqn:Hr; auto.
    rewrite Eseg. eapply point_complete; eauto.
Qed.
End SegC.

Theorem model_meets_spec_complete : forall t segs s sy,
  Start s -> (sy = true -> SyncInv s) ->
  Forall (fun seg => Forall seg_step seg /\ NoDup (judged seg)) segs ->
  complete_segs t (ct s, kclock s) sy segs (run_segs (mkConf t true) s segs) = true.
Proof.
  intros t. induction segs as [|seg segs IH]; intros s sy HS Hsy Hsegs; [reflexivity|].
  inversion Hsegs as [|? ? [H1 H2] H3]; subst. cbn [run_segs complete_segs].
  destruct (seg_sound (mkConf t true) eq_refl s seg HS H1 H2) as (_ & B & C). cbv zeta in B, C.
  pose proof (seg_complete (mkConf t true) s seg HS H1 H2) as HC. cbn [cf_tm] in HC.
  destruct (judge_points seg (ct s, kclock s)) as [pts en'] eqn:Ejp. cbn [fst snd] in C, HC |- *. subst en'.
  set (s1 := drain_all (mkConf t true) (run (mkConf t true) s seg)) in *.
  assert (Ect : ct s1 = ct (run (mkConf t true) s seg)).
  { unfold s1, drain_all.
    destruct (drains_frame (mkConf t true) (map fst (info (run (mkConf t true) s seg))) (run (mkConf t true) s seg) dummy) as (_ & Bc & _).
    rewrite map_map in Bc. exact Bc. }
  apply andb_true_iff. split.
  - destruct (sy && sync_ticks seg) eqn:E; cbn [negb orb]; auto. apply andb_true_iff in E as [-> E2].
    rewrite Ect. apply HC; auto.
  - change (ct s1, kclock s1) with (ct (set_q s1 []), kclock (set_q s1 [])). apply IH; auto.
    intros E. apply andb_true_iff in E as [-> E2]. specialize (Hsy eq_refl).
    assert (Hs1 : SyncInv s1).
    { unfold s1, drain_all. rewrite <- run_app. apply sync_run; auto.
      - apply Forall_app. split; [eapply Forall_impl; [|exact H1]; intros; left; auto|].
        apply Forall_forall. intros x Hx. apply in_map_iff in Hx as (kv & <- & _). right. eauto.
      - rewrite forallb_app, <- sync_ticks_eq, E2. cbn [andb]. apply forallb_forall. intros x Hx. apply in_map_iff in Hx as (kv & <- & _). reflexivity. }
    exact Hs1.
Qed.

(* ---------------------------------------------------------------- both halves *)

Theorem model_meets_spec : forall t ct0 k0 g0 segs,
  0 <= k0 -> lookup dummy ct0 = None -> (forall k e, lookup k ct0 = Some e -> e_ls e <= k0) -> WF ct0 ->
  Forall (fun seg => Forall seg_step seg /\ NoDup (judged seg)) segs ->
  ok_segs t (ct0, k0) true segs (run_segs (mkConf t true) (init ct0 k0 g0) segs) = true.
Proof.
  intros t ct0 k0 g0 segs H0 Hd Hl HW Hsegs. rewrite ok_segs_halves.
  assert (HS : Start (init ct0 k0 g0)).
  { unfold Start, init. cbn [q info ct cached kclock]. repeat split; auto. }
  apply andb_true_iff. split.
  - apply (model_meets_spec_sound t segs (init ct0 k0 g0) HS Hsegs).
  - apply (model_meets_spec_complete t segs (init ct0 k0 g0) true HS); auto. intros _. left. reflexivity.
Qed.
