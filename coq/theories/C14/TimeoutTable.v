(* C14 — the per-state timeout table: entryDone (EntryExpired / EntryFinished) rule by rule, and GetTimeouts. *)
From Coq Require Import List NArith ZArith Bool Lia.
From Verif.C14 Require Import Model Spec Proofs.
Import ListNotations.
Open Scope Z_scope.

(* whatever entryDone answers is what the rule table of Spec.v allows: a reported reason is a rule that applies to the
   entry's protocol and state and whose timeout the idle time exceeds (FINs seen fires at once for EntryFinished);
   "not done" is answered only when no rule fires *)
Lemma entry_done_ok : forall t now p e fin, ok_answer t now p e fin (entry_done t now p e fin) = true.
Proof.
  intros. unfold ok_answer, entry_done.
  remember (now - e_ls e) as age eqn:Eage.
  remember (N.eqb p 6) as p1 eqn:P1. destruct p1.
  - remember (rst_seen e) as a1 eqn:A1; remember ((e_dsr e && fins_seen_dsr e) || fins_seen e) as a2 eqn:A2;
    remember (established e || e_dsr e) as a3 eqn:A3; remember (rst_ts_set e) as a4 eqn:A4;
    remember (age >? t_rst t) as c1 eqn:C1; remember (age >? t_fins t) as c2 eqn:C2; remember (age >? 120 * sec) as c3 eqn:C3;
    remember (age >? t_est t) as c4 eqn:C4; remember (age >? t_syn t) as c5 eqn:C5.
    Local Ltac fin_tac Eage P1 A1 A2 A3 A4 C1 C2 C3 C4 C5 :=
      cbn [andb orb]; unfold spec_done, rules, existsb, rule_fires, rule_applies, rule_timeout; cbn [N.eqb Pos.eqb];
      rewrite <- ?Eage, <- ?P1, <- ?A1, <- ?A2, <- ?A3, <- ?A4, <- ?C1, <- ?C2, <- ?C3, <- ?C4, <- ?C5; reflexivity.
    destruct a1, c1; try solve [fin_tac Eage P1 A1 A2 A3 A4 C1 C2 C3 C4 C5];
    destruct a2, fin, c2; try solve [fin_tac Eage P1 A1 A2 A3 A4 C1 C2 C3 C4 C5];
    (destruct a3; [destruct a4, c3; try solve [fin_tac Eage P1 A1 A2 A3 A4 C1 C2 C3 C4 C5];
                   destruct c4; solve [fin_tac Eage P1 A1 A2 A3 A4 C1 C2 C3 C4 C5]
                  |destruct c5; solve [fin_tac Eage P1 A1 A2 A3 A4 C1 C2 C3 C4 C5]]).
  - remember (N.eqb p 1 || N.eqb p 58) as p2 eqn:P2; remember (N.eqb p 17) as p3 eqn:P3;
    remember (age >? t_icmp t) as c6 eqn:C6; remember (age >? t_udp t) as c7 eqn:C7; remember (age >? t_gen t) as c8 eqn:C8.
    destruct p2, p3, fin, c6, c7, c8; cbn [andb orb];
      unfold spec_done, rules, existsb, rule_fires, rule_applies, rule_timeout; cbn [N.eqb Pos.eqb];
      rewrite <- ?Eage, <- ?P1, <- ?P2, <- ?P3, <- ?C6, <- ?C7, <- ?C8; reflexivity.
Qed.

Lemma done_iff_spec : forall t now p e fin,
  match entry_done t now p e fin with Some _ => true | None => false end = spec_done t now p e fin.
Proof.
  intros. pose proof (entry_done_ok t now p e fin) as H. unfold ok_answer in H.
  destruct (entry_done t now p e fin) as [r|].
  - symmetry. unfold spec_done. apply existsb_exists. exists r. split; auto.
    unfold rule_fires, rule_applies in H. unfold rules.
    destruct r as [|r]; [discriminate|]. repeat (destruct r as [r|r|]; try discriminate); simpl; auto 10.
  - apply negb_true_iff in H. auto.
Qed.

(* "an entry is judged expired only if its idle time now - last_seen exceeds the timeout of its state", state by state *)
Lemma expired_only_if_idle : forall t now p e,
  expired t now p e = true ->
  exists r, entry_done t now p e false = Some r /\ rule_applies p e r = true /\ now - e_ls e > rule_timeout t r.
Proof.
  intros t now p e H. unfold expired in H. pose proof (entry_done_ok t now p e false) as Hok.
  destruct (entry_done t now p e false) as [r|]; [|discriminate]. exists r. split; auto.
  unfold ok_answer, rule_fires in Hok. apply andb_true_iff in Hok as [A B]. split; auto.
  cbn [andb orb] in B. apply Z.gtb_lt in B. lia.
Qed.

Lemma idle_past_a_rule_expires : forall t now p e r,
  rule_applies p e r = true -> now - e_ls e > rule_timeout t r -> expired t now p e = true.
Proof.
  intros t now p e r Ha Hi. unfold expired. rewrite (done_iff_spec t now p e false). unfold spec_done.
  apply existsb_exists. exists r. split.
  - unfold rule_applies in Ha. unfold rules. destruct r as [|r]; [discriminate|].
    repeat (destruct r as [r|r|]; try discriminate); simpl; auto 10.
  - unfold rule_fires. rewrite Ha. cbn [andb orb]. apply Z.gtb_lt. lia.
Qed.

(* the verdict depends on the idle time only: shifting the clock and last_seen together changes nothing, and the VALUE
   of the recorded RST time never matters (only whether there is one) *)
Lemma expired_shift : forall t now p e d fin,
  entry_done t (now + d) p (with_ls e (e_ls e + d)) fin = entry_done t now p e fin.
Proof.
  intros. unfold entry_done. cbn [e_ls with_ls].
  replace (now + d - (e_ls e + d)) with (now - e_ls e) by lia. reflexivity.
Qed.

Definition with_rstts (e : entry) (z : Z) : entry := mkE (e_kind e) (e_ls e) (e_rev e) (e_dsr e) z (e_a e) (e_b e).
Lemma expired_rst_time_irrelevant : forall t now p e z z' fin,
  z <> 0 -> z' <> 0 -> entry_done t now p (with_rstts e z) fin = entry_done t now p (with_rstts e z') fin.
Proof.
  intros t now p e z z' fin Hz Hz'. unfold entry_done, rst_ts_set. cbn [e_ls e_rstts with_rstts e_dsr e_a e_b].
  apply Z.eqb_neq in Hz. apply Z.eqb_neq in Hz'.
  unfold rst_seen, fins_seen, fins_seen_dsr, established. cbn [e_a e_b e_dsr with_rstts]. rewrite Hz, Hz'. reflexivity.
Qed.

(* EntryFinished: everything that is expired is finished; a TCP entry in a FINs-seen state is finished at once *)
Lemma expired_implies_finished : forall t now p e, expired t now p e = true -> finished t now p e = true.
Proof.
  intros t now p e H. unfold expired, finished in *. rewrite done_iff_spec in *. unfold spec_done in *.
  apply existsb_exists in H as (r & Hin & Hf). apply existsb_exists. exists r. split; auto.
  unfold rule_fires in *. apply andb_true_iff in Hf as [A B]. rewrite A. cbn [andb orb] in *. rewrite B. apply orb_true_r.
Qed.
Lemma finished_iff : forall t now p e,
  finished t now p e = expired t now p e || rule_applies p e 2%N.
Proof.
  intros. unfold finished, expired. rewrite !done_iff_spec. unfold spec_done, rules, existsb, rule_fires.
  cbn [N.eqb Pos.eqb andb orb].
  destruct (rule_applies p e 2%N); destruct (now - e_ls e >? rule_timeout t 2%N); cbn [andb orb];
  repeat match goal with |- context [rule_applies p e ?r && ?c] => generalize (rule_applies p e r && c); intro end;
  repeat match goal with b : bool |- _ => destruct b end; reflexivity.
Qed.

(* ---------------------------------------------------------------- GetTimeouts *)

Lemma default_nonneg : tm_nonneg default_timeouts.
Proof. unfold tm_nonneg, default_timeouts, sec. simpl. lia. Qed.

Lemma get_timeouts_empty : get_timeouts [] = default_timeouts.
Proof. reflexivity. Qed.

Lemma cfg_lookup_filter : forall f cfg, cfg_lookup f cfg = cfg_lookup f (filter (fun kv => N.eqb (fst kv) f) cfg).
Proof.
  induction cfg as [|[f' v] cfg IH]; simpl; auto. rewrite (N.eqb_sym f' f).
  destruct (N.eqb f f') eqn:E; simpl; [rewrite E|]; rewrite IH; reflexivity.
Qed.

Lemma get_timeouts_ok : forall cfg, ok_cfg cfg (get_timeouts cfg) = true.
Proof.
  intros. unfold ok_cfg, get_timeouts. cbn [t_syn t_est t_fins t_rst t_udp t_gen t_icmp].
  assert (F : forall i dv,
    match filter (fun kv => N.eqb (fst kv) i) cfg with
    | [] => Z.eqb (cfg_field cfg i dv) dv
    | [(_, Some v)] => Z.eqb (cfg_field cfg i dv) v
    | [(_, None)] => Z.eqb (cfg_field cfg i dv) dv
    | _ => true
    end = true).
  { intros i dv. unfold cfg_field. rewrite (cfg_lookup_filter i cfg).
    destruct (filter (fun kv => N.eqb (fst kv) i) cfg) as [|[f1 [v1|]] [|x l]] eqn:E; simpl; auto; try apply Z.eqb_refl.
    - assert (Hin : In (f1, Some v1) (filter (fun kv => N.eqb (fst kv) i) cfg)) by (rewrite E; left; auto).
      apply filter_In in Hin as [_ Hf]. simpl in Hf. rewrite N.eqb_sym, Hf. apply Z.eqb_refl.
    - assert (Hin : In (f1, @None Z) (filter (fun kv => N.eqb (fst kv) i) cfg)) by (rewrite E; left; auto).
      apply filter_In in Hin as [_ Hf]. simpl in Hf. rewrite N.eqb_sym, Hf. apply Z.eqb_refl. }
  rewrite !F. reflexivity.
Qed.
