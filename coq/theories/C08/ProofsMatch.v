(* C08 — the boolean meaning of the rendered matches: block alternatives and the main rule's match list,
   and the proof that (all blocks pass) && (main match) is exactly PolicyRef.rule_matches. *)
From Coq Require Import List NArith Bool Arith Lia Btauto.
From Verif.Common Require Import Packet PolicyRef Ipt.
From Verif.C08 Require Import Model Spec ProofsSplit ProofsMark ProofsBlocks.
Import ListNotations.
Open Scope N_scope.

Lemma matches_app : forall e p a b, matches e p (a ++ b) = matches e p a && matches e p b.
Proof. intros. unfold matches. apply forallb_app. Qed.
Lemma mfrees_app : forall a b, mfrees (a ++ b) = mfrees a && mfrees b.
Proof. intros. unfold mfrees. apply forallb_app. Qed.
Lemma matches_map : forall e p {A} (f : A -> pmatch) (g : A -> bool) l,
  (forall x, match_one e p (f x) = g x) -> matches e p (map f l) = forallb g l.
Proof. intros e p A f g l H. induction l as [|x l IH]; [reflexivity|]. cbn. rewrite H. f_equal. exact IH. Qed.
Lemma mfrees_map : forall {A} (f : A -> pmatch) l, (forall x, mfree (f x) = true) -> mfrees (map f l) = true.
Proof. intros A f l H. induction l as [|x l IH]; [reflexivity|]. cbn. rewrite H. exact IH. Qed.
Lemma forallb_negb : forall {A} (f : A -> bool) l, forallb (fun x => negb (f x)) l = negb (existsb f l).
Proof. intros A f l. induction l as [|x l IH]; [reflexivity|]. cbn. rewrite IH. destruct (f x); reflexivity. Qed.
Lemma existsb_map : forall {A B} (f : A -> B) (g : B -> bool) l, existsb g (map f l) = existsb (fun x => g (f x)) l.
Proof. intros. induction l as [|x l IH]; [reflexivity|]. cbn. rewrite IH. reflexivity. Qed.
Lemma forallb_map : forall {A B} (f : A -> B) (g : B -> bool) l, forallb g (map f l) = forallb (fun x => g (f x)) l.
Proof. intros. induction l as [|x l IH]; [reflexivity|]. cbn. rewrite IH. reflexivity. Qed.
Lemma existsb_ext' : forall {A} (f g : A -> bool) l, (forall x, f x = g x) -> existsb f l = existsb g l.
Proof. intros A f g l H. induction l as [|x l IH]; [reflexivity|]. cbn. rewrite H, IH. reflexivity. Qed.
Lemma forallb_ext' : forall {A} (f g : A -> bool) l, (forall x, f x = g x) -> forallb f l = forallb g l.
Proof. intros A f g l H. induction l as [|x l IH]; [reflexivity|]. cbn. rewrite H, IH. reflexivity. Qed.
Lemma forallb_le1 : forall {A} (f : A -> bool) l, gt1 l = false -> forallb f l = (is_nil l || existsb f l).
Proof.
  intros A f l H. destruct l as [|x [|y l]]; [reflexivity| |discriminate].
  cbn. rewrite andb_true_r, orb_false_r. reflexivity.
Qed.
Lemma gt1_not_nil : forall {A} (l : list A), gt1 l = true -> is_nil l = false.
Proof. intros A [|x l]; [discriminate|reflexivity]. Qed.

Section Match.
  Variable c : cfg.
  Variable e : env.
  Variable p0 : packet.
  Let s := e_sets e.
  Let v := pk_ver p0.
  Let hit (alts : list (list pmatch)) : bool := existsb (matches e p0) alts.

  Definition addr_of (d : sod) : N := match d with Src => pk_src p0 | Dst => pk_dst p0 end.
  Definition port_of (d : sod) : N := match d with Src => pk_sport p0 | Dst => pk_dport p0 end.
  Definition pmem_of (d : sod) : member := match d with Src => src_port_member p0 | Dst => dst_port_member p0 end.
  Definition PO (r : rule) : bool := opt_ok (r_proto r) (N.eqb (pk_proto p0)).

  Ltac msimp := cbn [matches forallb existsb match_one m_net m_ports m_ipport_set m_proto m_icmp m_opt app map
                       opt_ok icmp_ok ports_ok ports_hit is_nil andb orb ports_match
                       addr_of port_of pmem_of];
                rewrite ?xorb_false_l, ?xorb_true_l, ?andb_true_r, ?orb_false_r.

  Lemma m_proto_sem : forall o, matches e p0 (m_proto o) = opt_ok o (N.eqb (pk_proto p0)).
  Proof. intros [n|]; [|reflexivity]. msimp. reflexivity. Qed.

  Lemma hit_cidr_alts : forall nets d,
    hit (cidr_block_alts nets d) = existsb (fun x => in_cidr x v (addr_of d)) nets.
  Proof.
    intros nets d. unfold hit, cidr_block_alts. rewrite existsb_map. apply existsb_ext'.
    intro x. destruct d; msimp; reflexivity.
  Qed.

  Lemma hit_port_alts : forall proto splits named d,
    hit (port_block_alts proto splits named d) =
    (opt_ok proto (N.eqb (pk_proto p0)) && existsb (fun sp => in_ranges sp (port_of d)) splits)
    || existsb (fun id => s id (pmem_of d)) named.
  Proof.
    intros proto splits named d. unfold hit, port_block_alts. rewrite existsb_app, !existsb_map. f_equal.
    - induction splits as [|sp splits IH]; [rewrite andb_false_r; reflexivity|].
      cbn [existsb]. rewrite IH. rewrite matches_app, m_proto_sem.
      assert (H : matches e p0 [m_ports d false sp] = in_ranges sp (port_of d)).
      { destruct d; msimp; reflexivity. }
      rewrite H. destruct (opt_ok proto (N.eqb (pk_proto p0))), (in_ranges sp (port_of d)); reflexivity.
    - apply existsb_ext'. intro id. destruct d; msimp; reflexivity.
  Qed.

  Lemma free_cidr_alts : forall nets d, alts_free (cidr_block_alts nets d) = true.
  Proof. intros. unfold alts_free, cidr_block_alts. rewrite forallb_map. induction nets; [reflexivity|]. cbn. destruct d; cbn; assumption. Qed.
  Lemma free_port_alts : forall proto splits named d, alts_free (port_block_alts proto splits named d) = true.
  Proof.
    intros. unfold alts_free, port_block_alts. rewrite forallb_app, !forallb_map. apply andb_true_intro. split.
    - induction splits; [reflexivity|]. cbn [forallb]. rewrite IHsplits, andb_true_r.
      rewrite mfrees_app. destruct proto, d; reflexivity.
    - induction named; [reflexivity|]. cbn [forallb]. rewrite IHnamed. destruct d; reflexivity.
  Qed.

  Lemma free_pos_blocks : forall r, forallb alts_free (pos_blocks r) = true.
  Proof.
    intro r. unfold pos_blocks. rewrite !forallb_app.
    repeat match goal with |- context [if ?b then _ else _] => destruct b end;
      cbn [forallb]; rewrite ?free_cidr_alts, ?free_port_alts; reflexivity.
  Qed.
  Lemma free_neg_blocks : forall r, forallb alts_free (neg_blocks r) = true.
  Proof.
    intro r. unfold neg_blocks. rewrite !forallb_app.
    repeat match goal with |- context [if ?b then _ else _] => destruct b end;
      cbn [forallb]; rewrite ?free_cidr_alts; reflexivity.
  Qed.

  (* ---- per-field: what the block and the main rule contribute *)
  Definition A_ports (ports : list port_range) (d : sod) := in_ranges ports (port_of d).
  Definition B_named (named : list N) (d : sod) := existsb (fun id => s id (pmem_of d)) named.
  Definition P_ports ports named d := ports_ok s ports named (port_of d) (pmem_of d).

  Lemma ports_field_spec : forall ports named d,
    P_ports ports named d =
    if ports_in_block ports named then A_ports ports d || B_named named d else P_ports ports named d.
  Proof.
    intros. destruct (ports_in_block ports named) eqn:E; [|reflexivity].
    unfold P_ports, ports_ok, ports_hit, A_ports, B_named.
    destruct ports as [|x ports]; destruct named as [|y named]; try reflexivity.
    unfold ports_in_block in E. cbn in E. discriminate.
  Qed.

  Lemma ports_blk : forall proto ports named d,
    forallb hit (if ports_in_block ports named then [port_block_alts proto (split_ports ports) named d] else []) =
    if ports_in_block ports named
    then (opt_ok proto (N.eqb (pk_proto p0)) && A_ports ports d) || B_named named d else true.
  Proof.
    intros. destruct (ports_in_block ports named); [|reflexivity].
    cbn [forallb]. rewrite andb_true_r, hit_port_alts, in_ranges_split. reflexivity.
  Qed.

  Lemma ports_main : forall ports named d,
    matches e p0 (if ports_in_block ports named then [] else
                    ports_match d ports
                    ++ map (m_ipport_set d false) named) =
    if ports_in_block ports named then true else P_ports ports named d.
  Proof.
    intros. destruct (ports_in_block ports named) eqn:E; [reflexivity|].
    unfold ports_in_block in E.
    destruct ports as [|x ports].
    - destruct named as [|y [|z named]]; [reflexivity| |cbn in E; discriminate].
      unfold P_ports, ports_ok, ports_hit. destruct d; msimp; reflexivity.
    - assert (Hs : split_ports (x :: ports) <> []) by (intro H; apply split_ports_nil in H; discriminate).
      destruct (split_ports (x :: ports)) as [|s1 ss] eqn:Es; [contradiction|].
      destruct named as [|y named]; [|cbn in E; destruct (length ss); cbn in E; try discriminate; rewrite Nat.add_succ_r in E; discriminate].
      unfold P_ports, ports_ok, ports_hit. destruct d; msimp; reflexivity.
  Qed.

  Definition N_nets (nets : list cidr) (d : sod) := nets_ok nets v (addr_of d).

  Lemma nets_blk : forall nets d,
    forallb hit (if gt1 nets then [cidr_block_alts nets d] else []) = if gt1 nets then N_nets nets d else true.
  Proof.
    intros. destruct (gt1 nets) eqn:E; [|reflexivity]. cbn [forallb]. rewrite andb_true_r, hit_cidr_alts.
    unfold N_nets, nets_ok. rewrite (gt1_not_nil _ E). reflexivity.
  Qed.
  Lemma nets_main : forall nets d,
    matches e p0 (map (m_net d false) (if gt1 nets then [] else nets)) = if gt1 nets then true else N_nets nets d.
  Proof.
    intros. destruct (gt1 nets) eqn:E; [reflexivity|].
    rewrite (matches_map e p0 _ (fun x => in_cidr x v (addr_of d))) by (intro x; destruct d; msimp; reflexivity).
    unfold N_nets, nets_ok. apply forallb_le1. exact E.
  Qed.

  Definition X_nets (nets : list cidr) (d : sod) := existsb (fun x => in_cidr x v (addr_of d)) nets.
  Lemma neg_blk : forall pos nets d,
    forallb (fun b => negb (hit b)) (if neg_in_block pos nets then [cidr_block_alts nets d] else []) =
    if neg_in_block pos nets then negb (X_nets nets d) else true.
  Proof. intros. destruct (neg_in_block pos nets); [|reflexivity]. cbn [forallb]. rewrite andb_true_r, hit_cidr_alts. reflexivity. Qed.
  Lemma neg_main : forall pos nets d,
    matches e p0 (map (m_net d true) (if neg_in_block pos nets then [] else nets)) =
    if neg_in_block pos nets then true else negb (X_nets nets d).
  Proof.
    intros. destruct (neg_in_block pos nets); [reflexivity|].
    rewrite (matches_map e p0 _ (fun x => negb (in_cidr x v (addr_of d)))) by (intro x; destruct d; msimp; reflexivity).
    apply forallb_negb.
  Qed.

  (* ICMP *)
  Lemma icmp_pos_sem : forall o, matches e p0 (m_opt o (m_icmp (c_flavor c) false)) = opt_ok o (fun m => icmp_ok m p0).
  Proof.
    intros [[t|t cd]|]; [| |reflexivity]; destruct (c_flavor c); msimp; reflexivity.
  Qed.
  Lemma icmp_neg_sem : forall o,
    match c_flavor c, o with Nft, Some (IcmpTypeCode _ _) => false | _, _ => true end = true ->
    matches e p0 (m_opt o (m_icmp (c_flavor c) true)) = opt_ok o (fun m => negb (icmp_ok m p0)).
  Proof.
    intros [[t|t cd]|] H; [| |reflexivity]; destruct (c_flavor c); try discriminate; msimp; reflexivity.
  Qed.
End Match.
