(* C08 — correspondence case carrying, for nftables cases, the real rule text tokenised into Nft.nclause /
   nstmt.  The meaning of that text is decided in Coq (Nft.nft_run), not by the Go parser: the oracle judges
   nft_run on the real text, and the text must be well-formed and translate (Nft.lower_rule) to the rules
   the Ipt-level comparison uses. *)
From Coq Require Import List NArith Bool.
From Verif.Common Require Import Packet PolicyRef Ipt.
From Verif.C08 Require Import Model Spec Nft.
Import ListNotations.
Open Scope N_scope.

Record case2 := {
  k2 : case;
  k2_nft : list nrule        (* the nftables renderer's text, clause by clause ([] for iptables cases) *)
}.

Definition is_nft (c : cfg) : bool := match c_flavor c with Nft => true | Iptables => false end.

Definition check_case2 (kk : case2) : bool * bool :=
  let k := k2 kk in
  let c := k_cfg k in
  let r := k_rule k in
  let e := case_env k in
  let ao := check_case k in
  if is_nft c then
    ( fst ao && rules_eqb (map lower_rule (k2_nft kk)) (k_impl k),
      snd ao
      && forallb (nrule_wf (k_ver k)) (k2_nft kk)
      && forallb (fun p => negb (entry_ok c (r_action r) p && ipver_eqb (pk_ver p) (k_ver k))
                           || ok_outcome c (e_sets e) r p (nft_run e (k2_nft kk) p)) (k_packets k) )
  else (fst ao && is_nil (k2_nft kk), snd ao).

(* known-finding classification: as Spec.classify_case, and for nftables cases the text must be well-formed
   and translate to the compared rules (then nft_run and run_flat agree, theorem nft_run_lower) *)
Definition classify_case2 (kk : case2) : bool * bool :=
  let k := k2 kk in
  ( fst (classify_case k)
    && (negb (is_nft (k_cfg k))
        || (rules_eqb (map lower_rule (k2_nft kk)) (k_impl k) && forallb (nrule_wf (k_ver k)) (k2_nft kk))),
    false ).
