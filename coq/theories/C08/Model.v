(* C08 — executable model of felix/rules/policy.go: ProtoRuleToIptablesRules and what it calls
   (FilterRuleToIPVersion, filterNets, matchBlockBuilder, SplitPortList, CalculateRuleMatch,
   CombineMatchAndActionsForProtoRule), producing rules of the abstract machine Common/Ipt.v.
   Definitions only.

   `c_fixed` selects between the code as pinned (false) and the code with fixes/C08-scratch-bit.patch
   applied (true): the patched matchBlockBuilder clears the scratch ("this block") bit before the third
   and later positive match blocks reuse it. *)
From Coq Require Import List NArith Bool Arith.
From Verif.Common Require Import Packet PolicyRef Ipt.
Import ListNotations.
Open Scope N_scope.

Inductive flavor := Iptables | Nft.
Inductive deny_kind := DenyDrop | DenyReject.          (* Config.FilterDenyAction *)

Record cfg := {
  c_flavor : flavor;
  c_accept : N; c_pass : N; c_drop : N;                (* MarkAccept / MarkPass / MarkDrop *)
  c_scratch0 : N; c_scratch1 : N;                      (* "all blocks pass" / "this block passes" *)
  c_flowlogs : bool;                                   (* FlowLogsEnabled *)
  c_untracked : bool;                                  (* `untracked` argument *)
  c_deny : deny_kind;
  c_log_limit : bool;                                  (* LogActionRateLimit configured *)
  c_fixed : bool
}.

Definition mk (ms : list pmatch) (a : target) : irule := {| ir_match := ms; ir_action := a |}.

(* ------------------------------------------------------------------ SplitPortList *)
(* a single port takes one multiport slot, a range two; 15 slots per match *)
Definition slots (r : port_range) : nat := if N.eqb (fst r) (snd r) then 1%nat else 2%nat.

(* `cur` is the split being filled, kept reversed; `avail` its free slots *)
Fixpoint split_go (ports : list port_range) (avail : nat) (cur : list port_range)
  : list (list port_range) :=
  match ports with
  | [] => match cur with [] => [] | _ => [rev cur] end
  | pr :: rest =>
      if (avail <? slots pr)%nat
      then rev cur :: split_go rest (15 - slots pr)%nat [pr]
      else split_go rest (avail - slots pr)%nat (pr :: cur)
  end.
Definition split_ports (ports : list port_range) : list (list port_range) := split_go ports 15%nat [].

(* ------------------------------------------------------------------ FilterRuleToIPVersion *)
(* filterNets: returns (filtered, filteredAll) *)
Fixpoint filter_nets_go (nets : list cidr) (v : ipver) (negated : bool) (acc : list cidr) (all : bool)
  : list cidr * bool :=
  match nets with
  | [] => (rev acc, all)
  | c :: rest =>
      if negb (ipver_eqb (cidr_ver c) v) then filter_nets_go rest v negated acc all
      else if negated && cidr_is_catch_all c then ([], true)
      else filter_nets_go rest v negated (c :: acc) false
  end.
Definition filter_nets (nets : list cidr) (v : ipver) (negated : bool) : list cidr * bool :=
  match nets with
  | [] => ([], false)
  | _ => filter_nets_go nets v negated [] true
  end.

Definition set_nets (r : rule) (sn nsn dn ndn : list cidr) : rule :=
  {| r_action := r_action r; r_ipver := r_ipver r; r_proto := r_proto r;
     r_src_nets := sn; r_src_ports := r_src_ports r; r_src_named_ports := r_src_named_ports r;
     r_dst_nets := dn; r_dst_ports := r_dst_ports r; r_dst_named_ports := r_dst_named_ports r;
     r_icmp := r_icmp r; r_src_ipsets := r_src_ipsets r; r_dst_ipsets := r_dst_ipsets r;
     r_dst_ipport_sets := r_dst_ipport_sets r; r_not_proto := r_not_proto r;
     r_not_src_nets := nsn; r_not_src_ports := r_not_src_ports r;
     r_not_dst_nets := ndn; r_not_dst_ports := r_not_dst_ports r; r_not_icmp := r_not_icmp r;
     r_not_src_ipsets := r_not_src_ipsets r; r_not_dst_ipsets := r_not_dst_ipsets r;
     r_not_src_named_ports := r_not_src_named_ports r; r_not_dst_named_ports := r_not_dst_named_ports r |}.

Definition filter_rule (v : ipver) (r : rule) : option rule :=
  if negb (opt_ok (r_ipver r) (ipver_eqb v)) then None else
  let '(sn, a1) := filter_nets (r_src_nets r) v false in
  if a1 then None else
  let '(nsn, a2) := filter_nets (r_not_src_nets r) v true in
  if a2 then None else
  let '(dn, a3) := filter_nets (r_dst_nets r) v false in
  if a3 then None else
  let '(ndn, a4) := filter_nets (r_not_dst_nets r) v true in
  if a4 then None else
  Some (set_nets r sn nsn dn ndn).

(* ------------------------------------------------------------------ matchBlockBuilder *)
Inductive sod := Src | Dst.
Definition m_net (d : sod) (neg : bool) (c : cidr) : pmatch :=
  match d with Src => MSrcNet neg c | Dst => MDstNet neg c end.
Definition m_ports (d : sod) (neg : bool) (rs : list port_range) : pmatch :=
  match d with Src => MSrcPorts neg rs | Dst => MDstPorts neg rs end.
Definition m_ipport_set (d : sod) (neg : bool) (id : N) : pmatch :=
  match d with Src => MSrcIpPortSet neg id | Dst => MDstIpPortSet neg id end.
Definition m_proto (o : option N) : list pmatch :=        (* appendProtocolMatch *)
  match o with None => [] | Some n => [MProto false n] end.

(* A positive block is the list of alternative matches it ORs together. *)
Definition port_block_alts (proto : option N) (splits : list (list port_range)) (named : list N) (d : sod)
  : list (list pmatch) :=
  map (fun sp => m_proto proto ++ [m_ports d false sp]) splits
  ++ map (fun id => [m_ipport_set d false id]) named.
Definition cidr_block_alts (nets : list cidr) (d : sod) : list (list pmatch) :=
  map (fun c => [m_net d false c]) nets.

(* Positive blocks in the order the builder is called.  `idx` = positive blocks already emitted
   (idx = 0 <-> !doneFirstPositiveMatchBlock).  The first block writes straight to AllBlocks (scratch0);
   later ones set ThisBlock (scratch1) and end with "if ThisBlock clear then clear AllBlocks".
   The fix (c_fixed) clears ThisBlock before a block that re-uses it, i.e. from the third block on. *)
Fixpoint emit_pos (c : cfg) (idx : nat) (blocks : list (list (list pmatch))) : list irule :=
  match blocks with
  | [] => []
  | alts :: rest =>
      let bit := match idx with O => c_scratch0 c | _ => c_scratch1 c end in
      (if c_fixed c && (2 <=? idx)%nat then [mk [] (AClearMark (c_scratch1 c))] else [])
      ++ map (fun ms => mk ms (ASetMark bit)) alts
      ++ match idx with
         | O => []
         | _ => [mk [MMark false 0 (c_scratch1 c)] (AClearMark (c_scratch0 c))]
         end
      ++ emit_pos c (S idx) rest
  end.

(* negated blocks: every listed CIDR clears AllBlocks *)
Definition emit_neg (c : cfg) (blocks : list (list (list pmatch))) : list irule :=
  map (fun ms => mk ms (AClearMark (c_scratch0 c))) (concat blocks).

(* maybeAppendInitialRule: emitted once, by whichever block comes first; positive blocks start from
   AllBlocks = 0, negated ones from AllBlocks = 1 *)
Definition emit_blocks (c : cfg) (pos neg : list (list (list pmatch))) : list irule :=
  match pos, neg with
  | [], [] => []
  | [], _ => mk [] (ASetMaskedMark (c_scratch0 c) (N.lor (c_scratch0 c) (c_scratch1 c))) :: emit_neg c neg
  | _, _ => mk [] (ASetMaskedMark 0 (N.lor (c_scratch0 c) (c_scratch1 c))) :: emit_pos c 0 pos ++ emit_neg c neg
  end.

(* ------------------------------------------------------------------ which fields go to blocks *)
Definition gt1 {A} (l : list A) : bool := (1 <? length l)%nat.

(* ports of one direction: block needed iff #splits + #named > 1 *)
Definition ports_in_block (ports : list port_range) (named : list N) : bool :=
  (1 <? length (split_ports ports) + length named)%nat.

Definition pos_blocks (r : rule) : list (list (list pmatch)) :=
  (if ports_in_block (r_src_ports r) (r_src_named_ports r)
   then [port_block_alts (r_proto r) (split_ports (r_src_ports r)) (r_src_named_ports r) Src] else [])
  ++ (if ports_in_block (r_dst_ports r) (r_dst_named_ports r)
      then [port_block_alts (r_proto r) (split_ports (r_dst_ports r)) (r_dst_named_ports r) Dst] else [])
  ++ (if gt1 (r_src_nets r) then [cidr_block_alts (r_src_nets r) Src] else [])
  ++ (if gt1 (r_dst_nets r) then [cidr_block_alts (r_dst_nets r) Dst] else []).

(* negated CIDRs of one direction go to a block iff (#positive left in the main rule) + #negated > 1 *)
Definition neg_in_block (pos negs : list cidr) : bool :=
  (1 <? (if gt1 pos then 0 else length pos) + length negs)%nat.
Definition neg_blocks (r : rule) : list (list (list pmatch)) :=
  (if neg_in_block (r_src_nets r) (r_not_src_nets r) then [cidr_block_alts (r_not_src_nets r) Src] else [])
  ++ (if neg_in_block (r_dst_nets r) (r_not_dst_nets r) then [cidr_block_alts (r_not_dst_nets r) Dst] else []).

(* ------------------------------------------------------------------ CalculateRuleMatch *)
Definition m_icmp (f : flavor) (neg : bool) (i : icmp_match) : list pmatch :=
  match f, i with
  | Iptables, IcmpType t => [MIcmp neg t None]
  | Iptables, IcmpTypeCode t c => [MIcmp neg t (Some c)]
  | Nft, IcmpType t => [MIcmpType neg t]
  | Nft, IcmpTypeCode t c => [MIcmpType neg t; MIcmpCode neg c]     (* "icmp type [!=] t code [!=] c" *)
  end.
Definition m_opt {A} (o : option A) (f : A -> list pmatch) : list pmatch :=
  match o with None => [] | Some a => f a end.

(* numeric ports left in the main rule: one multiport match for the whole list (it fits: <= 1 split) *)
Definition ports_match (d : sod) (ports : list port_range) : list pmatch :=
  match ports with [] => [] | _ => [m_ports d false ports] end.

(* the part of the rule left after the blocks took what they need *)
Definition main_match (c : cfg) (r : rule) : list pmatch :=
  let sp_blk := ports_in_block (r_src_ports r) (r_src_named_ports r) in
  let dp_blk := ports_in_block (r_dst_ports r) (r_dst_named_ports r) in
  let sn := if gt1 (r_src_nets r) then [] else r_src_nets r in
  let dn := if gt1 (r_dst_nets r) then [] else r_dst_nets r in
  let nsn := if neg_in_block (r_src_nets r) (r_not_src_nets r) then [] else r_not_src_nets r in
  let ndn := if neg_in_block (r_dst_nets r) (r_not_dst_nets r) then [] else r_not_dst_nets r in
  m_proto (r_proto r)
  ++ map (m_net Src false) sn
  ++ map (MSrcIpSet false) (r_src_ipsets r)
  ++ (if sp_blk then [] else
        ports_match Src (r_src_ports r)
        ++ map (m_ipport_set Src false) (r_src_named_ports r))
  ++ map (m_net Dst false) dn
  ++ map (MDstIpSet false) (r_dst_ipsets r)
  ++ map (MDstIpPortSet false) (r_dst_ipport_sets r)
  ++ (if dp_blk then [] else
        ports_match Dst (r_dst_ports r)
        ++ map (m_ipport_set Dst false) (r_dst_named_ports r))
  ++ m_opt (r_icmp r) (m_icmp (c_flavor c) false)
  ++ m_opt (r_not_proto r) (fun n => [MProto true n])
  ++ map (m_net Src true) nsn
  ++ map (MSrcIpSet true) (r_not_src_ipsets r)
  ++ map (MSrcPorts true) (split_ports (r_not_src_ports r))
  ++ map (MSrcIpPortSet true) (r_not_src_named_ports r)
  ++ map (m_net Dst true) ndn
  ++ map (MDstIpSet true) (r_not_dst_ipsets r)
  ++ map (MDstPorts true) (split_ports (r_not_dst_ports r))
  ++ map (MDstIpPortSet true) (r_not_dst_named_ports r)
  ++ m_opt (r_not_icmp r) (m_icmp (c_flavor c) true).

(* ------------------------------------------------------------------ CombineMatchAndActionsForProtoRule *)
Definition verdict_mark (c : cfg) (a : action) : N :=
  match a with Allow => c_accept c | Pass => c_pass c | Deny => c_drop c | Log => 0 end.
Definition deny_target (c : cfg) : target := match c_deny c with DenyDrop => ADrop | DenyReject => AReject end.
Definition nflog_rules (c : cfg) : list irule :=
  if negb (c_untracked c) && c_flowlogs c then [mk [] ANflog] else [].

(* the rules carrying the actions, before the verdict-mark match is appended to each *)
Definition action_rules (c : cfg) (a : action) : list irule :=
  match a with
  | Allow | Pass => nflog_rules c ++ [mk [] AReturn]
  | Deny => nflog_rules c ++ [mk [] (deny_target c)]
  | Log => [mk (if c_log_limit c then [MOther 0] else []) ALog]
  end.

Definition combine_actions (c : cfg) (a : action) (m : list pmatch) : list irule :=
  match a with
  | Log => map (fun x => mk (ir_match x ++ m) (ir_action x)) (action_rules c a)
  | _ => let vb := verdict_mark c a in
         mk m (ASetMark vb)
         :: map (fun x => mk (ir_match x ++ [MMark false vb vb]) (ir_action x)) (action_rules c a)
  end.

(* ------------------------------------------------------------------ ProtoRuleToIptablesRules *)
Definition render_filtered (c : cfg) (r : rule) : list irule :=
  let pos := pos_blocks r in
  let neg := neg_blocks r in
  let blk := negb (is_nil pos && is_nil neg) in
  emit_blocks c pos neg
  ++ combine_actions c (r_action r)
       (main_match c r ++ (if blk then [MMark false (c_scratch0 c) (c_scratch0 c)] else [])).

Definition render_rule (c : cfg) (v : ipver) (r : rule) : list irule :=
  match filter_rule v r with
  | None => []
  | Some r' => render_filtered c r'
  end.
