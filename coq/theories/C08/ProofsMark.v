(* C08 — 32-bit mark arithmetic facts used by the block proofs. *)
From Coq Require Import List NArith Bool Arith Lia.
From Verif.Common Require Import Packet PolicyRef Ipt.
Import ListNotations.
Open Scope N_scope.

Lemma M32_ones : M32 = N.ones 32.
Proof. reflexivity. Qed.

Lemma M32_bit : forall i, N.testbit M32 i = (i <? 32).
Proof.
  intros i. rewrite M32_ones. destruct (i <? 32) eqn:E.
  - apply N.ones_spec_low. apply N.ltb_lt. exact E.
  - apply N.ones_spec_high. apply N.ltb_ge. exact E.
Qed.

Lemma lnot32_bit : forall m i, N.testbit (lnot32 m) i = (i <? 32) && negb (N.testbit m i).
Proof.
  intros m i. unfold lnot32. rewrite N.lxor_spec, N.land_spec, M32_bit.
  destruct (i <? 32), (N.testbit m i); reflexivity.
Qed.

Lemma apply_mark_bit : forall a x old i,
  N.testbit (apply_mark a x old) i = xorb (N.testbit old i && N.testbit a i) (N.testbit x i) && (i <? 32).
Proof. intros. unfold apply_mark. rewrite N.land_spec, N.lxor_spec, N.land_spec, M32_bit. reflexivity. Qed.

Lemma le_M32_land : forall m, N.leb m M32 = true -> N.land m M32 = m.
Proof.
  intros m H. apply N.leb_le in H. rewrite M32_ones, N.land_ones. apply N.mod_small.
  rewrite M32_ones, N.ones_equiv in H. lia.
Qed.

(* bit-level reading of hypotheses *)
Lemma land_eq_bit : forall a b c i, N.land a b = c -> N.testbit a i && N.testbit b i = N.testbit c i.
Proof. intros a b c i H. rewrite <- N.land_spec, H. reflexivity. Qed.

(* v within m, m within 32 bits: after "set-mark v/m" the bits of m read v *)
Lemma masked_set_reads : forall v m old,
  N.land v m = v -> N.land m M32 = m ->
  N.land (apply_mark (lnot32 m) v old) m = v.
Proof.
  intros v m old Hv Hm. apply N.bits_inj. intro i.
  rewrite N.land_spec, apply_mark_bit, lnot32_bit.
  pose proof (land_eq_bit _ _ _ i Hv) as Hvi. pose proof (land_eq_bit _ _ _ i Hm) as Hmi. rewrite M32_bit in Hmi.
  destruct (N.testbit old i), (N.testbit m i), (N.testbit v i), (i <? 32); cbn in *; congruence.
Qed.

(* ... and bits disjoint from m are untouched *)
Lemma masked_set_frame : forall v m b old,
  N.land v m = v -> N.land b m = 0 -> N.land b M32 = b ->
  N.land (apply_mark (lnot32 m) v old) b = N.land old b.
Proof.
  intros v m b old Hv Hb Hb32. apply N.bits_inj. intro i.
  rewrite !N.land_spec, apply_mark_bit, lnot32_bit.
  pose proof (land_eq_bit _ _ _ i Hv) as Hvi. pose proof (land_eq_bit _ _ _ i Hb) as Hbi.
  pose proof (land_eq_bit _ _ _ i Hb32) as Hb32i. rewrite M32_bit in Hb32i. rewrite N.bits_0 in Hbi.
  destruct (N.testbit old i), (N.testbit m i), (N.testbit v i), (N.testbit b i), (i <? 32); cbn in *; congruence.
Qed.

Lemma lnot32_le : forall s, N.land (lnot32 s) M32 = lnot32 s.
Proof.
  intros s. apply N.bits_inj. intro i. rewrite N.land_spec, lnot32_bit, M32_bit.
  destruct (i <? 32), (N.testbit s i); reflexivity.
Qed.

(* m inside s: the complement of s is disjoint from m *)
Lemma lnot32_disjoint : forall s m, N.land m s = m -> N.land (lnot32 s) m = 0.
Proof.
  intros s m H. apply N.bits_inj. intro i. rewrite N.land_spec, lnot32_bit, N.bits_0.
  pose proof (land_eq_bit _ _ _ i H) as Hi.
  destruct (i <? 32), (N.testbit s i), (N.testbit m i); cbn in *; congruence.
Qed.

Lemma land_lor_l : forall a b, N.land a (N.lor a b) = a.
Proof. intros. apply N.bits_inj. intro i. rewrite N.land_spec, N.lor_spec. destruct (N.testbit a i), (N.testbit b i); reflexivity. Qed.
Lemma land_lor_r : forall a b, N.land b (N.lor a b) = b.
Proof. intros. apply N.bits_inj. intro i. rewrite N.land_spec, N.lor_spec. destruct (N.testbit a i), (N.testbit b i); reflexivity. Qed.
Lemma lor_le32 : forall a b, N.land a M32 = a -> N.land b M32 = b -> N.land (N.lor a b) M32 = N.lor a b.
Proof.
  intros a b Ha Hb. apply N.bits_inj. intro i. rewrite N.land_spec, N.lor_spec.
  pose proof (land_eq_bit _ _ _ i Ha) as Hai. pose proof (land_eq_bit _ _ _ i Hb) as Hbi.
  destruct (N.testbit a i), (N.testbit b i), (N.testbit M32 i); cbn in *; congruence.
Qed.
(* reading a sub-mask of a mask whose bits are known *)
Lemma land_sub : forall x s a v, N.land x s = v -> N.land a s = a -> N.land x a = N.land v a.
Proof.
  intros x s a v Hx Ha. apply N.bits_inj. intro i. rewrite !N.land_spec.
  pose proof (land_eq_bit _ _ _ i Hx) as Hxi. pose proof (land_eq_bit _ _ _ i Ha) as Hai.
  destruct (N.testbit x i), (N.testbit s i), (N.testbit a i), (N.testbit v i); cbn in *; congruence.
Qed.
Lemma land_lor_distr_disj : forall a b c, N.land a c = 0 -> N.land (N.lor a b) c = N.land b c.
Proof.
  intros a b c H. apply N.bits_inj. intro i. rewrite !N.land_spec, N.lor_spec.
  pose proof (land_eq_bit _ _ _ i H) as Hi. rewrite N.bits_0 in Hi.
  destruct (N.testbit a i), (N.testbit b i), (N.testbit c i); cbn in *; congruence.
Qed.
(* frames compose: s-outside of m equal and t inside s ... *)
Lemma outside_weaken : forall s t m m',
  N.land s t = s ->
  N.land m (lnot32 s) = N.land m' (lnot32 s) -> N.land m (lnot32 t) = N.land m' (lnot32 t).
Proof.
  intros s t m m' Hst H. apply N.bits_inj. intro i. rewrite !N.land_spec, !lnot32_bit.
  pose proof (f_equal (fun x => N.testbit x i) H) as Hi. cbn in Hi. rewrite !N.land_spec, !lnot32_bit in Hi.
  pose proof (land_eq_bit _ _ _ i Hst) as Hsti.
  destruct (N.testbit m i), (N.testbit m' i), (N.testbit s i), (N.testbit t i), (i <? 32); cbn in *; congruence.
Qed.
