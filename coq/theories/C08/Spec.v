(* C08 — what the property says, independent of how rules are rendered.

   "The rendered rule sequence, evaluated as the kernel would, takes the rule's action exactly when the
    rule matches the packet.  When it does not match, evaluation falls through to the next rule with the
    policy-verdict marks unchanged."

   `ok_outcome` judges ONE evaluation result (of any rule list: the model's or the parsed output of the
   real renderer) against the reference semantics Common/PolicyRef.rule_matches. *)
From Coq Require Import List NArith Bool.
From Verif.Common Require Import Packet PolicyRef Ipt.
From Verif.C08 Require Import Model.
Import ListNotations.
Open Scope N_scope.

(* the mark bits the renderer may use as scratch *)
Definition scratch (c : cfg) : N := N.lor (c_scratch0 c) (c_scratch1 c).
(* marks agree everywhere outside `bits` *)
Definition same_outside (bits m m' : N) : bool := N.eqb (N.land m (lnot32 bits)) (N.land m' (lnot32 bits)).

(* What "takes the rule's action" means for Felix's policy chains:
     allow     : the accept mark is set and the chain RETURNs
     pass      : the pass mark is set and the chain RETURNs
     deny      : the drop mark is set and the packet is dropped (or rejected, per FilterDenyAction)
     log       : nothing observable here; evaluation continues with the next rule
   In every case all mark bits other than the scratch bits and the verdict bit just set are unchanged. *)
Definition took_action (c : cfg) (a : action) (m0 : N) (res : result) : bool :=
  let vb := verdict_mark c a in
  match a, res with
  | Allow, RReturn p' | Pass, RReturn p' =>
      mark_has (pk_mark p') vb && same_outside (N.lor (scratch c) vb) m0 (pk_mark p')
  | Deny, RDone f p' =>
      (match c_deny c, f with DenyDrop, FDrop | DenyReject, FReject => true | _, _ => false end)
      && mark_has (pk_mark p') vb && same_outside (N.lor (scratch c) vb) m0 (pk_mark p')
  | Log, RFall p' => same_outside (scratch c) m0 (pk_mark p')
  | _, _ => false
  end.

(* falls through to the next rule; nothing but scratch bits touched *)
Definition fell_through (c : cfg) (m0 : N) (res : result) : bool :=
  match res with
  | RFall p' => same_outside (scratch c) m0 (pk_mark p')
  | _ => false
  end.

(* Entry condition of a policy chain rule: the verdict bit of this rule's own action is clear
   (the endpoint chains clear accept/pass before jumping to a policy; a set bit means an earlier rule
   already decided and the chain has returned).  All other bits, scratch bits included, are arbitrary. *)
Definition entry_ok (c : cfg) (a : action) (p : packet) : bool :=
  mark_clear (pk_mark p) (verdict_mark c a).

Definition ok_outcome (c : cfg) (s : ipsets) (r : rule) (p : packet) (res : result) : bool :=
  if rule_matches s r p
  then took_action c (r_action r) (pk_mark p) res
  else fell_through c (pk_mark p) res.

(* ------------------------------------------------------------------ domain *)
(* mark configuration Felix's mark-bit allocator produces: five pairwise disjoint non-empty groups of
   bits within 32 bits (C35) *)
Definition disjoint (a b : N) : bool := N.eqb (N.land a b) 0.
Definition marks_ok (c : cfg) : bool :=
  let l := [c_accept c; c_pass c; c_drop c; c_scratch0 c; c_scratch1 c] in
  forallb (fun m => negb (N.eqb m 0) && N.leb m M32) l
  && disjoint (c_accept c) (c_pass c) && disjoint (c_accept c) (c_drop c)
  && disjoint (c_accept c) (c_scratch0 c) && disjoint (c_accept c) (c_scratch1 c)
  && disjoint (c_pass c) (c_drop c) && disjoint (c_pass c) (c_scratch0 c) && disjoint (c_pass c) (c_scratch1 c)
  && disjoint (c_drop c) (c_scratch0 c) && disjoint (c_drop c) (c_scratch1 c)
  && disjoint (c_scratch0 c) (c_scratch1 c).

(* Rules outside this guard are not claimed:
   nftables renders a negated ICMP type+code as "type != t code != c", which is the conjunction of two
   inequalities, not the negation of "type t code c" (finding nft-not-icmp-type-code). *)
Definition in_domain (c : cfg) (r : rule) : bool :=
  match c_flavor c, r_not_icmp r with
  | Nft, Some (IcmpTypeCode _ _) => false
  | _, _ => true
  end.

(* ------------------------------------------------------------------ SplitPortList *)
Definition split_ok (ports : list port_range) (splits : list (list port_range)) : bool :=
  list_eqb range_eqb (concat splits) ports
  && forallb (fun sp => negb (is_nil sp)
                        && Nat.leb (fold_right (fun r n => (slots r + n)%nat) 0%nat sp) 15) splits.

(* ------------------------------------------------------------------ correspondence case *)
Record case := {
  k_cfg : cfg;
  k_ver : ipver;
  k_rule : rule;
  k_sets : list (N * list member);        (* contents of the IP sets the rule names *)
  k_impl : list irule;                    (* the REAL renderer's rules, parsed from their rendered text *)
  k_impl_splits : list (list (list port_range));   (* real SplitPortList on src, dst, !src, !dst ports *)
  k_packets : list packet;                (* boundary packets, all of version k_ver *)
  k_input_mutated : bool                  (* the renderer changed the proto.Rule it was given (it is shared:
                                             the same message is rendered for IPv4 and for IPv6) *)
}.

Definition case_env (k : case) : env :=
  {| e_sets := ipsets_of_list (k_sets k); e_other := fun _ _ => true |}.

Definition check_case (k : case) : bool * bool :=
  let c := k_cfg k in
  let r := k_rule k in
  let e := case_env k in
  ( (* model = implementation *)
    rules_eqb (render_rule c (k_ver k) r) (k_impl k)
    && list_eqb (list_eqb (list_eqb range_eqb))
         (map split_ports [r_src_ports r; r_dst_ports r; r_not_src_ports r; r_not_dst_ports r])
         (k_impl_splits k),
    (* specification oracle on the implementation's own output *)
    forallb (fun p => negb (entry_ok c (r_action r) p && ipver_eqb (pk_ver p) (k_ver k))
                      || ok_outcome c (e_sets e) r p (run_flat e (k_impl k) p)) (k_packets k)
    && forallb (fun ps => split_ok (fst ps) (snd ps))
         (List.combine [r_src_ports r; r_dst_ports r; r_not_src_ports r; r_not_dst_ports r] (k_impl_splits k))
    && Nat.eqb (length (k_impl_splits k)) 4
    (* rendering must not change its input: the same rule object is rendered once per IP version *)
    && negb (k_input_mutated k) ).

(* ------------------------------------------------------------------ known-finding classification *)
(* A failing case counts as the known defect "scratch-bit-third-positive-block" only if ALL of:
   - the tree was probed as the unfixed variant (c_fixed = false in the case);
   - the unfixed MODEL equals the implementation's rule list (so it predicts the implementation's outcome
     on every packet exactly);
   - the (version-filtered) rule has at least three positive match blocks;
   - every packet on which the oracle fails is one the reference says does NOT match, on which the
     implementation nevertheless took the rule's action, which fails a third-or-later positive block, and
     on which the FIXED model gives the outcome the oracle demands;
   - the SplitPortList part of the oracle holds.
   Anything else stays a violation. *)
Definition set_fixed (c : cfg) (b : bool) : cfg :=
  {| c_flavor := c_flavor c; c_accept := c_accept c; c_pass := c_pass c; c_drop := c_drop c;
     c_scratch0 := c_scratch0 c; c_scratch1 := c_scratch1 c; c_flowlogs := c_flowlogs c;
     c_untracked := c_untracked c; c_deny := c_deny c; c_log_limit := c_log_limit c; c_fixed := b |}.

Definition later_block_fails (e : env) (p : packet) (blocks : list (list (list pmatch))) : bool :=
  negb (forallb (fun alts => existsb (matches e p) alts) (skipn 2 blocks)).

Definition scratch_class_packet (c : cfg) (e : env) (r r' : rule) (impl : list irule) (p : packet) : bool :=
  negb (rule_matches (e_sets e) r p)
  && took_action c (r_action r) (pk_mark p) (run_flat e impl p)
  && later_block_fails e p (pos_blocks r')
  && ok_outcome (set_fixed c true) (e_sets e) r p
       (run_flat e (render_rule (set_fixed c true) (pk_ver p) r) p).

(* second component is always false so that the evaluation lists every case it is run on *)
Definition classify_case (k : case) : bool * bool :=
  let c := k_cfg k in
  let r := k_rule k in
  let e := case_env k in
  match filter_rule (k_ver k) r with
  | None => (false, false)
  | Some r' =>
    ( negb (c_fixed c)
      && rules_eqb (render_rule c (k_ver k) r) (k_impl k)
      && Nat.leb 3 (length (pos_blocks r'))
      && forallb (fun p => negb (entry_ok c (r_action r) p && ipver_eqb (pk_ver p) (k_ver k))
                           || ok_outcome c (e_sets e) r p (run_flat e (k_impl k) p)
                           || scratch_class_packet c e r r' (k_impl k) p) (k_packets k)
      && forallb (fun ps => split_ok (fst ps) (snd ps))
           (List.combine [r_src_ports r; r_dst_ports r; r_not_src_ports r; r_not_dst_ports r] (k_impl_splits k))
      && Nat.eqb (length (k_impl_splits k)) 4
      && negb (k_input_mutated k),
      false)
  end.
