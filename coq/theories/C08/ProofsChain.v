(* C08 — from one rule to a list of rules (what a policy / profile chain holds, before
   ProtoRulesToIptablesRules strips trailing RETURNs): the rendered rules of a rule list reach the
   verdict PolicyRef.policy_verdict gives.  This is the form C09 consumes. *)
From Coq Require Import List NArith Bool Arith Lia.
From Verif.Common Require Import Packet PolicyRef Ipt.
From Verif.C08 Require Import Model Spec ProofsMark ProofsExact ProofsFilter Proofs.
Import ListNotations.
Open Scope N_scope.

Definition render_rules (c : cfg) (v : ipver) (rules : list rule) : list irule :=
  flat_map (render_rule c v) rules.

(* accept, pass and drop bits all clear: the state in which the endpoint chains enter a policy chain *)
Definition verdict_clear (c : cfg) (m : N) : bool :=
  mark_clear m (c_accept c) && mark_clear m (c_pass c) && mark_clear m (c_drop c).

(* what the chain has done when it stops, by policy verdict *)
Definition chain_outcome (c : cfg) (vd : verdict) (p : packet) (res : result) : Prop :=
  match vd, res with
  | VAllow, RReturn p' =>
      unmark p' = unmark p /\ mark_has (pk_mark p') (c_accept c) = true
      /\ same_outside (N.lor (scratch c) (c_accept c)) (pk_mark p) (pk_mark p') = true
  | VPass, RReturn p' =>
      unmark p' = unmark p /\ mark_has (pk_mark p') (c_pass c) = true
      /\ same_outside (N.lor (scratch c) (c_pass c)) (pk_mark p) (pk_mark p') = true
  | VDeny, RDone f p' =>
      f = (match c_deny c with DenyDrop => FDrop | DenyReject => FReject end)
      /\ unmark p' = unmark p /\ mark_has (pk_mark p') (c_drop c) = true
      /\ same_outside (N.lor (scratch c) (c_drop c)) (pk_mark p) (pk_mark p') = true
  | VNoMatch, RFall p' =>
      unmark p' = unmark p /\ same_outside (scratch c) (pk_mark p) (pk_mark p') = true
  | _, _ => False
  end.

Lemma rule_matches_unmark : forall s r p p', unmark p' = unmark p -> rule_matches s r p' = rule_matches s r p.
Proof.
  intros s r p p' H. destruct p, p'. unfold unmark, set_mark in H. cbn in H. inversion H. subst. reflexivity.
Qed.
Lemma policy_verdict_unmark : forall s rs p p', unmark p' = unmark p -> policy_verdict s rs p' = policy_verdict s rs p.
Proof.
  intros s rs p p' H. induction rs as [|r rs IH]; [reflexivity|]. cbn [policy_verdict].
  rewrite (rule_matches_unmark s r p p' H), IH. reflexivity.
Qed.
Lemma unmark_fields : forall p p', unmark p' = unmark p ->
  pk_ver p' = pk_ver p /\ pk_src p' = pk_src p /\ pk_dst p' = pk_dst p.
Proof. intros p p' H. destruct p, p'. unfold unmark, set_mark in H. cbn in H. inversion H. subst. auto. Qed.

Lemma same_outside_trans : forall b x y z, same_outside b x y = true -> same_outside b y z = true -> same_outside b x z = true.
Proof. unfold same_outside. intros b x y z H1 H2. apply N.eqb_eq in H1. apply N.eqb_eq in H2. apply N.eqb_eq. congruence. Qed.
Lemma same_outside_weaken : forall s t x y, N.land s t = s -> same_outside s x y = true -> same_outside t x y = true.
Proof. unfold same_outside. intros s t x y Hst H. apply N.eqb_eq in H. apply N.eqb_eq. apply (outside_weaken s t); assumption. Qed.

Section Chain.
  Variable c : cfg.
  Variable e : env.
  Hypothesis Hmarks : marks_ok c = true.
  Hypothesis Hfixed : c_fixed c = true.

  Lemma verdict_clear_preserved : forall m m',
    same_outside (scratch c) m m' = true -> verdict_clear c m = true -> verdict_clear c m' = true.
  Proof.
    intros m m' Ho Hc.
    destruct (marks_ok_facts c Hmarks) as ([_ a32] & [_ p32] & [_ d32] & _ & _ & as0 & as1 & ps0 & ps1 & ds0 & ds1 & _).
    unfold same_outside in Ho. apply N.eqb_eq in Ho. symmetry in Ho.
    unfold verdict_clear, mark_clear in *.
    apply andb_prop in Hc. destruct Hc as [Hc H3]. apply andb_prop in Hc. destruct Hc as [H1 H2].
    apply N.eqb_eq in H1. apply N.eqb_eq in H2. apply N.eqb_eq in H3.
    rewrite (outside_read (scratch c) (c_accept c) m m' Ho (land_lor_0 _ _ _ as0 as1) a32).
    rewrite (outside_read (scratch c) (c_pass c) m m' Ho (land_lor_0 _ _ _ ps0 ps1) p32).
    rewrite (outside_read (scratch c) (c_drop c) m m' Ho (land_lor_0 _ _ _ ds0 ds1) d32).
    rewrite H1, H2, H3. reflexivity.
  Qed.

  Lemma verdict_clear_entry : forall m a p, pk_mark p = m -> verdict_clear c m = true -> entry_ok c a p = true.
  Proof.
    intros m a p <- Hc. unfold verdict_clear in Hc.
    apply andb_prop in Hc. destruct Hc as [Hc H3]. apply andb_prop in Hc. destruct Hc as [H1 H2].
    unfold entry_ok. destruct a; cbn [verdict_mark]; try assumption.
    unfold mark_clear. rewrite N.land_0_r. reflexivity.
  Qed.

  Theorem policy_rules_exact : forall rules p,
    forallb (in_domain c) rules = true ->
    wf_packet p -> verdict_clear c (pk_mark p) = true ->
    chain_outcome c (policy_verdict (e_sets e) rules p) p (run_flat e (render_rules c (pk_ver p) rules) p).
  Proof.
    induction rules as [|r rules IH]; intros p Hd Hw Hc.
    - cbn. split; [reflexivity|]. unfold same_outside. apply N.eqb_refl.
    - cbn in Hd. apply andb_prop in Hd. destruct Hd as [Hdr Hds].
      unfold render_rules. cbn [flat_map]. rewrite run_flat_app. fold (render_rules c (pk_ver p) rules).
      pose proof (rule_exact_flat c e r p Hmarks Hfixed Hdr Hw (verdict_clear_entry _ _ p eq_refl Hc)) as X.
      pose proof (run_flat_unmark e (render_rule c (pk_ver p) r) p) as U.
      unfold ok_outcome in X. cbn [policy_verdict].
      (* continuing with the next rule after a fall-through *)
      assert (Cont : forall p', unmark p' = unmark p -> same_outside (scratch c) (pk_mark p) (pk_mark p') = true ->
                chain_outcome c (policy_verdict (e_sets e) rules p) p (run_flat e (render_rules c (pk_ver p) rules) p')).
      { intros p' Hu Ho.
        destruct (unmark_fields p p' Hu) as (Ev & Es & Ed).
        assert (Hw' : wf_packet p') by (unfold wf_packet; rewrite Ev, Es, Ed; exact Hw).
        pose proof (IH p' Hds Hw' (verdict_clear_preserved _ _ Ho Hc)) as Y.
        rewrite Ev, (policy_verdict_unmark _ _ p p' Hu) in Y.
        set (sc := scratch c) in *.
        assert (Ssub : forall b, N.land sc (N.lor sc b) = sc) by (intro; apply land_lor_l).
        destruct (policy_verdict (e_sets e) rules p); destruct (run_flat e (render_rules c (pk_ver p) rules) p');
          cbn [chain_outcome] in *; try contradiction.
        - destruct Y as (Y1 & Y2 & Y3). split; [congruence|]. split; [exact Y2|].
          eapply same_outside_trans; [apply (same_outside_weaken sc); [apply Ssub|exact Ho]|exact Y3].
        - destruct Y as (Y0 & Y1 & Y2 & Y3). split; [exact Y0|]. split; [congruence|]. split; [exact Y2|].
          eapply same_outside_trans; [apply (same_outside_weaken sc); [apply Ssub|exact Ho]|exact Y3].
        - destruct Y as (Y1 & Y2 & Y3). split; [congruence|]. split; [exact Y2|].
          eapply same_outside_trans; [apply (same_outside_weaken sc); [apply Ssub|exact Ho]|exact Y3].
        - destruct Y as (Y1 & Y3). split; [congruence|]. eapply same_outside_trans; eassumption. }
      destruct (rule_matches (e_sets e) r p).
      + destruct (r_action r); unfold took_action in X; cbn [verdict_mark] in X;
          destruct (run_flat e (render_rule c (pk_ver p) r) p) as [f p'|p'|p'| |]; try discriminate; cbn in U.
        * apply andb_prop in X. destruct X as [X1 X2]. cbn [chain_outcome]. auto.
        * apply andb_prop in X. destruct X as [X X2]. apply andb_prop in X. destruct X as [X0 X1].
          cbn [chain_outcome]. repeat split; try assumption.
          destruct (c_deny c), f; try discriminate; reflexivity.
        * apply andb_prop in X. destruct X as [X1 X2]. cbn [chain_outcome]. auto.
        * apply Cont; assumption.
      + unfold fell_through in X.
        destruct (run_flat e (render_rule c (pk_ver p) r) p) as [f p'|p'|p'| |]; try discriminate; cbn in U.
        apply Cont; assumption.
  Qed.
End Chain.
