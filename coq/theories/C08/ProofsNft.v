(* C08 — exactness stated on the nftables TEXT level. *)
From Coq Require Import List NArith Bool Arith.
From Verif.Common Require Import Packet PolicyRef Ipt.
From Verif.C08 Require Import Model Spec ProofsFilter Proofs ProofsPinned Nft.
Import ListNotations.
Open Scope N_scope.

Theorem rule_exact_nft_text : forall c e r p nrs,
  marks_ok c = true -> c_fixed c = true -> in_domain c r = true ->
  wf_packet p -> entry_ok c (r_action r) p = true ->
  forallb (nrule_wf (pk_ver p)) nrs = true ->
  map lower_rule nrs = render_rule c (pk_ver p) r ->
  ok_outcome c (e_sets e) r p (nft_run e nrs p) = true.
Proof.
  intros c e r p nrs Hm Hf Hd Hw He W L.
  rewrite (nft_run_lower e nrs p W), L. apply rule_exact_flat; assumption.
Qed.

Theorem rule_exact_nft_text_pinned : forall c e r p nrs,
  marks_ok c = true -> in_domain c r = true -> (pos_block_count (pk_ver p) r <= 2)%nat ->
  wf_packet p -> entry_ok c (r_action r) p = true ->
  forallb (nrule_wf (pk_ver p)) nrs = true ->
  map lower_rule nrs = render_rule c (pk_ver p) r ->
  ok_outcome c (e_sets e) r p (nft_run e nrs p) = true.
Proof.
  intros c e r p nrs Hm Hd Hk Hw He W L.
  rewrite (nft_run_lower e nrs p W), L.
  rewrite <- (run_jump_free 0 [] e) by apply render_rule_jump_free.
  apply rule_exact_pinned; assumption.
Qed.

(* the hypotheses are satisfiable: the nft text of "allow tcp dport 80,443 from 10.0.0.0/8" *)
Definition nft_example : list nrule :=
  [ {| n_clauses := [NL4Proto false 6; NAddr V4 true false {| cidr_ver := V4; cidr_addr := 167772160; cidr_len := 8 |};
                     NPorts 6 false false [(80, 80); (443, 443)]];
       n_stmt := SMarkOr 0x80 |};
    {| n_clauses := [NMark 0x80 false 0x80]; n_stmt := SReturn |} ].
Definition rule_example : rule :=
  {| r_action := Allow; r_ipver := None; r_proto := Some 6;
     r_src_nets := [{| cidr_ver := V4; cidr_addr := 167772160; cidr_len := 8 |}];
     r_src_ports := []; r_src_named_ports := [];
     r_dst_nets := []; r_dst_ports := [(80, 80); (443, 443)]; r_dst_named_ports := []; r_icmp := None;
     r_src_ipsets := []; r_dst_ipsets := []; r_dst_ipport_sets := [];
     r_not_proto := None; r_not_src_nets := []; r_not_src_ports := []; r_not_dst_nets := []; r_not_dst_ports := [];
     r_not_icmp := None; r_not_src_ipsets := []; r_not_dst_ipsets := [];
     r_not_src_named_ports := []; r_not_dst_named_ports := [] |}.
Example nft_text_hyps_satisfiable :
  forallb (nrule_wf V4) nft_example = true
  /\ map lower_rule nft_example = render_rule cfg_nft V4 rule_example.
Proof. split; vm_compute; reflexivity. Qed.
