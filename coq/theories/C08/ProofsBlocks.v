(* C08 — what the match blocks compute: after the block rules the AllBlocks bit (scratch0) is set exactly
   when every positive block has a matching alternative and no negated block has one; nothing outside
   the two scratch bits changes; evaluation always falls through to the rule that follows. *)
From Coq Require Import List NArith Bool Arith Lia.
From Verif.Common Require Import Packet PolicyRef Ipt.
From Verif.C08 Require Import Model Spec ProofsMark.
Import ListNotations.
Open Scope N_scope.

Definition mfree (m : pmatch) : bool := match m with MMark _ _ _ | MOther _ => false | _ => true end.
Definition mfrees (ms : list pmatch) : bool := forallb mfree ms.

Lemma match_one_mfree : forall e p x m, mfree m = true -> match_one e (set_mark p x) m = match_one e p m.
Proof. intros e p x m H. destruct m; try discriminate; reflexivity. Qed.

Lemma matches_mfree : forall e p x ms, mfrees ms = true -> matches e (set_mark p x) ms = matches e p ms.
Proof.
  intros e p x ms. induction ms as [|m ms IH]; intro H; [reflexivity|].
  cbn in H. apply andb_prop in H. destruct H as [Hm Hms].
  cbn. rewrite match_one_mfree by exact Hm. f_equal. apply IH. exact Hms.
Qed.

Definition setm (v m old : N) : N := apply_mark (lnot32 m) v old.

Lemma step_masked : forall e ms v m rest q,
  run_flat e (mk ms (ASetMaskedMark v m) :: rest) q =
  if matches e q ms then run_flat e rest (set_mark q (setm v m (pk_mark q))) else run_flat e rest q.
Proof. reflexivity. Qed.

Section Blocks.
  Variable c : cfg.
  Variable e : env.
  Variable p0 : packet.
  Let s0 := c_scratch0 c.
  Let s1 := c_scratch1 c.
  Let SB := N.lor s0 s1.
  Hypothesis s0_32 : N.land s0 M32 = s0.
  Hypothesis s1_32 : N.land s1 M32 = s1.
  Hypothesis s0_nz : s0 <> 0.
  Hypothesis s1_nz : s1 <> 0.
  Hypothesis s01 : N.land s0 s1 = 0.

  Let hit (alts : list (list pmatch)) : bool := existsb (matches e p0) alts.
  Definition alts_free (alts : list (list pmatch)) : bool := forallb mfrees alts.

  Lemma s10 : N.land s1 s0 = 0.
  Proof. rewrite N.land_comm. exact s01. Qed.
  Lemma s0_S : N.land s0 SB = s0. Proof. apply land_lor_l. Qed.
  Lemma s1_S : N.land s1 SB = s1. Proof. apply land_lor_r. Qed.
  Lemma S_32 : N.land SB M32 = SB. Proof. apply lor_le32; assumption. Qed.

  (* frame: an update inside SB leaves everything outside SB alone *)
  Lemma out_setm : forall v m old, N.land v m = v -> N.land m SB = m ->
    N.land (setm v m old) (lnot32 SB) = N.land old (lnot32 SB).
  Proof.
    intros v m old Hv Hm. unfold setm. apply masked_set_frame; [exact Hv| |apply lnot32_le].
    apply lnot32_disjoint. exact Hm.
  Qed.

  (* a run of "alternative -> set bit" rules: the bit ends up set iff it was or some alternative matched *)
  Lemma run_alts_set : forall bit alts rest m,
    alts_free alts = true ->
    run_flat e (map (fun ms => mk ms (ASetMark bit)) alts ++ rest) (set_mark p0 m) =
    run_flat e rest (set_mark p0 (if hit alts then setm bit bit m else m)).
  Proof.
    intros bit alts rest. induction alts as [|ms alts IH]; intros m Hf; [reflexivity|].
    cbn in Hf. apply andb_prop in Hf. destruct Hf as [Hms Hf].
    cbn [map app]. unfold ASetMark. rewrite step_masked. rewrite matches_mfree by exact Hms.
    unfold hit. cbn [existsb]. fold (hit alts).
    destruct (matches e p0 ms); cbn [orb].
    - change (set_mark (set_mark p0 m) (setm bit bit (pk_mark (set_mark p0 m)))) with (set_mark p0 (setm bit bit m)).
      fold (ASetMark bit). rewrite IH by exact Hf.
      destruct (hit alts); [|reflexivity].
      f_equal. f_equal.
      (* setting twice = setting once *)
      unfold setm. apply N.bits_inj. intro i. rewrite !apply_mark_bit, !lnot32_bit.
      destruct (N.testbit m i), (N.testbit bit i), (i <? 32); reflexivity.
    - fold (ASetMark bit). apply IH. exact Hf.
  Qed.

  Lemma run_alts_clear : forall bit alts rest m,
    alts_free alts = true ->
    run_flat e (map (fun ms => mk ms (AClearMark bit)) alts ++ rest) (set_mark p0 m) =
    run_flat e rest (set_mark p0 (if hit alts then setm 0 bit m else m)).
  Proof.
    intros bit alts rest. induction alts as [|ms alts IH]; intros m Hf; [reflexivity|].
    cbn in Hf. apply andb_prop in Hf. destruct Hf as [Hms Hf].
    cbn [map app]. unfold AClearMark. rewrite step_masked. rewrite matches_mfree by exact Hms.
    unfold hit. cbn [existsb]. fold (hit alts).
    destruct (matches e p0 ms); cbn [orb].
    - change (set_mark (set_mark p0 m) (setm 0 bit (pk_mark (set_mark p0 m)))) with (set_mark p0 (setm 0 bit m)).
      fold (AClearMark bit). rewrite IH by exact Hf.
      destruct (hit alts); [|reflexivity].
      f_equal. f_equal.
      unfold setm. apply N.bits_inj. intro i. rewrite !apply_mark_bit, !lnot32_bit, N.bits_0.
      destruct (N.testbit m i), (N.testbit bit i), (i <? 32); reflexivity.
    - fold (AClearMark bit). apply IH. exact Hf.
  Qed.

  (* reading s0 / s1 after an update of s0 / s1 *)
  Lemma rd_same : forall v b old, N.land v b = v -> N.land b M32 = b -> N.land (setm v b old) b = v.
  Proof. intros. unfold setm. apply masked_set_reads; assumption. Qed.
  Lemma rd_other : forall v b b' old, N.land v b = v -> N.land b' b = 0 -> N.land b' M32 = b' ->
    N.land (setm v b old) b' = N.land old b'.
  Proof. intros. unfold setm. apply masked_set_frame; assumption. Qed.

  Definition bitval (b : N) (v : bool) : N := if v then b else 0.

  (* positive blocks after the first one (idx >= 1), with the fix *)
  Hypothesis fixed : c_fixed c = true.

  Lemma pos_tail : forall bs idx m acc rest,
    (1 <= idx)%nat ->
    forallb alts_free bs = true ->
    N.land m s0 = bitval s0 acc ->
    (idx = 1%nat -> N.land m s1 = 0) ->
    exists m',
      run_flat e (emit_pos c idx bs ++ rest) (set_mark p0 m) = run_flat e rest (set_mark p0 m')
      /\ N.land m' (lnot32 SB) = N.land m (lnot32 SB)
      /\ N.land m' s0 = bitval s0 (acc && forallb hit bs).
  Proof.
    induction bs as [|b bs IH]; intros idx m acc rest Hidx Hf H0 H1.
    - exists m. cbn. rewrite andb_true_r. auto.
    - cbn in Hf. apply andb_prop in Hf. destruct Hf as [Hb Hbs].
      destruct idx as [|idx']; [lia|].
      cbn [emit_pos]. rewrite fixed. cbn [andb].
      (* step 1: make sure s1 is clear *)
      assert (E1 : exists m1,
        (forall rest', run_flat e ((if (2 <=? S idx')%nat then [mk [] (AClearMark (c_scratch1 c))] else []) ++ rest') (set_mark p0 m)
                       = run_flat e rest' (set_mark p0 m1))
        /\ N.land m1 (lnot32 SB) = N.land m (lnot32 SB) /\ N.land m1 s0 = bitval s0 acc /\ N.land m1 s1 = 0).
      { destruct (2 <=? S idx')%nat eqn:E2.
        - exists (setm 0 s1 m). split; [|split; [|split]].
          + intro rest'. reflexivity.
          + apply out_setm; [apply N.land_0_l|apply s1_S].
          + rewrite rd_other; [exact H0|apply N.land_0_l|exact s01|exact s0_32].
          + apply rd_same; [apply N.land_0_l|exact s1_32].
        - exists m. split; [|split; [|split]]; auto.
          apply H1. apply Nat.leb_gt in E2. lia. }
      destruct E1 as (m1 & R1 & O1 & A1 & B1).
      rewrite <- !app_assoc. rewrite R1.
      (* step 2: alternatives set s1 *)
      change (match S idx' with O => c_scratch0 c | _ => c_scratch1 c end) with s1.
      rewrite run_alts_set by exact Hb. fold s0 s1.
      set (m2 := if hit b then setm s1 s1 m1 else m1).
      assert (O2 : N.land m2 (lnot32 SB) = N.land m (lnot32 SB)).
      { unfold m2. destruct (hit b); [|exact O1]. rewrite out_setm; [exact O1|apply N.land_diag|apply s1_S]. }
      assert (A2 : N.land m2 s0 = bitval s0 acc).
      { unfold m2. destruct (hit b); [|exact A1]. rewrite rd_other; [exact A1|apply N.land_diag|exact s01|exact s0_32]. }
      assert (B2 : N.land m2 s1 = bitval s1 (hit b)).
      { unfold m2. destruct (hit b); [|exact B1]. apply rd_same; [apply N.land_diag|exact s1_32]. }
      (* step 3: AllBlocks &&= ThisBlock *)
      cbn [app]. unfold AClearMark at 1. rewrite step_masked.
      change (matches e (set_mark p0 m2) [MMark false 0 s1])
        with (xorb false (N.eqb (N.land m2 s1) 0) && true).
      rewrite B2. cbn [xorb]. rewrite andb_true_r.
      change (pk_mark (set_mark p0 m2)) with m2.
      change (set_mark (set_mark p0 m2) (setm 0 s0 m2)) with (set_mark p0 (setm 0 s0 m2)).
      set (m3 := if hit b then m2 else setm 0 s0 m2).
      assert (R3 : (if (if N.eqb (bitval s1 (hit b)) 0 then true else false)
                    then run_flat e (emit_pos c (S (S idx')) bs ++ rest) (set_mark p0 (setm 0 s0 m2))
                    else run_flat e (emit_pos c (S (S idx')) bs ++ rest) (set_mark p0 m2))
                   = run_flat e (emit_pos c (S (S idx')) bs ++ rest) (set_mark p0 m3)).
      { unfold m3. destruct (hit b); cbn [bitval].
        - destruct (N.eqb_spec s1 0) as [E|_]; [contradiction|reflexivity].
        - reflexivity. }
      rewrite R3.
      assert (O3 : N.land m3 (lnot32 SB) = N.land m (lnot32 SB)).
      { unfold m3. destruct (hit b); [exact O2|]. rewrite out_setm; [exact O2|apply N.land_0_l|apply s0_S]. }
      assert (A3 : N.land m3 s0 = bitval s0 (acc && hit b)).
      { unfold m3. destruct (hit b).
        - rewrite andb_true_r. exact A2.
        - rewrite andb_false_r. apply rd_same; [apply N.land_0_l|exact s0_32]. }
      destruct (IH (S (S idx')) m3 (acc && hit b) rest) as (m' & R & O & A); [lia|exact Hbs|exact A3|intro; lia|].
      exists m'. split; [exact R|]. split; [rewrite O; exact O3|].
      rewrite A. cbn [forallb]. rewrite andb_assoc. reflexivity.
  Qed.

  (* negated blocks *)
  Lemma neg_all : forall bs m acc rest,
    forallb alts_free bs = true ->
    N.land m s0 = bitval s0 acc ->
    exists m',
      run_flat e (emit_neg c bs ++ rest) (set_mark p0 m) = run_flat e rest (set_mark p0 m')
      /\ N.land m' (lnot32 SB) = N.land m (lnot32 SB)
      /\ N.land m' s0 = bitval s0 (acc && forallb (fun b => negb (hit b)) bs).
  Proof.
    intros bs m acc rest Hf H0. unfold emit_neg.
    assert (Hc : alts_free (concat bs) = true).
    { clear H0. induction bs as [|b bs IH]; [reflexivity|]. cbn in Hf. apply andb_prop in Hf. destruct Hf as [Hb Hbs].
      cbn [concat]. unfold alts_free in *. rewrite forallb_app, Hb. cbn. apply IH. exact Hbs. }
    rewrite run_alts_clear by exact Hc.
    assert (Hh : hit (concat bs) = negb (forallb (fun b => negb (hit b)) bs)).
    { clear. induction bs as [|b bs IH]; [reflexivity|]. cbn [concat forallb]. unfold hit in *. rewrite existsb_app, IH.
      destruct (existsb (matches e p0) b); reflexivity. }
    rewrite Hh.
    destruct (forallb (fun b => negb (hit b)) bs); cbn [negb].
    - exists m. rewrite andb_true_r. auto.
    - exists (setm 0 s0 m). split; [reflexivity|]. split.
      + apply out_setm; [apply N.land_0_l|apply s0_S].
      + rewrite andb_false_r. apply rd_same; [apply N.land_0_l|exact s0_32].
  Qed.

  (* all blocks together *)
  Definition blocks_pass (pos neg : list (list (list pmatch))) : bool :=
    forallb hit pos && forallb (fun b => negb (hit b)) neg.

  Lemma blocks_spec : forall pos neg m rest,
    forallb alts_free pos = true -> forallb alts_free neg = true ->
    exists m',
      run_flat e (emit_blocks c pos neg ++ rest) (set_mark p0 m) = run_flat e rest (set_mark p0 m')
      /\ N.land m' (lnot32 SB) = N.land m (lnot32 SB)
      /\ (is_nil pos && is_nil neg = true -> m' = m)
      /\ (is_nil pos && is_nil neg = false -> N.land m' s0 = bitval s0 (blocks_pass pos neg)).
  Proof.
    intros pos neg m rest Hp Hn. unfold blocks_pass.
    destruct pos as [|b pos].
    - destruct neg as [|nb neg].
      + exists m. cbn. repeat split; auto. discriminate.
      + (* only negated blocks: start from AllBlocks = 1 *)
        cbn [emit_blocks app]. rewrite step_masked. cbn [matches forallb].
        change (set_mark (set_mark p0 m) (setm (c_scratch0 c) (N.lor (c_scratch0 c) (c_scratch1 c)) (pk_mark (set_mark p0 m))))
          with (set_mark p0 (setm s0 SB m)).
        destruct (neg_all (nb :: neg) (setm s0 SB m) true rest Hn) as (m' & R & O & A).
        { cbn [bitval]. rewrite (land_sub _ SB s0 s0); [apply N.land_diag| |apply s0_S].
          apply rd_same; [apply s0_S|apply S_32]. }
        exists m'. split; [exact R|]. split.
        * rewrite O. apply out_setm; [apply s0_S|apply N.land_diag].
        * split; [discriminate|]. intros _. rewrite A. reflexivity.
    - (* positive blocks first: start from both bits 0; the first block writes AllBlocks directly *)
      cbn in Hp. apply andb_prop in Hp. destruct Hp as [Hb Hps].
      assert (Hem : emit_blocks c (b :: pos) neg =
                    mk [] (ASetMaskedMark 0 SB) :: (map (fun ms => mk ms (ASetMark s0)) b ++ emit_pos c 1 pos) ++ emit_neg c neg).
      { unfold emit_blocks. destruct neg; cbn [emit_pos]; cbn [andb Nat.leb app]; rewrite ?andb_false_r; reflexivity. }
      rewrite Hem. cbn [app]. rewrite step_masked. cbn [matches forallb].
      change (set_mark (set_mark p0 m) (setm 0 SB (pk_mark (set_mark p0 m)))) with (set_mark p0 (setm 0 SB m)).
      set (ma := setm 0 SB m).
      assert (Oa : N.land ma (lnot32 SB) = N.land m (lnot32 SB)).
      { unfold ma. apply out_setm; [apply N.land_0_l|apply N.land_diag]. }
      assert (Ra : N.land ma SB = 0). { unfold ma. apply rd_same; [apply N.land_0_l|apply S_32]. }
      assert (Aa : N.land ma s0 = 0). { rewrite (land_sub _ SB s0 0 Ra s0_S). apply N.land_0_l. }
      assert (Ba : N.land ma s1 = 0). { rewrite (land_sub _ SB s1 0 Ra s1_S). apply N.land_0_l. }
      rewrite <- !app_assoc. rewrite run_alts_set by exact Hb.
      set (mb := if hit b then setm s0 s0 ma else ma).
      assert (Ob : N.land mb (lnot32 SB) = N.land m (lnot32 SB)).
      { unfold mb. destruct (hit b); [|exact Oa]. rewrite out_setm; [exact Oa|apply N.land_diag|apply s0_S]. }
      assert (Ab : N.land mb s0 = bitval s0 (hit b)).
      { unfold mb. destruct (hit b); [|exact Aa]. apply rd_same; [apply N.land_diag|exact s0_32]. }
      assert (Bb : N.land mb s1 = 0).
      { unfold mb. destruct (hit b); [|exact Ba]. rewrite rd_other; [exact Ba|apply N.land_diag|exact s10|exact s1_32]. }
      destruct (pos_tail pos 1%nat mb (hit b) (emit_neg c neg ++ rest)) as (mc & Rc & Oc & Ac);
        [lia|exact Hps|exact Ab|intros _; exact Bb|].
      rewrite Rc.
      destruct (neg_all neg mc (hit b && forallb hit pos) rest Hn Ac) as (m' & R & O & A).
      exists m'. split; [exact R|]. split; [rewrite O, Oc; exact Ob|].
      split; [discriminate|]. intros _. rewrite A. reflexivity.
  Qed.
End Blocks.
