(* C08 — the nftables rule text, clause by clause, with what nft makes of it.

   Common/Ipt.v gives ONE abstract rule syntax for both backends.  For nftables the step from the text
   Felix writes (felix/nftables/match_builder.go, actions.go) to that syntax hides some nft behaviour:
     * "tcp dport { .. }" carries an implicit dependency  meta l4proto tcp  (likewise udp/sctp, and
       "icmp type" / "icmpv6 type" depend on l4proto icmp / ipv6-icmp);
     * "ip saddr .." / "ip6 saddr .." only ever match packets of that family;
     * marks are written "meta mark set mark or X", "mark & A", "mark & A ^ X".
   Here the text is a syntax of its own (`nclause`, `nstmt`: one constructor per clause/statement form the
   policy renderer can emit), with its own evaluator `nft_run`, a translation `lower_rule` into Ipt rules,
   and the proof that for well-formed rules (`nrule_wf`: every implicit dependency is backed by an explicit
   "meta l4proto" clause of the same rule, address clauses are of the table's family) both evaluators agree.
   The Go driver only tokenises the real text into this syntax; what the clauses MEAN is decided here. *)
From Coq Require Import List NArith Bool Arith Lia.
From Verif.Common Require Import Packet PolicyRef Ipt.
From Verif.C08 Require Import ProofsMark ProofsMatch.
Import ListNotations.
Open Scope N_scope.

Inductive nclause :=
| NL4Proto (neg : bool) (p : N)                                  (* meta l4proto [!=] p *)
| NMark (mask : N) (neg : bool) (value : N)                      (* meta mark & mask ==|!= value *)
| NAddr (fam : ipver) (src : bool) (neg : bool) (c : cidr)       (* ip|ip6 saddr|daddr [!=] a/len *)
| NAddrSet (fam : ipver) (src : bool) (neg : bool) (id : N)      (* ip|ip6 saddr|daddr [!=] @set *)
| NAddrPortSet (fam : ipver) (src : bool) (neg : bool) (id : N)  (* ip saddr . meta l4proto . th sport [!=] @set *)
| NPorts (tproto : N) (src : bool) (neg : bool) (rs : list port_range)   (* tcp|udp|sctp sport|dport [!=] { .. } *)
| NIcmpType (v6 : bool) (neg : bool) (t : N)                     (* icmp|icmpv6 type [!=] t *)
| NIcmpCode (v6 : bool) (neg : bool) (c : N)                     (* ... code [!=] c  (same header) *)
| NLimit.                                                        (* limit rate .. [burst ..] *)

Inductive nstmt :=
| SNone                       (* "continue": rule without action *)
| SReturn | SDrop | SReject | SAccept
| SMarkOr (x : N)             (* meta mark set mark or x *)
| SMarkAnd (a : N)            (* meta mark set mark & a *)
| SMarkAndXor (a x : N)       (* meta mark set mark & a ^ x *)
| SLog | SNflog.              (* log prefix .. level info / log prefix .. group n *)

Record nrule := { n_clauses : list nclause; n_stmt : nstmt }.

Definition icmp_proto (v6 : bool) : N := if v6 then P_ICMPV6 else P_ICMP.
Definition addr_sel (src : bool) (p : packet) : N := if src then pk_src p else pk_dst p.
Definition port_sel (src : bool) (p : packet) : N := if src then pk_sport p else pk_dport p.

(* the implicit dependency nft attaches to a clause *)
Definition ndep (p : packet) (cl : nclause) : bool :=
  match cl with
  | NAddr fam _ _ _ | NAddrSet fam _ _ _ | NAddrPortSet fam _ _ _ => ipver_eqb fam (pk_ver p)
  | NPorts tp _ _ _ => N.eqb (pk_proto p) tp
  | NIcmpType v6 _ _ | NIcmpCode v6 _ _ => N.eqb (pk_proto p) (icmp_proto v6)
  | _ => true
  end.

(* the comparison itself *)
Definition ncmp (e : env) (p : packet) (cl : nclause) : bool :=
  match cl with
  | NL4Proto neg n => xorb neg (N.eqb (pk_proto p) n)
  | NMark mask neg v => xorb neg (N.eqb (N.land (pk_mark p) mask) v)
  | NAddr _ src neg c => xorb neg (in_cidr c (pk_ver p) (addr_sel src p))
  | NAddrSet _ src neg id => xorb neg (e_sets e id (MemIP (addr_sel src p)))
  | NAddrPortSet _ src neg id => xorb neg (e_sets e id (MemIPPort (addr_sel src p) (pk_proto p) (port_sel src p)))
  | NPorts _ src neg rs => xorb neg (in_ranges rs (port_sel src p))
  | NIcmpType _ neg t => xorb neg (N.eqb (pk_icmp_type p) t)
  | NIcmpCode _ neg c => xorb neg (N.eqb (pk_icmp_code p) c)
  | NLimit => e_other e 0 p
  end.

(* a clause holds when its dependency holds AND the comparison holds *)
Definition nclause_ok (e : env) (p : packet) (cl : nclause) : bool := ndep p cl && ncmp e p cl.
Definition nft_fires (e : env) (p : packet) (r : nrule) : bool := forallb (nclause_ok e p) (n_clauses r).

Fixpoint nft_run (e : env) (rs : list nrule) (p : packet) : result :=
  match rs with
  | [] => RFall p
  | r :: rs' =>
      if nft_fires e p r then
        match n_stmt r with
        | SNone | SLog | SNflog => nft_run e rs' p
        | SReturn => RReturn p
        | SDrop => RDone FDrop p
        | SReject => RDone FReject p
        | SAccept => RDone FAccept p
        | SMarkOr x => nft_run e rs' (set_mark p (N.land (N.lor (pk_mark p) x) M32))
        | SMarkAnd a => nft_run e rs' (set_mark p (N.land (N.land (pk_mark p) a) M32))
        | SMarkAndXor a x => nft_run e rs' (set_mark p (N.land (N.lxor (N.land (pk_mark p) a) x) M32))
        end
      else nft_run e rs' p
  end.

(* ------------------------------------------------------------------ translation to Ipt rules *)
Definition lower_clause (cl : nclause) : pmatch :=
  match cl with
  | NL4Proto neg n => MProto neg n
  | NMark mask neg v => MMark neg v mask
  | NAddr _ true neg c => MSrcNet neg c
  | NAddr _ false neg c => MDstNet neg c
  | NAddrSet _ true neg id => MSrcIpSet neg id
  | NAddrSet _ false neg id => MDstIpSet neg id
  | NAddrPortSet _ true neg id => MSrcIpPortSet neg id
  | NAddrPortSet _ false neg id => MDstIpPortSet neg id
  | NPorts _ true neg rs => MSrcPorts neg rs
  | NPorts _ false neg rs => MDstPorts neg rs
  | NIcmpType _ neg t => MIcmpType neg t
  | NIcmpCode _ neg c => MIcmpCode neg c
  | NLimit => MOther 0
  end.
Definition lower_stmt (s : nstmt) : target :=
  match s with
  | SNone => ANone | SReturn => AReturn | SDrop => ADrop | SReject => AReject | SAccept => AAccept
  | SMarkOr x => AMark (lnot32 x) x          (* (m & ~x) ^ x = m | x *)
  | SMarkAnd a => AMark a 0
  | SMarkAndXor a x => AMark a x
  | SLog => ALog | SNflog => ANflog
  end.
Definition lower_rule (r : nrule) : irule :=
  {| ir_match := map lower_clause (n_clauses r); ir_action := lower_stmt (n_stmt r) |}.

(* ------------------------------------------------------------------ well-formedness *)
Definition has_l4 (n : N) (cls : list nclause) : bool :=
  existsb (fun cl => match cl with NL4Proto false m => N.eqb m n | _ => false end) cls.
Definition clause_wf (v : ipver) (cls : list nclause) (cl : nclause) : bool :=
  match cl with
  | NAddr fam _ _ _ | NAddrSet fam _ _ _ | NAddrPortSet fam _ _ _ => ipver_eqb fam v
  | NPorts tp _ _ _ => has_l4 tp cls
  | NIcmpType v6 _ _ | NIcmpCode v6 _ _ => has_l4 (icmp_proto v6) cls
  | _ => true
  end.
Definition stmt_wf (s : nstmt) : bool :=
  match s with SMarkOr x => N.eqb (N.land x M32) x | _ => true end.
Definition nrule_wf (v : ipver) (r : nrule) : bool :=
  forallb (clause_wf v (n_clauses r)) (n_clauses r) && stmt_wf (n_stmt r).

(* ------------------------------------------------------------------ agreement *)
Lemma ncmp_lower : forall e p cl, ncmp e p cl = match_one e p (lower_clause cl).
Proof. intros e p cl. destruct cl as [| | ? [|] | ? [|] | ? [|] | ? [|] | | |]; reflexivity. Qed.

Lemma has_l4_dep : forall e p n cls,
  has_l4 n cls = true -> forallb (fun cl => ncmp e p cl) cls = true -> N.eqb (pk_proto p) n = true.
Proof.
  intros e p n cls H F. unfold has_l4 in H. apply existsb_exists in H. destruct H as (cl & Hin & Hcl).
  rewrite forallb_forall in F. specialize (F cl Hin).
  destruct cl; try discriminate. destruct neg; [discriminate|]. apply N.eqb_eq in Hcl. subst.
  cbn [ncmp] in F. rewrite xorb_false_l in F. exact F.
Qed.

Lemma nft_fires_lower : forall e p r,
  nrule_wf (pk_ver p) r = true -> nft_fires e p r = matches e p (ir_match (lower_rule r)).
Proof.
  intros e p r W. unfold nrule_wf in W. apply andb_prop in W. destruct W as [W _].
  unfold nft_fires, matches, lower_rule. cbn [ir_match]. rewrite forallb_map.
  assert (E : forallb (fun x => match_one e p (lower_clause x)) (n_clauses r) = forallb (ncmp e p) (n_clauses r)).
  { apply forallb_ext'. intro x. symmetry. apply ncmp_lower. }
  rewrite E. clear E.
  destruct (forallb (ncmp e p) (n_clauses r)) eqn:F.
  - (* all comparisons hold: then every dependency holds too *)
    apply forallb_forall. intros cl Hin. unfold nclause_ok.
    rewrite forallb_forall in W. specialize (W cl Hin).
    pose proof F as F'. rewrite forallb_forall in F'. rewrite (F' cl Hin), andb_true_r.
    destruct cl; try reflexivity; cbn [clause_wf ndep] in *;
      try exact W; try (eapply has_l4_dep; eassumption).
  - (* some comparison fails: the nft rule does not fire either *)
    apply not_true_is_false. intro T. rewrite forallb_forall in T.
    assert (forallb (ncmp e p) (n_clauses r) = true).
    { apply forallb_forall. intros cl Hin. specialize (T cl Hin). unfold nclause_ok in T.
      apply andb_prop in T. exact (proj2 T). }
    congruence.
Qed.

Lemma mark_or_lower : forall x old, N.land x M32 = x ->
  apply_mark (lnot32 x) x old = N.land (N.lor old x) M32.
Proof.
  intros x old H. apply N.bits_inj. intro i.
  rewrite apply_mark_bit, lnot32_bit, N.land_spec, N.lor_spec, M32_bit.
  pose proof (land_eq_bit _ _ _ i H) as Hi. rewrite M32_bit in Hi.
  destruct (N.testbit old i), (N.testbit x i), (i <? 32); cbn in *; congruence.
Qed.

(* MAIN LEMMA: on packets of the table's family, well-formed nft text and its Ipt translation run alike *)
Theorem nft_run_lower : forall e rs p,
  forallb (nrule_wf (pk_ver p)) rs = true ->
  nft_run e rs p = run_flat e (map lower_rule rs) p.
Proof.
  intros e rs. induction rs as [|r rs IH]; intros p W; [reflexivity|].
  cbn [forallb] in W. apply andb_prop in W. destruct W as [Wr Wrs].
  cbn [nft_run map]. unfold run_flat in *. cbn [go].
  rewrite (nft_fires_lower e p r Wr).
  destruct (matches e p (ir_match (lower_rule r))); [|apply IH; exact Wrs].
  unfold nrule_wf in Wr. apply andb_prop in Wr. destruct Wr as [_ Ws].
  destruct (n_stmt r) eqn:Es; cbn [lower_rule ir_action lower_stmt]; rewrite ?Es; cbn [lower_stmt];
    try reflexivity; try (apply IH; exact Wrs).
  1: { cbn [stmt_wf] in Ws. apply N.eqb_eq in Ws. rewrite (mark_or_lower x (pk_mark p) Ws). apply IH. exact Wrs. }
  unfold apply_mark. rewrite N.lxor_0_r. apply IH. exact Wrs.
Qed.
