(* C08 — SplitPortList: the splits partition the input in order, none is empty, none exceeds 15 slots. *)
From Coq Require Import List NArith Bool Arith Lia.
From Verif.Common Require Import Packet PolicyRef Ipt.
From Verif.C08 Require Import Model Spec.
Import ListNotations.

Definition slots_sum (sp : list port_range) : nat := fold_right (fun r n => (slots r + n)%nat) 0%nat sp.

Lemma slots_sum_app : forall a b, slots_sum (a ++ b) = (slots_sum a + slots_sum b)%nat.
Proof.
  induction a as [|x a IH]; intros b; [reflexivity|].
  change (slots_sum ((x :: a) ++ b)) with (slots x + slots_sum (a ++ b))%nat.
  change (slots_sum (x :: a)) with (slots x + slots_sum a)%nat. rewrite IH. lia.
Qed.
Lemma slots_sum_rev : forall a, slots_sum (rev a) = slots_sum a.
Proof.
  induction a as [|x a IH]; [reflexivity|]. cbn [rev]. rewrite slots_sum_app, IH.
  change (slots_sum [x]) with (slots x + 0)%nat. change (slots_sum (x :: a)) with (slots x + slots_sum a)%nat. lia.
Qed.
Lemma slots_sum_cons : forall x a, slots_sum (x :: a) = (slots x + slots_sum a)%nat.
Proof. reflexivity. Qed.
Lemma slots_bounds : forall r, (1 <= slots r <= 2)%nat.
Proof. intros r. unfold slots. destruct (N.eqb _ _); lia. Qed.

Lemma split_go_concat : forall ports avail cur,
  concat (split_go ports avail cur) = rev cur ++ ports.
Proof.
  induction ports as [|pr rest IH]; intros avail cur; cbn [split_go].
  - destruct cur; cbn; [reflexivity|]. rewrite !app_nil_r. reflexivity.
  - destruct (avail <? slots pr)%nat.
    + cbn [concat]. rewrite IH. reflexivity.
    + rewrite IH. cbn [rev]. rewrite <- app_assoc. reflexivity.
Qed.

Lemma split_go_sizes : forall ports avail cur,
  (slots_sum cur + avail <= 15)%nat -> (cur = [] -> 2 <= avail)%nat ->
  Forall (fun sp => sp <> [] /\ (slots_sum sp <= 15)%nat) (split_go ports avail cur).
Proof.
  induction ports as [|pr rest IH]; intros avail cur Hs Hc; cbn [split_go].
  - destruct cur as [|x cur]; [constructor|]. constructor; [|constructor]. split.
    + intro H. apply (f_equal (@length _)) in H. rewrite rev_length in H. discriminate.
    + rewrite slots_sum_rev. lia.
  - pose proof (slots_bounds pr) as Hb.
    destruct (avail <? slots pr)%nat eqn:E.
    + apply Nat.ltb_lt in E. constructor.
      * split.
        -- destruct cur; [specialize (Hc eq_refl); lia|].
           intro H. apply (f_equal (@length _)) in H. rewrite rev_length in H. discriminate.
        -- rewrite slots_sum_rev. lia.
      * apply IH; [rewrite slots_sum_cons; cbn [slots_sum fold_right]; lia|discriminate].
    + apply Nat.ltb_ge in E. apply IH; [rewrite slots_sum_cons; lia|discriminate].
Qed.

Lemma split_ports_partition : forall ports,
  concat (split_ports ports) = ports
  /\ Forall (fun sp => sp <> [] /\ (slots_sum sp <= 15)%nat) (split_ports ports).
Proof.
  intros ports. unfold split_ports. split.
  - apply split_go_concat.
  - apply split_go_sizes; [cbn; lia|lia].
Qed.

(* membership in the whole list = membership in one of the splits *)
Lemma in_ranges_concat : forall ls p, in_ranges (concat ls) p = existsb (fun l => in_ranges l p) ls.
Proof.
  induction ls as [|l ls IH]; intros p; cbn [concat existsb]; [reflexivity|].
  unfold in_ranges in *. rewrite existsb_app, IH. reflexivity.
Qed.
Lemma in_ranges_split : forall ports p,
  existsb (fun l => in_ranges l p) (split_ports ports) = in_ranges ports p.
Proof. intros. rewrite <- in_ranges_concat. rewrite (proj1 (split_ports_partition ports)). reflexivity. Qed.

Lemma split_ports_nil : forall ports, split_ports ports = [] <-> ports = [].
Proof.
  intros ports. split; intro H.
  - pose proof (proj1 (split_ports_partition ports)) as Hc. rewrite H in Hc. cbn in Hc. congruence.
  - subst. reflexivity.
Qed.
