(* C08 — the rendered rules of one (already version-filtered) rule do what the rule says. *)
From Coq Require Import List NArith Bool Arith Lia.
From Verif.Common Require Import Packet PolicyRef Ipt.
From Verif.C08 Require Import Model Spec ProofsSplit ProofsMark ProofsBlocks ProofsMatch ProofsMain.
Import ListNotations.
Open Scope N_scope.

Lemma packet_eta : forall p, set_mark p (pk_mark p) = p.
Proof. destruct p; reflexivity. Qed.

Lemma land_lor_0 : forall a b c, N.land a b = 0 -> N.land a c = 0 -> N.land a (N.lor b c) = 0.
Proof. intros a b c H1 H2. rewrite N.land_lor_distr_r, H1, H2. reflexivity. Qed.

Lemma outside_read : forall s b m m',
  N.land m' (lnot32 s) = N.land m (lnot32 s) -> N.land b s = 0 -> N.land b M32 = b ->
  N.land m' b = N.land m b.
Proof.
  intros s b m m' O Hb H32. apply N.bits_inj. intro i. rewrite !N.land_spec.
  pose proof (f_equal (fun x => N.testbit x i) O) as Oi. cbn in Oi. rewrite !N.land_spec, !lnot32_bit in Oi.
  pose proof (land_eq_bit _ _ _ i Hb) as Hbi. rewrite N.bits_0 in Hbi.
  pose proof (land_eq_bit _ _ _ i H32) as H32i. rewrite M32_bit in H32i.
  destruct (N.testbit m i), (N.testbit m' i), (N.testbit s i), (N.testbit b i), (i <? 32); cbn in *; congruence.
Qed.

Lemma frame_general : forall v b t old,
  N.land v b = v -> N.land b t = b ->
  N.land (setm v b old) (lnot32 t) = N.land old (lnot32 t).
Proof.
  intros. unfold setm. apply masked_set_frame; [assumption| |apply lnot32_le]. apply lnot32_disjoint. assumption.
Qed.

(* what marks_ok gives *)
Definition wf_bit (m : N) : Prop := m <> 0 /\ N.land m M32 = m.
Lemma marks_ok_facts : forall c, marks_ok c = true ->
  wf_bit (c_accept c) /\ wf_bit (c_pass c) /\ wf_bit (c_drop c) /\ wf_bit (c_scratch0 c) /\ wf_bit (c_scratch1 c)
  /\ N.land (c_accept c) (c_scratch0 c) = 0 /\ N.land (c_accept c) (c_scratch1 c) = 0
  /\ N.land (c_pass c) (c_scratch0 c) = 0 /\ N.land (c_pass c) (c_scratch1 c) = 0
  /\ N.land (c_drop c) (c_scratch0 c) = 0 /\ N.land (c_drop c) (c_scratch1 c) = 0
  /\ N.land (c_scratch0 c) (c_scratch1 c) = 0.
Proof.
  intros c H. unfold marks_ok in H. cbn [forallb] in H.
  repeat (apply andb_prop in H; destruct H as [H ?]).
  unfold disjoint in *.
  assert (W : forall m, negb (N.eqb m 0) && N.leb m M32 = true -> wf_bit m).
  { intros m Hm. apply andb_prop in Hm. destruct Hm as [Hz Hl]. split.
    - intro E. subst. discriminate.
    - apply le_M32_land. exact Hl. }
  repeat match goal with Hx : N.eqb _ 0 = true |- _ => apply N.eqb_eq in Hx end.
  repeat (apply andb_prop in H10; destruct H10 as [? H10]).
  repeat match goal with |- _ /\ _ => split end; try assumption; try (apply W; assumption).
  apply W. rewrite H, H11. reflexivity.
Qed.

Definition terminal (t : target) (q : packet) : result :=
  match t with AReturn => RReturn q | ADrop => RDone FDrop q | AReject => RDone FReject q | _ => RBadChain end.

Section Exact.
  Variable c : cfg.
  Variable e : env.
  Hypothesis Hmarks : marks_ok c = true.

  (* the verdict rules: "match -> set verdict bit", then the action rules guarded by the verdict bit *)
  Lemma verdict_rules : forall vb M t p m,
    (t = AReturn \/ t = ADrop \/ t = AReject) ->
    wf_bit vb ->
    run_flat e (mk M (ASetMark vb)
                :: map (fun x => mk (ir_match x ++ [MMark false vb vb]) (ir_action x)) (nflog_rules c ++ [mk [] t]))
             (set_mark p m)
    = if matches e (set_mark p m) M then terminal t (set_mark p (setm vb vb m))
      else if N.eqb (N.land m vb) vb then terminal t (set_mark p m) else RFall (set_mark p m).
  Proof.
    intros vb M t p m Ht [Hnz H32].
    unfold ASetMark. rewrite step_masked.
    assert (G : forall q, run_flat e (map (fun x => mk (ir_match x ++ [MMark false vb vb]) (ir_action x)) (nflog_rules c ++ [mk [] t])) q
                = if N.eqb (N.land (pk_mark q) vb) vb then terminal t q else RFall q).
    { intro q. unfold nflog_rules.
      assert (Hm : matches e q [MMark false vb vb] = N.eqb (N.land (pk_mark q) vb) vb).
      { cbn [matches forallb match_one]. rewrite xorb_false_l, andb_true_r. reflexivity. }
      destruct Ht as [-> | [-> | ->]]; destruct (negb (c_untracked c) && c_flowlogs c);
        unfold run_flat; cbn [app map go ir_match ir_action mk]; rewrite ?Hm;
        destruct (N.eqb (N.land (pk_mark q) vb) vb); reflexivity. }
    rewrite !G.
    change (pk_mark (set_mark p m)) with m.
    change (set_mark (set_mark p m) (setm vb vb m)) with (set_mark p (setm vb vb m)).
    change (pk_mark (set_mark p (setm vb vb m))) with (setm vb vb m).
    destruct (matches e (set_mark p m) M); [|reflexivity].
    rewrite rd_same; [|apply N.land_diag|exact H32]. rewrite N.eqb_refl. reflexivity.
  Qed.

  Hypothesis Hfixed : c_fixed c = true.

  Theorem render_filtered_exact : forall r p,
    in_domain c r = true ->
    rule_version_ok r (pk_ver p) = true ->
    entry_ok c (r_action r) p = true ->
    ok_outcome c (e_sets e) r p (run_flat e (render_filtered c r) p) = true.
  Proof.
    intros r p Hd Hv He.
    destruct (marks_ok_facts c Hmarks) as (Wa & Wp & Wd & [s0nz s032] & [s1nz s132] & as0 & as1 & ps0 & ps1 & ds0 & ds1 & s01).
    set (m := pk_mark p).
    replace (run_flat e (render_filtered c r) p) with (run_flat e (render_filtered c r) (set_mark p m))
      by (unfold m; rewrite packet_eta; reflexivity).
    unfold render_filtered.
    set (pos := pos_blocks r). set (neg := neg_blocks r).
    set (M := main_match c r ++ (if negb (is_nil pos && is_nil neg) then [MMark false (c_scratch0 c) (c_scratch0 c)] else [])).
    destruct (blocks_spec c e p s032 s132 s0nz s1nz s01 Hfixed pos neg m (combine_actions c (r_action r) M)
                (free_pos_blocks r) (free_neg_blocks r)) as (m' & R & O & Hnil & Hblk).
    rewrite R. clear R.
    (* when does the main rule fire *)
    assert (Fire : matches e (set_mark p m') M = rule_matches (e_sets e) r p).
    { rewrite <- (fire_iff c e p r Hv Hd). unfold M. rewrite matches_app.
      rewrite matches_mfree by apply main_match_free.
      fold pos neg. rewrite andb_comm. f_equal.
      destruct (is_nil pos && is_nil neg) eqn:E; cbn [negb].
      - destruct pos; [|discriminate]. destruct neg; [|discriminate]. reflexivity.
      - cbn [matches forallb match_one]. rewrite xorb_false_l, andb_true_r.
        change (pk_mark (set_mark p m')) with m'. rewrite (Hblk eq_refl).
        destruct (blocks_pass e p pos neg); cbn [bitval].
        + apply N.eqb_refl.
        + apply N.eqb_neq. intro X. apply s0nz. symmetry. exact X. }
    unfold ok_outcome. rewrite <- Fire. fold m.
    set (SB := N.lor (c_scratch0 c) (c_scratch1 c)) in *.
    assert (OS : same_outside (scratch c) m m' = true).
    { unfold same_outside, scratch. fold SB. rewrite O. apply N.eqb_refl. }
    unfold entry_ok in He.
    unfold mark_clear in He. apply N.eqb_eq in He. fold m in He.
    (* the three verdict actions share one argument *)
    assert (V : forall vb t, wf_bit vb -> N.land vb (c_scratch0 c) = 0 -> N.land vb (c_scratch1 c) = 0 ->
                N.land m vb = 0 -> (t = AReturn \/ t = ADrop \/ t = AReject) ->
                let res := run_flat e (mk M (ASetMark vb)
                     :: map (fun x => mk (ir_match x ++ [MMark false vb vb]) (ir_action x)) (nflog_rules c ++ [mk [] t]))
                     (set_mark p m') in
                if matches e (set_mark p m') M
                then exists q, res = terminal t q /\ mark_has (pk_mark q) vb = true
                               /\ same_outside (N.lor (scratch c) vb) m (pk_mark q) = true
                else fell_through c m res = true).
    { intros vb t Wv v0 v1 Hm0 Ht res. unfold res. rewrite (verdict_rules vb M t p m' Ht Wv).
      destruct Wv as [vnz v32].
      assert (vS : N.land vb SB = 0) by (apply land_lor_0; assumption).
      destruct (matches e (set_mark p m') M).
      - exists (set_mark p (setm vb vb m')). split; [reflexivity|]. change (pk_mark (set_mark p (setm vb vb m'))) with (setm vb vb m').
        split.
        + unfold mark_has. rewrite rd_same; [apply N.eqb_refl|apply N.land_diag|exact v32].
        + unfold same_outside. apply N.eqb_eq.
          rewrite frame_general; [|apply N.land_diag|apply land_lor_r].
          symmetry. apply (outside_weaken SB); [apply land_lor_l|]. exact O.
      - rewrite (outside_read SB vb m m' O vS v32), Hm0.
        destruct (N.eqb_spec 0 vb) as [X|_]; [exfalso; apply vnz; symmetry; exact X|].
        cbn [fell_through]. exact OS. }
    destruct (r_action r) eqn:Ea; cbn [combine_actions action_rules verdict_mark] in *.
    - (* allow *)
      specialize (V (c_accept c) AReturn Wa as0 as1 He (or_introl eq_refl)). cbn zeta in V.
      destruct (matches e (set_mark p m') M).
      + destruct V as (q & -> & V1 & V2). cbn [terminal took_action verdict_mark]. rewrite V1, V2. reflexivity.
      + exact V.
    - (* deny *)
      assert (Hdt : deny_target c = ADrop \/ deny_target c = AReject) by (unfold deny_target; destruct (c_deny c); auto).
      specialize (V (c_drop c) (deny_target c) Wd ds0 ds1 He (or_intror Hdt)). cbn zeta in V.
      destruct (matches e (set_mark p m') M).
      + destruct V as (q & -> & V1 & V2). unfold deny_target, took_action. destruct (c_deny c); cbn [terminal verdict_mark]; rewrite V1, V2; reflexivity.
      + exact V.
    - (* pass *)
      specialize (V (c_pass c) AReturn Wp ps0 ps1 He (or_introl eq_refl)). cbn zeta in V.
      destruct (matches e (set_mark p m') M).
      + destruct V as (q & -> & V1 & V2). cbn [terminal took_action verdict_mark]. rewrite V1, V2. reflexivity.
      + exact V.
    - (* log: a LOG rule, then on to the next rule whatever happened *)
      assert (L : run_flat e (map (fun x => mk (ir_match x ++ M) (ir_action x))
                                  [mk (if c_log_limit c then [MOther 0] else []) ALog]) (set_mark p m')
                  = RFall (set_mark p m')).
      { unfold run_flat. cbn [map go ir_match ir_action mk].
        match goal with |- (if ?b then _ else _) = _ => destruct b end; reflexivity. }
      rewrite L. destruct (matches e (set_mark p m') M); cbn [took_action fell_through]; exact OS.
  Qed.
End Exact.
