(* C08 — top-level statements about render_rule, assembled from the other proof files. *)
From Coq Require Import List NArith Bool Arith Lia String.
From Verif.Common Require Import Packet PolicyRef Ipt.
From Verif.C08 Require Import Model Spec ProofsSplit ProofsMark ProofsBlocks ProofsMatch ProofsMain ProofsExact ProofsFilter.
Import ListNotations.
Open Scope N_scope.

(* ---------------------------------------------------------------- the rendered rules contain no jumps *)
Lemma targets_app : forall a b, targets (a ++ b) = targets a ++ targets b.
Proof. intros. unfold targets. apply flat_map_app. Qed.
Lemma targets_map : forall {A} (f : A -> irule) l, (forall x, targets_of (f x) = []) -> targets (map f l) = [].
Proof. intros A f l H. induction l as [|x l IH]; [reflexivity|]. unfold targets in *. cbn [map flat_map]. rewrite H, IH. reflexivity. Qed.

Lemma emit_pos_jump_free : forall c bs idx, targets (emit_pos c idx bs) = [].
Proof.
  intros c bs. induction bs as [|b bs IH]; intro idx; [reflexivity|].
  cbn [emit_pos]. rewrite !targets_app, IH, app_nil_r.
  rewrite (targets_map _ b) by reflexivity.
  destruct (c_fixed c && (2 <=? idx)%nat); destruct idx; reflexivity.
Qed.
Lemma emit_neg_jump_free : forall c bs, targets (emit_neg c bs) = [].
Proof. intros. unfold emit_neg. apply targets_map. reflexivity. Qed.

Lemma render_filtered_jump_free : forall c r, jump_free (render_filtered c r).
Proof.
  intros c r. unfold jump_free, render_filtered. rewrite targets_app.
  assert (H1 : targets (emit_blocks c (pos_blocks r) (neg_blocks r)) = []).
  { unfold emit_blocks. destruct (pos_blocks r) as [|b bs].
    - destruct (neg_blocks r); [reflexivity|]. change (targets (?x :: ?l)) with (targets_of x ++ targets l).
      rewrite emit_neg_jump_free. reflexivity.
    - assert (H : forall x l, targets (x :: l) = targets_of x ++ targets l) by reflexivity.
      destruct (neg_blocks r); rewrite H, targets_app, emit_pos_jump_free, emit_neg_jump_free; reflexivity. }
  rewrite H1. cbn [app].
  unfold combine_actions, action_rules, nflog_rules, deny_target.
  destruct (r_action r); destruct (negb (c_untracked c) && c_flowlogs c); destruct (c_deny c); reflexivity.
Qed.

Lemma render_rule_jump_free : forall c v r, jump_free (render_rule c v r).
Proof. intros. unfold render_rule. destruct (filter_rule v r); [apply render_filtered_jump_free|reflexivity]. Qed.

(* ---------------------------------------------------------------- exactness of render_rule *)
Theorem rule_exact : forall c e r p fuel cs,
  marks_ok c = true -> c_fixed c = true -> in_domain c r = true ->
  wf_packet p -> entry_ok c (r_action r) p = true ->
  ok_outcome c (e_sets e) r p (run (S fuel) cs e (render_rule c (pk_ver p) r) p) = true.
Proof.
  intros c e r p fuel cs Hm Hf Hd Hw He.
  rewrite run_jump_free by apply render_rule_jump_free.
  unfold render_rule. pose proof (filter_version (e_sets e) r p Hw) as F.
  destruct (filter_rule (pk_ver p) r) as [r'|].
  - destruct F as (F1 & F2 & F3 & F4).
    assert (Hd' : in_domain c r' = true) by (unfold in_domain in *; rewrite F4; exact Hd).
    assert (He' : entry_ok c (r_action r') p = true) by (rewrite F3; exact He).
    pose proof (render_filtered_exact c e Hm Hf r' p Hd' F2 He') as X.
    unfold ok_outcome in *. rewrite F1, F3 in X. exact X.
  - unfold ok_outcome. rewrite F. cbn [run_flat go fell_through]. unfold same_outside. apply N.eqb_refl.
Qed.

(* the oracle accepts every model run: stated for the evaluator the check uses *)
Corollary rule_exact_flat : forall c e r p,
  marks_ok c = true -> c_fixed c = true -> in_domain c r = true ->
  wf_packet p -> entry_ok c (r_action r) p = true ->
  ok_outcome c (e_sets e) r p (run_flat e (render_rule c (pk_ver p) r) p) = true.
Proof.
  intros. rewrite <- (run_jump_free 0 [] e) by apply render_rule_jump_free. apply rule_exact; assumption.
Qed.

(* ---------------------------------------------------------------- the code as pinned (no fix) *)
Definition cfg0 (fixed : bool) : cfg :=
  {| c_flavor := Iptables; c_accept := 0x80; c_pass := 0x100; c_drop := 0x800; c_scratch0 := 0x200; c_scratch1 := 0x400;
     c_flowlogs := false; c_untracked := false; c_deny := DenyDrop; c_log_limit := false; c_fixed := fixed |}.
Definition v4 (a : N) (l : N) : cidr := {| cidr_ver := V4; cidr_addr := a; cidr_len := l |}.
(* allow from named ports {s0,s1} to named ports {s2,s3} from 10.0.0.0/8 or 11.0.0.0/8: three positive blocks *)
Definition rule3 : rule :=
  {| r_action := Allow; r_ipver := None; r_proto := None; r_src_nets := [v4 167772160 8; v4 184549376 8];
     r_src_ports := []; r_src_named_ports := [0; 1];
     r_dst_nets := []; r_dst_ports := []; r_dst_named_ports := [2; 3]; r_icmp := None;
     r_src_ipsets := []; r_dst_ipsets := []; r_dst_ipport_sets := [];
     r_not_proto := None; r_not_src_nets := []; r_not_src_ports := []; r_not_dst_nets := []; r_not_dst_ports := [];
     r_not_icmp := None; r_not_src_ipsets := []; r_not_dst_ipsets := [];
     r_not_src_named_ports := []; r_not_dst_named_ports := [] |}.
(* a TCP packet from 12.0.0.1:1000 (in set s0) to 10.0.0.2:80 (in set s2): source address outside both CIDRs *)
Definition pkt3 : packet :=
  {| pk_ver := V4; pk_proto := 6; pk_src := 201326593; pk_dst := 167772162; pk_sport := 1000; pk_dport := 80;
     pk_icmp_type := 0; pk_icmp_code := 0; pk_in := []; pk_out := []; pk_ct := CtNew; pk_mark := 0 |}.
Definition env3 : env :=
  {| e_sets := ipsets_of_list [(0, [MemIPPort 201326593 6 1000]); (2, [MemIPPort 167772162 6 80])];
     e_other := fun _ _ => true |}.

Lemma witness3_hyps :
  marks_ok (cfg0 false) = true /\ in_domain (cfg0 false) rule3 = true /\ wf_packet pkt3
  /\ entry_ok (cfg0 false) (r_action rule3) pkt3 = true /\ rule_matches (e_sets env3) rule3 pkt3 = false.
Proof. repeat split; vm_compute; reflexivity. Qed.

Theorem rule_exact_refuted_unfixed :
  exists c e r p,
    c_fixed c = false /\ marks_ok c = true /\ in_domain c r = true /\ wf_packet p /\ entry_ok c (r_action r) p = true
    /\ rule_matches (e_sets e) r p = false
    /\ (exists p', run_flat e (render_rule c (pk_ver p) r) p = RReturn p' /\ mark_has (pk_mark p') (c_accept c) = true)
    /\ ok_outcome c (e_sets e) r p (run_flat e (render_rule c (pk_ver p) r) p) = false.
Proof.
  exists (cfg0 false), env3, rule3, pkt3.
  destruct witness3_hyps as (H1 & H2 & H3 & H4 & H5).
  split; [reflexivity|]. split; [exact H1|]. split; [exact H2|]. split; [exact H3|]. split; [exact H4|].
  split; [exact H5|]. split.
  - eexists. split; vm_compute; reflexivity.
  - vm_compute. reflexivity.
Qed.

(* with the fix the same rule and packet fall through, as the theorem says *)
Example witness3_fixed :
  run_flat env3 (render_rule (cfg0 true) V4 rule3) pkt3 = RFall (set_mark pkt3 0).
Proof. vm_compute. reflexivity. Qed.
Example rule_exact_hyps_satisfiable :
  marks_ok (cfg0 true) = true /\ c_fixed (cfg0 true) = true /\ in_domain (cfg0 true) rule3 = true
  /\ wf_packet pkt3 /\ entry_ok (cfg0 true) (r_action rule3) pkt3 = true
  /\ List.length (render_rule (cfg0 true) V4 rule3) = 12%nat.
Proof. repeat split; vm_compute; reflexivity. Qed.

(* ---------------------------------------------------------------- nftables NotICMP type+code *)
Definition cfg_nft : cfg :=
  {| c_flavor := Nft; c_accept := 0x80; c_pass := 0x100; c_drop := 0x800; c_scratch0 := 0x200; c_scratch1 := 0x400;
     c_flowlogs := false; c_untracked := false; c_deny := DenyDrop; c_log_limit := false; c_fixed := true |}.
Definition rule_nicmp : rule :=
  {| r_action := Allow; r_ipver := None; r_proto := Some 1; r_src_nets := []; r_src_ports := []; r_src_named_ports := [];
     r_dst_nets := []; r_dst_ports := []; r_dst_named_ports := []; r_icmp := None;
     r_src_ipsets := []; r_dst_ipsets := []; r_dst_ipport_sets := [];
     r_not_proto := None; r_not_src_nets := []; r_not_src_ports := []; r_not_dst_nets := []; r_not_dst_ports := [];
     r_not_icmp := Some (IcmpTypeCode 8 0); r_not_src_ipsets := []; r_not_dst_ipsets := [];
     r_not_src_named_ports := []; r_not_dst_named_ports := [] |}.
Definition pkt_icmp : packet :=
  {| pk_ver := V4; pk_proto := 1; pk_src := 1; pk_dst := 2; pk_sport := 0; pk_dport := 0;
     pk_icmp_type := 8; pk_icmp_code := 1; pk_in := []; pk_out := []; pk_ct := CtNew; pk_mark := 0 |}.

Theorem nft_not_icmp_refuted :
  exists c e r p,
    c_flavor c = Nft /\ marks_ok c = true /\ c_fixed c = true /\ in_domain c r = false /\ wf_packet p
    /\ entry_ok c (r_action r) p = true
    /\ rule_matches (e_sets e) r p = true
    /\ ok_outcome c (e_sets e) r p (run_flat e (render_rule c (pk_ver p) r) p) = false.
Proof.
  exists cfg_nft, {| e_sets := fun _ _ => false; e_other := fun _ _ => true |}, rule_nicmp, pkt_icmp.
  repeat split; vm_compute; reflexivity.
Qed.
