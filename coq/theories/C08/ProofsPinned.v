(* C08 — the code AS PINNED (no scratch-bit fix, c_fixed = false) is exact for every rule that needs at most
   two positive match blocks: only the third and later positive blocks re-use a dirty scratch bit.
   Together with rule_exact_refuted_unfixed (a rule with exactly three positive blocks) this locates the
   defect precisely.  Proof: with <= 2 positive blocks the pinned and the patched renderer emit the same
   rules, so rule_exact (proved for the patched model) transfers. *)
From Coq Require Import List NArith Bool Arith Lia.
From Verif.Common Require Import Packet PolicyRef Ipt.
From Verif.C08 Require Import Model Spec ProofsFilter Proofs ProofsChain.
Import ListNotations.
Open Scope N_scope.

(* number of positive match blocks the rule needs when rendered for version v (0 if it is filtered out) *)
Definition pos_block_count (v : ipver) (r : rule) : nat :=
  match filter_rule v r with Some r' => length (pos_blocks r') | None => 0%nat end.

Lemma emit_pos_fix_irrelevant : forall c bs idx,
  (idx + length bs <= 2)%nat -> emit_pos c idx bs = emit_pos (set_fixed c true) idx bs.
Proof.
  intros c bs. induction bs as [|b bs IH]; intros idx H; [reflexivity|].
  cbn [length] in H. cbn [emit_pos].
  assert (E : (2 <=? idx)%nat = false) by (apply Nat.leb_gt; lia).
  rewrite E, !andb_false_r. rewrite (IH (S idx)) by lia. reflexivity.
Qed.

Lemma render_filtered_fix_irrelevant : forall c r,
  (length (pos_blocks r) <= 2)%nat -> render_filtered c r = render_filtered (set_fixed c true) r.
Proof.
  intros c r H. unfold render_filtered. f_equal.
  unfold emit_blocks. destruct (pos_blocks r) as [|b bs] eqn:E; [reflexivity|].
  assert (X : emit_pos c 0 (b :: bs) = emit_pos (set_fixed c true) 0 (b :: bs))
    by (apply emit_pos_fix_irrelevant; cbn [length] in *; lia).
  destruct (neg_blocks r); rewrite X; reflexivity.
Qed.

Lemma render_rule_fix_irrelevant : forall c v r,
  (pos_block_count v r <= 2)%nat -> render_rule c v r = render_rule (set_fixed c true) v r.
Proof.
  intros c v r H. unfold render_rule, pos_block_count in *.
  destruct (filter_rule v r); [apply render_filtered_fix_irrelevant; exact H|reflexivity].
Qed.

Theorem rule_exact_pinned : forall c e r p fuel cs,
  marks_ok c = true -> in_domain c r = true -> (pos_block_count (pk_ver p) r <= 2)%nat ->
  wf_packet p -> entry_ok c (r_action r) p = true ->
  ok_outcome c (e_sets e) r p (run (S fuel) cs e (render_rule c (pk_ver p) r) p) = true.
Proof.
  intros c e r p fuel cs Hm Hd Hk Hw He.
  rewrite (render_rule_fix_irrelevant c (pk_ver p) r Hk).
  exact (rule_exact (set_fixed c true) e r p fuel cs Hm eq_refl Hd Hw He).
Qed.

(* rule lists: every rule of the chain needs at most two positive blocks *)
Lemma render_rules_fix_irrelevant : forall c v rules,
  forallb (fun r => Nat.leb (pos_block_count v r) 2) rules = true ->
  render_rules c v rules = render_rules (set_fixed c true) v rules.
Proof.
  intros c v rules. unfold render_rules. induction rules as [|r rules IH]; intro H; [reflexivity|].
  cbn [forallb] in H. apply andb_prop in H. destruct H as [H1 H2]. apply Nat.leb_le in H1.
  cbn [flat_map]. rewrite (render_rule_fix_irrelevant c v r H1), (IH H2). reflexivity.
Qed.

Theorem policy_rules_exact_pinned : forall c e, marks_ok c = true ->
  forall rules p,
    forallb (in_domain c) rules = true ->
    forallb (fun r => Nat.leb (pos_block_count (pk_ver p) r) 2) rules = true ->
    wf_packet p -> verdict_clear c (pk_mark p) = true ->
    chain_outcome c (policy_verdict (e_sets e) rules p) p (run_flat e (render_rules c (pk_ver p) rules) p).
Proof.
  intros c e Hm rules p Hd Hk Hw Hc.
  rewrite (render_rules_fix_irrelevant c (pk_ver p) rules Hk).
  exact (policy_rules_exact (set_fixed c true) e Hm eq_refl rules p Hd Hw Hc).
Qed.

(* the refutation witness sits exactly on the boundary *)
Lemma witness3_block_count : pos_block_count V4 rule3 = 3%nat.
Proof. vm_compute. reflexivity. Qed.
