(* C08 — FilterRuleToIPVersion / filterNets: for packets of the version being rendered the filtered rule
   means what the original means; a rule that is dropped matches no packet of that version. *)
From Coq Require Import List NArith Bool Arith Lia Btauto.
From Verif.Common Require Import Packet PolicyRef Ipt.
From Verif.C08 Require Import Model Spec ProofsMatch.
Import ListNotations.
Open Scope N_scope.

Definition has_ca (nets : list cidr) (v : ipver) : bool :=
  existsb (fun c => ipver_eqb (cidr_ver c) v && cidr_is_catch_all c) nets.
Definition keep (nets : list cidr) (v : ipver) : list cidr :=
  filter (fun c => ipver_eqb (cidr_ver c) v) nets.

Lemma fng_spec : forall nets v neg acc all,
  filter_nets_go nets v neg acc all =
  if neg && has_ca nets v then ([], true) else (rev acc ++ keep nets v, all && is_nil (keep nets v)).
Proof.
  induction nets as [|c rest IH]; intros v neg acc all; cbn [filter_nets_go has_ca existsb keep filter].
  - rewrite andb_false_r, app_nil_r, andb_true_r. reflexivity.
  - fold (has_ca rest v). fold (keep rest v).
    destruct (ipver_eqb (cidr_ver c) v) eqn:E; cbn [negb andb orb].
    + destruct (neg && cidr_is_catch_all c) eqn:E2.
      * apply andb_prop in E2. destruct E2 as [-> ->]. reflexivity.
      * rewrite IH. cbn [rev is_nil]. rewrite <- app_assoc, andb_false_r. cbn [app andb].
        destruct neg; cbn [andb] in *; [rewrite E2|]; reflexivity.
    + apply IH.
Qed.

Lemma filter_nets_spec : forall nets v neg,
  filter_nets nets v neg =
  match nets with
  | [] => ([], false)
  | _ => if neg && has_ca nets v then ([], true) else (keep nets v, is_nil (keep nets v))
  end.
Proof. intros [|c rest] v neg; [reflexivity|]. unfold filter_nets. rewrite fng_spec. reflexivity. Qed.

Lemma in_cidr_ver : forall c v x, ipver_eqb (cidr_ver c) v = false -> in_cidr c v x = false.
Proof. intros c v x H. unfold in_cidr. rewrite H. reflexivity. Qed.

Lemma existsb_keep : forall nets v x,
  existsb (fun c => in_cidr c v x) (keep nets v) = existsb (fun c => in_cidr c v x) nets.
Proof.
  induction nets as [|c rest IH]; intros v x; [reflexivity|]. cbn [keep filter existsb]. fold (keep rest v).
  destruct (ipver_eqb (cidr_ver c) v) eqn:E.
  - cbn [existsb]. rewrite IH. reflexivity.
  - rewrite IH, (in_cidr_ver _ _ _ E). reflexivity.
Qed.

Lemma fhv_keep : forall nets v, field_has_version nets v = is_nil nets || negb (is_nil (keep nets v)).
Proof.
  intros nets v. unfold field_has_version. f_equal.
  induction nets as [|c rest IH]; [reflexivity|]. cbn [existsb keep filter]. fold (keep rest v).
  destruct (ipver_eqb (cidr_ver c) v); [reflexivity|]. exact IH.
Qed.

Lemma fhv_of_keep : forall nets v, field_has_version (keep nets v) v = true.
Proof.
  intros nets v. unfold field_has_version.
  induction nets as [|c rest IH]; [reflexivity|]. cbn [keep filter]. fold (keep rest v).
  destruct (ipver_eqb (cidr_ver c) v) eqn:E; [|exact IH]. cbn [is_nil existsb orb]. rewrite E. reflexivity.
Qed.

Lemma catch_all_contains : forall c v x,
  x < 2 ^ addr_width v -> ipver_eqb (cidr_ver c) v = true -> cidr_is_catch_all c = true -> in_cidr c v x = true.
Proof.
  intros c v x Hx Hv Hc. unfold in_cidr. rewrite Hv. cbn [andb].
  unfold cidr_is_catch_all in Hc. apply andb_prop in Hc. destruct Hc as [Ha Hl].
  apply N.eqb_eq in Ha. apply N.eqb_eq in Hl. rewrite Ha, Hl, N.sub_0_r, N.shiftr_0_l.
  apply N.eqb_eq.
  rewrite N.shiftr_div_pow2. apply N.div_small. exact Hx.
Qed.

Lemma has_ca_contains : forall nets v x,
  x < 2 ^ addr_width v -> has_ca nets v = true -> existsb (fun c => in_cidr c v x) nets = true.
Proof.
  intros nets v x Hx. unfold has_ca. induction nets as [|c rest IH]; [discriminate|]. cbn [existsb]. intro H.
  apply orb_prop in H. destruct H as [H|H].
  - apply andb_prop in H. destruct H as [H1 H2]. rewrite (catch_all_contains c v x Hx H1 H2). reflexivity.
  - rewrite (IH H). apply orb_true_r.
Qed.

(* positive CIDR field *)
Lemma pos_field : forall nets v x f a,
  filter_nets nets v false = (f, a) ->
  (a = true -> field_has_version nets v = false)
  /\ (a = false -> field_has_version nets v = true /\ field_has_version f v = true /\ nets_ok f v x = nets_ok nets v x).
Proof.
  intros nets v x f a H. rewrite filter_nets_spec in H. destruct nets as [|c rest].
  - inversion H. subst. split; [discriminate|]. auto.
  - cbn [andb] in H. rewrite fhv_keep. set (k := keep (c :: rest) v) in *.
    inversion H. subst. clear H. change (is_nil (c :: rest)) with false. rewrite orb_false_l.
    split; intro Hk.
    + rewrite Hk. reflexivity.
    + rewrite Hk. split; [reflexivity|]. split; [apply fhv_of_keep|].
      unfold nets_ok. rewrite Hk. change (is_nil (c :: rest)) with false. rewrite !orb_false_l. apply existsb_keep.
Qed.

(* negated CIDR field *)
Lemma neg_field : forall nets v x f a,
  x < 2 ^ addr_width v ->
  filter_nets nets v true = (f, a) ->
  (a = true -> field_has_version nets v && negb (existsb (fun c => in_cidr c v x) nets) = false)
  /\ (a = false -> field_has_version nets v = true /\ field_has_version f v = true
                   /\ existsb (fun c => in_cidr c v x) f = existsb (fun c => in_cidr c v x) nets).
Proof.
  intros nets v x f a Hx H. rewrite filter_nets_spec in H. destruct nets as [|c rest].
  - inversion H. subst. split; [discriminate|]. auto.
  - cbn [andb] in H. destruct (has_ca (c :: rest) v) eqn:Eca.
    + inversion H. subst. split; [|discriminate]. intros _.
      rewrite (has_ca_contains _ v x Hx Eca). apply andb_false_r.
    + rewrite fhv_keep. set (k := keep (c :: rest) v) in *.
      inversion H. subst. clear H. change (is_nil (c :: rest)) with false. rewrite orb_false_l. split; intro Hk.
      * rewrite Hk. reflexivity.
      * rewrite Hk. split; [reflexivity|]. split; [apply fhv_of_keep|apply existsb_keep].
Qed.

(* rule_matches = (the part that looks at CIDRs and versions) && (the rest) *)
Definition net_part (r : rule) (p : packet) : bool :=
  let v := pk_ver p in
  opt_ok (r_ipver r) (ipver_eqb v)
  && (field_has_version (r_src_nets r) v && nets_ok (r_src_nets r) v (pk_src p))
  && (field_has_version (r_not_src_nets r) v && negb (existsb (fun c => in_cidr c v (pk_src p)) (r_not_src_nets r)))
  && (field_has_version (r_dst_nets r) v && nets_ok (r_dst_nets r) v (pk_dst p))
  && (field_has_version (r_not_dst_nets r) v && negb (existsb (fun c => in_cidr c v (pk_dst p)) (r_not_dst_nets r))).
Definition rest_part (s : ipsets) (r : rule) (p : packet) : bool :=
  opt_ok (r_proto r) (N.eqb (pk_proto p))
  && ports_ok s (r_src_ports r) (r_src_named_ports r) (pk_sport p) (src_port_member p)
  && ports_ok s (r_dst_ports r) (r_dst_named_ports r) (pk_dport p) (dst_port_member p)
  && opt_ok (r_icmp r) (fun m => icmp_ok m p)
  && forallb (fun id => s id (src_member p)) (r_src_ipsets r)
  && forallb (fun id => s id (dst_member p)) (r_dst_ipsets r)
  && forallb (fun id => s id (dst_port_member p)) (r_dst_ipport_sets r)
  && opt_ok (r_not_proto r) (fun n => negb (N.eqb (pk_proto p) n))
  && negb (ports_hit s (r_not_src_ports r) (r_not_src_named_ports r) (pk_sport p) (src_port_member p))
  && negb (ports_hit s (r_not_dst_ports r) (r_not_dst_named_ports r) (pk_dport p) (dst_port_member p))
  && opt_ok (r_not_icmp r) (fun m => negb (icmp_ok m p))
  && negb (existsb (fun id => s id (src_member p)) (r_not_src_ipsets r))
  && negb (existsb (fun id => s id (dst_member p)) (r_not_dst_ipsets r)).

Lemma rule_matches_split : forall s r p, rule_matches s r p = net_part r p && rest_part s r p.
Proof.
  intros s r p. unfold rule_matches, net_part, rest_part, rule_version_ok.
  repeat match goal with
  | |- context [opt_ok ?a ?b] => generalize (opt_ok a b); intro
  | |- context [field_has_version ?a ?b] => generalize (field_has_version a b); intro
  | |- context [nets_ok ?a ?b ?c] => generalize (nets_ok a b c); intro
  | |- context [ports_ok ?a ?b ?c ?d ?f] => generalize (ports_ok a b c d f); intro
  | |- context [ports_hit ?a ?b ?c ?d ?f] => generalize (ports_hit a b c d f); intro
  | |- context [forallb ?a ?b] => generalize (forallb a b); intro
  | |- context [existsb ?a ?b] => generalize (existsb a b); intro
  end.
  repeat match goal with b : bool |- _ =>
    destruct b; repeat (progress (cbn [andb negb]; rewrite ?andb_false_r, ?andb_true_r)); try reflexivity end.
Qed.

Definition wf_packet (p : packet) : Prop :=
  pk_src p < 2 ^ addr_width (pk_ver p) /\ pk_dst p < 2 ^ addr_width (pk_ver p).

Theorem filter_version : forall s r p,
  wf_packet p ->
  match filter_rule (pk_ver p) r with
  | Some r' => rule_matches s r' p = rule_matches s r p
               /\ rule_version_ok r' (pk_ver p) = true
               /\ r_action r' = r_action r /\ r_not_icmp r' = r_not_icmp r
  | None => rule_matches s r p = false
  end.
Proof.
  intros s r p [Hsrc Hdst]. set (v := pk_ver p) in *.
  rewrite (rule_matches_split s r p). unfold net_part. fold v.
  unfold filter_rule.
  destruct (opt_ok (r_ipver r) (ipver_eqb v)) eqn:Ev; cbn [negb]; [|reflexivity].
  destruct (filter_nets (r_src_nets r) v false) as [sn a1] eqn:E1.
  destruct (pos_field _ _ (pk_src p) _ _ E1) as [T1 F1].
  destruct a1; [rewrite (T1 eq_refl); reflexivity|]. destruct (F1 eq_refl) as (F1a & F1b & F1c). clear T1 F1.
  destruct (filter_nets (r_not_src_nets r) v true) as [nsn a2] eqn:E2.
  destruct (neg_field _ _ (pk_src p) _ _ Hsrc E2) as [T2 F2].
  destruct a2; [rewrite (T2 eq_refl), !andb_false_r; reflexivity|]. destruct (F2 eq_refl) as (F2a & F2b & F2c). clear T2 F2.
  destruct (filter_nets (r_dst_nets r) v false) as [dn a3] eqn:E3.
  destruct (pos_field _ _ (pk_dst p) _ _ E3) as [T3 F3].
  destruct a3; [rewrite (T3 eq_refl), !andb_false_r; reflexivity|]. destruct (F3 eq_refl) as (F3a & F3b & F3c). clear T3 F3.
  destruct (filter_nets (r_not_dst_nets r) v true) as [ndn a4] eqn:E4.
  destruct (neg_field _ _ (pk_dst p) _ _ Hdst E4) as [T4 F4].
  destruct a4; [rewrite (T4 eq_refl), !andb_false_r; reflexivity|]. destruct (F4 eq_refl) as (F4a & F4b & F4c). clear T4 F4.
  split; [|split; [|split; reflexivity]].
  - rewrite (rule_matches_split s (set_nets r sn nsn dn ndn) p). f_equal.
    unfold net_part. fold v. cbn [set_nets r_ipver r_src_nets r_not_src_nets r_dst_nets r_not_dst_nets].
    rewrite ?Ev, ?F1a, F1b, F1c, ?F2a, F2b, F2c, ?F3a, F3b, F3c, ?F4a, F4b, F4c. reflexivity.
  - unfold rule_version_ok. cbn [set_nets r_ipver r_src_nets r_not_src_nets r_dst_nets r_not_dst_nets].
    rewrite Ev, F1b, F2b, F3b, F4b. reflexivity.
Qed.
