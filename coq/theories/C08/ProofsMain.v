(* C08 — (all blocks pass) && (main match) = PolicyRef.rule_matches, for a rule already filtered to the
   packet's IP version. *)
From Coq Require Import List NArith Bool Arith Lia Btauto.
From Verif.Common Require Import Packet PolicyRef Ipt.
From Verif.C08 Require Import Model Spec ProofsSplit ProofsMark ProofsBlocks ProofsMatch.
Import ListNotations.
Open Scope N_scope.

Lemma main_match_free : forall c r, mfrees (main_match c r) = true.
Proof.
  intros c r. unfold main_match. rewrite !mfrees_app.
  repeat (apply andb_true_intro; split);
    solve [ apply mfrees_map; intro; reflexivity
          | destruct (r_proto r); reflexivity
          | destruct (r_not_proto r); reflexivity
          | destruct (r_icmp r) as [[?|? ?]|]; destruct (c_flavor c); reflexivity
          | destruct (r_not_icmp r) as [[?|? ?]|]; destruct (c_flavor c); reflexivity
          | destruct (ports_in_block _ _); [reflexivity|]; rewrite mfrees_app; apply andb_true_intro; split;
            [ first [destruct (r_src_ports r); reflexivity | destruct (r_dst_ports r); reflexivity]
            | apply mfrees_map; intro; reflexivity ] ].
Qed.

Section Fire.
  Variable c : cfg.
  Variable e : env.
  Variable p0 : packet.
  Let s := e_sets e.
  Let v := pk_ver p0.

  Lemma fire_iff : forall r,
    rule_version_ok r v = true -> in_domain c r = true ->
    blocks_pass e p0 (pos_blocks r) (neg_blocks r) && matches e p0 (main_match c r) = rule_matches s r p0.
  Proof.
    intros r Hv Hd.
    unfold blocks_pass, pos_blocks, neg_blocks. rewrite !forallb_app.
    rewrite (ports_blk e p0 (r_proto r) (r_src_ports r) (r_src_named_ports r) Src).
    rewrite (ports_blk e p0 (r_proto r) (r_dst_ports r) (r_dst_named_ports r) Dst).
    rewrite (nets_blk e p0 (r_src_nets r) Src), (nets_blk e p0 (r_dst_nets r) Dst).
    rewrite (neg_blk e p0 (r_src_nets r) (r_not_src_nets r) Src), (neg_blk e p0 (r_dst_nets r) (r_not_dst_nets r) Dst).
    unfold main_match. rewrite !matches_app.
    rewrite (m_proto_sem e p0).
    rewrite (nets_main e p0 (r_src_nets r) Src), (nets_main e p0 (r_dst_nets r) Dst).
    rewrite (ports_main e p0 (r_src_ports r) (r_src_named_ports r) Src).
    rewrite (ports_main e p0 (r_dst_ports r) (r_dst_named_ports r) Dst).
    rewrite (neg_main e p0 (r_src_nets r) (r_not_src_nets r) Src), (neg_main e p0 (r_dst_nets r) (r_not_dst_nets r) Dst).
    rewrite (icmp_pos_sem c e p0).
    rewrite (icmp_neg_sem c e p0) by exact Hd.
    rewrite (matches_map e p0 (MSrcIpSet false) (fun id => s id (src_member p0))) by (intro; apply xorb_false_l).
    rewrite (matches_map e p0 (MDstIpSet false) (fun id => s id (dst_member p0))) by (intro; apply xorb_false_l).
    rewrite (matches_map e p0 (MDstIpPortSet false) (fun id => s id (dst_port_member p0))) by (intro; apply xorb_false_l).
    rewrite (matches_map e p0 (MSrcIpSet true) (fun id => negb (s id (src_member p0)))) by (intro; apply xorb_true_l).
    rewrite (matches_map e p0 (MDstIpSet true) (fun id => negb (s id (dst_member p0)))) by (intro; apply xorb_true_l).
    rewrite (matches_map e p0 (MSrcIpPortSet true) (fun id => negb (s id (src_port_member p0)))) by (intro; apply xorb_true_l).
    rewrite (matches_map e p0 (MDstIpPortSet true) (fun id => negb (s id (dst_port_member p0)))) by (intro; apply xorb_true_l).
    rewrite (matches_map e p0 (MSrcPorts true) (fun sp => negb (in_ranges sp (pk_sport p0)))) by (intro; apply xorb_true_l).
    rewrite (matches_map e p0 (MDstPorts true) (fun sp => negb (in_ranges sp (pk_dport p0)))) by (intro; apply xorb_true_l).
    rewrite !forallb_negb. rewrite !in_ranges_split.
    assert (Hnp : matches e p0 (m_opt (r_not_proto r) (fun n => [MProto true n]))
                  = opt_ok (r_not_proto r) (fun n => negb (N.eqb (pk_proto p0) n))).
    { destruct (r_not_proto r); [|reflexivity]. cbn [m_opt matches forallb match_one opt_ok].
      rewrite xorb_true_l, andb_true_r. reflexivity. }
    rewrite Hnp.
    (* the reference side *)
    unfold rule_matches. fold v. fold s. rewrite Hv.
    change (nets_ok (r_src_nets r) v (pk_src p0)) with (N_nets p0 (r_src_nets r) Src).
    change (nets_ok (r_dst_nets r) v (pk_dst p0)) with (N_nets p0 (r_dst_nets r) Dst).
    change (ports_ok s (r_src_ports r) (r_src_named_ports r) (pk_sport p0) (src_port_member p0))
      with (P_ports e p0 (r_src_ports r) (r_src_named_ports r) Src).
    change (ports_ok s (r_dst_ports r) (r_dst_named_ports r) (pk_dport p0) (dst_port_member p0))
      with (P_ports e p0 (r_dst_ports r) (r_dst_named_ports r) Dst).
    rewrite (ports_field_spec e p0 (r_src_ports r) (r_src_named_ports r) Src) at 2.
    rewrite (ports_field_spec e p0 (r_dst_ports r) (r_dst_named_ports r) Dst) at 2.
    unfold ports_hit.
    change (existsb (fun c0 => in_cidr c0 v (pk_src p0)) (r_not_src_nets r)) with (X_nets p0 (r_not_src_nets r) Src).
    change (existsb (fun c0 => in_cidr c0 v (pk_dst p0)) (r_not_dst_nets r)) with (X_nets p0 (r_not_dst_nets r) Dst).
    change (opt_ok (r_proto r) (N.eqb (pk_proto p0))) with (PO p0 r).
    change (in_ranges (r_src_ports r) (pk_sport p0)) with (A_ports p0 (r_src_ports r) Src).
    change (in_ranges (r_dst_ports r) (pk_dport p0)) with (A_ports p0 (r_dst_ports r) Dst).
    change (existsb (fun id => s id (src_port_member p0)) (r_src_named_ports r)) with (B_named e p0 (r_src_named_ports r) Src).
    change (existsb (fun id => s id (dst_port_member p0)) (r_dst_named_ports r)) with (B_named e p0 (r_dst_named_ports r) Dst).
    generalize (PO p0 r) (A_ports p0 (r_src_ports r) Src) (A_ports p0 (r_dst_ports r) Dst)
               (B_named e p0 (r_src_named_ports r) Src) (B_named e p0 (r_dst_named_ports r) Dst)
               (P_ports e p0 (r_src_ports r) (r_src_named_ports r) Src) (P_ports e p0 (r_dst_ports r) (r_dst_named_ports r) Dst)
               (N_nets p0 (r_src_nets r) Src) (N_nets p0 (r_dst_nets r) Dst)
               (X_nets p0 (r_not_src_nets r) Src) (X_nets p0 (r_not_dst_nets r) Dst)
               (ports_in_block (r_src_ports r) (r_src_named_ports r)) (ports_in_block (r_dst_ports r) (r_dst_named_ports r))
               (gt1 (r_src_nets r)) (gt1 (r_dst_nets r))
               (neg_in_block (r_src_nets r) (r_not_src_nets r)) (neg_in_block (r_dst_nets r) (r_not_dst_nets r)).
    intros po asp adp bsp bdp psp pdp nsn ndn xsn xdn spb dpb snb dnb nsb ndb.
    generalize (forallb (fun id : N => s id (src_member p0)) (r_src_ipsets r))
               (forallb (fun id : N => s id (dst_member p0)) (r_dst_ipsets r))
               (forallb (fun id : N => s id (dst_port_member p0)) (r_dst_ipport_sets r))
               (opt_ok (r_icmp r) (fun m : icmp_match => icmp_ok m p0))
               (opt_ok (r_not_proto r) (fun n : N => negb (N.eqb (pk_proto p0) n)))
               (opt_ok (r_not_icmp r) (fun m : icmp_match => negb (icmp_ok m p0)))
               (existsb (fun id : N => s id (src_member p0)) (r_not_src_ipsets r))
               (existsb (fun id : N => s id (dst_member p0)) (r_not_dst_ipsets r))
               (existsb (fun id : N => s id (src_port_member p0)) (r_not_src_named_ports r))
               (existsb (fun id : N => s id (dst_port_member p0)) (r_not_dst_named_ports r))
               (in_ranges (r_not_src_ports r) (pk_sport p0)) (in_ranges (r_not_dst_ports r) (pk_dport p0)).
    clear.
    (* atoms that are plain conjuncts on both sides: when false both sides are false, when true they vanish *)
    Ltac bsimp := repeat (progress (cbn [andb negb orb]; rewrite ?andb_false_r, ?andb_true_r)).
    Ltac kill_atom := let g := fresh "g" in intro g; destruct g; bsimp; try reflexivity.
    do 8 kill_atom.
    all: intros; btauto.
  Qed.
End Fire.
