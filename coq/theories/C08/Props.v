(* C08 — property theorems only.  Each is closed by `exact <lemma>` and followed by Print Assumptions.

   Reading guide: `render_rule c v r` is the model of ProtoRuleToIptablesRules (Model.v; `c_fixed c = true`
   is the code with fixes/C08-scratch-bit.patch applied), `run`/`run_flat` evaluate rules as netfilter would
   (Common/Ipt.v), `rule_matches` is the reference meaning of a rule (Common/PolicyRef.v), `ok_outcome`
   is the property's oracle (Spec.v): it demands the rule's action when the rule matches and a fall-through
   with all non-scratch mark bits unchanged when it does not. *)
From Coq Require Import List NArith Bool Arith.
From Verif.Common Require Import Packet PolicyRef Ipt.
From Verif.C08 Require Import Model Spec ProofsSplit ProofsFilter Proofs ProofsChain ProofsPinned Nft ProofsNft.
Import ListNotations.
Open Scope N_scope.

(* MAIN THEOREM.  For every configuration with disjoint mark bits, either renderer flavour, every rule (in
   the stated domain), every IP set contents and rate-limit oracle, every chain map and fuel, and every
   packet of the IP version being rendered whose mark is arbitrary except that this rule's own verdict bit
   is clear (scratch bits, the other verdict bits and all other bits arbitrary): evaluating the rendered
   rules takes the rule's action iff the rule matches the packet, and otherwise falls through to the next
   rule with every mark bit outside the two scratch bits unchanged. *)
Theorem c08_rule_exact : forall c e r p fuel cs,
  marks_ok c = true -> c_fixed c = true -> in_domain c r = true ->
  wf_packet p -> entry_ok c (r_action r) p = true ->
  ok_outcome c (e_sets e) r p (run (S fuel) cs e (render_rule c (pk_ver p) r) p) = true.
Proof. exact rule_exact. Qed.
Print Assumptions c08_rule_exact.

(* the same for the chain-free evaluator the correspondence check applies to the real renderer's output:
   the oracle accepts every run of the model *)
Theorem c08_model_meets_spec : forall c e r p,
  marks_ok c = true -> c_fixed c = true -> in_domain c r = true ->
  wf_packet p -> entry_ok c (r_action r) p = true ->
  ok_outcome c (e_sets e) r p (run_flat e (render_rule c (pk_ver p) r) p) = true.
Proof. exact rule_exact_flat. Qed.
Print Assumptions c08_model_meets_spec.

(* FROM ONE RULE TO A RULE LIST (the body of a policy / profile chain): entered with the accept, pass and
   drop bits clear (scratch and all other bits arbitrary), the rendered rules of `rules` stop exactly as
   PolicyRef.policy_verdict says - allow/pass: RETURN with that verdict bit set; deny: DROP/REJECT with the
   drop bit set; no rule decided (log rules fall through): off the end - and in every case nothing but the
   mark changed, and of the mark only the scratch bits and the verdict bit set.  (Per-rule lemma for C09.) *)
Theorem c08_policy_rules_exact : forall c e, marks_ok c = true -> c_fixed c = true ->
  forall rules p,
    forallb (in_domain c) rules = true -> wf_packet p -> verdict_clear c (pk_mark p) = true ->
    chain_outcome c (policy_verdict (e_sets e) rules p) p (run_flat e (render_rules c (pk_ver p) rules) p).
Proof. exact policy_rules_exact. Qed.
Print Assumptions c08_policy_rules_exact.

(* the rendered rules never jump: they need no chain map and cannot run out of fuel *)
Theorem c08_rendered_jump_free : forall c v r, jump_free (render_rule c v r).
Proof. exact render_rule_jump_free. Qed.
Print Assumptions c08_rendered_jump_free.

(* THE CODE AS PINNED (c_fixed = false) violates the property: a rule with three positive match blocks
   (two source named-port sets, two destination named-port sets, two source CIDRs) accepts a packet whose
   source address is in neither CIDR, because the scratch bit set by the second block is still set when the
   third block tests it. *)
Theorem c08_rule_exact_refuted_unfixed :
  exists c e r p,
    c_fixed c = false /\ marks_ok c = true /\ in_domain c r = true /\ wf_packet p /\ entry_ok c (r_action r) p = true
    /\ rule_matches (e_sets e) r p = false
    /\ (exists p', run_flat e (render_rule c (pk_ver p) r) p = RReturn p' /\ mark_has (pk_mark p') (c_accept c) = true)
    /\ ok_outcome c (e_sets e) r p (run_flat e (render_rule c (pk_ver p) r) p) = false.
Proof. exact rule_exact_refuted_unfixed. Qed.
Print Assumptions c08_rule_exact_refuted_unfixed.

(* outside the domain: nftables' rendering of a negated ICMP type+code (known finding) *)
Theorem c08_nft_not_icmp_type_code_refuted :
  exists c e r p,
    c_flavor c = Nft /\ marks_ok c = true /\ c_fixed c = true /\ in_domain c r = false /\ wf_packet p
    /\ entry_ok c (r_action r) p = true
    /\ rule_matches (e_sets e) r p = true
    /\ ok_outcome c (e_sets e) r p (run_flat e (render_rule c (pk_ver p) r) p) = false.
Proof. exact nft_not_icmp_refuted. Qed.
Print Assumptions c08_nft_not_icmp_type_code_refuted.

(* FilterRuleToIPVersion: for packets of the version rendered, the filtered rule means exactly what the
   original means (and applies to that version); a dropped rule - other explicit version, a CIDR field with
   no entry of this version, a negated catch-all CIDR - matches no packet of that version. *)
Theorem c08_filter_version : forall s r p,
  wf_packet p ->
  match filter_rule (pk_ver p) r with
  | Some r' => rule_matches s r' p = rule_matches s r p
               /\ rule_version_ok r' (pk_ver p) = true
               /\ r_action r' = r_action r /\ r_not_icmp r' = r_not_icmp r
  | None => rule_matches s r p = false
  end.
Proof. exact filter_version. Qed.
Print Assumptions c08_filter_version.

(* SplitPortList: concatenating the splits gives back the port list (same order), no split is empty and
   none needs more than the 15 slots a multiport match has (single port = 1 slot, range = 2). *)
Theorem c08_split_ports_partition : forall ports,
  concat (split_ports ports) = ports
  /\ Forall (fun sp => sp <> [] /\ (slots_sum sp <= 15)%nat) (split_ports ports).
Proof. exact split_ports_partition. Qed.
Print Assumptions c08_split_ports_partition.

(* membership is preserved by the split (what the renderer relies on when it ORs / ANDs the pieces) *)
Theorem c08_split_ports_membership : forall ports p,
  existsb (fun l => in_ranges l p) (split_ports ports) = in_ranges ports p.
Proof. exact in_ranges_split. Qed.
Print Assumptions c08_split_ports_membership.

(* THE CODE AS PINNED, positively: without the scratch-bit fix (c_fixed arbitrary, in particular false) the
   rendering is exact for every rule that needs at most two positive match blocks for the version rendered.
   With c08_rule_exact_refuted_unfixed (whose rule needs exactly three, `witness3_block_count`) this
   locates the defect: third and later positive blocks, nothing else. *)
Theorem c08_rule_exact_pinned : forall c e r p fuel cs,
  marks_ok c = true -> in_domain c r = true -> (pos_block_count (pk_ver p) r <= 2)%nat ->
  wf_packet p -> entry_ok c (r_action r) p = true ->
  ok_outcome c (e_sets e) r p (run (S fuel) cs e (render_rule c (pk_ver p) r) p) = true.
Proof. exact rule_exact_pinned. Qed.
Print Assumptions c08_rule_exact_pinned.

Theorem c08_policy_rules_exact_pinned : forall c e, marks_ok c = true ->
  forall rules p,
    forallb (in_domain c) rules = true ->
    forallb (fun r => Nat.leb (pos_block_count (pk_ver p) r) 2) rules = true ->
    wf_packet p -> verdict_clear c (pk_mark p) = true ->
    chain_outcome c (policy_verdict (e_sets e) rules p) p (run_flat e (render_rules c (pk_ver p) rules) p).
Proof. exact policy_rules_exact_pinned. Qed.
Print Assumptions c08_policy_rules_exact_pinned.

(* NFTABLES TEXT LEVEL (Nft.v).  `nft_run` evaluates the rule text clause by clause as nft does: "tcp dport
   {..}" / "icmp type .." carry an implicit l4proto dependency, "ip saddr .." only matches IPv4 packets,
   marks are "mark or x" / "mark & a" / "mark & a ^ x".  For well-formed text (every implicit dependency backed by
   an explicit "meta l4proto" clause in the same rule, address clauses of the table's family) it agrees with
   the abstract machine on the translated rules, for every packet of that family. *)
Theorem c08_nft_text_lowering_sound : forall e rs p,
  forallb (nrule_wf (pk_ver p)) rs = true ->
  nft_run e rs p = run_flat e (map lower_rule rs) p.
Proof. exact nft_run_lower. Qed.
Print Assumptions c08_nft_text_lowering_sound.

(* hence exactness holds of the nftables text itself: any well-formed text that translates to the model's
   rules (both are checked, inside Coq, on the real renderer's text in every correspondence case) *)
Theorem c08_rule_exact_nft_text : forall c e r p nrs,
  marks_ok c = true -> c_fixed c = true -> in_domain c r = true ->
  wf_packet p -> entry_ok c (r_action r) p = true ->
  forallb (nrule_wf (pk_ver p)) nrs = true ->
  map lower_rule nrs = render_rule c (pk_ver p) r ->
  ok_outcome c (e_sets e) r p (nft_run e nrs p) = true.
Proof. exact rule_exact_nft_text. Qed.
Print Assumptions c08_rule_exact_nft_text.

Theorem c08_rule_exact_nft_text_pinned : forall c e r p nrs,
  marks_ok c = true -> in_domain c r = true -> (pos_block_count (pk_ver p) r <= 2)%nat ->
  wf_packet p -> entry_ok c (r_action r) p = true ->
  forallb (nrule_wf (pk_ver p)) nrs = true ->
  map lower_rule nrs = render_rule c (pk_ver p) r ->
  ok_outcome c (e_sets e) r p (nft_run e nrs p) = true.
Proof. exact rule_exact_nft_text_pinned. Qed.
Print Assumptions c08_rule_exact_nft_text_pinned.
