(* C08 — property theorems only.  Each is closed by `exact <lemma>` and followed by Print Assumptions. *)
From Coq Require Import List NArith Bool Arith.
From Verif.Common Require Import Packet PolicyRef Ipt.
From Verif.C08 Require Import Model Spec ProofsSplit.
Import ListNotations.

(* SplitPortList: concatenating the splits gives back the port list (same order), no split is empty and
   none needs more than the 15 slots a multiport match has (single port = 1 slot, range = 2). *)
Theorem c08_split_ports_partition : forall ports,
  concat (split_ports ports) = ports
  /\ Forall (fun sp => sp <> [] /\ (slots_sum sp <= 15)%nat) (split_ports ports).
Proof. exact split_ports_partition. Qed.
Print Assumptions c08_split_ports_partition.
