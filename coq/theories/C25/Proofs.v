(* C25 — proofs: a refinement invariant tying the buffer's state to the specification-level ghosts
   (sink view, upstream view of the latest connection, upserts sent since the last restart, ill-formed
   deletions), preserved by every operation; the property theorems are corollaries. *)
From Coq Require Import List NArith Bool Lia.
From Verif.C25 Require Import Model Spec.
Import ListNotations.
Open Scope N_scope.

(* ------------------------------------------------------------------ helpers on key sets *)
Lemma mem_In : forall k l, mem k l = true <-> In k l.
Proof.
  intros k l. unfold mem. rewrite existsb_exists. split.
  - intros [x [Hx He]]. apply N.eqb_eq in He. subst. exact Hx.
  - intros H. exists k. split; [exact H | apply N.eqb_refl].
Qed.

Lemma mem_false : forall k l, mem k l = false <-> ~ In k l.
Proof.
  intros k l. rewrite <- mem_In. destruct (mem k l); split; intros; congruence.
Qed.

Lemma In_discard : forall x k l, In x (discard k l) <-> In x l /\ x <> k.
Proof.
  intros. unfold discard. rewrite filter_In. rewrite negb_true_iff, N.eqb_neq. tauto.
Qed.

Lemma NoDup_filter' : forall (A : Type) (f : A -> bool) l, NoDup l -> NoDup (filter f l).
Proof.
  induction l; simpl; intros H; [constructor|]. inversion H; subst.
  destruct (f a); auto. constructor; auto. rewrite filter_In. tauto.
Qed.

Lemma In_add : forall x k l, In x (add k l) <-> x = k \/ In x l.
Proof.
  intros. unfold add. destruct (mem k l) eqn:E.
  - apply mem_In in E. split; [tauto|]. intros [->|]; auto.
  - simpl. split; intros [|]; auto.
Qed.

Lemma In_dedup : forall x l, In x (dedup l) <-> In x l.
Proof.
  induction l; simpl; [tauto|]. rewrite In_discard, IHl.
  destruct (N.eq_dec a x); [subst; tauto|]. split; [tauto|]. intros [|]; [tauto|]. right; split; congruence.
Qed.

Lemma NoDup_dedup : forall l, NoDup (dedup l).
Proof.
  induction l; simpl; constructor.
  - rewrite In_discard. tauto.
  - apply NoDup_filter'. exact IHl.
Qed.

Lemma In_order : forall x ord l, In x (order ord l) <-> In x l.
Proof.
  intros. unfold order. rewrite In_dedup, in_app_iff, filter_In, mem_In. tauto.
Qed.

(* ------------------------------------------------------------------ keys of the queue *)
Definition qkeys (l : list item) : list key := flat_map keys_of_item l.

Lemma qkeys_app : forall a b, qkeys (a ++ b) = qkeys a ++ qkeys b.
Proof. intros. unfold qkeys. apply flat_map_app. Qed.

Lemma In_qkeys : forall k l, In k (qkeys l) <-> exists u, In (IUpd u) l /\ u_key u = k.
Proof.
  intros. unfold qkeys. rewrite in_flat_map. split.
  - intros [[u|s] [Hi Hk]]; simpl in Hk; [|tauto]. destruct Hk as [<-|[]]. eauto.
  - intros [u [Hi <-]]. exists (IUpd u). simpl; auto.
Qed.

Lemma qkeys_filter : forall k l,
  qkeys (filter (fun it => negb (item_has_key k it)) l) = discard k (qkeys l).
Proof.
  induction l as [|[u|s] l IH]; simpl; auto.
  destruct (N.eqb (u_key u) k) eqn:E; simpl; [exact IH | f_equal; exact IH].
Qed.

Lemma qkeys_map : forall k u l, u_key u = k ->
  qkeys (map (fun it => if item_has_key k it then IUpd u else it) l) = qkeys l.
Proof.
  intros k u l Hk. induction l as [|[u'|s] l IH]; simpl; auto.
  destruct (N.eqb (u_key u') k) eqn:E; simpl; rewrite IH; [|reflexivity].
  apply N.eqb_eq in E. congruence.
Qed.

Lemma In_map_replace : forall k u l u',
  In (IUpd u') (map (fun it => if item_has_key k it then IUpd u else it) l) ->
  (u' = u /\ In k (qkeys l)) \/ (In (IUpd u') l /\ u_key u' <> k).
Proof.
  induction l as [|[u0|s] l IH]; simpl; intros u' H; [tauto| |].
  - destruct H as [H|H].
    + destruct (N.eqb (u_key u0) k) eqn:E.
      * inversion H; subst. apply N.eqb_eq in E. left; auto.
      * inversion H; subst. apply N.eqb_neq in E. right; auto.
    + destruct (IH _ H) as [[? ?]|[? ?]]; [left|right]; auto.
  - destruct H as [H|H]; [discriminate|]. destruct (IH _ H) as [[? ?]|[? ?]]; [left|right]; auto.
Qed.

Lemma In_filter_key : forall k l u',
  In (IUpd u') (filter (fun it => negb (item_has_key k it)) l) <-> In (IUpd u') l /\ u_key u' <> k.
Proof.
  intros. rewrite filter_In. simpl. rewrite negb_true_iff, N.eqb_neq. tauto.
Qed.

Lemma NoDup_qkeys_head : forall u r, NoDup (qkeys (IUpd u :: r)) ->
  ~ In (u_key u) (qkeys r) /\ NoDup (qkeys r).
Proof. simpl. intros u r H. inversion H; auto. Qed.

(* ------------------------------------------------------------------ position of in-sync in the queue *)
Definition good (snt : list (key * val)) (sv : view) (k : key) : Prop :=
  match sv k with None => True | Some v => In (k, v) snt end.

(* every InSync status in the queue has, for every key, either a queued update ahead of it or nothing stale *)
Fixpoint Hq (P : key -> Prop) (seen : list key) (l : list item) : Prop :=
  match l with
  | [] => True
  | IUpd u :: r => Hq P (u_key u :: seen) r
  | IStatus s :: r => (s = InSync -> forall k, In k seen \/ P k) /\ Hq P seen r
  end.

Lemma Hq_mono : forall (P P' : key -> Prop) l seen seen',
  (forall j, In j seen \/ P j -> In j seen' \/ P' j) -> Hq P seen l -> Hq P' seen' l.
Proof.
  induction l as [|[u|s] l IH]; simpl; intros seen seen' Hm H; auto.
  - eapply IH; [|exact H]. simpl. intros j [[Hj|Hj]|Hj].
    + left; left; exact Hj.
    + destruct (Hm j (or_introl Hj)) as [H0|H0]; [left; right; exact H0 | right; exact H0].
    + destruct (Hm j (or_intror Hj)) as [H0|H0]; [left; right; exact H0 | right; exact H0].
  - destruct H as [H1 H2]. split; [|eapply IH; eauto]. intros Hs k. apply Hm. auto.
Qed.

Lemma Hq_map : forall P k u l seen, u_key u = k ->
  Hq P seen l -> Hq P seen (map (fun it => if item_has_key k it then IUpd u else it) l).
Proof.
  intros P k u l. induction l as [|[u0|s] l IH]; simpl; intros seen Hk H; auto.
  - destruct (N.eqb (u_key u0) k) eqn:E; simpl.
    + apply N.eqb_eq in E. replace (u_key u) with (u_key u0) by congruence. apply IH; auto.
    + apply IH; auto.
  - destruct H; split; auto.
Qed.

Lemma Hq_filter : forall (P : key -> Prop) k l seen, P k ->
  Hq P seen l -> Hq P seen (filter (fun it => negb (item_has_key k it)) l).
Proof.
  intros P k l. induction l as [|[u0|s] l IH]; simpl; intros seen Hk H; auto.
  - destruct (N.eqb (u_key u0) k) eqn:E; simpl.
    + apply N.eqb_eq in E. apply IH; auto. eapply Hq_mono; [|exact H].
      simpl. intros j [[<-|Hj]|Hj]; auto. rewrite E. auto.
    + auto.
  - destruct H; split; auto.
Qed.

Lemma Hq_snoc_upd : forall P u l seen, Hq P seen l -> Hq P seen (l ++ [IUpd u]).
Proof.
  intros P u l. induction l as [|[u0|s] l IH]; simpl; intros seen H; auto.
  destruct H; split; auto.
Qed.

Lemma Hq_push_status : forall P s l seen,
  Hq P seen l -> (s = InSync -> forall k, In k (qkeys l ++ seen) \/ P k) -> Hq P seen (push_status s l).
Proof.
  intros P s l. induction l as [|it l IH]; intros seen H Hs.
  - simpl. split; auto.
  - destruct it as [u|s0].
    + change (push_status s (IUpd u :: l)) with (IUpd u :: push_status s l).
      simpl. apply IH; [exact H|]. intros E k. specialize (Hs E k). simpl in Hs.
      rewrite in_app_iff in *. simpl. tauto.
    + destruct l as [|it' l'].
      * simpl. split; auto.
      * change (push_status s (IStatus s0 :: it' :: l')) with (IStatus s0 :: push_status s (it' :: l')).
        destruct H as [H1 H2]. split; [exact H1|]. apply IH; [exact H2|]. exact Hs.
Qed.

Lemma qkeys_push_status : forall s l, qkeys (push_status s l) = qkeys l.
Proof.
  intros s l. induction l as [|it l IH]; [reflexivity|].
  destruct it as [u|s0].
  - change (push_status s (IUpd u :: l)) with (IUpd u :: push_status s l). simpl. rewrite IH. reflexivity.
  - destruct l as [|it' l']; [reflexivity|].
    change (push_status s (IStatus s0 :: it' :: l')) with (IStatus s0 :: push_status s (it' :: l')).
    simpl. simpl in IH. rewrite IH. reflexivity.
Qed.

Lemma In_push_status : forall s u l, In (IUpd u) (push_status s l) <-> In (IUpd u) l.
Proof.
  intros s u l. induction l as [|it l IH]; [simpl; split; [intros [H|[]]; discriminate | tauto]|].
  destruct it as [u0|s0].
  - change (push_status s (IUpd u0 :: l)) with (IUpd u0 :: push_status s l). simpl. rewrite IH. tauto.
  - destruct l as [|it' l'].
    + simpl. split; intros [H|[]]; discriminate.
    + change (push_status s (IStatus s0 :: it' :: l')) with (IStatus s0 :: push_status s (it' :: l')).
      simpl. simpl in IH. rewrite IH. tauto.
Qed.

(* ------------------------------------------------------------------ the refinement invariant *)
Record Inv (st : state) (sv uv : view) (snt : list (key * val)) (il : list key) : Prop := {
  (* keyToPendingUpdate is exactly the set of keys with an update in the queue, one per key *)
  iA1 : NoDup (qkeys (q st));
  iA2 : forall k, mem k (pend st) = true <-> In k (qkeys (q st));
  (* liveResourceKeys = the keys the sink holds *)
  iB : forall k, mem k (live st) = true <-> sv k <> None;
  (* a queued update carries the latest value the current connection sent for its key *)
  iC : forall u, In (IUpd u) (q st) -> u_val u = uv (u_key u);
  (* a key with nothing queued is already right at the sink, or is still waiting for the resync verdict *)
  iD : forall k, ~ In k (qkeys (q st)) -> sv k = uv k \/ exists l, ns st = Some l /\ In k l;
  iE : forall l k, ns st = Some l -> In k l ->
       mem k (live st) = true /\ ~ In k (qkeys (q st)) /\ uv k = None;
  (* update types of queued upserts match the sink; queued deletions are for held keys *)
  iF : forall u v, In (IUpd u) (q st) -> u_val u = Some v ->
       u_type u = if mem (u_key u) (live st) then UTUpdated else UTNew;
  iG : forall u, In (IUpd u) (q st) -> u_val u = None ->
       mem (u_key u) (live st) = true \/ In (u_key u) il;
  iH : Hq (good snt sv) [] (q st);
  iI : forall k v, uv k = Some v -> In (k, v) snt
}.

Lemma inv_init : Inv init vempty vempty [] [].
Proof.
  constructor; simpl.
  - constructor.
  - intros k; split; [discriminate | tauto].
  - intros k. unfold vempty. split; [discriminate | congruence].
  - tauto.
  - intros; left; reflexivity.
  - intros; discriminate.
  - tauto.
  - tauto.
  - exact Logic.I.
  - unfold vempty; intros; discriminate.
Qed.

Lemma retype_key : forall lv u, u_key (retype lv u) = u_key u.
Proof. intros. unfold retype. destruct (u_val u); reflexivity. Qed.
Lemma retype_val : forall lv u, u_val (retype lv u) = u_val u.
Proof. intros. unfold retype. destruct (u_val u) eqn:E; simpl; auto. Qed.
Lemma retype_type : forall lv u v, u_val u = Some v ->
  u_type (retype lv u) = if mem (u_key u) lv then UTUpdated else UTNew.
Proof. intros. unfold retype. rewrite H. reflexivity. Qed.

Lemma NoDup_snoc : forall (A : Type) (l : list A) x, NoDup l -> ~ In x l -> NoDup (l ++ [x]).
Proof.
  induction l; simpl; intros x H Hn.
  - constructor; auto.
  - inversion H; subst. constructor.
    + rewrite in_app_iff. simpl. intros [|[|[]]]; [tauto|]. subst. tauto.
    + apply IHl; tauto.
Qed.

Lemma good_incl : forall snt snt' sv k, incl snt snt' -> good snt sv k -> good snt' sv k.
Proof. unfold good. intros. destruct (sv k); auto. Qed.

Lemma Hq_good_incl : forall snt snt' sv l seen, incl snt snt' ->
  Hq (good snt sv) seen l -> Hq (good snt' sv) seen l.
Proof.
  intros. eapply Hq_mono; [|eassumption]. intros j [|]; [left; auto|right; eapply good_incl; eauto].
Qed.

Lemma vupd_same : forall v k x, vupd v k x k = x.
Proof. intros. unfold vupd. rewrite N.eqb_refl. reflexivity. Qed.
Lemma vupd_other : forall v k x j, j <> k -> vupd v k x j = v j.
Proof. intros. unfold vupd. apply N.eqb_neq in H. rewrite H. reflexivity. Qed.

Lemma inv_on_update1 : forall st sv uv snt il u uv' snt' il',
  Inv st sv uv snt il ->
  (forall j, uv' j = vupd uv (u_key u) (u_val u) j) ->
  incl snt snt' -> (forall v, u_val u = Some v -> In (u_key u, v) snt') ->
  incl il il' ->
  (u_val u = None -> mem (u_key u) (live st) = false -> ~ In (u_key u) (qkeys (q st)) -> In (u_key u) il') ->
  Inv (on_update1 st u) sv uv' snt' il'.
Proof.
  intros st sv uv snt il u uv' snt' il' [A1 A2 B C D E F G H I] Huv Hs1 Hs2 Hi1 Hi2.
  set (k := u_key u) in *.
  assert (Hsame : uv' k = u_val u) by (rewrite Huv; apply vupd_same).
  assert (Hoth : forall j, j <> k -> uv' j = uv j) by (intros; rewrite Huv; apply vupd_other; auto).
  assert (I' : forall j v, uv' j = Some v -> In (j, v) snt').
  { intros j v Hj. destruct (N.eq_dec j k) as [->|Hne].
    - apply Hs2. congruence.
    - apply Hs1. apply I. rewrite <- Hoth; auto. }
  assert (Hkq : forall u', In (IUpd u') (q st) -> In (u_key u') (qkeys (q st))).
  { intros u' Hu. apply In_qkeys. eauto. }
  (* facts about the not-seen set after the discard *)
  assert (Ens : forall l' j, option_map (discard k) (ns st) = Some l' -> In j l' ->
            j <> k /\ exists l, ns st = Some l /\ In j l).
  { intros l' j Hl Hj. destruct (ns st) as [l|] eqn:Hns; simpl in Hl; [|discriminate].
    inversion Hl; subst. apply In_discard in Hj. destruct Hj. split; eauto. }
  assert (Dns : forall j, j <> k -> (exists l, ns st = Some l /\ In j l) ->
            exists l', option_map (discard k) (ns st) = Some l' /\ In j l').
  { intros j Hne [l [Hl Hj]]. rewrite Hl. simpl. eexists; split; [reflexivity|]. apply In_discard; auto. }
  unfold on_update1, queue_update. cbn [q pend live ns mrs set_ns].
  fold k. rewrite retype_val.
  destruct (mem k (pend st)) eqn:Hp.
  - assert (Hkin : In k (qkeys (q st))) by (apply A2; exact Hp).
    destruct (is_none (u_val u) && negb (mem k (live st))) eqn:Hb.
    + (* deletion of a never-delivered key: drop the queued update *)
      apply andb_true_iff in Hb. destruct Hb as [Hn Hlv]. apply negb_true_iff in Hlv.
      assert (Hv : u_val u = None) by (destruct (u_val u); [discriminate|reflexivity]).
      assert (Hsv : sv k = None).
      { destruct (sv k) eqn:Es; auto. assert (mem k (live st) = true) by (apply B; congruence). congruence. }
      constructor; cbn [q pend live ns mrs].
      * rewrite qkeys_filter. apply NoDup_filter'. exact A1.
      * intros j. rewrite qkeys_filter, mem_In, !In_discard, <- mem_In, A2. tauto.
      * exact B.
      * intros u' Hu. apply In_filter_key in Hu. destruct Hu as [Hu Hne]. rewrite Hoth; auto.
      * intros j Hj. rewrite qkeys_filter, In_discard in Hj.
        destruct (N.eq_dec j k) as [->|Hne].
        { left. congruence. }
        { destruct (D j) as [Hd|Hd]; [tauto| left; rewrite Hoth; auto | right; apply Dns; auto]. }
      * intros l' j Hl Hj. destruct (Ens _ _ Hl Hj) as [Hne [l [Hl0 Hj0]]].
        destruct (E _ _ Hl0 Hj0) as [E1 [E2 E3]]. split; [exact E1|]. split.
        { rewrite qkeys_filter, In_discard. tauto. }
        { rewrite Hoth; auto. }
      * intros u' v Hu. apply In_filter_key in Hu. destruct Hu. eauto.
      * intros u' Hu Hn'. apply In_filter_key in Hu. destruct Hu as [Hu _].
        destruct (G _ Hu Hn'); auto.
      * apply Hq_filter. { unfold good. rewrite Hsv. exact Logic.I. } eapply Hq_good_incl; eauto.
      * exact I'.
    + (* swap in the most recent value *)
      set (u1 := retype (live st) u).
      assert (K1 : u_key u1 = k) by apply retype_key.
      constructor; cbn [q pend live ns mrs].
      * rewrite qkeys_map; auto.
      * intros j. rewrite qkeys_map; auto.
      * exact B.
      * intros u' Hu. apply In_map_replace in Hu. destruct Hu as [[-> _]|[Hu Hne]].
        { rewrite K1. unfold u1. rewrite retype_val. congruence. }
        { rewrite Hoth; auto. }
      * intros j Hj. rewrite qkeys_map in Hj; auto.
        assert (j <> k) by congruence.
        destruct (D j Hj) as [Hd|Hd]; [left; rewrite Hoth; auto | right; apply Dns; auto].
      * intros l' j Hl Hj. destruct (Ens _ _ Hl Hj) as [Hne [l [Hl0 Hj0]]].
        destruct (E _ _ Hl0 Hj0) as [E1 [E2 E3]]. split; [exact E1|]. split.
        { rewrite qkeys_map; auto. }
        { rewrite Hoth; auto. }
      * intros u' v Hu Hv. apply In_map_replace in Hu. destruct Hu as [[-> _]|[Hu Hne]]; [|eauto].
        unfold u1 in *. rewrite retype_val in Hv. rewrite retype_key. eapply retype_type; eauto.
      * intros u' Hu Hn'. apply In_map_replace in Hu. destruct Hu as [[-> _]|[Hu Hne]].
        { unfold u1 in *. rewrite retype_val in Hn'. rewrite retype_key. fold k.
          rewrite Hn' in Hb. simpl in Hb. left. destruct (mem k (live st)); [reflexivity|discriminate]. }
        { destruct (G _ Hu Hn'); auto. }
      * apply Hq_map; auto. eapply Hq_good_incl; eauto.
      * exact I'.
  - (* nothing in flight for this key: push *)
    assert (Hknot : ~ In k (qkeys (q st))).
    { intros Hc. apply A2 in Hc. congruence. }
    set (u1 := retype (live st) u).
    assert (K1 : u_key u1 = k) by apply retype_key.
    assert (Hqk : qkeys (q st ++ [IUpd u1]) = qkeys (q st) ++ [k]).
    { rewrite qkeys_app. simpl. rewrite K1. reflexivity. }
    constructor; cbn [q pend live ns mrs].
    + rewrite Hqk. apply NoDup_snoc; auto.
    + intros j. rewrite Hqk, mem_In, in_app_iff. simpl. rewrite <- A2, mem_In. intuition.
    + exact B.
    + intros u' Hu. apply in_app_iff in Hu. destruct Hu as [Hu|[Hu|[]]].
      * rewrite Hoth; auto. intros Hc. apply Hknot. rewrite <- Hc. auto.
      * inversion Hu; subst u'. rewrite K1. unfold u1. rewrite retype_val. congruence.
    + intros j Hj. rewrite Hqk, in_app_iff in Hj. simpl in Hj.
      assert (j <> k) by (intros ->; tauto).
      destruct (D j) as [Hd|Hd]; [tauto | left; rewrite Hoth; auto | right; apply Dns; auto].
    + intros l' j Hl Hj. destruct (Ens _ _ Hl Hj) as [Hne [l [Hl0 Hj0]]].
      destruct (E _ _ Hl0 Hj0) as [E1 [E2 E3]]. split; [exact E1|]. split.
      * rewrite Hqk, in_app_iff. simpl. intuition.
      * rewrite Hoth; auto.
    + intros u' v Hu Hv. apply in_app_iff in Hu. destruct Hu as [Hu|[Hu|[]]]; [eauto|].
      inversion Hu; subst u'. unfold u1 in *. rewrite retype_val in Hv. rewrite retype_key.
      eapply retype_type; eauto.
    + intros u' Hu Hn'. apply in_app_iff in Hu. destruct Hu as [Hu|[Hu|[]]].
      * destruct (G _ Hu Hn'); auto.
      * inversion Hu; subst u'. unfold u1 in *. rewrite retype_val in Hn'. rewrite retype_key. fold k.
        destruct (mem k (live st)) eqn:Hl; [left; reflexivity|right]. apply Hi2; auto.
    + apply Hq_snoc_upd. eapply Hq_good_incl; eauto.
    + exact I'.
Qed.

(* ------------------------------------------------------------------ restart *)
Lemma inv_on_restart : forall st sv uv snt il,
  Inv st sv uv snt il -> Inv (on_restart st) sv vempty [] [].
Proof.
  intros st sv uv snt il [A1 A2 B C D E F G H I].
  constructor; simpl.
  - constructor.
  - intros k; split; [discriminate | intros []].
  - exact B.
  - simpl; tauto.
  - intros k _. unfold vempty. destruct (sv k) eqn:Es; [right|left; reflexivity].
    eexists; split; [reflexivity|]. apply mem_In. apply B. congruence.
  - intros l k Hl Hk. inversion Hl; subst. split; [apply mem_In; exact Hk|]. split; [simpl; tauto|reflexivity].
  - simpl; tauto.
  - simpl; tauto.
  - exact Logic.I.
  - unfold vempty; intros; discriminate.
Qed.

(* ------------------------------------------------------------------ the consumer *)
Definition item_ok (snt : list (key * val)) (il : list key) (sv : view) (it : item) : Prop :=
  match it with
  | IUpd u =>
      match u_val u with
      | Some _ => u_type u = match sv (u_key u) with None => UTNew | Some _ => UTUpdated end
      | None => sv (u_key u) <> None \/ In (u_key u) il
      end
  | IStatus InSync => forall k, good snt sv k
  | IStatus _ => True
  end.

Fixpoint items_ok (snt : list (key * val)) (il : list key) (sv : view) (its : list item) : Prop :=
  match its with
  | [] => True
  | it :: r => item_ok snt il sv it /\ items_ok snt il (apply_item sv it) r
  end.

Lemma inv_pop : forall st sv uv snt il it rest,
  Inv st sv uv snt il -> q st = it :: rest ->
  item_ok snt il sv it /\ Inv (pop_effect it rest st) (apply_item sv it) uv snt il.
Proof.
  intros st sv uv snt il it rest [A1 A2 B C D E F G H I] Hq0.
  rewrite Hq0 in *.
  destruct it as [u|s].
  - (* an update *)
    set (k := u_key u) in *.
    destruct (NoDup_qkeys_head _ _ A1) as [Hk Hnd]. fold k in Hk.
    assert (Hin : In (IUpd u) (IUpd u :: rest)) by (left; reflexivity).
    assert (Hcu : u_val u = uv k) by (apply (C u Hin)).
    assert (Hrest : forall u', In (IUpd u') rest -> u_key u' <> k).
    { intros u' Hu Hc. apply Hk. apply In_qkeys. eauto. }
    split.
    + unfold item_ok. fold k. destruct (u_val u) as [v|] eqn:Ev.
      * rewrite (F u v Hin Ev). fold k. destruct (sv k) eqn:Es.
        { assert (Hm : mem k (live st) = true) by (apply B; congruence). rewrite Hm. reflexivity. }
        { destruct (mem k (live st)) eqn:Hm; [|reflexivity]. apply B in Hm. congruence. }
      * destruct (G u Hin Ev) as [Hm|Hm]; [left; apply B; exact Hm | right; exact Hm].
    + assert (Hsv' : forall j, j <> k -> apply_item sv (IUpd u) j = sv j).
      { intros j Hne. simpl. apply vupd_other. exact Hne. }
      assert (Hsvk : apply_item sv (IUpd u) k = u_val u).
      { simpl. apply vupd_same. }
      assert (Hlive : forall j, j <> k ->
                mem j (match u_val u with None => discard k (live st) | Some _ => add k (live st) end)
                = mem j (live st)).
      { intros j Hne. destruct (mem j (live st)) eqn:Hm.
        - apply mem_In. apply mem_In in Hm. destruct (u_val u); [apply In_add; auto | apply In_discard; auto].
        - apply mem_false. apply mem_false in Hm. intros Hc. apply Hm.
          destruct (u_val u); [apply In_add in Hc; destruct Hc; [congruence|auto] | apply In_discard in Hc; tauto]. }
      constructor; cbn [pop_effect q pend live ns mrs]; fold k.
      * exact Hnd.
      * intros j. rewrite mem_In, In_discard, <- mem_In, A2. simpl. fold k.
        split; [intros [[Hj|Hj] Hne]; [congruence|exact Hj] | intros Hj; split; [auto|]; intros ->; tauto].
      * intros j. destruct (N.eq_dec j k) as [->|Hne].
        { rewrite Hsvk. destruct (u_val u) eqn:Ev.
          - split; [discriminate|]. intros _. apply mem_In. apply In_add. auto.
          - split; [|congruence]. intros Hm. apply mem_In in Hm. apply In_discard in Hm. tauto. }
        { rewrite Hlive, Hsv'; auto. }
      * intros u' Hu. apply C. right; exact Hu.
      * intros j Hj. destruct (N.eq_dec j k) as [->|Hne].
        { left. rewrite Hsvk. exact Hcu. }
        { rewrite Hsv'; auto. apply D. simpl. fold k. intros [Hc|Hc]; [congruence|tauto]. }
      * intros l j Hl Hj. destruct (E l j Hl Hj) as [E1 [E2 E3]].
        assert (Hne : j <> k). { intros ->. apply E2. simpl. left; reflexivity. }
        split; [rewrite Hlive; auto|]. split; [|exact E3]. intros Hc. apply E2. simpl. right; exact Hc.
      * intros u' v Hu Hv. rewrite Hlive; [|apply Hrest; exact Hu]. apply (F u' v); [right; exact Hu|exact Hv].
      * intros u' Hu Hv. rewrite Hlive; [|apply Hrest; exact Hu]. apply (G u'); [right; exact Hu|exact Hv].
      * simpl in H. fold k in H. eapply Hq_mono; [|exact H].
        intros j [[<-|[]]|Hg].
        { right. unfold good. rewrite Hsvk. destruct (u_val u) as [v|] eqn:Ev; [|exact Logic.I].
          apply I. congruence. }
        { right. unfold good in *. destruct (N.eq_dec j k) as [->|Hne].
          - rewrite Hsvk. destruct (u_val u) as [v|] eqn:Ev; [|exact Logic.I].
            apply I. congruence.
          - rewrite Hsv'; auto. }
      * exact I.
  - (* a status *)
    split.
    + simpl. destruct s; try exact Logic.I. simpl in H. destruct H as [H1 _].
      intros k. destruct (H1 eq_refl k) as [[]|Hg]. exact Hg.
    + simpl in H. destruct H as [_ H2].
      constructor; cbn [pop_effect q pend live ns mrs apply_item]; auto.
      * intros u Hu. apply C. right; exact Hu.
      * intros u v Hu. apply F. right; exact Hu.
      * intros u Hu. apply G. right; exact Hu.
Qed.

Lemma inv_pull : forall n st sv uv snt il its st',
  Inv st sv uv snt il -> pull n st = (its, st') ->
  items_ok snt il sv its /\ Inv st' (sink_from sv its) uv snt il.
Proof.
  induction n as [|n IH]; intros st sv uv snt il its st' HI Hp; simpl in Hp.
  - inversion Hp; subst. simpl. auto.
  - destruct (q st) as [|it rest] eqn:Hq0.
    + inversion Hp; subst. simpl. auto.
    + destruct (pull n (pop_effect it rest st)) as [its0 st0] eqn:Hp0.
      inversion Hp; subst.
      destruct (inv_pop _ _ _ _ _ _ _ HI Hq0) as [Hok HI'].
      destruct (IH _ _ _ _ _ _ _ HI' Hp0) as [Hoks HI''].
      split; [simpl; auto|]. exact HI''.
Qed.

(* ------------------------------------------------------------------ status / in-sync after reconnection *)
Lemma queue_update_set_ns : forall st x u,
  queue_update (set_ns st x) u = set_ns (queue_update st u) x.
Proof.
  intros. unfold queue_update, set_ns. cbn [q pend live ns mrs].
  destruct (mem (u_key u) (pend st)); [destruct (is_none _ && _)|]; reflexivity.
Qed.

Lemma discard_notin : forall k l, ~ In k l -> discard k l = l.
Proof.
  induction l; simpl; intros H; auto.
  destruct (N.eqb a k) eqn:E.
  - apply N.eqb_eq in E. subst. tauto.
  - simpl. f_equal. apply IHl. tauto.
Qed.

Lemma inv_synth_delete : forall st sv uv snt il k ks,
  Inv (set_ns st (Some (k :: ks))) sv uv snt il -> ~ In k ks ->
  Inv (set_ns (queue_update st (del_update k)) (Some ks)) sv uv snt il.
Proof.
  intros st sv uv snt il k ks HI Hn.
  pose proof (iE _ _ _ _ _ HI (k :: ks) k eq_refl (or_introl eq_refl)) as [E1 [E2 E3]].
  cbn [set_ns live q] in E1, E2.
  assert (Hstep : on_update1 (set_ns st (Some (k :: ks))) (del_update k)
                  = set_ns (queue_update st (del_update k)) (Some ks)).
  { unfold on_update1. cbn [ns set_ns option_map del_update u_key].
    assert (Hd : discard k (k :: ks) = ks).
    { simpl. rewrite N.eqb_refl. simpl. apply discard_notin. exact Hn. }
    rewrite Hd. rewrite <- queue_update_set_ns. reflexivity. }
  rewrite <- Hstep.
  eapply inv_on_update1; try exact HI.
  - intros j. simpl. unfold vupd. destruct (N.eqb j k) eqn:Ej; [|reflexivity].
    apply N.eqb_eq in Ej. subst. exact E3.
  - apply incl_refl.
  - simpl. intros; discriminate.
  - apply incl_refl.
  - simpl. intros _ Hm. cbn [set_ns live] in Hm. congruence.
Qed.

Lemma inv_synth_loop : forall ks st sv uv snt il,
  NoDup ks -> Inv (set_ns st (Some ks)) sv uv snt il ->
  Inv (set_ns (fold_left (fun s k => queue_update s (del_update k)) ks st) (Some [])) sv uv snt il.
Proof.
  induction ks as [|k ks IH]; intros st sv uv snt il Hnd HI; simpl.
  - exact HI.
  - inversion Hnd; subst. apply IH; auto. apply inv_synth_delete; auto.
Qed.

Lemma inv_ns_equiv : forall st sv uv snt il l l',
  Inv st sv uv snt il -> ns st = Some l -> (forall x, In x l' <-> In x l) ->
  Inv (set_ns st (Some l')) sv uv snt il.
Proof.
  intros st sv uv snt il l l' [A1 A2 B C D E F G H I] Hl Heq.
  constructor; cbn [set_ns q pend live ns mrs]; auto.
  - intros k Hk. destruct (D k Hk) as [Hd|[l0 [Hl0 Hk0]]]; [left; exact Hd|right].
    exists l'. split; [reflexivity|]. apply Heq. congruence.
  - intros l0 k Hl0 Hk. inversion Hl0; subst. apply (E l k Hl). apply Heq. exact Hk.
Qed.

Lemma inv_ns_done : forall st sv uv snt il,
  Inv (set_ns st (Some [])) sv uv snt il -> Inv (set_ns st None) sv uv snt il.
Proof.
  intros st sv uv snt il [A1 A2 B C D E F G H I].
  cbn [set_ns q pend live ns mrs] in *.
  constructor; cbn [set_ns q pend live ns mrs]; auto.
  - intros k Hk. destruct (D k Hk) as [Hd|[l0 [Hl0 Hk0]]]; [left; exact Hd|].
    inversion Hl0; subst. destruct Hk0.
  - intros; discriminate.
Qed.

Lemma inv_on_insync : forall st sv uv snt il ord l,
  Inv st sv uv snt il -> ns st = Some l -> Inv (on_insync ord l st) sv uv snt il.
Proof.
  intros. unfold on_insync. apply inv_ns_done. apply inv_synth_loop.
  - unfold order. apply NoDup_dedup.
  - eapply inv_ns_equiv; eauto. intros x. apply In_order.
Qed.

Lemma ns_on_insync : forall ord l st, ns (on_insync ord l st) = None.
Proof. reflexivity. Qed.

Lemma inv_on_status : forall st sv uv snt il ord s,
  Inv st sv uv snt il ->
  Inv (on_status ord s st) sv uv snt il /\
  (s = InSync -> ns (on_status ord s st) = None) /\
  (s <> InSync -> ns (on_status ord s st) = ns st).
Proof.
  intros st sv uv snt il ord s HI. unfold on_status.
  set (st1 := match status_eqb s InSync, ns st with
              | true, Some l => on_insync ord l st
              | _, _ => st end).
  assert (H1 : Inv st1 sv uv snt il /\ (s = InSync -> ns st1 = None) /\ (s <> InSync -> ns st1 = ns st)).
  { unfold st1. destruct s; simpl; try (split; [exact HI|split; [discriminate|reflexivity]]).
    destruct (ns st) as [l|] eqn:Hl.
    - split; [apply inv_on_insync; auto|]. split; [reflexivity|congruence].
    - split; [exact HI|]. split; [intros _; exact Hl|congruence]. }
  clearbody st1. destruct H1 as [HI1 [Hn1 Hn2]].
  destruct (status_eqb (mrs st1) s); [auto|].
  split; [|cbn [ns]; auto].
  destruct HI1 as [A1 A2 B C D E F G H I].
  constructor; cbn [q pend live ns mrs]; auto.
  - rewrite qkeys_push_status. exact A1.
  - intros k. rewrite qkeys_push_status. apply A2.
  - intros u Hu. apply In_push_status in Hu. auto.
  - intros k. rewrite qkeys_push_status. apply D.
  - intros l k. rewrite qkeys_push_status. apply E.
  - intros u v Hu. apply In_push_status in Hu. eauto.
  - intros u Hu. apply In_push_status in Hu. auto.
  - apply Hq_push_status; [exact H|]. intros Hs k. rewrite app_nil_r.
    destruct (in_dec N.eq_dec k (qkeys (q st1))) as [Hi|Hi]; [left; exact Hi|right].
    destruct (D k Hi) as [Hd|[l [Hl _]]].
    + unfold good. destruct (sv k) eqn:Es; [|exact Logic.I]. apply I. congruence.
    + rewrite (Hn1 Hs) in Hl. discriminate.
Qed.

(* ------------------------------------------------------------------ a batch of upstream updates *)
Lemma fst_ill_update : forall us acc,
  fst (fold_left ill_update us acc) = fold_left apply_update us (fst acc).
Proof. induction us; simpl; intros; auto. rewrite IHus. reflexivity. Qed.

Lemma inv_on_updates : forall us st sv uv snt il,
  Inv st sv uv snt il ->
  Inv (on_updates st us) sv (fold_left apply_update us uv) (fold_left sent_update us snt)
      (snd (fold_left ill_update us (uv, il))).
Proof.
  unfold on_updates. induction us as [|u us IH]; intros st sv uv snt il HI; simpl; [exact HI|].
  apply IH. 
  eapply inv_on_update1; try exact HI.
  - intros j. reflexivity.
  - unfold sent_update. destruct (u_val u); [apply incl_tl|]; apply incl_refl.
  - intros v Hv. unfold sent_update. rewrite Hv. left; reflexivity.
  - simpl. destruct (u_val u); [apply incl_refl|]. destruct (uv (u_key u)); [apply incl_refl|apply incl_tl; apply incl_refl].
  - intros Hv Hm Hk. simpl. rewrite Hv.
    destruct (uv (u_key u)) eqn:Eu; [|left; reflexivity]. exfalso.
    destruct (iD _ _ _ _ _ HI _ Hk) as [Hd|[l [Hl Hkl]]].
    + assert (mem (u_key u) (live st) = true) by (apply (iB _ _ _ _ _ HI); congruence). congruence.
    + destruct (iE _ _ _ _ _ HI _ _ Hl Hkl) as [E1 _]. congruence.
Qed.

(* ------------------------------------------------------------------ whole histories *)
Lemma run_snoc : forall ops o, run (ops ++ [o]) = run_step (run ops) o.
Proof. intros. unfold run. rewrite fold_left_app. reflexivity. Qed.
Lemma upstream_snoc : forall ops o, upstream_view (ops ++ [o]) = upstream_step (upstream_view ops) o.
Proof. intros. unfold upstream_view. rewrite fold_left_app. reflexivity. Qed.
Lemma sent_snoc : forall ops o, sent (ops ++ [o]) = sent_step (sent ops) o.
Proof. intros. unfold sent. rewrite fold_left_app. reflexivity. Qed.
Lemma resync_snoc : forall ops o, resync_pending (ops ++ [o]) = resync_step (resync_pending ops) o.
Proof. intros. unfold resync_pending. rewrite fold_left_app. reflexivity. Qed.

Definition ill_acc (ops : list op) : view * list key := fold_left ill_step ops (vempty, []).
Lemma ill_acc_snoc : forall ops o, ill_acc (ops ++ [o]) = ill_step (ill_acc ops) o.
Proof. intros. unfold ill_acc. rewrite fold_left_app. reflexivity. Qed.
Lemma fst_ill_acc : forall ops, fst (ill_acc ops) = upstream_view ops.
Proof.
  induction ops as [|o ops IH] using rev_ind; [reflexivity|].
  rewrite ill_acc_snoc, upstream_snoc. destruct o; simpl; auto.
  rewrite fst_ill_update, IH. reflexivity.
Qed.

Lemma sink_from_app : forall sv a b, sink_from sv (a ++ b) = sink_from (sink_from sv a) b.
Proof. intros. unfold sink_from. apply fold_left_app. Qed.

Lemma ns_queue_update : forall st u, ns (queue_update st u) = ns st.
Proof.
  intros. unfold queue_update. destruct (mem _ _); [destruct (_ && _)|]; reflexivity.
Qed.
Lemma ns_on_updates : forall us st, ns (on_updates st us) = None <-> ns st = None.
Proof.
  unfold on_updates. induction us as [|u us IH]; intros st; simpl; [tauto|].
  rewrite IH. unfold on_update1. rewrite ns_queue_update. cbn [set_ns ns].
  destruct (ns st); simpl; split; congruence.
Qed.
Lemma ns_pull : forall n st its st', pull n st = (its, st') -> ns st' = ns st.
Proof.
  induction n as [|n IH]; intros st its st' Hp; simpl in Hp.
  - inversion Hp; reflexivity.
  - destruct (q st) as [|it rest]; [inversion Hp; reflexivity|].
    destruct (pull n (pop_effect it rest st)) as [its0 st0] eqn:Hp0. inversion Hp; subst.
    rewrite (IH _ _ _ Hp0). destruct it; reflexivity.
Qed.

(* typing of upserts over the whole delivered stream *)
Fixpoint types_ok (sv : view) (its : list item) : Prop :=
  match its with
  | [] => True
  | it :: r =>
      match it with
      | IUpd u => match u_val u with
                  | Some _ => u_type u = match sv (u_key u) with None => UTNew | Some _ => UTUpdated end
                  | None => True
                  end
      | IStatus _ => True
      end /\ types_ok (apply_item sv it) r
  end.

Lemma types_ok_app : forall a sv b, types_ok sv a -> types_ok (sink_from sv a) b -> types_ok sv (a ++ b).
Proof.
  induction a as [|it a IH]; simpl; intros sv b Ha Hb; [exact Hb|].
  destruct Ha as [H1 H2]. split; [exact H1|]. apply IH; auto.
Qed.

Lemma items_ok_types : forall its snt il sv, items_ok snt il sv its -> types_ok sv its.
Proof.
  induction its as [|it its IH]; simpl; intros snt il sv H; [exact Logic.I|].
  destruct H as [H1 H2]. split; [|eapply IH; eauto].
  destruct it as [u|s]; [|exact Logic.I]. simpl in H1. destruct (u_val u); [exact H1|exact Logic.I].
Qed.

Lemma items_ok_split : forall pre snt il sv it post,
  items_ok snt il sv (pre ++ it :: post) -> item_ok snt il (sink_from sv pre) it.
Proof.
  induction pre as [|x pre IH]; simpl; intros snt il sv it post H.
  - tauto.
  - destruct H as [_ H]. apply IH in H. exact H.
Qed.

Lemma types_ok_split : forall pre sv u post v,
  types_ok sv (pre ++ IUpd u :: post) -> u_val u = Some v ->
  u_type u = match sink_from sv pre (u_key u) with None => UTNew | Some _ => UTUpdated end.
Proof.
  induction pre as [|x pre IH]; simpl; intros sv u post v H Hv.
  - destruct H as [H _]. rewrite Hv in H. exact H.
  - destruct H as [_ H]. eapply IH; eauto.
Qed.

Theorem inv_run : forall ops,
  Inv (fst (run ops)) (sink_view (snd (run ops))) (upstream_view ops) (sent ops) (ill ops)
  /\ (ns (fst (run ops)) = None <-> resync_pending ops = false)
  /\ types_ok vempty (snd (run ops)).
Proof.
  induction ops as [|o ops IH] using rev_ind.
  - split; [exact inv_init|]. split; [simpl; tauto|exact Logic.I].
  - destruct IH as [HI [Hns Hty]].
    unfold ill in *. fold (ill_acc ops) in HI. fold (ill_acc (ops ++ [o])).
    rewrite run_snoc, upstream_snoc, sent_snoc, resync_snoc, ill_acc_snoc.
    destruct (run ops) as [st evs] eqn:Hrun. cbn [fst snd] in *.
    destruct o as [|s ord|us|n]; unfold run_step; cbn [step fst snd].
    + (* restart *)
      rewrite app_nil_r. cbn [fst snd upstream_step sent_step ill_step resync_step].
      split; [eapply inv_on_restart; exact HI|]. split; [simpl; split; discriminate|exact Hty].
    + (* status *)
      rewrite app_nil_r. cbn [fst snd upstream_step sent_step ill_step].
      destruct (inv_on_status _ _ _ _ _ ord s HI) as [HI' [Hn1 Hn2]].
      split; [exact HI'|]. split; [|exact Hty].
      destruct s; simpl resync_step.
      * rewrite Hn2 by discriminate. exact Hns.
      * rewrite Hn2 by discriminate. exact Hns.
      * rewrite Hn1 by reflexivity. tauto.
    + (* updates *)
      rewrite app_nil_r. cbn [fst snd upstream_step sent_step ill_step resync_step].
      pose proof (fst_ill_acc ops) as Hf.
      destruct (ill_acc ops) as [v0 l0] eqn:Hacc. cbn [fst snd] in *. subst v0.
      split; [apply inv_on_updates; exact HI|]. split; [|exact Hty].
      rewrite ns_on_updates. exact Hns.
    + (* pull *)
      destruct (pull n st) as [its st'] eqn:Hp. cbn [fst snd upstream_step sent_step ill_step resync_step].
      destruct (inv_pull _ _ _ _ _ _ _ _ HI Hp) as [Hok HI'].
      unfold sink_view in *. rewrite sink_from_app.
      split; [exact HI'|]. split.
      * rewrite (ns_pull _ _ _ _ Hp). exact Hns.
      * apply types_ok_app; [exact Hty|]. eapply items_ok_types; eauto.
Qed.

(* ------------------------------------------------------------------ the property *)
Lemma converges : forall ops,
  resync_pending ops = false -> q (fst (run ops)) = [] ->
  forall k, sink_view (snd (run ops)) k = upstream_view ops k.
Proof.
  intros ops Hr Hq0 k. destruct (inv_run ops) as [HI [Hns _]].
  destruct (iD _ _ _ _ _ HI k) as [Hd|[l [Hl _]]].
  - rewrite Hq0. simpl. tauto.
  - exact Hd.
  - apply Hns in Hr. congruence.
Qed.

Lemma missing_deleted : forall ops k,
  resync_pending ops = false -> q (fst (run ops)) = [] ->
  upstream_view ops k = None -> sink_view (snd (run ops)) k = None.
Proof. intros ops k H1 H2 H3. rewrite <- H3. exact (converges ops H1 H2 k). Qed.

Lemma unchanged_kept : forall ops k v,
  resync_pending ops = false -> q (fst (run ops)) = [] ->
  upstream_view ops k = Some v -> sink_view (snd (run ops)) k = Some v.
Proof. intros ops k v H1 H2 H3. rewrite <- H3. exact (converges ops H1 H2 k). Qed.

Fixpoint no_restart (ops : list op) : bool :=
  match ops with
  | [] => true
  | OpRestart :: _ => false
  | _ :: r => no_restart r
  end.

Lemma resync_false_stays : forall post, no_restart post = true -> fold_left resync_step post false = false.
Proof.
  induction post as [|o post IH]; simpl; intros H; [reflexivity|].
  destruct o as [|s ord| |]; try discriminate; simpl; auto. destruct s; auto.
Qed.

Lemma resync_after_insync : forall pre ord post,
  no_restart post = true -> resync_pending (pre ++ OpStatus InSync ord :: post) = false.
Proof.
  intros. unfold resync_pending. rewrite fold_left_app. simpl. apply resync_false_stays. exact H.
Qed.

Lemma converges_after_insync : forall pre ord post,
  no_restart post = true ->
  let ops := pre ++ OpStatus InSync ord :: post in
  q (fst (run ops)) = [] ->
  forall k, sink_view (snd (run ops)) k = upstream_view ops k.
Proof. intros. apply converges; auto. apply resync_after_insync; auto. Qed.

Lemma new_vs_updated_stream : forall ops pre u v post,
  snd (run ops) = pre ++ IUpd u :: post -> u_val u = Some v ->
  (u_type u = UTNew <-> sink_view pre (u_key u) = None) /\
  (u_type u = UTUpdated <-> sink_view pre (u_key u) <> None).
Proof.
  intros ops pre u v post He Hv. destruct (inv_run ops) as [_ [_ Hty]].
  rewrite He in Hty. pose proof (types_ok_split _ _ _ _ _ Hty Hv) as Ht.
  unfold sink_view. rewrite Ht. destruct (sink_from vempty pre (u_key u)); split; split; congruence.
Qed.

Lemma pulled_item_ok : forall ops n its st' pre it post,
  pull n (fst (run ops)) = (its, st') -> its = pre ++ it :: post ->
  item_ok (sent ops) (ill ops) (sink_view (snd (run ops) ++ pre)) it.
Proof.
  intros ops n its st' pre it post Hp He. destruct (inv_run ops) as [HI _].
  destruct (inv_pull _ _ _ _ _ _ _ _ HI Hp) as [Hok _]. subst its.
  unfold sink_view. rewrite sink_from_app. eapply items_ok_split; eauto.
Qed.

Lemma deletes_only_held : forall ops n its st' pre u post,
  pull n (fst (run ops)) = (its, st') -> its = pre ++ IUpd u :: post -> u_val u = None ->
  sink_view (snd (run ops) ++ pre) (u_key u) <> None \/ In (u_key u) (ill ops).
Proof.
  intros. pose proof (pulled_item_ok _ _ _ _ _ _ _ H H0) as Hok. simpl in Hok. rewrite H1 in Hok. exact Hok.
Qed.

Lemma nothing_stale_at_insync : forall ops n its st' pre post,
  pull n (fst (run ops)) = (its, st') -> its = pre ++ IStatus InSync :: post ->
  forall k v, sink_view (snd (run ops) ++ pre) k = Some v -> In (k, v) (sent ops).
Proof.
  intros ops n its st' pre post Hp He k v Hk.
  pose proof (pulled_item_ok _ _ _ _ _ _ _ Hp He) as Hok. simpl in Hok.
  specialize (Hok k). unfold good in Hok. rewrite Hk in Hok. exact Hok.
Qed.

(* keyToPendingUpdate mirrors the queue: the dedupe never leaves two updates for one key in flight *)
Lemma queue_deduped : forall ops,
  NoDup (qkeys (q (fst (run ops)))) /\
  forall k, mem k (pend (fst (run ops))) = true <-> In k (qkeys (q (fst (run ops)))).
Proof. intros. destruct (inv_run ops) as [HI _]. split; [apply (iA1 _ _ _ _ _ HI)|apply (iA2 _ _ _ _ _ HI)]. Qed.

Lemma live_is_sink_domain : forall ops k,
  mem k (live (fst (run ops))) = true <-> sink_view (snd (run ops)) k <> None.
Proof. intros. destruct (inv_run ops) as [HI _]. apply (iB _ _ _ _ _ HI). Qed.

(* ------------------------------------------------------------------ the oracle accepts every model run *)
Lemma oval_eqb_refl : forall x, oval_eqb x x = true.
Proof. destruct x; simpl; auto. apply N.eqb_refl. Qed.

Lemma item_ok_reflect : forall keys snt il sv it, item_ok snt il sv it -> ok_item keys snt il sv it = true.
Proof.
  intros keys snt il sv it H. destruct it as [u|s]; simpl in *.
  - destruct (u_val u).
    + rewrite H. destruct (sv (u_key u)); reflexivity.
    + destruct H as [H|H].
      * destruct (sv (u_key u)); [reflexivity|congruence].
      * apply mem_In in H. rewrite H. apply orb_true_r.
  - destruct s; auto. apply forallb_forall. intros k _. specialize (H k).
    unfold good in H. unfold held_was_sent. destruct (sv k) as [v|]; [|reflexivity].
    apply existsb_exists. exists (k, v). split; [exact H|]. unfold pair_eqb. simpl. rewrite !N.eqb_refl. reflexivity.
Qed.

Lemma items_ok_reflect : forall keys snt il its sv, items_ok snt il sv its -> ok_items keys snt il sv its = true.
Proof.
  induction its as [|it its IH]; simpl; intros sv H; [reflexivity|].
  destruct H as [H1 H2]. rewrite (item_ok_reflect keys _ _ _ _ H1). simpl. apply IH. exact H2.
Qed.

Lemma ok_run_model : forall keys ops done,
  ok_run keys done (sink_view (snd (run done))) ops (run_obs (fst (run done)) ops) = true.
Proof.
  induction ops as [|o ops IH]; intros done; [reflexivity|].
  cbn [run_obs].
  destruct (step (fst (run done)) o) as [st' its] eqn:Hstep.
  cbn [ok_run].
  assert (Hrun : run (done ++ [o]) = (st', snd (run done) ++ its)).
  { rewrite run_snoc. unfold run_step. rewrite Hstep. reflexivity. }
  assert (Hsv : sink_from (sink_view (snd (run done))) its = sink_view (snd (run (done ++ [o])))).
  { rewrite Hrun. cbn [snd]. unfold sink_view. rewrite sink_from_app. reflexivity. }
  rewrite Hsv. specialize (IH (done ++ [o])). rewrite Hrun in IH at 2. cbn [fst] in IH. rewrite IH.
  rewrite andb_true_r.
  destruct (inv_run done) as [HI _].
  apply andb_true_iff. split; [apply andb_true_iff; split|].
  - destruct o; simpl in Hstep; try (inversion Hstep; subst; reflexivity); reflexivity.
  - destruct o; simpl in Hstep; try (inversion Hstep; subst; reflexivity).
    destruct (pull n (fst (run done))) as [its0 st0] eqn:Hp. inversion Hstep; subst.
    destruct (inv_pull _ _ _ _ _ _ _ _ HI Hp) as [Hok _].
    unfold sent, ill. rewrite !fold_left_app. simpl. apply items_ok_reflect. exact Hok.
  - destruct (drained st') eqn:Hd; [|reflexivity].
    destruct (resync_pending (done ++ [o])) eqn:Hr; [reflexivity|]. simpl.
    unfold views_agree. apply forallb_forall. intros k _.
    assert (Hq0 : q (fst (run (done ++ [o]))) = []).
    { rewrite Hrun. cbn [fst]. unfold drained in Hd. destruct (q st'); [reflexivity|discriminate]. }
    rewrite (converges _ Hr Hq0 k). apply oval_eqb_refl.
Qed.

Lemma model_meets_spec : forall ops cbs evs,
  ok_case {| c_ops := ops; c_outs := run_obs init ops; c_cbs := cbs; c_events := evs |} = true.
Proof. intros. unfold ok_case. cbn [c_ops c_outs]. exact (ok_run_model _ ops []). Qed.

(* ------------------------------------------------------------------ the hypotheses are satisfiable *)
(* two resources delivered, connection restarts, the new connection re-sends k1 with a new value and does
   not have k2 any more, reports in-sync, consumer drains *)
Definition ex_ops : list op :=
  [OpUpdates [US 1 1 UTNew; US 2 1 UTNew]; OpStatus InSync []; OpPull 10;
   OpRestart; OpStatus WaitForDatastore []; OpUpdates [US 1 2 UTNew; DL 3 UTDeleted]; OpStatus InSync [];
   OpPull 1; OpPull 10].

Example ex_converges_hyps :
  resync_pending ex_ops = false /\ q (fst (run ex_ops)) = [] /\
  snd (run ex_ops) =
    [IUpd (US 1 1 UTNew); IUpd (US 2 1 UTNew); IStatus InSync;
     IStatus WaitForDatastore; IUpd (US 1 2 UTUpdated); IUpd (DL 3 UTDeleted); IUpd (DL 2 UTDeleted); IStatus InSync] /\
  sink_view (snd (run ex_ops)) 1 = Some 2 /\ sink_view (snd (run ex_ops)) 2 = None /\
  ill ex_ops = [3] /\ sent ex_ops = [(1, 2)].
Proof. vm_compute. repeat split; reflexivity. Qed.

(* a pull that delivers the in-sync of the new connection, with the synthesized deletion ahead of it *)
Example ex_insync_pull :
  let ops := firstn 8 ex_ops in
  fst (pull 10 (fst (run ops))) =
    [IUpd (US 1 2 UTUpdated); IUpd (DL 3 UTDeleted); IUpd (DL 2 UTDeleted); IStatus InSync].
Proof. vm_compute. reflexivity. Qed.
