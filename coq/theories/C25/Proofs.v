(* C25 — proofs *)
From Coq Require Import List NArith Bool Lia.
From Verif.C25 Require Import Model Spec.
Import ListNotations.
Open Scope N_scope.

Lemma restart_clears_queue : forall st, q (on_restart st) = [] /\ ns (on_restart st) = Some (live st).
Proof. intros; split; reflexivity. Qed.
