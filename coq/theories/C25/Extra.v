(* C25 — proofs, part 2: the consumer's pace and batching (pull sizes, the drain loop, the OnUpdates slices
   made by dropLockAndSendBatch) and the syncclient as producer of the buffer's input. *)
From Coq Require Import List NArith Bool Lia Arith.
From Verif.C25 Require Import Model Spec Proofs.
Import ListNotations.
Open Scope N_scope.

(* ------------------------------------------------------------------ pulls *)
Lemma q_pop_effect : forall it rest st, q (pop_effect it rest st) = rest.
Proof. intros. destruct it; reflexivity. Qed.

Lemma pull_empty : forall n st, q st = [] -> pull n st = ([], st).
Proof. intros n st H. destruct n; simpl; [reflexivity|]. rewrite H. reflexivity. Qed.

(* what a pull delivers is exactly a prefix of the queue, in queue order, and the rest stays queued *)
Lemma pull_prefix : forall n st its st', pull n st = (its, st') ->
  its = firstn n (q st) /\ q st' = skipn n (q st).
Proof.
  induction n as [|n IH]; intros st its st' Hp; simpl in Hp.
  - inversion Hp; subst. auto.
  - destruct (q st) as [|it rest] eqn:Hq0.
    + inversion Hp; subst. rewrite Hq0. auto.
    + destruct (pull n (pop_effect it rest st)) as [its0 st0] eqn:Hp0. inversion Hp; subst.
      destruct (IH _ _ _ Hp0) as [H1 H2]. rewrite q_pop_effect in H1, H2. simpl. split; congruence.
Qed.

(* two pulls in a row are one pull of the summed size: the consumer's pace does not matter *)
Lemma pull_add : forall n m st,
  pull (n + m) st =
  let (a, s1) := pull n st in let (b, s2) := pull m s1 in (a ++ b, s2).
Proof.
  induction n as [|n IH]; intros m st.
  - simpl. destruct (pull m st); reflexivity.
  - simpl. destruct (q st) as [|it rest] eqn:Hq0.
    + rewrite (pull_empty m st Hq0). reflexivity.
    + rewrite IH. destruct (pull n (pop_effect it rest st)) as [a s1].
      destruct (pull m s1) as [b s2]. reflexivity.
Qed.

Lemma pull_ge : forall n st, (length (q st) <= n)%nat -> pull n st = pull (length (q st)) st.
Proof.
  induction n as [|n IH]; intros st H.
  - destruct (q st); simpl in *; [reflexivity|lia].
  - simpl. destruct (q st) as [|it rest] eqn:Hq0; [reflexivity|].
    simpl. rewrite Hq0. simpl in H.
    rewrite (IH (pop_effect it rest st)) by (rewrite q_pop_effect; lia).
    rewrite q_pop_effect. reflexivity.
Qed.

Lemma pull_all_drains : forall n st its st', (length (q st) <= n)%nat -> pull n st = (its, st') ->
  its = q st /\ q st' = [].
Proof.
  intros n st its st' H Hp. destruct (pull_prefix _ _ _ _ Hp) as [H1 H2].
  rewrite firstn_all2 in H1 by lia. rewrite skipn_all2 in H2 by lia. auto.
Qed.

(* ------------------------------------------------------------------ the drain loop *)
Lemma drain_loop_spec : forall bs fuel st, (1 <= bs)%nat -> (length (q st) <= fuel)%nat ->
  drain_loop bs fuel st = (chunks_fuel fuel bs (q st), snd (pull (length (q st)) st)).
Proof.
  intros bs fuel. induction fuel as [|f IH]; intros st Hbs Hl.
  - destruct (q st) eqn:Hq0; simpl in Hl; [|lia]. reflexivity.
  - simpl. destruct (q st) as [|it rest] eqn:Hq0; [reflexivity|].
    destruct (pull bs st) as [its st'] eqn:Hp.
    destruct (pull_prefix _ _ _ _ Hp) as [H1 H2]. rewrite Hq0 in H1, H2.
    assert (Hlen : (length (q st') <= f)%nat).
    { rewrite H2, skipn_length. simpl length in *. lia. }
    rewrite (IH st' Hbs Hlen). rewrite H2, H1. f_equal.
    (* the final state: pull bs then pull the rest = pull everything *)
    set (L := length (it :: rest)).
    assert (Hq : q st = it :: rest) by exact Hq0.
    destruct (Nat.le_gt_cases L bs) as [Hle|Hgt].
    + (* one batch takes everything *)
      assert (Hall : pull bs st = pull L st) by (unfold L; rewrite <- Hq; apply pull_ge; rewrite Hq; exact Hle).
      assert (Hs : skipn bs (it :: rest) = []) by (apply skipn_all2; exact Hle).
      rewrite Hs. simpl length. rewrite <- Hall, Hp. reflexivity.
    + pose proof (pull_add bs (L - bs) st) as Ha.
      replace (bs + (L - bs))%nat with L in Ha by lia. rewrite Hp in Ha.
      rewrite skipn_length. fold L.
      destruct (pull (L - bs) st') as [b s2] eqn:Hp2. rewrite Ha. reflexivity.
Qed.

Lemma concat_chunks_fuel : forall fuel bs l, (1 <= bs)%nat -> (length l <= fuel)%nat ->
  concat (chunks_fuel fuel bs l) = l.
Proof.
  induction fuel as [|f IH]; intros bs l Hbs Hl.
  - destruct l; simpl in *; [reflexivity|lia].
  - destruct l as [|x l']; [reflexivity|].
    change (chunks_fuel (S f) bs (x :: l')) with (firstn bs (x :: l') :: chunks_fuel f bs (skipn bs (x :: l'))).
    simpl concat. rewrite IH; [apply firstn_skipn|exact Hbs|].
    rewrite skipn_length. simpl length in *. lia.
Qed.

Lemma drain_spec : forall bs st, (1 <= bs)%nat ->
  drain bs st = (chunks bs (q st), snd (pull (length (q st)) st))
  /\ concat (fst (drain bs st)) = q st
  /\ q (snd (drain bs st)) = [].
Proof.
  intros bs st Hbs. unfold drain. rewrite drain_loop_spec by auto. cbn [fst snd].
  split; [reflexivity|]. split.
  - apply concat_chunks_fuel; auto.
  - destruct (pull (length (q st)) st) as [its st'] eqn:Hp. simpl.
    apply (pull_all_drains _ _ _ _ (le_n _) Hp).
Qed.

(* ------------------------------------------------------------------ dropLockAndSendBatch *)
Lemma flat_flush : forall acc, flat_map cb_items (flush acc) = map IUpd (rev acc).
Proof. destruct acc; simpl; [reflexivity|]. rewrite app_nil_r. reflexivity. Qed.

Lemma send_batch_acc_flat : forall its acc,
  flat_map cb_items (send_batch_acc acc its) = map IUpd (rev acc) ++ its.
Proof.
  induction its as [|[u|s] r IH]; intros acc; simpl.
  - rewrite flat_flush, app_nil_r. reflexivity.
  - rewrite IH. simpl. rewrite map_app, <- app_assoc. reflexivity.
  - rewrite flat_map_app, flat_flush. simpl. rewrite IH. reflexivity.
Qed.

(* the callbacks carry exactly the pulled items, in order *)
Lemma send_batch_flat : forall its, flat_map cb_items (send_batch its) = its.
Proof. intros. unfold send_batch. rewrite send_batch_acc_flat. reflexivity. Qed.

Definition nonempty_cb (c : cb) : Prop := match c with CbUpdates [] => False | _ => True end.

Lemma flush_nonempty : forall acc, Forall nonempty_cb (flush acc).
Proof.
  destruct acc as [|a acc]; simpl; constructor; [|constructor].
  simpl. destruct (rev acc ++ [a]) eqn:E; [|exact Logic.I]. destruct (rev acc); discriminate.
Qed.

Lemma send_batch_acc_nonempty : forall its acc, Forall nonempty_cb (send_batch_acc acc its).
Proof.
  induction its as [|[u|s] r IH]; intros acc; simpl.
  - apply flush_nonempty.
  - apply IH.
  - apply Forall_app. split; [apply flush_nonempty|]. constructor; [exact Logic.I|apply IH].
Qed.

(* OnUpdates is never called with an empty slice *)
Lemma send_batch_nonempty : forall its, Forall nonempty_cb (send_batch its).
Proof. intros. apply send_batch_acc_nonempty. Qed.

Lemma flat_send_batches : forall cs, flat_map cb_items (flat_map send_batch cs) = concat cs.
Proof.
  induction cs as [|c cs IH]; simpl; [reflexivity|].
  rewrite flat_map_app, send_batch_flat, IH. reflexivity.
Qed.

Lemma callbacks_of_flat : forall bs its, (1 <= bs)%nat -> flat_map cb_items (callbacks_of bs its) = its.
Proof.
  intros bs its Hbs. unfold callbacks_of, chunks. rewrite flat_send_batches.
  apply concat_chunks_fuel; auto.
Qed.

(* ------------------------------------------------------------------ the syncclient as producer *)
Lemma fold_left_flat_map : forall (A B C : Type) (f : A -> B -> A) (g : C -> list B) l a,
  fold_left f (flat_map g l) a = fold_left (fun a x => fold_left f (g x) a) l a.
Proof.
  induction l as [|x l IH]; intros a; simpl; [reflexivity|]. rewrite fold_left_app. apply IH.
Qed.

Lemma fold_left_ext : forall (A B : Type) (f g : A -> B -> A), (forall a x, f a x = g a x) ->
  forall l a, fold_left f l a = fold_left g l a.
Proof. intros A B f g H. induction l as [|x l IH]; intros a0; simpl; [reflexivity|]. rewrite H. apply IH. Qed.

Lemma upstream_client : forall evs, upstream_view (client_ops evs) = last_conn_view evs.
Proof.
  intros. unfold upstream_view, client_ops, last_conn_view. rewrite fold_left_flat_map.
  apply fold_left_ext. intros a [ | | | | ]; reflexivity.
Qed.

Lemma resync_client : forall evs, resync_pending (client_ops evs) = wire_resync_pending evs.
Proof.
  intros. unfold resync_pending, client_ops, wire_resync_pending. rewrite fold_left_flat_map.
  apply fold_left_ext. intros a [ | | | | ]; reflexivity.
Qed.

Lemma client_converges : forall evs,
  wire_resync_pending evs = false -> q (fst (run (client_ops evs))) = [] ->
  forall k, sink_view (snd (run (client_ops evs))) k = last_conn_view evs k.
Proof.
  intros evs Hr Hq0 k. rewrite <- upstream_client. apply converges; [rewrite resync_client; exact Hr|exact Hq0].
Qed.

(* a client that reconnects without announcing the restart (drop -> only the WaitForDatastore status) does not
   have this property: the announcement is necessary *)
Definition silent_client_op (e : cev) : list op :=
  match e with
  | EvDrop ord => [OpStatus WaitForDatastore ord]
  | _ => client_op e
  end.
Definition silent_evs : list cev :=
  [EvConnect []; EvKVs [US 1 1 UTNew; US 2 1 UTNew]; EvStatus InSync []; EvPull 10;
   EvDrop []; EvConnect []; EvKVs [US 1 1 UTNew]; EvStatus InSync []; EvPull 10].
Lemma silent_client_refuted :
  wire_resync_pending silent_evs = false /\
  q (fst (run (flat_map silent_client_op silent_evs))) = [] /\
  sink_view (snd (run (flat_map silent_client_op silent_evs))) 2 = Some 1 /\
  last_conn_view silent_evs 2 = None /\
  sink_view (snd (run (client_ops silent_evs))) 2 = None.
Proof. vm_compute. repeat split; reflexivity. Qed.
