(* C25 — specification level.  Everything here is defined from the history of operations the buffer
   received and from the stream of callbacks the sink received; nothing refers to the buffer's state.

   upstream_view ops  : what the LATEST connection has told us (fold of the updates since the last restart)
   sink_view evs      : what the sink holds after the callbacks evs (fold of everything ever delivered)
   resync_pending ops : a restart happened and the new connection has not reported in-sync yet
   sent ops           : the (key,value) upserts received since the last restart
   ill ops            : keys for which upstream sent a deletion although the current connection's view had no
                        such key (a well-behaved Typha never does that; the buffer passes such a deletion on) *)
From Coq Require Import List NArith Bool.
From Verif.C25 Require Import Model.
Import ListNotations.
Open Scope N_scope.

Definition view := key -> option val.
Definition vempty : view := fun _ => None.
Definition vupd (v : view) (k : key) (x : option val) : view :=
  fun k' => if N.eqb k' k then x else v k'.

(* --- the sink's side --- *)
Definition apply_item (v : view) (it : item) : view :=
  match it with
  | IUpd u => vupd v (u_key u) (u_val u)
  | IStatus _ => v
  end.
Definition sink_from (v : view) (evs : list item) : view := fold_left apply_item evs v.
Definition sink_view (evs : list item) : view := sink_from vempty evs.

(* --- the upstream side --- *)
Definition apply_update (v : view) (u : update) : view := vupd v (u_key u) (u_val u).
Definition upstream_step (v : view) (o : op) : view :=
  match o with
  | OpRestart => vempty
  | OpUpdates us => fold_left apply_update us v
  | _ => v
  end.
Definition upstream_view (ops : list op) : view := fold_left upstream_step ops vempty.

Definition resync_step (b : bool) (o : op) : bool :=
  match o with
  | OpRestart => true
  | OpStatus InSync _ => false
  | _ => b
  end.
Definition resync_pending (ops : list op) : bool := fold_left resync_step ops false.

Definition sent_update (l : list (key * val)) (u : update) : list (key * val) :=
  match u_val u with Some v => (u_key u, v) :: l | None => l end.
Definition sent_step (l : list (key * val)) (o : op) : list (key * val) :=
  match o with
  | OpRestart => []
  | OpUpdates us => fold_left sent_update us l
  | _ => l
  end.
Definition sent (ops : list op) : list (key * val) := fold_left sent_step ops [].

(* deletions of keys the current connection's view does not contain *)
Definition ill_update (acc : view * list key) (u : update) : view * list key :=
  (apply_update (fst acc) u,
   match u_val u, fst acc (u_key u) with
   | None, None => u_key u :: snd acc
   | _, _ => snd acc
   end).
Definition ill_step (acc : view * list key) (o : op) : view * list key :=
  match o with
  | OpRestart => (vempty, [])
  | OpUpdates us => fold_left ill_update us acc
  | _ => acc
  end.
Definition ill (ops : list op) : list key := snd (fold_left ill_step ops (vempty, [])).

(* --- what the property demands of each callback, given what the sink holds just before it --- *)
Definition pair_eqb (a b : key * val) : bool := N.eqb (fst a) (fst b) && N.eqb (snd a) (snd b).
Definition held_was_sent (snt : list (key * val)) (sv : view) (k : key) : bool :=
  match sv k with
  | None => true
  | Some v => existsb (pair_eqb (k, v)) snt
  end.

Definition ok_item (keys : list key) (snt : list (key * val)) (il : list key) (sv : view) (it : item) : bool :=
  match it with
  | IUpd u =>
      match u_val u with
      | Some _ =>
          (* new versus updated matches what downstream already holds *)
          utype_eqb (u_type u) (if is_none (sv (u_key u)) then UTNew else UTUpdated)
      | None =>
          (* deletions only for keys the sink holds (or passed through from a misbehaving upstream) *)
          negb (is_none (sv (u_key u))) || mem (u_key u) il
      end
  | IStatus InSync =>
      (* when in-sync is announced nothing stale is left: every resource the sink holds was (re)sent by the
         latest connection, i.e. the deletions for vanished resources came first *)
      forallb (held_was_sent snt sv) keys
  | IStatus _ => true
  end.

Fixpoint ok_items (keys : list key) (snt : list (key * val)) (il : list key) (sv : view) (its : list item) : bool :=
  match its with
  | [] => true
  | it :: r => ok_item keys snt il sv it && ok_items keys snt il (apply_item sv it) r
  end.

Definition views_agree (keys : list key) (a b : view) : bool :=
  forallb (fun k => oval_eqb (a k) (b k)) keys.

(* Oracle over one observed run: ops with, for each op, the callbacks the sink received during it and
   whether the buffer was empty afterwards.  `done` is the history so far (reversed order is avoided by
   appending; runs are short). *)
Fixpoint ok_run (keys : list key) (done : list op) (sv : view) (ops : list op) (outs : list obs) : bool :=
  match ops, outs with
  | [], [] => true
  | o :: ops', (its, dr) :: outs' =>
      let done' := done ++ [o] in
      let sv' := sink_from sv its in
      (match o with OpPull _ => true | _ => match its with [] => true | _ => false end end)
      && ok_items keys (sent done') (ill done') sv its
      && (if dr && negb (resync_pending done')
          then views_agree keys sv' (upstream_view done') else true)
      && ok_run keys done' sv' ops' outs'
  | _, _ => false
  end.

(* keys mentioned anywhere in a case *)
Definition keys_of_update (u : update) : list key := [u_key u].
Definition keys_of_op (o : op) : list key :=
  match o with
  | OpUpdates us => map u_key us
  | OpStatus _ ord => ord
  | _ => []
  end.
Definition keys_of_item (it : item) : list key :=
  match it with IUpd u => [u_key u] | IStatus _ => [] end.
Definition keys_of_obs (b : obs) : list key := flat_map keys_of_item (fst b).

(* --- the wire's side, for runs through the real client (Model.client_ops) --- *)
(* what the latest connection has sent: fold of the KV messages since the last drop *)
Definition wire_step (v : view) (e : cev) : view :=
  match e with
  | EvDrop _ => vempty
  | EvKVs us => fold_left apply_update us v
  | _ => v
  end.
Definition last_conn_view (evs : list cev) : view := fold_left wire_step evs vempty.
(* a connection was dropped and no in-sync message has arrived on a later connection *)
Definition wire_resync_step (b : bool) (e : cev) : bool :=
  match e with
  | EvDrop _ => true
  | EvStatus InSync _ => false
  | _ => b
  end.
Definition wire_resync_pending (evs : list cev) : bool := fold_left wire_resync_step evs false.

(* one correspondence case, as written by the Go harness:
   c_ops / c_outs : the history and, per operation, the items the sink received and whether the queue was empty after;
   c_cbs          : per operation, the batch size used by the consumer step and the sink callbacks as they were made
                    (OnUpdates slices / OnStatusUpdated), to be compared with Model.callbacks_of;
   c_events       : for runs through the real syncclient, what happened on the wire (empty otherwise); the history
                    c_ops must be what Model.client_ops makes of it. *)
Record case := { c_ops : list op; c_outs : list obs; c_cbs : list (nat * list cb); c_events : list cev }.

Definition case_keys (c : case) : list key :=
  dedup (flat_map keys_of_op (c_ops c) ++ flat_map keys_of_obs (c_outs c)).

Definition ok_case (c : case) : bool := ok_run (case_keys c) [] vempty (c_ops c) (c_outs c).

Fixpoint cbs_match (outs : list obs) (cbs : list (nat * list cb)) : bool :=
  match outs, cbs with
  | [], [] => true
  | o :: outs', (bs, cs) :: cbs' => list_eqb cb_eqb (callbacks_of bs (fst o)) cs && cbs_match outs' cbs'
  | _, _ => false
  end.

Definition events_match (c : case) : bool :=
  match c_events c with
  | [] => true
  | evs => list_eqb op_eqb (client_ops evs) (c_ops c)
  end.

Definition check_case (c : case) : bool * bool :=
  (list_eqb obs_eqb (run_obs init (c_ops c)) (c_outs c) && cbs_match (c_outs c) (c_cbs c) && events_match c,
   ok_case c).
