(* C25 — executable model of libcalico-go/lib/backend/syncersv1/dedupebuffer/dedupe_buffer.go
   (definitions only, no proofs).

   Go state                         model
   pendingUpdates (list.List)       q     : list item      (IUpd = updateWithKey, IStatus = api.SyncStatus)
   keyToPendingUpdate (map)         pend  : list key       (key set; the *list.Element is found by key in q)
   liveResourceKeys (set)           live  : list key
   liveKeysNotSeenSinceReconnect    ns    : option (list key)   (None = nil set = not resyncing)
   mostRecentStatusReceived         mrs   : status

   The consumer side (pullNextBatch + dropLockAndSendBatch) is modelled as one atomic step
   `pull n`: the batch content is fixed while the lock is held (pullNextBatch) and liveResourceKeys is
   updated there, so the sink's callback stream is the same as if delivery happened at that instant.
   The OnUpdates batching of dropLockAndSendBatch is flattened: the observable is the ordered stream of
   items (update with key/value/UpdateType, or status) handed to the sink.

   The iteration order of `for key := range liveKeysNotSeenSinceReconnect.All()` (a Go map) is an explicit
   parameter `ord` of the status operation: the synthesized deletions are queued in the order in which
   the keys occur in `ord` (keys of the set that `ord` does not mention follow, in set order).  Every
   permutation of the set is obtained from some `ord`; the theorems quantify over all `ord`. *)
From Coq Require Import List NArith Bool.
Import ListNotations.
Open Scope N_scope.

Definition key := N.
Definition val := N.

Inductive status := WaitForDatastore | ResyncInProgress | InSync.
Inductive utype := UTUnknown | UTNew | UTUpdated | UTDeleted.

(* api.Update restricted to what matters: key, value (None = nil value = deletion), UpdateType *)
Record update := { u_key : key; u_val : option val; u_type : utype }.

Inductive item := IUpd (u : update) | IStatus (s : status).

Record state := {
  q : list item;
  pend : list key;
  live : list key;
  ns : option (list key);
  mrs : status
}.

Definition init : state :=
  {| q := []; pend := []; live := []; ns := None; mrs := WaitForDatastore |}.

(* --- small key-set helpers (sets as lists) --- *)
Definition mem (k : key) (l : list key) : bool := existsb (N.eqb k) l.
Definition add (k : key) (l : list key) : list key := if mem k l then l else k :: l.
Definition discard (k : key) (l : list key) : list key := filter (fun x => negb (N.eqb x k)) l.

Definition status_eqb (a b : status) : bool :=
  match a, b with
  | WaitForDatastore, WaitForDatastore | ResyncInProgress, ResyncInProgress | InSync, InSync => true
  | _, _ => false
  end.

Definition is_none {A} (o : option A) : bool := match o with None => true | Some _ => false end.

Definition item_has_key (k : key) (it : item) : bool :=
  match it with IUpd u => N.eqb (u_key u) k | IStatus _ => false end.

Definition set_ns (st : state) (x : option (list key)) : state :=
  {| q := q st; pend := pend st; live := live st; ns := x; mrs := mrs st |}.

(* --- queueUpdate --- *)
(* "we need to recalculate the update type": only for non-nil values *)
Definition retype (lv : list key) (u : update) : update :=
  match u_val u with
  | Some _ => {| u_key := u_key u; u_val := u_val u;
                 u_type := if mem (u_key u) lv then UTUpdated else UTNew |}
  | None => u
  end.

Definition queue_update (st : state) (u0 : update) : state :=
  let k := u_key u0 in
  let u := retype (live st) u0 in
  if mem k (pend st) then
    if is_none (u_val u) && negb (mem k (live st)) then
      (* deletion of a key that never made it off the queue: remove it entirely *)
      {| q := filter (fun it => negb (item_has_key k it)) (q st);
         pend := discard k (pend st); live := live st; ns := ns st; mrs := mrs st |}
    else
      (* swap in the most recent value, position in the queue is kept *)
      {| q := map (fun it => if item_has_key k it then IUpd u else it) (q st);
         pend := pend st; live := live st; ns := ns st; mrs := mrs st |}
  else
    {| q := q st ++ [IUpd u]; pend := k :: pend st; live := live st; ns := ns st; mrs := mrs st |}.

(* --- OnTyphaConnectionRestarted --- *)
Definition on_restart (st : state) : state :=
  {| q := []; pend := []; live := live st; ns := Some (live st); mrs := mrs st |}.

(* --- OnUpdates --- *)
Definition on_update1 (st : state) (u : update) : state :=
  queue_update (set_ns st (option_map (discard (u_key u)) (ns st))) u.

Definition on_updates (st : state) (us : list update) : state := fold_left on_update1 us st.

(* --- onInSyncAfterReconnection --- *)
Definition del_update (k : key) : update := {| u_key := k; u_val := None; u_type := UTDeleted |}.

(* the order in which the not-seen set is iterated, driven by the explicit parameter *)
(* keep the first occurrence of every key *)
Fixpoint dedup (l : list key) : list key :=
  match l with
  | [] => []
  | x :: r => x :: discard x (dedup r)
  end.
Definition order (ord l : list key) : list key :=
  dedup (filter (fun k => mem k l) ord ++ l).

Definition on_insync (ord : list key) (l : list key) (st : state) : state :=
  set_ns (fold_left (fun s k => queue_update s (del_update k)) (order ord l) st) None.

(* "If the last message on the queue was a status message then replace it", else push *)
Fixpoint push_status (s : status) (l : list item) : list item :=
  match l with
  | [] => [IStatus s]
  | it :: r =>
      match it, r with
      | IStatus _, [] => [IStatus s]
      | _, _ => it :: push_status s r
      end
  end.

(* --- OnStatusUpdated --- *)
Definition on_status (ord : list key) (s : status) (st : state) : state :=
  let st1 := match status_eqb s InSync, ns st with
             | true, Some l => on_insync ord l st
             | _, _ => st
             end in
  if status_eqb (mrs st1) s then st1
  else {| q := push_status s (q st1); pend := pend st1; live := live st1; ns := ns st1; mrs := s |}.

(* --- pullNextBatch + dropLockAndSendBatch: take up to n items off the front and deliver them --- *)
Definition pop_effect (it : item) (rest : list item) (st : state) : state :=
  match it with
  | IUpd u =>
      {| q := rest; pend := discard (u_key u) (pend st);
         live := match u_val u with
                 | None => discard (u_key u) (live st)
                 | Some _ => add (u_key u) (live st)
                 end;
         ns := ns st; mrs := mrs st |}
  | IStatus _ => {| q := rest; pend := pend st; live := live st; ns := ns st; mrs := mrs st |}
  end.

Fixpoint pull (n : nat) (st : state) : list item * state :=
  match n with
  | O => ([], st)
  | S n' =>
      match q st with
      | [] => ([], st)
      | it :: rest =>
          let (its, st') := pull n' (pop_effect it rest st) in
          (it :: its, st')
      end
  end.

(* --- operations and runs --- *)
Inductive op :=
| OpRestart
| OpStatus (s : status) (ord : list key)
| OpUpdates (us : list update)
| OpPull (n : nat).

(* one step: new state and the items delivered to the sink by this step *)
Definition step (st : state) (o : op) : state * list item :=
  match o with
  | OpRestart => (on_restart st, [])
  | OpStatus s ord => (on_status ord s st, [])
  | OpUpdates us => (on_updates st us, [])
  | OpPull n => let (its, st') := pull n st in (st', its)
  end.

(* state after a history and everything the sink has been sent, in order *)
Definition run_step (acc : state * list item) (o : op) : state * list item :=
  let (st', its) := step (fst acc) o in (st', snd acc ++ its).
Definition run (ops : list op) : state * list item := fold_left run_step ops (init, []).

(* per-operation observables for the correspondence: (items delivered, queue empty afterwards) *)
Definition obs := (list item * bool)%type.
Definition drained (st : state) : bool := match q st with [] => true | _ => false end.
Fixpoint run_obs (st : state) (ops : list op) : list obs :=
  match ops with
  | [] => []
  | o :: r => let (st', its) := step st o in (its, drained st') :: run_obs st' r
  end.

(* --- boolean equalities for the comparison with the implementation --- *)
Definition utype_eqb (a b : utype) : bool :=
  match a, b with
  | UTUnknown, UTUnknown | UTNew, UTNew | UTUpdated, UTUpdated | UTDeleted, UTDeleted => true
  | _, _ => false
  end.
Definition oval_eqb (a b : option val) : bool :=
  match a, b with
  | None, None => true
  | Some x, Some y => N.eqb x y
  | _, _ => false
  end.
Definition update_eqb (a b : update) : bool :=
  N.eqb (u_key a) (u_key b) && oval_eqb (u_val a) (u_val b) && utype_eqb (u_type a) (u_type b).
Definition item_eqb (a b : item) : bool :=
  match a, b with
  | IUpd x, IUpd y => update_eqb x y
  | IStatus x, IStatus y => status_eqb x y
  | _, _ => false
  end.
Fixpoint list_eqb {A} (e : A -> A -> bool) (a b : list A) : bool :=
  match a, b with
  | [], [] => true
  | x :: a', y :: b' => e x y && list_eqb e a' b'
  | _, _ => false
  end.
Definition obs_eqb (a b : obs) : bool := list_eqb item_eqb (fst a) (fst b) && Bool.eqb (snd a) (snd b).

(* short constructors used by the generated cases *)
Definition US (k v : N) (t : utype) : update := {| u_key := k; u_val := Some v; u_type := t |}.
Definition DL (k : N) (t : utype) : update := {| u_key := k; u_val := None; u_type := t |}.

(* ------------------------------------------------------------------------------------------------
   dropLockAndSendBatch: one pulled batch becomes a sequence of sink callbacks - maximal runs of updates
   as one OnUpdates(slice), each status as its own OnStatusUpdated (updates before a status are flushed first). *)
Inductive cb := CbUpdates (us : list update) | CbStatus (s : status).

Definition flush (acc : list update) : list cb :=
  match acc with [] => [] | _ => [CbUpdates (rev acc)] end.

Fixpoint send_batch_acc (acc : list update) (its : list item) : list cb :=
  match its with
  | [] => flush acc
  | IUpd u :: r => send_batch_acc (u :: acc) r
  | IStatus s :: r => flush acc ++ CbStatus s :: send_batch_acc [] r
  end.
Definition send_batch (its : list item) : list cb := send_batch_acc [] its.

Definition cb_items (c : cb) : list item :=
  match c with CbUpdates us => map IUpd us | CbStatus s => [IStatus s] end.

(* sendNextBatchToSinkLockHeld / sendNextBatchToSinkNoBlock: batches of `bs` (the code's const batchSize = 100)
   until the queue is empty.  Every non-empty batch removes at least one item, so length (q st) rounds suffice. *)
Fixpoint drain_loop (bs : nat) (fuel : nat) (st : state) : list (list item) * state :=
  match fuel with
  | O => ([], st)
  | S f =>
      match q st with
      | [] => ([], st)
      | _ => let (its, st') := pull bs st in
             let (bss, st'') := drain_loop bs f st' in (its :: bss, st'')
      end
  end.
Definition drain (bs : nat) (st : state) : list (list item) * state := drain_loop bs (length (q st)) st.

(* the same stream cut into batches of bs: what the callbacks of a drain look like as a function of the items *)
Fixpoint chunks_fuel (fuel bs : nat) (l : list item) : list (list item) :=
  match fuel with
  | O => []
  | S f => match l with
           | [] => []
           | _ => firstn bs l :: chunks_fuel f bs (skipn bs l)
           end
  end.
Definition chunks (bs : nat) (l : list item) : list (list item) := chunks_fuel (length l) bs l.
Definition callbacks_of (bs : nat) (its : list item) : list cb := flat_map send_batch (chunks bs its).

(* ------------------------------------------------------------------------------------------------
   typha/pkg/syncclient/sync_client.go as the producer of the buffer's input: what SyncerClient.Start's
   reconnect goroutine and SyncerClient.loop call on their callbacks, as a function of what happens on the wire.
     EvConnect : a connection is up and loop() starts            -> OnStatusUpdated(ResyncInProgress)
     EvStatus  : MsgSyncStatus received                          -> OnStatusUpdated(s)
     EvKVs     : MsgKVs received                                 -> OnUpdates(kvs)
     EvDrop    : the connection fails, loop() returns, the reconnect goroutine runs
                                                                 -> OnTyphaConnectionRestarted(); OnStatusUpdated(WaitForDatastore)
     EvPull    : (not the client) the consumer side takes a batch
   `ord` arguments: map iteration order parameter of the corresponding status call (see on_status). *)
Inductive cev :=
| EvConnect (ord : list key)
| EvStatus (s : status) (ord : list key)
| EvKVs (us : list update)
| EvDrop (ord : list key)
| EvPull (n : nat).

Definition client_op (e : cev) : list op :=
  match e with
  | EvConnect ord => [OpStatus ResyncInProgress ord]
  | EvStatus s ord => [OpStatus s ord]
  | EvKVs us => [OpUpdates us]
  | EvDrop ord => [OpRestart; OpStatus WaitForDatastore ord]
  | EvPull n => [OpPull n]
  end.
Definition client_ops (evs : list cev) : list op := flat_map client_op evs.

(* boolean equalities used by the correspondence *)
Definition cb_eqb (a b : cb) : bool :=
  match a, b with
  | CbUpdates x, CbUpdates y => list_eqb update_eqb x y
  | CbStatus x, CbStatus y => status_eqb x y
  | _, _ => false
  end.
Definition op_eqb (a b : op) : bool :=
  match a, b with
  | OpRestart, OpRestart => true
  | OpStatus s o, OpStatus s' o' => status_eqb s s' && list_eqb N.eqb o o'
  | OpUpdates x, OpUpdates y => list_eqb update_eqb x y
  | OpPull n, OpPull m => Nat.eqb n m
  | _, _ => false
  end.
