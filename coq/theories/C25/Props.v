(* C25 — property theorems only. *)
From Coq Require Import List NArith Bool.
From Verif.C25 Require Import Model Spec Proofs.
Import ListNotations.
Open Scope N_scope.

Theorem c25_restart_clears_queue : forall st, q (on_restart st) = [] /\ ns (on_restart st) = Some (live st).
Proof. exact restart_clears_queue. Qed.
Print Assumptions c25_restart_clears_queue.
