(* C25 — property theorems only.  Each is closed by `exact <lemma>` and followed by Print Assumptions.
   Vocabulary (Spec.v): `run ops` = (buffer state, every callback the sink received, in order) after the
   history `ops` of upstream callbacks / restarts / consumer pulls; `sink_view evs` = what the sink holds after
   callbacks evs; `upstream_view ops` = fold of the updates received since the last restart;
   `resync_pending ops` = a restart happened and no in-sync was reported since; `sent ops` = upserts received
   since the last restart; `ill ops` = keys upstream deleted although its current connection never had them.
   The Go map iteration order used when deletions are synthesized is the `ord` argument of every OpStatus
   inside `ops`, hence universally quantified.  Examples: Proofs.v (ex_converges_hyps, ex_insync_pull). *)
From Coq Require Import List NArith Bool.
From Verif.C25 Require Import Model Spec Proofs Extra.
Import ListNotations.
Open Scope N_scope.

(* Once the latest connection has reported in-sync (or there never was a restart) and the queue is drained,
   the sink's view equals the latest connection's view. *)
Theorem c25_converges : forall ops,
  resync_pending ops = false -> q (fst (run ops)) = [] ->
  forall k, sink_view (snd (run ops)) k = upstream_view ops k.
Proof. exact converges. Qed.
Print Assumptions c25_converges.

(* the same, with the hypothesis spelled out on the history *)
Theorem c25_converges_after_insync : forall pre ord post,
  no_restart post = true ->
  let ops := pre ++ OpStatus InSync ord :: post in
  q (fst (run ops)) = [] ->
  forall k, sink_view (snd (run ops)) k = upstream_view ops k.
Proof. exact converges_after_insync. Qed.
Print Assumptions c25_converges_after_insync.

(* resources missing from the new connection are deleted; no stale value survives *)
Theorem c25_missing_deleted : forall ops k,
  resync_pending ops = false -> q (fst (run ops)) = [] ->
  upstream_view ops k = None -> sink_view (snd (run ops)) k = None.
Proof. exact missing_deleted. Qed.
Print Assumptions c25_missing_deleted.

(* resources the new connection has (changed or not) are held with exactly its value: nothing is lost *)
Theorem c25_unchanged_kept : forall ops k v,
  resync_pending ops = false -> q (fst (run ops)) = [] ->
  upstream_view ops k = Some v -> sink_view (snd (run ops)) k = Some v.
Proof. exact unchanged_kept. Qed.
Print Assumptions c25_unchanged_kept.

(* over the whole stream ever delivered: an upsert is typed New iff the sink did not hold the key at that
   moment, Updated iff it did *)
Theorem c25_new_vs_updated : forall ops pre u v post,
  snd (run ops) = pre ++ IUpd u :: post -> u_val u = Some v ->
  (u_type u = UTNew <-> sink_view pre (u_key u) = None) /\
  (u_type u = UTUpdated <-> sink_view pre (u_key u) <> None).
Proof. exact new_vs_updated_stream. Qed.
Print Assumptions c25_new_vs_updated.

(* a deletion is delivered only for a key the sink holds, unless upstream itself sent a deletion for a key
   its current connection never had (passed through unchanged) *)
Theorem c25_deletes_only_held : forall ops n its st' pre u post,
  pull n (fst (run ops)) = (its, st') -> its = pre ++ IUpd u :: post -> u_val u = None ->
  sink_view (snd (run ops) ++ pre) (u_key u) <> None \/ In (u_key u) (ill ops).
Proof. exact deletes_only_held. Qed.
Print Assumptions c25_deletes_only_held.

(* when the sink is told in-sync, everything it holds was (re)sent by the latest connection: the deletions
   for vanished resources have been delivered before the in-sync status *)
Theorem c25_deletes_before_insync : forall ops n its st' pre post,
  pull n (fst (run ops)) = (its, st') -> its = pre ++ IStatus InSync :: post ->
  forall k v, sink_view (snd (run ops) ++ pre) k = Some v -> In (k, v) (sent ops).
Proof. exact nothing_stale_at_insync. Qed.
Print Assumptions c25_deletes_before_insync.

(* refinement facts: liveResourceKeys is exactly the sink's key set; keyToPendingUpdate mirrors the queue
   and no key has two updates in flight *)
Theorem c25_live_is_sink_domain : forall ops k,
  mem k (live (fst (run ops))) = true <-> sink_view (snd (run ops)) k <> None.
Proof. exact live_is_sink_domain. Qed.
Print Assumptions c25_live_is_sink_domain.

Theorem c25_queue_deduped : forall ops,
  NoDup (qkeys (q (fst (run ops)))) /\
  forall k, mem k (pend (fst (run ops))) = true <-> In k (qkeys (q (fst (run ops)))).
Proof. exact queue_deduped. Qed.
Print Assumptions c25_queue_deduped.

(* the specification oracle used on the implementation's output accepts every run of the model, for every
   history (so a correspondence failure of the oracle is never an artefact of the oracle itself) *)
Theorem c25_model_meets_spec : forall ops cbs evs,
  ok_case {| c_ops := ops; c_outs := run_obs init ops; c_cbs := cbs; c_events := evs |} = true.
Proof. exact model_meets_spec. Qed.
Print Assumptions c25_model_meets_spec.

(* ---- the consumer's pace and batching (pullNextBatch / sendNextBatchToSinkLockHeld / dropLockAndSendBatch) ---- *)

(* a pull delivers exactly a prefix of the queue, in order; the rest stays queued *)
Theorem c25_pull_prefix : forall n st its st', pull n st = (its, st') ->
  its = firstn n (q st) /\ q st' = skipn n (q st).
Proof. exact pull_prefix. Qed.
Print Assumptions c25_pull_prefix.

(* downstream consumption at any pace: two pulls in a row are one pull of the summed size (same items, same state) *)
Theorem c25_pace_irrelevant : forall n m st,
  pull (n + m) st = let (a, s1) := pull n st in let (b, s2) := pull m s1 in (a ++ b, s2).
Proof. exact pull_add. Qed.
Print Assumptions c25_pace_irrelevant.

(* the drain loop (batches of bs >= 1 until empty; bs = 100 in the code) delivers the whole queue, cut into
   consecutive chunks of bs, ends with an empty queue and in the state of one pull of everything *)
Theorem c25_drain_is_pull_all : forall bs st, (1 <= bs)%nat ->
  drain bs st = (chunks bs (q st), snd (pull (length (q st)) st))
  /\ concat (fst (drain bs st)) = q st
  /\ q (snd (drain bs st)) = [].
Proof. exact drain_spec. Qed.
Print Assumptions c25_drain_is_pull_all.

(* the sink callbacks made from pulled items carry exactly those items in order, whatever the batch size, and
   OnUpdates is never called with an empty slice *)
Theorem c25_callbacks_carry_items : forall bs its, (1 <= bs)%nat -> flat_map cb_items (callbacks_of bs its) = its.
Proof. exact callbacks_of_flat. Qed.
Print Assumptions c25_callbacks_carry_items.

Theorem c25_no_empty_onupdates : forall its, Forall nonempty_cb (send_batch its).
Proof. exact send_batch_nonempty. Qed.
Print Assumptions c25_no_empty_onupdates.

(* ---- through the syncclient (Model.client_ops: what Start's reconnect goroutine and loop() call) ---- *)

(* for every sequence of wire events (connections, KV and status messages, drops, consumer pulls): once an in-sync
   message has arrived on the latest connection and the queue is drained, the sink holds exactly what the latest
   connection sent *)
Theorem c25_client_converges : forall evs,
  wire_resync_pending evs = false -> q (fst (run (client_ops evs))) = [] ->
  forall k, sink_view (snd (run (client_ops evs))) k = last_conn_view evs k.
Proof. exact client_converges. Qed.
Print Assumptions c25_client_converges.

(* and the restart announcement is necessary: a client that reconnects with only the WaitForDatastore status
   leaves a vanished resource at the sink (witness: Extra.silent_evs) *)
Theorem c25_silent_reconnect_refuted :
  wire_resync_pending silent_evs = false /\
  q (fst (run (flat_map silent_client_op silent_evs))) = [] /\
  sink_view (snd (run (flat_map silent_client_op silent_evs))) 2 = Some 1 /\
  last_conn_view silent_evs 2 = None /\
  sink_view (snd (run (client_ops silent_evs))) 2 = None.
Proof. exact silent_client_refuted. Qed.
Print Assumptions c25_silent_reconnect_refuted.
