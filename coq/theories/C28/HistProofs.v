(* C28 - the route manager's table after ANY history is a function of the latest message per destination. *)
From Coq Require Import List Bool Arith Lia.
From Verif.C28 Require Import Model Spec Hist.
Import ListNotations.

Lemma in_del x d t : In x (del d t) <-> In x t /\ x <> d.
Proof.
  unfold del. rewrite filter_In. split; intros [H1 H2]; split; auto.
  - apply negb_true_iff in H2. apply Nat.eqb_neq in H2. assumption.
  - apply negb_true_iff. apply Nat.eqb_neq. assumption.
Qed.

Lemma latest_app d ms m :
  latest d (ms ++ [m]) = if Nat.eqb (msg_dst m) d then Some m else latest d ms.
Proof.
  induction ms as [|a r IH]; simpl.
  - destruct (Nat.eqb (msg_dst m) d); reflexivity.
  - rewrite IH. destruct (Nat.eqb (msg_dst m) d); [reflexivity|].
    destruct (latest d r); reflexivity.
Qed.

Lemma run_app own ms m : run own (ms ++ [m]) = step own (run own ms) m.
Proof. unfold run. rewrite fold_left_app. reflexivity. Qed.

(* Whatever was sent before, a destination is in the manager's table exactly when the LAST message about it is a route
   update the manager wants (its own pool type, remote workload / borrowed tunnel address). *)
Theorem table_is_latest : forall own ms d, In d (run own ms) <-> holds own d ms = true.
Proof.
  intros own ms. induction ms as [|m ms IH] using rev_ind; intros d.
  - unfold holds; simpl. split; [intros [] | discriminate].
  - rewrite run_app. unfold holds. rewrite latest_app. unfold step.
    destruct (Nat.eqb (msg_dst m) d) eqn:E.
    + apply Nat.eqb_eq in E. subst d. destruct (wanted own m) eqn:W.
      * split; [reflexivity | intros _; left; reflexivity].
      * split; [|discriminate]. intros H. apply in_del in H. destruct H as [_ H]. congruence.
    + apply Nat.eqb_neq in E. fold (holds own d ms). rewrite <- IH.
      destruct (wanted own m).
      * split.
        -- intros [H|H]; [congruence|]. apply in_del in H. tauto.
        -- intros H. right. apply in_del. split; [assumption | congruence].
      * rewrite in_del. split; [tauto | intros H; split; [assumption | congruence]].
Qed.

(* No stale ownership: once the latest message about a destination is for another pool type (the pool changed its
   encapsulation, or was deleted: type NONE) or is a removal, the manager no longer holds it. *)
Corollary no_stale_destination : forall own ms d m,
  latest d ms = Some m -> wanted own m = false -> ~ In d (run own ms).
Proof. intros own ms d m H W Hin. apply table_is_latest in Hin. unfold holds in Hin. rewrite H in Hin. congruence. Qed.

(* at most one of the three managers holds a destination *)
Corollary one_manager_per_destination : forall ms d o1 o2,
  In d (run o1 ms) -> In d (run o2 ms) -> o1 = o2.
Proof.
  intros ms d o1 o2 H1 H2. apply table_is_latest in H1. apply table_is_latest in H2. unfold holds in *.
  destruct (latest d ms) as [[x pt rw tun bor|x]|]; simpl in *; try discriminate.
  apply andb_true_iff in H1. apply andb_true_iff in H2. destruct H1 as [H1 _], H2 as [H2 _].
  destruct pt, o1, o2; simpl in *; congruence.
Qed.
