(* C28 - source-independent lemmas used by the theorems over the generated tables (coq/gen/C28/Props.v). *)
From Coq Require Import List String Ascii Bool NArith.
From Verif.C28 Require Import Model Spec.
Import ListNotations.
Open Scope string_scope.

(* ---- finite quantification by reflection *)
Definition allb (P : bool -> bool) : bool := andb (P true) (P false).
Lemma allb_spec (P : bool -> bool) : allb P = true -> forall b, P b = true.
Proof. unfold allb; intros H b; apply andb_true_iff in H; destruct H, b; assumption. Qed.

Definition all_settings := [SDisabled; SIpipOnly; SNoEncapOnly; SEnabled].
Definition allsetting (P : setting -> bool) : bool := forallb P all_settings.
Lemma allsetting_spec (P : setting -> bool) : allsetting P = true -> forall s, P s = true.
Proof. unfold allsetting; intros H s; rewrite forallb_forall in H; apply H; destruct s; simpl; tauto. Qed.

Definition allmode (P : mode -> bool) : bool := forallb P all_modes.
Lemma allmode_spec (P : mode -> bool) : allmode P = true -> forall m, P m = true.
Proof. unfold allmode; intros H m; rewrite forallb_forall in H; apply H; destruct m; simpl; tauto. Qed.

(* ---- strings *)
Definition four_names := map setting_name all_settings.

Lemma mem_true_iff s l : mem s l = true <-> In s l.
Proof.
  unfold mem; rewrite existsb_exists; split.
  - intros [x [Hin Heq]]; apply String.eqb_eq in Heq; subst; assumption.
  - intros H; exists s; split; [assumption | apply String.eqb_refl].
Qed.

Lemma mem_false_iff s l : mem s l = false <-> ~ In s l.
Proof. rewrite <- mem_true_iff; destruct (mem s l); split; intros; try congruence; exfalso; auto. Qed.

Lemma lookup_notin {A} s (arms : list (string * A)) d : ~ In s (map fst arms) -> lookup s arms d = d.
Proof.
  induction arms as [|[k p] t IH]; simpl; intros H; [reflexivity|].
  destruct (String.eqb s k) eqn:E.
  - apply String.eqb_eq in E; subst; exfalso; apply H; left; reflexivity.
  - apply IH; intros Hin; apply H; right; assumption.
Qed.

Lemma find_lower_none s opts :
  ~ In (lower s) (map lower opts) -> find (fun o => String.eqb (lower o) (lower s)) opts = None.
Proof.
  induction opts as [|o t IH]; simpl; intros H; [reflexivity|].
  destruct (String.eqb (lower o) (lower s)) eqn:E.
  - apply String.eqb_eq in E; exfalso; apply H; left; assumption.
  - apply IH; intros Hin; apply H; right; assumption.
Qed.

(* a raw value neither component gives a meaning to: no case variant of a documented value, not Felix's keyword "none" *)
Definition mutually_unrecognised (s : string) : Prop :=
  ~ In (lower s) (map lower four_names) /\ lower s <> "none".

Definition in_domain (raw : option string) : Prop :=
  match raw with None => True | Some v => In v four_names \/ mutually_unrecognised v end.

Lemma unrecognised_not_four s : mutually_unrecognised s -> ~ In s four_names.
Proof. intros [H _] Hin; apply H; apply in_map; assumption. Qed.

Lemma setting_of_string_unrec s : ~ In s four_names -> setting_of_string s = None.
Proof.
  intros H; unfold setting_of_string.
  destruct (String.eqb s "Disabled") eqn:E1; [apply String.eqb_eq in E1; subst; exfalso; apply H; simpl; tauto|].
  destruct (String.eqb s "EnabledIPIPOnly") eqn:E2; [apply String.eqb_eq in E2; subst; exfalso; apply H; simpl; tauto|].
  destruct (String.eqb s "EnabledNoEncapOnly") eqn:E3; [apply String.eqb_eq in E3; subst; exfalso; apply H; simpl; tauto|].
  destruct (String.eqb s "Enabled") eqn:E4; [apply String.eqb_eq in E4; subst; exfalso; apply H; simpl; tauto|].
  reflexivity.
Qed.

Lemma felix_resolve_unrec g s :
  ~ In (lower s) (map lower (g_felix_options g)) -> lower s <> "none" ->
  felix_resolve g (Some s) = g_felix_default g.
Proof.
  intros H1 H2; unfold felix_resolve.
  destruct (String.eqb s ""); [reflexivity|].
  destruct (String.eqb (lower s) "none") eqn:E; [apply String.eqb_eq in E; contradiction|].
  rewrite find_lower_none by assumption; reflexivity.
Qed.

(* world built from its fields, overrides unset *)
Definition mkw (m : mode) (v4 o1 o2 o3 o4 bpf wg wg6 ipv6 : bool) : world :=
  {| w_mode := m; w_v4 := v4; w_disabled := false; w_nat := false; w_nobgp := false; w_api := false;
     w_others := (o1, o2, o3, o4); w_ipip_ovr := None; w_vxlan_ovr := None;
     w_bpf := bpf; w_wg := wg; w_wg6 := wg6; w_ipv6 := ipv6 |}.

(* the same world with the pool's other attributes cleared and the pool learnt from the syncer *)
Definition strip (w : world) : world :=
  {| w_mode := w_mode w; w_v4 := w_v4 w; w_disabled := false; w_nat := false; w_nobgp := false; w_api := false;
     w_others := w_others w; w_ipip_ovr := w_ipip_ovr w; w_vxlan_ovr := w_vxlan_ovr w;
     w_bpf := w_bpf w; w_wg := w_wg w; w_wg6 := w_wg6 w; w_ipv6 := w_ipv6 w |}.

Definition is_class (c : pclass) (m : mode) : bool :=
  match c, class_of m with CVxlan, CVxlan | CIpip, CIpip | CNoEncap, CNoEncap => true | _, _ => false end.

(* overrides unset; an IPv6 pool is not an IPIP pool and Felix's IPv6 support is on *)
Definition admissible (w : world) : Prop :=
  w_ipip_ovr w = None /\ w_vxlan_ovr w = None /\
  (w_v4 w = false -> w_ipv6 w = true /\ class_of (w_mode w) <> CIpip).
