(* C28 - who programs an IP pool's cluster routes: generic (hand-written) part of the model.

   Everything that is specific to the current source - the switch arms of confd's
   clusterRoutePolicyFromBGPConfig, Felix's oneof(...) list and default, the accessors, the
   encapsulation calculator, the conditions under which the dataplane managers are created - is
   TRANSLATED from the Go source on every run into a value [G : gen] (file Gen.v, logical path
   VerifGen.Gen).  This file only says how those pieces are plugged together, mirroring the data flow
     raw config value -> Config.ProgramClusterRoutes -> accessors -> EncapsulationCalculator ->
     configParams.Encapsulation -> dataplane Config -> managers created / route manager driven
   on Felix's side, and
     BGPConfiguration.spec.programClusterRoutes -> clusterRoutePolicy -> programsPool -> action of the
     kernel-programming filter statement
   on confd's side.  Definitions only, no proofs. *)
From Coq Require Import List String Ascii Bool NArith.
Import ListNotations.
Open Scope string_scope.

Definition policy := (bool * bool)%type.          (* clusterRoutePolicy{ipip, noEncap} *)
Inductive action := Accept | Reject.

Definition action_eqb (a b : action) : bool :=
  match a, b with Accept, Accept | Reject, Reject => true | _, _ => false end.

(* IP pool encapsulation modes (after validation a pool has at most one of ipipMode / vxlanMode set) *)
Inductive mode := MVxlan | MVxlanCross | MIpip | MIpipCross | MNone.
Inductive pclass := CVxlan | CIpip | CNoEncap.
Definition all_modes := [MVxlan; MVxlanCross; MIpip; MIpipCross; MNone].
Definition class_of (m : mode) : pclass :=
  match m with MVxlan | MVxlanCross => CVxlan | MIpip | MIpipCross => CIpip | MNone => CNoEncap end.

(* The BGPConfiguration side: no default BGPConfiguration at all, field unset, field set *)
Inductive braw := BNoConfig | BUnset | BVal (s : string).

(* ---- strings *)
Definition lower_ascii (c : ascii) : ascii :=
  let n := N_of_ascii c in
  if andb (N.leb 65 n) (N.leb n 90) then ascii_of_N (n + 32) else c.
Fixpoint lower (s : string) : string :=
  match s with EmptyString => EmptyString | String c t => String (lower_ascii c) (lower t) end.

Fixpoint lookup {A} (s : string) (arms : list (string * A)) (d : A) : A :=
  match arms with
  | [] => d
  | (k, p) :: t => if String.eqb s k then p else lookup s t d
  end.

Definition mem (s : string) (l : list string) : bool := existsb (String.eqb s) l.

(* ---- what the translator delivers *)
Record gen := {
  (* libcalico-go/lib/backend/encap *)
  g_encap_never : string; g_encap_always : string; g_encap_cross : string;
  (* API enum markers *)
  g_felix_api_enum : list string; g_bgp_api_enum : list string;
  (* felix/config *)
  g_felix_options : list string; g_felix_default : string;
  g_prog_ipip : string -> bool; g_prog_noencap : string -> bool;
  (* felix/calc EncapsulationCalculator *)
  (* handleModelPool (syncer path): is_delete disabled nat_outgoing disable_bgp_export ipip_mode vxlan_mode -> updatePool is reached *)
  g_pool_reached : bool -> bool -> bool -> bool -> string -> string -> bool;
  g_pool_ipip : string -> string -> bool; g_pool_vxlan : string -> string -> bool;
  (* handleAPIPool (start-up path), modes are the v3 API spellings *)
  g_api_reached : bool -> bool -> bool -> bool -> string -> string -> bool;
  g_api_ipip : string -> string -> bool; g_api_vxlan : string -> string -> bool;
  g_api_modes : (string * string * string) * (string * string * string);  (* IPIPMode Never/Always/CrossSubnet, VXLANMode ... *)
  g_ins_ipip : bool -> bool -> bool -> bool;   g_del_ipip : bool -> bool -> bool -> bool;
  g_ins_vxlan : bool -> bool -> bool -> bool;  g_del_vxlan : bool -> bool -> bool -> bool;
  g_ins_vxlan6 : bool -> bool -> bool -> bool; g_del_vxlan6 : bool -> bool -> bool -> bool;
  g_ins_noencap : bool -> bool -> bool -> bool; g_del_noencap : bool -> bool -> bool -> bool;
  (* cfg_nil ipip_ovr_set ipip_ovr_val vxlan_ovr_set vxlan_ovr_val prog_ipip prog_noencap has_ipip has_vxlan has_vxlan6 has_noencap *)
  g_calc_ipip : bool -> bool -> bool -> bool -> bool -> bool -> bool -> bool -> bool -> bool -> bool -> bool;
  g_calc_vxlan : bool -> bool -> bool -> bool -> bool -> bool -> bool -> bool -> bool -> bool -> bool -> bool;
  g_calc_vxlan6 : bool -> bool -> bool -> bool -> bool -> bool -> bool -> bool -> bool -> bool -> bool -> bool;
  g_calc_noencap : bool -> bool -> bool -> bool -> bool -> bool -> bool -> bool -> bool -> bool -> bool -> bool;
  (* daemon.go: calc_ipip calc_vxlan calc_vxlan6 calc_noencap *)
  g_enc_ipip : bool -> bool -> bool -> bool -> bool; g_enc_vxlan : bool -> bool -> bool -> bool -> bool;
  g_enc_vxlan6 : bool -> bool -> bool -> bool -> bool; g_enc_noencap : bool -> bool -> bool -> bool -> bool;
  (* driver.go: enc_ipip enc_vxlan enc_vxlan6 enc_noencap prog_ipip prog_noencap *)
  g_dp_ipip : bool -> bool -> bool -> bool -> bool -> bool -> bool; g_dp_vxlan : bool -> bool -> bool -> bool -> bool -> bool -> bool;
  g_dp_vxlan6 : bool -> bool -> bool -> bool -> bool -> bool -> bool; g_dp_noencap_needed : bool -> bool -> bool -> bool -> bool -> bool -> bool;
  g_dp_prog_ipip : bool -> bool -> bool -> bool -> bool -> bool -> bool; g_dp_prog_noencap : bool -> bool -> bool -> bool -> bool -> bool -> bool;
  (* calc_graph.go: bpf wg wg6 enc_ipip enc_vxlan enc_vxlan6 enc_noencap prog_ipip prog_noencap *)
  g_l3rr : bool -> bool -> bool -> bool -> bool -> bool -> bool -> bool -> bool -> bool;
  (* int_dataplane.go: dp_prog_ipip dp_prog_noencap dp_noencap_needed dp_ipip dp_vxlan dp_vxlan6 ipv6 bpf *)
  g_mgr_noencap : bool -> bool -> bool -> bool -> bool -> bool -> bool -> bool -> bool;
  g_mgr_noencap6 : bool -> bool -> bool -> bool -> bool -> bool -> bool -> bool -> bool;
  g_mgr_vxlan : bool -> bool -> bool -> bool -> bool -> bool -> bool -> bool -> bool;
  g_mgr_vxlan6 : bool -> bool -> bool -> bool -> bool -> bool -> bool -> bool -> bool;
  g_mgr_ipip : bool -> bool -> bool -> bool -> bool -> bool -> bool -> bool -> bool;
  (* ipip_mgr.go *)
  g_ipip_gates : bool -> list bool;
  (* confd *)
  g_bird_policy_fn : bool -> bool -> string -> policy;
  g_bird_nil_guard : bool -> bool -> bool; g_bird_nil_result : policy;
  g_bird_arms : list (string * policy); g_bird_switch_default : policy;
  g_bird_uses_ipip : string -> string -> bool; g_bird_uses_vxlan : string -> string -> bool;
  g_bird_programs_pool : bool -> bool -> bool -> bool -> bool;
  g_bird_filter_action : bool -> bool -> bool -> bool -> action;
  (* processIPPools: is_v4 subnet_ok disabled nat_outgoing disable_bgp_export -> the pool's kernel statement is produced *)
  g_bird_stmt_produced : bool -> bool -> bool -> bool -> bool -> bool;
  (* design document *)
  g_doc_values : list (string * policy); g_doc_pairings : list (string * string);
  g_doc_felix_default : string; g_doc_bgp_default : string
}.

(* (ipipMode, vxlanMode) of a model.IPPool of the given mode *)
Definition mode_strings (g : gen) (m : mode) : string * string :=
  match m with
  | MVxlan => (g_encap_never g, g_encap_always g)
  | MVxlanCross => (g_encap_never g, g_encap_cross g)
  | MIpip => (g_encap_always g, g_encap_never g)
  | MIpipCross => (g_encap_cross g, g_encap_never g)
  | MNone => (g_encap_never g, g_encap_never g)
  end.

(* the same pool as a v3 IPPool spec (start-up path) *)
Definition api_mode_strings (g : gen) (m : mode) : string * string :=
  let '((in_, ia, ic), (vn, va, vc)) := g_api_modes g in
  match m with
  | MVxlan => (in_, va) | MVxlanCross => (in_, vc) | MIpip => (ia, vn) | MIpipCross => (ic, vn) | MNone => (in_, vn)
  end.

(* ---- Felix: raw value -> Config.ProgramClusterRoutes.
   Config.UpdateFrom drops empty values; resolve() turns (any case of) "none" into the field's zero value "";
   OneofListParam.Parse matches case-insensitively and yields the canonical spelling; a value that does not
   parse is replaced by the default (the parameter is not die-on-fail: the translator refuses flags). *)
Definition felix_resolve (g : gen) (raw : option string) : string :=
  match raw with
  | None => g_felix_default g
  | Some s =>
      if String.eqb s "" then g_felix_default g
      else if String.eqb (lower s) "none" then ""
      else match find (fun o => String.eqb (lower o) (lower s)) (g_felix_options g) with
           | Some o => o
           | None => g_felix_default g
           end
  end.

(* the rest of the cluster / node as far as it matters here *)
Record world := {
  w_mode : mode;                 (* the pool under consideration *)
  w_v4 : bool;                   (* its address family *)
  w_disabled : bool;             (* its other attributes: disabled (no NEW allocations), natOutgoing, disableBGPExport *)
  w_nat : bool; w_nobgp : bool;
  w_api : bool;                  (* Felix learnt it on the start-up path (handleAPIPool) rather than from the syncer (handleModelPool) *)
  w_others : bool * bool * bool * bool; (* other pools present in ipipPools, vxlanPools, vxlanPoolsv6, noEncapPools *)
  w_ipip_ovr : option bool;      (* deprecated FelixConfiguration overrides IpInIpEnabled / VXLANEnabled *)
  w_vxlan_ovr : option bool;
  w_bpf : bool; w_wg : bool; w_wg6 : bool; w_ipv6 : bool
}.

Record felix_view := {
  v_prog_ipip : bool; v_prog_noencap : bool;
  v_in_sets : bool * bool * bool * bool;       (* is the pool in ipipPools, vxlanPools, vxlanPoolsv6, noEncapPools *)
  v_calc : bool * bool * bool * bool;          (* IPIPEnabled, VXLANEnabled, VXLANEnabledV6, NoEncapNeeded *)
  v_l3rr : bool;
  v_mgrs : bool * bool * bool * bool * bool;   (* noEncapManager, noEncapManagerV6, vxlanManager, vxlanManagerV6, ipipManager *)
  v_gates : list bool
}.

Definition ovr_set (o : option bool) := match o with Some _ => true | None => false end.
Definition ovr_val (o : option bool) := match o with Some b => b | None => false end.

(* which of ipipPools, vxlanPools, vxlanPoolsv6, noEncapPools of a fresh EncapsulationCalculator hold the pool after it was handled *)
Definition pool_in_sets (g : gen) (w : world) : bool * bool * bool * bool :=
  let '(reached, ie, ve) :=
    if w_api w
    then let '(im, vm) := api_mode_strings g (w_mode w) in
         (g_api_reached g false (w_disabled w) (w_nat w) (w_nobgp w) im vm, g_api_ipip g im vm, g_api_vxlan g im vm)
    else let '(im, vm) := mode_strings g (w_mode w) in
         (g_pool_reached g false (w_disabled w) (w_nat w) (w_nobgp w) im vm, g_pool_ipip g im vm, g_pool_vxlan g im vm) in
  let v4 := w_v4 w in
  (andb reached (g_ins_ipip g ie ve v4), andb reached (g_ins_vxlan g ie ve v4),
   andb reached (g_ins_vxlan6 g ie ve v4), andb reached (g_ins_noencap g ie ve v4)).

Definition felix_view_core (g : gen) (pcr : string) (sets : bool * bool * bool * bool) (w : world) : felix_view :=
  let pi := g_prog_ipip g pcr in
  let pn := g_prog_noencap g pcr in
  let '(s1, s2, s3, s4) := sets in
  let '(o1, o2, o3, o4) := w_others w in
  let h1 := orb o1 s1 in let h2 := orb o2 s2 in let h3 := orb o3 s3 in let h4 := orb o4 s4 in
  let c (f : gen -> bool -> bool -> bool -> bool -> bool -> bool -> bool -> bool -> bool -> bool -> bool -> bool) :=
    f g false (ovr_set (w_ipip_ovr w)) (ovr_val (w_ipip_ovr w)) (ovr_set (w_vxlan_ovr w)) (ovr_val (w_vxlan_ovr w)) pi pn h1 h2 h3 h4 in
  let c1 := c g_calc_ipip in let c2 := c g_calc_vxlan in let c3 := c g_calc_vxlan6 in let c4 := c g_calc_noencap in
  let e1 := g_enc_ipip g c1 c2 c3 c4 in let e2 := g_enc_vxlan g c1 c2 c3 c4 in
  let e3 := g_enc_vxlan6 g c1 c2 c3 c4 in let e4 := g_enc_noencap g c1 c2 c3 c4 in
  let d (f : gen -> bool -> bool -> bool -> bool -> bool -> bool -> bool) := f g e1 e2 e3 e4 pi pn in
  let dpi := d g_dp_prog_ipip in let dpn := d g_dp_prog_noencap in let dnn := d g_dp_noencap_needed in
  let di := d g_dp_ipip in let dv := d g_dp_vxlan in let dv6 := d g_dp_vxlan6 in
  let m (f : gen -> bool -> bool -> bool -> bool -> bool -> bool -> bool -> bool -> bool) :=
    f g dpi dpn dnn di dv dv6 (w_ipv6 w) (w_bpf w) in
  {| v_prog_ipip := pi; v_prog_noencap := pn;
     v_in_sets := sets;
     v_calc := (c1, c2, c3, c4);
     v_l3rr := g_l3rr g (w_bpf w) (w_wg w) (w_wg6 w) e1 e2 e3 e4 pi pn;
     v_mgrs := (m g_mgr_noencap, m g_mgr_noencap6, m g_mgr_vxlan, m g_mgr_vxlan6, m g_mgr_ipip);
     v_gates := g_ipip_gates g dpi |}.

Definition felix_view_of (g : gen) (pcr : string) (w : world) : felix_view :=
  felix_view_core g pcr (pool_in_sets g w) w.

(* Felix programs the pool's cluster routes: routes are computed (L3 route resolver exists), the manager
   that owns this kind of route for this family exists, and (IPIP) every use of its route manager is enabled *)
Definition felix_programs_view (m : mode) (v4 : bool) (v : felix_view) : bool :=
  let '(mn, mn6, mv, mv6, mi) := v_mgrs v in
  andb (v_l3rr v)
    match class_of m with
    | CVxlan => if v4 then mv else mv6
    | CIpip => andb mi (forallb (fun b => b) (v_gates v))
    | CNoEncap => if v4 then mn else mn6
    end.

Definition felix_programs (g : gen) (pcr : string) (w : world) : bool :=
  felix_programs_view (w_mode w) (w_v4 w) (felix_view_of g pcr w).

(* ---- confd / BIRD *)
Definition bird_policy (g : gen) (b : braw) : policy :=
  match b with
  | BNoConfig => g_bird_policy_fn g true true ""
  | BUnset => g_bird_policy_fn g false true ""
  | BVal s => g_bird_policy_fn g false false s
  end.

(* the same through the translated table *)
Definition bird_policy_table (g : gen) (b : braw) : policy :=
  match b with
  | BNoConfig => if g_bird_nil_guard g true true then g_bird_nil_result g else g_bird_switch_default g
  | BUnset => if g_bird_nil_guard g false true then g_bird_nil_result g else g_bird_switch_default g
  | BVal s => if g_bird_nil_guard g false false then g_bird_nil_result g else lookup s (g_bird_arms g) (g_bird_switch_default g)
  end.

Definition bird_programs_pool (g : gen) (p : policy) (m : mode) : bool :=
  let '(im, vm) := mode_strings g m in
  g_bird_programs_pool g (fst p) (snd p) (g_bird_uses_ipip g im vm) (g_bird_uses_vxlan g im vm).

(* action of the statement processIPPool emits for the kernel-programming filter (forProgrammingKernel = true) *)
Definition bird_kernel_action (g : gen) (p : policy) (m : mode) (nobgp : bool) : action :=
  let '(im, vm) := mode_strings g m in
  g_bird_filter_action g nobgp true (g_bird_uses_vxlan g im vm) (bird_programs_pool g p m).

(* processIPPools produces that statement at all (local subnet known) *)
Definition bird_stmt_produced (g : gen) (w : world) : bool :=
  g_bird_stmt_produced g (w_v4 w) true (w_disabled w) (w_nat w) (w_nobgp w).

(* BIRD writes the pool's routes to the kernel unless the filter rejects them (the template ends with `accept;`) *)
Definition bird_programs (g : gen) (p : policy) (w : world) : bool :=
  if bird_stmt_produced g w then action_eqb (bird_kernel_action g p (w_mode w) (w_nobgp w)) Accept else true.
