(* C28 - run-time histories: the route manager shared by Felix's IPIP / VXLAN / no-encap managers.
   felix/dataplane/linux/route_mgr.go, routeManager.OnUpdate, keeps, per destination, the last RouteUpdate it wants
   to program (routesByDest): a RouteUpdate first DELETES the destination ("in case the route changes type to one we
   no longer care about") and re-adds it only when the message is for this manager's pool type and is a remote
   workload route (or a borrowed tunnel address); a RouteRemove deletes it.  Definitions, the theorem that the table is
   a function of the LATEST message per destination, and the per-history checker used by the correspondence run. *)
From Coq Require Import List String Bool Arith.
From Verif.C28 Require Import Model Spec.
Import ListNotations.

Inductive ptype := TNone | TNoEncap | TVxlan | TIpip.          (* proto.IPPoolType *)
Definition ptype_eqb (a b : ptype) : bool :=
  match a, b with TNone, TNone | TNoEncap, TNoEncap | TVxlan, TVxlan | TIpip, TIpip => true | _, _ => false end.

(* what the calculation graph sends: RouteUpdate{Dst, IpPoolType, REMOTE_WORKLOAD?, REMOTE_TUNNEL?, Borrowed} / RouteRemove{Dst} *)
Inductive msg := MUpd (dst : nat) (pt : ptype) (rw tun bor : bool) | MRem (dst : nat).

Definition msg_dst (m : msg) : nat := match m with MUpd d _ _ _ _ => d | MRem d => d end.

(* the manager of pool type [own] wants to program the destination of this message *)
Definition wanted (own : ptype) (m : msg) : bool :=
  match m with
  | MUpd _ pt rw tun bor => andb (ptype_eqb pt own) (orb rw (andb tun bor))
  | MRem _ => false
  end.

Definition del (d : nat) (t : list nat) : list nat := filter (fun x => negb (Nat.eqb x d)) t.

Definition step (own : ptype) (t : list nat) (m : msg) : list nat :=
  let t' := del (msg_dst m) t in
  if wanted own m then msg_dst m :: t' else t'.

Definition run (own : ptype) (ms : list msg) : list nat := fold_left (step own) ms [].

(* the last message about destination d *)
Fixpoint latest (d : nat) (ms : list msg) : option msg :=
  match ms with
  | [] => None
  | m :: r => match latest d r with Some x => Some x | None => if Nat.eqb (msg_dst m) d then Some m else None end
  end.

Definition holds (own : ptype) (d : nat) (ms : list msg) : bool :=
  match latest d ms with Some m => wanted own m | None => false end.

(* ------------------------------------------------------------------ histories observed on the real code *)

Record hstep := {
  s_msgs : list msg;                                   (* delivered to the managers since the previous snapshot *)
  s_pools : list (option mode * list nat);             (* every pool: current mode (None: deleted) and its existing remote blocks *)
  s_tabs : list nat * list nat * list nat;             (* routesByDest of the no-encap, VXLAN, IPIP manager *)
  s_rt_ipip : list nat                                 (* destinations the IPIP manager handed to its route table *)
}.

Record hcase := {
  h_setting : string;                                  (* Felix's ProgramClusterRoutes (one of the four values) *)
  h_progs : bool * bool;                               (* ProgramIPIPClusterRoutes(), ProgramNoEncapClusterRoutes() *)
  h_encap : bool * bool * bool * bool;                 (* start-of-day Encapsulation, constant through the history *)
  h_mgrs : bool * bool * bool;                         (* managers the driver created: no-encap, VXLAN, IPIP *)
  h_steps : list hstep
}.

Definition incl_b (a b : list nat) : bool := forallb (fun x => existsb (Nat.eqb x) b) a.
Definition same_set (a b : list nat) : bool := andb (incl_b a b) (incl_b b a).
Definition memn (x : nat) (l : list nat) : bool := existsb (Nat.eqb x) l.

(* the anchors: an IPIP, a VXLAN (IPv4) and an unencapsulated pool exist throughout *)
Definition anchor_world : world :=
  {| w_mode := MNone; w_v4 := true; w_disabled := false; w_nat := false; w_nobgp := false; w_api := false;
     w_others := (true, true, false, true); w_ipip_ovr := None; w_vxlan_ovr := None;
     w_bpf := false; w_wg := false; w_wg6 := false; w_ipv6 := false |}.

(* model: the static part (which managers exist, is the IPIP manager's route manager driven) comes from the translated
   tables; the dynamic part is [run] over all messages so far *)
Fixpoint steps_agree (gate_ipip : bool) (mgrs : bool * bool * bool) (sofar : list msg) (ss : list hstep) : bool :=
  match ss with
  | [] => true
  | s :: r =>
      let all := List.app sofar (s_msgs s) in
      let '(mn, mv, mi) := mgrs in
      let '(tn, tv, ti) := s_tabs s in
      andb (andb (same_set tn (if mn then run TNoEncap all else []))
                 (andb (same_set tv (if mv then run TVxlan all else []))
                       (andb (same_set ti (if andb mi gate_ipip then run TIpip all else []))
                             (same_set (s_rt_ipip s) ti))))
           (steps_agree gate_ipip mgrs all r)
  end.

Definition hist_model_agrees (g : gen) (c : hcase) : bool :=
  let v := felix_view_core g (h_setting c) (false, false, false, true) anchor_world in
  let '(mn, mn6, mv, mv6, mi) := v_mgrs v in
  andb (andb (andb (Bool.eqb (v_prog_ipip v) (fst (h_progs c))) (Bool.eqb (v_prog_noencap v) (snd (h_progs c))))
             (andb (b4_eqb (v_calc v) (h_encap c))
                   (let '(dn, dv, di) := h_mgrs c in andb (Bool.eqb mn dn) (andb (Bool.eqb mv dv) (Bool.eqb mi di)))))
       (steps_agree (forallb (fun b => b) (v_gates v)) (h_mgrs c) [] (h_steps c)).

(* THE PROPERTY on a history: after every operation, for every pool and every remote block in it, Felix holds the block
   for programming exactly when the static assignment for the pool's CURRENT mode says Felix owns it (never for a deleted
   pool: no statement in BIRD's filter, BIRD programs it), and only the manager of the pool's current class holds it. *)
Definition step_ok (f : setting) (s : hstep) : bool :=
  let '(tn, tv, ti) := s_tabs s in
  forallb (fun p : option mode * list nat =>
    forallb (fun d =>
      let hn := memn d tn in let hv := memn d tv in let hi := memn d ti in
      match fst p with
      | None => negb (orb hn (orb hv hi))
      | Some m =>
          let should := felix_should_program f m in
          match class_of m with
          | CVxlan => andb (Bool.eqb hv should) (negb (orb hn hi))
          | CIpip => andb (Bool.eqb hi should) (negb (orb hn hv))
          | CNoEncap => andb (Bool.eqb hn should) (negb (orb hv hi))
          end
      end) (snd p)) (s_pools s).

Definition hist_ok (c : hcase) : bool :=
  match setting_of_string (h_setting c) with
  | Some f => forallb (step_ok f) (h_steps c)
  | None => false
  end.

Definition check_hist (g : gen) (c : hcase) : bool * bool := (hist_model_agrees g c, hist_ok c).
