(* C28 - what the property says, independent of the translated tables.

   design/cluster-route-programming/DESIGN.md, section 1: both settings take the same four values, each naming
   the classes of pool (IPIP, no-encap) that component is responsible for; four pairings are supported; a value
   that is absent or not one of the four is treated as the component's default (Felix: EnabledIPIPOnly, BIRD:
   EnabledNoEncapOnly).  For such configurations every pool's cluster routes are programmed by exactly one of
   Felix and BIRD: VXLAN pools by Felix, IPIP / unencapsulated pools by the side the pairing names. *)
From Coq Require Import List String Bool.
From Verif.C28 Require Import Model.
Import ListNotations.
Open Scope string_scope.

Inductive setting := SDisabled | SIpipOnly | SNoEncapOnly | SEnabled.

Definition setting_of_string (s : string) : option setting :=
  if String.eqb s "Disabled" then Some SDisabled
  else if String.eqb s "EnabledIPIPOnly" then Some SIpipOnly
  else if String.eqb s "EnabledNoEncapOnly" then Some SNoEncapOnly
  else if String.eqb s "Enabled" then Some SEnabled
  else None.

Definition setting_name (s : setting) : string :=
  match s with SDisabled => "Disabled" | SIpipOnly => "EnabledIPIPOnly" | SNoEncapOnly => "EnabledNoEncapOnly" | SEnabled => "Enabled" end.

(* (responsible for IPIP pools, responsible for no-encap pools) *)
Definition covers (s : setting) : policy :=
  match s with SDisabled => (false, false) | SIpipOnly => (true, false) | SNoEncapOnly => (false, true) | SEnabled => (true, true) end.

Definition felix_spec_default := SIpipOnly.
Definition bird_spec_default := SNoEncapOnly.

(* absent, or not one of the four values: the default *)
Definition spec_resolve (d : setting) (raw : option string) : setting :=
  match raw with
  | None => d
  | Some s => match setting_of_string s with Some v => v | None => d end
  end.

Definition braw_value (b : braw) : option string := match b with BVal s => Some s | _ => None end.

(* the two components are given complementary responsibilities: exactly the four supported pairings *)
Definition supported (f b : setting) : bool :=
  match f, b with
  | SIpipOnly, SNoEncapOnly | SEnabled, SDisabled | SDisabled, SEnabled | SNoEncapOnly, SIpipOnly => true
  | _, _ => false
  end.

(* who the property says owns the pool *)
Definition felix_should_program (f : setting) (m : mode) : bool :=
  match class_of m with CVxlan => true | CIpip => fst (covers f) | CNoEncap => snd (covers f) end.

(* exactly one programs, and it is the right one *)
Definition exactly_one_right (f : setting) (m : mode) (felix bird : bool) : bool :=
  andb (xorb felix bird) (Bool.eqb felix (felix_should_program f m)).

(* ------------------------------------------------------------------ correspondence cases *)

Inductive stmt := SNoStmt | SAccept | SReject | SOther.
Definition stmt_eqb (a b : stmt) : bool :=
  match a, b with SNoStmt, SNoStmt | SAccept, SAccept | SReject, SReject | SOther, SOther => true | _, _ => false end.

(* what Felix's code did for one raw value and one pool *)
Record fobs := {
  c_fraw : option string;      (* raw FelixConfiguration / environment value handed to Config.UpdateFrom (None: key absent) *)
  c_mode : mode;
  c_v4 : bool;
  c_flags : bool * bool * bool;  (* pool attributes disabled, natOutgoing, disableBGPExport *)
  c_api : bool;                  (* fed as a v3 IPPool (start-up path, handleAPIPool) instead of a model.IPPool (handleModelPool) *)
  o_pcr : string;              (* Config.ProgramClusterRoutes after UpdateFrom *)
  o_fipip : bool; o_fnoencap : bool;           (* ProgramIPIPClusterRoutes(), ProgramNoEncapClusterRoutes() *)
  o_calc : bool * bool * bool * bool           (* EncapsulationCalculator with this one pool: IPIPEnabled, VXLANEnabled, VXLANEnabledV6, NoEncapNeeded *)
}.

(* what confd's code did for one BGPConfiguration state and the same pool *)
Record bobs := {
  c_braw : braw;
  b_mode : mode;
  b_v4 : bool;
  b_flags : bool * bool * bool;
  o_pol : policy;              (* clusterRoutePolicyFromBGPConfig *)
  o_programs : bool;           (* policy.programsPool(pool) *)
  o_stmt : stmt;               (* processIPPools for the pool's family: class of the pool's statement in KernelFilterForIPPools
                                  (IPv6: only reject statements are emitted, the template ends with `accept;`) *)
  o_tunl0 : bool               (* tunl0 listed in IBGPExportFilterForTunnelRoutes *)
}.

(* one case = the two halves for the same pool *)
Record case := { cf : fobs; cb : bobs }.
Coercion cf : case >-> fobs.
Coercion cb : case >-> bobs.

Definition mode_eqb (a b : mode) : bool :=
  match a, b with MVxlan, MVxlan | MVxlanCross, MVxlanCross | MIpip, MIpip | MIpipCross, MIpipCross | MNone, MNone => true | _, _ => false end.

Definition pol_eqb (a b : policy) : bool := andb (Bool.eqb (fst a) (fst b)) (Bool.eqb (snd a) (snd b)).
Definition b3_eqb (a b : bool * bool * bool) : bool :=
  let '(a1, a2, a3) := a in let '(b1, b2, b3) := b in andb (Bool.eqb a1 b1) (andb (Bool.eqb a2 b2) (Bool.eqb a3 b3)).
Definition b4_eqb (a b : bool * bool * bool * bool) : bool :=
  let '(a1, a2, a3, a4) := a in let '(b1, b2, b3, b4) := b in
  andb (andb (Bool.eqb a1 b1) (Bool.eqb a2 b2)) (andb (Bool.eqb a3 b3) (Bool.eqb a4 b4)).

(* a world with just this pool, no overrides, iptables dataplane, no WireGuard, IPv6 support on *)
Definition lone_world (m : mode) (v4 : bool) (flags : bool * bool * bool) (api : bool) : world :=
  {| w_mode := m; w_v4 := v4; w_disabled := fst (fst flags); w_nat := snd (fst flags); w_nobgp := snd flags; w_api := api; w_others := (false, false, false, false); w_ipip_ovr := None; w_vxlan_ovr := None;
     w_bpf := false; w_wg := false; w_wg6 := false; w_ipv6 := true |}.

Definition model_agrees (g : gen) (c : case) : bool :=
  let pcr := felix_resolve g (c_fraw c) in
  let w := lone_world (c_mode c) (c_v4 c) (c_flags c) (c_api c) in
  let v := felix_view_of g pcr w in
  let p := bird_policy g (c_braw c) in
  let act := bird_kernel_action g p (c_mode c) (snd (c_flags c)) in
  andb (andb (andb (mode_eqb (c_mode c) (b_mode c)) (Bool.eqb (c_v4 c) (b_v4 c)))
             (b3_eqb (c_flags c) (b_flags c))) (
  andb (andb (andb (String.eqb pcr (o_pcr c)) (Bool.eqb (v_prog_ipip v) (o_fipip c)))
             (andb (Bool.eqb (v_prog_noencap v) (o_fnoencap c)) (b4_eqb (v_calc v) (o_calc c))))
       (andb (andb (pol_eqb p (o_pol c)) (pol_eqb (bird_policy_table g (c_braw c)) (o_pol c)))
             (andb (andb (Bool.eqb (bird_programs_pool g p (c_mode c)) (o_programs c))
                         (stmt_eqb (o_stmt c) (if bird_stmt_produced g w then match act with Accept => if c_v4 c then SAccept else SNoStmt | Reject => SReject end else SNoStmt)))
                   (Bool.eqb (o_tunl0 c) (negb (fst p)))))).

(* Ownership as it can be read off the implementation's observables, following DESIGN.md section 2:
   the VXLAN manager runs iff VXLAN is enabled; the IPIP manager drives its route manager iff IPIP is enabled and
   Felix owns IPIP cluster routes; the no-encap manager exists iff NoEncapNeeded (which folds ownership in);
   BIRD programs whatever its kernel filter does not reject. *)
Definition felix_observed (c : case) : bool :=
  let '(ci, cv, cv6, cn) := o_calc c in
  match class_of (c_mode c) with
  | CVxlan => if c_v4 c then cv else cv6
  | CIpip => andb ci (o_fipip c)
  | CNoEncap => andb cn (o_fnoencap c)
  end.

Definition bird_observed (c : case) : bool :=
  match o_stmt c with SAccept | SNoStmt => true | _ => false end   (* no statement: the template's final `accept;` applies *).

Definition ok_case (c : case) : bool :=
  let f := spec_resolve felix_spec_default (c_fraw c) in
  let b := spec_resolve bird_spec_default (braw_value (c_braw c)) in
  if supported f b then
    andb (exactly_one_right f (c_mode c) (felix_observed c) (bird_observed c))
         (andb (pol_eqb (o_pol c) (covers b))                       (* BIRD's policy is what the setting means *)
               (andb (pol_eqb (o_fipip c, o_fnoencap c) (covers f)) (* so is Felix's *)
                     (Bool.eqb (o_tunl0 c) (fst (covers f)))))      (* tunl0 routes are kept out of iBGP exactly when Felix owns IPIP *)
  else true.

Definition check_case (g : gen) (c : case) : bool * bool := (model_agrees g c, ok_case c).
