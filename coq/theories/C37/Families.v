(* C37 — PolicyID text encoding, name families, IP set names. *)
From Coq Require Import List NArith Arith Bool Lia.
From Verif.C37 Require Import Model Spec Proofs.
From Coq Require String.
Import String.StringSyntax.
Import ListNotations.

(* ---------- PolicyID.ID() is injective on validated IDs ---------- *)

Lemma known_kind_cases : forall k, known_kind k = true ->
  k = kNP \/ k = kGNP \/ k = kSNP \/ k = kSGNP \/ k = kSKNP \/ k = kKNP \/ k = kKCNP.
Proof.
  intros k K. unfold known_kind, kind_table, assoc in K.
  destruct (beq k kNP) eqn:E1; [apply beq_eq in E1; tauto|].
  destruct (beq k kGNP) eqn:E2; [apply beq_eq in E2; tauto|].
  destruct (beq k kSNP) eqn:E3; [apply beq_eq in E3; tauto|].
  destruct (beq k kSGNP) eqn:E4; [apply beq_eq in E4; tauto|].
  destruct (beq k kSKNP) eqn:E5; [apply beq_eq in E5; tauto|].
  destruct (beq k kKNP) eqn:E6; [apply beq_eq in E6; tauto|].
  destruct (beq k kKCNP) eqn:E7; [apply beq_eq in E7; tauto|].
  discriminate.
Qed.

Lemma kind_short_no_slash : forall k, known_kind k = true -> has slash (kind_short k) = false.
Proof.
  intros k K. destruct (known_kind_cases k K) as [E|[E|[E|[E|[E|[E|E]]]]]]; subst; vm_compute; reflexivity.
Qed.

Lemma kind_short_inj : forall k k', known_kind k = true -> known_kind k' = true ->
  kind_short k = kind_short k' -> k = k'.
Proof.
  intros k k' K K' E.
  destruct (known_kind_cases k K) as [A|[A|[A|[A|[A|[A|A]]]]]];
  destruct (known_kind_cases k' K') as [B|[B|[B|[B|[B|[B|B]]]]]]; subst; try reflexivity;
  vm_compute in E; discriminate E.
Qed.

Definition text_rest (x : policy_id) : bytes :=
  match p_ns x with [] => p_name x | ns => ns ++ slash :: p_name x end.

Lemma policy_text_split : forall x, policy_text x = kind_short (p_kind x) ++ slash :: text_rest x.
Proof. intro x. unfold policy_text, text_rest. destruct (p_ns x); reflexivity. Qed.

Lemma clean_no_slash : forall s, clean s = true -> has slash s = false.
Proof. intros s C. unfold clean in C. apply andb_true_iff in C. destruct C as [C _]. apply negb_true_iff in C. exact C. Qed.

Lemma pid_ext : forall a b, p_name a = p_name b -> p_ns a = p_ns b -> p_kind a = p_kind b -> a = b.
Proof. intros [] []; simpl; intros; subst; reflexivity. Qed.

Theorem policy_text_injective : forall a b,
  valid_pid a = true -> valid_pid b = true -> policy_text a = policy_text b -> a = b.
Proof.
  intros a b Va Vb E. unfold valid_pid in Va, Vb.
  apply andb_true_iff in Va. destruct Va as [Va Nsa]. apply andb_true_iff in Va. destruct Va as [Ka Na].
  apply andb_true_iff in Vb. destruct Vb as [Vb Nsb]. apply andb_true_iff in Vb. destruct Vb as [Kb Nb].
  apply clean_no_slash in Na, Nb, Nsa, Nsb.
  rewrite !policy_text_split in E.
  apply split_unique in E; try (apply kind_short_no_slash; assumption).
  destruct E as [Ek Er]. apply kind_short_inj in Ek; try assumption.
  unfold text_rest in Er.
  destruct (p_ns a) as [|c nsa] eqn:Ea; destruct (p_ns b) as [|d nsb] eqn:Eb.
  - apply pid_ext; congruence.
  - exfalso. rewrite Er in Na. rewrite has_app in Na. rewrite has_cons_self in Na. rewrite orb_true_r in Na. discriminate.
  - exfalso. rewrite <- Er in Nb. rewrite has_app in Nb. rewrite has_cons_self in Nb. rewrite orb_true_r in Nb. discriminate.
  - apply split_unique in Er; try assumption. destruct Er as [E1 E2]. apply pid_ext; congruence.
Qed.

(* outside the validated domain the encoding is ambiguous *)
Lemma policy_text_not_injective_with_slash :
  exists a b, a <> b /\ known_kind (p_kind a) = true /\ known_kind (p_kind b) = true /\ policy_text a = policy_text b.
Proof.
  exists {| p_name := bs "a/b"; p_ns := []; p_kind := kNP |}, {| p_name := bs "b"; p_ns := bs "a"; p_kind := kNP |}.
  split; [discriminate|]. vm_compute. auto.
Qed.

Lemma policy_text_not_injective_unknown_kind :
  exists a b, a <> b /\ clean (p_name a) = true /\ clean (p_name b) = true /\ policy_text a = policy_text b.
Proof.
  exists {| p_name := bs "x"; p_ns := []; p_kind := kNP |}, {| p_name := bs "x"; p_ns := []; p_kind := sNP |}.
  split; [discriminate|]. vm_compute. auto.
Qed.

(* ---------- chain name families ---------- *)

Definition chain_prefixes : list bytes :=
  [pfx_pi; pfx_po; pfx_pri; pfx_pro; pfx_gi; pfx_go] ++ endpoint_prefixes.

Definition pairwise_diverge (l : list bytes) : bool :=
  forallb (fun a => forallb (fun b => beq a b || diverge a b) l) l.

Lemma chain_prefixes_diverge : pairwise_diverge chain_prefixes = true.
Proof. vm_compute. reflexivity. Qed.

Lemma prefixes_apart : forall p q x y,
  In p chain_prefixes -> In q chain_prefixes -> p <> q -> p ++ x <> q ++ y.
Proof.
  intros p q x y Ip Iq NE. apply diverge_app.
  pose proof chain_prefixes_diverge as D. unfold pairwise_diverge in D.
  rewrite forallb_forall in D. specialize (D p Ip). rewrite forallb_forall in D. specialize (D q Iq).
  apply orb_true_iff in D. destruct D as [D|D]; [apply beq_eq in D; contradiction|exact D].
Qed.

Theorem families_disjoint : forall clamp H p q s t m1 m2 n1 n2,
  In p chain_prefixes -> In q chain_prefixes -> p <> q ->
  gllid clamp H p s m1 = Some n1 -> gllid clamp H q t m2 = Some n2 -> n1 <> n2.
Proof.
  intros clamp H p q s t m1 m2 n1 n2 Ip Iq NE G1 G2.
  destruct (gllid_prefix _ _ _ _ _ _ G1) as [x [E1 _]]. destruct (gllid_prefix _ _ _ _ _ _ G2) as [y [E2 _]].
  subst. apply prefixes_apart; assumption.
Qed.

(* ---------- policy / profile / endpoint chains ---------- *)

Definition trunc_collision (H : bytes -> bytes) (k : nat) : Prop :=
  exists x y, x <> y /\ firstn k (H x) = firstn k (H y).

Lemma policy_pfx_inj : forall i j, policy_pfx i = policy_pfx j -> i = j.
Proof. destruct i, j; simpl; intro E; try reflexivity; vm_compute in E; discriminate. Qed.
Lemma profile_pfx_inj : forall i j, profile_pfx i = profile_pfx j -> i = j.
Proof. destruct i, j; simpl; intro E; try reflexivity; vm_compute in E; discriminate. Qed.
Lemma group_pfx_inj : forall i j, group_pfx i = group_pfx j -> i = j.
Proof. destruct i, j; simpl; intro E; try reflexivity; vm_compute in E; discriminate. Qed.

Lemma policy_pfx_in : forall i, In (policy_pfx i) chain_prefixes.
Proof. destruct i; vm_compute; tauto. Qed.
Lemma profile_pfx_in : forall i, In (profile_pfx i) chain_prefixes.
Proof. destruct i; vm_compute; tauto. Qed.
Lemma group_pfx_in : forall i, In (group_pfx i) chain_prefixes.
Proof. destruct i; vm_compute; tauto. Qed.
Lemma endpoint_pfx_in : forall p, In p endpoint_prefixes -> In p chain_prefixes.
Proof. intros p I. unfold chain_prefixes. apply in_or_app. right. exact I. Qed.

Lemma policy_text_nonempty : forall x, policy_text x <> [].
Proof. intro x. rewrite policy_text_split. destruct (kind_short (p_kind x)); discriminate. Qed.

Lemma eff_id : forall s, s <> [] -> eff s = s.
Proof. destruct s; [congruence|reflexivity]. Qed.

(* same prefix and limit, non-empty suffixes: equal names mean equal suffixes or a digest collision *)
Lemma gllid_same_prefix : forall clamp H p a b max n,
  a <> [] -> b <> [] ->
  gllid clamp H p a max = Some n -> gllid clamp H p b max = Some n ->
  a = b \/ trunc_collision H (left_chars clamp p max).
Proof.
  intros clamp H p a b max n Na Nb Ga Gb.
  destruct (gllid_injective_mod_hash _ _ _ _ _ _ _ Ga Gb) as [E|[[_ [_ [NE E]]]|[[A _]|[_ B]]]]; try tauto.
  right. exists (eff a), (eff b). split; assumption.
Qed.

Theorem policy_chain_injective : forall clamp H i j nft a b n,
  valid_pid a = true -> valid_pid b = true ->
  policy_chain clamp H i nft a = Some n -> policy_chain clamp H j nft b = Some n ->
  (i = j /\ a = b) \/ trunc_collision H (left_chars clamp pfx_pi (max_chain nft)).
Proof.
  intros clamp H i j nft a b n Va Vb Ga Gb. unfold policy_chain in *.
  destruct (Bool.bool_dec i j) as [E|NE].
  - subst j. destruct (gllid_same_prefix _ _ _ _ _ _ _ (policy_text_nonempty a) (policy_text_nonempty b) Ga Gb) as [T|C].
    + left. split; [reflexivity|]. apply policy_text_injective; assumption.
    + right. destruct i; exact C.
  - exfalso. refine (families_disjoint _ _ _ _ _ _ _ _ _ _ (policy_pfx_in i) (policy_pfx_in j) _ Ga Gb eq_refl).
    intro X. apply policy_pfx_inj in X. contradiction.
Qed.

Theorem profile_chain_injective : forall clamp H i j nft a b n,
  a <> [] -> b <> [] ->
  profile_chain clamp H i nft a = Some n -> profile_chain clamp H j nft b = Some n ->
  (i = j /\ a = b) \/ trunc_collision H (left_chars clamp pfx_pri (max_chain nft)).
Proof.
  intros clamp H i j nft a b n Na Nb Ga Gb. unfold profile_chain in *.
  destruct (Bool.bool_dec i j) as [E|NE].
  - subst j. destruct (gllid_same_prefix _ _ _ _ _ _ _ Na Nb Ga Gb) as [T|C].
    + left. auto.
    + right. destruct i; exact C.
  - exfalso. refine (families_disjoint _ _ _ _ _ _ _ _ _ _ (profile_pfx_in i) (profile_pfx_in j) _ Ga Gb eq_refl).
    intro X. apply profile_pfx_inj in X. contradiction.
Qed.

Theorem endpoint_chain_injective : forall clamp H p q a b max n,
  In p endpoint_prefixes -> In q endpoint_prefixes -> a <> [] -> b <> [] ->
  endpoint_chain clamp H p a max = Some n -> endpoint_chain clamp H q b max = Some n ->
  (p = q /\ a = b) \/ trunc_collision H (left_chars clamp p max).
Proof.
  intros clamp H p q a b max n Ip Iq Na Nb Ga Gb. unfold endpoint_chain in *.
  destruct (bytes_dec p q) as [E|NE].
  - subst q. destruct (gllid_same_prefix _ _ _ _ _ _ _ Na Nb Ga Gb) as [T|C]; auto.
  - exfalso. exact (families_disjoint _ _ _ _ _ _ _ _ _ _ (endpoint_pfx_in _ Ip) (endpoint_pfx_in _ Iq) NE Ga Gb eq_refl).
Qed.

(* interface names (at most 15 bytes) are never shortened under the iptables limit: the chain name
   is simply prefix ++ name *)
Theorem endpoint_chain_plain : forall clamp H p a nft,
  In p endpoint_prefixes -> a <> [] -> length a <= 15 ->
  endpoint_chain clamp H p a (max_chain nft) = Some (p ++ a).
Proof.
  intros clamp H p a nft Ip Na La. unfold endpoint_chain, gllid. rewrite (eff_id a Na).
  assert (LP : length p <= 10).
  { unfold endpoint_prefixes in Ip. simpl in Ip.
    repeat (destruct Ip as [Ip|Ip]; [subst p; simpl; lia|]). contradiction. }
  replace (must_shorten clamp (length p) a (max_chain nft)) with false; [reflexivity|].
  symmetry. unfold must_shorten. apply orb_false_iff. split.
  - apply Nat.ltb_ge. destruct nft; unfold max_chain; lia.
  - apply andb_false_iff. left. apply Nat.eqb_neq. unfold short_len, hash_len. destruct clamp, nft; unfold max_chain; lia.
Qed.

(* ---------- policy groups ---------- *)

Theorem group_chain_fits : forall H3 i sel ps, length (group_chain H3 i sel ps) <= 28.
Proof.
  intros. unfold group_chain, group_uid. rewrite app_length, firstn_length.
  assert (length (group_pfx i) = 8) by (destruct i; reflexivity). lia.
Qed.

Theorem group_chain_injective : forall H3 i j s t ps qs,
  group_chain H3 i s ps = group_chain H3 j t qs ->
  i = j /\ (group_content i s ps = group_content j t qs \/ trunc_collision H3 20).
Proof.
  intros H3 i j s t ps qs E. unfold group_chain in E.
  destruct (Bool.bool_dec i j) as [X|NE].
  - subst j. split; [reflexivity|]. apply app_inv_head in E. unfold group_uid in E.
    destruct (bytes_dec (group_content i s ps) (group_content i t qs)) as [C|C]; [left; exact C|].
    right. eexists _, _. split; [exact C|exact E].
  - exfalso. revert E. apply prefixes_apart; try apply group_pfx_in.
    intro X. apply group_pfx_inj in X. contradiction.
Qed.

Theorem group_vs_gllid_disjoint : forall clamp H H3 i s ps p t max n,
  In p chain_prefixes -> p <> group_pfx i ->
  gllid clamp H p t max = Some n -> n <> group_chain H3 i s ps.
Proof.
  intros clamp H H3 i s ps p t max n Ip NE G. destruct (gllid_prefix _ _ _ _ _ _ G) as [x [E _]]. subst n.
  unfold group_chain. apply prefixes_apart; try assumption. apply group_pfx_in.
Qed.

(* ---------- decimal ---------- *)

Fixpoint undec (l : bytes) : N :=
  match l with [] => 0%N | d :: l' => ((d - 48) + 10 * undec l')%N end.

Lemma undec_dec_rev : forall fuel n, (n < 10 ^ N.of_nat fuel)%N -> undec (dec_rev fuel n) = n.
Proof.
  induction fuel as [|f IH]; intros n B.
  - simpl in *. change (10 ^ 0)%N with 1%N in B. lia.
  - cbn [dec_rev]. destruct (N.ltb n 10) eqn:E.
    + cbn [undec]. lia.
    + apply N.ltb_ge in E. cbn [undec]. rewrite IH.
      * assert (T : (10 <> 0)%N) by lia. pose proof (N.div_mod n 10 T). pose proof (N.mod_lt n 10 T) as H0.
        generalize dependent (n / 10)%N. generalize dependent (n mod 10)%N. intros. lia.
      * rewrite Nat2N.inj_succ, N.pow_succ_r' in B.
        apply N.div_lt_upper_bound; lia.
Qed.

Lemma dec_rev_length : forall fuel n, length (dec_rev fuel n) <= fuel.
Proof.
  induction fuel as [|f IH]; intro n; cbn [dec_rev]; [simpl; lia|].
  destruct (N.ltb n 10); simpl; [lia|]. specialize (IH (n / 10)%N). lia.
Qed.

Lemma decimal_length : forall n, length (decimal n) <= 20.
Proof. intro n. unfold decimal. rewrite rev_length. apply dec_rev_length. Qed.

Lemma pow64_lt_pow10_20 : (18446744073709551616 < 10 ^ N.of_nat 20)%N.
Proof. vm_compute. reflexivity. Qed.

Theorem decimal_injective : forall n m,
  (n < 18446744073709551616)%N -> (m < 18446744073709551616)%N -> decimal n = decimal m -> n = m.
Proof.
  intros n m Bn Bm E. unfold decimal in E.
  assert (E' : dec_rev 20 n = dec_rev 20 m) by (rewrite <- (rev_involutive (dec_rev 20 n)), E, rev_involutive; reflexivity).
  pose proof pow64_lt_pow10_20 as P.
  rewrite <- (undec_dec_rev 20 n) by lia. rewrite <- (undec_dec_rev 20 m) by lia. rewrite E'. reflexivity.
Qed.

(* ---------- IP set names ---------- *)

Lemma main_set_name_split : forall v6 id, main_set_name cali v6 id = main_pfx cali v6 ++ firstn 25 id.
Proof. intros. unfold main_set_name, max_ipset. destruct v6; reflexivity. Qed.

Theorem main_set_fits : forall np v6 id, length (main_set_name np v6 id) <= 31.
Proof. intros. unfold main_set_name, max_ipset. rewrite firstn_length. lia. Qed.

Theorem temp_set_fits : forall v6 n, length (temp_set_name cali v6 n) <= 31.
Proof.
  intros. unfold temp_set_name. rewrite app_length. pose proof (decimal_length n).
  assert (length (temp_pfx cali v6) = 6) by (destruct v6; reflexivity). lia.
Qed.

Definition set_prefixes : list bytes :=
  [main_pfx cali false; main_pfx cali true; temp_pfx cali false; temp_pfx cali true].
Lemma set_prefixes_diverge : pairwise_diverge set_prefixes = true.
Proof. vm_compute. reflexivity. Qed.

Lemma set_prefixes_apart : forall p q x y,
  In p set_prefixes -> In q set_prefixes -> p <> q -> p ++ x <> q ++ y.
Proof.
  intros p q x y Ip Iq NE. apply diverge_app.
  pose proof set_prefixes_diverge as D. unfold pairwise_diverge in D.
  rewrite forallb_forall in D. specialize (D p Ip). rewrite forallb_forall in D. specialize (D q Iq).
  apply orb_true_iff in D. destruct D as [D|D]; [apply beq_eq in D; contradiction|exact D].
Qed.

Theorem main_temp_disjoint : forall v6 v6' id n, main_set_name cali v6 id <> temp_set_name cali v6' n.
Proof.
  intros. rewrite main_set_name_split. unfold temp_set_name.
  apply set_prefixes_apart; destruct v6, v6'; try (vm_compute; tauto); discriminate.
Qed.

Lemma firstn_eq_short : forall (k : nat) (a b : bytes),
  firstn k a = firstn k b -> a = b \/ (k <= length a /\ k <= length b).
Proof.
  intros k a b E.
  destruct (le_lt_dec (length a) k) as [La|La]; destruct (le_lt_dec (length b) k) as [Lb|Lb].
  - left. rewrite (firstn_all2 a La) in E. rewrite (firstn_all2 b Lb) in E. exact E.
  - right. apply (f_equal (@length N)) in E. rewrite !firstn_length in E. lia.
  - right. apply (f_equal (@length N)) in E. rewrite !firstn_length in E. lia.
  - right. lia.
Qed.

Theorem main_set_injective : forall v6 v6' a b,
  main_set_name cali v6 a = main_set_name cali v6' b ->
  v6 = v6' /\ (a = b \/ (25 <= length a /\ 25 <= length b /\ firstn 25 a = firstn 25 b)).
Proof.
  intros v6 v6' a b E. rewrite !main_set_name_split in E.
  destruct (Bool.bool_dec v6 v6') as [X|NE].
  - subst. split; [reflexivity|]. apply app_inv_head in E.
    destruct (firstn_eq_short _ _ _ E) as [A|[A B]]; auto.
  - exfalso. revert E. apply set_prefixes_apart; destruct v6, v6'; try (vm_compute; tauto); try discriminate; congruence.
Qed.

Theorem temp_set_injective : forall v6 v6' n m,
  (n < 18446744073709551616)%N -> (m < 18446744073709551616)%N ->
  temp_set_name cali v6 n = temp_set_name cali v6' m -> v6 = v6' /\ n = m.
Proof.
  intros v6 v6' n m Bn Bm E. unfold temp_set_name in E.
  destruct (Bool.bool_dec v6 v6') as [X|NE].
  - subst. split; [reflexivity|]. apply app_inv_head in E. apply decimal_injective; assumption.
  - exfalso. revert E. apply set_prefixes_apart; destruct v6, v6'; try (vm_compute; tauto); try discriminate; congruence.
Qed.

(* IDs made by MakeUniqueID: tag ++ ":" ++ digest *)
Lemma firstn_app_cons : forall (k : nat) (t : bytes) (c : N) (h : bytes),
  length t < k -> firstn k (t ++ c :: h) = t ++ c :: firstn (k - length t - 1) h.
Proof.
  intros k t c h L. rewrite firstn_app. rewrite (firstn_all2 t) by lia.
  destruct (k - length t) eqn:E; [lia|]. simpl. replace (n - 0) with n by lia. reflexivity.
Qed.

Theorem main_set_hashed_injective : forall H224 v6 v6' t t' c c',
  has colon t = false -> has colon t' = false -> length t <= 9 -> length t' <= 9 ->
  main_set_name cali v6 (make_unique_id H224 t c) = main_set_name cali v6' (make_unique_id H224 t' c') ->
  v6 = v6' /\ t = t' /\ (c = c' \/ trunc_collision H224 (24 - length t)).
Proof.
  intros H224 v6 v6' t t' c c' Ct Ct' Lt Lt' E.
  apply main_set_injective in E. destruct E as [V E]. split; [exact V|].
  assert (F : firstn 25 (make_unique_id H224 t c) = firstn 25 (make_unique_id H224 t' c')).
  { destruct E as [E|[_ [_ E]]]; [rewrite E; reflexivity|exact E]. }
  unfold make_unique_id in F. rewrite !firstn_app_cons in F by lia.
  apply split_unique in F; try assumption. destruct F as [Et F]. subst t'. split; [reflexivity|].
  destruct (bytes_dec c c') as [X|NE]; [left; exact X|]. right.
  exists (t ++ colon :: c), (t ++ colon :: c'). split.
  - intro X. apply app_inv_head in X. inversion X. contradiction.
  - replace (24 - length t) with (25 - length t - 1) by lia. exact F.
Qed.

Theorem make_unique_id_injective : forall H224 t t' c c',
  has colon t = false -> has colon t' = false ->
  make_unique_id H224 t c = make_unique_id H224 t' c' ->
  t = t' /\ (c = c' \/ exists x y, x <> y /\ H224 x = H224 y).
Proof.
  intros H224 t t' c c' Ct Ct' E. unfold make_unique_id in E.
  apply split_unique in E; try assumption. destruct E as [Et E]. subst t'. split; [reflexivity|].
  destruct (bytes_dec c c') as [X|NE]; [left; exact X|]. right.
  exists (t ++ colon :: c), (t ++ colon :: c'). split; [|exact E].
  intro X. apply app_inv_head in X. inversion X. contradiction.
Qed.

(* ---------- the code as found panics for long validated names under the nftables limit ---------- *)

Definition toyH (x : bytes) : bytes := repeat 65%N hash_len.

Lemma unclamped_panics :
  exists H id, (forall x, length (H x) = hash_len) /\ valid_pid id = true /\ length (p_name id) <= 253 /\
               policy_chain false H true true id = None.
Proof.
  exists toyH, {| p_name := repeat 97%N 245; p_ns := []; p_kind := kGNP |}.
  split; [intro; apply repeat_length|]. split; [vm_compute; reflexivity|].
  split; [cbv [p_name]; rewrite repeat_length; lia|]. vm_compute. reflexivity.
Qed.

(* the repaired variant never panics on the chain builders *)
Lemma clamped_chains_total : forall H i nft id,
  (forall x, length (H x) = hash_len) -> exists n, policy_chain true H i nft id = Some n.
Proof.
  intros H i nft id HL. unfold policy_chain. apply gllid_total_clamped; [exact HL|].
  destruct i, nft; simpl; lia.
Qed.

(* ---------- examples: the hypotheses of the theorems are satisfiable, shortening does happen ---------- *)

Example ex_shortened :
  gllid false toyH pfx_pi (bs "gnp/a-rather-long-policy-name") 28 = Some (pfx_pi ++ marker :: repeat 65%N 19).
Proof. vm_compute. reflexivity. Qed.

Example ex_marker_exact_fit_is_hashed :
  gllid false toyH pfx_pi (bs "_AAAAAAAAAAAAAAAAAAA") 28 = Some (pfx_pi ++ marker :: repeat 65%N 19)
  /\ shortened false pfx_pi (bs "_AAAAAAAAAAAAAAAAAAA") 28.
Proof. vm_compute. auto. Qed.

Example ex_valid_pid : valid_pid {| p_name := bs "allow-dns"; p_ns := bs "kube-system"; p_kind := kNP |} = true.
Proof. vm_compute. reflexivity. Qed.

Example ex_degenerate_clash : gllid false toyH pfx_pri [] 28 = gllid false toyH pfx_pri [marker] 28
  /\ gllid false toyH pfx_pri [] 28 = Some (pfx_pri ++ [marker]).
Proof. vm_compute. auto. Qed.

Example ex_main_cut : main_set_name cali false (make_unique_id toyH (bs "s") (bs "all()")) =
  bs "cali40s:" ++ repeat 65%N 23.
Proof. vm_compute. reflexivity. Qed.

Example ex_temp : temp_set_name cali true 18446744073709551615 = bs "cali6t18446744073709551615".
Proof. vm_compute. reflexivity. Qed.
