(* C37 — proofs about the model of the name builders. *)
From Coq Require Import List NArith Arith Bool Lia.
From Verif.C37 Require Import Model Spec.
Import ListNotations.

(* ---------- byte strings ---------- *)

Lemma beq_eq : forall a b, beq a b = true <-> a = b.
Proof.
  induction a as [|x a IH]; destruct b as [|y b]; simpl; split; intro E; try reflexivity; try discriminate.
  - apply andb_true_iff in E. destruct E as [E1 E2]. apply N.eqb_eq in E1. apply IH in E2. subst. reflexivity.
  - inversion E; subst. rewrite N.eqb_refl. simpl. apply IH. reflexivity.
Qed.

Lemma beq_refl : forall a, beq a a = true.
Proof. intro a. apply beq_eq. reflexivity. Qed.

Lemma bytes_dec : forall a b : bytes, {a = b} + {a <> b}.
Proof. intros a b. destruct (beq a b) eqn:E. left; apply beq_eq; exact E. right; intro X; apply beq_eq in X; congruence. Qed.

(* two texts that stop agreeing inside both of them stay different whatever follows *)
Fixpoint diverge (a b : bytes) : bool :=
  match a, b with
  | x :: a', y :: b' => if N.eqb x y then diverge a' b' else true
  | _, _ => false
  end.

Lemma diverge_app : forall a b x y, diverge a b = true -> a ++ x <> b ++ y.
Proof.
  induction a as [|c a IH]; destruct b as [|d b]; simpl; intros x y D; try discriminate.
  destruct (N.eqb c d) eqn:E.
  - intro X. inversion X. eapply IH; eauto.
  - intro X. inversion X. subst. rewrite N.eqb_refl in E. discriminate.
Qed.

Lemma has_app : forall c a b, has c (a ++ b) = has c a || has c b.
Proof. intros. unfold has. apply existsb_app. Qed.

Lemma has_cons_self : forall c b, has c (c :: b) = true.
Proof. intros. unfold has. simpl. rewrite N.eqb_refl. reflexivity. Qed.

(* splitting at the first occurrence of a separator is unambiguous *)
Lemma split_unique : forall c x x' r r',
  has c x = false -> has c x' = false -> x ++ c :: r = x' ++ c :: r' -> x = x' /\ r = r'.
Proof.
  induction x as [|a x IH]; destruct x' as [|a' x']; simpl; intros r r' Hx Hx' E.
  - inversion E. auto.
  - inversion E. subst. unfold has in Hx'. simpl in Hx'. rewrite N.eqb_refl in Hx'. discriminate.
  - inversion E. subst. unfold has in Hx. simpl in Hx. rewrite N.eqb_refl in Hx. discriminate.
  - inversion E. subst. unfold has in Hx, Hx'. simpl in Hx, Hx'.
    apply orb_false_iff in Hx. apply orb_false_iff in Hx'.
    destruct (IH x' r r') as [A B]; try tauto. subst. auto.
Qed.

(* ---------- GetLengthLimitedID ---------- *)

Definition shortened (clamp : bool) (p s : bytes) (max : nat) : Prop :=
  must_shorten clamp (length p) (eff s) max = true.
Definition left_chars (clamp : bool) (p : bytes) (max : nat) : nat :=
  short_len clamp (length p) max - 1 - length p.

Lemma short_len_le : forall clamp plen max, short_len clamp plen max <= max.
Proof. intros. unfold short_len. destruct clamp; lia. Qed.

Lemma eff_nonempty : forall s, eff s <> [].
Proof. destruct s; simpl; discriminate. Qed.

Lemma eff_eq_iff : forall a b,
  eff a = eff b <-> a = b \/ (a = [] /\ b = [marker]) \/ (a = [marker] /\ b = []).
Proof.
  intros a b. split.
  - destruct a as [|x a], b as [|y b]; simpl; intro E.
    + left; reflexivity.
    + right. left. split; congruence.
    + right. right. split; congruence.
    + left; exact E.
  - intros [E | [[A B] | [A B]]]; subst; reflexivity.
Qed.

Section GLLID.
  Variable clamp : bool.
  Variable H : bytes -> bytes.

  Lemma gllid_eff : forall p s max, gllid clamp H p s max = gllid clamp H p (eff s) max.
  Proof. intros. unfold gllid. destruct s; reflexivity. Qed.

  Lemma gllid_short : forall p s max n,
    gllid clamp H p s max = Some n -> shortened clamp p s max ->
    left_chars clamp p max <> 0 /\
    n = p ++ marker :: firstn (left_chars clamp p max) (H (eff s)) /\
    length (firstn (left_chars clamp p max) (H (eff s))) = left_chars clamp p max.
  Proof.
    unfold gllid, shortened, left_chars. intros p s max n G S. rewrite S in G.
    destruct (_ =? 0) eqn:E0; try discriminate.
    destruct (_ <? _) eqn:E1; try discriminate.
    apply Nat.eqb_neq in E0. apply Nat.ltb_ge in E1. inversion G. subst.
    split; [exact E0|]. split; [reflexivity|]. apply firstn_length_le. exact E1.
  Qed.

  Lemma gllid_long : forall p s max n,
    gllid clamp H p s max = Some n -> ~ shortened clamp p s max -> n = p ++ eff s.
  Proof.
    unfold gllid, shortened. intros p s max n G S.
    destruct (must_shorten _ _ _ _); [exfalso; apply S; reflexivity|]. inversion G. reflexivity.
  Qed.

  Lemma shortened_dec : forall p s max, shortened clamp p s max \/ ~ shortened clamp p s max.
  Proof. intros. unfold shortened. destruct (must_shorten _ _ _ _); [left|right]; congruence. Qed.

  Lemma gllid_fits : forall p s max n, gllid clamp H p s max = Some n -> length n <= max.
  Proof.
    intros p s max n G. destruct (shortened_dec p s max) as [S|S].
    - destruct (gllid_short _ _ _ _ G S) as [L [E Len]]. subst n.
      rewrite app_length. simpl. rewrite Len. unfold left_chars in *.
      pose proof (short_len_le clamp (length p) max). lia.
    - rewrite (gllid_long _ _ _ _ G S). unfold shortened, must_shorten in S.
      rewrite app_length. destruct (max <? length p + length (eff s)) eqn:E.
      + simpl in S. exfalso. apply S. reflexivity.
      + apply Nat.ltb_ge in E. exact E.
  Qed.

  Lemma gllid_prefix : forall p s max n, gllid clamp H p s max = Some n -> exists x, n = p ++ x /\ x <> [].
  Proof.
    intros p s max n G. destruct (shortened_dec p s max) as [S|S].
    - destruct (gllid_short _ _ _ _ G S) as [_ [E _]]. eexists. split; [exact E|discriminate].
    - exists (eff s). split. apply (gllid_long _ _ _ _ G S). apply eff_nonempty.
  Qed.

  (* a shortened name and an unshortened one never coincide *)
  Lemma gllid_short_long_apart : forall p a b max n m,
    gllid clamp H p a max = Some n -> shortened clamp p a max ->
    gllid clamp H p b max = Some m -> ~ shortened clamp p b max -> n <> m.
  Proof.
    intros p a b max n m Ga Sa Gb Sb E. subst m.
    destruct (gllid_short _ _ _ _ Ga Sa) as [L [En Len]].
    rewrite (gllid_long _ _ _ _ Gb Sb) in En. apply app_inv_head in En.
    apply Sb. unfold shortened, must_shorten. rewrite En. simpl length. rewrite Len.
    unfold starts_marker. rewrite N.eqb_refl. unfold left_chars in *.
    replace (length p + S (short_len clamp (length p) max - 1 - length p)) with (short_len clamp (length p) max) by lia.
    rewrite Nat.eqb_refl. simpl. apply orb_true_r.
  Qed.

  (* exact characterisation of equal names *)
  Theorem gllid_eq_iff : forall p a b max n m,
    gllid clamp H p a max = Some n -> gllid clamp H p b max = Some m ->
    (n = m <->
     eff a = eff b \/
     (shortened clamp p a max /\ shortened clamp p b max /\
      firstn (left_chars clamp p max) (H (eff a)) = firstn (left_chars clamp p max) (H (eff b)))).
  Proof.
    intros p a b max n m Ga Gb. split.
    - intro E. subst m.
      destruct (shortened_dec p a max) as [Sa|Sa]; destruct (shortened_dec p b max) as [Sb|Sb].
      + right. split; [exact Sa|]. split; [exact Sb|].
        destruct (gllid_short _ _ _ _ Ga Sa) as [_ [Ea _]]. destruct (gllid_short _ _ _ _ Gb Sb) as [_ [Eb _]].
        rewrite Ea in Eb. apply app_inv_head in Eb. inversion Eb. reflexivity.
      + exfalso. apply (gllid_short_long_apart p a b max n n Ga Sa Gb Sb eq_refl).
      + exfalso. apply (gllid_short_long_apart p b a max n n Gb Sb Ga Sa eq_refl).
      + left. pose proof (gllid_long _ _ _ _ Ga Sa) as X. pose proof (gllid_long _ _ _ _ Gb Sb) as Y.
        rewrite X in Y. apply app_inv_head in Y. exact Y.
    - intros [E | [Sa [Sb E]]].
      + rewrite gllid_eff in Ga. rewrite gllid_eff in Gb. rewrite E in Ga. congruence.
      + destruct (gllid_short _ _ _ _ Ga Sa) as [_ [Ea _]]. destruct (gllid_short _ _ _ _ Gb Sb) as [_ [Eb _]].
        rewrite Ea, Eb, E. reflexivity.
  Qed.

  (* the form asked for by the property: equal names => same identity, or a collision of
     truncated digests of two different texts, or the degenerate ""/"_" pair *)
  Theorem gllid_injective_mod_hash : forall p a b max n,
    gllid clamp H p a max = Some n -> gllid clamp H p b max = Some n ->
    a = b \/
    (shortened clamp p a max /\ shortened clamp p b max /\ eff a <> eff b /\
     firstn (left_chars clamp p max) (H (eff a)) = firstn (left_chars clamp p max) (H (eff b))) \/
    (a = [] /\ b = [marker]) \/ (a = [marker] /\ b = []).
  Proof.
    intros p a b max n Ga Gb.
    destruct (bytes_dec (eff a) (eff b)) as [E|NE].
    - apply eff_eq_iff in E. tauto.
    - destruct (proj1 (gllid_eq_iff _ _ _ _ _ _ Ga Gb) eq_refl) as [E|[Sa [Sb E]]]; [contradiction|].
      right. left. auto.
  Qed.

  (* the degenerate clash is real: both spellings give the same name *)
  Lemma gllid_empty_marker : forall p max, gllid clamp H p [] max = gllid clamp H p [marker] max.
  Proof. intros. reflexivity. Qed.
End GLLID.

(* no panic where a name can fit: repaired variant, digest text of the stated length *)
Lemma gllid_total_clamped : forall H p s max,
  (forall x, length (H x) = hash_len) -> length p + 2 <= max ->
  exists n, gllid true H p s max = Some n.
Proof.
  intros H p s max HL M. unfold gllid.
  destruct (must_shorten true (length p) (eff s) max); [|eexists; reflexivity].
  unfold short_len. rewrite HL.
  destruct (_ =? 0) eqn:E0. { apply Nat.eqb_eq in E0. unfold hash_len in *. lia. }
  destruct (_ <? _) eqn:E1. { apply Nat.ltb_lt in E1. unfold hash_len in *. lia. }
  eexists; reflexivity.
Qed.

(* the code as found: total only while the room does not exceed the digest text *)
Lemma gllid_total_unclamped : forall H p s max,
  (forall x, length (H x) = hash_len) -> length p + 2 <= max -> max <= length p + 1 + hash_len ->
  exists n, gllid false H p s max = Some n.
Proof.
  intros H p s max HL M M2. unfold gllid.
  destruct (must_shorten false (length p) (eff s) max); [|eexists; reflexivity].
  unfold short_len. rewrite HL.
  destruct (_ =? 0) eqn:E0. { apply Nat.eqb_eq in E0. lia. }
  destruct (_ <? _) eqn:E1. { apply Nat.ltb_lt in E1. lia. }
  eexists; reflexivity.
Qed.

Lemma clamp_irrelevant_small : forall H p s max,
  max <= length p + 1 + hash_len -> gllid true H p s max = gllid false H p s max.
Proof.
  intros. unfold gllid, must_shorten, short_len. rewrite Nat.min_l by lia. reflexivity.
Qed.

Lemma gllid_deterministic : forall clamp H p s max a b,
  gllid clamp H p s max = a -> gllid clamp H p s max = b -> a = b.
Proof. intros; congruence. Qed.

(* exactly when the code panics instead of returning a name (digest text of the stated length) *)
Theorem gllid_none_iff : forall clamp H p s max,
  (forall x, length (H x) = hash_len) ->
  (gllid clamp H p s max = None <->
   shortened clamp p s max /\ (left_chars clamp p max = 0 \/ hash_len < left_chars clamp p max)).
Proof.
  intros clamp H p s max HL. unfold gllid, shortened, left_chars.
  destruct (must_shorten clamp (length p) (eff s) max).
  - rewrite HL. destruct (_ =? 0) eqn:E0.
    + apply Nat.eqb_eq in E0. split; [intros _; split; [reflexivity|left; exact E0]|reflexivity].
    + apply Nat.eqb_neq in E0. destruct (_ <? _) eqn:E1.
      * apply Nat.ltb_lt in E1. split; [intros _; split; [reflexivity|right; exact E1]|reflexivity].
      * apply Nat.ltb_ge in E1. split; [discriminate|]. intros [_ [X|X]]; lia.
  - split; [discriminate|]. intros [X _]. discriminate.
Qed.

(* repaired rule: the only panic left is "no room for even one digest character" *)
Theorem gllid_none_iff_clamped : forall H p s max,
  (forall x, length (H x) = hash_len) ->
  (gllid true H p s max = None <-> shortened true p s max /\ max <= length p + 1).
Proof.
  intros H p s max HL. rewrite (gllid_none_iff true H p s max HL).
  unfold left_chars, short_len, hash_len. split.
  - intros [S [L|L]]; [split; [exact S|lia]|lia].
  - intros [S B]. split; [exact S|left; lia].
Qed.
