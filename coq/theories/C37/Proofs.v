From Coq Require Import List NArith Arith Bool Lia.
From Verif.C37 Require Import Model Spec.
Import ListNotations.

Lemma gllid_deterministic : forall H p s max a b,
  gllid H p s max = a -> gllid H p s max = b -> a = b.
Proof. intros; congruence. Qed.
