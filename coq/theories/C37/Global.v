(* C37 — the model meets the specification: whenever the specification demands that two
   identities get different names (Spec.must_differ) and the model gives them the same name,
   there is a collision of truncated digests of two different texts (at least 11 characters). *)
From Coq Require Import List NArith Arith Bool Lia.
From Verif.C37 Require Import Model Spec Proofs Families More Statics.
Import ListNotations.

(* ---------- reflexivity of the boolean equalities ---------- *)
Lemma pid_eqb_refl : forall x, pid_eqb x x = true.
Proof. intro x. unfold pid_eqb. rewrite !beq_refl. reflexivity. Qed.
Lemma pids_eqb_refl : forall l, pids_eqb l l = true.
Proof. induction l; simpl; [reflexivity|]. rewrite pid_eqb_refl, IHl. reflexivity. Qed.
Lemma ident_eqb_refl : forall a, ident_eqb a a = true.
Proof.
  destruct a; simpl; rewrite ?beq_refl, ?Nat.eqb_refl, ?eqb_reflx, ?pid_eqb_refl, ?pids_eqb_refl, ?N.eqb_refl; try reflexivity;
  destruct src; simpl; rewrite ?beq_refl; reflexivity.
Qed.

(* ---------- policy group content ---------- *)
Lemma has_rev : forall c l, has c (rev l) = has c l.
Proof.
  intros c l. induction l as [|x l IH]; simpl; [reflexivity|].
  rewrite has_app, IH. unfold has. simpl. rewrite orb_false_r. apply orb_comm.
Qed.

Lemma dec_rev_no_nl : forall fuel n, has nl (dec_rev fuel n) = false.
Proof.
  induction fuel as [|f IH]; intro n; cbn [dec_rev]; [reflexivity|].
  destruct (N.ltb n 10).
  - unfold has. cbn [existsb]. rewrite orb_false_r. apply N.eqb_neq. unfold nl. lia.
  - unfold has in *. cbn [existsb]. rewrite IH, orb_false_r. apply N.eqb_neq. unfold nl. generalize (n mod 10)%N. intro. lia.
Qed.

Lemma decimal_no_nl : forall n, has nl (decimal n) = false.
Proof. intro n. unfold decimal. rewrite has_rev. apply dec_rev_no_nl. Qed.

Lemma valid_pid_parts : forall x, valid_pid x = true ->
  known_kind (p_kind x) = true /\
  has slash (p_name x) = false /\ has nl (p_name x) = false /\ has comma (p_name x) = false /\
  has slash (p_ns x) = false /\ has nl (p_ns x) = false /\ has comma (p_ns x) = false.
Proof.
  intros x V. unfold valid_pid, clean in V.
  repeat (apply andb_true_iff in V; destruct V as [V ?]).
  repeat match goal with H : _ && _ = true |- _ => apply andb_true_iff in H; destruct H end.
  repeat match goal with H : negb _ = true |- _ => apply negb_true_iff in H end.
  tauto.
Qed.

Lemma known_kind_no_nl : forall k, known_kind k = true -> has nl k = false.
Proof.
  intros k K. destruct (known_kind_cases k K) as [E|[E|[E|[E|[E|[E|E]]]]]]; subst; vm_compute; reflexivity.
Qed.

Lemma policy_string_no_nl : forall x, valid_pid x = true -> has nl (policy_string x) = false.
Proof.
  intros x V. destruct (valid_pid_parts x V) as [K [_ [A [_ [_ [B _]]]]]].
  unfold policy_string. rewrite !has_app, A, B, (known_kind_no_nl _ K). vm_compute. reflexivity.
Qed.

Lemma policy_string_injective : forall a b,
  valid_pid a = true -> valid_pid b = true -> policy_string a = policy_string b -> a = b.
Proof.
  intros a b Va Vb E.
  destruct (valid_pid_parts a Va) as [_ [_ [_ [Ca [_ [_ Cna]]]]]].
  destruct (valid_pid_parts b Vb) as [_ [_ [_ [Cb [_ [_ Cnb]]]]]].
  unfold policy_string, t_name, t_ns, t_kind, t_end in E. simpl in E.
  inversion E as [E1]. clear E.
  apply (split_unique comma) in E1; try assumption. destruct E1 as [En E1].
  inversion E1 as [E2]. clear E1.
  apply (split_unique comma) in E2; try assumption. destruct E2 as [Ens E2].
  inversion E2 as [E3]. clear E2. apply app_inv_tail in E3.
  apply pid_ext; assumption.
Qed.

Definition lines (ps : list policy_id) : bytes := concat (map (fun p => policy_string p ++ [nl]) ps).

Lemma lines_injective : forall ps qs,
  forallb valid_pid ps = true -> forallb valid_pid qs = true -> lines ps = lines qs -> ps = qs.
Proof.
  induction ps as [|a ps IH]; destruct qs as [|b qs]; simpl; intros Vp Vq E; try reflexivity.
  - exfalso. unfold lines in E. simpl in E. discriminate E.
  - exfalso. unfold lines in E. simpl in E. discriminate E.
  - apply andb_true_iff in Vp. destruct Vp as [Va Vp]. apply andb_true_iff in Vq. destruct Vq as [Vb Vq].
    unfold lines in E. cbn [concat map] in E. rewrite <- !app_assoc in E. cbn [app] in E.
    apply (split_unique nl) in E; try (apply policy_string_no_nl; assumption).
    destruct E as [E1 E2]. f_equal.
    + apply policy_string_injective; assumption.
    + apply IH; assumption.
Qed.

Lemma group_content_injective : forall i s t ps qs,
  has nl s = false -> has nl t = false ->
  forallb valid_pid ps = true -> forallb valid_pid qs = true ->
  group_content i s ps = group_content i t qs -> s = t /\ ps = qs.
Proof.
  intros i s t ps qs Cs Ct Vp Vq E. unfold group_content in E.
  apply (split_unique nl) in E; try assumption. destruct E as [Es E]. split; [exact Es|].
  apply app_inv_head in E. inversion E as [E1]. clear E.
  apply (split_unique nl) in E1; try apply decimal_no_nl. destruct E1 as [_ E1].
  apply lines_injective; assumption.
Qed.

(* ---------- chains built by GetLengthLimitedID: a common view ---------- *)

Definition strong_collision (H256 H224 H3 H1 : bytes -> bytes) : Prop :=
  exists k, 11 <= k /\ (trunc_collision H256 k \/ trunc_collision H224 k \/ trunc_collision H3 k \/ trunc_collision H1 k).

(* prefix, suffix of the identities that go through GetLengthLimitedID with a chain limit *)
Definition chain_parts (i : ident) : option (bytes * bytes * bool) :=
  match i with
  | IdPolicy inb nft x => Some (policy_pfx inb, policy_text x, nft)
  | IdProfile inb nft name => Some (profile_pfx inb, name, nft)
  | IdEndpoint p f nft => Some (p, f, nft)
  | _ => None
  end.

Lemma nonempty_ne : forall s, nonempty s = true -> s <> [].
Proof. destruct s; simpl; congruence. Qed.

Lemma endpoint_in : forall p, existsb (beq p) endpoint_prefixes = true -> In p endpoint_prefixes.
Proof.
  intros p E. apply existsb_exists in E. destruct E as [q [I B]]. apply beq_eq in B. subst. exact I.
Qed.

Lemma chain_parts_spec : forall clamp H256 H224 H3 H1 i p s nft,
  chain_parts i = Some (p, s, nft) -> in_domain i = true ->
  model_name clamp H256 H224 H3 H1 i = gllid clamp H256 p s (max_chain nft) /\
  In p chain_prefixes /\ s <> [] /\ length p <= 10.
Proof.
  intros clamp H256 H224 H3 H1 i p s nft C D. destruct i; simpl in C; inversion C; subst; simpl in D; simpl.
  - split; [reflexivity|]. split; [apply policy_pfx_in|]. split; [apply policy_text_nonempty|]. destruct inbound; simpl; lia.
  - split; [reflexivity|]. split; [apply profile_pfx_in|]. split; [apply nonempty_ne; exact D|]. destruct inbound; simpl; lia.
  - apply andb_true_iff in D. destruct D as [D1 D2]. apply endpoint_in in D1.
    split; [reflexivity|]. split; [apply endpoint_pfx_in; exact D1|]. split; [apply nonempty_ne; exact D2|].
    unfold endpoint_prefixes in D1. simpl in D1.
    repeat (destruct D1 as [D1|D1]; [subst p; simpl; lia|]). contradiction.
Qed.

Lemma left_chars_chain : forall clamp p nft, length p <= 10 -> 11 <= left_chars clamp p (max_chain nft).
Proof.
  intros clamp p nft L. unfold left_chars, short_len, hash_len, max_chain. destruct clamp, nft; lia.
Qed.

(* same prefix and suffix => same identity (within the chain families) *)
Ltac kill_pfx :=
  match goal with
  | H : policy_pfx ?i = profile_pfx ?j |- _ => destruct i, j; vm_compute in H; discriminate H
  | H : profile_pfx ?i = policy_pfx ?j |- _ => destruct i, j; vm_compute in H; discriminate H
  | H : existsb (beq (policy_pfx ?i)) endpoint_prefixes && _ = true |- _ => destruct i; vm_compute in H; discriminate H
  | H : existsb (beq (profile_pfx ?i)) endpoint_prefixes && _ = true |- _ => destruct i; vm_compute in H; discriminate H
  end.

Lemma chain_parts_injective : forall a b p s nft,
  chain_parts a = Some (p, s, nft) -> chain_parts b = Some (p, s, nft) ->
  in_domain a = true -> in_domain b = true -> a = b.
Proof.
  intros a b p s nft Ca Cb Da Db.
  destruct a; simpl in Ca; try discriminate Ca; injection Ca as Pa Sa Na;
  destruct b; simpl in Cb; try discriminate Cb; injection Cb as Pb Sb Nb;
  subst; cbn [in_domain] in Da, Db; try (exfalso; kill_pfx).
  - apply policy_pfx_inj in Pb. apply policy_text_injective in Sb; auto. subst. reflexivity.
  - apply profile_pfx_inj in Pb. subst. reflexivity.
  - subst. reflexivity.
Qed.

Lemma not_group_pfx : forall a p s nft i, chain_parts a = Some (p, s, nft) -> in_domain a = true -> p <> group_pfx i.
Proof.
  intros a p s nft i C D. destruct a; simpl in C; try discriminate C; injection C as Pa Sa Na; subst; cbn [in_domain] in D.
  - destruct inbound, i; vm_compute; discriminate.
  - destruct inbound, i; vm_compute; discriminate.
  - apply andb_true_iff in D. destruct D as [D _]. apply endpoint_in in D.
    unfold endpoint_prefixes in D. simpl in D.
    repeat (destruct D as [D|D]; [subst; destruct i; vm_compute; discriminate|]). contradiction.
Qed.

Definition is_static (i : ident) : bool := match i with IdStaticChain _ => true | _ => false end.

(* the one clash between a fixed chain name and a built one: cali-arp-dispatch *)
Definition arp_clash (a b : ident) : Prop :=
  exists k nft, nth_error static_chains k = Some arp_dispatch /\
    ((a = IdStaticChain k /\ b = IdEndpoint pfx_arp iface_dispatch nft) \/
     (b = IdStaticChain k /\ a = IdEndpoint pfx_arp iface_dispatch nft)).

Section Meets.
  Variable clamp : bool.
  Variables H256 H224 H3 H1 : bytes -> bytes.
  Hypothesis HL224 : forall x, length (H224 x) = 38.
  Hypothesis HC224 : forall x, has colon (H224 x) = false.
  Notation name := (model_name clamp H256 H224 H3 H1).
  Notation coll := (strong_collision H256 H224 H3 H1).

  Lemma chain_chain : forall a b pa sa pb sb nft n,
    chain_parts a = Some (pa, sa, nft) -> chain_parts b = Some (pb, sb, nft) ->
    in_domain a = true -> in_domain b = true ->
    name a = Some n -> name b = Some n -> a = b \/ coll.
  Proof.
    intros a b pa sa pb sb nft n Ca Cb Da Db Ga Gb.
    destruct (chain_parts_spec clamp H256 H224 H3 H1 a _ _ _ Ca Da) as [Ma [Ia [Na La]]].
    destruct (chain_parts_spec clamp H256 H224 H3 H1 b _ _ _ Cb Db) as [Mb [Ib [Nb Lb]]].
    rewrite Ma in Ga. rewrite Mb in Gb.
    destruct (bytes_dec pa pb) as [E|NE].
    - subst pb. destruct (gllid_same_prefix _ _ _ _ _ _ _ Na Nb Ga Gb) as [E|C].
      + subst sb. left. eapply chain_parts_injective; eauto.
      + right. exists (left_chars clamp pa (max_chain nft)). split; [apply left_chars_chain; exact La|left; exact C].
    - exfalso. exact (families_disjoint _ _ _ _ _ _ _ _ _ _ Ia Ib NE Ga Gb eq_refl).
  Qed.

  Lemma chain_group : forall a p s nft i sel ps n,
    chain_parts a = Some (p, s, nft) -> in_domain a = true ->
    name a = Some n -> n <> group_chain H3 i sel ps.
  Proof.
    intros a p s nft i sel ps n Ca Da Ga.
    destruct (chain_parts_spec clamp H256 H224 H3 H1 a _ _ _ Ca Da) as [Ma [Ia _]]. rewrite Ma in Ga.
    eapply group_vs_gllid_disjoint; eauto. eapply not_group_pfx; eauto.
  Qed.

  Lemma group_group : forall i j s t ps qs,
    in_domain (IdGroup i s ps) = true -> in_domain (IdGroup j t qs) = true ->
    group_chain H3 i s ps = group_chain H3 j t qs ->
    IdGroup i s ps = IdGroup j t qs \/ coll.
  Proof.
    intros i j s t ps qs Da Db E. cbn [in_domain] in Da, Db.
    apply andb_true_iff in Da. destruct Da as [Sa Va]. apply negb_true_iff in Sa.
    apply andb_true_iff in Db. destruct Db as [Sb Vb]. apply negb_true_iff in Sb.
    apply group_chain_injective in E. destruct E as [Eij [C|C]].
    - subst j. apply group_content_injective in C; try assumption. destruct C; subst. left. reflexivity.
    - right. exists 20. split; [lia|]. right. right. left. exact C.
  Qed.

  Lemma raw_raw : forall p s max s' n,
    in_domain (IdRaw p s max) = true -> in_domain (IdRaw p s' max) = true ->
    gllid clamp H256 p s max = Some n -> gllid clamp H256 p s' max = Some n -> s = s' \/ coll.
  Proof.
    intros p s max s' n Da Db Ga Gb. cbn [in_domain] in Da, Db.
    apply andb_true_iff in Da. destruct Da as [Na La]. apply andb_true_iff in Db. destruct Db as [Nb _].
    apply Nat.leb_le in La.
    destruct (gllid_same_prefix _ _ _ _ _ _ _ (nonempty_ne _ Na) (nonempty_ne _ Nb) Ga Gb) as [E|C]; [left; exact E|].
    right. exists (left_chars clamp p max). split; [|left; exact C].
    unfold left_chars, short_len, hash_len. destruct clamp; lia.
  Qed.

  Lemma main_main : forall v v' a b,
    in_domain (IdMainSet v a) = true -> in_domain (IdMainSet v' b) = true ->
    main_set_name cali v (set_id H224 a) = main_set_name cali v' (set_id H224 b) ->
    IdMainSet v a = IdMainSet v' b \/ coll.
  Proof.
    intros v v' a b Da Db E. cbn [in_domain] in Da, Db.
    destruct a as [x|t c], b as [y|t' c']; cbn [set_id] in E.
    - apply Nat.leb_le in Da. apply Nat.leb_le in Db. apply main_set_injective in E.
      destruct E as [V [E|[L _]]]; [subst; left; reflexivity|lia].
    - exfalso. apply Nat.leb_le in Da. apply main_set_injective in E. destruct E as [_ [E|[L _]]]; [|lia].
      apply (f_equal (@length N)) in E. unfold make_unique_id in E. rewrite app_length in E. simpl in E. rewrite HL224 in E. lia.
    - exfalso. apply Nat.leb_le in Db. apply main_set_injective in E. destruct E as [_ [E|[_ [L _]]]]; [|lia].
      apply (f_equal (@length N)) in E. unfold make_unique_id in E. rewrite app_length in E. simpl in E. rewrite HL224 in E. lia.
    - apply andb_true_iff in Da. destruct Da as [Ca La]. apply negb_true_iff in Ca. apply Nat.leb_le in La.
      apply andb_true_iff in Db. destruct Db as [Cb Lb]. apply negb_true_iff in Cb. apply Nat.leb_le in Lb.
      apply main_set_hashed_injective in E; try assumption. destruct E as [V [T [C|C]]].
      + subst. left. reflexivity.
      + right. exists (24 - length t). split; [lia|]. right. left. exact C.
  Qed.


  Lemma nft_nft : forall v v' a b,
    in_domain (IdNftSet v a) = true -> in_domain (IdNftSet v' b) = true ->
    nft_set_name v (set_id H224 a) = nft_set_name v' (set_id H224 b) ->
    IdNftSet v a = IdNftSet v' b \/ coll.
  Proof.
    intros v v' a b Da Db E. cbn [in_domain] in Da, Db.
    destruct a as [x|t c], b as [y|t' c']; cbn [set_id] in E.
    - apply andb_true_iff in Da. destruct Da as [La Ca]. apply andb_true_iff in Db. destruct Db as [Lb Cb].
      apply Nat.leb_le in La. apply Nat.leb_le in Lb. apply negb_true_iff in Ca. apply negb_true_iff in Cb.
      apply nft_set_injective in E. destruct E as [V [E|[L _]]]; [|lia].
      rewrite (legalize_id x Ca), (legalize_id y Cb) in E. subst. left. reflexivity.
    - exfalso. apply andb_true_iff in Da. destruct Da as [La _]. apply Nat.leb_le in La.
      apply nft_set_injective in E. destruct E as [_ [E|[L _]]]; [|lia].
      apply (f_equal (@length N)) in E. rewrite !legalize_length in E. unfold make_unique_id in E.
      rewrite app_length in E. simpl in E. rewrite HL224 in E. lia.
    - exfalso. apply andb_true_iff in Db. destruct Db as [Lb _]. apply Nat.leb_le in Lb.
      apply nft_set_injective in E. destruct E as [_ [E|[_ [L _]]]]; [|lia].
      apply (f_equal (@length N)) in E. rewrite !legalize_length in E. unfold make_unique_id in E.
      rewrite app_length in E. simpl in E. rewrite HL224 in E. lia.
    - apply andb_true_iff in Da. destruct Da as [Da La]. apply andb_true_iff in Da. destruct Da as [Ca Sa].
      apply andb_true_iff in Db. destruct Db as [Db Lb]. apply andb_true_iff in Db. destruct Db as [Cb Sb].
      apply negb_true_iff in Ca. apply negb_true_iff in Cb. apply negb_true_iff in Sa. apply negb_true_iff in Sb.
      apply Nat.leb_le in La. apply Nat.leb_le in Lb.
      apply nft_set_hashed_injective in E; try assumption. destruct E as [V [T [C|C]]].
      + subst. left. reflexivity.
      + right. exists (24 - length t). split; [lia|]. right. left. exact C.
  Qed.

  Lemma nflog_nflog : forall a b n,
    maybe_hash clamp H256 a = Some n -> maybe_hash clamp H256 b = Some n -> a = b \/ coll.
  Proof.
    intros a b n Ga Gb. destruct (nflog_injective _ _ _ _ _ Ga Gb) as [E|[_ [_ [NE E]]]]; [left; exact E|].
    right. exists 41. split; [lia|]. left. exists a, b. split; assumption.
  Qed.

  Theorem apart_core : forall a b n,
    is_static a = false -> is_static b = false ->
    must_differ a b = true -> name a = Some n -> name b = Some n -> coll.
  Proof.
    intros a b n NSa NSb M Ga Gb. unfold must_differ in M.
    apply andb_true_iff in M. destruct M as [M NE]. apply andb_true_iff in M. destruct M as [M Db].
    apply andb_true_iff in M. destruct M as [S Da]. apply negb_true_iff in NE.
    assert (AB : a = b -> coll) by (intro; subst; rewrite ident_eqb_refl in NE; discriminate).
    destruct a, b; try discriminate NSa; try discriminate NSb; unfold same_space in S; cbn [space_of] in S; try discriminate S;
      try (apply eqb_prop in S; subst;
           match type of Ga with name ?a = _ => match type of Gb with name ?b = _ =>
             destruct (chain_chain a b _ _ _ _ _ _ eq_refl eq_refl Da Db Ga Gb) as [E|C]; [exact (AB E)|exact C] end end);
      try (exfalso; simpl in Gb; injection Gb as Gb; subst n;
           match type of Ga with name ?a = _ => exact (chain_group a _ _ _ _ _ _ _ eq_refl Da Ga eq_refl) end);
      try (exfalso; simpl in Ga; injection Ga as Ga; subst n;
           match type of Gb with name ?b = _ => exact (chain_group b _ _ _ _ _ _ _ eq_refl Db Gb eq_refl) end).
    - (* raw / raw *)
      apply andb_true_iff in S. destruct S as [Sp Sm]. apply beq_eq in Sp. apply Nat.eqb_eq in Sm. subst.
      simpl in Ga, Gb. destruct (raw_raw _ _ _ _ _ Da Db Ga Gb) as [E|C]; [subst; exact (AB eq_refl)|exact C].
    - (* group / group *)
      simpl in Ga, Gb. injection Ga as Ga. injection Gb as Gb. subst n.
      destruct (group_group _ _ _ _ _ _ Da Db (eq_sym Gb)) as [E|C]; [exact (AB E)|exact C].
    - (* main / main *)
      simpl in Ga, Gb. injection Ga as Ga. injection Gb as Gb. subst n.
      destruct (main_main _ _ _ _ Da Db (eq_sym Gb)) as [E|C]; [exact (AB E)|exact C].
    - (* main / temp *)
      exfalso. simpl in Ga, Gb. injection Ga as Ga. injection Gb as Gb. subst n. symmetry in Gb.
      exact (main_temp_disjoint _ _ _ _ Gb).
    - (* temp / main *)
      exfalso. simpl in Ga, Gb. injection Ga as Ga. injection Gb as Gb. subst n.
      exact (main_temp_disjoint _ _ _ _ Gb).
    - (* temp / temp *)
      cbn [in_domain] in Da, Db. apply N.ltb_lt in Da. apply N.ltb_lt in Db.
      simpl in Ga, Gb. injection Ga as Ga. injection Gb as Gb. subst n.
      apply temp_set_injective in Gb; try assumption. destruct Gb; subst. exact (AB eq_refl).
    - (* text / text *)
      cbn [in_domain] in Da, Db. simpl in Ga, Gb. injection Ga as Ga. injection Gb as Gb. subst n.
      apply policy_text_injective in Gb; try assumption. subst. exact (AB eq_refl).
    - (* unique / unique *)
      cbn [in_domain] in Da, Db. apply negb_true_iff in Da. apply negb_true_iff in Db.
      simpl in Ga, Gb. injection Ga as Ga. injection Gb as Gb. subst n.
      apply make_unique_id_injective in Gb; try assumption. destruct Gb as [T [C|[x [y [NExy E]]]]].
      + subst. exact (AB eq_refl).
      + exists 11. split; [lia|]. right. left. exists x, y. split; [exact NExy|]. rewrite E. reflexivity.
    - (* nft set / nft set *)
      simpl in Ga, Gb. injection Ga as Ga. injection Gb as Gb. subst n.
      destruct (nft_nft _ _ _ _ Da Db (eq_sym Gb)) as [E|C]; [exact (AB E)|exact C].
    - (* nflog / nflog *)
      simpl in Ga, Gb. destruct (nflog_nflog _ _ _ Ga Gb) as [E|C]; [subst; exact (AB eq_refl)|exact C].
    - (* nflog rule / nflog rule *)
      simpl in Ga, Gb. cbn [in_domain] in Da, Db.
      repeat (apply andb_true_iff in Da; destruct Da as [Da ?]). repeat (apply andb_true_iff in Db; destruct Db as [Db ?]).
      repeat match goal with X : N.ltb _ _ = true |- _ => apply N.ltb_lt in X end.
      destruct (nflog_nflog _ _ _ Ga Gb) as [E|C]; [|exact C].
      apply nflog_rule_text_injective in E; try assumption; try lia.
      destruct E as [? [? [? [? ?]]]]. subst. exact (AB eq_refl).
    - (* veth / veth *)
      cbn [in_domain] in Da, Db. apply negb_true_iff in Da. apply negb_true_iff in Db.
      simpl in Ga, Gb. injection Ga as Ga. injection Gb as Gb. subst n.
      destruct (veth_injective _ _ _ _ _ Db Da Gb) as [[E1 E2]|C]; [subst; exact (AB eq_refl)|].
      exists 11. split; [lia|]. right. right. right. exact C.
    - (* VM handle / VM handle *)
      simpl in Ga, Gb. cbn [in_domain] in Da, Db.
      repeat (apply andb_true_iff in Da; destruct Da as [Da ?]). repeat (apply andb_true_iff in Db; destruct Db as [Db ?]).
      repeat match goal with X : negb _ = true |- _ => apply negb_true_iff in X end.
      repeat match goal with X : (_ <=? _) = true |- _ => apply Nat.leb_le in X end.
      apply nonempty_ne in Da. apply nonempty_ne in Db.
      match type of Ga with vm_handle_id _ _ ?n1 ?s1 ?v1 = _ => match type of Gb with vm_handle_id _ _ ?n2 ?s2 ?v2 = _ =>
        pose proof (vm_handle_injective clamp H256 n1 s1 v1 n2 s2 v2 n) as R end end.
      repeat match type of R with ?P -> _ => let X := fresh in assert (X : P) by assumption; specialize (R X) end.
      destruct R as [[E1 [E2 E3]]|[k [Lk C]]].
      + subst. exact (AB eq_refl).
      + exists k. split; [exact Lk|]. left. exact C.
  Qed.
  (* a fixed chain name against a built one *)
  Lemma static_vs_built : forall k b n,
    is_static b = false -> same_space (IdStaticChain k) b = true -> in_domain b = true ->
    nth_error static_chains k = Some n -> name b = Some n ->
    exists nft, n = arp_dispatch /\ b = IdEndpoint pfx_arp iface_dispatch nft.
  Proof.
    intros k b n NS S Db Gk Gb. pose proof (nth_error_In _ _ Gk) as Is.
    destruct b; try discriminate NS; unfold same_space in S; cbn [space_of] in S; try discriminate S.
    - (* policy *) exfalso. simpl in Gb. unfold policy_chain in Gb.
      destruct (gllid_prefix _ _ _ _ _ _ Gb) as [x [E _]]. symmetry in E.
      destruct (static_apart _ _ _ Is (policy_pfx_in inbound) E) as [P _]. destruct inbound; vm_compute in P; discriminate P.
    - (* profile *) exfalso. simpl in Gb. unfold profile_chain in Gb.
      destruct (gllid_prefix _ _ _ _ _ _ Gb) as [x [E _]]. symmetry in E.
      destruct (static_apart _ _ _ Is (profile_pfx_in inbound) E) as [P _]. destruct inbound; vm_compute in P; discriminate P.
    - (* endpoint *) cbn [in_domain] in Db. apply andb_true_iff in Db. destruct Db as [D1 D2].
      apply endpoint_in in D1. apply nonempty_ne in D2. simpl in Gb. unfold endpoint_chain in Gb.
      destruct (shortened_dec clamp pfx iface (max_chain nft)) as [Sh|Sh].
      + exfalso. destruct (gllid_short _ _ _ _ _ _ Gb Sh) as [_ [E _]]. symmetry in E.
        destruct (static_apart _ _ _ Is (endpoint_pfx_in _ D1) E) as [_ [_ X]]. vm_compute in X. discriminate X.
      + pose proof (gllid_long _ _ _ _ _ _ Gb Sh) as E. rewrite (eff_id _ D2) in E. symmetry in E.
        destruct (static_apart _ _ _ Is (endpoint_pfx_in _ D1) E) as [P [Sn X]]. subst. exists nft. auto.
    - (* group *) exfalso. simpl in Gb. injection Gb as Gb. unfold group_chain in Gb.
      destruct (static_apart _ _ _ Is (group_pfx_in inbound) Gb) as [P _]. destruct inbound; vm_compute in P; discriminate P.
  Qed.

  Lemma same_space_sym_static : forall a k, same_space a (IdStaticChain k) = same_space (IdStaticChain k) a.
  Proof. destruct a; reflexivity. Qed.

  Theorem apart_mod_hash : forall a b n,
    must_differ a b = true -> name a = Some n -> name b = Some n -> coll \/ arp_clash a b.
  Proof.
    intros a b n M Ga Gb.
    destruct (is_static a) eqn:SA; destruct (is_static b) eqn:SB.
    - (* two fixed names *) exfalso. destruct a; try discriminate SA. destruct b; try discriminate SB.
      simpl in Ga, Gb. pose proof (static_index_inj _ _ _ Ga Gb). subst.
      unfold must_differ in M. simpl in M. rewrite Nat.eqb_refl in M. rewrite !andb_false_r in M. discriminate M.
    - destruct a; try discriminate SA. unfold must_differ in M.
      apply andb_true_iff in M. destruct M as [M _]. apply andb_true_iff in M. destruct M as [M Db].
      apply andb_true_iff in M. destruct M as [S _]. simpl in Ga.
      destruct (static_vs_built _ _ _ SB S Db Ga Gb) as [nft [En Eb]]. subst. right. exists k, nft. split; [exact Ga|left; split; reflexivity].
    - destruct b; try discriminate SB. unfold must_differ in M.
      apply andb_true_iff in M. destruct M as [M _]. apply andb_true_iff in M. destruct M as [M _].
      apply andb_true_iff in M. destruct M as [S Da]. simpl in Gb. rewrite same_space_sym_static in S.
      destruct (static_vs_built _ _ _ SA S Da Gb Ga) as [nft [En Eb]]. subst. right. exists k, nft. split; [exact Gb|right; split; reflexivity].
    - left. exact (apart_core a b n SA SB M Ga Gb).
  Qed.
End Meets.

(* ---------- the specification oracle accepts what the model produces ---------- *)
Section Oracle.
  Variable clamp : bool.
  Variables H256 H224 H3 H1 : bytes -> bytes.
  Hypothesis HL224 : forall x, length (H224 x) = 38.
  Hypothesis HC224 : forall x, has colon (H224 x) = false.
  Notation name := (model_name clamp H256 H224 H3 H1).
  Definition model_obs (i : ident) : obs := {| o_id := i; o_name := name i; o_again := name i |}.

  Lemma model_fits : forall i n m, name i = Some n -> limit i = Some m -> length n <= m.
  Proof.
    intros i n m G L. destruct i; simpl in L; inversion L; subst; clear L; simpl in G.
    - eapply gllid_fits; eauto.
    - unfold policy_chain in G. apply gllid_fits in G. destruct nft; exact G.
    - unfold profile_chain in G. apply gllid_fits in G. destruct nft; exact G.
    - unfold endpoint_chain in G. apply gllid_fits in G. destruct nft; exact G.
    - inversion G. apply group_chain_fits.
    - inversion G. apply main_set_fits.
    - inversion G. apply temp_set_fits.
    - inversion G. pose proof (nft_set_fits v6 (set_id H224 src)). unfold limit_chain_nft. lia.
    - apply nflog_fits in G. exact G.
    - apply nflog_fits in G. exact G.
    - inversion G. apply veth_fits.
    - eapply vm_handle_fits; eauto.
    - apply nth_error_In in G. apply static_fits. exact G.
  Qed.

  Lemma model_pair_ok : ~ strong_collision H256 H224 H3 H1 -> forall a b, ~ arp_clash a b ->
    ok_pair (model_obs a) (model_obs b) = true.
  Proof.
    intros NC a b NA. unfold ok_pair, model_obs. simpl.
    destruct (must_differ a b) eqn:M; [|reflexivity].
    destruct (name a) as [x|] eqn:Ga; [|reflexivity]. destruct (name b) as [y|] eqn:Gb; [|reflexivity].
    destruct (beq x y) eqn:E; [|reflexivity]. apply beq_eq in E. subst y.
    exfalso. destruct (apart_mod_hash clamp H256 H224 H3 H1 HL224 HC224 a b x M Ga Gb); tauto.
  Qed.

  Lemma oname_eqb_refl : forall x, oname_eqb x x = true.
  Proof. destruct x; simpl; [apply beq_refl|reflexivity]. Qed.

  Lemma ok_apart_pairs : forall l,
    (forall a b, In a l -> In b l -> ok_pair (model_obs a) (model_obs b) = true) -> ok_apart (map model_obs l) = true.
  Proof.
    induction l as [|a l IH]; intro P; simpl; [reflexivity|]. apply andb_true_iff. split.
    - apply forallb_forall. intros o I. apply in_map_iff in I. destruct I as [i [E I]]. subst o.
      apply P; [left; reflexivity|right; exact I].
    - apply IH. intros x y Ix Iy. apply P; right; assumption.
  Qed.

  (* every list of identities for which the model returns names is accepted by the oracle, unless two different
     texts have the same truncated digest or the list holds both sides of the cali-arp-dispatch clash *)
  Theorem oracle_accepts_model : ~ strong_collision H256 H224 H3 H1 -> forall l,
    (forall i, In i l -> name i <> None) ->
    (forall a b, In a l -> In b l -> ~ arp_clash a b) ->
    ok_case_obs (map model_obs l) = true.
  Proof.
    intros NC l T NA. unfold ok_case_obs. apply andb_true_iff. split; [apply andb_true_iff; split|].
    - apply forallb_forall. intros o I. apply in_map_iff in I. destruct I as [i [E I]]. subst o.
      unfold ok_fit, model_obs. simpl. destruct (name i) as [n|] eqn:G; [|exfalso; exact (T i I G)].
      destruct (limit i) as [m|] eqn:L; [|reflexivity]. apply Nat.leb_le. eapply model_fits; eauto.
    - apply forallb_forall. intros o I. apply in_map_iff in I. destruct I as [i [E I]]. subst o.
      unfold ok_same, model_obs. simpl. apply oname_eqb_refl.
    - apply ok_apart_pairs. intros a b Ia Ib. apply model_pair_ok; [exact NC|apply NA; assumption].
  Qed.
End Oracle.

(* ---------- policy groups: the chain name is a function of the whole identity, and only of it ---------- *)

Theorem group_name_injective : forall H3 i j s t ps qs,
  has nl s = false -> has nl t = false ->
  forallb valid_pid ps = true -> forallb valid_pid qs = true ->
  group_chain H3 i s ps = group_chain H3 j t qs ->
  (i = j /\ s = t /\ ps = qs) \/ trunc_collision H3 20.
Proof.
  intros H3 i j s t ps qs Cs Ct Vp Vq E. apply group_chain_injective in E. destruct E as [Eij [C|C]]; [|right; exact C].
  subst j. apply group_content_injective in C; try assumption. destruct C. left. auto.
Qed.

(* naming a sequence of groups one after the other (what one Felix process does): the name given to a group
   does not depend on the groups named before it *)
Definition group_id : Type := (bool * bytes * list policy_id)%type.
Definition name_group (H3 : bytes -> bytes) (g : group_id) : bytes :=
  match g with (i, s, ps) => group_chain H3 i s ps end.
Definition name_history (H3 : bytes -> bytes) (h : list group_id) : list bytes := map (name_group H3) h.

Theorem group_name_history_independent : forall H3 h1 h2 g,
  nth_error (name_history H3 (h1 ++ [g])) (length h1) = Some (name_group H3 g) /\
  nth_error (name_history H3 (h1 ++ [g])) (length h1) = nth_error (name_history H3 (h2 ++ [g])) (length h2).
Proof.
  assert (K : forall H3 h g, nth_error (name_history H3 (h ++ [g])) (length h) = Some (name_group H3 g)).
  { intros H3 h g. unfold name_history. rewrite map_app. rewrite nth_error_app2 by (rewrite map_length; lia).
    rewrite map_length, Nat.sub_diag. reflexivity. }
  intros. split; [apply K|]. rewrite !K. reflexivity.
Qed.
