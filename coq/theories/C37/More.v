(* C37 — the other shorteners built on the same pieces: nftables set names (LegalizeSetName),
   NFLOG prefixes (maybeHash / CalculateNFLOGPrefixStr), host-side veth names, VM IPAM handle IDs. *)
From Coq Require Import List NArith Arith Bool Lia.
From Verif.C37 Require Import Model Spec Proofs Families.
From Coq Require String.
Import String.StringSyntax.
Import ListNotations.

(* ---------- LegalizeSetName ---------- *)

Lemma legalize_app : forall a b, legalize (a ++ b) = legalize a ++ legalize b.
Proof. intros. unfold legalize. apply map_app. Qed.

Lemma legalize_firstn : forall k a, legalize (firstn k a) = firstn k (legalize a).
Proof. intros. unfold legalize. symmetry. apply firstn_map. Qed.

Lemma legalize_length : forall a, length (legalize a) = length a.
Proof. intros. unfold legalize. apply map_length. Qed.

Lemma legalize_id : forall s, has colon s = false -> legalize s = s.
Proof.
  induction s as [|c s IH]; intro Hc; [reflexivity|].
  unfold has in Hc. cbn [existsb] in Hc. apply orb_false_iff in Hc. destruct Hc as [Hc Hs].
  unfold legalize. cbn [map]. fold (legalize s). rewrite (IH Hs). rewrite N.eqb_sym in Hc. rewrite Hc. reflexivity.
Qed.

Lemma nft_set_name_eq : forall v6 id, nft_set_name v6 id = main_set_name cali v6 (legalize id).
Proof.
  intros. unfold nft_set_name, main_set_name. rewrite legalize_firstn, legalize_app.
  f_equal. f_equal. destruct v6; vm_compute; reflexivity.
Qed.

Theorem nft_set_fits : forall v6 id, length (nft_set_name v6 id) <= 31.
Proof. intros. rewrite nft_set_name_eq. apply main_set_fits. Qed.

Theorem nft_set_injective : forall v6 v6' a b,
  nft_set_name v6 a = nft_set_name v6' b ->
  v6 = v6' /\ (legalize a = legalize b \/
               (25 <= length a /\ 25 <= length b /\ firstn 25 (legalize a) = firstn 25 (legalize b))).
Proof.
  intros v6 v6' a b E. rewrite !nft_set_name_eq in E. apply main_set_injective in E.
  rewrite !legalize_length in E. exact E.
Qed.

(* the replacement is not injective on arbitrary IDs *)
Lemma nft_set_colon_dash_clash :
  exists a b, a <> b /\ length a <= 24 /\ length b <= 24 /\ nft_set_name false a = nft_set_name false b.
Proof.
  exists (bs "a:b"), (bs "a-b"). split; [vm_compute; discriminate|]. split; [vm_compute; lia|]. split; [vm_compute; lia|].
  vm_compute. reflexivity.
Qed.

(* IDs of the shape tag ++ sep ++ digest *)
Lemma main_set_sep_injective : forall sep v6 v6' t t' h h',
  has sep t = false -> has sep t' = false -> length t <= 9 -> length t' <= 9 ->
  main_set_name cali v6 (t ++ sep :: h) = main_set_name cali v6' (t' ++ sep :: h') ->
  v6 = v6' /\ t = t' /\ firstn (24 - length t) h = firstn (24 - length t) h'.
Proof.
  intros sep v6 v6' t t' h h' Ct Ct' Lt Lt' E.
  apply main_set_injective in E. destruct E as [V E]. split; [exact V|].
  assert (F : firstn 25 (t ++ sep :: h) = firstn 25 (t' ++ sep :: h')).
  { destruct E as [E|[_ [_ E]]]; [rewrite E; reflexivity|exact E]. }
  rewrite !firstn_app_cons in F by lia.
  apply split_unique in F; try assumption. destruct F as [Et F]. subst t'. split; [reflexivity|].
  replace (24 - length t) with (25 - length t - 1) by lia. exact F.
Qed.

Theorem nft_set_hashed_injective : forall H224 v6 v6' t t' c c',
  (forall x, has colon (H224 x) = false) ->
  has colon t = false -> has colon t' = false -> has dash t = false -> has dash t' = false ->
  length t <= 9 -> length t' <= 9 ->
  nft_set_name v6 (make_unique_id H224 t c) = nft_set_name v6' (make_unique_id H224 t' c') ->
  v6 = v6' /\ t = t' /\ (c = c' \/ trunc_collision H224 (24 - length t)).
Proof.
  intros H224 v6 v6' t t' c c' HC Ct Ct' Dt Dt' Lt Lt' E.
  rewrite !nft_set_name_eq in E. unfold make_unique_id in E. rewrite !legalize_app in E.
  rewrite (legalize_id t Ct), (legalize_id t' Ct') in E.
  assert (L : forall x, legalize (colon :: x) = dash :: legalize x) by (intro; reflexivity).
  rewrite !L in E. rewrite !legalize_id in E by apply HC.
  apply main_set_sep_injective in E; try assumption. destruct E as [V [T F]]. subst t'.
  split; [exact V|]. split; [reflexivity|].
  destruct (bytes_dec c c') as [X|NE]; [left; exact X|]. right.
  exists (t ++ colon :: c), (t ++ colon :: c'). split; [|exact F].
  intro X. apply app_inv_head in X. inversion X. contradiction.
Qed.

(* ---------- NFLOG prefixes ---------- *)

Lemma app_inj_len : forall (a c b d : bytes), length a = length c -> a ++ b = c ++ d -> a = c /\ b = d.
Proof.
  induction a as [|x a IH]; destruct c as [|y c]; simpl; intros b d L E; try discriminate L.
  - auto.
  - inversion E. subst. destruct (IH c b d) as [A B]; [lia|assumption|]. subst. auto.
Qed.

Lemma gllid_nflog : forall clamp H p h,
  nflog_max <= length p -> gllid clamp H [] p nflog_hash_len = Some h ->
  h = marker :: firstn 41 (H p) /\ length h = 42.
Proof.
  intros clamp H p h L G. unfold nflog_max, nflog_hash_len in *.
  assert (Ne : p <> []) by (destruct p; simpl in L; [lia|discriminate]).
  assert (S : shortened clamp [] p 42).
  { unfold shortened, must_shorten. rewrite (eff_id p Ne). simpl length.
    replace (42 <? 0 + length p) with true; [reflexivity|]. symmetry. apply Nat.ltb_lt. lia. }
  destruct (gllid_short _ _ _ _ _ _ G S) as [_ [E Len]].
  assert (LC : left_chars clamp [] 42 = 41).
  { unfold left_chars, short_len, hash_len. destruct clamp; simpl; reflexivity. }
  rewrite LC in *. rewrite (eff_id p Ne) in *. cbn [app] in E. split; [exact E|]. rewrite E. cbn [length]. rewrite Len. reflexivity.
Qed.

Lemma maybe_hash_short : forall clamp H p, length p < nflog_max -> maybe_hash clamp H p = Some p.
Proof. intros. unfold maybe_hash. replace (nflog_max <=? length p) with false; [reflexivity|]. symmetry. apply Nat.leb_gt. assumption. Qed.

Lemma maybe_hash_long : forall clamp H p n, nflog_max <= length p -> maybe_hash clamp H p = Some n ->
  n = firstn nflog_keep p ++ (marker :: firstn 41 (H p)) ++ marker :: skipn (length p - nflog_keep) p /\ length n = 63.
Proof.
  intros clamp H p n L G. unfold maybe_hash in G.
  replace (nflog_max <=? length p) with true in G by (symmetry; apply Nat.leb_le; exact L).
  destruct (gllid clamp H [] p nflog_hash_len) as [h|] eqn:Gh; [|discriminate].
  destruct (gllid_nflog _ _ _ _ L Gh) as [Eh Lh].
  assert (LL : length (firstn nflog_keep p ++ h ++ marker :: skipn (length p - nflog_keep) p) = 63).
  { rewrite app_length, app_length, firstn_length. change (length (marker :: ?x)) with (S (length x)).
    rewrite Lh, skipn_length. unfold nflog_max, nflog_keep in *. lia. }
  assert (En : n = firstn nflog_keep p ++ h ++ marker :: skipn (length p - nflog_keep) p) by congruence.
  rewrite <- Eh. rewrite En. split; [reflexivity|exact LL].
Qed.

Theorem nflog_fits : forall clamp H p n, maybe_hash clamp H p = Some n -> length n <= 63.
Proof.
  intros clamp H p n G. destruct (le_lt_dec nflog_max (length p)) as [L|L].
  - destruct (maybe_hash_long _ _ _ _ L G) as [_ E]. lia.
  - rewrite (maybe_hash_short _ _ _ L) in G. inversion G. subst. unfold nflog_max in L. lia.
Qed.

Theorem nflog_injective : forall clamp H a b n,
  maybe_hash clamp H a = Some n -> maybe_hash clamp H b = Some n ->
  a = b \/ (63 <= length a /\ 63 <= length b /\ a <> b /\ firstn 41 (H a) = firstn 41 (H b)).
Proof.
  intros clamp H a b n Ga Gb.
  destruct (le_lt_dec nflog_max (length a)) as [La|La]; destruct (le_lt_dec nflog_max (length b)) as [Lb|Lb].
  - destruct (bytes_dec a b) as [E|NE]; [left; exact E|]. right.
    destruct (maybe_hash_long _ _ _ _ La Ga) as [Ea _]. destruct (maybe_hash_long _ _ _ _ Lb Gb) as [Eb _].
    unfold nflog_max in *. split; [lia|]. split; [lia|]. split; [exact NE|].
    rewrite Ea in Eb.
    remember (firstn 41 (H a)) as fa. remember (firstn 41 (H b)) as fb.
    assert (K : length (firstn nflog_keep a) = length (firstn nflog_keep b)).
    { rewrite !firstn_length. unfold nflog_keep. lia. }
    apply (app_inj_len _ _ _ _ K) in Eb. destruct Eb as [_ Eb]. rewrite <- !app_comm_cons in Eb. injection Eb as E1.
    assert (K2 : length fa = length fb).
    { pose proof (f_equal (@length N) E1) as EL. rewrite !app_length in EL. change (length (marker :: ?x)) with (S (length x)) in EL.
      rewrite !skipn_length in EL. unfold nflog_keep in EL. lia. }
    apply (app_inj_len _ _ _ _ K2) in E1. tauto.
  - exfalso. destruct (maybe_hash_long _ _ _ _ La Ga) as [_ E]. rewrite (maybe_hash_short _ _ _ Lb) in Gb.
    inversion Gb. subst. unfold nflog_max in *. lia.
  - exfalso. destruct (maybe_hash_long _ _ _ _ Lb Gb) as [_ E]. rewrite (maybe_hash_short _ _ _ La) in Ga.
    inversion Ga. subst. unfold nflog_max in *. lia.
  - left. rewrite (maybe_hash_short _ _ _ La) in Ga. rewrite (maybe_hash_short _ _ _ Lb) in Gb. congruence.
Qed.

Lemma dec_rev_digits : forall c fuel n, (c < 48 \/ 57 < c)%N -> has c (dec_rev fuel n) = false.
Proof.
  intros c fuel. induction fuel as [|f IH]; intros n R; cbn [dec_rev]; [reflexivity|].
  destruct (N.ltb n 10) eqn:E.
  - apply N.ltb_lt in E. unfold has. cbn [existsb]. rewrite orb_false_r. apply N.eqb_neq. lia.
  - unfold has in *. cbn [existsb]. rewrite (IH _ R), orb_false_r. apply N.eqb_neq.
    assert (T : (10 <> 0)%N) by lia. pose proof (N.mod_lt n 10 T) as M. generalize dependent (n mod 10)%N. intros. lia.
Qed.

Lemma has_rev' : forall c l, has c (rev l) = has c l.
Proof.
  intros c l. induction l as [|x l IH]; simpl; [reflexivity|].
  rewrite has_app, IH. unfold has. simpl. rewrite orb_false_r. apply orb_comm.
Qed.

Lemma decimal_digits : forall c n, (c < 48 \/ 57 < c)%N -> has c (decimal n) = false.
Proof. intros. unfold decimal. rewrite has_rev'. apply dec_rev_digits. assumption. Qed.

Theorem nflog_rule_text_injective : forall a o d i x a' o' d' i' x',
  (i < 18446744073709551616)%N -> (i' < 18446744073709551616)%N ->
  valid_pid x = true -> valid_pid x' = true ->
  nflog_rule_text a o d i x = nflog_rule_text a' o' d' i' x' ->
  a = a' /\ o = o' /\ d = d' /\ i = i' /\ x = x'.
Proof.
  intros a o d i x a' o' d' i' x' Bi Bi' V V' E. unfold nflog_rule_text in E.
  injection E as Ea Eo Ed E.
  apply (split_unique bar) in E; try (apply decimal_digits; right; vm_compute; reflexivity).
  destruct E as [Ei Et]. apply decimal_injective in Ei; try assumption.
  apply policy_text_injective in Et; try assumption. tauto.
Qed.

(* ---------- veth names ---------- *)

Theorem veth_fits : forall H1 ns pod, length (veth_name H1 ns pod) <= 15.
Proof. intros. unfold veth_name. rewrite app_length, firstn_length. change (length cali) with 4. lia. Qed.

Theorem veth_injective : forall H1 ns pod ns' pod',
  has dot ns = false -> has dot ns' = false ->
  veth_name H1 ns pod = veth_name H1 ns' pod' ->
  (ns = ns' /\ pod = pod') \/ trunc_collision H1 11.
Proof.
  intros H1 ns pod ns' pod' D D' E. unfold veth_name in E. apply app_inv_head in E.
  destruct (bytes_dec (ns ++ dot :: pod) (ns' ++ dot :: pod')) as [X|NE].
  - left. apply split_unique in X; assumption.
  - right. eexists _, _. split; [exact NE|exact E].
Qed.

(* ---------- VM IPAM handle IDs ---------- *)

Theorem vm_handle_fits : forall clamp H net ns vm n, vm_handle_id clamp H net ns vm = Some n -> length n <= 128.
Proof. intros clamp H net ns vm n G. unfold vm_handle_id in G. eapply gllid_fits; eauto. Qed.

Theorem vm_handle_total : forall H net ns vm,
  (forall x, length (H x) = hash_len) -> length net <= 120 -> exists n, vm_handle_id true H net ns vm = Some n.
Proof.
  intros H net ns vm HL L. unfold vm_handle_id. apply gllid_total_clamped; [exact HL|].
  rewrite app_length. change (length t_vmi) with 5. destruct net; [change (length default_network) with 15; lia|lia].
Qed.

Theorem vm_handle_injective : forall clamp H net ns vm net' ns' vm' n,
  net <> [] -> net' <> [] -> has dot net = false -> has dot net' = false ->
  length net <= 60 -> length net' <= 60 -> has dot ns = false -> has dot ns' = false ->
  vm_handle_id clamp H net ns vm = Some n -> vm_handle_id clamp H net' ns' vm' = Some n ->
  (net = net' /\ ns = ns' /\ vm = vm') \/ exists k, 11 <= k /\ trunc_collision H k.
Proof.
  intros clamp H net ns vm net' ns' vm' n Ne Ne' Dn Dn' Ln Ln' Ds Ds' G G'.
  unfold vm_handle_id in G, G'.
  destruct net as [|c net]; [congruence|]. destruct net' as [|c' net']; [congruence|].
  remember (c :: net) as nt. remember (c' :: net') as nt'.
  destruct (gllid_prefix _ _ _ _ _ _ G) as [x [Ex _]]. destruct (gllid_prefix _ _ _ _ _ _ G') as [y [Ey _]].
  assert (En : nt = nt').
  { rewrite Ex in Ey. rewrite <- !app_assoc in Ey. unfold t_vmi in Ey. rewrite <- !app_comm_cons in Ey.
    apply (split_unique dot) in Ey; tauto. }
  subst nt'. rewrite <- En in *. clear En.
  assert (S1 : ns ++ dot :: vm <> []) by (destruct ns; discriminate).
  assert (S2 : ns' ++ dot :: vm' <> []) by (destruct ns'; discriminate).
  destruct (gllid_same_prefix _ _ _ _ _ _ _ S1 S2 G G') as [E|C].
  - left. apply split_unique in E; try assumption. tauto.
  - right. eexists. split; [|exact C].
    unfold left_chars, short_len, hash_len. rewrite app_length. change (length t_vmi) with 5. destruct clamp; lia.
Qed.

(* outside the domain: a network name containing ".vmi." style dots is ambiguous with the namespace *)
Lemma vm_handle_dotted_network_clash : forall clamp H,
  exists net ns vm net' ns' vm', (net, ns, vm) <> (net', ns', vm') /\ net <> [] /\ net' <> [] /\
    has dot ns = false /\ has dot ns' = false /\
    vm_handle_id clamp H net ns vm = vm_handle_id clamp H net' ns' vm' /\ vm_handle_id clamp H net ns vm <> None.
Proof.
  intros clamp H. exists (bs "a"), (bs "vmi"), (bs "b.c"), (bs "a.vmi"), (bs "b"), (bs "c").
  split; [vm_compute; discriminate|]. split; [vm_compute; discriminate|]. split; [vm_compute; discriminate|].
  split; [vm_compute; reflexivity|]. split; [vm_compute; reflexivity|].
  destruct clamp; vm_compute; split; congruence.
Qed.
