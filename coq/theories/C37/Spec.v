(* C37 — specification level.  What the property says about the names, independent of how the
   code builds them:
     (fit)    every produced name is no longer than the kernel limit of its kind of object;
     (same)   asking twice for the name of one identity gives the same name;
     (apart)  two different identities that live in the same kernel namespace and are inside
              the domain (identities that can reach the name builders) get different names.
   `ok_case` is the boolean oracle applied to the implementation's own outputs. *)
From Coq Require Import List NArith Arith Bool.
From Verif.C37 Require Import Model.
Import ListNotations.

(* ---------- kernel limits ---------- *)
Definition limit_chain_iptables : nat := 28.    (* XT_EXTENSION_MAXNAMELEN - 1 = iptables.MaxChainNameLength *)
Definition limit_chain_nft      : nat := 256.   (* NFT_NAME_MAXLEN = knftables.NameLengthMax *)
Definition limit_ipset          : nat := 31.    (* IPSET_MAXNAMELEN - 1 *)
Definition limit_nflog          : nat := 63.    (* NFLOG prefix: 64 bytes including the terminator *)
Definition limit_ifname         : nat := 15.    (* IFNAMSIZ - 1 *)
Definition limit_handle         : nat := 128.   (* vmipam: "max length 128" for IPAM handle IDs *)

Definition limit (i : ident) : option nat :=
  match i with
  | IdRaw _ _ max => Some max
  | IdPolicy _ nft _ | IdProfile _ nft _ | IdEndpoint _ _ nft =>
      Some (if nft then limit_chain_nft else limit_chain_iptables)
  | IdGroup _ _ _ => Some limit_chain_iptables        (* group chains use the iptables size in both modes *)
  | IdMainSet _ _ | IdTempSet _ _ => Some limit_ipset
  | IdPolText _ | IdUnique _ _ => None                (* intermediate texts, not kernel names *)
  | IdNftSet _ _ => Some limit_chain_nft              (* nftables set names share NFT_NAME_MAXLEN *)
  | IdNflog _ | IdNflogRule _ _ _ _ _ => Some limit_nflog
  | IdVeth _ _ => Some limit_ifname
  | IdVMHandle _ _ _ => Some limit_handle
  | IdStaticChain _ => Some limit_chain_iptables
  end.

(* ---------- boolean equalities ---------- *)
Definition pid_eqb (a b : policy_id) : bool :=
  beq (p_name a) (p_name b) && beq (p_ns a) (p_ns b) && beq (p_kind a) (p_kind b).
Fixpoint pids_eqb (a b : list policy_id) : bool :=
  match a, b with
  | [], [] => true
  | x :: a', y :: b' => pid_eqb x y && pids_eqb a' b'
  | _, _ => false
  end.
Definition src_eqb (a b : set_src) : bool :=
  match a, b with
  | SetStatic x, SetStatic y => beq x y
  | SetHashed t c, SetHashed t' c' => beq t t' && beq c c'
  | _, _ => false
  end.
Definition ident_eqb (a b : ident) : bool :=
  match a, b with
  | IdRaw p s m, IdRaw p' s' m' => beq p p' && beq s s' && Nat.eqb m m'
  | IdPolicy i n x, IdPolicy i' n' x' => Bool.eqb i i' && Bool.eqb n n' && pid_eqb x x'
  | IdProfile i n x, IdProfile i' n' x' => Bool.eqb i i' && Bool.eqb n n' && beq x x'
  | IdEndpoint p f n, IdEndpoint p' f' n' => beq p p' && beq f f' && Bool.eqb n n'
  | IdGroup i s ps, IdGroup i' s' ps' => Bool.eqb i i' && beq s s' && pids_eqb ps ps'
  | IdMainSet v s, IdMainSet v' s' => Bool.eqb v v' && src_eqb s s'
  | IdTempSet v n, IdTempSet v' n' => Bool.eqb v v' && N.eqb n n'
  | IdPolText x, IdPolText x' => pid_eqb x x'
  | IdUnique t c, IdUnique t' c' => beq t t' && beq c c'
  | IdNftSet v s, IdNftSet v' s' => Bool.eqb v v' && src_eqb s s'
  | IdNflog t, IdNflog t' => beq t t'
  | IdNflogRule a o d i x, IdNflogRule a' o' d' i' x' =>
      N.eqb a a' && N.eqb o o' && N.eqb d d' && N.eqb i i' && pid_eqb x x'
  | IdVeth n p, IdVeth n' p' => beq n n' && beq p p'
  | IdVMHandle n s v, IdVMHandle n' s' v' => beq n n' && beq s s' && beq v v'
  | IdStaticChain k, IdStaticChain k' => Nat.eqb k k'
  | _, _ => false
  end.

(* ---------- which identities share a namespace ---------- *)
Inductive space :=
| SpRaw (p : bytes) (max : nat)   (* direct calls: only comparable for the same prefix and limit *)
| SpChain (nft : bool)            (* chains of one dataplane (iptables xor nftables) *)
| SpSet                           (* kernel IP sets (v4 and v6 sets share one namespace) *)
| SpText | SpUnique
| SpNftSet                        (* sets of the nftables table *)
| SpNflog | SpNflogRule           (* NFLOG prefixes: raw texts / rule prefixes *)
| SpVeth                          (* host-side veth names *)
| SpHandle.                       (* IPAM handle IDs of VMs *)

Definition space_of (i : ident) : space :=
  match i with
  | IdRaw p _ max => SpRaw p max
  | IdPolicy _ nft _ | IdProfile _ nft _ | IdEndpoint _ _ nft => SpChain nft
  | IdGroup _ _ _ => SpChain false
  | IdMainSet _ _ | IdTempSet _ _ => SpSet
  | IdPolText _ => SpText
  | IdUnique _ _ => SpUnique
  | IdNftSet _ _ => SpNftSet
  | IdNflog _ => SpNflog
  | IdNflogRule _ _ _ _ _ => SpNflogRule
  | IdVeth _ _ => SpVeth
  | IdVMHandle _ _ _ => SpHandle
  | IdStaticChain _ => SpChain false
  end.

(* group chains are programmed into whichever dataplane is active: they share a namespace with
   both kinds of chain *)
Definition same_space (a b : ident) : bool :=
  match space_of a, space_of b with
  | SpRaw p m, SpRaw p' m' => beq p p' && Nat.eqb m m'
  | SpChain n, SpChain n' =>
      match a, b with
      | IdGroup _ _ _, _ | _, IdGroup _ _ _ => true
      | IdStaticChain _, _ | _, IdStaticChain _ => true    (* fixed chains exist in both dataplanes *)
      | _, _ => Bool.eqb n n'
      end
  | SpSet, SpSet => true
  | SpText, SpText => true
  | SpUnique, SpUnique => true
  | SpNftSet, SpNftSet => true
  | SpNflog, SpNflog => true
  | SpNflogRule, SpNflogRule => true
  | SpVeth, SpVeth => true
  | SpHandle, SpHandle => true
  | _, _ => false
  end.

(* ---------- domain: identities that can reach the name builders ---------- *)
Definition has (c : N) (s : bytes) : bool := existsb (N.eqb c) s.
Definition known_kind (k : bytes) : bool :=
  match assoc k kind_table with Some _ => true | None => false end.
(* names and namespaces are validated resource names: no '/', no newline and no ',' in them *)
Definition comma : N := 44%N.
Definition clean (s : bytes) : bool := negb (has slash s) && (negb (has nl s) && negb (has comma s)).
Definition valid_pid (x : policy_id) : bool :=
  known_kind (p_kind x) && clean (p_name x) && clean (p_ns x).
Definition nonempty (s : bytes) : bool := match s with [] => false | _ => true end.
(* 'A'..'Z' : the action / owner / direction characters of an NFLOG prefix *)
Definition letter (c : N) : bool := N.leb 65 c && N.leb c 90.

Definition in_domain (i : ident) : bool :=
  match i with
  | IdRaw p s max => nonempty s && (length p + 12 <=? max)
      (* the documented ""/"_" clash is outside; so are limits leaving fewer than 11 digest
         characters (66 bits), where accidental collisions of the truncated digest are expected *)
  | IdPolicy _ _ x => valid_pid x
  | IdProfile _ _ name => nonempty name
  | IdEndpoint p f _ => existsb (beq p) endpoint_prefixes && nonempty f
  | IdGroup _ sel ps => negb (has nl sel) && forallb valid_pid ps
  | IdMainSet _ (SetStatic id) => length id <=? 24     (* fixed IDs of 25 bytes or more are cut to 25 *)
  | IdMainSet _ (SetHashed t _) => negb (has colon t) && (length t <=? 9)
  | IdTempSet _ n => N.ltb n 18446744073709551616      (* uint on 64-bit *)
  | IdPolText x => valid_pid x
  | IdUnique t _ => negb (has colon t)
  (* nftables turns ':' into '-': fixed IDs must not contain ':' ("a:b" and "a-b" would clash), tags no '-' *)
  | IdNftSet _ (SetStatic id) => (length id <=? 24) && negb (has colon id)
  | IdNftSet _ (SetHashed t _) => negb (has colon t) && negb (has dash t) && (length t <=? 9)
  | IdNflog _ => true
  | IdNflogRule a o d i x => letter a && letter o && letter d && N.ltb i 9223372036854775808 && valid_pid x
  | IdVeth ns _ => negb (has dot ns)                  (* namespaces are DNS labels *)
  (* the CNI network name must be non-empty (empty means the default network), dot-free and short;
     namespaces are DNS labels *)
  | IdVMHandle net ns _ => nonempty net && negb (has dot net) && (length net <=? 60) && negb (has dot ns)
  | IdStaticChain k => k <? length static_chains
  end.

(* ---------- one observation = identity + what the implementation returned (twice) ---------- *)
Record obs := { o_id : ident; o_name : option bytes; o_again : option bytes }.

Definition oname_eqb (a b : option bytes) : bool :=
  match a, b with
  | Some x, Some y => beq x y
  | None, None => true
  | _, _ => false
  end.

(* (fit): a panic is acceptable only where no name can fit at all (prefix + marker + 1 > limit) *)
Definition ok_fit (o : obs) : bool :=
  match o_name o, limit (o_id o) with
  | Some n, Some m => length n <=? m
  | Some _, None => true
  | None, _ => match o_id o with IdRaw p _ max => max <? length p + 2 | _ => false end
  end.

Definition ok_same (o : obs) : bool := oname_eqb (o_name o) (o_again o).

Definition must_differ (a b : ident) : bool :=
  same_space a b && in_domain a && in_domain b && negb (ident_eqb a b).

Definition ok_pair (a b : obs) : bool :=
  if must_differ (o_id a) (o_id b) then
    match o_name a, o_name b with
    | Some x, Some y => negb (beq x y)
    | _, _ => true
    end
  else true.

Fixpoint ok_apart (l : list obs) : bool :=
  match l with
  | [] => true
  | a :: l' => forallb (ok_pair a) l' && ok_apart l'
  end.

Definition ok_case_obs (l : list obs) : bool :=
  forallb ok_fit l && forallb ok_same l && ok_apart l.

(* ---------- correspondence case, as written by the Go driver ---------- *)
(* c_clamp: which variant of the shortening rule the tree under test has (probed by the driver);
   c_tbl: (hash kind, input, base64 text of the digest) computed by the real hash functions;
   kind 0 = sha256, 1 = sha224, 2 = sha3-224 (base64url text), 3 = sha1 (hex text) *)
Record case := { c_clamp : bool; c_tbl : list (N * bytes * bytes); c_obs : list obs }.

Fixpoint lookup (tbl : list (N * bytes * bytes)) (k : N) (x : bytes) : bytes :=
  match tbl with
  | [] => []
  | (k', i, o) :: t => if N.eqb k k' && beq x i then o else lookup t k x
  end.

Definition model_case (c : case) : bool :=
  forallb (fun o => oname_eqb (model_name (c_clamp c) (lookup (c_tbl c) 0) (lookup (c_tbl c) 1) (lookup (c_tbl c) 2) (lookup (c_tbl c) 3) (o_id o))
                              (o_name o)) (c_obs c).

Definition check_case (c : case) : bool * bool := (model_case c, ok_case_obs (c_obs c)).
