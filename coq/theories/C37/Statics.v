(* C37 — the chains with fixed names (rule_defs.go) against the names built from identities. *)
From Coq Require Import List NArith Arith Bool Lia.
From Verif.C37 Require Import Model Spec Proofs Families.
Import ListNotations.

Fixpoint is_prefix (p s : bytes) : bool :=
  match p, s with
  | [], _ => true
  | x :: p', y :: s' => N.eqb x y && is_prefix p' s'
  | _ :: _, [] => false
  end.

Lemma is_prefix_app : forall p x, is_prefix p (p ++ x) = true.
Proof. induction p as [|c p IH]; intro x; simpl; [reflexivity|]. rewrite N.eqb_refl, IH. reflexivity. Qed.

(* the only fixed name that begins with a family prefix is cali-arp-dispatch (prefix cali-arp-) *)
Definition static_check : bool :=
  forallb (fun s => forallb (fun p => negb (is_prefix p s) || (beq p pfx_arp && beq s arp_dispatch)) chain_prefixes)
          static_chains.
Lemma static_check_ok : static_check = true.
Proof. vm_compute. reflexivity. Qed.

Theorem static_apart : forall s p x,
  In s static_chains -> In p chain_prefixes -> p ++ x = s ->
  p = pfx_arp /\ s = arp_dispatch /\ x = iface_dispatch.
Proof.
  intros s p x Is Ip E. pose proof static_check_ok as C. unfold static_check in C.
  rewrite forallb_forall in C. specialize (C s Is). rewrite forallb_forall in C. specialize (C p Ip).
  rewrite <- E in C at 1. rewrite is_prefix_app in C. simpl in C.
  apply andb_true_iff in C. destruct C as [C1 C2]. apply beq_eq in C1. apply beq_eq in C2.
  split; [exact C1|]. split; [exact C2|]. subst p. rewrite C2 in E.
  change arp_dispatch with (pfx_arp ++ iface_dispatch) in E. apply app_inv_head in E. exact E.
Qed.

Fixpoint nodupb (l : list bytes) : bool :=
  match l with [] => true | x :: l' => negb (existsb (beq x) l') && nodupb l' end.
Lemma nodupb_NoDup : forall l, nodupb l = true -> NoDup l.
Proof.
  induction l as [|x l IH]; intro E; [constructor|]. simpl in E. apply andb_true_iff in E. destruct E as [A B].
  constructor; [|apply IH; exact B]. intro I. apply negb_true_iff in A.
  assert (X : existsb (beq x) l = true) by (apply existsb_exists; exists x; split; [exact I|apply beq_refl]).
  congruence.
Qed.
Lemma static_nodup : NoDup static_chains.
Proof. apply nodupb_NoDup. vm_compute. reflexivity. Qed.

Lemma static_fits : forall s, In s static_chains -> length s <= 28.
Proof.
  assert (C : forallb (fun s => length s <=? 28) static_chains = true) by (vm_compute; reflexivity).
  intros s I. rewrite forallb_forall in C. apply Nat.leb_le. apply C. exact I.
Qed.

Lemma static_index_inj : forall k k' n,
  nth_error static_chains k = Some n -> nth_error static_chains k' = Some n -> k = k'.
Proof.
  intros k k' n A B. apply (proj1 (NoDup_nth_error static_chains) static_nodup).
  - apply nth_error_Some. congruence.
  - congruence.
Qed.

(* the clash is real: a workload interface called "dispatch" gets the ARP dispatch chain's own name *)
Lemma arp_dispatch_clash : forall clamp H nft,
  endpoint_chain clamp H pfx_arp iface_dispatch (max_chain nft) = Some arp_dispatch /\
  In arp_dispatch static_chains /\ In pfx_arp endpoint_prefixes /\ length iface_dispatch <= 15.
Proof.
  intros clamp H nft. split; [|split; [vm_compute; tauto|split; [vm_compute; tauto|vm_compute; lia]]].
  rewrite endpoint_chain_plain; [reflexivity|vm_compute; tauto|discriminate|vm_compute; lia].
Qed.
