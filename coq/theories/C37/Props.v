(* C37 — property theorems only. *)
From Coq Require Import List NArith Arith Bool.
From Verif.C37 Require Import Model Spec Proofs.
Import ListNotations.

Theorem c37_deterministic : forall H p s max a b,
  gllid H p s max = a -> gllid H p s max = b -> a = b.
Proof. exact gllid_deterministic. Qed.
Print Assumptions c37_deterministic.
