(* C37 — property theorems only.  Each is closed by `exact <lemma>` and followed by Print Assumptions.
   `clamp` selects the variant of the shortening rule: false = code as found in the pinned tree,
   true = repaired code (fixes/C37-clamp-shortened-length.patch); theorems quantified over clamp hold for both. *)
From Coq Require Import List NArith Arith Bool.
From Verif.C37 Require Import Model Spec Proofs Families More Statics Global.
Import ListNotations.

(* every name GetLengthLimitedID returns is at most maxLength bytes long (both variants of the rule) *)
Theorem c37_fits : forall clamp H p s max n, gllid clamp H p s max = Some n -> length n <= max.
Proof. exact gllid_fits. Qed.
Print Assumptions c37_fits.

(* the name is a function of (prefix, suffix, limit) and the digest function only *)
Theorem c37_deterministic : forall clamp H p s max a b, gllid clamp H p s max = a -> gllid clamp H p s max = b -> a = b.
Proof. exact gllid_deterministic. Qed.
Print Assumptions c37_deterministic.

(* exact characterisation of when two suffixes get the same name under one prefix and limit *)
Theorem c37_names_equal_iff : forall clamp H p a b max n m,
  gllid clamp H p a max = Some n -> gllid clamp H p b max = Some m ->
  (n = m <-> eff a = eff b \/
     (shortened clamp p a max /\ shortened clamp p b max /\
      firstn (left_chars clamp p max) (H (eff a)) = firstn (left_chars clamp p max) (H (eff b)))).
Proof. exact gllid_eq_iff. Qed.
Print Assumptions c37_names_equal_iff.

(* equal names => same suffix, or both shortened with colliding truncated digests of different texts, or the ""/"_" pair *)
Theorem c37_injective_mod_hash : forall clamp H p a b max n,
  gllid clamp H p a max = Some n -> gllid clamp H p b max = Some n ->
  a = b \/
  (shortened clamp p a max /\ shortened clamp p b max /\ eff a <> eff b /\
   firstn (left_chars clamp p max) (H (eff a)) = firstn (left_chars clamp p max) (H (eff b))) \/
  (a = [] /\ b = [marker]) \/ (a = [marker] /\ b = []).
Proof. exact gllid_injective_mod_hash. Qed.
Print Assumptions c37_injective_mod_hash.

(* the degenerate clash is real and is exactly "" versus "_" (see c37_injective_mod_hash) *)
Theorem c37_degenerate_clash : forall clamp H p max, gllid clamp H p [] max = gllid clamp H p [marker] max.
Proof. exact gllid_empty_marker. Qed.
Print Assumptions c37_degenerate_clash.

(* a shortened name never equals an unshortened one (the marker test) *)
Theorem c37_short_long_apart : forall clamp H p a b max n m,
  gllid clamp H p a max = Some n -> shortened clamp p a max ->
  gllid clamp H p b max = Some m -> ~ shortened clamp p b max -> n <> m.
Proof. exact gllid_short_long_apart. Qed.
Print Assumptions c37_short_long_apart.

(* repaired rule: a name is returned whenever prefix + marker + 1 fits *)
Theorem c37_total_repaired : forall H p s max, (forall x, length (H x) = hash_len) -> length p + 2 <= max -> exists n, gllid true H p s max = Some n.
Proof. exact gllid_total_clamped. Qed.
Print Assumptions c37_total_repaired.

(* exactly when GetLengthLimitedID panics instead of returning a name, for both variants of the rule:
   the ID must be shortened and there is either no room for a digest character or (code before the fix)
   more room than the 43 characters of the digest text *)
Theorem c37_panics_iff : forall clamp H p s max,
  (forall x, length (H x) = hash_len) ->
  (gllid clamp H p s max = None <->
   shortened clamp p s max /\ (left_chars clamp p max = 0 \/ hash_len < left_chars clamp p max)).
Proof. exact gllid_none_iff. Qed.
Print Assumptions c37_panics_iff.

(* the code as it is now in the tree (repaired rule): the only panic left is maxLength <= len(prefix)+1 *)
Theorem c37_panics_iff_repaired : forall H p s max,
  (forall x, length (H x) = hash_len) ->
  (gllid true H p s max = None <-> shortened true p s max /\ max <= length p + 1).
Proof. exact gllid_none_iff_clamped. Qed.
Print Assumptions c37_panics_iff_repaired.

(* REFUTED for the code before fix 0de539f (clamp = false): a validated policy ID (name of 245 bytes) has no nftables chain name (panic) *)
Theorem c37_as_found_always_names_refuted : exists H id, (forall x, length (H x) = hash_len) /\ valid_pid id = true /\ length (p_name id) <= 253 /\
               policy_chain false H true true id = None.
Proof. exact unclamped_panics. Qed.
Print Assumptions c37_as_found_always_names_refuted.

(* the two variants coincide whenever the limit leaves at most 43 digest characters (all iptables and ipset limits) *)
Theorem c37_variants_agree_small : forall H p s max, max <= length p + 1 + hash_len -> gllid true H p s max = gllid false H p s max.
Proof. exact clamp_irrelevant_small. Qed.
Print Assumptions c37_variants_agree_small.

(* PolicyID.ID() is injective on IDs with a known kind and no '/' in name and namespace *)
Theorem c37_policy_text_injective : forall a b, valid_pid a = true -> valid_pid b = true -> policy_text a = policy_text b -> a = b.
Proof. exact policy_text_injective. Qed.
Print Assumptions c37_policy_text_injective.

(* outside validation ('/' in a name) the ID text is ambiguous *)
Theorem c37_policy_text_slash_refuted : exists a b, a <> b /\ known_kind (p_kind a) = true /\ known_kind (p_kind b) = true /\ policy_text a = policy_text b.
Proof. exact policy_text_not_injective_with_slash. Qed.
Print Assumptions c37_policy_text_slash_refuted.

(* an unknown kind equal to a short kind name clashes with the known kind *)
Theorem c37_policy_text_unknown_kind_refuted : exists a b, a <> b /\ clean (p_name a) = true /\ clean (p_name b) = true /\ policy_text a = policy_text b.
Proof. exact policy_text_not_injective_unknown_kind. Qed.
Print Assumptions c37_policy_text_unknown_kind_refuted.

(* names built with different chain prefixes (pi po pri pro gi go tw fw sm th fh thfw fhfw arp) never coincide *)
Theorem c37_families_disjoint : forall clamp H p q s t m1 m2 n1 n2,
  In p chain_prefixes -> In q chain_prefixes -> p <> q ->
  gllid clamp H p s m1 = Some n1 -> gllid clamp H q t m2 = Some n2 -> n1 <> n2.
Proof. exact families_disjoint. Qed.
Print Assumptions c37_families_disjoint.

(* policy chains: equal names => same direction and same PolicyID, or a truncated SHA-256 collision *)
Theorem c37_policy_chain_injective : forall clamp H i j nft a b n,
  valid_pid a = true -> valid_pid b = true ->
  policy_chain clamp H i nft a = Some n -> policy_chain clamp H j nft b = Some n ->
  (i = j /\ a = b) \/ trunc_collision H (left_chars clamp pfx_pi (max_chain nft)).
Proof. exact policy_chain_injective. Qed.
Print Assumptions c37_policy_chain_injective.

(* profile chains: same, for non-empty profile names *)
Theorem c37_profile_chain_injective : forall clamp H i j nft a b n,
  a <> [] -> b <> [] ->
  profile_chain clamp H i nft a = Some n -> profile_chain clamp H j nft b = Some n ->
  (i = j /\ a = b) \/ trunc_collision H (left_chars clamp pfx_pri (max_chain nft)).
Proof. exact profile_chain_injective. Qed.
Print Assumptions c37_profile_chain_injective.

(* endpoint chains: same, over the eight endpoint prefixes *)
Theorem c37_endpoint_chain_injective : forall clamp H p q a b max n,
  In p endpoint_prefixes -> In q endpoint_prefixes -> a <> [] -> b <> [] ->
  endpoint_chain clamp H p a max = Some n -> endpoint_chain clamp H q b max = Some n ->
  (p = q /\ a = b) \/ trunc_collision H (left_chars clamp p max).
Proof. exact endpoint_chain_injective. Qed.
Print Assumptions c37_endpoint_chain_injective.

(* interface names (<= 15 bytes) are never shortened: the chain name is prefix ++ name, hence injective outright *)
Theorem c37_endpoint_chain_plain : forall clamp H p a nft,
  In p endpoint_prefixes -> a <> [] -> length a <= 15 ->
  endpoint_chain clamp H p a (max_chain nft) = Some (p ++ a).
Proof. exact endpoint_chain_plain. Qed.
Print Assumptions c37_endpoint_chain_plain.

(* policy group chain names are at most 28 bytes *)
Theorem c37_group_chain_fits : forall H3 i sel ps, length (group_chain H3 i sel ps) <= 28.
Proof. exact group_chain_fits. Qed.
Print Assumptions c37_group_chain_fits.

(* policy group chains: equal names => same direction and same hashed content, or a 20-character SHA3-224 collision *)
Theorem c37_group_chain_injective : forall H3 i j s t ps qs,
  group_chain H3 i s ps = group_chain H3 j t qs ->
  i = j /\ (group_content i s ps = group_content j t qs \/ trunc_collision H3 20).
Proof. exact group_chain_injective. Qed.
Print Assumptions c37_group_chain_injective.

(* a group chain never equals a policy/profile/endpoint chain *)
Theorem c37_group_vs_others : forall clamp H H3 i s ps p t max n,
  In p chain_prefixes -> p <> group_pfx i ->
  gllid clamp H p t max = Some n -> n <> group_chain H3 i s ps.
Proof. exact group_vs_gllid_disjoint. Qed.
Print Assumptions c37_group_vs_others.

(* main IP set names are at most 31 bytes *)
Theorem c37_main_set_fits : forall np v6 id, length (main_set_name np v6 id) <= 31.
Proof. exact main_set_fits. Qed.
Print Assumptions c37_main_set_fits.

(* temporary IP set names are at most 31 bytes (for every counter value) *)
Theorem c37_temp_set_fits : forall v6 n, length (temp_set_name cali v6 n) <= 31.
Proof. exact temp_set_fits. Qed.
Print Assumptions c37_temp_set_fits.

(* a main set name never equals a temporary set name, in either IP version *)
Theorem c37_main_temp_disjoint : forall v6 v6' id n, main_set_name cali v6 id <> temp_set_name cali v6' n.
Proof. exact main_temp_disjoint. Qed.
Print Assumptions c37_main_temp_disjoint.

(* main sets: equal names => same IP version and same ID, or both IDs of >= 25 bytes sharing their first 25 bytes *)
Theorem c37_main_set_injective : forall v6 v6' a b,
  main_set_name cali v6 a = main_set_name cali v6' b ->
  v6 = v6' /\ (a = b \/ (25 <= length a /\ 25 <= length b /\ firstn 25 a = firstn 25 b)).
Proof. exact main_set_injective. Qed.
Print Assumptions c37_main_set_injective.

(* main sets whose IDs come from MakeUniqueID: equal names => same version, tag and content, or a truncated SHA-224 collision *)
Theorem c37_main_set_hashed_injective : forall H224 v6 v6' t t' c c',
  has colon t = false -> has colon t' = false -> length t <= 9 -> length t' <= 9 ->
  main_set_name cali v6 (make_unique_id H224 t c) = main_set_name cali v6' (make_unique_id H224 t' c') ->
  v6 = v6' /\ t = t' /\ (c = c' \/ trunc_collision H224 (24 - length t)).
Proof. exact main_set_hashed_injective. Qed.
Print Assumptions c37_main_set_hashed_injective.

(* temporary sets: equal names => same version and same counter (64-bit counters) *)
Theorem c37_temp_set_injective : forall v6 v6' n m,
  (n < 18446744073709551616)%N -> (m < 18446744073709551616)%N ->
  temp_set_name cali v6 n = temp_set_name cali v6' m -> v6 = v6' /\ n = m.
Proof. exact temp_set_injective. Qed.
Print Assumptions c37_temp_set_injective.

(* MakeUniqueID: equal IDs => same tag and content, or a SHA-224 collision *)
Theorem c37_make_unique_id_injective : forall H224 t t' c c',
  has colon t = false -> has colon t' = false ->
  make_unique_id H224 t c = make_unique_id H224 t' c' ->
  t = t' /\ (c = c' \/ exists x y, x <> y /\ H224 x = H224 y).
Proof. exact make_unique_id_injective. Qed.
Print Assumptions c37_make_unique_id_injective.

(* policy group content (what is hashed into the group UID) determines selector and policy list *)
Theorem c37_group_content_injective : forall i s t ps qs,
  has nl s = false -> has nl t = false ->
  forallb valid_pid ps = true -> forallb valid_pid qs = true ->
  group_content i s ps = group_content i t qs -> s = t /\ ps = qs.
Proof. exact group_content_injective. Qed.
Print Assumptions c37_group_content_injective.

(* MAIN: over every kind of identity at once (chains, IP sets, nftables sets, NFLOG prefixes, veth names, VM
   handle IDs).  If the specification demands different names for a and b (same namespace, both in the domain,
   a <> b) and the model gives them one name, then two different texts have equal digests on at least their
   first 11 characters -- or {a,b} is the one clash with a fixed chain name: the chain cali-arp-dispatch and the
   ARP chain of a workload interface called "dispatch" (see c37_static_arp_dispatch_refuted). *)
Theorem c37_distinct_identities_distinct_names : forall clamp H256 H224 H3 H1,
  (forall x, length (H224 x) = 38) -> (forall x, has colon (H224 x) = false) -> forall a b n,
  must_differ a b = true ->
  model_name clamp H256 H224 H3 H1 a = Some n -> model_name clamp H256 H224 H3 H1 b = Some n ->
  strong_collision H256 H224 H3 H1 \/ arp_clash a b.
Proof. exact apart_mod_hash. Qed.
Print Assumptions c37_distinct_identities_distinct_names.

(* every name the model returns respects the limit of its kind of object *)
Theorem c37_model_fits : forall clamp H256 H224 H3 H1 i n m,
  model_name clamp H256 H224 H3 H1 i = Some n -> limit i = Some m -> length n <= m.
Proof. exact model_fits. Qed.
Print Assumptions c37_model_fits.

(* the specification oracle accepts the model's output on every list of identities, absent digest collisions
   and absent the cali-arp-dispatch pair *)
Theorem c37_model_meets_spec : forall clamp H256 H224 H3 H1,
  (forall x, length (H224 x) = 38) -> (forall x, has colon (H224 x) = false) ->
  ~ strong_collision H256 H224 H3 H1 -> forall l,
  (forall i, In i l -> model_name clamp H256 H224 H3 H1 i <> None) ->
  (forall a b, In a l -> In b l -> ~ arp_clash a b) ->
  ok_case_obs (map (model_obs clamp H256 H224 H3 H1) l) = true.
Proof. exact oracle_accepts_model. Qed.
Print Assumptions c37_model_meets_spec.

(* ---------- nftables set names: LegalizeSetName(NameForMainIPSet(id)) ---------- *)
Theorem c37_nft_set_fits : forall v6 id, length (nft_set_name v6 id) <= 31.
Proof. exact nft_set_fits. Qed.
Print Assumptions c37_nft_set_fits.

(* equal nft set names => same IP version and IDs equal after ':' -> '-', or both IDs >= 25 bytes agreeing on 25 *)
Theorem c37_nft_set_injective : forall v6 v6' a b,
  nft_set_name v6 a = nft_set_name v6' b ->
  v6 = v6' /\ (legalize a = legalize b \/
               (25 <= length a /\ 25 <= length b /\ firstn 25 (legalize a) = firstn 25 (legalize b))).
Proof. exact nft_set_injective. Qed.
Print Assumptions c37_nft_set_injective.

Theorem c37_nft_set_hashed_injective : forall H224 v6 v6' t t' c c',
  (forall x, has colon (H224 x) = false) ->
  has colon t = false -> has colon t' = false -> has dash t = false -> has dash t' = false ->
  length t <= 9 -> length t' <= 9 ->
  nft_set_name v6 (make_unique_id H224 t c) = nft_set_name v6' (make_unique_id H224 t' c') ->
  v6 = v6' /\ t = t' /\ (c = c' \/ trunc_collision H224 (24 - length t)).
Proof. exact nft_set_hashed_injective. Qed.
Print Assumptions c37_nft_set_hashed_injective.

(* REFUTED outside the domain: the ':' -> '-' replacement merges the fixed IDs "a:b" and "a-b" *)
Theorem c37_nft_set_colon_dash_refuted :
  exists a b, a <> b /\ length a <= 24 /\ length b <= 24 /\ nft_set_name false a = nft_set_name false b.
Proof. exact nft_set_colon_dash_clash. Qed.
Print Assumptions c37_nft_set_colon_dash_refuted.

(* ---------- NFLOG prefixes: rules.maybeHash / CalculateNFLOGPrefixStr ---------- *)
Theorem c37_nflog_fits : forall clamp H p n, maybe_hash clamp H p = Some n -> length n <= 63.
Proof. exact nflog_fits. Qed.
Print Assumptions c37_nflog_fits.

(* equal prefixes => same text, or both hashed (>= 63 bytes) with equal 41-character digests of different texts;
   in particular a hashed prefix (always 63 bytes) cannot be spoofed by an unhashed one (<= 62 bytes) *)
Theorem c37_nflog_injective : forall clamp H a b n,
  maybe_hash clamp H a = Some n -> maybe_hash clamp H b = Some n ->
  a = b \/ (63 <= length a /\ 63 <= length b /\ a <> b /\ firstn 41 (H a) = firstn 41 (H b)).
Proof. exact nflog_injective. Qed.
Print Assumptions c37_nflog_injective.

Theorem c37_nflog_rule_text_injective : forall a o d i x a' o' d' i' x',
  (i < 18446744073709551616)%N -> (i' < 18446744073709551616)%N ->
  valid_pid x = true -> valid_pid x' = true ->
  nflog_rule_text a o d i x = nflog_rule_text a' o' d' i' x' ->
  a = a' /\ o = o' /\ d = d' /\ i = i' /\ x = x'.
Proof. exact nflog_rule_text_injective. Qed.
Print Assumptions c37_nflog_rule_text_injective.

(* ---------- host-side veth names: VethNameForWorkload ---------- *)
Theorem c37_veth_fits : forall H1 ns pod, length (veth_name H1 ns pod) <= 15.
Proof. exact veth_fits. Qed.
Print Assumptions c37_veth_fits.

Theorem c37_veth_injective : forall H1 ns pod ns' pod',
  has dot ns = false -> has dot ns' = false ->
  veth_name H1 ns pod = veth_name H1 ns' pod' ->
  (ns = ns' /\ pod = pod') \/ trunc_collision H1 11.
Proof. exact veth_injective. Qed.
Print Assumptions c37_veth_injective.

(* ---------- VM IPAM handle IDs: vmipam.CreateVMHandleID ---------- *)
Theorem c37_vm_handle_fits : forall clamp H net ns vm n, vm_handle_id clamp H net ns vm = Some n -> length n <= 128.
Proof. exact vm_handle_fits. Qed.
Print Assumptions c37_vm_handle_fits.

Theorem c37_vm_handle_total : forall H net ns vm,
  (forall x, length (H x) = hash_len) -> length net <= 120 -> exists n, vm_handle_id true H net ns vm = Some n.
Proof. exact vm_handle_total. Qed.
Print Assumptions c37_vm_handle_total.

Theorem c37_vm_handle_injective : forall clamp H net ns vm net' ns' vm' n,
  net <> [] -> net' <> [] -> has dot net = false -> has dot net' = false ->
  length net <= 60 -> length net' <= 60 -> has dot ns = false -> has dot ns' = false ->
  vm_handle_id clamp H net ns vm = Some n -> vm_handle_id clamp H net' ns' vm' = Some n ->
  (net = net' /\ ns = ns' /\ vm = vm') \/ exists k, 11 <= k /\ trunc_collision H k.
Proof. exact vm_handle_injective. Qed.
Print Assumptions c37_vm_handle_injective.

(* REFUTED outside the domain: a CNI network name containing a dot ("a.vmi") is ambiguous with namespace "vmi" *)
Theorem c37_vm_handle_dotted_network_refuted : forall clamp H,
  exists net ns vm net' ns' vm', (net, ns, vm) <> (net', ns', vm') /\ net <> [] /\ net' <> [] /\
    has dot ns = false /\ has dot ns' = false /\
    vm_handle_id clamp H net ns vm = vm_handle_id clamp H net' ns' vm' /\ vm_handle_id clamp H net ns vm <> None.
Proof. exact vm_handle_dotted_network_clash. Qed.
Print Assumptions c37_vm_handle_dotted_network_refuted.

(* ---------- chains with fixed names (rule_defs.go) ---------- *)
(* a fixed chain name equals a name built from a family prefix only in one way: cali-arp- ++ "dispatch" *)
Theorem c37_static_chains_apart : forall s p x,
  In s static_chains -> In p chain_prefixes -> p ++ x = s ->
  p = pfx_arp /\ s = arp_dispatch /\ x = iface_dispatch.
Proof. exact static_apart. Qed.
Print Assumptions c37_static_chains_apart.

Theorem c37_static_chains_distinct_and_fit :
  NoDup static_chains /\ forall s, In s static_chains -> length s <= 28.
Proof. exact (conj static_nodup static_fits). Qed.
Print Assumptions c37_static_chains_distinct_and_fit.

(* REFUTED (finding): "fixed chain names never equal endpoint chain names" -- a workload interface called
   "dispatch" (valid, 8 bytes) gets ARP chain cali-arp-dispatch, the name of the ARP dispatch chain itself *)
Theorem c37_static_arp_dispatch_refuted : forall clamp H nft,
  endpoint_chain clamp H pfx_arp iface_dispatch (max_chain nft) = Some arp_dispatch /\
  In arp_dispatch static_chains /\ In pfx_arp endpoint_prefixes /\ length iface_dispatch <= 15.
Proof. exact arp_dispatch_clash. Qed.
Print Assumptions c37_static_arp_dispatch_refuted.

(* ---------- policy groups over histories ---------- *)
(* equal group chain names => same direction, selector and ORDERED policy list, or a 20-character SHA3-224 collision *)
Theorem c37_group_name_injective : forall H3 i j s t ps qs,
  has nl s = false -> has nl t = false ->
  forallb valid_pid ps = true -> forallb valid_pid qs = true ->
  group_chain H3 i s ps = group_chain H3 j t qs ->
  (i = j /\ s = t /\ ps = qs) \/ trunc_collision H3 20.
Proof. exact group_name_injective. Qed.
Print Assumptions c37_group_name_injective.

(* purity: in any sequence of namings the name of a group is group_chain of that group, whatever was named before *)
Theorem c37_group_name_history_independent : forall H3 h1 h2 g,
  nth_error (name_history H3 (h1 ++ [g])) (length h1) = Some (name_group H3 g) /\
  nth_error (name_history H3 (h1 ++ [g])) (length h1) = nth_error (name_history H3 (h2 ++ [g])) (length h2).
Proof. exact group_name_history_independent. Qed.
Print Assumptions c37_group_name_history_independent.
