(* C37 — executable model of the name-building code of Calico:
     libcalico-go/lib/hash/unique_id.go   GetLengthLimitedID, MakeUniqueID
     felix/types/policy_id.go             PolicyID.ID(), PolicyID.String(), KindShortName
     felix/rules/policy.go                PolicyChainName, ProfileChainName
     felix/rules/endpoints.go             EndpointChainName, PolicyGroup.UniqueID / ChainName
     felix/ipsets/ipset_defs.go           NameForMainIPSet (combineAndTrunc), NameForTempIPSet
   Strings are lists of bytes (list N).  The three hash functions are parameters returning the
   base64url *text* of the digest.  Definitions only, no proofs. *)
From Coq Require Import List NArith Arith Bool.
From Coq Require String Ascii.
Import String.StringSyntax.
Delimit Scope string_scope with string.
Import ListNotations.

Definition bytes := list N.
Definition bs (x : String.string) : bytes := map Ascii.N_of_ascii (String.list_ascii_of_string x).
Arguments bs x%string.

Definition marker : N := 95.  (* '_'  shortenedPrefix *)
Definition slash  : N := 47.  (* '/' *)
Definition colon  : N := 58.  (* ':' *)
Definition nl     : N := 10.  (* '\n' *)

Fixpoint beq (a b : bytes) : bool :=
  match a, b with
  | [], [] => true
  | x :: a', y :: b' => N.eqb x y && beq a' b'
  | _, _ => false
  end.

(* ---------- GetLengthLimitedID ---------- *)

(* `if len(suffix) == 0 { suffix = shortenedPrefix }` *)
Definition eff (s : bytes) : bytes := match s with [] => [marker] | _ => s end.

Definition starts_marker (s : bytes) : bool :=
  match s with c :: _ => N.eqb c marker | [] => false end.

(* Two variants of the shortening rule are modelled, selected by `clamp`:
     clamp = false : the code as found in the pinned tree.  A shortened name always has length
                     maxLength; when maxLength-1-len(prefix) exceeds the 43 characters of the
                     digest text, `hash[0:charsLeftForHash]` panics (None).
     clamp = true  : the repaired code (fixes/C37-*.patch): a shortened name has length
                     min(maxLength, len(prefix)+1+43) and the marker test is made at that length.
   For maxLength <= len(prefix)+44 the two coincide. *)
Definition hash_len : nat := 43.   (* base64.RawURLEncoding.EncodedLen(sha256.Size) *)

Definition short_len (clamp : bool) (plen max : nat) : nat :=
  if clamp then Nat.min max (plen + 1 + hash_len) else max.

(* totalLen > maxLength || (totalLen == shortLen && suffix[0:1] == shortenedPrefix); s is the effective suffix *)
Definition must_shorten (clamp : bool) (plen : nat) (s : bytes) (max : nat) : bool :=
  let t := plen + length s in
  (max <? t) || ((t =? short_len clamp plen max) && starts_marker s).

(* None = the Go code panics (no room for the hash, or slice out of range) *)
Definition gllid (clamp : bool) (H : bytes -> bytes) (p s : bytes) (max : nat) : option bytes :=
  let s := eff s in
  if must_shorten clamp (length p) s max then
    let left := short_len clamp (length p) max - 1 - length p in
    if left =? 0 then None
    else if length (H s) <? left then None
    else Some (p ++ marker :: firstn left (H s))
  else Some (p ++ s).

(* ---------- PolicyID ---------- *)

Record policy_id := { p_name : bytes; p_ns : bytes; p_kind : bytes }.

Definition kNP    : bytes := Eval compute in bs "NetworkPolicy".
Definition kGNP   : bytes := Eval compute in bs "GlobalNetworkPolicy".
Definition kSNP   : bytes := Eval compute in bs "StagedNetworkPolicy".
Definition kSGNP  : bytes := Eval compute in bs "StagedGlobalNetworkPolicy".
Definition kSKNP  : bytes := Eval compute in bs "StagedKubernetesNetworkPolicy".
Definition kKNP   : bytes := Eval compute in bs "KubernetesNetworkPolicy".
Definition kKCNP  : bytes := Eval compute in bs "KubernetesClusterNetworkPolicy".

Definition sNP    : bytes := Eval compute in bs "np".
Definition sGNP   : bytes := Eval compute in bs "gnp".
Definition sSNP   : bytes := Eval compute in bs "snp".
Definition sSGNP  : bytes := Eval compute in bs "sgnp".
Definition sSKNP  : bytes := Eval compute in bs "sknp".
Definition sKNP   : bytes := Eval compute in bs "knp".
Definition sKCNP  : bytes := Eval compute in bs "kcnp".

Definition kind_table : list (bytes * bytes) :=
  [(kNP, sNP); (kGNP, sGNP); (kSNP, sSNP); (kSGNP, sSGNP); (kSKNP, sSKNP); (kKNP, sKNP); (kKCNP, sKCNP)].

Fixpoint assoc (k : bytes) (t : list (bytes * bytes)) : option bytes :=
  match t with
  | [] => None
  | (a, b) :: t' => if beq k a then Some b else assoc k t'
  end.

(* KindShortName: unknown kinds are returned unchanged *)
Definition kind_short (k : bytes) : bytes :=
  match assoc k kind_table with Some s => s | None => k end.

(* PolicyID.ID() *)
Definition policy_text (id : policy_id) : bytes :=
  match p_ns id with
  | [] => kind_short (p_kind id) ++ slash :: p_name id
  | ns => kind_short (p_kind id) ++ slash :: ns ++ slash :: p_name id
  end.

Definition t_name : bytes := Eval compute in bs "{Name: ".
Definition t_ns   : bytes := Eval compute in bs ", Namespace: ".
Definition t_kind : bytes := Eval compute in bs ", Kind: ".
Definition t_end  : bytes := Eval compute in bs "}".

(* PolicyID.String() *)
Definition policy_string (id : policy_id) : bytes :=
  t_name ++ p_name id ++ t_ns ++ p_ns id ++ t_kind ++ p_kind id ++ t_end.

(* ---------- chain names ---------- *)

Definition max_chain (nft : bool) : nat := if nft then 256 else 28.

Definition pfx_pi  : bytes := Eval compute in bs "cali-pi-".
Definition pfx_po  : bytes := Eval compute in bs "cali-po-".
Definition pfx_pri : bytes := Eval compute in bs "cali-pri-".
Definition pfx_pro : bytes := Eval compute in bs "cali-pro-".
Definition pfx_gi  : bytes := Eval compute in bs "cali-gi-".
Definition pfx_go  : bytes := Eval compute in bs "cali-go-".

(* prefixes passed to EndpointChainName (rule_defs.go / endpoint_mgr.go) *)
Definition endpoint_prefixes : list bytes := Eval compute in
  map bs ["cali-tw-"; "cali-fw-"; "cali-sm-"; "cali-th-"; "cali-fh-"; "cali-thfw-"; "cali-fhfw-"; "cali-arp-"]%string.

Definition policy_pfx (inbound : bool) := if inbound then pfx_pi else pfx_po.
Definition profile_pfx (inbound : bool) := if inbound then pfx_pri else pfx_pro.
Definition group_pfx (inbound : bool) := if inbound then pfx_gi else pfx_go.

(* ---------- decimal rendering (fmt.Sprint(uint), strconv.Itoa of a length) ---------- *)

Fixpoint dec_rev (fuel : nat) (n : N) : bytes :=
  match fuel with
  | O => []
  | S f => if N.ltb n 10 then [N.add 48 n] else N.add 48 (N.modulo n 10) :: dec_rev f (N.div n 10)
  end.
(* 20 digits cover every 64-bit unsigned value *)
Definition decimal (n : N) : bytes := rev (dec_rev 20 n).

Section Names.
  Variable clamp : bool.
  Variable H256 : bytes -> bytes.   (* base64.RawURLEncoding(sha256(x))    : 43 chars *)
  Variable H224 : bytes -> bytes.   (* base64.RawURLEncoding(sha224(x))    : 38 chars *)
  Variable H3   : bytes -> bytes.   (* base64.RawURLEncoding(sha3-224(x))  : 38 chars *)

  Definition policy_chain (inbound nft : bool) (id : policy_id) : option bytes :=
    gllid clamp H256 (policy_pfx inbound) (policy_text id) (max_chain nft).

  Definition profile_chain (inbound nft : bool) (name : bytes) : option bytes :=
    gllid clamp H256 (profile_pfx inbound) name (max_chain nft).

  Definition endpoint_chain (pfx : bytes) (iface : bytes) (max : nat) : option bytes :=
    gllid clamp H256 pfx iface max.

  (* PolicyGroup.UniqueID: what is written into the sha3 hasher *)
  Definition group_content (inbound : bool) (sel : bytes) (pols : list policy_id) : bytes :=
    sel ++ nl :: (if inbound then bs "inbound" else bs "outbound") ++ nl ::
    decimal (N.of_nat (length pols)) ++ nl ::
    concat (map (fun p => policy_string p ++ [nl]) pols).

  (* MaxPolicyGroupUIDLength = 28 - len("cali-gi-") = 20 *)
  Definition group_uid (inbound : bool) (sel : bytes) (pols : list policy_id) : bytes :=
    firstn 20 (H3 (group_content inbound sel pols)).

  Definition group_chain (inbound : bool) (sel : bytes) (pols : list policy_id) : bytes :=
    group_pfx inbound ++ group_uid inbound sel pols.

  (* MakeUniqueID *)
  Definition make_unique_id (tag content : bytes) : bytes :=
    tag ++ colon :: H224 (tag ++ colon :: content).

  (* ---------- IP set names ---------- *)
  Definition max_ipset : nat := 31.
  Definition versioned (np : bytes) (v6 : bool) : bytes := np ++ [if v6 then 54%N else 52%N].   (* "6" / "4" *)
  Definition main_pfx (np : bytes) (v6 : bool) : bytes := versioned np v6 ++ [48%N].          (* "0" *)
  Definition temp_pfx (np : bytes) (v6 : bool) : bytes := versioned np v6 ++ [116%N].         (* "t" *)
  (* combineAndTrunc *)
  Definition main_set_name (np : bytes) (v6 : bool) (id : bytes) : bytes :=
    firstn max_ipset (main_pfx np v6 ++ id).
  Definition temp_set_name (np : bytes) (v6 : bool) (n : N) : bytes :=
    temp_pfx np v6 ++ decimal n.
End Names.

Definition cali : bytes := Eval compute in bs "cali".

(* ---------- further shorteners built on the same pieces ---------- *)

Definition dash : N := 45.   (* '-' *)
Definition dot  : N := 46.   (* '.' *)
Definition bar  : N := 124.  (* '|' *)

(* felix/nftables/ipsets.go LegalizeSetName: strings.ReplaceAll(name, ":", "-") *)
Definition legalize (s : bytes) : bytes := map (fun c => if N.eqb c colon then dash else c) s.
(* nftables IPSets.nameForMainIPSet *)
Definition nft_set_name (v6 : bool) (id : bytes) : bytes := legalize (main_set_name cali v6 id).

(* felix/rules/nflogprefix.go maybeHash: NFLOGPrefixMaxLengthWoTerm = 63, kept head/tail = 10, hashLen = 42 *)
Definition nflog_max : nat := 63.
Definition nflog_keep : nat := 10.
Definition nflog_hash_len : nat := 42.
Definition maybe_hash (clamp : bool) (H : bytes -> bytes) (p : bytes) : option bytes :=
  if nflog_max <=? length p then
    match gllid clamp H [] p nflog_hash_len with
    | Some h => Some (firstn nflog_keep p ++ h ++ marker :: skipn (length p - nflog_keep) p)
    | None => None
    end
  else Some p.
(* CalculateNFLOGPrefixStr: fmt.Sprintf("%c%c%c%d|%s", action, owner, dir, idx, id.ID()) for a PolicyID
   (action, owner, dir are ASCII letters; idx >= 0) *)
Definition nflog_rule_text (action owner dir idx : N) (id : policy_id) : bytes :=
  action :: owner :: dir :: decimal idx ++ bar :: policy_text id.

(* libcalico-go/lib/backend/k8s/conversion VethNameForWorkload: prefix ++ hex(sha1(ns "." pod))[:11] *)
Definition veth_name (H1 : bytes -> bytes) (ns pod : bytes) : bytes :=
  cali ++ firstn 11 (H1 (ns ++ dot :: pod)).

(* libcalico-go/lib/ipam/vmipam CreateVMHandleID *)
Definition default_network : bytes := Eval compute in bs "k8s-pod-network".
Definition t_vmi : bytes := Eval compute in bs ".vmi.".
Definition vm_handle_id (clamp : bool) (H : bytes -> bytes) (net ns vm : bytes) : option bytes :=
  let net := match net with [] => default_network | _ => net end in
  gllid clamp H (net ++ t_vmi) (ns ++ dot :: vm) 128.

(* felix/rules/rule_defs.go: the chains (and nftables maps) with fixed names, in the order the driver lists them *)
Definition static_chains : list bytes := Eval compute in
  map bs ["cali-INPUT"; "cali-FORWARD"; "cali-OUTPUT"; "cali-PREROUTING"; "cali-POSTROUTING";
          "cali-untracked-flows"; "cali-untracked-policy"; "cali-failsafe-in"; "cali-failsafe-out";
          "cali-nat-outgoing"; "cali-egress-dscp"; "cali-fip-dnat"; "cali-fip-snat"; "cali-cidr-block";
          "cali-wl-to-host"; "cali-from-wl-dispatch"; "cali-to-wl-dispatch"; "cali-arp-dispatch";
          "cali-to-host-endpoint"; "cali-from-host-endpoint"; "cali-to-hep-forward"; "cali-from-hep-forward";
          "cali-set-endpoint-mark"; "cali-from-endpoint-mark"; "cali-forward-check"; "cali-forward-endpoint-mark";
          "cali-wireguard-incoming-mark"; "cali-rpf-skip"; "cali-rpf"]%string.
Definition pfx_arp : bytes := Eval compute in bs "cali-arp-".
Definition arp_dispatch : bytes := Eval compute in bs "cali-arp-dispatch".
Definition iface_dispatch : bytes := Eval compute in bs "dispatch".

(* ---------- identities handed to the name builders ---------- *)

Inductive set_src :=
| SetStatic (id : bytes)              (* fixed IDs such as "this-host" *)
| SetHashed (tag content : bytes).    (* ID = MakeUniqueID(tag, content) *)

Inductive ident :=
| IdRaw (p s : bytes) (max : nat)                       (* GetLengthLimitedID called directly *)
| IdPolicy (inbound nft : bool) (id : policy_id)        (* PolicyChainName *)
| IdProfile (inbound nft : bool) (name : bytes)         (* ProfileChainName *)
| IdEndpoint (pfx iface : bytes) (nft : bool)           (* EndpointChainName *)
| IdGroup (inbound : bool) (sel : bytes) (pols : list policy_id)   (* PolicyGroup.ChainName *)
| IdMainSet (v6 : bool) (src : set_src)                 (* NameForMainIPSet *)
| IdTempSet (v6 : bool) (n : N)                         (* NameForTempIPSet *)
| IdPolText (id : policy_id)                            (* PolicyID.ID() *)
| IdUnique (tag content : bytes)                        (* MakeUniqueID *)
| IdNftSet (v6 : bool) (src : set_src)                  (* nftables LegalizeSetName(NameForMainIPSet) *)
| IdNflog (text : bytes)                                (* rules.maybeHash *)
| IdNflogRule (action owner dir idx : N) (id : policy_id)   (* CalculateNFLOGPrefixStr *)
| IdVeth (ns pod : bytes)                               (* VethNameForWorkload *)
| IdVMHandle (net ns vm : bytes)                        (* CreateVMHandleID *)
| IdStaticChain (k : nat).                              (* k-th fixed chain name of rule_defs.go *)

Section ModelName.
  Variable clamp : bool.
  Variable H256 H224 H3 H1 : bytes -> bytes.   (* H1: hex text of sha1 *)

  Definition set_id (src : set_src) : bytes :=
    match src with
    | SetStatic id => id
    | SetHashed tag content => make_unique_id H224 tag content
    end.

  (* the name (or text) the code produces for an identity; None = panic *)
  Definition model_name (i : ident) : option bytes :=
    match i with
    | IdRaw p s max => gllid clamp H256 p s max
    | IdPolicy inb nft id => policy_chain clamp H256 inb nft id
    | IdProfile inb nft name => profile_chain clamp H256 inb nft name
    | IdEndpoint pfx iface nft => endpoint_chain clamp H256 pfx iface (max_chain nft)
    | IdGroup inb sel pols => Some (group_chain H3 inb sel pols)
    | IdMainSet v6 src => Some (main_set_name cali v6 (set_id src))
    | IdTempSet v6 n => Some (temp_set_name cali v6 n)
    | IdPolText id => Some (policy_text id)
    | IdUnique tag content => Some (make_unique_id H224 tag content)
    | IdNftSet v6 src => Some (nft_set_name v6 (set_id src))
    | IdNflog text => maybe_hash clamp H256 text
    | IdNflogRule a o d i id => maybe_hash clamp H256 (nflog_rule_text a o d i id)
    | IdVeth ns pod => Some (veth_name H1 ns pod)
    | IdVMHandle net ns vm => vm_handle_id clamp H256 net ns vm
    | IdStaticChain k => nth_error static_chains k
    end.
End ModelName.
