(* C22 — the full state part of the oracle (including the clause named_has_affinity) answers true on every reachable
   store of a system whose clients act for pairwise distinct hosts. *)
From Coq Require Import List NArith Bool Arith Lia.
From Verif.Common Require Import Cas.
From Verif.C19 Require Import Model BlockLemmas.
From Verif.C22 Require Import Model RG Spec Meets.
From Verif.C22 Require RG3 Sys3 Proofs3 Final3.
Import ListNotations.
Open Scope N_scope.

Lemma In_dump_blk s c b : wf s -> In (KBlock c, VBlock b) (store_dump s) -> blk_at s c = Some b.
Proof.
  intros [ND _] Hin. unfold store_dump in Hin. apply in_map_iff in Hin. destruct Hin as (e & EQ & Hin).
  inversion EQ as [[EK EV]]. pose proof (In_lookup _ _ ND Hin) as L. rewrite EK in L.
  unfold blk_at, s_lookup. rewrite L, EV. reflexivity.
Qed.

Lemma named_has_affinity_true s : wf s ->
  (forall c b h, blk_at s c = Some b -> bk_aff b = Some h -> aff_at s h c <> None) ->
  named_has_affinity (store_dump s) = true.
Proof.
  intros W I3. unfold named_has_affinity. apply forallb_forall. intros [k v] Hin.
  destruct k as [c|x|h c]; auto. destruct v as [b|st|m]; auto.
  destruct (bk_aff b) as [h|] eqn:AF; auto. rewrite d_aff_dump.
  pose proof (In_dump_blk _ _ _ W Hin) as B. specialize (I3 c b h B AF).
  destruct (aff_at s h c); [reflexivity | contradiction].
Qed.

Lemma model_meets_spec_full cf fx clients evs : NoDup (map fst clients) ->
  state_ok true (store_dump (sy_store (sys_run cf fx (sys0 cf fx clients) evs))) = true.
Proof.
  intros ND.
  destruct (Sys3.sys_run_ok cf fx Final3.any_op3 (fun host o _ => Proofs3.compile22_safe cf fx host o) evs _
              (Sys3.sys0_ok cf fx Final3.any_op3 (fun host o _ => Proofs3.compile22_safe cf fx host o) clients ND
                 (Final3.all_supported3 clients))) as (W & [I1 I3] & _).
  unfold state_ok.
  rewrite (one_confirmed_true _ W I1), (confirmed_match_true _ W I1), (named_has_affinity_true _ W I3). reflexivity.
Qed.
