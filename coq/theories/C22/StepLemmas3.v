(* C22 — what one successful write does to the invariant and the guarantee (used by Proofs.v). *)
From Coq Require Import List NArith Bool Arith Lia.
From Verif.Common Require Import Cas.
From Verif.C19 Require Import Model BlockLemmas.
From Verif.C22 Require Import Model RG3.
Import ListNotations.
Open Scope N_scope.
Set Implicit Arguments.

Lemma G_refl h s : G h s s.
Proof.
  constructor.
  - reflexivity.
  - intros c b h' _ B A. exists b; auto.
  - intros c b X Y. congruence.
  - intros c b0 b1 X Y. left. congruence.
  - intros c b0 X Y. congruence.
Qed.

(* views after a write to a key that is not a block / not an affinity *)
Lemma blk_at_other s s' k e : set_spec s s' k e -> (forall c, k <> KBlock c) -> forall c, blk_at s' c = blk_at s c.
Proof. intros [_ LK] NB c. unfold blk_at. rewrite LK. rewrite key_eqb_neq; auto. Qed.
Lemma blk_at_other_del s s' k : del_spec s s' k -> (forall c, k <> KBlock c) -> forall c, blk_at s' c = blk_at s c.
Proof. intros [_ LK] NB c. unfold blk_at. rewrite LK. rewrite key_eqb_neq; auto. Qed.
Lemma aff_lookup_other s s' k e : set_spec s s' k e -> (forall h c, k <> KAff h c) -> forall h c, s_lookup s' (KAff h c) = s_lookup s (KAff h c).
Proof. intros [_ LK] NB h c. rewrite LK. rewrite key_eqb_neq; auto. Qed.
Lemma aff_lookup_other_del s s' k : del_spec s s' k -> (forall h c, k <> KAff h c) -> forall h c, s_lookup s' (KAff h c) = s_lookup s (KAff h c).
Proof. intros [_ LK] NB h c. rewrite LK. rewrite key_eqb_neq; auto. Qed.

Lemma G_blocks_same h s s' :
  (forall c, blk_at s' c = blk_at s c) ->
  (forall h' c, h' <> h -> s_lookup s' (KAff h' c) = s_lookup s (KAff h' c)) -> G h s s'.
Proof.
  intros B A. constructor.
  - exact A.
  - intros c b h' _ X Y. exists b. rewrite B; auto.
  - intros c b X Y. rewrite B in Y. congruence.
  - intros c b0 b1 X Y. rewrite B in Y. left. congruence.
  - intros c b0 X Y. rewrite B in Y. congruence.
Qed.

Lemma Inv_views_same s s' :
  (forall c, blk_at s' c = blk_at s c) -> (forall h c, aff_at s' h c = aff_at s h c) -> Inv s -> Inv s'.
Proof.
  intros B A [I1 I3]. split.
  - intros h c X. rewrite A in X. rewrite B. apply I1; auto.
  - intros c b h X Y. rewrite B in X. rewrite A. eapply I3; eauto.
Qed.

(* ---- a write to an affinity object of host h *)
Lemma aff_at_set s s' h c st r : set_spec s s' (KAff h c) (mk (KAff h c) (VAff st) r) ->
  forall h' c', aff_at s' h' c' = if N.eqb h h' && N.eqb c c' then Some st else aff_at s h' c'.
Proof. intros [_ LK] h' c'. unfold aff_at. rewrite LK. simpl. destruct (N.eqb h h' && N.eqb c c'); reflexivity. Qed.
Lemma aff_at_del s s' h c : del_spec s s' (KAff h c) ->
  forall h' c', aff_at s' h' c' = if N.eqb h h' && N.eqb c c' then None else aff_at s h' c'.
Proof. intros [_ LK] h' c'. unfold aff_at. rewrite LK. simpl. destruct (N.eqb h h' && N.eqb c c'); reflexivity. Qed.

Lemma not_blk_aff h c : forall c', KAff h c <> KBlock c'. Proof. discriminate. Qed.
Lemma not_blk_handle x : forall c', KHandle x <> KBlock c'. Proof. discriminate. Qed.
Lemma not_aff_handle x : forall h c, KHandle x <> KAff h c. Proof. discriminate. Qed.
Lemma not_aff_blk x : forall h c, KBlock x <> KAff h c. Proof. discriminate. Qed.

Lemma G_aff_set h s s' c e : set_spec s s' (KAff h c) e -> G h s s'.
Proof.
  intros SP. apply G_blocks_same.
  - eapply blk_at_other; eauto. apply not_blk_aff.
  - intros h' c' NE. destruct SP as [_ LK]. rewrite LK. rewrite key_eqb_neq; auto. intros X; inversion X; congruence.
Qed.
Lemma G_aff_del h s s' c : del_spec s s' (KAff h c) -> G h s s'.
Proof.
  intros SP. apply G_blocks_same.
  - eapply blk_at_other_del; eauto. apply not_blk_aff.
  - intros h' c' NE. destruct SP as [_ LK]. rewrite LK. rewrite key_eqb_neq; auto. intros X; inversion X; congruence.
Qed.

Lemma Inv_aff_set s s' h c st r : set_spec s s' (KAff h c) (mk (KAff h c) (VAff st) r) ->
  (st = AConfirmed -> BlockMine h c s) -> Inv s -> Inv s'.
Proof.
  intros SP BM [I1 I3]. split.
  - intros h' c' X. rewrite (aff_at_set SP) in X.
    rewrite (blk_at_other SP (@not_blk_aff h c)).
    destruct (N.eqb h h' && N.eqb c c') eqn:E.
    + apply andb_true_iff in E. destruct E as [E1 E2]. apply N.eqb_eq in E1, E2. subst h' c'.
      inversion X; subst. apply BM; auto.
    + apply I1; auto.
  - intros c' b h' X Y. rewrite (blk_at_other SP (@not_blk_aff h c)) in X. rewrite (aff_at_set SP).
    destruct (N.eqb h h' && N.eqb c c'); [discriminate|]. eapply I3; eauto.
Qed.
Lemma Inv_aff_del s s' h c : del_spec s s' (KAff h c) -> NotMine h c s -> Inv s -> Inv s'.
Proof.
  intros SP NM [I1 I3]. split.
  - intros h' c' X. rewrite (aff_at_del SP) in X.
    rewrite (blk_at_other_del SP (@not_blk_aff h c)).
    destruct (N.eqb h h' && N.eqb c c'); [discriminate|]. apply I1; auto.
  - intros c' b h' X Y. rewrite (blk_at_other_del SP (@not_blk_aff h c)) in X. rewrite (aff_at_del SP).
    destruct (N.eqb h h' && N.eqb c c') eqn:E.
    + apply andb_true_iff in E. destruct E as [E1 E2]. apply N.eqb_eq in E1, E2. subst h' c'.
      exfalso. exact (NM b X Y).
    + eapply I3; eauto.
Qed.

(* ---- a write to a handle *)
Lemma G_handle_set h s s' x e : set_spec s s' (KHandle x) e -> G h s s'.
Proof.
  intros SP. apply G_blocks_same.
  - eapply blk_at_other; eauto. apply not_blk_handle.
  - intros h' c _. eapply aff_lookup_other; eauto. apply not_aff_handle.
Qed.
Lemma G_handle_del h s s' x : del_spec s s' (KHandle x) -> G h s s'.
Proof.
  intros SP. apply G_blocks_same.
  - eapply blk_at_other_del; eauto. apply not_blk_handle.
  - intros h' c _. eapply aff_lookup_other_del; eauto. apply not_aff_handle.
Qed.
Lemma Inv_handle_set s s' x e : set_spec s s' (KHandle x) e -> Inv s -> Inv s'.
Proof.
  intros SP. apply Inv_views_same.
  - eapply blk_at_other; eauto. apply not_blk_handle.
  - intros h c. unfold aff_at. rewrite (aff_lookup_other SP (@not_aff_handle x)). reflexivity.
Qed.
Lemma Inv_handle_del s s' x : del_spec s s' (KHandle x) -> Inv s -> Inv s'.
Proof.
  intros SP. apply Inv_views_same.
  - eapply blk_at_other_del; eauto. apply not_blk_handle.
  - intros h c. unfold aff_at. rewrite (aff_lookup_other_del SP (@not_aff_handle x)). reflexivity.
Qed.

(* ---- writes to a block *)
Lemma blk_at_set s s' c b r : set_spec s s' (KBlock c) (mk (KBlock c) (VBlock b) r) ->
  forall c', blk_at s' c' = if N.eqb c c' then Some b else blk_at s c'.
Proof. intros [_ LK] c'. unfold blk_at. rewrite LK. simpl. destruct (N.eqb c c'); reflexivity. Qed.
Lemma blk_at_del s s' c : del_spec s s' (KBlock c) ->
  forall c', blk_at s' c' = if N.eqb c c' then None else blk_at s c'.
Proof. intros [_ LK] c'. unfold blk_at. rewrite LK. simpl. destruct (N.eqb c c'); reflexivity. Qed.
Lemma aff_at_blk_set s s' c e : set_spec s s' (KBlock c) e -> forall h c', aff_at s' h c' = aff_at s h c'.
Proof. intros SP h c'. unfold aff_at. rewrite (aff_lookup_other SP (@not_aff_blk c)). reflexivity. Qed.
Lemma aff_at_blk_del s s' c : del_spec s s' (KBlock c) -> forall h c', aff_at s' h c' = aff_at s h c'.
Proof. intros SP h c'. unfold aff_at. rewrite (aff_lookup_other_del SP (@not_aff_blk c)). reflexivity. Qed.

Lemma blk_empty_new cf c h : blk_empty (new_block cf c h) = true.
Proof.
  unfold blk_empty, new_block; simpl. induction (cf_bsize cf); simpl; auto.
Qed.

(* create *)
Lemma G_blk_create h s s' c b r : set_spec s s' (KBlock c) (mk (KBlock c) (VBlock b) r) ->
  blk_at s c = None -> bk_aff b = Some h -> blk_empty b = true -> G h s s'.
Proof.
  intros SP NB AF EM. pose proof (blk_at_set SP) as BS. constructor.
  - intros h' c' _. eapply aff_lookup_other; eauto. apply not_aff_blk.
  - intros c' b0 h' NE X Y. rewrite BS. destruct (N.eqb c c') eqn:E.
    + apply N.eqb_eq in E; subst. congruence.
    + exists b0; auto.
  - intros c' b1 X Y. rewrite BS in Y. destruct (N.eqb c c') eqn:E; [|congruence].
    inversion Y; subst. auto.
  - intros c' b0 b1 X Y. rewrite BS in Y. destruct (N.eqb c c') eqn:E.
    + apply N.eqb_eq in E; subst. congruence.
    + left. congruence.
  - intros c' b0 X Y. rewrite BS in Y. destruct (N.eqb c c'); congruence.
Qed.
Lemma Inv_blk_create s s' c b r : set_spec s s' (KBlock c) (mk (KBlock c) (VBlock b) r) ->
  blk_at s c = None -> (forall h, bk_aff b = Some h -> aff_at s h c <> None) -> Inv s -> Inv s'.
Proof.
  intros SP NB AE [I1 I3]. split.
  - intros h' c' X. rewrite (aff_at_blk_set SP) in X. rewrite (blk_at_set SP).
    destruct (I1 _ _ X) as (b0 & B0 & A0).
    destruct (N.eqb c c') eqn:E.
    + apply N.eqb_eq in E; subst. congruence.
    + exists b0; auto.
  - intros c' b' h' X Y. rewrite (blk_at_set SP) in X. rewrite (aff_at_blk_set SP).
    destruct (N.eqb c c') eqn:E.
    + apply N.eqb_eq in E; subst. inversion X; subst. apply AE; auto.
    + eapply I3; eauto.
Qed.

(* update keeping the Affinity field *)
Lemma G_blk_keep h s s' c b0 b1 r : set_spec s s' (KBlock c) (mk (KBlock c) (VBlock b1) r) ->
  blk_at s c = Some b0 -> bk_aff b1 = bk_aff b0 -> G h s s'.
Proof.
  intros SP B0 AF. pose proof (blk_at_set SP) as BS. constructor.
  - intros h' c' _. eapply aff_lookup_other; eauto. apply not_aff_blk.
  - intros c' b h' NE X Y. rewrite BS. destruct (N.eqb c c') eqn:E.
    + apply N.eqb_eq in E; subst. exists b1. split; auto. congruence.
    + exists b; auto.
  - intros c' b X Y. rewrite BS in Y. destruct (N.eqb c c') eqn:E; [|congruence].
    apply N.eqb_eq in E; subst. congruence.
  - intros c' x y X Y. rewrite BS in Y. destruct (N.eqb c c') eqn:E.
    + apply N.eqb_eq in E; subst. left. congruence.
    + left. congruence.
  - intros c' x X Y. rewrite BS in Y. destruct (N.eqb c c'); congruence.
Qed.
Lemma Inv_blk_keep s s' c b0 b1 r : set_spec s s' (KBlock c) (mk (KBlock c) (VBlock b1) r) ->
  blk_at s c = Some b0 -> bk_aff b1 = bk_aff b0 -> Inv s -> Inv s'.
Proof.
  intros SP B0 AF [I1 I3]. split.
  - intros h' c' X. rewrite (aff_at_blk_set SP) in X. rewrite (blk_at_set SP).
    destruct (I1 _ _ X) as (b & B & A).
    destruct (N.eqb c c') eqn:E.
    + apply N.eqb_eq in E; subst. exists b1. split; auto. congruence.
    + exists b; auto.
  - intros c' b' h' X Y. rewrite (blk_at_set SP) in X. rewrite (aff_at_blk_set SP).
    destruct (N.eqb c c') eqn:E.
    + apply N.eqb_eq in E; subst. inversion X; subst. eapply I3; eauto. congruence.
    + eapply I3; eauto.
Qed.

(* the owner (or nobody) gives the block up: Affinity field cleared, or block deleted *)
Definition releasable (h : N) (s : store) (c : N) (b0 : block) : Prop :=
  bk_aff b0 = None \/ (bk_aff b0 = Some h /\ aff_at s h c <> Some AConfirmed).

Lemma G_blk_clear h s s' c b0 b1 r : set_spec s s' (KBlock c) (mk (KBlock c) (VBlock b1) r) ->
  blk_at s c = Some b0 -> (bk_aff b0 = None \/ bk_aff b0 = Some h) -> bk_aff b1 = None -> blk_same_allocs b0 b1 -> G h s s'.
Proof.
  intros SP B0 OW AF SA. pose proof (blk_at_set SP) as BS. constructor.
  - intros h' c' _. eapply aff_lookup_other; eauto. apply not_aff_blk.
  - intros c' b h' NE X Y. rewrite BS. destruct (N.eqb c c') eqn:E.
    + apply N.eqb_eq in E; subst. exfalso. destruct OW; congruence.
    + exists b; auto.
  - intros c' b X Y. rewrite BS in Y. destruct (N.eqb c c') eqn:E; [|congruence].
    apply N.eqb_eq in E; subst. congruence.
  - intros c' x y X Y. rewrite BS in Y. destruct (N.eqb c c') eqn:E.
    + apply N.eqb_eq in E; subst. assert (x = b0) by congruence. assert (y = b1) by congruence. subst.
      destruct OW as [O|O]; [left; congruence | right; auto].
    + left. congruence.
  - intros c' x X Y. rewrite BS in Y. destruct (N.eqb c c'); congruence.
Qed.
Lemma Inv_blk_clear h s s' c b0 b1 r : set_spec s s' (KBlock c) (mk (KBlock c) (VBlock b1) r) ->
  blk_at s c = Some b0 -> releasable h s c b0 -> bk_aff b1 = None -> Inv s -> Inv s'.
Proof.
  intros SP B0 RL AN [I1 I3]. split.
  - intros h' c' X. rewrite (aff_at_blk_set SP) in X. rewrite (blk_at_set SP).
    destruct (I1 _ _ X) as (b & B & A).
    destruct (N.eqb c c') eqn:E.
    + apply N.eqb_eq in E; subst. exfalso. assert (b = b0) by congruence. subst.
      destruct RL as [O|[O NC]]; [congruence|]. assert (h' = h) by congruence. subst. contradiction.
    + exists b; auto.
  - intros c' b' h' X Y. rewrite (blk_at_set SP) in X. rewrite (aff_at_blk_set SP).
    destruct (N.eqb c c') eqn:E.
    + apply N.eqb_eq in E; subst. inversion X; subst. congruence.
    + eapply I3; eauto.
Qed.
Lemma G_blk_del h s s' c b0 : del_spec s s' (KBlock c) ->
  blk_at s c = Some b0 -> (bk_aff b0 = None \/ (bk_aff b0 = Some h /\ blk_empty b0 = true)) -> G h s s'.
Proof.
  intros SP B0 OW. pose proof (blk_at_del SP) as BS. constructor.
  - intros h' c' _. eapply aff_lookup_other_del; eauto. apply not_aff_blk.
  - intros c' b h' NE X Y. rewrite BS. destruct (N.eqb c c') eqn:E.
    + apply N.eqb_eq in E; subst. exfalso. destruct OW as [O|[O _]]; congruence.
    + exists b; auto.
  - intros c' b X Y. rewrite BS in Y. destruct (N.eqb c c'); congruence.
  - intros c' x y X Y. rewrite BS in Y. destruct (N.eqb c c') eqn:E; [discriminate|]. left. congruence.
  - intros c' x X Y. rewrite BS in Y. destruct (N.eqb c c') eqn:E; [|congruence].
    apply N.eqb_eq in E; subst. assert (x = b0) by congruence. subst. tauto.
Qed.
Lemma Inv_blk_del h s s' c b0 : del_spec s s' (KBlock c) ->
  blk_at s c = Some b0 -> releasable h s c b0 -> Inv s -> Inv s'.
Proof.
  intros SP B0 RL [I1 I3]. split.
  - intros h' c' X. rewrite (aff_at_blk_del SP) in X. rewrite (blk_at_del SP).
    destruct (I1 _ _ X) as (b & B & A).
    destruct (N.eqb c c') eqn:E.
    + apply N.eqb_eq in E; subst. exfalso. assert (b = b0) by congruence. subst.
      destruct RL as [O|[O NC]]; [congruence|]. assert (h' = h) by congruence. subst. contradiction.
    + exists b; auto.
  - intros c' b' h' X Y. rewrite (blk_at_del SP) in X. rewrite (aff_at_blk_del SP).
    destruct (N.eqb c c'); [discriminate|]. eapply I3; eauto.
Qed.
