(* C22 — the system theorem of the same-host-robust logic (RG2.v): ANY number of clients per host, each running a
   list of operations that are safe (safeP) from the trivial assertion; any schedule; crash = abandon the operation
   in progress and go on with the next one.  No hypothesis on the hosts. *)
From Coq Require Import List NArith Bool Arith Lia.
From Verif.Common Require Import Cas.
From Verif.C19 Require Import Model BlockLemmas.
From Verif.C22 Require Import Model RG RG2.
Import ListNotations.
Open Scope N_scope.

From Verif.C22 Require Import Sys.

Section System2.
  Variable cf : config.
  Variable fx : bool.
  Variable supported : op22 -> Prop.
  Hypothesis compile_safe : forall host o, supported o ->
    safeP host (compile22 cf fx host o) Ptop Qtop.

  Definition cur_ok (host : N) (s : store) (cur : option (prog result)) : Prop :=
    match cur with
    | None => True
    | Some p => exists P, Stable2 P /\ P s /\ safeP host p P Qtop
    end.

  Definition client_ok (s : store) (cl : client) : Prop :=
    Forall supported (cl_todo cl) /\ cur_ok (cl_host cl) s (cl_cur cl).

  Definition sys_ok (y : sys) : Prop :=
    wf (sy_store y) /\ Inv (sy_store y) /\ Forall (client_ok (sy_store y)) (sy_clients y).

  Lemma settle_ok fuel : forall host s p todo done,
    Forall supported todo -> cur_ok host s (Some p) ->
    Forall supported (snd (fst (settle cf fx fuel host p todo done))) /\
    cur_ok host s (fst (fst (settle cf fx fuel host p todo done))).
  Proof.
    induction fuel as [|f IH]; intros host s p todo done FS CO.
    - destruct p as [r | rq k]; simpl.
      + destruct todo; simpl; auto.
      + auto.
    - destruct p as [r | rq k]; simpl.
      + destruct todo as [|o t]; simpl; auto.
        inversion FS; subst. apply IH; auto.
        exists Ptop. split; [apply Stable2_true|]. split; [exact I|]. apply compile_safe; auto.
      + auto.
  Qed.

  Lemma load_ok host s todo : Forall supported todo ->
    Forall supported (snd (fst (load cf fx host todo))) /\ cur_ok host s (fst (fst (load cf fx host todo))).
  Proof.
    intros FS. destruct todo as [|o t]; [simpl; auto|].
    unfold load. cbv beta iota. inversion FS; subst. apply settle_ok; auto.
    exists Ptop. split; [apply Stable2_true|]. split; [exact I|]. apply compile_safe; auto.
  Qed.

  Lemma others_step (s s' : store) : forall (l : list client) i cl',
    Forall (client_ok s) l -> (forall cl, client_ok s cl -> client_ok s' cl) -> client_ok s' cl' ->
    Forall (client_ok s') (set_nth_opt l i cl').
  Proof.
    induction l as [|a t IH]; intros i cl' F TR OK; simpl; auto.
    inversion F; subst. destruct i; constructor; auto.
    - rewrite Forall_forall in *. auto.
  Qed.

  Lemma client_transfer s rq hi cl : wf s -> Inv s -> GP hi s (fst (exec s rq)) ->
    client_ok s cl -> client_ok (fst (exec s rq)) cl.
  Proof.
    intros W I GG [FS CO]. split; auto. unfold cur_ok in *. destruct (cl_cur cl) as [p|]; auto.
    destruct CO as (P & SP & Ps & Sf). exists P. split; auto. split; auto.
    eapply SP; eauto.
  Qed.

  (* one event: the invariant is kept, and the store is unchanged or changed according to the guarantee of the
     acting client's host *)
  Lemma sys_step_ok y ev : sys_ok y ->
    sys_ok (sys_step cf fx y ev) /\
    (sy_store (sys_step cf fx y ev) = sy_store y \/
     exists cl, nth_error (sy_clients y) (ev_client ev) = Some cl /\
                GP (cl_host cl) (sy_store y) (sy_store (sys_step cf fx y ev))).
  Proof.
    intros (W & I & F). unfold sys_step.
    destruct (nth_error (sy_clients y) (ev_client ev)) as [cl|] eqn:NE; [|split; [split; [exact W|]; split; [exact I|]; exact F | left; auto]].
    assert (CLOK : client_ok (sy_store y) cl).
    { rewrite Forall_forall in F. apply F. eapply nth_error_In; eauto. }
    destruct CLOK as [FS CO].
    (* the two ways a step can end: same store / store after executing the request *)
    assert (SAME : forall cur todo, Forall supported todo -> cur_ok (cl_host cl) (sy_store y) cur ->
              sys_ok {| sy_store := sy_store y;
                        sy_clients := set_nth_opt (sy_clients y) (ev_client ev)
                                        {| cl_host := cl_host cl; cl_cur := cur; cl_todo := todo |} |}).
    { intros cur todo FS' CO'.
      assert (OK' : client_ok (sy_store y) {| cl_host := cl_host cl; cl_cur := cur; cl_todo := todo |}) by (split; auto).
      pose proof (others_step (sy_store y) (sy_store y) (sy_clients y) (ev_client ev)
                  {| cl_host := cl_host cl; cl_cur := cur; cl_todo := todo |} F (fun _ X => X) OK') as F'.
      unfold sys_ok; cbn [sy_store sy_clients]. split; [exact W|]. split; [exact I|]. exact F'. }
    assert (EXEC : forall rq cur todo, GP (cl_host cl) (sy_store y) (fst (exec (sy_store y) rq)) ->
              Inv (fst (exec (sy_store y) rq)) ->
              Forall supported todo -> cur_ok (cl_host cl) (fst (exec (sy_store y) rq)) cur ->
              sys_ok {| sy_store := fst (exec (sy_store y) rq);
                        sy_clients := set_nth_opt (sy_clients y) (ev_client ev)
                                        {| cl_host := cl_host cl; cl_cur := cur; cl_todo := todo |} |}).
    { intros rq cur todo GG I' FS' CO'.
      assert (OK' : client_ok (fst (exec (sy_store y) rq)) {| cl_host := cl_host cl; cl_cur := cur; cl_todo := todo |}) by (split; auto).
      assert (TR : forall c0, client_ok (sy_store y) c0 -> client_ok (fst (exec (sy_store y) rq)) c0).
      { intros c0 OK0. eapply client_transfer; eauto. }
      pose proof (others_step (sy_store y) (fst (exec (sy_store y) rq)) (sy_clients y) (ev_client ev)
                  {| cl_host := cl_host cl; cl_cur := cur; cl_todo := todo |} F TR OK') as F'.
      unfold sys_ok; cbn [sy_store sy_clients]. split; [apply wf_exec; exact W|]. split; [exact I'|]. exact F'. }
    unfold client_event. destruct (cl_cur cl) as [p|] eqn:CUR.
    2:{ simpl. split; [|left; auto]. replace cl with {| cl_host := cl_host cl; cl_cur := cl_cur cl; cl_todo := cl_todo cl |} by (destruct cl; reflexivity).
        rewrite CUR. apply SAME; simpl; auto. }
    unfold cur_ok in CO. destruct CO as (P & SP & Ps & Sf).
    unfold cstep, Cas.client_step.
    destruct p as [r | rq k].
    - (* a finished program that was not settled: cannot be produced by settle, handled anyway *)
      destruct (settle cf fx (S (length (cl_todo cl))) (cl_host cl) (Ret r) (cl_todo cl) []) as [[cur todo] done] eqn:ST.
      simpl. split; [|left; auto].
      pose proof (settle_ok (S (length (cl_todo cl))) (cl_host cl) (sy_store y) (Ret r) (cl_todo cl) [] FS) as X.
      rewrite ST in X. simpl in X. destruct X as [X1 X2].
      { exists P. auto. }
      apply SAME; auto.
    - simpl in Sf. destruct (Sf (sy_store y) W I Ps) as (GG & I' & (P1 & SP1 & H1 & K1) & CW).
      change (Cas.exec key_eqb key_ltb lmatch (sy_store y) rq) with (exec (sy_store y) rq).
      destruct (ev_fault ev).
      + (* no fault *)
        destruct (exec (sy_store y) rq) as [s' rs] eqn:EX. cbn [fst snd] in *.
        destruct (settle cf fx (S (length (cl_todo cl))) (cl_host cl) (k rs) (cl_todo cl) []) as [[cur todo] done] eqn:ST.
        simpl.
        pose proof (settle_ok (S (length (cl_todo cl))) (cl_host cl) s' (k rs) (cl_todo cl) [] FS) as X.
        rewrite ST in X. simpl in X. destruct X as [X1 X2]. { exists P1; auto. }
        split; [|right; exists cl; split; auto; replace s' with (fst (exec (sy_store y) rq)) by (rewrite EX; auto); auto].
        replace s' with (fst (exec (sy_store y) rq)) in * by (rewrite EX; auto).
        apply EXEC; auto.
      + (* injected conflict *)
        destruct (Cas.is_cond_write rq) eqn:CWQ.
        * destruct (CW eq_refl) as (P2 & SP2 & H2 & K2).
          destruct (settle cf fx (S (length (cl_todo cl))) (cl_host cl) (k RConflict) (cl_todo cl) []) as [[cur todo] done] eqn:ST.
          simpl.
          pose proof (settle_ok (S (length (cl_todo cl))) (cl_host cl) (sy_store y) (k RConflict) (cl_todo cl) [] FS) as X.
          rewrite ST in X. simpl in X. destruct X as [X1 X2]. { exists P2; auto. }
          split; [|left; auto]. apply SAME; auto.
        * destruct (exec (sy_store y) rq) as [s' rs] eqn:EX. cbn [fst snd] in *.
          destruct (settle cf fx (S (length (cl_todo cl))) (cl_host cl) (k rs) (cl_todo cl) []) as [[cur todo] done] eqn:ST.
          simpl.
          pose proof (settle_ok (S (length (cl_todo cl))) (cl_host cl) s' (k rs) (cl_todo cl) [] FS) as X.
          rewrite ST in X. simpl in X. destruct X as [X1 X2]. { exists P1; auto. }
          split; [|right; exists cl; split; auto; replace s' with (fst (exec (sy_store y) rq)) by (rewrite EX; auto); auto].
          replace s' with (fst (exec (sy_store y) rq)) in * by (rewrite EX; auto).
          apply EXEC; auto.
      + (* crash before the access: restart with the next operation *)
        destruct (load cf fx (cl_host cl) (cl_todo cl)) as [[cur todo] done] eqn:LD. simpl.
        pose proof (load_ok (cl_host cl) (sy_store y) (cl_todo cl) FS) as X. rewrite LD in X. simpl in X. destruct X as [X1 X2].
        split; [|left; auto]. apply SAME; auto.
      + (* crash after the access *)
        destruct (exec (sy_store y) rq) as [s' rs] eqn:EX. cbn [fst snd] in *.
        destruct (load cf fx (cl_host cl) (cl_todo cl)) as [[cur todo] done] eqn:LD. simpl.
        pose proof (load_ok (cl_host cl) s' (cl_todo cl) FS) as X. rewrite LD in X. simpl in X. destruct X as [X1 X2].
        split; [|right; exists cl; split; auto; replace s' with (fst (exec (sy_store y) rq)) by (rewrite EX; auto); auto].
        replace s' with (fst (exec (sy_store y) rq)) in * by (rewrite EX; auto).
        apply EXEC; auto.
  Qed.

  Lemma sys_run_ok evs : forall y, sys_ok y -> sys_ok (sys_run cf fx y evs).
  Proof.
    induction evs as [|ev evs IH]; intros y OK; simpl; auto.
    apply IH. apply sys_step_ok; auto.
  Qed.

  Lemma sys0_ok clients :
    Forall (fun hc => Forall supported (snd hc)) clients -> sys_ok (sys0 cf fx clients).
  Proof.
    intros FS. split; [apply wf_init|]. split.
    - intros h c X. discriminate.
    - simpl. apply Forall_forall. intros cl Hin. apply in_map_iff in Hin. destruct Hin as ([host ops] & <- & Hin).
      rewrite Forall_forall in FS. specialize (FS _ Hin). simpl in *.
      unfold start_client. pose proof (load_ok host init_store ops FS) as X.
      destruct (load cf fx host ops) as [[cur todo] done]. simpl in *. split; simpl; tauto.
  Qed.

  Theorem system_invariant2 clients evs :
    Forall (fun hc => Forall supported (snd hc)) clients ->
    Inv (sy_store (sys_run cf fx (sys0 cf fx clients) evs)).
  Proof.
    intros FS. destruct (sys_run_ok evs _ (sys0_ok clients FS)) as (_ & I & _). exact I.
  Qed.
End System2.
